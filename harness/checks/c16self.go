package checks

import (
	"bytes"
	"encoding/json"
	"fmt"
	"sort"
	"time"

	"verif/harness/c16x"
	"verif/harness/core"
)

// c16ScopesSelfTest runs Scopes.tla on hand-made event streams: one well-formed
// stream per language that must be accepted, and corrupted copies (duplicate
// declaration, captured reference, hidden built-in, reserved / illegal spelling,
// wrong member spelling, unknown entry point, unbalanced scopes) each of which
// must be rejected with exactly the expected rule.  A vacuous or over-eager
// specification makes the check exit 2.
func c16ScopesSelfTest(c *core.Ctx) bool {
	res := c16LoadReserved(c)
	if res == nil {
		return false
	}
	type L = c16x.Line
	decl := func(name, ns, sig string, id int) L {
		return L{"ev": "decl", "name": c16x.Esc(name), "cs": c16x.Codes(name), "ns": ns, "sig": sig, "id": id}
	}
	ref := func(name, k string, exp int) L { return L{"ev": "ref", "name": c16x.Esc(name), "k": k, "exp": exp} }
	open, cl := L{"ev": "open", "k": "body"}, L{"ev": "close"}
	// a small translation unit:  struct S { int a; int b; };  int g;  int f(int p) { int v; { int w; use v, p, g, S, abs } }  int f(float p) {}  entry f
	good := func(lang string) []L {
		return []L{open,
			decl("S", "type", "", 1), open, decl("a", "var", "", 2), decl("b", "var", "", 3), cl,
			decl("g", "var", "", 4),
			decl("f", "func", "(int)", 5), open, decl("p", "var", "", 6), decl("v", "var", "", 7),
			open, decl("w", "var", "", 8), ref("v", "var", 7), ref("p", "var", 6), ref("g", "var", 4), ref("S", "type", 1), ref("abs", "call", 0),
			ref("a", "member", 2), ref("w", "var", 8), cl,
			open, decl("w", "var", "", 9), ref("w", "var", 9), cl, cl,
			decl("f", "func", "(float)", 10), open, decl("p", "var", "", 11), ref("f", "call", 5), cl,
			cl, L{"ev": "ep", "name": "f"}}
	}
	type tc struct {
		name, lang string
		mut        func([]L) []L
		want       []string // expected rules (prefix before ':'), sorted
	}
	ins := func(at int, add ...L) func([]L) []L {
		return func(ls []L) []L {
			out := append([]L{}, ls[:at]...)
			out = append(out, add...)
			return append(out, ls[at:]...)
		}
	}
	repl := func(at int, with L) func([]L) []L {
		return func(ls []L) []L {
			out := append([]L{}, ls...)
			out[at] = with
			return out
		}
	}
	id := func(ls []L) []L { return ls }
	tests := []tc{
		{"well-formed", "hlsl", id, nil},
		{"well-formed", "msl", id, nil},
		{"well-formed", "glsl", id, nil},
		// duplicate declaration in one scope: the local v(7) is spelled like the parameter p(6)
		{"duplicate local", "hlsl", repl(10, decl("p", "var", "", 7)), []string{"clash", "resolve"}},
		// same-signature function redefinition
		{"function redefinition", "glsl", repl(26, decl("f", "func", "(int)", 10)), []string{"clash"}},
		// overload with another signature is legal (already in the good stream); struct tag vs variable: only C++ lets them coexist
		{"tag and variable", "msl", repl(6, decl("S", "var", "", 4)), []string{"resolve", "resolve"}},
		{"tag and variable", "hlsl", repl(6, decl("S", "var", "", 4)), []string{"clash", "resolve"}},
		// capture: the inner w is called v -> the use of v(7) finds entity 8
		{"captured reference", "msl", repl(12, decl("v", "var", "", 8)), []string{"resolve", "resolve"}},
		{"captured by inner scope", "glsl", func(ls []L) []L {
			out := append([]L{}, ls...)
			out[12] = decl("g", "var", "", 8) // inner local spelled like the global g(4)
			out[19] = ref("g", "var", 8)
			return out
		}, []string{"resolve"}},
		// a local called abs hides the built-in the generated code calls
		{"hidden built-in", "hlsl", func(ls []L) []L {
			out := append([]L{}, ls...)
			out[10] = decl("abs", "var", "", 7)
			out[13] = ref("abs", "var", 7)
			return out
		}, []string{"capture"}},
		{"reserved word", "hlsl", func(ls []L) []L {
			out := append([]L{}, ls...)
			out[6] = decl("float3", "var", "", 4)
			out[15] = ref("float3", "var", 4)
			return out
		}, []string{"reserved"}},
		{"reserved word, other case (HLSL only)", "hlsl", func(ls []L) []L {
			out := append([]L{}, ls...)
			out[6] = decl("TECHNIQUE", "var", "", 4)
			out[15] = ref("TECHNIQUE", "var", 4)
			return out
		}, []string{"reserved"}},
		{"other case is fine elsewhere", "glsl", func(ls []L) []L {
			out := append([]L{}, ls...)
			out[6] = decl("FLOAT", "var", "", 4)
			out[15] = ref("FLOAT", "var", 4)
			return out
		}, nil},
		{"gl_ prefix", "glsl", func(ls []L) []L {
			out := append([]L{}, ls...)
			out[6] = decl("gl_thing", "var", "", 4)
			out[15] = ref("gl_thing", "var", 4)
			return out
		}, []string{"legal"}},
		{"double underscore", "glsl", func(ls []L) []L {
			out := append([]L{}, ls...)
			out[6] = decl("a__b", "var", "", 4)
			out[15] = ref("a__b", "var", 4)
			return out
		}, []string{"legal"}},
		{"double underscore in C++", "msl", func(ls []L) []L {
			out := append([]L{}, ls...)
			out[6] = decl("u03b8__max", "var", "", 4)
			out[15] = ref("u03b8__max", "var", 4)
			return out
		}, []string{"implres"}},
		{"underscore + upper case in C++", "msl", func(ls []L) []L {
			out := append([]L{}, ls...)
			out[6] = decl("_Gx", "var", "", 4)
			out[15] = ref("_Gx", "var", 4)
			return out
		}, []string{"implres"}},
		{"double underscore is not a rule stated for HLSL", "hlsl", func(ls []L) []L {
			out := append([]L{}, ls...)
			out[6] = decl("a__b", "var", "", 4)
			out[15] = ref("a__b", "var", 4)
			return out
		}, nil},
		{"non-ASCII spelling", "msl", func(ls []L) []L {
			out := append([]L{}, ls...)
			out[6] = decl("é", "var", "", 4)
			out[15] = ref("é", "var", 4)
			return out
		}, []string{"legal"}},
		{"function called main", "msl", func(ls []L) []L {
			out := append([]L{}, ls...)
			out[7] = decl("main", "func", "(int)", 5)
			out[29] = ref("main", "call", 5)
			out[len(out)-1] = L{"ev": "ep", "name": "main"}
			return out
		}, []string{"reserved"}},
		{"member spelled differently", "hlsl", repl(18, ref("a_", "member", 2)), []string{"member"}},
		{"entry point not in the text", "glsl", func(ls []L) []L {
			out := append([]L{}, ls...)
			out[len(out)-1] = L{"ev": "ep", "name": "main_"}
			return out
		}, []string{"entry"}},
		{"metal hidden by a type", "msl", ins(7, decl("metal", "type", "", 5)), []string{"harness"}}, // (ids shift: harness sanity fires) -- see next
		{"unbalanced", "hlsl", func(ls []L) []L { return ls[:len(ls)-2] }, []string{"harness"}},
	}
	// "metal hidden by a type", done properly (ids renumbered)
	tests[len(tests)-2] = tc{"namespace hidden by a type", "msl", func(ls []L) []L {
		return []L{open, decl("metal", "type", "", 1), decl("f", "func", "()", 2), open, ref("metal", "nsq", 0), cl, cl, L{"ev": "ep", "name": "f"}}
	}, []string{"capture"}}
	tests = append(tests, tc{"namespace not hidden by a variable", "msl", func(ls []L) []L {
		return []L{open, decl("f", "func", "()", 1), open, decl("metal", "var", "", 2), ref("metal", "nsq", 0), cl, cl, L{"ev": "ep", "name": "f"}}
	}, nil})
	var buf bytes.Buffer
	n := 0
	for i, t := range tests {
		ls := append([]L{{"ev": "reset", "lang": t.lang, "case": i + 1}}, t.mut(good(t.lang))...)
		ls = append(ls, L{"ev": "end"})
		for _, l := range ls {
			b, _ := json.Marshal(l)
			buf.Write(b)
			buf.WriteByte('\n')
			n++
		}
	}
	r, err := c.RunTLC(core.TLCOpts{Spec: "Scopes", CfgText: c16ScopesCfg, Files: map[string][]byte{"trace.ndjson": buf.Bytes(), "reserved.ndjson": c16ReservedFile(res)},
		Workers: 1, HeapGB: 2, Timeout: 5 * time.Minute})
	if err != nil || !r.OK || len(r.Printed) == 0 {
		c.BrokenF("Scopes.tla self-test failed to run: %v %s %s\n%s", err, r.Violated, r.Err, r.Tail(25))
		return false
	}
	c.AddTLC(r)
	var v c16Verdict
	if err := json.Unmarshal([]byte(r.Printed[len(r.Printed)-1]), &v); err != nil || v.Consumed != n {
		c.BrokenF("Scopes.tla self-test: trace not fully consumed: %d of %d (%v)", v.Consumed, n, err)
		return false
	}
	got := map[int][]string{}
	for _, b := range v.Bad {
		rule := b.Rule
		for i := 0; i < len(rule); i++ {
			if rule[i] == ':' {
				rule = rule[:i]
				break
			}
		}
		got[b.C] = append(got[b.C], rule)
	}
	okAll := true
	rejected := 0
	for i, t := range tests {
		g := got[i+1]
		sort.Strings(g)
		w := append([]string{}, t.want...)
		sort.Strings(w)
		if fmt.Sprint(g) != fmt.Sprint(w) {
			c.BrokenF("Scopes.tla self-test `%s` (%s): verdicts %v, expected %v", t.name, t.lang, g, w)
			okAll = false
		}
		if len(w) > 0 {
			rejected++
		}
	}
	c.Cov["scopes_selftest_streams"] = len(tests)
	c.Cov["scopes_selftest_corrupted_streams_rejected"] = rejected
	return okAll
}

