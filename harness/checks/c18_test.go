package checks

import (
	"os"
	"strings"
	"testing"

	"verif/harness/drive"
)

// TestC18Generator: the generated programs must be accepted by the front end (the generator's own sanity), and most
// must be inside the DXIL backend's feature set.  C18_GEN_DUMP=<dir> writes the sources.
func TestC18Generator(t *testing.T) {
	n := 300
	front, be, pan := 0, 0, 0
	reasons := map[string]int{}
	for i := 0; i < n; i++ {
		p := c18Generate(1, i, c18GenOff)
		if d := os.Getenv("C18_GEN_DUMP"); d != "" {
			os.WriteFile(d+"/"+p.Name+".wgsl", []byte(p.Src), 0o644)
		}
		m, stage, err := drive.Front(p.Src)
		if err != nil {
			front++
			msg := err.Error()
			if len(msg) > 160 {
				msg = msg[:160]
			}
			reasons[stage+": "+msg]++
			if front <= 3 {
				t.Logf("front end rejects %s: %v\n%s", p.Name, err, p.Src)
			}
			continue
		}
		_, err = drive.Compile("dxil", "default", m, "")
		if err != nil {
			if strings.HasPrefix(err.Error(), "panic:") {
				pan++
			} else {
				be++
			}
			msg := err.Error()
			if len(msg) > 160 {
				msg = msg[:160]
			}
			reasons["dxil: "+msg]++
		}
	}
	t.Logf("%d programs: %d rejected by the front end, %d dxil errors, %d dxil panics", n, front, be, pan)
	for r, c := range reasons {
		t.Logf("%4d  %s", c, r)
	}
	if front > n/20 {
		t.Errorf("generator produces too many invalid programs: %d of %d", front, n)
	}
}
