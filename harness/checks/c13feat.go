package checks

import (
	"sort"
	"strings"

	"github.com/gogpu/naga/ir"
)

// c13IrFeatures names constructs of a module that known-finding predicates are written over (sorted).  They describe the
// module a pass is applied to, in the vocabulary of the passes: which kinds of local variables are stored where.
func c13IrFeatures(m *ir.Module) []string {
	set := map[string]bool{}
	for i := range m.Functions {
		if strings.HasPrefix(m.Functions[i].Name, "c13_unused") {
			continue // the decoration the harness appends to generated programs
		}
		c13FnFeatures(m, &m.Functions[i], set)
	}
	for i := range m.EntryPoints {
		c13FnFeatures(m, &m.EntryPoints[i].Function, set)
	}
	out := make([]string, 0, len(set))
	for k := range set {
		out = append(out, k)
	}
	sort.Strings(out)
	return out
}

// access is one store to / emitted load of a local variable, located by the block that holds the statement.
type c13Access struct {
	store   bool
	block   int // id of the innermost block
	pos     int // running position in the statement walk
	loops   []int
	inCase  bool
	whole   bool // the pointer is the variable itself (not a member / element)
	valueOf ir.ExpressionHandle
}

func c13FnFeatures(m *ir.Module, f *ir.Function, set map[string]bool) {
	nl := len(f.LocalVars)
	localOf := func(h ir.ExpressionHandle) (int, bool, bool) { // variable, whole, ok
		whole := true
		for d := 0; d < 16; d++ {
			if int(h) >= len(f.Expressions) {
				return 0, false, false
			}
			switch k := f.Expressions[h].Kind.(type) {
			case ir.ExprLocalVariable:
				if int(k.Variable) < nl {
					return int(k.Variable), whole, true
				}
				return 0, false, false
			case ir.ExprAccessIndex:
				h, whole = k.Base, false
			case ir.ExprAccess:
				h, whole = k.Base, false
			default:
				return 0, false, false
			}
		}
		return 0, false, false
	}
	kindOf := func(v int) string {
		if int(f.LocalVars[v].Type) >= len(m.Types) {
			return ""
		}
		switch m.Types[f.LocalVars[v].Type].Inner.(type) {
		case ir.ScalarType:
			return "scalar"
		case ir.StructType:
			return "struct"
		case ir.ArrayType:
			return "array"
		case ir.VectorType:
			return "vector"
		}
		return "other"
	}
	acc := make([][]c13Access, nl)
	type loopInfo struct{ start, end int }
	var loops []loopInfo
	blockID, pos := 0, 0
	// liveness in the manner of a mark phase: expressions reachable from statements with effects outside local variables
	live := make([]bool, len(f.Expressions))
	var mark func(h ir.ExpressionHandle)
	mark = func(h ir.ExpressionHandle) {
		if int(h) >= len(live) || live[h] {
			return
		}
		live[h] = true
		for _, o := range c13ExprOperands(f.Expressions[h].Kind) {
			mark(o)
		}
	}
	var calls []ir.StmtCall
	var walk func(b ir.Block, loopStack []int, inCase bool)
	walk = func(b ir.Block, loopStack []int, inCase bool) {
		blockID++
		me := blockID
		prevEffectFree := false
		for _, s := range b {
			pos++
			effectFreeBranch := false
			switch k := s.Kind.(type) {
			case ir.StmtEmit:
				for h := k.Range.Start; h < k.Range.End && int(h) < len(f.Expressions); h++ {
					switch e := f.Expressions[h].Kind.(type) {
					case ir.ExprLoad:
						if v, whole, ok := localOf(e.Pointer); ok {
							acc[v] = append(acc[v], c13Access{block: me, pos: pos, loops: append([]int{}, loopStack...), inCase: inCase, whole: whole})
							if whole && kindOf(v) == "struct" {
								set["struct-local-whole-load"] = true
							}
						}
					case ir.ExprPhi:
						set["phi"] = true
						if prevEffectFree {
							set["phi-after-branches-without-statements"] = true
						}
					}
				}
				prevEffectFree = prevEffectFree && true
				continue
			case ir.StmtStore:
				if v, whole, ok := localOf(k.Pointer); ok {
					acc[v] = append(acc[v], c13Access{store: true, block: me, pos: pos, loops: append([]int{}, loopStack...), inCase: inCase, whole: whole, valueOf: k.Value})
					if whole && kindOf(v) == "struct" {
						set["struct-local-whole-store"] = true
					}
				} else {
					mark(k.Pointer)
					mark(k.Value)
				}
			case ir.StmtBlock:
				walk(k.Block, loopStack, inCase)
			case ir.StmtIf:
				mark(k.Condition)
				walk(k.Accept, loopStack, inCase)
				walk(k.Reject, loopStack, inCase)
				effectFreeBranch = c13OnlyEmits(k.Accept) && c13OnlyEmits(k.Reject)
			case ir.StmtSwitch:
				set["switch"] = true
				mark(k.Selector)
				effectFreeBranch = true
				for _, c := range k.Cases {
					walk(c.Body, loopStack, true)
					if c13CaseBreaksEarly(c.Body) {
						set["switch-case-with-early-break"] = true
					}
					effectFreeBranch = effectFreeBranch && c13OnlyEmits(c.Body)
				}
			case ir.StmtLoop:
				set["loop"] = true
				loops = append(loops, loopInfo{start: pos})
				id := len(loops) - 1
				ls := append(append([]int{}, loopStack...), id)
				walk(k.Body, ls, false)
				walk(k.Continuing, ls, false)
				if k.BreakIf != nil {
					mark(*k.BreakIf)
				}
				loops[id].end = pos
			case ir.StmtReturn:
				if k.Value != nil {
					mark(*k.Value)
				}
				if len(loopStack) > 0 || inCase {
					set["return-inside-loop-or-switch"] = true
				}
			case ir.StmtCall:
				set["call"] = true
				calls = append(calls, k)
				if c13FnHasEffects(m, k.Function) {
					for _, a := range k.Arguments {
						mark(a)
					}
					if k.Result != nil {
						mark(*k.Result)
					}
				}
			case ir.StmtAtomic:
				set["atomic"] = true
				if ex, ok := k.Fun.(ir.AtomicExchange); ok && ex.Compare != nil {
					set["atomic-compare-exchange"] = true
				}
				mark(k.Pointer)
				mark(k.Value)
			}
			prevEffectFree = effectFreeBranch
		}
	}
	walk(f.Body, nil, false)

	// un-emitted loads of locals (the inliner's result slot is read like that)
	covered := map[ir.ExpressionHandle]bool{}
	var cov func(b ir.Block)
	cov = func(b ir.Block) {
		for _, s := range b {
			switch k := s.Kind.(type) {
			case ir.StmtEmit:
				for h := k.Range.Start; h < k.Range.End; h++ {
					covered[h] = true
				}
			case ir.StmtBlock:
				cov(k.Block)
			case ir.StmtIf:
				cov(k.Accept)
				cov(k.Reject)
			case ir.StmtLoop:
				cov(k.Body)
				cov(k.Continuing)
			case ir.StmtSwitch:
				for _, c := range k.Cases {
					cov(c.Body)
				}
			}
		}
	}
	cov(f.Body)
	loadsOf := make([][]ir.ExpressionHandle, nl)
	for h, e := range f.Expressions {
		if ld, ok := e.Kind.(ir.ExprLoad); ok {
			if v, _, ok := localOf(ld.Pointer); ok {
				loadsOf[v] = append(loadsOf[v], ir.ExpressionHandle(h))
				if !covered[ir.ExpressionHandle(h)] {
					set["local-load-outside-every-emit"] = true
				}
			}
		}
	}

	inLoop := func(a c13Access, id int) bool {
		for _, l := range a.loops {
			if l == id {
				return true
			}
		}
		return false
	}
	for v := 0; v < nl; v++ {
		kind := kindOf(v)
		as := acc[v]
		var stores, loads []c13Access
		for _, a := range as {
			if a.store {
				stores = append(stores, a)
			} else {
				loads = append(loads, a)
			}
		}
		if kind == "scalar" {
			for _, a := range stores {
				if len(a.loops) > 0 {
					set["scalar-local-stored-in-loop"] = true
				}
				if a.inCase {
					set["scalar-local-stored-in-switch-case"] = true
				}
			}
			// stored before a loop (outside it) and again inside that loop
			for id := range loops {
				before, inside := false, false
				for _, a := range stores {
					if inLoop(a, id) {
						inside = true
					} else if a.pos < loops[id].start {
						before = true
					}
				}
				if before && inside {
					set["scalar-local-stored-before-a-loop-and-inside-it"] = true
				}
			}
			// every store and every emitted load in one block that lies inside a loop, and the first access there is a load
			if len(as) > 0 && len(loads) > 0 && len(stores) > 0 && len(as[0].loops) > 0 {
				same := true
				for _, a := range as {
					if a.block != as[0].block {
						same = false
					}
				}
				first := as[0]
				for _, a := range as {
					if a.pos < first.pos {
						first = a
					}
				}
				if same && !first.store {
					set["scalar-local-confined-to-a-block-inside-a-loop-and-read-before-written"] = true
				}
			}
		}
	}
	// Liveness twice: `live` above is the strict marking (what is reachable from statements with effects outside local
	// variables, not looking through stores to locals or calls of effect-free helpers); `full` closes it: the value stored
	// into a local one of whose loads is live is live, the arguments of a call whose result is live are live.  A local
	// that is live only in the closure is what a one-shot dead-local analysis gets wrong.
	full := append([]bool{}, live...)
	var markFull func(h ir.ExpressionHandle)
	markFull = func(h ir.ExpressionHandle) {
		if int(h) >= len(full) || full[h] {
			return
		}
		full[h] = true
		for _, o := range c13ExprOperands(f.Expressions[h].Kind) {
			markFull(o)
		}
	}
	for changed := true; changed; {
		changed = false
		count := 0
		for _, b := range full {
			if b {
				count++
			}
		}
		for v := 0; v < nl; v++ {
			lv := false
			for _, h := range loadsOf[v] {
				if full[h] {
					lv = true
				}
			}
			if lv {
				for _, a := range acc[v] {
					if a.store {
						markFull(a.valueOf)
					}
				}
			}
		}
		for _, k := range calls {
			if k.Result != nil && int(*k.Result) < len(full) && full[*k.Result] {
				for _, a := range k.Arguments {
					markFull(a)
				}
			}
		}
		after := 0
		for _, b := range full {
			if b {
				after++
			}
		}
		changed = after != count
	}
	for v := 0; v < nl; v++ {
		strict, closed := false, false
		for _, h := range loadsOf[v] {
			strict = strict || live[h]
			closed = closed || full[h]
		}
		if closed && !strict {
			set["local-live-only-through-stores-to-locals-or-calls-of-pure-helpers"] = true
		}
	}
}

// c13FnHasEffects: the callee stores outside its locals, uses atomics, barriers or calls (the test the dce pass applies).
func c13FnHasEffects(m *ir.Module, fh ir.FunctionHandle) bool {
	if int(fh) >= len(m.Functions) {
		return true
	}
	f := &m.Functions[fh]
	isLocal := func(h ir.ExpressionHandle) bool {
		for d := 0; d < 16 && int(h) < len(f.Expressions); d++ {
			switch k := f.Expressions[h].Kind.(type) {
			case ir.ExprLocalVariable:
				return true
			case ir.ExprAccessIndex:
				h = k.Base
			case ir.ExprAccess:
				h = k.Base
			default:
				return false
			}
		}
		return false
	}
	var walk func(b ir.Block) bool
	walk = func(b ir.Block) bool {
		for _, s := range b {
			switch k := s.Kind.(type) {
			case ir.StmtStore:
				if !isLocal(k.Pointer) {
					return true
				}
			case ir.StmtAtomic, ir.StmtBarrier, ir.StmtKill, ir.StmtCall, ir.StmtImageStore, ir.StmtImageAtomic, ir.StmtWorkGroupUniformLoad, ir.StmtRayQuery:
				return true
			case ir.StmtBlock:
				if walk(k.Block) {
					return true
				}
			case ir.StmtIf:
				if walk(k.Accept) || walk(k.Reject) {
					return true
				}
			case ir.StmtLoop:
				if walk(k.Body) || walk(k.Continuing) {
					return true
				}
			case ir.StmtSwitch:
				for _, c := range k.Cases {
					if walk(c.Body) {
						return true
					}
				}
			}
		}
		return false
	}
	return walk(f.Body)
}

func c13OnlyEmits(b ir.Block) bool {
	for _, s := range b {
		if _, ok := s.Kind.(ir.StmtEmit); !ok {
			return false
		}
	}
	return true
}

// c13CaseBreaksEarly: a break somewhere in the case body other than as its last statement.
func c13CaseBreaksEarly(b ir.Block) bool {
	var has func(b ir.Block) bool
	has = func(b ir.Block) bool {
		for _, s := range b {
			switch k := s.Kind.(type) {
			case ir.StmtBreak:
				return true
			case ir.StmtBlock:
				if has(k.Block) {
					return true
				}
			case ir.StmtIf:
				if has(k.Accept) || has(k.Reject) {
					return true
				}
			}
		}
		return false
	}
	for i, s := range b {
		switch k := s.Kind.(type) {
		case ir.StmtBreak:
			if i != len(b)-1 {
				return true
			}
		case ir.StmtBlock:
			if has(k.Block) {
				return true
			}
		case ir.StmtIf:
			if has(k.Accept) || has(k.Reject) {
				return true
			}
		}
	}
	return false
}

// c13ExprOperands lists the expression handles an expression refers to (covered kinds).
func c13ExprOperands(kind ir.ExpressionKind) []ir.ExpressionHandle {
	switch k := kind.(type) {
	case ir.ExprCompose:
		return k.Components
	case ir.ExprAccess:
		return []ir.ExpressionHandle{k.Base, k.Index}
	case ir.ExprAccessIndex:
		return []ir.ExpressionHandle{k.Base}
	case ir.ExprSplat:
		return []ir.ExpressionHandle{k.Value}
	case ir.ExprSwizzle:
		return []ir.ExpressionHandle{k.Vector}
	case ir.ExprLoad:
		return []ir.ExpressionHandle{k.Pointer}
	case ir.ExprAlias:
		return []ir.ExpressionHandle{k.Source}
	case ir.ExprPhi:
		var out []ir.ExpressionHandle
		for _, i := range k.Incoming {
			out = append(out, i.Value)
		}
		return out
	case ir.ExprUnary:
		return []ir.ExpressionHandle{k.Expr}
	case ir.ExprBinary:
		return []ir.ExpressionHandle{k.Left, k.Right}
	case ir.ExprSelect:
		return []ir.ExpressionHandle{k.Condition, k.Accept, k.Reject}
	case ir.ExprRelational:
		return []ir.ExpressionHandle{k.Argument}
	case ir.ExprMath:
		out := []ir.ExpressionHandle{k.Arg}
		for _, p := range []*ir.ExpressionHandle{k.Arg1, k.Arg2, k.Arg3} {
			if p != nil {
				out = append(out, *p)
			}
		}
		return out
	case ir.ExprAs:
		return []ir.ExpressionHandle{k.Expr}
	case ir.ExprArrayLength:
		return []ir.ExpressionHandle{k.Array}
	}
	return nil
}

// c13ExprCycle reports whether some function's expression arena has a cyclic operand reference (or an operand out of
// range).  naga's own code (ir.Validate, the SPIR-V backend) recurses along operands without a guard: a module like
// that must not be handed to it (a stack overflow cannot be recovered from).
func c13ExprCycle(m *ir.Module) bool {
	check := func(f *ir.Function) bool {
		n := len(f.Expressions)
		state := make([]uint8, n) // 0 new, 1 on the path, 2 done
		type frame struct {
			h   int
			ops []ir.ExpressionHandle
			i   int
		}
		for root := 0; root < n; root++ {
			if state[root] != 0 {
				continue
			}
			stack := []frame{{h: root, ops: c13ExprOperands(f.Expressions[root].Kind)}}
			state[root] = 1
			for len(stack) > 0 {
				fr := &stack[len(stack)-1]
				if fr.i == len(fr.ops) {
					state[fr.h] = 2
					stack = stack[:len(stack)-1]
					continue
				}
				o := int(fr.ops[fr.i])
				fr.i++
				if o >= n {
					return true
				}
				switch state[o] {
				case 1:
					return true
				case 0:
					state[o] = 1
					stack = append(stack, frame{h: o, ops: c13ExprOperands(f.Expressions[o].Kind)})
				}
			}
		}
		return false
	}
	for i := range m.Functions {
		if check(&m.Functions[i]) {
			return true
		}
	}
	for i := range m.EntryPoints {
		if check(&m.EntryPoints[i].Function) {
			return true
		}
	}
	return false
}
