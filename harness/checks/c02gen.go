package checks

import (
	"fmt"
	"math/rand"
	"sort"
	"strings"
)

// c02Generate returns n seeded WGSL programs that stress the parts of the SPIR-V backend the table families do not reach:
// stage interfaces (locations, built-ins, interpolation, several render targets), textures and samplers of every
// dimensionality (sampling, loads, stores, queries, gathers), atomics in storage and workgroup memory, workgroup and private
// variables, helper functions with pointer parameters and early returns, nested structured control flow with break /
// continue / return / discard in odd places, and several entry points sharing globals.  Programs the front end rejects
// are dropped by the caller (counted, never judged).
func c02Generate(rng *rand.Rand, n int, small bool) []string {
	out := make([]string, 0, n)
	for i := 0; i < n; i++ {
		g := &c02g{rng: rng, used: map[string]bool{}, small: small}
		out = append(out, g.program())
	}
	return out
}

type c02g struct {
	rng   *rand.Rand
	used  map[string]bool
	stage string // compute | vertex | fragment | helper
	loop  int    // loop nesting depth (break / continue allowed)
	sw    int    // switch nesting depth
	tmp   int
	small bool // quick tier: one or two entry points with short bodies
}

// global declarations, emitted only when used
var c02Globals = map[string]string{
	"sa":     "struct SA { x: atomic<u32>, y: atomic<i32>, z: array<atomic<u32>, 4> }\n@group(0) @binding(0) var<storage, read_write> sa: SA;",
	"sb":     "struct SB { n: u32, data: array<f32> }\n@group(0) @binding(1) var<storage, read_write> sb: SB;",
	"ub":     "struct UB { m: mat4x4<f32>, v: vec4<f32>, arr: array<vec4<i32>, 4>, m2: mat3x2<f32>, k: i32 }\n@group(0) @binding(2) var<uniform> ub: UB;",
	"sro":    "@group(0) @binding(3) var<storage, read> sro: array<vec4<u32>>;",
	"wg_arr": "var<workgroup> wg_arr: array<i32, 8>;",
	"wg_at":  "var<workgroup> wg_at: atomic<u32>;",
	"wg_m":   "var<workgroup> wg_m: mat2x2<f32>;",
	"pv":     "var<private> pv: i32 = 3;",
	"pvv":    "var<private> pvv: vec3<f32>;",
	"t2d":    "@group(1) @binding(0) var t2d: texture_2d<f32>;",
	"t2da":   "@group(1) @binding(1) var t2da: texture_2d_array<f32>;",
	"tcube":  "@group(1) @binding(2) var tcube: texture_cube<f32>;",
	"t3d":    "@group(1) @binding(3) var t3d: texture_3d<f32>;",
	"t1d":    "@group(1) @binding(4) var t1d: texture_1d<f32>;",
	"tms":    "@group(1) @binding(5) var tms: texture_multisampled_2d<f32>;",
	"tdepth": "@group(1) @binding(6) var tdepth: texture_depth_2d;",
	"tuint":  "@group(1) @binding(7) var tuint: texture_2d<u32>;",
	"tsint":  "@group(1) @binding(8) var tsint: texture_2d<i32>;",
	"tcubea": "@group(1) @binding(9) var tcubea: texture_cube_array<f32>;",
	"tdcube": "@group(1) @binding(10) var tdcube: texture_depth_cube;",
	"tda":    "@group(1) @binding(11) var tda: texture_depth_2d_array;",
	"tdms":   "@group(1) @binding(12) var tdms: texture_depth_multisampled_2d;",
	"smp":    "@group(2) @binding(0) var smp: sampler;",
	"smpc":   "@group(2) @binding(1) var smpc: sampler_comparison;",
	"tst":    "@group(3) @binding(0) var tst: texture_storage_2d<rgba8unorm, write>;",
	"tstu":   "@group(3) @binding(1) var tstu: texture_storage_2d<r32uint, read_write>;",
	"tst1":   "@group(3) @binding(2) var tst1: texture_storage_1d<r32float, write>;",
	"tst3":   "@group(3) @binding(3) var tst3: texture_storage_3d<rgba16float, write>;",
	"tsta":   "@group(3) @binding(4) var tsta: texture_storage_2d_array<rgba32sint, write>;",
	"tstr":   "@group(3) @binding(5) var tstr: texture_storage_2d<rg32float, read>;",
	"h_ptr": `fn h_ptr(p: ptr<function, i32>, k: i32) -> i32 {
  *p = *p + k;
  if *p > 10 { return k; }
  for (var i = 0; i < k; i++) { if i == 2 { continue; } *p = *p + i; if *p > 40 { break; } }
  return *p;
}`,
	"h_early": `fn h_early(a: vec4<f32>, k: i32) -> vec4<f32> {
  var r = a;
  loop {
    if r.x > 4.0 { return r; }
    r = r * 2.0;
    switch k { case 0: { r.y = 1.0; } case 1, 2: { return r.wzyx; } default: { break; } }
    continuing { r.x = r.x + 1.0; break if r.x > 3.0; }
  }
  return r + a;
}`,
	"h_priv": `fn h_priv(q: ptr<private, i32>) { *q = *q * 2; }`,
	"h_void": `fn h_void(k: u32) { if k == 0u { return; } }`,
	// globals referenced only from helpers (never from the entry point itself): the interface list of SPIR-V >= 1.4
	// has to find them through the call tree
	"h_glob": `fn h_glob(k: i32) -> i32 { hp = hp + 1; return hu.y + k + hp; }`,
	"hp":     "var<private> hp: i32 = 1;",
	"hu":     "@group(0) @binding(4) var<uniform> hu: vec4<i32>;",
	"h_wg":   `fn h_wg(k: u32) -> u32 { hw[k & 3u] = k; return hw[(k + 1u) & 3u] + h_deep(k); }`,
	"h_deep": `fn h_deep(k: u32) -> u32 { return hs[k & 1u] + k; }`,
	"hw":     "var<workgroup> hw: array<u32, 4>;",
	"hs":     "@group(0) @binding(5) var<storage, read> hs: array<u32, 2>;",
}

var c02GlobalDeps = map[string][]string{"h_priv": {"pv"}, "h_glob": {"hp", "hu"}, "h_wg": {"hw", "h_deep"}, "h_deep": {"hs"}}

type c02Leaf struct {
	code  string
	needs []string
	stage string // "" any, else the only stage it may appear in
	rare  bool   // triggers a known finding of the pinned tree: chosen seldom, so that most programs are judged to the end
}

var c02Leaves = []c02Leaf{
	{"uacc = uacc + atomicAdd(&sa.x, 1u);", []string{"sa"}, "", false},
	{"atomicMax(&sa.y, iacc); iacc = atomicExchange(&sa.y, iacc);", []string{"sa"}, "", false},
	{"{ let r = atomicCompareExchangeWeak(&sa.x, uacc, 3u); if r.exchanged { uacc = r.old_value; } }", []string{"sa"}, "", false},
	{"atomicStore(&sa.z[uacc & 3u], atomicLoad(&sa.x) ^ 5u); uacc = atomicAnd(&sa.z[1], uacc) | atomicOr(&sa.z[2], 1u) | atomicXor(&sa.z[3], uacc);", []string{"sa"}, "", false},
	{"iacc = atomicMin(&sa.y, iacc) - atomicSub(&sa.y, 2);", []string{"sa"}, "", false},
	{"wg_arr[uacc % 8u] = iacc; iacc = wg_arr[(uacc + 1u) % 8u];", []string{"wg_arr"}, "compute", false},
	{"uacc += atomicAdd(&wg_at, 1u); atomicStore(&wg_at, uacc);", []string{"wg_at"}, "compute", false},
	{"wg_m[iacc & 1] = acc.xy; acc.z = wg_m[1].x;", []string{"wg_m"}, "compute", false},
	{"sb.data[uacc % arrayLength(&sb.data)] = acc.x; acc.y = sb.data[1] + f32(sb.n);", []string{"sb"}, "", false},
	{"acc = acc + ub.m * ub.v; iacc += ub.arr[iacc & 3].x + ub.k; acc.x += (ub.m2 * acc.xyz).y;", []string{"ub"}, "", false},
	{"uacc ^= sro[uacc % arrayLength(&sro)].y;", []string{"sro"}, "", false},
	{"pv = pv + 1; iacc += pv;", []string{"pv"}, "", false},
	{"pvv = acc.xyz; acc.w = length(pvv);", []string{"pvv"}, "", false},
	{"h_priv(&pv);", []string{"h_priv", "pv"}, "", false},
	{"iacc = h_ptr(&iacc, 2);", []string{"h_ptr"}, "", false},
	{"acc = h_early(acc, iacc);", []string{"h_early"}, "", false},
	{"h_void(uacc);", []string{"h_void"}, "", false},
	{"iacc += h_glob(iacc);", []string{"h_glob"}, "", false},
	{"uacc += h_wg(uacc);", []string{"h_wg"}, "compute", false},
	{"acc = mix(acc, vec4<f32>(f32(iacc)), 0.5); acc = clamp(acc, vec4<f32>(0.0), vec4<f32>(1.0));", nil, "", false},
	{"uacc = countOneBits(uacc) + firstLeadingBit(uacc) + firstTrailingBit(uacc) + reverseBits(uacc) + countLeadingZeros(uacc);", nil, "", false},
	{"iacc = dot(vec2<i32>(iacc), vec2<i32>(2, 3)) + abs(iacc) + sign(iacc) + max(iacc, 2) + firstLeadingBit(iacc);", nil, "", false},
	{"uacc = pack4x8unorm(acc) + pack2x16float(acc.xy) + pack4x8snorm(acc) + pack2x16unorm(acc.zw) + pack2x16snorm(acc.xy); acc = unpack4x8unorm(uacc) + unpack4x8snorm(uacc) + vec4<f32>(unpack2x16float(uacc), unpack2x16unorm(uacc));", nil, "", false},
	{"{ let fr = frexp(acc.x); acc.y = fr.fract + f32(fr.exp); let md = modf(acc.zw); acc.w = md.whole.x + md.fract.y; acc.x = ldexp(acc.x, iacc); }", nil, "", false},
	{"acc = select(acc, acc.wzyx, acc.x > 0.5); acc = select(acc, acc.yxwz, vec4<bool>(true, false, acc.y < 0.0, false));", nil, "", false},
	{"iacc = (i32(acc.x) >> (uacc & 7u)) | (iacc << 1u); uacc = extractBits(uacc, 2u, 3u) + insertBits(uacc, 1u, 4u, 2u); iacc = extractBits(iacc, 1u, 5u);", nil, "", false},
	{"{ let m3 = mat3x3<f32>(acc.xyz, acc.yzw, acc.zwx); acc.x = determinant(m3) + transpose(m3)[1].z; acc = vec4<f32>(m3 * acc.xyz, (acc.xyz * m3).y); let m32 = mat3x2<f32>(acc.xy, acc.zw, acc.xy) * m3; acc.y = m32[2].x; }", nil, "", false},
	{"acc.x = f32(uacc) / 3.0 + f32(iacc % 5) + f32(uacc / 3u) + f32(iacc / 2) + f32(uacc % 7u); acc.y = acc.x % 2.5;", nil, "", false},
	{"acc = vec4<f32>(cross(acc.xyz, acc.yzx), distance(acc.xy, acc.zw)) + normalize(acc) + reflect(acc, acc.yzwx) + refract(acc, acc.yzwx, 0.5) + faceForward(acc, acc, acc.wzyx);", nil, "", false},
	{"acc = smoothstep(vec4<f32>(0.0), vec4<f32>(1.0), acc) + step(acc, acc.yzwx) + fma(acc, acc, acc) + pow(acc, vec4<f32>(2.0)) + inverseSqrt(abs(acc) + 1.0) + fract(acc) + trunc(acc) + round(acc) + ceil(acc) + exp2(acc) + log2(abs(acc) + 1.0) + degrees(acc) + radians(acc) + tanh(acc) + atan2(acc, acc.yzwx);", nil, "", false},
	{"{ var arr = array<vec2<f32>, 3>(acc.xy, acc.zw, acc.yx); arr[iacc & 1] = arr[2]; acc.x = arr[uacc % 3u].y; var st: UBL; st.a[1] = iacc; st.b = acc.xyz; iacc = st.a[uacc & 1u]; }", []string{"UBL"}, "", false},
	{"if all(acc > vec4<f32>(0.0)) || any(acc.xy < acc.zw) { acc.x = 1.0; }", nil, "", false},
	{"acc.x = f32(bitcast<i32>(uacc)) + bitcast<f32>(iacc); uacc = bitcast<u32>(acc.y); acc = bitcast<vec4<f32>>(vec4<u32>(uacc));", nil, "", false},
	{"acc += textureSample(t2d, smp, fc);", []string{"t2d", "smp"}, "fragment", false},
	{"acc += textureSampleBias(t2d, smp, fc, 0.5) + textureSample(t2d, smp, fc, vec2<i32>(1, -1));", []string{"t2d", "smp"}, "fragment", false},
	{"acc += textureSample(t2da, smp, fc, iacc) + textureSample(tcube, smp, acc.xyz) + textureSample(t3d, smp, acc.xyz) + textureSample(t1d, smp, acc.x);", []string{"t2da", "tcube", "t3d", "t1d", "smp"}, "fragment", false},
	{"acc.x += textureSampleCompare(tdepth, smpc, fc, 0.5) + textureSample(tdepth, smp, fc) + textureSampleCompare(tdcube, smpc, acc.xyz, 0.5) + textureSampleCompare(tda, smpc, fc, iacc, 0.5);", []string{"tdepth", "smpc", "smp", "tdcube", "tda"}, "fragment", false},
	{"acc += textureSample(tcubea, smp, acc.xyz, iacc);", []string{"tcubea", "smp"}, "fragment", false},
	{"acc += dpdx(acc) + dpdy(acc) + fwidth(acc); acc.x += dpdxFine(acc.x) + dpdyCoarse(acc.y) + fwidthFine(acc.z);", nil, "fragment", false},
	{"if acc.w < 0.25 { discard; }", nil, "fragment", false},
	{"acc += textureSampleLevel(t2d, smp, fc, 1.0) + textureSampleGrad(t2d, smp, fc, fc, fc.yx) + textureSampleLevel(t2da, smp, fc, uacc, 0.0) + textureSampleLevel(tcube, smp, acc.xyz, 2.0);", []string{"t2d", "t2da", "tcube", "smp"}, "", false},
	{"acc.x += textureSampleCompareLevel(tdepth, smpc, fc, 0.5) + textureSampleLevel(tdepth, smp, fc, 1);", []string{"tdepth", "smpc", "smp"}, "", false},
	{"acc += textureLoad(t2d, vec2<i32>(iacc, 1), 0) + textureLoad(tms, vec2<i32>(1, 1), iacc) + textureLoad(t1d, iacc, 0) + textureLoad(t3d, vec3<i32>(iacc), 1) + textureLoad(t2da, vec2<u32>(uacc), 1, 0);", []string{"t2d", "tms", "t1d", "t3d", "t2da"}, "", false},
	{"acc.x += textureLoad(tdepth, vec2<i32>(1), 0) + textureLoad(tdms, vec2<i32>(1), 1) + textureLoad(tda, vec2<i32>(1), 1, 0);", []string{"tdepth", "tdms", "tda"}, "", false},
	{"uacc += textureLoad(tuint, vec2<u32>(uacc, 1u), 0).x; iacc += textureLoad(tsint, vec2<i32>(iacc), 0).y;", []string{"tuint", "tsint"}, "", true},
	{"uacc += textureLoad(tuint, vec2<u32>(uacc, 1u), 0).x; { let ti = textureLoad(tsint, vec2<i32>(iacc), 0); iacc += i32(ti.x > 2); }", []string{"tuint", "tsint"}, "", false},
	{"{ let d = textureDimensions(t2d); let d1 = textureDimensions(t2d, 1); let d3 = textureDimensions(t3d); let dc = textureDimensions(tcube); uacc += d.x + d1.y + d3.z + dc.x + textureDimensions(t1d) + textureDimensions(tms).y + textureDimensions(tdepth).x; }", []string{"t2d", "t3d", "tcube", "t1d", "tms", "tdepth"}, "", false},
	{"uacc += textureNumLevels(tcube) + textureNumLayers(t2da) + textureNumSamples(tms) + textureNumLevels(t2d) + textureNumLayers(tcubea) + textureNumLevels(tdepth);", []string{"tcube", "t2da", "tms", "t2d", "tcubea", "tdepth"}, "", false},
	{"acc += textureGather(1, t2d, smp, fc) + textureGatherCompare(tdepth, smpc, fc, 0.5) + textureGather(0, tcube, smp, acc.xyz) + textureGather(tdepth, smp, fc);", []string{"t2d", "smp", "tdepth", "smpc", "tcube"}, "", false},
	{"uacc += textureGather(0, tuint, smp, fc).x;", []string{"tuint", "smp"}, "", false},
	{"textureStore(tst, vec2<i32>(iacc, 1), acc); uacc += textureDimensions(tst).x;", []string{"tst"}, "", false},
	{"textureStore(tstu, vec2<u32>(uacc, 1u), vec4<u32>(uacc)); uacc += textureLoad(tstu, vec2<i32>(1)).x;", []string{"tstu"}, "", false},
	{"textureStore(tst1, iacc, acc); textureStore(tst3, vec3<i32>(iacc), acc); textureStore(tsta, vec2<i32>(1), iacc, vec4<i32>(iacc)); uacc += textureNumLayers(tsta) + textureDimensions(tst3).z + textureDimensions(tst1);", []string{"tst1", "tst3", "tsta"}, "", true},
	{"textureStore(tst1, iacc, acc); textureStore(tst3, vec3<i32>(iacc), acc); textureStore(tsta, vec2<i32>(1), iacc, vec4<i32>(iacc)); uacc += textureDimensions(tsta).y + textureDimensions(tst3).z + textureDimensions(tst1);", []string{"tst1", "tst3", "tsta"}, "", false},
	{"acc += textureLoad(tstr, vec2<i32>(iacc, 2));", []string{"tstr"}, "", false},
}

func (g *c02g) need(names ...string) {
	for _, n := range names {
		g.used[n] = true
		g.need(c02GlobalDeps[n]...)
	}
}

func (g *c02g) leaf() string {
	for {
		l := c02Leaves[g.rng.Intn(len(c02Leaves))]
		if l.stage != "" && l.stage != g.stage {
			continue
		}
		if l.rare && g.rng.Intn(12) != 0 {
			continue
		}
		if g.stage == "helper" && l.stage != "" {
			continue
		}
		g.need(l.needs...)
		return l.code
	}
}

func (g *c02g) ret() string {
	switch g.stage {
	case "compute":
		return "return;"
	case "vertex":
		return "return vout(acc, uacc);"
	case "fragment":
		return "return fout(acc, uacc, iacc);"
	}
	return "return acc.x + f32(iacc) + f32(uacc);"
}

// stmts generates a statement list of roughly `budget` statements at nesting depth d.
func (g *c02g) stmts(budget, d int) string {
	var sb strings.Builder
	for budget > 0 {
		budget--
		k := g.rng.Intn(100)
		switch {
		case k < 40 || d >= 4:
			sb.WriteString(g.leaf() + "\n")
		case k < 52:
			fmt.Fprintf(&sb, "if %s {\n%s}", g.cond(), g.stmts(1+g.rng.Intn(2), d+1))
			switch g.rng.Intn(3) {
			case 0:
				fmt.Fprintf(&sb, " else {\n%s}", g.stmts(1+g.rng.Intn(2), d+1))
			case 1:
				fmt.Fprintf(&sb, " else if %s {\n%s} else {\n%s}", g.cond(), g.stmts(1, d+1), g.stmts(1, d+1))
			}
			sb.WriteString("\n")
		case k < 60:
			g.tmp++
			v := fmt.Sprintf("i%d", g.tmp)
			g.loop++
			fmt.Fprintf(&sb, "for (var %s = 0; %s < %d; %s++) {\n%s}\n", v, v, 2+g.rng.Intn(3), v, g.stmts(1+g.rng.Intn(3), d+1))
			g.loop--
		case k < 66:
			g.loop++
			fmt.Fprintf(&sb, "while %s {\n%siacc += 1; if iacc > 50 { break; }\n}\n", g.cond(), g.stmts(1+g.rng.Intn(2), d+1))
			g.loop--
		case k < 73:
			g.loop++
			body := g.stmts(1+g.rng.Intn(2), d+1)
			g.loop--
			// the continuing block may not contain break / continue / return: generate it outside a loop context
			save := g.loop
			g.loop = -100
			cont := g.leafOnly()
			g.loop = save
			brk := ""
			if g.rng.Intn(2) == 0 {
				brk = "break if uacc > 90u;"
			}
			fmt.Fprintf(&sb, "loop {\nuacc += 1u; if uacc > 100u { break; }\n%scontinuing {\n%s\n%s\n}\n}\n", body, cont, brk)
		case k < 81:
			g.sw++
			nc := 1 + g.rng.Intn(3)
			fmt.Fprintf(&sb, "switch iacc & 7 {\n")
			vals := g.rng.Perm(8)
			for c := 0; c < nc; c++ {
				if g.rng.Intn(3) == 0 && c+nc < 8 {
					fmt.Fprintf(&sb, "case %d, %d: {\n%s}\n", vals[c], vals[c+nc], g.stmts(1, d+1))
				} else {
					fmt.Fprintf(&sb, "case %d: {\n%s}\n", vals[c], g.stmts(1+g.rng.Intn(2), d+1))
				}
			}
			if g.rng.Intn(4) == 0 {
				fmt.Fprintf(&sb, "case 7, default: {\n%s}\n}\n", g.stmts(1, d+1))
			} else {
				fmt.Fprintf(&sb, "default: {\n%s}\n}\n", g.stmts(g.rng.Intn(2), d+1))
			}
			g.sw--
		case k < 87 && g.loop > 0:
			if g.rng.Intn(2) == 0 {
				fmt.Fprintf(&sb, "if %s { break; }\n", g.cond())
			} else {
				fmt.Fprintf(&sb, "if %s { continue; }\n", g.cond())
			}
		case k < 90 && g.loop > 0 && d > 0:
			// unconditional jump as the last statement of a block
			if g.rng.Intn(2) == 0 {
				sb.WriteString("break;\n")
			} else {
				sb.WriteString("continue;\n")
			}
			return sb.String()
		case k < 94 && d > 0 && g.loop > -50:
			fmt.Fprintf(&sb, "if %s { %s }\n", g.cond(), g.ret())
		case k < 96 && d > 0 && g.loop > -50:
			sb.WriteString(g.ret() + "\n")
			return sb.String()
		case k < 98:
			fmt.Fprintf(&sb, "{\n%s}\n", g.stmts(1+g.rng.Intn(2), d+1))
		default:
			sb.WriteString(g.leaf() + "\n")
		}
	}
	return sb.String()
}

func (g *c02g) leafOnly() string { return g.leaf() }

func (g *c02g) cond() string {
	conds := []string{"iacc < 3", "uacc > 2u", "acc.x > 0.5", "(iacc & 1) == 0", "acc.y < acc.z && iacc != 4", "uacc == 1u || acc.w >= 1.0", "!(iacc > 7)", "all(acc.xy > acc.zw)", "true"}
	return conds[g.rng.Intn(len(conds))]
}

func (g *c02g) program() string {
	var fns []string
	nep := 1 + g.rng.Intn(3)
	if g.small {
		nep = 1 + g.rng.Intn(2)
	}
	stages := []string{"compute", "vertex", "fragment"}
	var vsIn, fsOut int
	useIO := false
	for e := 0; e < nep; e++ {
		g.stage = stages[g.rng.Intn(3)]
		g.loop, g.sw = 0, 0
		nst := 2 + g.rng.Intn(5)
		if g.small {
			nst = 2 + g.rng.Intn(3)
		}
		body := g.stmts(nst, 0)
		pre := "var acc = vec4<f32>(0.5); var iacc = 1; var uacc = 2u; var fc = vec2<f32>(0.25, 0.75);\n"
		switch g.stage {
		case "compute":
			bi := []string{"@builtin(global_invocation_id) gid: vec3<u32>", "@builtin(local_invocation_id) lid: vec3<u32>", "@builtin(local_invocation_index) li: u32",
				"@builtin(workgroup_id) wid: vec3<u32>", "@builtin(num_workgroups) nwg: vec3<u32>"}
			g.rng.Shuffle(len(bi), func(i, j int) { bi[i], bi[j] = bi[j], bi[i] })
			k := g.rng.Intn(len(bi) + 1)
			use := ""
			for _, b := range bi[:k] {
				name := strings.Fields(strings.SplitN(b, ") ", 2)[1])[0]
				name = strings.TrimSuffix(name, ":")
				if strings.Contains(b, "vec3") {
					use += "uacc += " + name + ".x + " + name + ".z; "
				} else {
					use += "uacc += " + name + "; "
				}
			}
			barrier := ""
			if g.rng.Intn(3) == 0 {
				barrier = "workgroupBarrier(); storageBarrier();\n"
				if g.used["wg_arr"] && g.rng.Intn(2) == 0 {
					barrier += "iacc += workgroupUniformLoad(&wg_arr[1]);\n"
				}
			}
			wgs := []string{"1", "64", "8, 8", "4, 2, 2"}[g.rng.Intn(4)]
			fns = append(fns, fmt.Sprintf("@compute @workgroup_size(%s)\nfn cs%d(%s) {\n%s%s\n%s%s%s}\n", wgs, e, strings.Join(bi[:k], ", "), pre, use, barrier, body, c02Sink(g)))
		case "vertex":
			useIO = true
			vsIn = g.rng.Intn(4)
			ins := []string{"@builtin(vertex_index) vi: u32", "@builtin(instance_index) ii: u32", "@location(0) pos: vec3<f32>", "@location(1) idx: vec2<i32>", "@location(2) w: u32", "@location(3) f: f32"}
			k := 1 + g.rng.Intn(len(ins))
			sel := g.rng.Perm(len(ins))[:k]
			sort.Ints(sel)
			var ps []string
			use := ""
			for _, s := range sel {
				ps = append(ps, ins[s])
				switch s {
				case 0:
					use += "uacc += vi; "
				case 1:
					use += "uacc += ii; "
				case 2:
					use += "acc += vec4<f32>(pos, 1.0); "
				case 3:
					use += "iacc += idx.x - idx.y; "
				case 4:
					use += "uacc ^= w; "
				case 5:
					use += "acc.w += f; "
				}
			}
			if vsIn == 0 && g.rng.Intn(2) == 0 {
				ps = []string{"vin: VIn"}
				use = "acc += vec4<f32>(vin.p, f32(vin.vi)); iacc += vin.k.y; "
				g.need("VIn")
			}
			fns = append(fns, fmt.Sprintf("@vertex\nfn vs%d(%s) -> VOut {\n%s%s\n%sreturn vout(acc, uacc);\n}\n", e, strings.Join(ps, ", "), pre, use, body))
		case "fragment":
			useIO = true
			fsOut = g.rng.Intn(3)
			extra := ""
			use := "acc += fin.c + vec4<f32>(fin.uv, f32(fin.id), fin.s) + fin.pos; fc = fin.uv; "
			if g.rng.Intn(2) == 0 {
				extra = ", @builtin(front_facing) ff: bool, @builtin(sample_index) si: u32, @builtin(sample_mask) sm: u32"
				use += "if ff { uacc += si + sm; } "
			}
			fns = append(fns, fmt.Sprintf("@fragment\nfn fs%d(fin: VOut%s) -> FOut {\n%s%s\n%sreturn fout(acc, uacc, iacc);\n}\n", e, extra, pre, use, body))
		}
	}
	_ = fsOut
	var sb strings.Builder
	if useIO {
		interp := [][3]string{
			{"@interpolate(flat)", "@interpolate(linear, centroid)", "@interpolate(perspective, sample)"},
			{"@interpolate(flat)", "", ""},
			{"@interpolate(flat)", "@interpolate(linear)", "@interpolate(perspective, centroid)"},
		}[g.rng.Intn(3)]
		fmt.Fprintf(&sb, "struct VOut { @builtin(position) pos: vec4<f32>, @location(0) uv: vec2<f32>, @location(1) %s id: u32, @location(2) %s c: vec4<f32>, @location(3) %s s: f32 }\n", interp[0], interp[1], interp[2])
		sb.WriteString("fn vout(a: vec4<f32>, u: u32) -> VOut { var o: VOut; o.pos = a; o.uv = a.xy; o.id = u; o.c = a.wzyx; o.s = a.z; return o; }\n")
		switch g.rng.Intn(4) {
		case 0:
			sb.WriteString("struct FOut { @location(0) color: vec4<f32> }\nfn fout(a: vec4<f32>, u: u32, i: i32) -> FOut { var o: FOut; o.color = a; return o; }\n")
		case 1:
			sb.WriteString("struct FOut { @location(0) color: vec4<f32>, @builtin(frag_depth) d: f32 }\nfn fout(a: vec4<f32>, u: u32, i: i32) -> FOut { var o: FOut; o.color = a; o.d = a.z; return o; }\n")
		case 2:
			sb.WriteString("struct FOut { @location(0) color: vec4<f32>, @location(1) ids: vec4<u32>, @location(2) k: vec2<i32>, @builtin(sample_mask) m: u32 }\nfn fout(a: vec4<f32>, u: u32, i: i32) -> FOut { var o: FOut; o.color = a; o.ids = vec4<u32>(u); o.k = vec2<i32>(i); o.m = u; return o; }\n")
		default:
			sb.WriteString("struct FOut { @builtin(frag_depth) d: f32, @location(0) x: f32, @location(3) y: vec3<f32> }\nfn fout(a: vec4<f32>, u: u32, i: i32) -> FOut { var o: FOut; o.d = a.x; o.x = a.y; o.y = a.yzw; return o; }\n")
		}
	}
	if g.used["VIn"] {
		sb.WriteString("struct VIn { @location(0) p: vec3<f32>, @builtin(vertex_index) vi: u32, @location(4) k: vec2<i32> }\n")
	}
	if g.used["UBL"] {
		sb.WriteString("struct UBL { a: array<i32, 2>, b: vec3<f32> }\n")
	}
	var names []string
	for n := range g.used {
		if _, ok := c02Globals[n]; ok {
			names = append(names, n)
		}
	}
	sort.Strings(names)
	// helpers after the globals they use
	for pass := 0; pass < 2; pass++ {
		for _, n := range names {
			if strings.HasPrefix(n, "h_") == (pass == 1) {
				sb.WriteString(c02Globals[n] + "\n")
			}
		}
	}
	for _, f := range fns {
		sb.WriteString(f)
	}
	return sb.String()
}

// c02Sink keeps the accumulators observable in compute entry points.
func c02Sink(g *c02g) string {
	g.need("sb")
	return "sb.data[0] = acc.x + acc.y + acc.z + acc.w + f32(iacc) + f32(uacc);\n"
}
