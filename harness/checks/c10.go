package checks

// C10 - no input makes the compiler panic, crash, hang or exhaust memory.
//
// Model-based exploration: spec/Hostile.tla is the input-space model (hostile edit scripts over token sequences,
// enumerated / simulated by TLC), harness/hostile renders each script, every rendered input is run through all
// public entry points in isolated worker processes (c10work.go), and the recorded (stage, outcome, cost) traces are
// validated by TLC against the call/outcome protocol spec/HostileProto.tla + HostileTrace.tla.

import (
	"bytes"
	"crypto/sha256"
	"encoding/base64"
	"encoding/json"
	"fmt"
	"hash/fnv"
	"os"
	"path/filepath"
	"regexp"
	"sort"
	"strings"
	"sync"
	"sync/atomic"
	"time"

	"verif/harness/core"
	"verif/harness/drive"
	"verif/harness/hostile"
)

func init() { Registry["C10"] = runC10 }

// c10Tiny are the tiny seed programs whose single edits are enumerated exhaustively.
var c10Tiny = []string{
	"@compute @workgroup_size(1) fn main() { var a = 1; a = a + 2; }",
	"const n = 4u; var<private> g : array<i32, n>; fn f(i : u32) -> i32 { /* c */ return g[i]; }",
	"@vertex fn vs(@builtin(vertex_index) i : u32) -> @builtin(position) vec4<f32> { if i == 0u { return vec4<f32>(); } // é\n return vec4<f32>(1.5); }",
	"struct S { m : vec2<f32>, } @group(0) @binding(0) var<uniform> u : S; @fragment fn fs() -> @location(0) vec4<f32> { return vec4<f32>(u.m, 0.0, 1.0); }",
	"fn f(x : i32) -> i32 { var a = x; loop { if a > 3 { break; } continuing { a += 1; } } switch a { case 1, 2 { a = 0; } default { } } for (var i = 0; i < 2; i++) { a -= i; } return a; }",
}

type c10Seed struct {
	Name  string
	Kind  string // empty | tiny | corpus
	Elems []hostile.Elem
}

func c10Seeds() []c10Seed {
	seeds := []c10Seed{{Name: "empty", Kind: "empty"}}
	for i, t := range c10Tiny {
		seeds = append(seeds, c10Seed{Name: fmt.Sprintf("tiny%d", i+1), Kind: "tiny", Elems: hostile.Tokenize(t)})
	}
	names, texts := corpusSources()
	for i, t := range texts {
		if len(t) > 12*1024 {
			continue
		}
		seeds = append(seeds, c10Seed{Name: names[i], Kind: "corpus", Elems: hostile.Tokenize(t)})
	}
	return seeds
}

// c10Gen is one TLC run of Hostile.tla.
type c10Gen struct {
	Name     string
	Mode     string
	Seeds    []int // 1-based seed ids
	MaxEdits int
	Classes  []string
	Depths   []int
	Lengths  []int
	Num      int   // simulate: number of scripts
	TLCSeed  int64 // simulate
	Keep     func(line string) bool
	Faults   string
	CECtxs   []string // HostileConstExpr: contexts (nil = all)
	CEForms  []string // HostileConstExpr: operand forms (nil = all three)
	CEShapes []string // HostileConstExpr: shapes (nil = all)
}

func c10Set(xs []string) string {
	q := make([]string, len(xs))
	for i, x := range xs {
		q[i] = `"` + x + `"`
	}
	return "{" + strings.Join(q, ", ") + "}"
}

func c10IntSet(xs []int) string {
	q := make([]string, len(xs))
	for i, x := range xs {
		q[i] = fmt.Sprint(x)
	}
	return "{" + strings.Join(q, ", ") + "}"
}

func (g c10Gen) cfg(invs bool) string {
	f := g.Faults
	if f == "" {
		f = "{}"
	}
	forms := g.CEForms
	if len(forms) == 0 {
		forms = []string{"direct", "named", "computed"}
	}
	s := fmt.Sprintf("SPECIFICATION Spec\nCONSTANTS\n SeedLen <- MCSeedLen\n SeedLits <- MCSeedLits\n SeedSet = %s\n MaxEdits = %d\n Mode = \"%s\"\n Classes = %s\n Depths = %s\n Lengths = %s\n MaxOff = 9\n CECtxSel = %s\n CEForms = %s\n CEShapes = %s\n Faults = %s\nCHECK_DEADLOCK FALSE\n",
		c10IntSet(g.Seeds), g.MaxEdits, g.Mode, c10Set(g.Classes), c10IntSet(g.Depths), c10IntSet(g.Lengths), c10Set(g.CECtxs), c10Set(forms), c10Set(g.CEShapes), f)
	if invs {
		s += "INVARIANTS TypeOK WithinBudget LenSane\n"
	}
	return s
}

var (
	c10TokenClasses = []string{"DeleteToken", "DuplicateToken", "SwapTokens", "ReplaceToken", "InsertToken", "TruncateTok", "TruncateIn", "RawBytes", "RawFill"}
	c10BuildClasses = []string{"Nest", "LongChain", "HugeLiteral", "HugeArray", "SelfReference", "HostileConstExpr"}
	c10AllClasses   = append(append([]string{}, c10TokenClasses...), c10BuildClasses...)
)

// c10Input is one rendered input.
type c10Input struct {
	ID      int
	Src     string
	Gen     string
	Seed    string
	Script  []hostile.Act
	Classes []string
	Param   string
	Clipped bool
	Cls     int
	Opts    map[string][]string
	Res     *c10Result
	Solo    bool // the recorded result comes from a run of this input alone
	NotRun  bool // the kill budget was exhausted before its batch started
}

type c10Env struct {
	CPU   int `json:"cpu"`
	RSS   int `json:"rss"`
	Out   int `json:"out"`
	Alloc int `json:"alloc"`
}

func c10SizeClass(n int) int {
	switch {
	case n <= 1024:
		return 0
	case n <= 8192:
		return 1
	}
	return 2
}

type c10Verdict struct {
	Consumed int `json:"consumed"`
	Bad      []struct {
		L    int    `json:"l"`
		Rule string `json:"rule"`
	} `json:"bad"`
	Env      []c10Env `json:"env"`
	MaxBytes int      `json:"maxbytes"`
}

const c10TraceCfg = "SPECIFICATION TSpec\nCONSTANTS\n Faults = {}\n MCStages = {}\nPOSTCONDITION Consumed\nCHECK_DEADLOCK FALSE\n"

func c10Validate(c *core.Ctx, trace []byte) (*c10Verdict, error) {
	r, err := c.RunTLC(core.TLCOpts{Spec: "HostileTrace", CfgText: c10TraceCfg, Files: map[string][]byte{"trace.ndjson": trace},
		Workers: 1, HeapGB: 4, Timeout: 25 * time.Minute})
	if err != nil {
		return nil, err
	}
	if !r.OK || len(r.Printed) == 0 {
		return nil, fmt.Errorf("trace validation did not complete: %s %s\n%s", r.Violated, r.Err, r.Tail(20))
	}
	c.AddTLC(r)
	var v c10Verdict
	if err := json.Unmarshal([]byte(r.Printed[len(r.Printed)-1]), &v); err != nil {
		return nil, err
	}
	n := len(bytes.Split(bytes.TrimSpace(trace), []byte("\n")))
	if v.Consumed != n {
		return nil, fmt.Errorf("trace not fully consumed: %d of %d lines", v.Consumed, n)
	}
	return &v, nil
}

// c10SelfTest runs the Faults self-tests of the three specs; it returns the envelope table of the protocol spec.
func c10SelfTest(c *core.Ctx) []c10Env {
	var env []c10Env
	var mu sync.Mutex
	type job func()
	protoCfg := func(faults string) string {
		return "SPECIFICATION PSpec\nCONSTANTS\n Faults = " + faults + "\n MCStages = {\"tokenize\", \"parse\", \"lower\", \"validate\", \"hlsl\", \"compile\"}\nINVARIANTS Outcome Order Cost Once Complete\nCHECK_DEADLOCK FALSE\n"
	}
	jobs := []job{
		func() { // design-level model of the protocol: all monitor behaviours satisfy the rules
			r, err := c.RunTLC(core.TLCOpts{Spec: "HostileProto", CfgText: protoCfg("{}"), Workers: 1, Timeout: 10 * time.Minute})
			if err != nil || !r.OK {
				c.BrokenF("HostileProto: design-level check failed: %v %s %s", err, r.Violated, r.Err)
				return
			}
			c.AddTLC(r)
		},
	}
	for f, inv := range map[string]string{"PanicOutcome": "Outcome", "RunAfterErr": "Order", "OverEnvelope": "Cost"} {
		f, inv := f, inv
		jobs = append(jobs, func() {
			r, err := c.RunTLC(core.TLCOpts{Spec: "HostileProto", CfgText: protoCfg(`{"` + f + `"}`), Workers: 1, Timeout: 10 * time.Minute})
			if err != nil || !strings.Contains(r.Violated, "Invariant "+inv+" is violated") {
				c.BrokenF("HostileProto self-test: fault %s was not caught by invariant %s (%v %s %s)", f, inv, err, r.Violated, r.Err)
			}
		})
	}
	jobs = append(jobs, func() { // input-space model: depth clamp
		g := c10Gen{Mode: "exhaustive", Seeds: []int{1}, MaxEdits: 1, Classes: []string{"Nest"}, Depths: []int{20000}, Lengths: []int{8}, Faults: `{"NoClamp"}`}
		r, err := c.RunTLC(core.TLCOpts{Spec: "HostileMC", CfgText: g.cfg(true), Files: map[string][]byte{"HostileMC.tla": []byte(c10MC([]int{0}, nil))}, Timeout: 10 * time.Minute})
		if err != nil || !strings.Contains(r.Violated, "Invariant WithinBudget is violated") {
			c.BrokenF("Hostile self-test: fault NoClamp was not caught (%v %s %s)", err, r.Violated, r.Err)
		}
	})
	jobs = append(jobs, func() { // corrupted recorded traces must be rejected, the uncorrupted one accepted
		alloc := 0
		ev := func(id int, stage, out string, cpu, rss, outb int) string {
			a := alloc
			alloc = 0
			return fmt.Sprintf(`{"ev":"call","id":%d,"stage":"%s","out":"%s","cpu":%d,"rss":%d,"outb":%d,"alloc":%d}`, id, stage, out, cpu, rss, outb, a)
		}
		big := func(a int, s string) string { return strings.Replace(s, `"alloc":0`, fmt.Sprintf(`"alloc":%d`, a), 1) }
		in := func(id, size int) string { return fmt.Sprintf(`{"ev":"input","id":%d,"size":%d}`, id, size) }
		end := func(id int) string { return fmt.Sprintf(`{"ev":"end","id":%d}`, id) }
		lines := []string{
			in(1, 500), ev(1, "tokenize", "ok", 1, 30, 0), ev(1, "parse", "ok", 1, 30, 0), ev(1, "lower", "ok", 2, 30, 0), ev(1, "validate", "err", 1, 30, 0),
			ev(1, "spv", "ok", 1, 30, 900), ev(1, "hlsl", "ok", 1, 30, 900), ev(1, "msl", "err", 1, 30, 0), ev(1, "glsl", "ok", 1, 30, 900), ev(1, "glsl", "ok", 1, 30, 900),
			ev(1, "dxil", "ok", 1, 30, 900), ev(1, "compile", "err", 3, 30, 0), end(1),
			in(2, 500), ev(2, "tokenize", "ok", 1, 30, 0), ev(2, "parse", "panic", 1, 30, 0), ev(2, "compile", "err", 1, 30, 0), end(2), // line 16
			in(3, 500), ev(3, "tokenize", "ok", 1, 30, 0), ev(3, "parse", "err", 1, 30, 0), ev(3, "lower", "ok", 1, 30, 0), ev(3, "compile", "err", 1, 30, 0), end(3), // line 22
			in(4, 500), ev(4, "tokenize", "ok", 3001, 30, 0), ev(4, "parse", "ok", 1, 513, 0), ev(4, "lower", "err", 1, 30, 0), ev(4, "compile", "ok", 1, 30, 4194305), end(4), // 26 27 29
			in(5, 60000), ev(5, "tokenize", "ok", 3001, 513, 0), big(1025, ev(5, "parse", "err", 1, 30, 0)), big(4097, ev(5, "compile", "err", 1, 30, 0)), end(5), // 34
			in(6, 500), ev(6, "tokenize", "ok", 1, 30, 0), ev(6, "parse", "ok", 1, 30, 0), ev(6, "lower", "ok", 2, 30, 0), ev(6, "compile", "ok", 3, 30, 10), end(6), // 41: incomplete
			in(7, 500), ev(7, "tokenize", "ok", 1, 30, 0), ev(7, "parse", "ok", 1, 30, 0), ev(7, "lower", "fatal", 2, 30, 0), end(7), // 45
		}
		v, err := c10Validate(c, []byte(strings.Join(lines, "\n")+"\n"))
		if err != nil {
			c.BrokenF("HostileTrace self-test: %v", err)
			return
		}
		want := map[string]bool{
			"16|Outcome: the call ended in panic":                                             true,
			"22|harness: Order: stage called although a prerequisite did not return ok":       true,
			"26|Cost: cpu time above the envelope":                                            true,
			"27|Cost: peak resident set above the envelope":                                   true,
			"29|Cost: output size above the envelope":                                         true,
			"34|Cost: heap allocation above the envelope":                                    true,
			"41|harness: Complete: an enabled stage was not called":                           true,
			"45|Outcome: the call ended in fatal":                                             true,
		}
		got := map[string]bool{}
		for _, b := range v.Bad {
			got[fmt.Sprintf("%d|%s", b.L, b.Rule)] = true
		}
		for k := range want {
			if !got[k] {
				c.BrokenF("HostileTrace self-test: corrupted trace not rejected: %s (got %v)", k, got)
			}
		}
		for k := range got {
			if !want[k] {
				c.BrokenF("HostileTrace self-test: unexpected verdict %s", k)
			}
		}
		mu.Lock()
		env = v.Env
		mu.Unlock()
		if v.MaxBytes != hostile.MaxBytes {
			c.BrokenF("MaxBytes differs between the spec (%d) and the printer (%d)", v.MaxBytes, hostile.MaxBytes)
		}
	})
	core.ParMap(len(jobs), min(6, core.Cores()), func(i int) { jobs[i]() })
	return env
}

func c10MC(seedLen []int, seedLits [][]int) string {
	q := make([]string, len(seedLen))
	l := make([]string, len(seedLen))
	for i, x := range seedLen {
		q[i] = fmt.Sprint(x)
		var ps []string
		if i < len(seedLits) {
			for _, p := range seedLits[i] {
				ps = append(ps, fmt.Sprint(p))
			}
		}
		l[i] = "<<" + strings.Join(ps, ", ") + ">>"
	}
	return "---- MODULE HostileMC ----\nEXTENDS Hostile\nMCSeedLen == <<" + strings.Join(q, ", ") + ">>\nMCSeedLits == <<" + strings.Join(l, ",\n  ") + ">>\n====\n"
}

func c10Hash(s string) uint64 {
	h := fnv.New64a()
	h.Write([]byte(s))
	return h.Sum64()
}

func runC10(tier, replay string) int {
	if replay != "" {
		return c10Replay(replay)
	}
	c := core.NewCtx("C10", tier, "exploration")
	c.Cov["rule"] = "Inputs are the scripts of the edit-script state machine spec/Hostile.tla over seed token sequences (the empty document, five tiny programs, the corpus shaders up to 12 KiB): " +
		"TLC enumerates every single token-level edit of tiny seeds (all positions x the whole token pool) and every single structural construct at the deepest setting, and simulates (seed VERIF_SEED) multi-edit scripts mixing token edits, raw bytes, truncation, hostile constant expressions (partial operators x boundary operand grid at every constant-expression site and substituted for the numeric literals of the seeds), " +
		"nesting (depth up to 20000, clamped to 64 KiB), long chains, huge literals, huge arrays and self-references; each script is rendered (<= 64 KiB) and run through tokenize, parse, lower, validate, every backend (glsl per entry point; two option sets) and the one-call compile " +
		"in an isolated worker under rlimits; the recorded (stage, outcome, cpu, rss, output bytes) trace of every input is validated by TLC against the protocol spec (outcome in {ok, err}, stage order, cost envelope per size class). A case is one distinct rendered byte string; all of them count as non-trivial."
	env := c10SelfTest(c)
	if len(c.Broken) > 0 || len(env) != 3 {
		if len(env) != 3 {
			c.BrokenF("no envelope table from the protocol spec")
		}
		return c.Finish()
	}

	// ---- seeds and TLC runs ---------------------------------------------------------------------------------
	seeds := c10Seeds()
	seedLen := make([]int, len(seeds))
	var tinyIDs, corpusIDs, allIDs []int
	seedLits := make([][]int, len(seeds))
	for i, s := range seeds {
		seedLen[i] = len(s.Elems)
		seedLits[i] = hostile.NumberPositions(s.Elems)
		allIDs = append(allIDs, i+1)
		switch s.Kind {
		case "tiny":
			tinyIDs = append(tinyIDs, i+1)
		case "corpus":
			corpusIDs = append(corpusIDs, i+1)
		}
	}
	if len(corpusIDs) < 50 {
		c.BrokenF("corpus not found (%d seeds)", len(corpusIDs))
		return c.Finish()
	}
	mc := c10MC(seedLen, seedLits)
	sd := c.Seed
	sample := func(mod uint64) func(string) bool {
		return func(line string) bool { return (c10Hash(line)+uint64(sd))%mod == 0 }
	}
	deep := []int{512, 4096, 20000}
	var gens []c10Gen
	if c.Quick() {
		t := tinyIDs[int(sd)%len(tinyIDs)]
		gens = append(gens,
			c10Gen{Name: "exh-tiny", Mode: "exhaustive", Seeds: []int{t}, MaxEdits: 1, Classes: c10TokenClasses, Depths: []int{8}, Lengths: []int{8}, Keep: sample(3)},
			c10Gen{Name: "sim-mixed", Mode: "simulate", Seeds: allIDs, MaxEdits: 4, Classes: c10AllClasses, Depths: []int{8, 64}, Lengths: []int{8, 64}, Num: 1500, TLCSeed: sd},
			c10Gen{Name: "sim-deep", Mode: "simulate", Seeds: []int{1, tinyIDs[0], tinyIDs[1]}, MaxEdits: 2, Classes: append([]string{"DeleteToken", "ReplaceToken", "TruncateIn", "RawFill"}, c10BuildClasses...),
				Depths: deep, Lengths: deep, Num: 60, TLCSeed: sd + 1000},
			c10Gen{Name: "grid-nest", Mode: "exhaustive", Seeds: []int{1}, MaxEdits: 1, Classes: []string{"Nest", "LongChain"}, Depths: []int{20000}, Lengths: []int{20000}, Keep: sample(30)},
			c10Gen{Name: "grid-self", Mode: "exhaustive", Seeds: []int{1}, MaxEdits: 1, Classes: []string{"SelfReference", "RawFill"}, Depths: []int{8}, Lengths: []int{8}},
			c10Gen{Name: "grid-lit", Mode: "exhaustive", Seeds: []int{1}, MaxEdits: 1, Classes: []string{"HugeLiteral"}, Depths: []int{8}, Lengths: []int{8}, Keep: sample(6)},
			c10Gen{Name: "grid-array", Mode: "exhaustive", Seeds: []int{1}, MaxEdits: 1, Classes: []string{"HugeArray"}, Depths: []int{8}, Lengths: []int{8}, Keep: sample(48)},
			// hostile constant expressions: every (operator, operand pair) of the grid in a module constant (every 4th), and simulated over all sites / forms / seeds
			c10Gen{Name: "ce-grid", Mode: "exhaustive", Seeds: []int{1}, MaxEdits: 1, Classes: []string{"HostileConstExpr"}, Depths: []int{8}, Lengths: []int{8},
				CECtxs: []string{"const"}, CEForms: []string{"direct"}, CEShapes: []string{"bin", "un", "cast"}, Keep: sample(3)},
			c10Gen{Name: "ce-sim", Mode: "simulate", Seeds: allIDs, MaxEdits: 2, Classes: []string{"HostileConstExpr"}, Depths: []int{8}, Lengths: []int{8}, Num: 2500, TLCSeed: sd + 2000},
		)
	} else {
		for _, t := range tinyIDs {
			gens = append(gens, c10Gen{Name: fmt.Sprintf("exh-tiny%d", t), Mode: "exhaustive", Seeds: []int{t}, MaxEdits: 1, Classes: c10TokenClasses, Depths: []int{8}, Lengths: []int{8}})
		}
		for i := 0; i < 10; i++ {
			gens = append(gens, c10Gen{Name: fmt.Sprintf("sim-mixed%d", i), Mode: "simulate", Seeds: allIDs, MaxEdits: 5, Classes: c10AllClasses, Depths: []int{8, 64, 512}, Lengths: []int{8, 64, 512},
				Num: 4000, TLCSeed: sd*100 + int64(i)})
		}
		gens = append(gens,
			c10Gen{Name: "sim-deep", Mode: "simulate", Seeds: []int{1, tinyIDs[0], tinyIDs[1]}, MaxEdits: 2, Classes: append([]string{"DeleteToken", "ReplaceToken", "TruncateIn", "RawFill"}, c10BuildClasses...),
				Depths: deep, Lengths: deep, Num: 1500, TLCSeed: sd + 1000},
			c10Gen{Name: "grid-nest", Mode: "exhaustive", Seeds: []int{1}, MaxEdits: 1, Classes: []string{"Nest", "LongChain"}, Depths: []int{20000}, Lengths: []int{20000}},
			c10Gen{Name: "grid-self", Mode: "exhaustive", Seeds: []int{1}, MaxEdits: 1, Classes: []string{"SelfReference", "RawFill"}, Depths: []int{8}, Lengths: []int{8}},
			c10Gen{Name: "grid-lit", Mode: "exhaustive", Seeds: []int{1}, MaxEdits: 1, Classes: []string{"HugeLiteral"}, Depths: []int{8}, Lengths: []int{8}},
			c10Gen{Name: "grid-array", Mode: "exhaustive", Seeds: []int{1}, MaxEdits: 1, Classes: []string{"HugeArray"}, Depths: []int{8}, Lengths: []int{8}, Keep: sample(4)},
			c10Gen{Name: "ce-grid-const", Mode: "exhaustive", Seeds: []int{1}, MaxEdits: 1, Classes: []string{"HostileConstExpr"}, Depths: []int{8}, Lengths: []int{8},
				CECtxs: []string{"const"}, CEForms: []string{"direct"}},
			c10Gen{Name: "ce-grid-size", Mode: "exhaustive", Seeds: []int{1}, MaxEdits: 1, Classes: []string{"HostileConstExpr"}, Depths: []int{8}, Lengths: []int{8},
				CECtxs: []string{"arraysize"}, CEForms: []string{"direct"}, CEShapes: []string{"bin", "un", "cast", "call2"}},
			c10Gen{Name: "ce-grid-named", Mode: "exhaustive", Seeds: []int{1}, MaxEdits: 1, Classes: []string{"HostileConstExpr"}, Depths: []int{8}, Lengths: []int{8},
				CECtxs: []string{"caseval"}, CEForms: []string{"named"}, CEShapes: []string{"bin", "un"}},
			c10Gen{Name: "ce-sim0", Mode: "simulate", Seeds: allIDs, MaxEdits: 2, Classes: []string{"HostileConstExpr"}, Depths: []int{8}, Lengths: []int{8}, Num: 10000, TLCSeed: sd + 2000},
			c10Gen{Name: "ce-sim1", Mode: "simulate", Seeds: allIDs, MaxEdits: 2, Classes: []string{"HostileConstExpr"}, Depths: []int{8}, Lengths: []int{8}, Num: 10000, TLCSeed: sd + 2001},
		)
	}

	// development aid: VERIF_C10_GENS=name,name restricts the run to some generators (the coverage guard is then off)
	onlyGens := os.Getenv("VERIF_C10_GENS")
	if onlyGens != "" {
		var keep []c10Gen
		for _, g := range gens {
			for _, n := range strings.Split(onlyGens, ",") {
				if strings.HasPrefix(g.Name, n) {
					keep = append(keep, g)
					break
				}
			}
		}
		gens = keep
		c.Cov["restricted_to_generators"] = onlyGens
	}
	type genOut struct {
		lines []string
		err   error
	}
	outs := make([]genOut, len(gens))
	core.ParMap(len(gens), min(8, core.Cores()), func(i int) {
		g := gens[i]
		o := core.TLCOpts{Spec: "HostileMC", CfgText: g.cfg(true), Files: map[string][]byte{"HostileMC.tla": []byte(mc)}, Workers: 1, HeapGB: 3, Timeout: 20 * time.Minute}
		if g.Mode == "simulate" {
			o.Simulate = fmt.Sprintf("num=%d", g.Num)
			o.Depth = g.MaxEdits + 3
			o.Seed = g.TLCSeed
		}
		r, err := c.RunTLC(o)
		if err == nil && !r.OK {
			err = fmt.Errorf("%s %s\n%s", r.Violated, r.Err, r.Tail(15))
		}
		if err != nil {
			outs[i].err = fmt.Errorf("Hostile.tla run %s: %v", g.Name, err)
			return
		}
		c.AddTLC(r)
		outs[i].lines = r.Printed
	})
	genCount := map[string]int{}
	var inputs []*c10Input
	seen := map[[16]byte]bool{}
	clipped, dup := 0, 0
	for gi, g := range gens {
		if outs[gi].err != nil {
			c.BrokenF("%v", outs[gi].err)
			continue
		}
		if len(outs[gi].lines) == 0 {
			c.BrokenF("Hostile.tla run %s printed no script", g.Name)
		}
		for _, line := range outs[gi].lines {
			if g.Keep != nil && !g.Keep(line) {
				continue
			}
			var sc hostile.Script
			if err := json.Unmarshal([]byte(line), &sc); err != nil || sc.Seed < 1 || sc.Seed > len(seeds) {
				c.BrokenF("bad Hostile.tla line (%v): %s", err, c10Short(line, 200))
				break
			}
			x := &hostile.Expander{VSeed: c.Seed, Line: line}
			doc, err := hostile.Apply(seeds[sc.Seed-1].Elems, sc.Script, x)
			if err != nil || len(doc) != sc.Len {
				c.BrokenF("model and printer disagree on a script (%v; model len %d, document len %d): %s", err, sc.Len, len(doc), c10Short(line, 300))
				break
			}
			src, cl := hostile.Render(doc)
			hsh := sha256.Sum256([]byte(src))
			var k [16]byte
			copy(k[:], hsh[:16])
			if seen[k] {
				dup++
				continue
			}
			seen[k] = true
			if cl {
				clipped++
			}
			in := &c10Input{ID: len(inputs), Src: src, Gen: g.Name, Seed: seeds[sc.Seed-1].Name, Script: sc.Script, Classes: hostile.Classes(sc.Script), Clipped: cl, Cls: c10SizeClass(len(src))}
			var ps []string
			for _, a := range sc.Script {
				if p := a.Param(); p != "" && (a.IsBuild() || len(sc.Script) == 1) {
					ps = append(ps, a.A+"("+p+")")
				}
			}
			in.Param = strings.Join(ps, ";")
			if len(in.Param) > 300 {
				in.Param = in.Param[:300]
			}
			// option sets: the default and one more (hash-chosen) for small inputs, one hash-chosen set for large ones
			in.Opts = map[string][]string{}
			for _, be := range drive.Backends {
				names := drive.OptNames(be)
				pick := names[(c10Hash(src)+uint64(len(be))+uint64(sd))%uint64(len(names))]
				if in.Cls == 2 {
					in.Opts[be] = []string{pick}
				} else if pick == names[0] {
					in.Opts[be] = []string{names[0]}
				} else {
					in.Opts[be] = []string{names[0], pick}
				}
			}
			inputs = append(inputs, in)
			genCount[g.Name]++
		}
	}
	if len(c.Broken) > 0 {
		return c.Finish()
	}
	c.Cov["generators"] = genCount
	c.Cov["inputs_clipped_to_64KiB"] = clipped
	c.Cov["duplicate_renderings_dropped"] = dup

	// ---- run every input in isolated workers ------------------------------------------------------------------
	sup := newC10Super(c.WorkDir)
	limOf := func(cls int) c10Limits {
		return c10Limits{CPUms: env[cls].CPU * 5 / 4, RSSMiB: env[cls].RSS*3/2 + 128, WallSec: 900, ASMiB: 4096}
	}
	anomalies := func(in *c10Input, r *c10Result) (death, cost bool) {
		for _, e := range r.Events {
			if e.Out != "ok" && e.Out != "err" {
				death = true
			}
			if e.CPU > env[in.Cls].CPU || e.RSS > env[in.Cls].RSS || e.OutB > env[in.Cls].Out || e.Alloc > env[in.Cls].Alloc {
				cost = true
			}
		}
		return
	}
	jobOf := func(in *c10Input, skip []string) c10JobInput {
		return c10JobInput{ID: in.ID, Src: []byte(in.Src), Opts: in.Opts, Skip: skip}
	}
	// batches: same size class together, large classes first
	// inputs likely to be expensive (large, or with a deep / huge / cyclic construct) run alone from the start
	heavy := func(in *c10Input) bool {
		if in.Cls == 2 {
			return true
		}
		for _, a := range in.Script {
			if a.A == "HugeArray" || a.A == "HugeLiteral" || a.A == "SelfReference" || (a.IsBuild() && a.K >= 512) {
				return true
			}
		}
		return false
	}
	batchSize := []int{400, 100, 6}
	var batches [][]*c10Input
	for _, in := range inputs {
		if heavy(in) {
			batches = append(batches, []*c10Input{in})
		}
	}
	for cls := 2; cls >= 0; cls-- {
		var cur []*c10Input
		for _, in := range inputs {
			if in.Cls != cls || heavy(in) {
				continue
			}
			cur = append(cur, in)
			if len(cur) == batchSize[cls] {
				batches = append(batches, cur)
				cur = nil
			}
		}
		if len(cur) > 0 {
			batches = append(batches, cur)
		}
	}
	// circuit breaker: every killed call costs seconds; when far more inputs than the unchanged tree produces have been
	// killed, the remaining batches are not started (the run then ends with the violations found so far)
	var killedInputs atomic.Int64
	killBudget := int64(c.Pick(250, 3000))
	t0 := time.Now()
	core.ParMap(len(batches), core.Cores(), func(i int) {
		b := batches[i]
		if killedInputs.Load() > killBudget {
			for _, in := range b {
				in.Res = &c10Result{}
				in.NotRun = true
			}
			return
		}
		jobs := make([]c10JobInput, len(b))
		for j, in := range b {
			jobs[j] = jobOf(in, nil)
		}
		res := sup.RunBatch(jobs, limOf(b[0].Cls))
		for _, in := range b {
			in.Res = res[in.ID]
			if in.Res == nil {
				in.Res = &c10Result{Machine: "no result from the worker"}
			}
			in.Solo = len(b) == 1
			if in.Res.Died {
				killedInputs.Add(1)
			}
		}
	})
	batchWall := time.Since(t0)

	// ---- suspects are re-run alone (confirmation); deaths are followed up with the culprit stage skipped -------------------
	var suspects []*c10Input
	for _, in := range inputs {
		if in.NotRun {
			continue
		}
		death, cost := anomalies(in, in.Res)
		if in.Res.Machine != "" || cost || death {
			suspects = append(suspects, in)
		}
	}
	var cmu sync.Mutex
	unconfirmed, soloRuns, followUps := 0, 0, 0
	followBudget := c.Pick(6, 300)
	t1 := time.Now()
	core.ParMap(len(suspects), min(8, core.Cores()), func(i int) {
		in := suspects[i]
		lim := limOf(in.Cls)
		first := in.Res
		fdeath, fcost := anomalies(in, first)
		r := first
		if !(in.Solo && fdeath && !fcost && first.Machine == "") {
			// re-run alone
			r = sup.RunBatch([]c10JobInput{jobOf(in, nil)}, lim)[in.ID]
			cmu.Lock()
			soloRuns++
			cmu.Unlock()
			if r == nil {
				r = &c10Result{Machine: "no result from the solo worker"}
			}
			if r.Machine != "" {
				in.Res, in.Solo = r, true
				return
			}
			death, cost := anomalies(in, r)
			if !death && !cost {
				if fdeath {
					cmu.Lock()
					unconfirmed++
					cmu.Unlock()
				}
				in.Res, in.Solo = r, true
				return
			}
		}
		// follow-ups: skip the stage that killed the worker so that the later stages get their own verdict
		var skip []string
		merged := &c10Result{Events: append([]c10Event(nil), r.Events...), Died: r.Died, Stderr: r.Stderr, HWM: r.HWM, Done: r.Done}
		have := map[string]bool{}
		for _, e := range merged.Events {
			have[e.Key] = true
		}
		cur := r
		for n := 0; n < 8 && cur.Died; n++ {
			last := cur.Events[len(cur.Events)-1]
			cmu.Lock()
			ok := followUps < followBudget
			if ok {
				followUps++
			}
			cmu.Unlock()
			if !ok {
				break
			}
			skip = append(skip, last.Key)
			nr := sup.RunBatch([]c10JobInput{jobOf(in, skip)}, lim)[in.ID]
			if nr == nil || nr.Machine != "" {
				break
			}
			for _, e := range nr.Events {
				if !have[e.Key] {
					have[e.Key] = true
					merged.Events = append(merged.Events, e)
				}
			}
			cur = nr
		}
		in.Res, in.Solo = merged, true
	})
	soloWall := time.Since(t1)

	// ---- traces -> TLC ------------------------------------------------------------------------------------------------
	type lineRef struct {
		in *c10Input
		ev int // index into Res.Events, -1 for input/end lines
	}
	judged := []*c10Input{}
	notRun := 0
	for _, in := range inputs {
		if in.NotRun {
			notRun++
			continue
		}
		if in.Res.Machine != "" {
			c.Skip("machinery: " + regexp.MustCompile(`\(.*`).ReplaceAllString(in.Res.Machine, ""))
			continue
		}
		judged = append(judged, in)
	}
	if c.Skips()*3 > len(inputs) {
		c.BrokenF("%d of %d inputs could not be judged", c.Skips(), len(inputs))
		return c.Finish()
	}
	nEvents := 0
	for _, in := range judged {
		nEvents += len(in.Res.Events) + 2
	}
	shards := min(core.Cores(), max(1, nEvents/8000))
	refs := make([][]lineRef, shards)
	bufs := make([]bytes.Buffer, shards)
	for i, in := range judged {
		s := i % shards
		fmt.Fprintf(&bufs[s], "{\"ev\":\"input\",\"id\":%d,\"size\":%d}\n", in.ID, len(in.Src))
		refs[s] = append(refs[s], lineRef{in, -1})
		for j, e := range in.Res.Events {
			fmt.Fprintf(&bufs[s], "{\"ev\":\"call\",\"id\":%d,\"stage\":\"%s\",\"out\":\"%s\",\"cpu\":%d,\"rss\":%d,\"outb\":%d,\"alloc\":%d}\n", in.ID, e.Stage, e.Out, e.CPU, e.RSS, e.OutB, e.Alloc)
			refs[s] = append(refs[s], lineRef{in, j})
		}
		fmt.Fprintf(&bufs[s], "{\"ev\":\"end\",\"id\":%d}\n", in.ID)
		refs[s] = append(refs[s], lineRef{in, -1})
	}
	t2 := time.Now()
	verdicts := make([]*c10Verdict, shards)
	core.ParMap(shards, min(shards, core.Cores()), func(s int) {
		v, err := c10Validate(c, bufs[s].Bytes())
		if err != nil {
			c.BrokenF("trace validation (shard %d): %v", s, err)
			return
		}
		verdicts[s] = v
	})
	if len(c.Broken) > 0 {
		return c.Finish()
	}
	c.Traces = len(judged)
	c.Programs = len(judged)

	// ---- verdicts -> reports ------------------------------------------------------------------------------------------------
	type evKey struct {
		in *c10Input
		ev int
	}
	rules := map[evKey][]string{}
	var order []evKey
	for s, v := range verdicts {
		for _, b := range v.Bad {
			ref := refs[s][b.L-1]
			if strings.HasPrefix(b.Rule, "harness:") {
				c.BrokenF("input %d (%s %s): %s", ref.in.ID, ref.in.Gen, ref.in.Param, b.Rule)
				continue
			}
			k := evKey{ref.in, ref.ev}
			if _, ok := rules[k]; !ok {
				order = append(order, k)
			}
			rules[k] = append(rules[k], b.Rule)
		}
	}
	reNum := regexp.MustCompile(`[0-9]+`)
	worst := map[*c10Input]string{}
	for _, k := range order {
		in, e := k.in, k.in.Res.Events[k.ev]
		rs := rules[k]
		rule := ""
		for _, want := range []string{"Outcome:", "cpu", "resident", "output", "allocation"} {
			for _, r := range rs {
				if rule == "" && strings.Contains(r, want) {
					rule = map[string]string{"Outcome:": "Outcome:" + e.Out, "cpu": "Cost:cpu", "resident": "Cost:rss", "output": "Cost:out", "allocation": "Cost:alloc"}[want]
				}
			}
		}
		if w := worst[in]; w == "" || strings.HasPrefix(rule, "Outcome:") {
			worst[in] = rule
		}
		opt, entry := "", ""
		if f := strings.SplitN(e.Key, ":", 3); len(f) >= 2 {
			opt = f[1]
			if len(f) == 3 {
				entry = f[2]
			}
		}
		feat := hostile.Feat(in.Src).String()
		msg := reNum.ReplaceAllString(strings.ReplaceAll(e.Msg, "4294967295", "MAXU"), "N") // MAXU: the invalid-handle sentinel ^uint32(0)
		if strings.HasPrefix(rule, "Cost:") {
			msg = ""
		}
		desc := map[string]string{
			"stage": e.Stage, "opt": opt, "entry": entry, "rule": rule, "out": e.Out,
			"action": strings.Join(in.Classes, "+"), "param": in.Param, "feat": feat, "seedkind": strings.TrimRight(in.Seed, "0123456789"),
			"where": e.Where, "hot": e.Hot, "loc": map[bool]string{true: e.Hot, false: e.Where}[e.Hot != ""], "msg": msg, "gen": in.Gen,
			"sig": strings.Join([]string{e.Stage, rule, map[bool]string{true: "", false: e.Where}[e.Out == "timeout"], e.Hot, c10Short(msg, 80), feat}, "|"),
		}
		if !strings.HasSuffix(in.Seed, ".wgsl") {
			desc["seedkind"] = strings.TrimRight(in.Seed, "0123456789")
		} else {
			desc["seedkind"] = "corpus"
		}
		c.Disagree++
		what := fmt.Sprintf("%s in %s (%s): %s; cpu=%dms rss=%dMiB alloc=%dMiB out=%dB; input %d bytes from %s via %s %s [%s]%s",
			rule, e.Stage, e.Key, strings.Join(rs, " / "), e.CPU, e.RSS, e.Alloc, e.OutB, len(in.Src), in.Seed, strings.Join(in.Classes, "+"), in.Param, feat,
			func() string {
				if e.Msg != "" || e.Where != "" {
					return fmt.Sprintf(" - %s at %s %s (hot: %s)", c10Short(e.Msg, 200), e.Where, e.File, e.Hot)
				}
				return ""
			}())
		c.Report(what, desc, map[string]any{
			"src_b64": base64.StdEncoding.EncodeToString([]byte(in.Src)), "src_head": c10Short(in.Src, 400), "bytes": len(in.Src),
			"seed_doc": in.Seed, "script": in.Script, "opts": in.Opts, "events": in.Res.Events, "stderr": c10Short(in.Res.Stderr, 2000), "frames": c10NagaFrames(in.Res.Stderr, 30), "rules": rs,
		})
	}

	// ---- evidence -------------------------------------------------------------------------------------------------------------------
	byAction := map[string]map[string]int{}
	byStage := map[string]map[string]int{}
	byOpt := map[string]int{}
	reached := map[string]int{}
	bump := func(m map[string]map[string]int, a, b string) {
		if m[a] == nil {
			m[a] = map[string]int{}
		}
		m[a][b]++
	}
	sampled := map[string]bool{}
	for _, in := range judged {
		w := worst[in]
		if w == "" {
			w = "ok/err"
		}
		for _, cl := range in.Classes {
			bump(byAction, cl, w)
		}
		if len(in.Classes) == 0 {
			bump(byAction, "(seed unchanged)", w)
		}
		deepest := "tokenize"
		for _, e := range in.Res.Events {
			bump(byStage, e.Stage, e.Out)
			if e.Stage != "compile" {
				deepest = e.Stage
			}
			if strings.Contains(e.Key, ":") {
				f := strings.SplitN(e.Key, ":", 3)
				byOpt[f[0]+":"+f[1]]++
			}
		}
		reached[deepest]++
		c.Eval(in.Src, true)
		if len(in.Classes) > 0 && !sampled[in.Classes[len(in.Classes)-1]] && len(in.Script) <= 2 {
			sampled[in.Classes[len(in.Classes)-1]] = true
			var outs []string
			for _, e := range in.Res.Events {
				outs = append(outs, e.Key+"="+e.Out)
			}
			if len(sampled) <= 6 {
				c.Sample(map[string]any{"seed": in.Seed, "actions": in.Classes, "param": in.Param, "bytes": len(in.Src), "head": c10Short(in.Src, 160), "calls": outs})
			}
		}
	}
	// where the worker CPU time went (by generator, and the most expensive inputs)
	cpuByGen := map[string]int{}
	type cons struct {
		cpu int
		in  *c10Input
	}
	var top []cons
	for _, in := range judged {
		t := 0
		for _, e := range in.Res.Events {
			t += e.CPU
		}
		cpuByGen[in.Gen] += t
		top = append(top, cons{t, in})
	}
	sort.Slice(top, func(i, j int) bool { return top[i].cpu > top[j].cpu })
	var topL []string
	for i := 0; i < len(top) && i < 25; i++ {
		topL = append(topL, fmt.Sprintf("%dms %s %s %s", top[i].cpu, top[i].in.Gen, strings.Join(top[i].in.Classes, "+"), c10Short(top[i].in.Param, 120)))
	}
	c.Cov["worker_cpu_ms_by_generator"] = cpuByGen
	c.Cov["most_expensive_inputs"] = topL
	c.Cov["by_action_class"] = byAction
	c.Cov["by_stage_outcome"] = byStage
	c.Cov["calls_by_backend_option"] = byOpt
	c.Cov["deepest_stage_reached"] = reached
	c.Cov["envelope"] = env
	c.Cov["workers_started"] = sup.Workers
	if notRun > 0 {
		c.Cov["inputs_not_run_kill_budget_exhausted"] = notRun
	}
	c.Cov["solo_reruns"] = soloRuns
	c.Cov["followup_runs"] = followUps
	c.Cov["anomalies_not_reproduced_alone"] = unconfirmed
	c.Cov["phase_wall_s"] = map[string]float64{"batches": batchWall.Seconds(), "solo": soloWall.Seconds(), "trace_validation": time.Since(t2).Seconds()}
	c.Cov["trace_events"] = nEvents
	for _, cl := range c10AllClasses {
		if len(byAction[cl]) == 0 && onlyGens == "" && notRun == 0 {
			c.BrokenF("action class %s was never exercised", cl)
		}
	}
	if unconfirmed*20 > len(inputs) {
		c.BrokenF("%d anomalies seen in batches were not reproduced alone: the workers are unreliable", unconfirmed)
	}
	c.Assumef("glsl is run for at most %d entry points per module (the first ones and the last)", c10MaxGlslEntries)
	c.Cov["max_cpu_calibration_factor"] = sup.MaxSlow
	c.Assumef("CPU times are expressed in reference-machine milliseconds: every worker first runs a fixed allocation/formatting workload (c10Calib) and its CPU times and CPU limit are scaled by max(1, min(6, measured/%d ms)); on a slower or more heavily loaded machine the CPU envelope is therefore wider, never narrower (largest factor in this run: %.2f)", c10CalibRefMs, sup.MaxSlow)
	c.Assumef("kill limits of the watchdog are 1.25x the cpu envelope and 1.5x+128 MiB the rss envelope; a killed call is recorded as timeout / oom")
	c.Assumef("exploration, not proof: TLA+ contributes the input-space model and the call/outcome protocol; memory safety and complexity are observed")
	return c.Finish()
}

// c10Replay re-runs the input of a replay file alone and prints what happened.
func c10Replay(file string) int {
	b, err := os.ReadFile(file)
	if err != nil {
		fmt.Println("cannot read", file, err)
		return 2
	}
	var rf struct {
		Case struct {
			Src  string              `json:"src_b64"`
			Opts map[string][]string `json:"opts"`
		} `json:"case"`
	}
	var src []byte
	if json.Unmarshal(b, &rf) == nil && rf.Case.Src != "" {
		src, _ = base64.StdEncoding.DecodeString(rf.Case.Src)
	} else {
		src = b // a raw source file
	}
	dir, _ := os.MkdirTemp("", "c10replay")
	defer os.RemoveAll(dir)
	sup := newC10Super(dir)
	lim := c10Limits{CPUms: 20000, RSSMiB: 3000, WallSec: 600, ASMiB: 4096}
	var skip []string
	bad := 0
	shown := map[string]bool{}
	for n := 0; n < 8; n++ {
		r := sup.RunBatch([]c10JobInput{{ID: 0, Src: src, Opts: rf.Case.Opts, Skip: skip}}, lim)[0]
		if r == nil {
			fmt.Println("no result")
			return 2
		}
		for _, e := range r.Events {
			if shown[e.Key] {
				continue
			}
			shown[e.Key] = true
			fmt.Printf("%-28s %-8s cpu=%6dms rss=%5dMiB alloc=%6dMiB out=%9dB %s %s %s hot=[%s]\n", e.Key, e.Out, e.CPU, e.RSS, e.Alloc, e.OutB, c10Short(e.Msg, 140), e.Where, e.File, e.Hot)
			if e.Out != "ok" && e.Out != "err" {
				bad++
			}
		}
		if r.Machine != "" {
			fmt.Println("machinery:", r.Machine)
		}
		if !r.Died {
			break
		}
		fmt.Println("--- worker died; stderr head:\n" + c10Short(r.Stderr, 600) + "\n--- naga frames (innermost first):")
		for _, f := range c10NagaFrames(r.Stderr, 40) {
			fmt.Println("      " + f)
		}
		fmt.Println("--- re-running with that stage skipped")
		skip = append(skip, r.Events[len(r.Events)-1].Key)
	}
	sort.Strings(skip)
	if bad > 0 {
		return 1
	}
	return 0
}

var _ = filepath.Join
