package checks

import (
	"fmt"
	"math"
	"strings"

	"verif/harness/wg"
)

// ---- C06: printing const-expression trees as WGSL ------------------------------------------------------------

func wgslType(t wg.N) string {
	if wg.K(t) == "vec" {
		return fmt.Sprintf("vec%d<%s>", wg.I(t, "n"), kindOf(t))
	}
	return wg.K(t)
}

// treeText prints e; leafFn gives the text of the i-th literal leaf (depth first, left to right).
func treeText(e wg.N, leafFn func(i int, lit wg.N) string) string {
	n := 0
	var pr func(e wg.N) string
	args := func(as []wg.N) string {
		var out []string
		for _, a := range as {
			out = append(out, pr(a))
		}
		return strings.Join(out, ", ")
	}
	pr = func(e wg.N) string {
		switch wg.K(e) {
		case "lit":
			n++
			return leafFn(n-1, e)
		case "sink":
			return pr(wg.Sub(e, "a"))
		case "un":
			return "(" + wg.S(e, "op") + pr(wg.Sub(e, "a")) + ")"
		case "bin":
			a := pr(wg.Sub(e, "a"))
			return "(" + a + " " + wg.S(e, "op") + " " + pr(wg.Sub(e, "b")) + ")"
		case "cast":
			return wgslType(tOf(e)) + "(" + pr(wg.Sub(e, "a")) + ")"
		case "bitcast":
			return "bitcast<" + wgslType(tOf(e)) + ">(" + pr(wg.Sub(e, "a")) + ")"
		case "ctor":
			if wg.I(e, "ex") == 1 {
				return wgslType(tOf(e)) + "(" + args(wg.L(e, "args")) + ")"
			}
			return fmt.Sprintf("vec%d(%s)", wg.I(tOf(e), "n"), args(wg.L(e, "args")))
		case "swz":
			s := ""
			for _, i := range swzIdx(e) {
				s += string("xyzw"[i])
			}
			return pr(wg.Sub(e, "a")) + "." + s
		case "bi":
			return wg.S(e, "f") + "(" + args(wg.L(e, "args")) + ")"
		}
		return "/*?" + wg.K(e) + "*/"
	}
	return pr(e)
}

func swzIdx(e wg.N) []int {
	switch v := e["s"].(type) {
	case []int:
		return v
	case []any:
		out := make([]int, len(v))
		for i, x := range v {
			out[i] = int(x.(float64))
		}
		return out
	}
	return nil
}

// chainText prints the tree with every operator node below the root turned into a module-scope constant of its own
// (`const K_a = x op y; const K_b: i32 = 2 - 5;` ...), so that the root expression consumes *computed* named constants.
// A scalar conversion T(e) of an abstract operator node is written as the typed declaration `const K: T = e;` (the same
// conversion in WGSL).  decl receives the declarations in dependency order; the root's text is returned.
func chainText(e wg.N, pfx string, decl func(line string)) string {
	n := 0
	name := func() string {
		n++
		return fmt.Sprintf("%s_%c", pfx, 'a'+n-1)
	}
	isOp := func(x wg.N) bool { k := wg.K(x); return k == "bin" || k == "un" || k == "bi" }
	var pr func(e wg.N, root bool) string
	args := func(as []wg.N) string {
		var out []string
		for _, a := range as {
			out = append(out, pr(a, false))
		}
		return strings.Join(out, ", ")
	}
	pr = func(e wg.N, root bool) string {
		var txt string
		switch wg.K(e) {
		case "lit":
			return litText(e)
		case "sink":
			return pr(wg.Sub(e, "a"), root)
		case "un":
			txt = "(" + wg.S(e, "op") + pr(wg.Sub(e, "a"), false) + ")"
		case "bin":
			a := pr(wg.Sub(e, "a"), false)
			txt = "(" + a + " " + wg.S(e, "op") + " " + pr(wg.Sub(e, "b"), false) + ")"
		case "cast":
			a := wg.Sub(e, "a")
			if !root && lanesOf(tOf(e)) == 0 && isOp(a) && isAbs(kindOf(tOf(a))) {
				// typed declaration of an abstract initialiser: the operator node itself is not named separately
				var inner string
				switch wg.K(a) {
				case "un":
					inner = "(" + wg.S(a, "op") + pr(wg.Sub(a, "a"), false) + ")"
				case "bin":
					x := pr(wg.Sub(a, "a"), false)
					inner = "(" + x + " " + wg.S(a, "op") + " " + pr(wg.Sub(a, "b"), false) + ")"
				default:
					inner = wg.S(a, "f") + "(" + args(wg.L(a, "args")) + ")"
				}
				nm := name()
				decl(fmt.Sprintf("const %s: %s = %s;", nm, wgslType(tOf(e)), inner))
				return nm
			}
			return wgslType(tOf(e)) + "(" + pr(a, false) + ")"
		case "bitcast":
			return "bitcast<" + wgslType(tOf(e)) + ">(" + pr(wg.Sub(e, "a"), false) + ")"
		case "ctor":
			if wg.I(e, "ex") == 1 {
				return wgslType(tOf(e)) + "(" + args(wg.L(e, "args")) + ")"
			}
			return fmt.Sprintf("vec%d(%s)", wg.I(tOf(e), "n"), args(wg.L(e, "args")))
		case "swz":
			sw := ""
			for _, i := range swzIdx(e) {
				sw += string("xyzw"[i])
			}
			return pr(wg.Sub(e, "a"), false) + "." + sw
		case "bi":
			txt = wg.S(e, "f") + "(" + args(wg.L(e, "args")) + ")"
		default:
			return "/*?" + wg.K(e) + "*/"
		}
		if root {
			return txt
		}
		nm := name()
		decl(fmt.Sprintf("const %s = %s;", nm, txt))
		return nm
	}
	return pr(e, true)
}

// baseForm strips the "chain_" prefix: a chain form is the base form applied to the root expression over computed named constants.
func baseForm(form string) string { return strings.TrimPrefix(form, "chain_") }

// leaves lists the literal leaves in printing order.
func leaves(e wg.N) []wg.N {
	var out []wg.N
	treeText(e, func(i int, l wg.N) string { out = append(out, l); return "" })
	return out
}

func literalText(e wg.N) string { return treeText(e, func(_ int, l wg.N) string { return litText(l) }) }

// ---- run-time form: the tree with abstract leaves concretised (mirror of ConstEval!Conc) and leaves loaded from a buffer ----

var sameKindBi = map[string]bool{"abs": true, "sign": true, "min": true, "max": true, "clamp": true, "dot": true, "countOneBits": true,
	"countLeadingZeros": true, "countTrailingZeros": true, "reverseBits": true, "firstLeadingBit": true, "firstTrailingBit": true}

func argKind(e wg.N, i int) string { // i is 1-based as in the specification
	K := kindOf(tOf(e))
	f := wg.S(e, "f")
	switch {
	case sameKindBi[f] || floatOnlyBi[f]:
		return K
	case f == "select":
		if i == 3 {
			return "bool"
		}
		return K
	case f == "extractBits":
		if i == 1 {
			return K
		}
		return "u32"
	case f == "insertBits":
		if i <= 2 {
			return K
		}
		return "u32"
	case f == "all" || f == "any":
		return "bool"
	case f == "pack4xI8" || f == "pack4xI8Clamp":
		return "i32"
	case f == "pack4xU8" || f == "pack4xU8Clamp" || f == "unpack4xI8" || f == "unpack4xU8":
		return "u32"
	}
	return K
}

func opKind(e wg.N) string {
	if op := wg.S(e, "op"); op == "<<" || op == ">>" {
		return kindOf(tOf(wg.Sub(e, "a")))
	}
	return unify(kindOf(tOf(wg.Sub(e, "a"))), kindOf(tOf(wg.Sub(e, "b"))))
}

func concTree(e wg.N, dk string) wg.N {
	own := kindOf(tOf(e))
	k := own
	if isAbs(own) {
		k = dk
	}
	switch wg.K(e) {
	case "lit":
		if !isAbs(own) {
			return e
		}
		var w int32
		if own == "ai" {
			x := aiValue(e)
			switch k {
			case "f32":
				w = int32(math.Float32bits(float32(x)))
			default:
				w = int32(uint32(x))
			}
		} else {
			w = int32(wg.I(e, "v"))
		}
		return cLit(k, w)
	case "sink":
		return concTree(wg.Sub(e, "a"), kindOf(tOf(e)))
	case "un":
		return wg.N{"k": "un", "op": e["op"], "t": withKind(tOf(e), k), "a": concTree(wg.Sub(e, "a"), k)}
	case "bin":
		op := wg.S(e, "op")
		if op == "&&" || op == "||" {
			return wg.N{"k": "bin", "op": op, "t": tOf(e), "a": concTree(wg.Sub(e, "a"), "bool"), "b": concTree(wg.Sub(e, "b"), "bool")}
		}
		ok := opKind(e)
		bk := ok
		if op == "<<" || op == ">>" {
			bk = "u32"
		}
		return wg.N{"k": "bin", "op": op, "t": withKind(tOf(e), k), "a": concTree(wg.Sub(e, "a"), ok), "b": concTree(wg.Sub(e, "b"), bk)}
	case "cast":
		fk, tk := kindOf(tOf(wg.Sub(e, "a"))), kindOf(tOf(e))
		d := "f32"
		if fk == "ai" {
			d = tk
			if tk == "bool" {
				d = "i32"
			}
		}
		return wg.N{"k": "cast", "t": tOf(e), "a": concTree(wg.Sub(e, "a"), d)}
	case "bitcast":
		return wg.N{"k": "bitcast", "t": tOf(e), "a": concTree(wg.Sub(e, "a"), "")}
	case "ctor":
		as := wg.L(e, "args")
		out := make([]wg.N, len(as))
		for i, a := range as {
			out[i] = concTree(a, k)
		}
		return wg.N{"k": "ctor", "ex": 1, "t": withKind(tOf(e), k), "args": out}
	case "swz":
		return wg.N{"k": "swz", "t": withKind(tOf(e), k), "s": e["s"], "a": concTree(wg.Sub(e, "a"), k)}
	case "bi":
		as := wg.L(e, "args")
		out := make([]wg.N, len(as))
		for i, a := range as {
			out[i] = concTree(a, argKind(e, i+1))
		}
		return wg.N{"k": "bi", "f": e["f"], "t": withKind(tOf(e), k), "args": out}
	}
	return e
}

// loadText is the run-time spelling of leaf l read from inp[slot].
func loadText(slot int, l wg.N) string {
	switch wg.K(tOf(l)) {
	case "i32":
		return fmt.Sprintf("bitcast<i32>(inp[%d])", slot)
	case "f32":
		return fmt.Sprintf("bitcast<f32>(inp[%d])", slot)
	case "bool":
		return fmt.Sprintf("(inp[%d] != 0u)", slot)
	}
	return fmt.Sprintf("inp[%d]", slot)
}

// ---- programs ----------------------------------------------------------------------------------------------------

// site is one place where a case's expression is written in a program.
type site struct {
	c     *ccase
	form  string // fn let fnconst modconst named | runtime | case arraysize assert_eq assert_ne wgsize
	base  int    // first output word (value forms: in the buffer of the result kind)
	lanes int
	name  string // module-scope name used by the site (constant / variable / entry point)
	slot  int    // first input word (runtime / case forms)
	nIn   int
}

func outBuf(k string) string {
	switch k {
	case "i32":
		return "out_i"
	case "f32":
		return "out_f"
	}
	return "out_u"
}

// cprog assembles one WGSL program from sites.
type cprog struct {
	sites  []*site
	module strings.Builder
	body   strings.Builder
	eps    strings.Builder
	nOut   int
	nInp   int
	inp    []int32
	serial int
}

func (p *cprog) fresh(pfx string) string {
	p.serial++
	return fmt.Sprintf("%s%d", pfx, p.serial)
}

// store emits the stores of value expression `val` (already a name or an expression) of result type t at the current position.
func (p *cprog) store(s *site, t wg.N, val string) {
	k := kindOf(t)
	buf := outBuf(k)
	n := lanesOf(t)
	s.base, s.lanes = p.nOut, max(n, 1)
	wrap := func(x string) string {
		if k == "bool" {
			return "u32(" + x + ")"
		}
		return x
	}
	if n == 0 {
		fmt.Fprintf(&p.body, "  %s[%d] = %s;\n", buf, p.nOut, wrap(val))
		p.nOut++
		return
	}
	for j := 0; j < n; j++ {
		fmt.Fprintf(&p.body, "  %s[%d] = %s;\n", buf, p.nOut, wrap(val+"."+string("xyzw"[j])))
		p.nOut++
	}
}

// typeAnn is the type annotation a declaration needs so that an abstract initialiser acquires the sink's kind
// ("" when the default rule gives it already or the initialiser is concrete).
func typeAnn(c *ccase) string {
	e := wg.Sub(c.Tree, "a")
	k := kindOf(tOf(e))
	if !isAbs(k) {
		return ""
	}
	sk := kindOf(tOf(c.Tree))
	if (k == "ai" && sk == "i32") || (k == "af" && sk == "f32") {
		return ""
	}
	return ": " + wgslType(tOf(c.Tree))
}

func (p *cprog) add(c *ccase, form string) *site {
	s := &site{c: c, form: form}
	p.sites = append(p.sites, s)
	t := tOf(c.Tree)
	txt := literalText(c.Tree)
	if strings.HasPrefix(form, "chain_") {
		txt = chainText(c.Tree, p.fresh("K"), func(line string) { p.module.WriteString(line + "\n") })
	}
	switch baseForm(form) {
	case "fn":
		if lanesOf(t) == 0 {
			p.store(s, t, txt)
		} else {
			nm := p.fresh("r")
			fmt.Fprintf(&p.body, "  let %s%s = %s;\n", nm, typeAnn(c), txt)
			p.store(s, t, nm)
		}
	case "let":
		nm := p.fresh("l")
		fmt.Fprintf(&p.body, "  let %s%s = %s;\n", nm, typeAnn(c), txt)
		p.store(s, t, nm)
	case "fnconst":
		nm := p.fresh("c")
		fmt.Fprintf(&p.body, "  const %s%s = %s;\n", nm, typeAnn(c), txt)
		p.store(s, t, nm)
	case "modconst":
		s.name = p.fresh("M")
		fmt.Fprintf(&p.module, "const %s%s = %s;\n", s.name, typeAnn(c), txt)
		p.store(s, t, s.name)
	case "named":
		pfx := p.fresh("N")
		s.name = pfx
		txt = treeText(c.Tree, func(i int, l wg.N) string {
			nm := fmt.Sprintf("%s_%c", pfx, 'a'+i)
			fmt.Fprintf(&p.module, "const %s = %s;\n", nm, litText(l))
			return nm
		})
		fmt.Fprintf(&p.module, "const %s%s = %s;\n", pfx, typeAnn(c), txt)
		p.store(s, t, pfx)
	case "runtime":
		ct := concTree(c.Tree, "")
		s.slot = p.nInp
		txt = treeText(ct, func(i int, l wg.N) string {
			p.inp = append(p.inp, int32(wg.I(l, "v")))
			p.nInp++
			return loadText(p.nInp-1, l)
		})
		s.nIn = p.nInp - s.slot
		if lanesOf(t) == 0 {
			p.store(s, t, txt)
		} else {
			nm := p.fresh("r")
			fmt.Fprintf(&p.body, "  let %s = %s;\n", nm, txt)
			p.store(s, t, nm)
		}
	case "case":
		// selector read at run time; the case value is the const-expression
		s.slot = p.nInp
		p.inp = append(p.inp, 0)
		p.nInp++
		s.nIn = 1
		sel := fmt.Sprintf("inp[%d]", s.slot)
		if kindOf(t) == "i32" {
			sel = "bitcast<i32>(" + sel + ")"
		}
		s.base, s.lanes = p.nOut, 1
		fmt.Fprintf(&p.body, "  switch %s { case %s: { out_u[%d] = 1u; } default: { out_u[%d] = 2u; } }\n", sel, txt, p.nOut, p.nOut)
		p.nOut++
	case "arraysize":
		s.name = p.fresh("w")
		fmt.Fprintf(&p.module, "var<workgroup> %s: array<u32, %s>;\n", s.name, txt)
	case "assert_eq", "assert_ne":
		op := "=="
		if baseForm(form) == "assert_ne" {
			op = "!="
		}
		want := cLit(kindOf(t), c.Pred.V[0])
		// (the whole condition is parenthesised: naga's parser stops a const_assert condition at the first closing parenthesis)
		fmt.Fprintf(&p.module, "const_assert (%s %s %s);\n", txt, op, litText(want))
	case "wgsize":
		// without the outer parentheses of a binary expression: @workgroup_size has its own, smaller evaluator
		if e := wg.Sub(c.Tree, "a"); wg.K(e) == "bin" && len(txt) > 2 {
			txt = txt[1 : len(txt)-1]
		}
		s.name = p.fresh("e")
		fmt.Fprintf(&p.eps, "@compute @workgroup_size(%s) fn %s() {}\n", txt, s.name)
	}
	return s
}

func (p *cprog) text() string {
	var sb strings.Builder
	fmt.Fprintf(&sb, "@group(0) @binding(0) var<storage, read> inp: array<u32, %d>;\n", max(p.nInp, 1))
	n := max(p.nOut, 1)
	fmt.Fprintf(&sb, "@group(0) @binding(1) var<storage, read_write> out_i: array<i32, %d>;\n", n)
	fmt.Fprintf(&sb, "@group(0) @binding(2) var<storage, read_write> out_u: array<u32, %d>;\n", n)
	fmt.Fprintf(&sb, "@group(0) @binding(3) var<storage, read_write> out_f: array<f32, %d>;\n", n)
	sb.WriteString(p.module.String())
	sb.WriteString("@compute @workgroup_size(1, 1, 1)\nfn main() {\n")
	sb.WriteString(p.body.String())
	sb.WriteString("}\n")
	sb.WriteString(p.eps.String())
	return sb.String()
}
