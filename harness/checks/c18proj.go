package checks

import (
	"bytes"
	"encoding/json"
	"fmt"

	"github.com/gogpu/naga/dxil"
	"github.com/gogpu/naga/ir"

	"verif/harness/dxbc"
)

// ---- projection of decoder events onto the schema DxbcTrace.tla reads -----------------------------------------------
//
// The decoder (harness/dxbc) reports many facts per event and leaves fields out when they do not apply.  TLC needs
// records of a fixed shape (a missing field is an evaluation error) and never compares a string with an integer, so
// every event type is projected onto a fixed list of fields with typed defaults (-1 / "" / false / []).  Only raw facts
// travel; the comparisons that make up the rules are in spec/Dxbc.tla.  The exceptions are facts that need the bytes or
// the whole type table (strings inside a part, digests, structural type equality): those are decoder facts by name.

type c18Fld struct {
	k   string
	def any
}

var c18z4 = []int{0, 0, 0, 0}

func c18f(kv ...any) []c18Fld {
	out := make([]c18Fld, 0, len(kv)/2)
	for i := 0; i+1 < len(kv); i += 2 {
		out = append(out, c18Fld{kv[i].(string), kv[i+1]})
	}
	return out
}

var c18Schema = map[string][]c18Fld{
	"header": c18f("complete", false, "magic", "", "digest", c18z4, "ver_major", -1, "ver_minor", -1, "declared_size", -1,
		"actual_size", 0, "part_count", -1, "offsets_read", -1),
	"digest_check":   c18f("computed", c18z4, "stored_kind", ""),
	"part_offset":    c18f("i", -1, "offset", -1),
	"part":           c18f("i", -1, "header_ok", false, "fourcc", "", "offset", -1, "size", -1),
	"parts_end":      c18f(),
	"sfi":            c18f("size", -1),
	"hash_part":      c18f("size", -1, "flags", -1, "digest", c18z4, "md5_bitcode", c18z4, "have_dxil", false),
	"program_header": c18f("part", "", "kind", -1, "major", -1, "minor", -1, "size_dwords", -1, "actual_bytes", 0, "magic", -1, "dxil_major", -1, "dxil_minor", -1, "bc_offset", -1, "bc_size", -1),
	"stat_bitstream": c18f("ok", false, "magic_ok", false),
	"sig":            c18f("part", "", "count", -1, "offset", -1, "size", 0),
	"sig_elem": c18f("part", "", "k", -1, "name", "", "name_in_bounds", false, "sem_index", -1, "system_value", -1, "comp_type", -1,
		"register", -1, "mask", -1, "rw_mask", -1, "stream", -1),
	"psv": c18f("size", 0, "info_size", -1, "stage", -1, "sig_in_elems", 0, "sig_out_elems", 0, "sig_pc_elems", 0,
		"resource_count", -1, "bind_size", -1, "threads_x", 0, "threads_y", 0, "threads_z", 0),
	"psv_res":      c18f("k", -1, "type", -1, "space", -1, "lower", -1, "upper", -1),
	"psv_strtab":   c18f("size", -1, "entry_name", "", "entry_name_in_bounds", false, "have_entry", false),
	"psv_sig_size": c18f("size", -1),
	"psv_sig": c18f("which", "in", "k", -1, "name_in_bounds", false, "sem_indexes_in_bounds", false, "rows", -1, "start_row", -1,
		"cols", -1, "start_col", -1, "allocated", 0),
	"psv_table":     c18f("name", "", "fits", false),
	"psv_end":       c18f("pos", -1, "size", 0),
	"bc_magic":      c18f("b0", -1, "b1", -1, "b2", -1, "b3", -1, "total_bits", -1),
	"enter_block":   c18f("id", -1, "width", -1, "declared_words", -1, "bit", 0, "len_bit", -1, "body_bit", -1, "w", -1),
	"exit_block":    c18f("id", -1, "bit", 0, "end_bit", 0, "declared_words", -1, "w", -1),
	"define_abbrev": c18f("kinds", []int{}, "vals", []int{}, "abbrev_id", -1, "w", -1),
	"record":        c18f("abbrev", -1, "code", -1, "nops", 0, "op0", -1, "bit", 0, "end_bit", 0, "w", -1),
	"end":           c18f("ok", false, "consumed", -1, "total", -1),

	"ir_type_numentry": c18f("n", -1),
	"ir_type":          c18f("idx", 0, "refs", []int{}, "named_struct", false, "short", false),
	"ir_types_end":     c18f("count", 0, "numentry", -1, "have_numentry", false),
	"ir_global":        c18f("value", 0, "ty", -1, "init", -1, "nops", 0),
	"ir_function":      c18f("value", 0, "ty", -1, "fn_ty", -1, "is_decl", true, "nparams", -1, "nops", 0),
	"ir_alias":         c18f("value", 0, "ty", -1),
	"ir_settype":       c18f("ty", -1),
	"ir_const":         c18f("fn", -1, "value", 0, "ty", -1, "ty_set", false, "refs", []int{}, "type_refs", []int{}),
	"ir_consts_end":    c18f("next_value", 0),
	"ir_md":            c18f("idx", 0, "kind", "", "fn", -1, "ops", []int{}, "ty", -1, "val", -1),
	"ir_named_md":      c18f("ops", []int{}),
	"ir_md_end":        c18f("count", 0),
	"ir_vst":           c18f("fn", -1, "kind", "", "id", -1),
	"ir_func_begin":    c18f("fn", -1, "nargs", 0, "first_value", 0),
	"ir_declareblocks": c18f("n", -1, "after_insts", 0),
	"ir_inst": c18f("op", "", "vn", 0, "vals", []int{}, "types", []int{}, "targets", []int{}, "term", false, "defines", false, "short", false,
		"trunc", false, "extra_ops", 0, "fwd_type_conflict", false, "callee", -1, "nparams", -1, "varargs", 0, "tyfail", []string{}),
	"ir_func_end":     c18f("next_value", 0, "max_value_used", -1, "aborted", false),
	"ir_module_end":   c18f("bodies", 0, "module_values", 0),
	"dx_version":      c18f("which", "", "major", -1, "minor", -1),
	"dx_shader_model": c18f("kind", "", "major", -1, "minor", -1),
	"dx_entry":        c18f("name", "", "fn", -1, "fn_is_decl", true, "fn_name_matches", false),
	"dx_resources":    c18f("scope", "", "total", -1),
	"dx_resource":     c18f("scope", "", "class", -1, "space", -1, "lower", -1, "upper", -1),
	"dx_sig_elem":     c18f("which", "in", "rows", 0),
	"dx_entry_prop":   c18f("tag", -1, "threads_x", 0, "threads_y", 0, "threads_z", 0),
	"error":           c18f("layer", ""),
}

// the facts about operand TYPES that LLVM 3.7's BitcodeReader checks while parsing an instruction; a fact is only used
// when the decoder knows the types involved
var c18TypedFacts = []string{"ptr_is_pointer", "pointee_equiv", "base_is_pointer", "src_ty_equiv", "callee_ty_equiv", "elem_ty_equiv", "index_ok"}

func c18Typed(e dxbc.Event) []string {
	out := []string{}
	for _, k := range c18TypedFacts {
		v, ok := e[k].(bool)
		if !ok || v {
			continue
		}
		switch k {
		case "index_ok":
			if t, _ := e["agg_ty"].(int); t < 0 {
				continue // aggregate type unknown to the decoder: cannot tell
			}
		case "base_is_pointer":
			if t, _ := e["base_ty"].(int); t < 0 {
				continue
			}
		}
		out = append(out, k)
	}
	return out
}

// c18Project turns the decoder's events for one container into the lines of the trace (without reset/fin).  orig[i] is the
// index of the decoder event line i came from.  internal decoder faults are returned separately (machinery, never a violation).
func c18Project(evs []dxbc.Event) (lines []map[string]any, orig []int, internal []string) {
	inMd := false
	mdCount := 0
	for i, e := range evs {
		name, _ := e["ev"].(string)
		isMd := name == "ir_md" || name == "ir_named_md" || name == "ir_md_kind" || name == "ir_md_attach" || name == "ir_md_dangling_name"
		if inMd && !isMd {
			lines = append(lines, map[string]any{"ev": "ir_md_end", "count": mdCount})
			orig = append(orig, i)
			inMd = false
		}
		if name == "ir_md" {
			inMd = true
			if idx, ok := e["idx"].(int); ok {
				mdCount = idx + 1
			}
		}
		if name == "ir_named_md" {
			inMd = true
		}
		if name == "ir_module_begin" || name == "ir_func_begin" {
			// metadata numbering restarts per module; function-local blocks continue the module's numbering
			if name == "ir_module_begin" {
				mdCount = 0
			}
		}
		if name == "error" && e["layer"] == "internal" {
			internal = append(internal, fmt.Sprint(e["msg"]))
			continue
		}
		if name == "blockinfo" {
			name = "record"
		}
		sch, ok := c18Schema[name]
		if !ok {
			continue // facts no rule reads (names, attribute groups, ...)
		}
		out := map[string]any{"ev": name}
		for _, f := range sch {
			v, have := e[f.k]
			if !have {
				v = f.def
			} else {
				// keep the declared type: a field of the wrong dynamic type falls back to the default
				switch f.def.(type) {
				case int:
					if _, ok := v.(int); !ok {
						v = f.def
					}
				case string:
					if _, ok := v.(string); !ok {
						v = f.def
					}
				case bool:
					if _, ok := v.(bool); !ok {
						v = f.def
					}
				case []int:
					if x, ok := v.([]int); !ok || x == nil {
						v = f.def
					}
				}
			}
			out[f.k] = v
		}
		switch name {
		case "record":
			if ops, ok := e["ops"].([]int); ok && len(ops) > 0 {
				out["op0"] = ops[0]
			}
		case "psv_strtab":
			_, have := e["entry_name"]
			out["have_entry"] = have
		case "ir_inst":
			out["tyfail"] = c18Typed(e)
		case "ir_named_md":
			// operands beyond the first 16 are not listed by the decoder; the listed prefix is what is checked
		}
		lines = append(lines, out)
		orig = append(orig, i)
	}
	if inMd {
		lines = append(lines, map[string]any{"ev": "ir_md_end", "count": mdCount})
		orig = append(orig, len(evs)-1)
	}
	return lines, orig, internal
}

// c18Request is the content of a `reset` event.
type c18Request struct {
	Stage   int      `json:"stage"`
	Major   int      `json:"major"`
	Minor   int      `json:"minor"`
	Hash    string   `json:"hash"`
	Entry   string   `json:"entry"`
	Iface   string   `json:"iface"`
	ExpIn   [][4]int `json:"exp_in"`
	ExpOut  [][4]int `json:"exp_out"`
	Res     string   `json:"res"`
	ExpRes  [][4]int `json:"exp_res"`
	Threads []int    `json:"threads"`
}

func c18AnyRequest() c18Request {
	return c18Request{Stage: -1, Major: -1, Minor: -1, Hash: "any", Iface: "none", Res: "none",
		ExpIn: [][4]int{}, ExpOut: [][4]int{}, ExpRes: [][4]int{}, Threads: []int{}}
}

// c18Trace renders one container as trace lines: reset, events, fin.
func c18Trace(buf *bytes.Buffer, cidx int, req c18Request, lines []map[string]any, same bool) int {
	if req.ExpIn == nil {
		req.ExpIn = [][4]int{}
	}
	if req.ExpOut == nil {
		req.ExpOut = [][4]int{}
	}
	if req.ExpRes == nil {
		req.ExpRes = [][4]int{}
	}
	if req.Threads == nil {
		req.Threads = []int{}
	}
	rb, _ := json.Marshal(req)
	var rm map[string]any
	_ = json.Unmarshal(rb, &rm)
	rm["ev"] = "reset"
	rm["c"] = cidx
	b, _ := json.Marshal(rm)
	buf.Write(b)
	buf.WriteByte('\n')
	for _, l := range lines {
		b, _ := json.Marshal(l)
		buf.Write(b)
		buf.WriteByte('\n')
	}
	fmt.Fprintf(buf, "{\"ev\":\"fin\",\"same\":%v}\n", same)
	return len(lines) + 2
}

// ---- what the entry point's interface demands of the container (derived from the IR, not from the backend) ---------

func c18StageKind(s ir.ShaderStage) int {
	switch s {
	case ir.StageFragment:
		return 0
	case ir.StageVertex:
		return 1
	case ir.StageCompute:
		return 5
	case ir.StageMesh:
		return 13
	case ir.StageTask:
		return 14
	}
	return -1
}

// sigShape returns (#components, DxilProgramSigCompType) of an IO value type; ok=false for types the rule does not cover.
func c18SigShape(m *ir.Module, th ir.TypeHandle) (int, int, bool) {
	if int(th) >= len(m.Types) {
		return 0, 0, false
	}
	ct := func(s ir.ScalarType) (int, bool) {
		if s.Width != 4 && s.Kind != ir.ScalarBool {
			return 0, false
		}
		switch s.Kind {
		case ir.ScalarFloat:
			return 3, true
		case ir.ScalarSint:
			return 2, true
		case ir.ScalarUint, ir.ScalarBool:
			return 1, true
		}
		return 0, false
	}
	switch t := m.Types[th].Inner.(type) {
	case ir.ScalarType:
		c, ok := ct(t)
		return 1, c, ok
	case ir.VectorType:
		c, ok := ct(t.Scalar)
		return int(t.Size), c, ok
	}
	return 0, 0, false
}

// c18SigExpect: the bag of signature elements <<D3D_NAME system value, semantic index, #components, component type>>
// an argument / result binding must appear as.  inSig=false: the binding is not a signature element (compute builtins).
func c18SigExpect(m *ir.Module, b ir.Binding, th ir.TypeHandle, stage ir.ShaderStage, output bool) (el [4]int, inSig, ok bool) {
	n, ct, shapeOK := c18SigShape(m, th)
	switch x := b.(type) {
	case ir.LocationBinding:
		if !shapeOK || x.BlendSrc != nil {
			return el, true, false
		}
		sv := 0
		if output && stage == ir.StageFragment {
			sv = 64 // D3D_NAME_TARGET
		}
		return [4]int{sv, int(x.Location), n, ct}, true, true
	case ir.BuiltinBinding:
		switch x.Builtin {
		case ir.BuiltinPosition:
			return [4]int{1, 0, 4, 3}, true, true
		case ir.BuiltinVertexIndex:
			return [4]int{6, 0, 1, 1}, true, true
		case ir.BuiltinInstanceIndex:
			return [4]int{8, 0, 1, 1}, true, true
		case ir.BuiltinFrontFacing:
			return [4]int{9, 0, 1, 1}, true, true
		case ir.BuiltinSampleIndex:
			return [4]int{10, 0, 1, 1}, true, true
		case ir.BuiltinFragDepth:
			return [4]int{65, 0, 1, 3}, true, true
		case ir.BuiltinLocalInvocationID, ir.BuiltinLocalInvocationIndex, ir.BuiltinGlobalInvocationID, ir.BuiltinWorkGroupID:
			return el, false, true
		}
	}
	return el, true, false
}

func c18FlatBindings(m *ir.Module, b ir.Binding, th ir.TypeHandle, f func(ir.Binding, ir.TypeHandle)) bool {
	if b != nil {
		f(b, th)
		return true
	}
	if int(th) >= len(m.Types) {
		return false
	}
	st, ok := m.Types[th].Inner.(ir.StructType)
	if !ok {
		return false
	}
	for _, mem := range st.Members {
		if mem.Binding == nil {
			return false
		}
		f(*mem.Binding, mem.Type)
	}
	return true
}

func c18DerefBinding(b *ir.Binding) ir.Binding {
	if b == nil {
		return nil
	}
	return *b
}

// c18IfaceRequest fills the interface part of the request from the IR entry point.  exactRes says the caller guarantees
// that every bound global of the module is used observably by this entry point.
func c18IfaceRequest(req *c18Request, m *ir.Module, ep *ir.EntryPoint, bm dxil.BindingMap, exactRes bool) {
	req.Entry = ep.Name
	req.Stage = c18StageKind(ep.Stage)
	if ep.Stage == ir.StageCompute {
		req.Threads = []int{max(int(ep.Workgroup[0]), 1), max(int(ep.Workgroup[1]), 1), max(int(ep.Workgroup[2]), 1)}
	}
	ok := ep.Stage == ir.StageVertex || ep.Stage == ir.StageFragment || ep.Stage == ir.StageCompute
	usesNumWG := false
	collect := func(b ir.Binding, th ir.TypeHandle, output bool, dst *[][4]int) {
		if bb, isB := b.(ir.BuiltinBinding); isB && bb.Builtin == ir.BuiltinNumWorkGroups {
			usesNumWG = true
			return
		}
		el, inSig, good := c18SigExpect(m, b, th, ep.Stage, output)
		if !good {
			ok = false
			return
		}
		if inSig {
			*dst = append(*dst, el)
		}
	}
	for _, a := range ep.Function.Arguments {
		if !c18FlatBindings(m, c18DerefBinding(a.Binding), a.Type, func(b ir.Binding, th ir.TypeHandle) { collect(b, th, false, &req.ExpIn) }) {
			ok = false
		}
	}
	if r := ep.Function.Result; r != nil {
		if !c18FlatBindings(m, c18DerefBinding(r.Binding), r.Type, func(b ir.Binding, th ir.TypeHandle) { collect(b, th, true, &req.ExpOut) }) {
			ok = false
		}
	}
	if ok {
		req.Iface = "check"
	} else {
		req.ExpIn, req.ExpOut = nil, nil
	}

	// resources: only plain uniform / storage buffers are predictable from the IR alone (textures and samplers go through
	// naga's sampler-heap scheme, binding arrays have ranges, num_workgroups adds a synthetic constant buffer)
	resOK := !usesNumWG
	for _, g := range m.GlobalVariables {
		if g.Binding == nil {
			if g.Space == ir.SpacePushConstant || g.Space == ir.SpaceImmediate || g.Space == ir.SpaceHandle {
				resOK = false
			}
			continue
		}
		class := -1
		switch g.Space {
		case ir.SpaceUniform:
			class = 2
		case ir.SpaceStorage:
			if g.Access == ir.StorageRead {
				class = 0
			} else {
				class = 1
			}
		default:
			resOK = false
			continue
		}
		if int(g.Type) < len(m.Types) {
			if _, isBA := m.Types[g.Type].Inner.(ir.BindingArrayType); isBA {
				resOK = false
				continue
			}
		}
		space, reg := int(g.Binding.Group), int(g.Binding.Binding)
		if t, have := bm[dxil.BindingLocation{Group: g.Binding.Group, Binding: g.Binding.Binding}]; have {
			space, reg = int(t.Space), int(t.Register)
		}
		req.ExpRes = append(req.ExpRes, [4]int{class, space, reg, reg})
	}
	switch {
	case !resOK:
		req.Res, req.ExpRes = "none", nil
	case exactRes:
		req.Res = "exact"
	default:
		req.Res = "subset"
	}
}
