package checks

import (
	"bytes"
	"encoding/json"
	"fmt"
	"math/rand"
	"os"
	"path/filepath"
	"regexp"
	"sort"
	"strconv"
	"strings"
	"sync"
	"time"

	"verif/harness/core"
	"verif/harness/wg"
	"verif/harness/wgslx"
)

func init() { Registry["C19"] = runC19 }

// c19Prog is one source program with the harness's reading of it.
type c19Prog struct {
	ID      int
	Name    string
	Family  string // tricky | gen | ctl | corpus | invalid | mutant
	Src     string
	doc     *wgslx.Doc
	sites   *wgslx.Sites
	siteErr string
	ren     []string
	base    *c19Out
	tokOK   bool // the real lexer's token stream of the original text is the one the harness reads
}

func cps(s string) []int {
	r := []rune(s)
	out := make([]int, len(r))
	for i, c := range r {
		out[i] = int(c)
	}
	return out
}

func fromCps(a []int) string {
	r := make([]rune, len(a))
	for i, c := range a {
		r[i] = rune(c)
	}
	return string(r)
}

func b2n(b bool) int {
	if b {
		return 1
	}
	return 0
}

// ---------------------------------------------------------------- catalogue / name-table sync

var rePieceLine = regexp.MustCompile(`\[name \|-> "([a-z_]+)", text \|-> <<([0-9, ]+)>>\]`)

func c19CheckSpecTables(c *core.Ctx) {
	b, err := os.ReadFile(filepath.Join(core.SpecDir(), "NeutralEdits.tla"))
	if err != nil {
		c.BrokenF("cannot read NeutralEdits.tla: %v", err)
		return
	}
	ms := rePieceLine.FindAllStringSubmatch(string(b), -1)
	if len(ms) != len(wgslx.Catalogue) {
		c.BrokenF("piece catalogue: specification has %d pieces, harness %d", len(ms), len(wgslx.Catalogue))
		return
	}
	for i, m := range ms {
		var got []int
		for _, f := range strings.Split(m[2], ",") {
			v, _ := strconv.Atoi(strings.TrimSpace(f))
			got = append(got, v)
		}
		if m[1] != wgslx.Catalogue[i].Name || fromCps(got) != wgslx.Catalogue[i].Text {
			c.BrokenF("piece catalogue: entry %d differs between NeutralEdits.tla (%s) and harness (%s)", i, m[1], wgslx.Catalogue[i].Name)
		}
	}
	nb, err := os.ReadFile(filepath.Join(core.SpecDir(), "WgslNames.tla"))
	if err != nil {
		c.BrokenF("cannot read WgslNames.tla: %v", err)
		return
	}
	txt := string(nb)
	cnt := strings.Count(txt, "(* ")
	for _, set := range []map[string]bool{wgslx.Reserved, wgslx.Predeclared} {
		for w := range set {
			var fs []string
			for _, x := range cps(w) {
				fs = append(fs, strconv.Itoa(x))
			}
			if !strings.Contains(txt, "<<"+strings.Join(fs, ", ")+">> (* "+w+" *)") {
				c.BrokenF("WgslNames.tla lacks %q (regenerate it from harness/wgslx/names.go)", w)
				return
			}
		}
	}
	if want := len(wgslx.Reserved) + len(wgslx.Predeclared); cnt < want {
		c.BrokenF("WgslNames.tla has %d names, harness %d", cnt, want)
	}
}

// ---------------------------------------------------------------- TLC configurations

func c19LemmaCfg(faults, alphabet string, maxEdits int) string {
	return fmt.Sprintf("SPECIFICATION Spec\nCONSTANTS Faults = %s MaxEdits = %d AlphabetSel = \"%s\" PosSel = \"ends\"\nINVARIANTS LexLemma StructLemma\nCHECK_DEADLOCK FALSE\n", faults, maxEdits, alphabet)
}

const c19GenCfg = "SPECIFICATION GSpec\nCONSTANTS Faults = {} MaxEdits = 1 AlphabetSel = \"mini\" PosSel = \"%s\"\nINVARIANTS LexLemma StructLemma\nCHECK_DEADLOCK FALSE\n"
const c19StepsCfg = "SPECIFICATION TSpec\nCONSTANTS Faults = {} MaxEdits = 0 AlphabetSel = \"mini\" PosSel = \"ends\"\nCHECK_DEADLOCK FALSE\n"
const c19TraceCfg = "SPECIFICATION TSpec\nCONSTANTS CheckPositions = TRUE\nCHECK_DEADLOCK FALSE\n"

// ---------------------------------------------------------------- programs

func c19Programs(c *core.Ctx, dev bool) []*c19Prog {
	rng := rand.New(rand.NewSource(c.Seed*7919 + 19))
	var ps []*c19Prog
	add := func(fam, name, src string) {
		ps = append(ps, &c19Prog{ID: len(ps), Name: name, Family: fam, Src: src})
	}
	for i, s := range c19Tiny {
		add("tiny", fmt.Sprintf("tiny-%d", i), s)
	}
	for i, s := range c19Tricky {
		add("tricky", fmt.Sprintf("tricky-%d", i), s)
	}
	// generated programs (table families; printed by harness/wg)
	fams := semanticFamilies(c)
	rng.Shuffle(len(fams), func(i, j int) { fams[i], fams[j] = fams[j], fams[i] })
	nGen := c.Pick(20, 1500)
	if dev {
		nGen = 3
	}
	seen := map[string]bool{}
	for _, f := range fams {
		if nGen == 0 {
			break
		}
		src := wg.Print(f.Prog)
		if seen[src] {
			continue
		}
		seen[src] = true
		add("gen", "gen:"+f.Family+":"+f.Desc, src)
		nGen--
	}
	if !c.Quick() {
		// control-flow skeletons enumerated by CtlGen.tla
		for _, sh := range []int{int(c.Seed) % 16, int(c.Seed+5) % 16, int(c.Seed+11) % 16} {
			ctl, err := ctlCases(c, 3, 16, []int{sh})
			if err != nil {
				c.BrokenF("control-flow family: %v", err)
				break
			}
			for _, cs := range ctl {
				src := wg.Print(cs.Prog)
				if !seen[src] && len(ps) < 2000 {
					seen[src] = true
					add("ctl", cs.Desc, src)
				}
			}
		}
	}
	names, texts := corpusSources()
	idx := rng.Perm(len(names))
	nCorpus := c.Pick(23, len(names))
	if dev {
		nCorpus = 3
	}
	for _, i := range idx {
		if nCorpus == 0 {
			break
		}
		add("corpus", names[i], texts[i])
		nCorpus--
	}
	for i, s := range c19Invalid {
		add("invalid", fmt.Sprintf("invalid-%d", i), s)
	}
	// token-deletion mutants of valid programs: mostly invalid; whatever their status, it must not change
	nMut := c.Pick(4, 60)
	valid := append([]*c19Prog(nil), ps...)
	for k := 0; k < nMut && len(valid) > 0; k++ {
		p := valid[rng.Intn(len(valid))]
		if p.Family == "invalid" {
			continue
		}
		d, err := wgslx.Parse(p.Src)
		if err != nil || len(d.Toks) < 4 {
			continue
		}
		i := rng.Intn(len(d.Toks))
		d.Toks[i].Lex = " "
		add("mutant", fmt.Sprintf("%s minus token %d", p.Name, i), d.Render())
	}
	return ps
}

// prepare reads the program (tokens, trivia, sites) and compiles it.
func (p *c19Prog) prepare(c *core.Ctx) bool {
	d, err := wgslx.Parse(p.Src)
	if err != nil {
		c.Skip("program text outside the modelled lexical forms: " + trimReason(err.Error()))
		return false
	}
	if d.Render() != p.Src {
		c.BrokenF("%s: tokens + trivia do not render back to the source text", p.Name)
		return false
	}
	p.doc = d
	if s, err := wgslx.FindSites(d); err == nil {
		p.sites = s
		p.ren = s.Renamable(d)
	} else {
		p.siteErr = err.Error()
	}
	p.base = c19Compile(p.Src, true)
	p.tokOK = tokensAgree(p.Src)
	return true
}

// ---------------------------------------------------------------- judging one edited text

type c19Judged struct {
	Prog  *c19Prog
	Edit  wgslx.Edit
	Depth int // neutral edits already applied to the program before this one
	Text  string
	Prev  string // the text before this edit
	TLC   bool   // the edit was enumerated by TLC
	Cause string // how the real lexer mis-read the edited text ("" if it read it as Lexer.tla does)
}

func (j *c19Judged) desc(d c19Diff) map[string]string {
	m := map[string]string{
		"where": d.Where, "effect": d.Effect, "edit": j.Edit.Kind, "piece": j.Edit.Piece, "shape": j.Edit.Shape, "ctx": j.Edit.Ctx,
		"adj": j.Edit.Adj, "family": j.Prog.Family, "program": j.Prog.Name, "cause": j.Cause,
	}
	m["sig"] = strings.Join([]string{d.Where, d.Effect, j.Edit.Kind, j.Edit.Piece, j.Edit.Shape, j.Edit.Ctx}, "/")
	if j.Edit.Kind == "remove" || j.Edit.Kind == "removepiece" {
		m["sig"] += "/" + j.Edit.Adj
	}
	return m
}

// judge compiles the edited text and compares with the compilation of `ref` (the text before the edit chain).
// It reports confirmed differences and returns whether the edit passed.
func c19Judge(c *core.Ctx, j *c19Judged, renamed bool) bool {
	tokBad := false
	if j.Prog.tokOK && !tokensAgree(j.Text) {
		// the real lexer reads the edited text differently from Lexer.tla (as mirrored by the harness; the mirror is
		// itself judged by TLC on the sampled texts): the edit is reported and never built upon
		tokBad = true
		cause, detail := lexerCause(j.Text)
		j.Cause = cause
		c.Disagree++
		desc := j.desc(c19Diff{Where: "tokens", Effect: "token-stream-differs"})
		desc["sig"] += "/" + cause
		c.Report(fmt.Sprintf("%s: after the neutral edit [%s] the real lexer's tokens are not those of Lexer.tla: %s", j.Prog.Name, j.Edit.String(), detail), desc,
			map[string]any{"kind": "lexer", "program": j.Prog.Name, "text": j.Text, "edit": j.Edit, "cause": cause, "detail": detail})
	}
	ok := c19JudgeOutputs(c, j, renamed)
	return ok && !tokBad
}

// tokensAgree: the real lexer's kinds and lexemes are those of the harness's mirror of Lexer.tla.
func tokensAgree(src string) bool {
	mine := wgslx.Lex([]rune(src), nil)
	theirs, err := nagaTokens(src)
	if err != nil {
		return false
	}
	n := 0
	for _, t := range theirs {
		k := nagaKind(t.Kind, t.Lexeme)
		if k == "eof" {
			break
		}
		if n >= len(mine) || mine[n].Kind != k || mine[n].Lex != t.Lexeme {
			return false
		}
		n++
	}
	return n == len(mine)
}

func c19JudgeOutputs(c *core.Ctx, j *c19Judged, renamed bool) bool {
	after := c19Compile(j.Text, true)
	ds := c19Compare(j.Prog.base, after, renamed)
	key := j.Prog.Name + "|" + strconv.Itoa(j.Depth) + "|" + j.Edit.String()
	if j.Depth > 0 {
		key += "|" + core_hash(j.Prev)
	}
	c.Eval(key, j.Prog.base.Accepted)
	if len(ds) == 0 {
		return true
	}
	// confirm in a second, independent compilation of both texts
	before2 := c19Compile(j.Prog.Src, true)
	after2 := c19Compile(j.Text, true)
	ds = c19Compare(before2, after2, renamed)
	if len(ds) == 0 {
		c.BrokenF("%s: difference after %q not reproducible", j.Prog.Name, j.Edit.String())
		return true
	}
	c.Disagree++
	d := ds[0]
	what := fmt.Sprintf("%s: neutral edit [%s] (after %d other neutral edits) changes the result: %s: %s", j.Prog.Name, j.Edit.String(), j.Depth, d.Where, d.Detail)
	var all []string
	for _, x := range ds {
		all = append(all, x.Where+": "+x.Effect)
	}
	c.Report(what, j.desc(d), map[string]any{"kind": "edit", "program": j.Prog.Name, "original": j.Prog.Src, "before_this_edit": j.Prev, "edited": j.Text,
		"edit": j.Edit, "renamed": renamed, "tlc_enumerated": j.TLC, "differences": all})
	return false
}

func core_hash(s string) string {
	h := uint64(1469598103934665603)
	for i := 0; i < len(s); i++ {
		h ^= uint64(s[i])
		h *= 1099511628211
	}
	return strconv.FormatUint(h, 36)
}

// ---------------------------------------------------------------- seeded scripts

var c19Kinds = []struct {
	kind string
	w    int
}{{"insert", 44}, {"remove", 12}, {"removepiece", 10}, {"paren", 16}, {"comma", 8}, {"rename", 10}}

type c19ScriptOut struct {
	steps   []wgslx.Step // every step proposed with a true guard (adopted or not)
	texts   []string     // sample of edited texts (for lexer trace validation)
	refused int          // proposals the guard refused
	edits   int
}

// c19Scripts applies `budget` edits to p in scripts of at most 8 adopted edits, judging after every edit.
func c19Scripts(c *core.Ctx, p *c19Prog, budget int, kinds map[string]bool) *c19ScriptOut {
	out := &c19ScriptOut{}
	rng := rand.New(rand.NewSource(c.Seed*1000003 + int64(p.ID)*7907 + 1))
	total := 0
	for _, k := range c19Kinds {
		if kinds == nil || kinds[k.kind] {
			total += k.w
		}
	}
	tries := 0
	for out.edits < budget && tries < budget*6 {
		doc, sites, ren := p.doc, p.sites, p.ren
		renamed := false
		depth := 0
		L := 1 + rng.Intn(8)
		for depth < L && out.edits < budget && tries < budget*6 {
			tries++
			x := rng.Intn(total)
			kind := ""
			for _, k := range c19Kinds {
				if kinds != nil && !kinds[k.kind] {
					continue
				}
				if x < k.w {
					kind = k.kind
					break
				}
				x -= k.w
			}
			e, ok := wgslx.RandomEdit(rng, doc, sites, ren, kind)
			if !ok {
				continue
			}
			nd, st, ok := doc.TryApply(e)
			if !ok {
				out.refused++
				continue
			}
			out.steps = append(out.steps, st)
			out.edits++
			j := &c19Judged{Prog: p, Edit: e, Depth: depth, Text: nd.Render(), Prev: doc.Render()}
			r := renamed || e.Kind == "rename"
			if !c19Judge(c, j, r) {
				if rng.Intn(4) == 0 {
					out.texts = append(out.texts, j.Text)
				}
				continue // not adopted: later edits are judged without it
			}
			doc, renamed, depth = nd, r, depth+1
			if e.Kind == "paren" || e.Kind == "comma" || e.Kind == "rename" {
				// the structure changed: read the sites again from the new text
				if d2, err := wgslx.Parse(doc.Render()); err == nil {
					if s2, err := wgslx.FindSites(d2); err == nil {
						doc, sites, ren = d2, s2, s2.Renamable(d2)
					} else {
						doc, sites, ren = d2, nil, nil
					}
				}
			}
		}
		if depth > 0 {
			out.texts = append(out.texts, doc.Render())
		}
	}
	return out
}

// c19ParenAll judges the program with EVERY binary sub-expression of function bodies and module-scope
// initialisers parenthesised at once (a script of Parenthesize actions; `(` and `)` never fuse with a neighbour,
// so the guard is trivially true).  One compilation then tests the whole precedence / associativity chain of the
// real parser against WGSL's, as read by harness/wgslx.
func c19ParenAll(c *core.Ctx, p *c19Prog) {
	if p.sites == nil {
		return
	}
	opens, closes := map[int]int{}, map[int]int{}
	n := 0
	for _, sp := range p.sites.Spans {
		if strings.HasPrefix(sp.Shape, "bin:") && (sp.Ctx == "body" || sp.Ctx == "global") {
			opens[sp.A]++
			closes[sp.B]++
			n++
		}
	}
	if n == 0 {
		return
	}
	var sb strings.Builder
	d := p.doc
	for i := 0; i <= len(d.Toks); i++ {
		for _, pc := range d.Triv[i] {
			sb.WriteString(pc)
		}
		if i < len(d.Toks) {
			sb.WriteString(strings.Repeat("(", opens[i]))
			sb.WriteString(d.Toks[i].Lex)
			sb.WriteString(strings.Repeat(")", closes[i]))
		}
	}
	e := wgslx.Edit{Kind: "parenall", Shape: fmt.Sprintf("%d binary sub-expressions", n), Ctx: "body"}
	c19Judge(c, &c19Judged{Prog: p, Edit: e, Text: sb.String(), Prev: p.Src}, false)
}

// ---------------------------------------------------------------- TLC: steps validation

func c19WindowEvents(steps []wgslx.Step, seen map[string]bool) (lines [][]byte) {
	for _, st := range steps {
		for _, w := range st.Windows {
			ev := map[string]any{"ev": "win", "id": 0, "pk": w.PrevK, "prev": cps(w.Prev), "mid": cps(w.Mid), "nk": w.NextK, "next": cps(w.Next),
				"p1": b2n(w.PrevTE || w.PrevTS), "n1": b2n(w.NextTS || w.NextTE)}
			b, _ := json.Marshal(ev)
			if seen[string(b)] {
				continue
			}
			seen[string(b)] = true
			lines = append(lines, b)
		}
		if st.Edit.Kind == "rename" {
			var ids [][]int
			for _, s := range st.Idents {
				ids = append(ids, cps(s))
			}
			b, _ := json.Marshal(map[string]any{"ev": "fresh", "id": 0, "from": cps(st.Edit.From), "to": cps(st.Edit.To), "idents": ids})
			if !seen[string(b)] {
				seen[string(b)] = true
				lines = append(lines, b)
			}
		}
	}
	return lines
}

// seeded bad steps: TLC must refuse every one of them (ids 9001..)
func c19BadSteps() (lines [][]byte, ids []int) {
	win := func(id int, pk, prev, mid, nk, next string) {
		b, _ := json.Marshal(map[string]any{"ev": "win", "id": id, "pk": pk, "prev": cps(prev), "mid": cps(mid), "nk": nk, "next": cps(next), "p1": 0, "n1": 0})
		lines = append(lines, b)
		ids = append(ids, id)
	}
	win(9001, "op", "-", "", "op", "-")
	win(9002, "ident", "a", "", "ident", "b")
	win(9003, "op", "/", "/* c */", "ident", "x")
	win(9004, "ident", "a", "// c", "ident", "b")
	win(9005, "op", ">", "", "op", "=")
	win(9006, "int", "1", "", "op", ".")
	win(9007, "ident", "a", "// c ", "ident", "b\n") // next "b LF" is not a token
	fresh := func(id int, from, to string, idents ...string) {
		var is [][]int
		for _, s := range idents {
			is = append(is, cps(s))
		}
		b, _ := json.Marshal(map[string]any{"ev": "fresh", "id": id, "from": cps(from), "to": cps(to), "idents": is})
		lines = append(lines, b)
		ids = append(ids, id)
	}
	fresh(9011, "a", "if", "a", "b")
	fresh(9012, "a", "b", "a", "b")
	fresh(9013, "a", "vec2", "a")
	fresh(9014, "max", "zq1", "max")
	fresh(9015, "a", "__x", "a")
	fresh(9016, "a", "enum", "a")
	return
}

type c19Verdict struct {
	Consumed int `json:"consumed"`
	Bad      []struct {
		L    int    `json:"l"`
		ID   int    `json:"id"`
		Rule string `json:"rule"`
		Tok  int    `json:"tok"`
	} `json:"bad"`
}

func c19ParseVerdict(c *core.Ctx, r *core.TLCResult, what string, nlines int) *c19Verdict {
	if r.Violated != "" || r.Err != "" || len(r.Printed) != 1 {
		c.BrokenF("%s: TLC did not finish normally (violated=%q err=%q printed=%d)\n%s", what, r.Violated, r.Err, len(r.Printed), r.Tail(25))
		return nil
	}
	var v c19Verdict
	if err := json.Unmarshal([]byte(r.Printed[0]), &v); err != nil {
		c.BrokenF("%s: cannot parse verdict: %v", what, err)
		return nil
	}
	if v.Consumed != nlines {
		c.BrokenF("%s: TLC consumed %d of %d lines", what, v.Consumed, nlines)
		return nil
	}
	return &v
}

func c19ValidateSteps(c *core.Ctx, lines [][]byte) {
	bad, badIDs := c19BadSteps()
	shards := c.Pick(3, 12)
	if len(lines) < 3000 {
		shards = 1
	}
	var mu sync.Mutex
	refused := 0
	core.ParMap(shards, shards, func(s int) {
		var buf bytes.Buffer
		n := 0
		for i := s; i < len(lines); i += shards {
			buf.Write(lines[i])
			buf.WriteByte('\n')
			n++
		}
		if s == 0 {
			for _, b := range bad {
				buf.Write(b)
				buf.WriteByte('\n')
				n++
			}
		}
		r, err := c19TLC(c, core.TLCOpts{Spec: "NeutralEditsTrace", CfgText: c19StepsCfg, Files: map[string][]byte{"steps.ndjson": buf.Bytes()}, HeapGB: 3, Timeout: 45 * time.Minute})
		if err != nil {
			c.BrokenF("NeutralEditsTrace: %v", err)
			return
		}
		c.AddTLC(r)
		v := c19ParseVerdict(c, r, "NeutralEditsTrace", n)
		if v == nil {
			return
		}
		got := map[int]bool{}
		for _, b := range v.Bad {
			if b.ID >= 9000 {
				got[b.ID] = true
				continue
			}
			mu.Lock()
			refused++
			mu.Unlock()
			c.BrokenF("NeutralEditsTrace: the specification's guard refuses a step the harness applied (line %d, %s): the harness's mirror of the guard is wrong", b.L, b.Rule)
		}
		if s == 0 {
			for _, id := range badIDs {
				if !got[id] {
					c.BrokenF("NeutralEditsTrace self-test: seeded non-neutral step %d was not refused by the specification", id)
				}
			}
		}
	})
	c.Cov["guard_windows_validated_by_tlc"] = len(lines)
	c.Cov["guard_selftest_bad_steps_refused"] = len(badIDs)
}

// ---------------------------------------------------------------- TLC: lexer trace validation

type c19TraceText struct {
	id     int
	name   string
	src    string
	seeded string // "" real; else the corruption applied (must be rejected)
}

func c19TraceEvents(c *core.Ctx, t c19TraceText) ([]byte, int, bool) {
	for _, r := range t.src {
		if r == 0 {
			c.Skip("lexer trace: NUL in text")
			return nil, 0, false
		}
	}
	d := wgslx.Lex([]rune(t.src), nil)
	for _, tk := range d {
		for _, r := range tk.Lex {
			if !wgslx.ModelledCp(r) {
				c.Skip("lexer trace: code point outside the modelled classes")
				return nil, 0, false
			}
		}
	}
	toks, err := nagaTokens(t.src)
	if err != nil {
		c.Skip("lexer trace: tokenizer error " + trimReason(err.Error()))
		return nil, 0, false
	}
	type tokEv struct {
		Ev   string `json:"ev"`
		K    string `json:"k"`
		Lex  []int  `json:"lex"`
		Line int    `json:"line"`
		Col  int    `json:"col"`
	}
	var evs []tokEv
	for _, tk := range toks {
		k := nagaKind(tk.Kind, tk.Lexeme)
		if k == "eof" {
			break
		}
		evs = append(evs, tokEv{"tok", k, cps(tk.Lexeme), tk.Line, tk.Column})
	}
	switch t.seeded {
	case "lexeme":
		if len(evs) > 2 {
			evs[len(evs)/2].Lex = append(evs[len(evs)/2].Lex, 'q')
		}
	case "kind":
		if len(evs) > 2 {
			i := len(evs) / 2
			if evs[i].K == "op" {
				evs[i].K = "ident"
			} else {
				evs[i].K = "op"
			}
		}
	case "drop":
		if len(evs) > 2 {
			evs = append(evs[:len(evs)/2], evs[len(evs)/2+1:]...)
		}
	case "column":
		if len(evs) > 2 {
			evs[len(evs)/2].Col++
		}
	}
	var buf bytes.Buffer
	b, _ := json.Marshal(map[string]any{"ev": "text", "id": t.id, "cps": cps(t.src)})
	buf.Write(b)
	buf.WriteByte('\n')
	for _, e := range evs {
		b, _ := json.Marshal(e)
		buf.Write(b)
		buf.WriteByte('\n')
	}
	buf.WriteString("{\"ev\":\"end\"}\n")
	return buf.Bytes(), len(evs) + 2, true
}

// lexerCause names what the real lexer did differently, from the harness's own reading of the text: the first
// hazard (a line comment ended by a line break other than LF / CR LF, or a blankspace code point other than
// space, tab, CR, LF) that lies before the first token on which the two token streams differ.
func lexerCause(src string) (cause, detail string) {
	t := []rune(src)
	mine := wgslx.Lex(t, nil)
	theirs, err := nagaTokens(src)
	if err != nil {
		return "error", err.Error()
	}
	first := -1
	for i := 0; ; i++ {
		var a *wgslx.Tok
		if i < len(mine) {
			a = &mine[i]
		}
		bk, bl := "eof", ""
		if i < len(theirs) {
			bk, bl = nagaKind(theirs[i].Kind, theirs[i].Lexeme), theirs[i].Lexeme
		}
		if a == nil && bk == "eof" {
			break
		}
		if a != nil && a.Kind == bk && a.Lex == bl {
			continue
		}
		first = i
		al := "<end>"
		if a != nil {
			al = a.Kind + " " + strconv.Quote(a.Lex)
		}
		detail = fmt.Sprintf("token %d: specification %s, lexer %s %q", i+1, al, bk, bl)
		break
	}
	// hazards in the trivia before the first difference (all trivia if only positions differ)
	lim := len(mine)
	if first >= 0 {
		lim = first
	}
	for j := 0; j <= lim && j <= len(mine); j++ {
		start, end := 0, len(t)
		if j > 0 {
			start = mine[j-1].E
		}
		if j < len(mine) {
			end = mine[j].A
		}
		ps, ok := wgslx.Pieces(t[start:end])
		if !ok {
			continue
		}
		for k, p := range ps {
			r := []rune(p)
			if len(r) >= 2 && r[0] == '/' && r[1] == '/' {
				last := r[len(r)-1]
				if wgslx.IsLineBreak(last) && last != '\n' && !(last == '\r' && k+1 < len(ps) && ps[k+1] == "\n") {
					// harmless if nothing but blankspace follows up to the next LF
					at := start
					for _, q := range ps[:k+1] {
						at += len([]rune(q))
					}
					nl := at
					for nl < len(t) && t[nl] != '\n' {
						nl++
					}
					for x := at; x < nl; x++ {
						if !wgslx.IsBlank(t[x]) {
							return fmt.Sprintf("linecomment-terminator:U+%04X", last), detail
						}
					}
				}
			} else if len(r) == 1 && r[0] != ' ' && r[0] != '\t' && r[0] != '\r' && r[0] != '\n' {
				if first >= 0 {
					return fmt.Sprintf("blankspace:U+%04X", r[0]), detail
				}
			}
		}
	}
	if first < 0 {
		return "positions", "token streams agree; only positions differ"
	}
	if a := mine[min(first, len(mine)-1)]; first < len(mine) && a.Kind == "float" {
		l := []rune(a.Lex)
		dot := strings.IndexRune(a.Lex, '.')
		if len(l) > 1 && (l[0] == '0') && (l[1] == 'x' || l[1] == 'X') {
			return "hex-float-literal", detail
		}
		if dot == 0 || (dot > 0 && (dot+1 == len(l) || l[dot+1] < '0' || l[dot+1] > '9')) {
			return "float-literal-without-digits-beside-the-dot", detail
		}
	}
	return "other", detail
}

func c19ValidateLexer(c *core.Ctx, texts []c19TraceText, budget int) {
	// self-test artefacts: corrupted copies of the first texts
	nreal := len(texts)
	for i, how := range []string{"lexeme", "kind", "drop", "column"} {
		if i < nreal {
			t := texts[i%nreal]
			texts = append(texts, c19TraceText{id: 900000 + i, name: t.name, src: t.src, seeded: how})
		}
	}
	type shard struct {
		buf   bytes.Buffer
		lines int
		ids   []int
	}
	ns := c.Pick(2, 8)
	// smallest texts first, within the event budget of the tier (the self-test artefacts always)
	sort.SliceStable(texts, func(i, j int) bool {
		if (texts[i].seeded != "") != (texts[j].seeded != "") {
			return texts[i].seeded != ""
		}
		return len(texts[i].src) < len(texts[j].src)
	})
	dropped := 0
	shards := make([]*shard, ns)
	for i := range shards {
		shards[i] = &shard{}
	}
	byID := map[int]c19TraceText{}
	events := 0
	for _, t := range texts {
		b, n, ok := c19TraceEvents(c, t)
		if !ok {
			continue
		}
		if events+n > budget && t.seeded == "" {
			dropped++
			continue
		}
		// lightest shard
		best := shards[0]
		for _, s := range shards {
			if s.lines < best.lines {
				best = s
			}
		}
		best.buf.Write(b)
		best.lines += n
		best.ids = append(best.ids, t.id)
		byID[t.id] = t
		events += n
	}
	var mu sync.Mutex
	rejected := map[int]string{}
	core.ParMap(ns, ns, func(i int) {
		s := shards[i]
		if s.lines == 0 {
			return
		}
		r, err := c19TLC(c, core.TLCOpts{Spec: "LexerTrace", CfgText: c19TraceCfg, Files: map[string][]byte{"trace.ndjson": s.buf.Bytes()}, HeapGB: 3, Timeout: 45 * time.Minute})
		if err != nil {
			c.BrokenF("LexerTrace: %v", err)
			return
		}
		c.AddTLC(r)
		v := c19ParseVerdict(c, r, "LexerTrace", s.lines)
		if v == nil {
			return
		}
		mu.Lock()
		for _, b := range v.Bad {
			if _, dup := rejected[b.ID]; !dup {
				rejected[b.ID] = fmt.Sprintf("%s (token %d)", b.Rule, b.Tok)
			}
		}
		mu.Unlock()
	})
	for id, t := range byID {
		rule, bad := rejected[id]
		if t.seeded != "" {
			if !bad {
				c.BrokenF("LexerTrace self-test: the recorded token stream with a corrupted %s was accepted by the specification", t.seeded)
			}
			continue
		}
		c.Traces++
		if !bad {
			continue
		}
		cause, detail := lexerCause(t.src)
		c.Disagree++
		desc := map[string]string{"where": "lexer", "rule": rule, "cause": cause, "program": t.name, "sig": "lexer/" + cause}
		c.Report(fmt.Sprintf("%s: the lexer's token stream is not the one Lexer.tla prescribes: %s; %s", t.name, rule, detail), desc,
			map[string]any{"kind": "lexer", "program": t.name, "text": t.src, "rule": rule, "cause": cause, "detail": detail})
	}
	c.Cov["lexer_trace_events"] = events
	c.Cov["lexer_trace_texts_left_out_by_budget"] = dropped
}

// ---------------------------------------------------------------- TLC: enumeration of single edits

type c19GenLine struct {
	P int `json:"p"`
	E []struct {
		Kind  string `json:"kind"`
		Slot  int    `json:"slot"`
		Piece string `json:"piece"`
		Pos   int    `json:"pos"`
		From  []int  `json:"from"`
		To    []int  `json:"to"`
	} `json:"e"`
	Text []int `json:"text"`
}

func c19GenProgJSON(p *c19Prog) []byte {
	type jt struct {
		K   string `json:"k"`
		Lex []int  `json:"lex"`
		TS  int    `json:"ts"`
		TE  int    `json:"te"`
	}
	var toks []jt
	for _, t := range p.doc.Toks {
		toks = append(toks, jt{t.Kind, cps(t.Lex), b2n(t.TS), b2n(t.TE)})
	}
	triv := make([][][]int, len(p.doc.Triv))
	for i, s := range p.doc.Triv {
		triv[i] = [][]int{}
		for _, pc := range s {
			triv[i] = append(triv[i], cps(pc))
		}
	}
	spans := [][]int{}
	commas := []int{}
	renames := [][][]int{}
	if p.sites != nil {
		seen := map[[2]int]bool{}
		for _, s := range p.sites.Spans {
			k := [2]int{s.A + 1, s.B + 1}
			if !seen[k] {
				seen[k] = true
				spans = append(spans, []int{s.A + 1, s.B + 1})
			}
		}
		for _, cm := range p.sites.Commas {
			commas = append(commas, cm.Closer+1)
		}
		for i, n := range p.ren {
			renames = append(renames, [][]int{cps(n), cps(wgslx.FreshName(n, i%3))})
		}
	}
	b, _ := json.Marshal(map[string]any{"id": p.ID, "toks": toks, "triv": triv, "spans": spans, "commas": commas, "renames": renames})
	return b
}

// c19Enumerate lets TLC enumerate every single edit of the program and replays each printed text into naga.
func c19Enumerate(c *core.Ctx, p *c19Prog, posSel string, addText func(string)) {
	r, err := c19TLC(c, core.TLCOpts{Spec: "NeutralEditsGen", CfgText: fmt.Sprintf(c19GenCfg, posSel), Files: map[string][]byte{"progs.ndjson": append(c19GenProgJSON(p), '\n')},
		Workers: 2, HeapGB: 4, Timeout: 45 * time.Minute})
	if err != nil {
		c.BrokenF("NeutralEditsGen: %v", err)
		return
	}
	if !r.OK {
		if r.Violated != "" {
			c.BrokenF("NeutralEditsGen on %s: %s - the lemma fails on the specification itself (or the harness's reading of the program is not what Lexer.tla prescribes)\n%s", p.Name, r.Violated, r.Tail(40))
		} else {
			c.BrokenF("NeutralEditsGen on %s: %s\n%s", p.Name, r.Err, r.Tail(25))
		}
		return
	}
	c.AddTLC(r)
	if len(r.Printed) == 0 {
		c.BrokenF("NeutralEditsGen on %s: no edit enumerated (vacuous)", p.Name)
		return
	}
	spanInfo := map[[2]int]wgslx.Span{}
	commaInfo := map[int]string{}
	if p.sites != nil {
		for _, s := range p.sites.Spans {
			spanInfo[[2]int{s.A + 1, s.B + 1}] = s
		}
		for _, cm := range p.sites.Commas {
			commaInfo[cm.Closer+1] = cm.Kind
		}
	}
	kinds := map[string]int{}
	var mu sync.Mutex
	core.ParMap(len(r.Printed), core.Cores(), func(i int) {
		var gl c19GenLine
		if err := json.Unmarshal([]byte(r.Printed[i]), &gl); err != nil || len(gl.E) != 1 {
			c.BrokenF("NeutralEditsGen: bad line: %.200s", r.Printed[i])
			return
		}
		ge := gl.E[0]
		e := wgslx.Edit{Kind: ge.Kind, Slot: ge.Slot, Piece: ge.Piece, Pos: ge.Pos}
		text := fromCps(gl.Text)
		switch e.Kind {
		case "insert", "remove", "removepiece":
			e.Adj = adjOf(p.doc, e.Slot)
		case "paren":
			s := spanInfo[[2]int{e.Slot, e.Pos}]
			e.Shape, e.Ctx = s.Shape, s.Ctx
		case "comma":
			e.Shape = commaInfo[e.Slot]
			e.Adj = p.doc.CommaAdj(e.Slot - 1)
		}
		renamed := false
		if e.Kind == "rename" {
			renamed = true
			e.From, e.To = fromCps(ge.From), fromCps(ge.To)
		} else {
			// the harness's own surgery must give the text the specification rendered
			if nd, _, err := p.doc.Apply(e); err != nil || nd.Render() != text {
				c.BrokenF("NeutralEditsGen on %s: the harness applies [%s] differently from NeutralEdits.tla", p.Name, e.String())
				return
			}
		}
		mu.Lock()
		kinds[e.Kind]++
		mu.Unlock()
		if i%97 == 0 {
			addText(text)
		}
		c19Judge(c, &c19Judged{Prog: p, Edit: e, Text: text, Prev: p.Src, TLC: true}, renamed)
	})
	mu.Lock()
	defer mu.Unlock()
	ks, _ := c.Cov["tlc_enumerated_single_edits"].(map[string]int)
	if ks == nil {
		ks = map[string]int{}
	}
	for k, v := range kinds {
		ks[k] += v
	}
	c.Cov["tlc_enumerated_single_edits"] = ks
}

func adjOf(d *wgslx.Doc, j int) string { return d.Adj(j) }

// c19Sem bounds the number of TLC processes running at once.
var c19Sem = make(chan struct{}, min(3, core.Cores()))

func c19TLC(c *core.Ctx, o core.TLCOpts) (*core.TLCResult, error) {
	c19Sem <- struct{}{}
	defer func() { <-c19Sem }()
	if o.Workers == 0 || core.Cores() < 6 {
		o.Workers = 1
	}
	return c.RunTLC(o)
}

func runC19(tier, replay string) int {
	if replay != "" {
		return c19Replay(replay)
	}
	c := core.NewCtx("C19", tier, "model_checking")
	dev := os.Getenv("VERIF_C19_DEV") != ""
	var phmu sync.Mutex
	phases := map[string]float64{}
	phase := func(name string, t0 time.Time) {
		phmu.Lock()
		phases[name] += time.Since(t0).Seconds()
		phmu.Unlock()
	}
	c.Cov["phase_seconds"] = phases
	c.Cov["rule"] = "Lexer.tla defines the token sequence of a code-point sequence; NeutralEdits.tla is the edit-script machine (InsertTrivia over a 31-piece vocabulary with every WGSL line break and comment form, RemovePiece/RemoveTrivia, Parenthesize, TrailingComma, RenameAll) whose guard re-lexes the window around each touched slot; TLC checks the lemma Tokens(text') = Tokens(text) modulo parentheses/commas/renaming exhaustively for single edits on every pair (thorough: larger alphabet, triples, scripts of 2) of tricky tokens, and must report it violated for four seeded faults. Binding: (1) TLC enumerates every single edit at every token boundary of small programs (NeutralEditsGen; lemma checked on each) and prints each edited text, which is replayed into naga; (2) seeded scripts of <= 8 edits on generated, hand-written, corpus and invalid programs, judged after every edit, every guard window validated by TLC (NeutralEditsTrace); (3) naga's token stream (hook VerifTokens) for originals and sampled edited texts is trace-validated against Lexer.tla (LexerTrace: kinds, lexemes, positions under naga's convention). Oracle per edit: accepted-after iff accepted-before; canonical IR dump, non-debug SPIR-V bytes, HLSL/MSL/GLSL text identical (renamings: modulo the renaming). A case = (program, edit chain); non-trivial if the program is accepted; distinct by program, chain and edit."
	c.Assumef("WGSL lexical structure as transcribed in spec/Lexer.tla (non-ASCII identifier characters as the class LetterRanges)")
	c.Assumef("edit sites (full sub-expressions, trailing-comma sites, renamable names, template delimiters) come from the harness's own reader harness/wgslx (WGSL 3.9 template-list discovery + recursive descent); programs it cannot read get trivia edits only")
	c19CheckSpecTables(c)

	progs := c19Programs(c, dev) // (thorough: runs CtlGen.tla, one TLC process at a time)

	// (A) the lemma on the specification, and the fault self-tests - in the background
	var bg sync.WaitGroup
	type lemmaRun struct {
		name, cfg string
		fault     bool
	}
	runs := []lemmaRun{
		{"lemma pairs", c19LemmaCfg("{}", map[bool]string{true: "pairs", false: "mini"}[c.Quick()], 1), false},
		{"fault lb_in_line_comment", c19LemmaCfg(`{"lb_in_line_comment"}`, "two", 1), true},
		{"fault remove_unguarded", c19LemmaCfg(`{"remove_unguarded"}`, "two", 1), true},
		{"fault insert_unguarded", c19LemmaCfg(`{"insert_unguarded"}`, "two", 1), true},
		{"fault rename_unchecked", c19LemmaCfg(`{"rename_unchecked"}`, "two", 1), true},
	}
	if !c.Quick() {
		runs = append(runs, lemmaRun{"lemma tricky pairs", c19LemmaCfg("{}", "pairs", 1), false},
			lemmaRun{"lemma triples", c19LemmaCfg("{}", "microtriples", 1), false},
			lemmaRun{"lemma scripts of 2 edits", c19LemmaCfg("{}", "twice", 2), false})
	}
	lemmaInfo := make([]string, len(runs))
	for i := range runs {
		bg.Add(1)
		go func(i int) {
			defer bg.Done()
			lr := runs[i]
			t0 := time.Now()
			r, err := c19TLC(c, core.TLCOpts{Spec: "NeutralEdits", CfgText: lr.cfg, Workers: 2, HeapGB: 4, Timeout: 45 * time.Minute})
			phase("tlc "+lr.name, t0)
			if err != nil {
				c.BrokenF("NeutralEdits (%s): %v", lr.name, err)
				return
			}
			if lr.fault {
				if !strings.Contains(r.Violated, "LexLemma") {
					c.BrokenF("NeutralEdits self-test (%s): TLC did not report LexLemma violated (violated=%q err=%q)\n%s", lr.name, r.Violated, r.Err, r.Tail(15))
				}
				lemmaInfo[i] = lr.name + ": " + r.Violated
				return
			}
			if !r.OK {
				c.BrokenF("NeutralEdits (%s): the lemma does not hold on the specification: %s %s\n%s", lr.name, r.Violated, r.Err, r.Tail(40))
				return
			}
			c.AddTLC(r)
			lemmaInfo[i] = fmt.Sprintf("%s: %d states, lemma holds", lr.name, r.Distinct)
		}(i)
	}

	// programs
	t0 := time.Now()
	ok := make([]bool, len(progs))
	core.ParMap(len(progs), core.Cores(), func(i int) { ok[i] = progs[i].prepare(c) })
	var ps []*c19Prog
	fam := map[string]int{}
	noSites := 0
	accepted := 0
	var handRejected []string
	for i, p := range progs {
		if !ok[i] {
			continue
		}
		ps = append(ps, p)
		fam[p.Family]++
		if p.sites == nil {
			noSites++
		}
		if p.base.Accepted {
			accepted++
		} else if p.Family == "tricky" || p.Family == "tiny" {
			// not a C19 matter in itself (a valid program is rejected: C08); what the lexer did to it is judged by the
			// trace validation below
			handRejected = append(handRejected, fmt.Sprintf("%s (%s: %s)", p.Name, p.base.Stage, trimReason(p.base.Err)))
		}
	}
	phase("prepare programs", t0)
	c.Programs = len(ps)
	c.Cov["programs_by_family"] = fam
	c.Cov["programs_accepted_before"] = accepted
	c.Cov["programs_without_structural_sites"] = noSites
	if len(handRejected) > 0 {
		c.Cov["hand_written_valid_programs_rejected_before_any_edit"] = handRejected
	}
	if len(ps) == 0 || accepted*3 < len(ps) {
		c.BrokenF("only %d of %d programs are accepted before any edit", accepted, len(ps))
		return c.Finish()
	}
	if noSites*3 > len(ps) {
		c.BrokenF("the site reader fails on %d of %d programs", noSites, len(ps))
	}

	var tmu sync.Mutex
	var traceTexts []c19TraceText
	addText := func(name, s string) {
		tmu.Lock()
		traceTexts = append(traceTexts, c19TraceText{id: len(traceTexts) + 1, name: name, src: s})
		tmu.Unlock()
	}
	for i, s := range c19LexProbes {
		addText(fmt.Sprintf("lexer-probe-%d", i), s)
	}
	for _, p := range ps {
		addText(p.Name, p.Src)
	}

	// (B) TLC enumerates every single edit of small programs - in the background
	var enum []*c19Prog
	var tiny []*c19Prog
	for _, p := range ps {
		if p.Family == "tiny" && p.base.Accepted && p.sites != nil {
			tiny = append(tiny, p)
		}
	}
	if c.Quick() {
		if len(tiny) > 0 {
			enum = append(enum, tiny[int(c.Seed)%len(tiny)])
		}
	} else {
		enum = append(enum, tiny...)
		ng := 0
		for _, p := range ps {
			if p.base.Accepted && p.sites != nil && (p.Family == "gen" || p.Family == "ctl") && ng < 2 && len(p.doc.Toks) <= 110 {
				enum = append(enum, p)
				ng++
			}
		}
	}
	var enumNames []string
	for _, p := range enum {
		enumNames = append(enumNames, fmt.Sprintf("%s (%d tokens)", p.Name, len(p.doc.Toks)))
		bg.Add(1)
		go func(p *c19Prog) {
			defer bg.Done()
			t0 := time.Now()
			c19Enumerate(c, p, map[bool]string{true: "ends", false: "all"}[c.Quick() || p.Family != "tiny" || p.ID%3 != int(c.Seed)%3], func(s string) { addText(p.Name+" (TLC-enumerated edit)", s) })
			phase("tlc enumerate + replay "+p.Name, t0)
		}(p)
	}
	c.Cov["tlc_enumerated_programs"] = enumNames

	// (C) seeded scripts, judged edit by edit
	t0 = time.Now()
	var smu sync.Mutex
	var stepLines [][]byte
	seenWin := map[string]bool{}
	refused, edits := 0, 0
	core.ParMap(len(ps), core.Cores(), func(i int) {
		p := ps[i]
		b := c.Pick(150, 60)
		switch p.Family {
		case "tricky", "tiny":
			b = c.Pick(300, 1500)
		case "corpus":
			b = c.Pick(120, 300)
		}
		if !p.base.Accepted {
			b /= 3
		}
		if dev {
			b = 25
		}
		so := c19Scripts(c, p, b, nil)
		c19ParenAll(c, p)
		smu.Lock()
		stepLines = append(stepLines, c19WindowEvents(so.steps, seenWin)...)
		refused += so.refused
		edits += so.edits
		smu.Unlock()
		for k, s := range so.texts {
			if k < 3 {
				addText(p.Name+" (edited)", s)
			}
		}
	})
	phase("seeded scripts", t0)
	c.Cov["script_edits_judged"] = edits
	c.Cov["script_proposals_refused_by_guard"] = refused
	if edits == 0 {
		c.BrokenF("no edit was applied")
	}

	// (D) TLC validates the guard windows of the scripts and the real lexer's token streams
	var w2 sync.WaitGroup
	w2.Add(2)
	go func() {
		defer w2.Done()
		t0 := time.Now()
		c19ValidateSteps(c, stepLines)
		phase("tlc guard windows", t0)
	}()
	go func() {
		defer w2.Done()
		bg.Wait() // texts sampled from the enumeration are added by then
		tmu.Lock()
		tt := append([]c19TraceText(nil), traceTexts...)
		tmu.Unlock()
		t0 := time.Now()
		c19ValidateLexer(c, tt, map[bool]int{true: 14000, false: 250000}[c.Quick()])
		phase("tlc lexer trace", t0)
	}()
	w2.Wait()
	bg.Wait()
	c.Cov["specification_runs"] = lemmaInfo
	if c.Skips()*3 > len(ps)+len(traceTexts) {
		c.BrokenF("%d skipped cases", c.Skips())
	}
	return c.Finish()
}

// c19LexProbes are texts for the lexer trace validation only (literal and identifier forms, comment forms).
var c19LexProbes = []string{
	"a>>=b>=c>>d<<=e<=f<<g->h--i++j&&k||l!=m==n+=o-=p*=q/=r%=s&=t|=u^=v",
	"0 1 12u 0x1F 0XAbCi 1.0 1.5f 0.5h 1e3 1E-3 2e+4f 1f 0f 3h 0x1p4 0x1.8p-1f 0x.8p1 0X1P+2h",
	"x.y.z a[1].b (c).d _ _a a_ a1 __b A9_z",
	"/* a /* b /* c */ */ */ x /**/ y /*/ */ z // tail",
	"// only a comment",
	"",
	"f(1,2,)[3]{;}@group(0)~!-*&|^%<>:,.",
	"x = .5 + 2.f + 1.e3;",
}

// c19Replay re-runs one recorded case.
func c19Replay(file string) int {
	b, err := os.ReadFile(file)
	if err != nil {
		fmt.Println("cannot read replay file:", err)
		return 2
	}
	var rec struct {
		What string `json:"what"`
		Case struct {
			Kind     string `json:"kind"`
			Original string `json:"original"`
			Edited   string `json:"edited"`
			Text     string `json:"text"`
			Renamed  bool   `json:"renamed"`
		} `json:"case"`
	}
	if err := json.Unmarshal(b, &rec); err != nil {
		fmt.Println("bad replay file:", err)
		return 2
	}
	fmt.Println(rec.What)
	if rec.Case.Kind == "lexer" {
		cause, detail := lexerCause(rec.Case.Text)
		fmt.Println("lexer:", cause, detail)
		if cause == "positions" {
			return 0
		}
		return 1
	}
	ds := c19Compare(c19Compile(rec.Case.Original, true), c19Compile(rec.Case.Edited, true), rec.Case.Renamed)
	for _, d := range ds {
		fmt.Printf("  %s: %s: %s\n", d.Where, d.Effect, d.Detail)
	}
	if len(ds) > 0 {
		return 1
	}
	fmt.Println("no difference")
	return 0
}
