package checks

import (
	"encoding/binary"
	"fmt"
	"math"
	"regexp"
	"strings"

	"github.com/gogpu/naga/ir"

	"verif/harness/core"
	"verif/harness/drive"
	"verif/harness/glslx"
	"verif/harness/hlslx"
	"verif/harness/mslx"
	"verif/harness/spv"
	"verif/harness/wg"
	"verif/harness/xrt"
)

// target is one backend seen as "compile, then execute what was emitted".
type target struct {
	Name string
	// undefinedIsSkip: a trap of the target executor excludes the row instead of being a violation
	// (C05: the property is restricted to executions free of GLSL-undefined behaviour).
	undefinedIsSkip bool
}

// slotFor maps a WGSL resource (group, binding, kind) to the executor's slot key.
func (t target) slotFor(g wg.N) string {
	grp, bnd := wg.I(g, "group"), wg.I(g, "binding")
	switch t.Name {
	case "spv", "glsl":
		return fmt.Sprintf("%d.%d", grp, bnd)
	case "hlsl":
		reg := "u"
		if wg.S(g, "space") == "uniform" {
			reg = "b"
		} else if wg.S(g, "access") == "r" {
			reg = "t"
		}
		return fmt.Sprintf("%s%d.%d", reg, bnd, grp)
	case "msl":
		return fmt.Sprintf("buffer(%d)", bnd)
	}
	return ""
}

func words2bytes(w []int32) []byte {
	b := make([]byte, 4*len(w))
	for i, x := range w {
		binary.LittleEndian.PutUint32(b[4*i:], uint32(x))
	}
	return b
}

func bytes2words(b []byte) []int32 {
	w := make([]int32, len(b)/4)
	for i := range w {
		w[i] = int32(binary.LittleEndian.Uint32(b[4*i:]))
	}
	return w
}

// exec runs emitted code for one input row.
func (t target) exec(art []byte, entry string, wgSize [3]uint32, in xrt.Input) xrt.Outcome {
	switch t.Name {
	case "spv":
		return spv.Run(art, in)
	case "glsl":
		return glslx.Run(string(art), in)
	case "hlsl":
		return hlslx.RunWith(string(art), in, hlslx.Options{AllowArrayTypeSuffix: true})
	case "msl":
		return mslx.RunSized(string(art), in, mslx.Config{ThreadgroupSize: wgSize})
	}
	return xrt.Outcome{Skip: "no executor"}
}

// entryName is the name the entry point has in the emitted code.
func (t target) entryName(art []byte, wgslName string) string {
	switch t.Name {
	case "msl":
		// naga renames entry points that clash with MSL reserved words ("main" -> "main_")
		re := regexp.MustCompile(`kernel\s+void\s+(\w+)\s*\(`)
		if m := re.FindSubmatch(art); m != nil {
			return string(m[1])
		}
	case "hlsl":
		re := regexp.MustCompile(`\]\s*void\s+(\w+)\s*\(`)
		if m := re.FindSubmatch(art); m != nil {
			return string(m[1])
		}
	}
	return wgslName
}

// semStats is returned by runSemantic.
type semStats struct {
	Programs, Rows, Compared, Undecided int
}

// rowClass names the WGSL-defined-but-hazardous class of an input row for known-finding predicates.
type rowClassFn func(desc string, in []int32) string

// runSemantic is the conformance step shared by C01/C03/C04/C05: every case is compiled by the real naga for every
// option set, the emitted code is executed on every input row for which the specification decided the result, and the
// final buffer contents are compared with what the specification prescribes.
func runSemantic(c *core.Ctx, t target, cases []*SemCase, opts []string, cls rowClassFn) semStats {
	var st semStats
	type job struct {
		cs  *SemCase
		opt string
	}
	var jobs []job
	for _, cs := range cases {
		if len(cs.Expect) == 0 {
			continue
		}
		for _, o := range opts {
			// switching off the zero-initialisation of workgroup memory preserves the meaning of every program
			// except those that read a workgroup variable before writing it
			if o == "nozero" && cs.Family == "zeroinit" && strings.Contains(cs.Desc, "workgroup") {
				continue
			}
			jobs = append(jobs, job{cs, o})
		}
	}
	res := make([]semStats, len(jobs))
	core.ParMap(len(jobs), core.Cores(), func(i int) {
		res[i] = runSemCase(c, t, jobs[i].cs, jobs[i].opt, cls)
	})
	for _, r := range res {
		st.Programs += r.Programs
		st.Rows += r.Rows
		st.Compared += r.Compared
		st.Undecided += r.Undecided
	}
	return st
}

func runSemCase(c *core.Ctx, t target, cs *SemCase, opt string, cls rowClassFn) (st semStats) {
	src := wg.Print(cs.Prog)
	m, stage, err := drive.Front(src)
	if err != nil {
		c.Skip(fmt.Sprintf("front end rejected the program at %s (judged by C08)", stage))
		return
	}
	entry := "main"
	var wgSize [3]uint32 = [3]uint32{1, 1, 1}
	for _, ep := range m.EntryPoints {
		if ep.Stage == ir.StageCompute {
			entry, wgSize = ep.Name, ep.Workgroup
			break
		}
	}
	art, err := drive.Compile(t.Name, opt, m, entry)
	if err != nil {
		c.Skip(fmt.Sprintf("%s backend returned an error (judged by C08)", t.Name))
		return
	}
	st.Programs = 1
	emitted := t.entryName(art, entry)
	globals := wg.L(cs.Prog, "globals")
	for ri, row := range cs.Inputs {
		st.Rows++
		exp := cs.Expect[ri]
		if !exp.OK {
			st.Undecided++
			c.Skip("specification leaves the row undecided: " + exp.Why)
			continue
		}
		in := xrt.Input{Entry: emitted, Buffers: map[string][]byte{}, NumWorkgroups: [3]uint32{1, 1, 1}, MaxSteps: 200000}
		for gi, g := range globals {
			if sp := wg.S(g, "space"); sp == "storage" || sp == "uniform" {
				in.Buffers[t.slotFor(g)] = words2bytes(row[gi])
			}
		}
		out := t.exec(art, emitted, wgSize, in)
		class := ""
		if cls != nil {
			class = cls(cs.Desc, row[0])
		}
		desc := map[string]string{"family": cs.Family, "desc": cs.Desc, "backend": t.Name, "opt": opt, "rowclass": class}
		key := fmt.Sprintf("%s/%s/%s/%d", t.Name, opt, cs.Desc, ri)
		switch {
		case out.Skip != "":
			c.Skip(t.Name + " executor: " + trimReason(out.Skip))
			continue
		case out.Trap != "":
			if t.undefinedIsSkip {
				c.Skip("target-undefined operation (outside the property's domain): " + trimReason(out.Trap))
				continue
			}
			c.Eval(key, true)
			desc["kind"] = "trap"
			desc["trap"] = trimReason(out.Trap)
			desc["sig"] = fmt.Sprintf("%s|%s|%s|trap|%s|%s", t.Name, cs.Family, cs.Desc, class, trimReason(out.Trap))
			c.Disagree++
			c.Report(fmt.Sprintf("%s/%s: %s: emitted code reaches a target-undefined operation on an input for which WGSL defines the result: %s", t.Name, opt, cs.Desc, out.Trap),
				desc, map[string]any{"wgsl": src, "input": row, "expected": exp.Out, "emitted": emittedText(t, art), "trap": out.Trap, "prog": cs.Prog, "family": cs.Family, "desc": cs.Desc, "opt": opt, "backend": t.Name})
			continue
		}
		c.Eval(key, true)
		st.Compared++
		for gi, g := range globals {
			if sp := wg.S(g, "space"); sp != "storage" && sp != "uniform" {
				continue
			}
			got := bytes2words(in.Buffers[t.slotFor(g)])
			want := exp.Out[gi]
			bad := -1
			for wi := range want {
				if wi >= len(exp.Mask[gi]) || exp.Mask[gi][wi] == 0 {
					continue // padding
				}
				if wi >= len(got) {
					bad = wi
					break
				}
				if got[wi] != want[wi] {
					// f32 words: +0 and -0 are not distinguished
					if exp.Mask[gi][wi] == 2 && uint32(got[wi])&0x7fffffff == 0 && uint32(want[wi])&0x7fffffff == 0 {
						continue
					}
					bad = wi
					break
				}
			}
			if bad >= 0 {
				desc["kind"] = "value"
				desc["sig"] = fmt.Sprintf("%s|%s|%s|value|%s", t.Name, cs.Family, cs.Desc, class)
				c.Disagree++
				gv := int32(0)
				if bad < len(got) {
					gv = got[bad]
				}
				c.Report(fmt.Sprintf("%s/%s: %s: buffer %s word %d is %d (0x%08x), WGSL prescribes %d (0x%08x); input %v", t.Name, opt, cs.Desc, wg.S(g, "name"), bad, gv, uint32(gv), want[bad], uint32(want[bad]), row[0]),
					desc, map[string]any{"wgsl": src, "input": row, "expected": exp.Out, "observed": got, "emitted": emittedText(t, art), "prog": cs.Prog, "family": cs.Family, "desc": cs.Desc, "opt": opt, "backend": t.Name})
				break
			}
		}
	}
	if len(cs.Inputs) > 0 && cs.ID%37 == 0 {
		c.Sample(map[string]any{"family": cs.Family, "desc": cs.Desc, "backend": t.Name, "opt": opt, "wgsl": src, "input": cs.Inputs[0], "expected": cs.Expect[0].Out})
	}
	return
}

var reNums = regexp.MustCompile(`[-+]?(?:0x[0-9a-fA-F]+|\d+(?:\.\d+)?(?:[eE][-+]?\d+)?)|%\w+`)

// trimReason removes the variable parts (numbers, ids) of a skip/trap message so that reasons aggregate.
func trimReason(s string) string {
	s = reNums.ReplaceAllString(s, "N")
	if len(s) > 100 {
		s = s[:100]
	}
	return s
}

func emittedText(t target, art []byte) string {
	if t.Name == "spv" {
		if m, err := spv.Decode(art); err == nil {
			return spv.Disasm(m)
		}
		return "<undecodable>"
	}
	return string(art)
}

// defaultRowClass classifies rows of the table families by the hazardous operand classes WGSL defines but targets may not.
func defaultRowClass(desc string, in []int32) string {
	f := strings.Fields(desc)
	if len(f) < 2 {
		return ""
	}
	op, kind := f[0], f[1]
	lanes := 1
	if len(f) > 2 {
		switch f[2] {
		case "v2", "x2":
			lanes = 2
		case "v3", "x3", "sv", "vs":
			lanes = 3
		case "v4", "x4":
			lanes = 4
		}
	}
	var cl []string
	add := func(s string) {
		for _, x := range cl {
			if x == s {
				return
			}
		}
		cl = append(cl, s)
	}
	if strings.HasPrefix(desc, "extractBits") || strings.HasPrefix(desc, "insertBits") {
		k := 1
		if op == "insertBits" {
			k = 2
		}
		if (k+1)*lanes < len(in) {
			off, cnt := uint64(uint32(in[k*lanes])), uint64(uint32(in[(k+1)*lanes]))
			if off+cnt > 32 {
				add("off+cnt>32")
			}
		}
		return strings.Join(cl, ",")
	}
	if op == "cast" && len(f) > 1 && strings.HasPrefix(f[1], "f32->") {
		to := strings.TrimPrefix(f[1], "f32->")
		n := 1
		if len(f) > 2 {
			fmt.Sscanf(f[2], "x%d", &n)
		}
		for l := 0; l < n && l < len(in); l++ {
			v := float64(math.Float32frombits(uint32(in[l])))
			if v != v || (to == "i32" && (v >= 2147483648 || v < -2147483648)) || (to == "u32" && (v >= 4294967296 || v <= -1)) {
				add("oor")
			}
		}
		return strings.Join(cl, ",")
	}
	for l := 0; l < lanes && l < len(in); l++ {
		a := in[l]
		var b int32
		if lanes+l < len(in) {
			b = in[lanes+l]
		}
		switch op {
		case "/", "%":
			if kind != "f32" {
				if b == 0 {
					add("div0")
				}
				if kind == "i32" && a == -2147483648 && b == -1 {
					add("minint/-1")
				}
				if op == "%" && kind == "i32" && (a < 0 || b < 0) {
					add("negmod")
				}
			}
			if kind == "f32" && op == "%" {
				fa, fb := math.Float32frombits(uint32(a)), math.Float32frombits(uint32(b))
				if fa < 0 || fb < 0 {
					add("negmod")
				}
			}
		case "<<", ">>":
			if uint32(b) >= 32 {
				add("cnt>=32")
			}
		case "abs":
			if kind == "u32" && a < 0 {
				add("msb")
			}
		case "countTrailingZeros", "countLeadingZeros", "firstLeadingBit", "firstTrailingBit":
			if a == 0 {
				add("zero")
			}
			if a < 0 {
				add("neg")
			}
			if a == -1 {
				add("allones")
			}
		case "round":
			fa := float64(math.Float32frombits(uint32(a)))
			if math.Abs(fa-math.Trunc(fa)) == 0.5 {
				add("tie")
			}
		}
	}
	return strings.Join(cl, ",")
}
