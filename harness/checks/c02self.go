package checks

import (
	"encoding/binary"
	"encoding/json"
	"fmt"
	"strings"
	"sync"
	"time"

	"verif/harness/core"
	"verif/harness/spvev"
)

// c02Faults: seeded faults of SpvEmit.tla -> a fragment of the rule that has to catch it.
var c02Faults = []struct {
	Name, Rule  string
	Fns, Blocks int
}{
	{"dup_id", "id defined twice", 1, 5},
	{"use_before_def", "used before it is defined", 1, 5},
	{"nondominating_use", "does not dominate its use", 1, 5},
	{"missing_merge", "selection must be structured", 1, 5},
	{"wrong_section", "logical layout", 1, 5},
	{"missing_capability", "required capability not declared", 1, 5},
	{"unterminated_block", "unterminated block", 1, 5},
	{"bad_bound", "not below the header's bound", 1, 5},
	{"dup_type", "duplicate declaration of a non-aggregate type", 1, 5},
	{"backedge_nonheader", "back-edge to a block that is not a loop header", 1, 5},
	{"wrong_operand_type", "operands must be int scalars or vectors", 1, 5},
	{"missing_interface", "missing from its interface", 1, 5},
	{"undecorated_input", "without BuiltIn or Location", 1, 5},
	{"recursion", "recursion in the static call graph", 2, 3},
	// function types: OpFunction / OpFunctionParameter / OpFunctionCall against the OpTypeFunction, and its uniqueness
	{"param_type_mismatch", "parameter type differs from the function type", 2, 1},
	{"missing_param", "fewer OpFunctionParameter than the function type has parameters", 2, 1},
	{"extra_param", "more OpFunctionParameter than the function type has parameters", 2, 1},
	{"call_arg_mismatch", "argument type differs from the parameter type", 2, 1},
	{"call_arg_count", "argument count differs from the callee's parameter count", 2, 1},
	{"fn_ret_mismatch", "result type must be the function type's return type", 2, 1},
	{"dup_fn_type", "duplicate declaration of a non-aggregate type", 1, 3},
}

func c02EmitCfg(fns, blocks int, faults string, invs ...string) string {
	return fmt.Sprintf("SPECIFICATION ESpec\nCONSTANTS MaxFns = %d MaxBlocks = %d Faults = %s\nINVARIANTS %s\nCHECK_DEADLOCK FALSE\n", fns, blocks, faults, strings.Join(invs, " "))
}

// c02SelfTest model-checks the specification itself on every invocation (SpvEmit.tla):
//   - one run with Faults = all 21 faults: every behaviour picks one fault or none; fault-free emissions (all control-flow
//     shapes and block orders of 1 function x 5 blocks) are never rejected (NoBad), no deviating module is accepted
//     (Caught), and every fault is rejected by the rule meant for it (RejectPrint lines);
//   - thorough: larger fault-free spaces ((1,6), (2,4), (3,3): several functions, forward calls) and, per fault, a run
//     with Faults = {f} in which TLC has to report the invariant NoBadAtAll violated.
//
// Any failure is broken machinery (exit 2), never a violation.
func c02SelfTest(c *core.Ctx) bool {
	type job struct {
		fns, blocks int
		fault       string // "" = fault-free design run, "*" = combined run, else the single fault
	}
	jobs := []job{{1, 5, "*"}}
	if !c.Quick() {
		jobs = append(jobs, job{1, 6, ""}, job{2, 4, ""}, job{3, 3, ""})
		for _, f := range c02Faults {
			jobs = append(jobs, job{f.Fns, f.Blocks, f.Name})
		}
	}
	var names []string
	for _, f := range c02Faults {
		names = append(names, fmt.Sprintf("%q", f.Name))
	}
	all := "{" + strings.Join(names, ", ") + "}"
	var mu sync.Mutex
	ok := true
	fail := func(f string, a ...any) {
		mu.Lock()
		ok = false
		mu.Unlock()
		c.BrokenF(f, a...)
	}
	shapes := map[string]bool{}
	completed := 0
	rejectedBy := map[string]map[string]bool{} // fault -> rules that rejected it
	collect := func(r *core.TLCResult) {
		mu.Lock()
		defer mu.Unlock()
		c.AddTLC(r)
		for _, l := range r.Printed {
			var d struct {
				Shapes   []string `json:"shapes"`
				Fault    string   `json:"fault"`
				Rejected string   `json:"rejected"`
			}
			if json.Unmarshal([]byte(l), &d) != nil {
				continue
			}
			if d.Fault != "" {
				if rejectedBy[d.Fault] == nil {
					rejectedBy[d.Fault] = map[string]bool{}
				}
				rejectedBy[d.Fault][d.Rejected] = true
				continue
			}
			completed++
			for _, s := range d.Shapes {
				shapes[s] = true
			}
		}
	}
	core.ParMap(len(jobs), core.Cores(), func(i int) {
		j := jobs[i]
		switch j.fault {
		case "*":
			r, err := c.RunTLC(core.TLCOpts{Spec: "SpvEmit", CfgText: c02EmitCfg(j.fns, j.blocks, all, "RejectPrint", "EmitDone", "NoBad", "Caught", "NoNotes"),
				Workers: min(4, core.Cores()), HeapGB: 3, Timeout: 25 * time.Minute})
			if err != nil || !r.OK {
				fail("SpvEmit (all faults, %d function x %d blocks): a fault-free emission is rejected, a faulty module is accepted, or TLC failed: %v %s %s\n%s", j.fns, j.blocks, err, r.Violated, r.Err, r.Tail(30))
				return
			}
			collect(r)
		case "":
			r, err := c.RunTLC(core.TLCOpts{Spec: "SpvEmit", CfgText: c02EmitCfg(j.fns, j.blocks, "{}", "EmitDone", "NoBad", "NoNotes"),
				Workers: 1, HeapGB: 3, Timeout: 25 * time.Minute})
			if err != nil || !r.OK {
				fail("SpvEmit(%d functions, %d blocks): the automaton rejects a disciplined emission or TLC failed: %v %s %s\n%s", j.fns, j.blocks, err, r.Violated, r.Err, r.Tail(30))
				return
			}
			collect(r)
		default:
			r, err := c.RunTLC(core.TLCOpts{Spec: "SpvEmit", CfgText: c02EmitCfg(j.fns, j.blocks, fmt.Sprintf("{%q}", j.fault), "NoBadAtAll"),
				Workers: 1, HeapGB: 3, Timeout: 15 * time.Minute})
			if err != nil || !strings.Contains(r.Violated, "NoBadAtAll") {
				fail("SpvEmit self-test: TLC does not report the seeded fault %s (vacuous rule?): %v %s %s\n%s", j.fault, err, r.Violated, r.Err, r.Tail(12))
			}
		}
	})
	if !ok {
		return false
	}
	for _, f := range c02Faults {
		hit := false
		for rule := range rejectedBy[f.Name] {
			if strings.Contains(rule, f.Rule) {
				hit = true
			}
		}
		if !hit {
			c.BrokenF("SpvEmit self-test: seeded fault %s is not rejected by the rule meant for it (%q); rejections seen: %v", f.Name, f.Rule, rejectedBy[f.Name])
			return false
		}
	}
	for _, s := range []string{"if", "ifelse", "loop"} {
		if !shapes[s] {
			c.BrokenF("SpvEmit: no completed module with shape %q was reached (vacuous design run)", s)
			return false
		}
	}
	if completed == 0 {
		c.BrokenF("SpvEmit: no module was completed")
		return false
	}
	c.Cov["design_modules_completed"] = completed
	c.Cov["selftest_faults_detected"] = len(c02Faults)
	return true
}

// ---- corrupted-binary self-test of the binding (extractor + trace specification) -----------------------------------

type c02Inst struct{ off, n int }

func c02Split(bin []byte) (words []uint32, insts []c02Inst) {
	words = make([]uint32, len(bin)/4)
	for i := range words {
		words[i] = binary.LittleEndian.Uint32(bin[4*i:])
	}
	for p := 5; p < len(words); {
		n := int(words[p] >> 16)
		if n == 0 || p+n > len(words) {
			break
		}
		insts = append(insts, c02Inst{p, n})
		p += n
	}
	return
}

func c02Join(words []uint32, insts []c02Inst, drop int, bound uint32) []byte {
	return c02JoinSet(words, insts, map[int]bool{drop: true}, bound)
}

func c02JoinSet(words []uint32, insts []c02Inst, drop map[int]bool, bound uint32) []byte {
	out := append([]uint32{}, words[:5]...)
	if bound != 0 {
		out[3] = bound
	}
	for i, in := range insts {
		if drop[i] {
			continue
		}
		out = append(out, words[in.off:in.off+in.n]...)
	}
	b := make([]byte, 4*len(out))
	for i, w := range out {
		binary.LittleEndian.PutUint32(b[4*i:], w)
	}
	return b
}

// c02Corruptions derives from one valid module the corrupted variants the trace validation must reject; each comes
// with a fragment of the expected rule.
func c02Corruptions(md *c02Mod) (mods []*c02Mod, rules []string) {
	words, insts := c02Split(md.Bin)
	find := func(pred func(e *spvev.Event) bool) int {
		for i := 1; i < len(md.Evs)-1; i++ { // Evs[0] header, Evs[i] = insts[i-1]
			if pred(&md.Evs[i]) {
				return i - 1
			}
		}
		return -1
	}
	add := func(name string, bin []byte, rule string) {
		src := &c02Src{Family: "selftest", Name: name + " of " + md.Src.Name, Text: md.Src.Text}
		mods = append(mods, &c02Mod{Src: src, Opt: md.Opt, Bin: bin, Evs: spvev.Events(bin)})
		rules = append(rules, rule)
	}
	add("bound=5", c02Join(words, insts, -1, 5), "not below the header's bound")
	caps := map[int]bool{} // every OpCapability (another capability may imply Shader, so all of them go)
	for i := 1; i < len(md.Evs)-1; i++ {
		if md.Evs[i].Op == "OpCapability" {
			caps[i-1] = true
		}
	}
	if len(caps) > 0 {
		add("all OpCapability dropped", c02JoinSet(words, insts, caps, 0), "apabilit")
	}
	if k := find(func(e *spvev.Event) bool { return e.Op == "OpSelectionMerge" }); k >= 0 {
		add("first OpSelectionMerge dropped", c02Join(words, insts, k, 0), "")
	}
	if k := find(func(e *spvev.Event) bool { return e.Op == "OpDecorate" && len(e.En) == 1 && e.En[0] == "Block" }); k >= 0 {
		add("first Block decoration dropped", c02Join(words, insts, k, 0), "decorated Block")
	}
	blocks := map[int32]bool{} // struct ids decorated Block
	for i := range md.Evs {
		if e := &md.Evs[i]; e.Op == "OpDecorate" && len(e.En) == 1 && e.En[0] == "Block" && len(e.Ids) == 1 {
			blocks[e.Ids[0]] = true
		}
	}
	if k := find(func(e *spvev.Event) bool {
		return e.Op == "OpMemberDecorate" && len(e.En) == 1 && e.En[0] == "Offset" && len(e.Ids) == 1 && blocks[e.Ids[0]]
	}); k >= 0 {
		add("first Offset decoration of a Block struct dropped", c02Join(words, insts, k, 0), "not fully laid out")
	}
	if k := find(func(e *spvev.Event) bool { return e.Op == "OpReturn" || e.Op == "OpReturnValue" }); k >= 0 {
		add("first return dropped", c02Join(words, insts, k, 0), "")
	}
	if k := find(func(e *spvev.Event) bool { return e.Op == "OpTypeInt" }); k >= 0 {
		// the same type declared twice: insert a copy with a fresh id (bound raised)
		w2 := append([]uint32{}, words...)
		in := insts[k]
		dup := append([]uint32{}, words[in.off:in.off+in.n]...)
		dup[1] = words[3]
		w2 = append(w2[:in.off+in.n:in.off+in.n], append(dup, words[in.off+in.n:]...)...)
		w2[3] = words[3] + 1
		b := make([]byte, 4*len(w2))
		for i, w := range w2 {
			binary.LittleEndian.PutUint32(b[4*i:], w)
		}
		add("OpTypeInt declared twice", b, "duplicate declaration")
	}
	return
}
