package checks

import "math"

// Programs written for C16: between them they contain every kind of WGSL
// declaration (struct, member, alias, module const, override, private /
// workgroup / storage / uniform globals, function, parameter, pointer
// parameter, function-local var / let / const, nested-block locals, loop
// variables, entry points of the three stages with built-in and location
// inputs/outputs) and make the three text backends emit their helpers and
// temporaries (naga_div / naga_mod / naga_neg / naga_abs / naga_f2i32, _eN,
// loop_bound, loop_init, should_continue, type_N / inner wrappers, _padN,
// _mslBufferSizes, DefaultConstructible, NagaBufferLengthRW, the workgroup
// zero-initialisation prologue, interface blocks ...).  All user names of one
// program are distinct unless the program is about reusing one name in several
// scopes (c16Shadow).

type c16Source struct {
	ID  string
	Src string
	// Rows: input rows for the compute entry point; "group.binding" -> 32-bit words.
	Rows []map[string][]int32
}

func f32w(f float32) int32 { return int32(math.Float32bits(f)) }

var c16Sources = []c16Source{
	{ID: "kinds1", Src: `
struct Particle { pos: vec3<f32>, mass: f32, ids: array<i32, 3>, }
struct Params { count: u32, scale: f32, offset: vec2<i32>, tint: vec3<f32>, }
alias Pair = array<Particle, 2>;
alias Scalar = f32;
const LIMIT: i32 = 3;
const FACTOR: f32 = 2.0;
override gain: i32 = 2;
var<private> counter: i32 = 1;
var<private> scratch: Particle;
var<workgroup> tile: array<u32, 4>;
var<workgroup> flag: atomic<u32>;
@group(0) @binding(0) var<storage, read_write> outbuf: array<i32>;
@group(0) @binding(1) var<uniform> params: Params;
@group(0) @binding(2) var<storage, read> inbuf: Pair;
fn weigh(pp: Particle, bias: Scalar) -> f32 {
  let heavy = pp.mass * FACTOR + bias;
  return heavy + pp.pos.y;
}
fn accumulate(base: i32, dest: ptr<function, i32>, part: Particle) -> i32 {
  var total = base / LIMIT;
  let rest = total % 3;
  *dest = rest - (-base);
  for (var idx = 0; idx < 3; idx++) {
    total += part.ids[idx];
    if (idx == 1) { continue; }
    switch idx {
      case 0: { total += 1; }
      case 2: { continue; }
      default: { total -= 1; }
    }
  }
  var step = 0;
  loop {
    if (step >= 2) { break; }
    total += abs(step - rest);
    continuing { step += 1; }
  }
  return total + gain + i32(weigh(part, 0.5));
}
@compute @workgroup_size(1)
fn run(@builtin(global_invocation_id) gid: vec3<u32>, @builtin(local_invocation_index) lidx: u32) {
  var temp: i32 = 0;
  var pair: Pair;
  pair[0] = inbuf[0];
  pair[1].mass = 4.0;
  const inner_c = 5;
  let first = accumulate(outbuf[0], &temp, pair[0]);
  tile[lidx] = u32(first);
  atomicAdd(&flag, 1u);
  scratch = inbuf[1];
  counter = counter + temp + scratch.ids[2] + inner_c;
  {
    let first_inner = counter * 2;
    outbuf[2] = first_inner + i32(tile[0]) + i32(atomicLoad(&flag));
  }
  outbuf[1] = counter + i32(params.scale) + params.offset.y + i32(params.count) + i32(gid.x) + i32(arrayLength(&outbuf)) + i32(params.tint.z);
}
`, Rows: []map[string][]int32{
		{"0.0": {17, 0, 0, 0}, "0.1": {3, f32w(2.5), 7, -9, f32w(1), f32w(2), f32w(3), 0},
			"0.2": {f32w(1), f32w(2), f32w(3), f32w(1.5), 4, 5, 6, 0, f32w(4), f32w(5), f32w(6), f32w(2.5), 7, 8, 9, 0}},
		{"0.0": {-40, 1, 2, 3, 4}, "0.1": {1, f32w(-3.5), -2, 11, f32w(0), f32w(0), f32w(9), 0},
			"0.2": {f32w(0), f32w(-2), f32w(0), f32w(0.5), -4, 50, 6, 0, f32w(4), f32w(5), f32w(6), f32w(2.5), 70, -8, 19, 0}},
	}},
	{ID: "kinds2", Src: `
struct Cell { value: i32, weight: f32, }
struct Grid { cells: array<Cell, 3>, total: i32, }
struct Config { matrix: mat2x2<f32>, shift: u32, bounds: vec2<u32>, }
const ZERO: i32 = 0;
const TABLE = array<i32, 4>(3, 1, 4, 1);
var<private> grid: Grid;
var<workgroup> sums: array<i32, 2>;
@group(0) @binding(0) var<storage, read_write> result: array<i32, 8>;
@group(0) @binding(1) var<uniform> config: Config;
@group(1) @binding(0) var<storage, read_write> cells_io: Grid;
fn pick(table_index: i32) -> i32 {
  var table_copy = TABLE;
  return table_copy[table_index & 3];
}
fn update(cell: ptr<function, Cell>, amount: i32) {
  (*cell).value = (*cell).value / amount + pick(amount);
  (*cell).weight = (*cell).weight * 0.5;
}
fn fold(g: Grid) -> i32 {
  var acc = ZERO;
  var i = 0u;
  while i < 3u {
    let here = g.cells[i];
    acc += here.value % 7;
    if here.value < 0 { acc = -acc; }
    i++;
  }
  return acc + g.total;
}
fn bits(word: u32, amount: u32) -> u32 {
  let low = extractBits(word, amount, 4u);
  let merged = insertBits(low, 5u, 8u, 4u);
  return merged + countOneBits(word) + firstLeadingBit(word);
}
@compute @workgroup_size(2, 1, 1)
fn step_all(@builtin(local_invocation_id) lid: vec3<u32>, @builtin(workgroup_id) wid: vec3<u32>, @builtin(num_workgroups) nwg: vec3<u32>) {
  var mine: Cell = cells_io.cells[1];
  update(&mine, result[7]);
  grid = cells_io;
  grid.cells[0] = mine;
  sums[lid.x] = fold(grid);
  workgroupBarrier();
  let product = config.matrix * vec2<f32>(1.0, 2.0);
  result[0] = sums[0] + i32(product.x) + i32(product.y);
  result[1] = i32(bits(config.shift, config.bounds.y)) + i32(wid.x + nwg.x);
  result[2] = mine.value + i32(mine.weight);
  let clamped = clamp(result[3], -5, 5);
  result[3] = clamped + select(1, 2, clamped > 0) + min(clamped, 3) + max(clamped, -3);
  cells_io.total = dot(vec2<i32>(clamped, 2), vec2<i32>(3, 4));
}
`, Rows: []map[string][]int32{
		{"0.0": {1, 2, 3, 4, 5, 6, 7, 3}, "0.1": {f32w(1), f32w(2), f32w(3), f32w(4), 0x12345678, 0, 3, 9},
			"1.0": {10, f32w(1.5), -20, f32w(2.5), 30, f32w(3.5), 100}},
		{"0.0": {0, 0, 0, -40, 0, 0, 0, -2}, "0.1": {f32w(-1), f32w(0.5), f32w(2), f32w(8), -1, 0, 1, 28},
			"1.0": {-11, f32w(8), 2000, f32w(-2.5), -3, f32w(0), -5}},
	}},
	{ID: "shadow", Src: `
struct First { item: i32, other: f32, }
struct Second { item: u32, other: vec2<f32>, }
var<private> acc: i32 = 0;
@group(0) @binding(0) var<storage, read_write> sink: array<i32, 6>;
@group(0) @binding(1) var<storage, read> source: Second;
fn note(v: i32) { acc = acc * 3 + v; }
fn one(item: i32) -> i32 {
  var other = item + 1;
  note(other);
  {
    var item = other * 2;
    note(item);
    {
      let other = item + 5;
      note(other);
    }
    note(other);
  }
  note(item);
  for (var item = 0; item < 2; item++) { let other = item + 7; note(other); }
  for (var item = 3; item < 5; item++) { note(item); }
  return other;
}
fn two(other: i32, item: i32) -> i32 {
  var first: First;
  first.item = other * item;
  first.other = 1.5;
  if first.item > 3 { let item = first.item - 1; note(item); } else { let item = first.item + 1; note(item); }
  return first.item + one(item) + i32(first.other);
}
@compute @workgroup_size(1)
fn entry() {
  var state: First;
  state.item = sink[0];
  state.other = f32(source.item);
  let item = one(state.item);
  var other = two(item, sink[1]);
  other += i32(source.other.y) + i32(state.other);
  sink[2] = item;
  sink[3] = other;
  sink[4] = acc;
}
`, Rows: []map[string][]int32{
		{"0.0": {5, 3, 0, 0, 0, 0}, "0.1": {9, 0, f32w(1.5), f32w(4)}},
		{"0.0": {-7, -2, 0, 0, 0, 0}, "0.1": {1, 0, f32w(0), f32w(-4)}},
	}},
	{ID: "stages", Src: `
struct VertexOut { @builtin(position) clip: vec4<f32>, @location(0) shade: vec3<f32>, @location(1) @interpolate(flat) tag: u32, }
struct FragOut { @location(0) color: vec4<f32>, @builtin(frag_depth) depth: f32, }
struct Camera { view: mat4x4<f32>, eye: vec3<f32>, exposure: f32, }
@group(0) @binding(0) var<uniform> camera: Camera;
@group(0) @binding(1) var<storage, read> lights: array<vec4<f32>>;
var<private> bounce: i32 = 0;
fn shade_one(normal: vec3<f32>, light_index: u32) -> f32 {
  let light = lights[light_index];
  let facing = dot(normal, light.xyz);
  bounce += 1;
  return max(facing, 0.0) * light.w;
}
@vertex
fn vs_main(@location(0) place: vec3<f32>, @location(1) normal_in: vec3<f32>, @builtin(vertex_index) vert: u32, @builtin(instance_index) inst: u32) -> VertexOut {
  var result: VertexOut;
  result.clip = camera.view * vec4<f32>(place, 1.0);
  result.shade = normal_in * shade_one(normal_in, inst);
  result.tag = vert / 3u + u32(bounce);
  return result;
}
@fragment
fn fs_main(incoming: VertexOut, @builtin(front_facing) facing_front: bool) -> FragOut {
  var painted: FragOut;
  let lit = incoming.shade * camera.exposure;
  painted.color = vec4<f32>(lit, select(0.5, 1.0, facing_front));
  painted.depth = incoming.clip.z + f32(incoming.tag % 5u) * 0.01;
  if painted.depth > 1.0 { discard; }
  return painted;
}
@fragment
fn fs_plain(@location(0) shade_in: vec3<f32>, @builtin(position) frag_at: vec4<f32>) -> @location(0) vec4<f32> {
  let mixed = mix(shade_in, camera.eye, 0.25);
  return vec4<f32>(mixed, frag_at.w);
}
`},
	{ID: "math", Src: `
struct Sample { intpart: f32, part: f32, exponent: i32, }
@group(0) @binding(0) var<storage, read_write> answers: array<f32, 8>;
@group(0) @binding(1) var<storage, read_write> counts: array<atomic<u32>, 2>;
@group(0) @binding(2) var<storage, read> numbers: array<f32, 4>;
var<workgroup> shared_total: atomic<i32>;
fn split(number: f32) -> Sample {
  let pieces = modf(number);
  let expo = frexp(number);
  return Sample(pieces.whole, pieces.fract, expo.exp);
}
fn convert(real: f32) -> vec2<i32> {
  let signed_part = i32(real);
  let unsigned_part = u32(abs(real));
  return vec2<i32>(signed_part, i32(unsigned_part));
}
@compute @workgroup_size(1)
fn compute_all() {
  let sample = split(numbers[0]);
  answers[0] = sample.intpart;
  answers[1] = sample.part;
  answers[2] = f32(sample.exponent);
  let both = convert(numbers[1]);
  answers[3] = f32(both.x / both.y) + f32(both.x % both.y);
  let before = atomicAdd(&counts[0], 2u);
  let swapped = atomicCompareExchangeWeak(&counts[1], 5u, 9u);
  atomicStore(&shared_total, i32(before));
  answers[4] = f32(atomicLoad(&shared_total)) + f32(swapped.old_value);
  var vector = vec3<f32>(numbers[2], numbers[3], 1.0);
  vector = normalize(vector) * length(vector);
  answers[5] = vector.x + vector.y;
  answers[6] = f32(-both.x) + f32(abs(both.y));
  answers[7] = pow(numbers[2], 2.0) + sqrt(abs(numbers[3]));
}
`, Rows: []map[string][]int32{
		{"0.0": {0, 0, 0, 0, 0, 0, 0, 0}, "0.1": {3, 5}, "0.2": {f32w(5.75), f32w(-7.5), f32w(3), f32w(4)}},
		{"0.0": {0, 0, 0, 0, 0, 0, 0, 0}, "0.1": {0, 4}, "0.2": {f32w(-0.375), f32w(100.25), f32w(-2), f32w(0.25)}},
	}},
	// namerprobe: four functions with one local each; the locals are named by a label sequence exported by Namer.tla,
	// so that the namer sees exactly that sequence of labels (module name space, registration order = function order)
	// and the emitted spellings can be compared with the ones the specification predicts.
	{ID: "namerprobe", Src: `
@group(0) @binding(0) var<storage, read_write> cells: array<i32, 8>;
fn first_fn(seed_a: i32) -> i32 { var probe_a = seed_a + 1; probe_a += 2; return probe_a; }
fn second_fn(seed_b: i32) -> i32 { var probe_b = seed_b * 3; probe_b -= 1; return probe_b; }
fn third_fn(seed_c: i32) -> i32 { var probe_c = seed_c - 5; probe_c *= 2; return probe_c; }
fn fourth_fn(seed_d: i32) -> i32 { var probe_d = seed_d + 7; probe_d += seed_d; return probe_d; }
@compute @workgroup_size(1)
fn probe_main() {
  cells[1] = first_fn(cells[0]);
  cells[2] = second_fn(cells[1]);
  cells[3] = third_fn(cells[2]);
  cells[4] = fourth_fn(cells[3]);
}
`, Rows: []map[string][]int32{{"0.0": {3, 0, 0, 0, 0, 0, 0, 0}}, {"0.0": {-11, 0, 0, 0, 0, 0, 0, 0}}}},
}
