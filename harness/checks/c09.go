package checks

// C09 - "Lowering yields a well-formed, fully typed, deduplicated IR module".
//
// Specification: spec/IrValid.tla (rule automaton over the IR event stream), spec/IrTrace.tla (trace validation, many
// modules per TLC run), spec/IrLower.tla (design level: abstract lowerer with the emitter protocol + seeded faults).
// Binding: every monitored WGSL module is lowered by the real naga, harness/irev turns the returned *ir.Module into
// events, TLC evaluates every rule at every event and returns per-module verdicts (line, rule, handle).  A verdict is
// attributed to the lowering stage that introduced it by replaying the module through wgsl.VerifSetLowerStageHook.

import (
	"bytes"
	"crypto/sha256"
	"encoding/hex"
	"encoding/json"
	"fmt"
	"math/rand"
	"os"
	"path/filepath"
	"sort"
	"strings"
	"sync"
	"time"

	"github.com/gogpu/naga"
	"github.com/gogpu/naga/ir"
	"github.com/gogpu/naga/wgsl"

	"verif/harness/core"
	"verif/harness/drive"
	"verif/harness/irev"
	"verif/harness/wg"
)

func init() { Registry["C09"] = runC09 }

type c09Mod struct {
	Name, Family, Src string
	stream            irev.Stream
	idx               *c09Index
}

// c09Verdict is one entry of st.bad.
type c09Verdict struct {
	L    int    `json:"l"`
	Rule string `json:"rule"`
	H    int    `json:"h"`
	X    struct {
		Got  map[string]any `json:"got"`
		Want map[string]any `json:"want"`
	} `json:"x"`
}

// innerString summarises a type inner ("vector:3:float:4", "matrix:3x2:float:4", "pointer:function", "struct").
func innerString(in map[string]any) string {
	if in == nil {
		return "none"
	}
	switch in["k"] {
	case "scalar", "atomic":
		return fmt.Sprintf("%v:%v:%v", in["k"], in["sk"], in["w"])
	case "vector":
		return fmt.Sprintf("vector:%v:%v:%v", asInt(in["n"]), in["sk"], in["w"])
	case "matrix":
		return fmt.Sprintf("matrix:%vx%v:%v:%v", asInt(in["c"]), asInt(in["r"]), in["sk"], in["w"])
	case "pointer", "valueptr":
		return fmt.Sprintf("%v:%v", in["k"], in["space"])
	}
	return fmt.Sprint(in["k"])
}

func c09Validate(m *ir.Module) (n int, msgs []string) {
	defer func() {
		if r := recover(); r != nil {
			n, msgs = 1, []string{fmt.Sprint("panic in ir.Validate: ", r)}
		}
	}()
	errs, err := ir.Validate(m)
	for _, e := range errs {
		msgs = append(msgs, e.Error())
	}
	if err != nil {
		msgs = append(msgs, err.Error())
	}
	return len(msgs), msgs
}

// ---- description of a verdict -------------------------------------------------------------------------------------

// c09Index gives, for every line of a stream, the function it belongs to and the expression table of that function.
type c09Index struct {
	fnOf   []int // line -> function segment index (-1: module level)
	segs   []*c09Seg
	global *c09Seg // the module-scope arena
}

type c09Seg struct {
	name  string
	kinds []string
	ops   [][]int
	detail []string
	users map[int][]string
}

func asInt(v any) int {
	switch x := v.(type) {
	case int:
		return x
	case float64:
		return int(x)
	}
	return -1
}

func asInts(v any) []int {
	a, _ := v.([]any)
	out := make([]int, 0, len(a))
	for _, x := range a {
		out = append(out, asInt(x))
	}
	return out
}

func resString(v any) string {
	r, _ := v.(map[string]any)
	if r == nil {
		return "?"
	}
	if h := asInt(r["h"]); h >= 0 {
		return fmt.Sprintf("handle")
	}
	in, _ := r["v"].(map[string]any)
	if in == nil {
		return "?"
	}
	s := fmt.Sprint(in["k"])
	for _, f := range []string{"n", "c", "r", "sk", "w", "space"} {
		if x, ok := in[f]; ok {
			s += fmt.Sprintf(":%v", x)
		}
	}
	return s
}

func exprDetail(j irev.J) string {
	var parts []string
	for _, f := range []string{"op", "fun", "lit", "q", "level"} {
		if v, ok := j[f]; ok {
			parts = append(parts, fmt.Sprintf("%s=%v", f, v))
		}
	}
	if v, ok := j["conv"]; ok {
		parts = append(parts, fmt.Sprintf("as=%v/%v", j["sk"], v))
	}
	if rt, ok := j["rt"]; ok {
		parts = append(parts, "recorded="+resString(rt))
	}
	return strings.Join(parts, " ")
}

func c09BuildIndex(s *irev.Stream) *c09Index {
	ix := &c09Index{fnOf: make([]int, len(s.Events)), global: &c09Seg{name: "<module>", users: map[int][]string{}}}
	cur := -1
	for i, e := range s.Events {
		ix.fnOf[i] = cur
		switch e.J["ev"] {
		case "fbegin":
			ix.segs = append(ix.segs, &c09Seg{name: e.Fn, users: map[int][]string{}})
			cur = len(ix.segs) - 1
			ix.fnOf[i] = cur
		case "fend":
			cur = -1
		case "expr", "gexpr":
			seg := ix.global
			if cur >= 0 {
				seg = ix.segs[cur]
			}
			h := len(seg.kinds)
			seg.kinds = append(seg.kinds, e.What)
			ops := asInts(e.J["ops"])
			seg.ops = append(seg.ops, ops)
			seg.detail = append(seg.detail, exprDetail(e.J))
			user := e.What
			for _, f := range []string{"op", "fun"} {
				if v, ok := e.J[f]; ok {
					user += ":" + fmt.Sprint(v)
				}
			}
			if v, ok := e.J["conv"]; ok && asInt(v) == 0 {
				user += ":bitcast"
			}
			for _, o := range ops {
				seg.users[o] = append(seg.users[o], user)
			}
			_ = h
		default:
			if cur >= 0 {
				for _, o := range asInts(e.J["use"]) {
					ix.segs[cur].users[o] = append(ix.segs[cur].users[o], e.What)
				}
			}
		}
	}
	return ix
}

func uniqSorted(a []string) []string {
	m := map[string]bool{}
	for _, x := range a {
		m[x] = true
	}
	var out []string
	for x := range m {
		out = append(out, x)
	}
	sort.Strings(out)
	return out
}

// c09Describe builds the descriptor of one verdict (line is 0-based within the module's stream).
func c09Describe(mod *c09Mod, line int, v c09Verdict) map[string]string {
	ev := mod.stream.Events[line]
	d := map[string]string{"family": mod.Family, "shader": mod.Name, "rule": v.Rule, "event": ev.What, "fn": ev.Fn,
		"kind": ev.What, "shape": ev.What, "usedby": "", "detail": "", "stage": "-", "types": ""}
	if v.X.Got != nil && v.X.Got["k"] != "none" || v.X.Want != nil && v.X.Want["k"] != "none" {
		d["types"] = "got=" + innerString(v.X.Got) + " want=" + innerString(v.X.Want)
	}
	seg := mod.idx.global
	if f := mod.idx.fnOf[line]; f >= 0 {
		seg = mod.idx.segs[f]
	}
	h := v.H
	if ev.J["ev"] == "expr" || ev.J["ev"] == "gexpr" {
		h = asInt(ev.J["h"])
	}
	// verdicts of module-scope events carry arena indices of other arenas (constants, overrides, ...) in h
	if h >= 0 && h < len(seg.kinds) && (mod.idx.fnOf[line] >= 0 || ev.J["ev"] == "gexpr") {
		d["kind"] = seg.kinds[h]
		var ok []string
		for _, o := range seg.ops[h] {
			if o >= 0 && o < len(seg.kinds) {
				ok = append(ok, seg.kinds[o])
			} else {
				ok = append(ok, "?")
			}
		}
		d["shape"] = fmt.Sprintf("%s(%s)", seg.kinds[h], strings.Join(ok, ","))
		d["usedby"] = strings.Join(uniqSorted(seg.users[h]), ",")
		d["detail"] = seg.detail[h]
	}
	// an abstract literal left alone because its user has another operand whose type naga could not resolve is a
	// consequence of that (already reported) untyped operand, not a finding of its own
	if strings.HasPrefix(v.Rule, "abstract literal survives") && h >= 0 && mod.idx.fnOf[line] >= 0 {
		for u, ops := range seg.ops {
			uses := false
			for _, o := range ops {
				if o == h {
					uses = true
				}
			}
			if !uses {
				continue
			}
			for _, o := range ops {
				if o >= 0 && o < len(seg.detail) && strings.Contains(seg.detail[o], "recorded=none") {
					d["cascade"] = "yes"
				}
			}
			_ = u
		}
	}
	if ev.J["ev"] == "validate" {
		d["detail"] = fmt.Sprint(ev.J["first"])
	}
	d["sig"] = d["rule"] + " | " + d["shape"]
	return d
}

// ---- streams -> TLC -------------------------------------------------------------------------------------------------

// c09Sem bounds the number of TLC worker threads of this check that run at the same time (core.Cores()).
var c09Sem = make(chan struct{}, 64)

func c09TLC(c *core.Ctx, o core.TLCOpts) (*core.TLCResult, error) {
	w := o.Workers
	if w < 1 {
		w = 1
	}
	if w > core.Cores() {
		w = core.Cores()
		o.Workers = w
	}
	c09SemMu.Lock()
	for i := 0; i < w; i++ {
		c09Sem <- struct{}{}
	}
	c09SemMu.Unlock()
	defer func() {
		for i := 0; i < w; i++ {
			<-c09Sem
		}
	}()
	return c.RunTLC(o)
}

var c09SemMu sync.Mutex

const c09TraceCfg = "SPECIFICATION TSpec\nCHECK_DEADLOCK FALSE\nPOSTCONDITION Consumed\n"

// c09RunTrace validates the streams (concatenated) with TLC and returns the verdicts per stream (0-based lines).
func c09RunTrace(c *core.Ctx, streams []*irev.Stream) ([][]c09Verdict, error) {
	var buf bytes.Buffer
	starts := make([]int, len(streams)+1)
	n := 0
	for i, s := range streams {
		starts[i] = n
		buf.Write(irev.Marshal(s.Events))
		n += len(s.Events)
	}
	starts[len(streams)] = n
	r, err := c09TLC(c, core.TLCOpts{Spec: "IrTrace", CfgText: c09TraceCfg, Files: map[string][]byte{"trace.ndjson": buf.Bytes()},
		Workers: 1, HeapGB: 4, Timeout: 25 * time.Minute})
	if err != nil {
		return nil, err
	}
	if !r.OK || len(r.Printed) == 0 {
		return nil, fmt.Errorf("IrTrace did not complete: %s %s\n%s", r.Violated, r.Err, r.Tail(25))
	}
	c.AddTLC(r)
	var out struct {
		Consumed int
		Bad      []c09Verdict
	}
	out.Consumed = -1
	for _, line := range r.Printed {
		var part struct {
			Consumed *int         `json:"consumed"`
			Bad      []c09Verdict `json:"bad"`
		}
		if err := json.Unmarshal([]byte(line), &part); err != nil {
			return nil, fmt.Errorf("bad verdict line: %v", err)
		}
		out.Bad = append(out.Bad, part.Bad...)
		if part.Consumed != nil {
			out.Consumed = *part.Consumed
		}
	}
	if out.Consumed != n {
		return nil, fmt.Errorf("trace not fully consumed: %d of %d events", out.Consumed, n)
	}
	res := make([][]c09Verdict, len(streams))
	seen := map[string]bool{}
	for _, b := range out.Bad {
		key := fmt.Sprintf("%d|%d|%s", b.L, b.H, b.Rule)
		if seen[key] { // a PrintT may be evaluated more than once
			continue
		}
		seen[key] = true
		l := b.L - 1
		i := sort.Search(len(streams), func(i int) bool { return starts[i+1] > l })
		if i >= len(streams) {
			return nil, fmt.Errorf("verdict for line %d outside the trace", b.L)
		}
		b.L = l - starts[i]
		res[i] = append(res[i], b)
	}
	return res, nil
}

// ---- self-test of the trace specification: corrupted copies of a golden stream -----------------------------------------

type c09Corruption struct {
	name   string
	expect string // substring of the rule that must be reported
	apply  func(evs []irev.J) ([]irev.J, bool)
}

func c09LoadGolden() ([]irev.J, error) {
	b, err := os.ReadFile(filepath.Join(core.SpecDir(), "IrTraceSelftest.ndjson"))
	if err != nil {
		return nil, err
	}
	var out []irev.J
	dec := json.NewDecoder(bytes.NewReader(b))
	for dec.More() {
		var j irev.J
		if err := dec.Decode(&j); err != nil {
			return nil, err
		}
		out = append(out, j)
	}
	return out, nil
}

func deepCopy(evs []irev.J) []irev.J {
	b, _ := json.Marshal(evs)
	var out []irev.J
	_ = json.Unmarshal(b, &out)
	return out
}

func findEv(evs []irev.J, from int, pred func(irev.J) bool) int {
	for i := from; i < len(evs); i++ {
		if pred(evs[i]) {
			return i
		}
	}
	return -1
}

func isEv(name string) func(irev.J) bool { return func(j irev.J) bool { return j["ev"] == name } }

// exprAt returns the expression event with handle h of the function that contains line i.
func exprAt(evs []irev.J, i, h int) irev.J {
	s := i
	for s >= 0 && evs[s]["ev"] != "fbegin" {
		s--
	}
	for k := s + 1; k < len(evs) && evs[k]["ev"] != "fend"; k++ {
		if evs[k]["ev"] == "expr" && asInt(evs[k]["h"]) == h {
			return evs[k]
		}
	}
	return nil
}

func insertAt(evs []irev.J, i int, e irev.J) []irev.J {
	out := append([]irev.J{}, evs[:i]...)
	out = append(out, e)
	return append(out, evs[i:]...)
}

// c09EditDual edits the two bindings of the dual-source output struct of the golden stream.
func c09EditDual(evs []irev.J, edit func(a, b map[string]any)) ([]irev.J, bool) {
	for _, e := range evs {
		in, _ := e["inner"].(map[string]any)
		if e["ev"] != "type" || in == nil || in["k"] != "struct" {
			continue
		}
		var dual []map[string]any
		for _, m := range in["ms"].([]any) {
			if b := m.(map[string]any)["b"].(map[string]any); b["k"] == "location" && asInt(b["bs"]) >= 0 {
				dual = append(dual, b)
			}
		}
		if len(dual) == 2 {
			edit(dual[0], dual[1])
			return evs, true
		}
	}
	return evs, false
}

func c09Corruptions() []c09Corruption {
	boolRes := irev.J{"h": -1, "v": irev.J{"k": "scalar", "sk": "bool", "w": 1}}
	return []c09Corruption{
		{"emit range extended over a literal", "emit range covers a pre-emit expression", func(evs []irev.J) ([]irev.J, bool) {
			for i, e := range evs {
				if e["ev"] == "emit" && asInt(e["s"]) > 0 {
					if x := exprAt(evs, i, asInt(e["s"])-1); x != nil && x["k"] == "Literal" {
						e["s"] = asInt(e["s"]) - 1
						return evs, true
					}
				}
			}
			return evs, false
		}},
		{"emit range end off by one over a call result", "emit range covers a call", func(evs []irev.J) ([]irev.J, bool) {
			for i, e := range evs {
				if e["ev"] == "emit" {
					if x := exprAt(evs, i, asInt(e["e"])); x != nil && x["k"] == "CallResult" {
						e["e"] = asInt(e["e"]) + 1
						return evs, true
					}
				}
			}
			return evs, false
		}},
		{"emit statement duplicated", "expression emitted twice", func(evs []irev.J) ([]irev.J, bool) {
			i := findEv(evs, 0, isEv("emit"))
			if i < 0 {
				return evs, false
			}
			return insertAt(evs, i, evs[i]), true
		}},
		{"store moved before the emit of its value", "statement operand is not in scope", func(evs []irev.J) ([]irev.J, bool) {
			for i := 1; i < len(evs); i++ {
				if evs[i]["ev"] == "store" && evs[i-1]["ev"] == "emit" && asInt(evs[i]["v"]) >= asInt(evs[i-1]["s"]) && asInt(evs[i]["v"]) < asInt(evs[i-1]["e"]) {
					evs[i], evs[i-1] = evs[i-1], evs[i]
					return evs, true
				}
			}
			return evs, false
		}},
		{"emit statement dropped", "not in scope", func(evs []irev.J) ([]irev.J, bool) {
			for i := 1; i < len(evs); i++ {
				if evs[i]["ev"] == "store" && evs[i-1]["ev"] == "emit" {
					return append(evs[:i-1:i-1], evs[i:]...), true
				}
			}
			return evs, false
		}},
		{"value emitted inside an if used after it", "not in scope", func(evs []irev.J) ([]irev.J, bool) {
			for i := range evs {
				if evs[i]["ev"] != "if" {
					continue
				}
				lo := -1
				for k := i + 1; k < len(evs) && evs[k]["ev"] != "else"; k++ {
					if evs[k]["ev"] == "emit" && lo < 0 {
						lo = asInt(evs[k]["s"])
					}
					if evs[k]["ev"] == "store" && lo >= 0 && asInt(evs[k]["v"]) >= lo {
						end := findEv(evs, k, isEv("end_if"))
						return insertAt(evs, end+1, evs[k]), true
					}
				}
			}
			return evs, false
		}},
		{"operand handle made a forward reference", "operand handle refers forward", func(evs []irev.J) ([]irev.J, bool) {
			i := findEv(evs, 0, func(j irev.J) bool { return j["ev"] == "expr" && j["k"] == "Binary" })
			if i < 0 {
				return evs, false
			}
			evs[i]["ops"] = []any{asInts(evs[i]["ops"])[0], asInt(evs[i]["h"]) + 1}
			return evs, true
		}},
		{"recorded type of an addition replaced by bool", "recorded type differs from the inferred type", func(evs []irev.J) ([]irev.J, bool) {
			i := findEv(evs, 0, func(j irev.J) bool { return j["ev"] == "expr" && j["k"] == "Binary" && j["op"] == "add" })
			if i < 0 {
				return evs, false
			}
			evs[i]["rt"] = boolRes
			return evs, true
		}},
		{"recorded type of a swizzle is the source vector type", "recorded type differs from the inferred type", func(evs []irev.J) ([]irev.J, bool) {
			i := findEv(evs, 0, func(j irev.J) bool { return j["ev"] == "expr" && j["k"] == "Swizzle" })
			if i < 0 {
				return evs, false
			}
			src := exprAt(evs, i, asInts(evs[i]["ops"])[0])
			evs[i]["rt"] = src["rt"]
			return evs, true
		}},
		{"ExpressionTypes entry emptied", "expression has no recorded type", func(evs []irev.J) ([]irev.J, bool) {
			i := findEv(evs, 0, func(j irev.J) bool { return j["ev"] == "expr" && j["k"] == "Load" })
			if i < 0 {
				return evs, false
			}
			evs[i]["rt"] = irev.J{"h": -1, "v": irev.J{"k": "none"}}
			return evs, true
		}},
		{"anonymous type duplicated", "structurally equal anonymous type appears twice", func(evs []irev.J) ([]irev.J, bool) {
			a := findEv(evs, 0, func(j irev.J) bool { return j["ev"] == "type" && asInt(j["named"]) == 0 })
			b := findEv(evs, a+1, func(j irev.J) bool { return j["ev"] == "type" && asInt(j["named"]) == 0 })
			if a < 0 || b < 0 {
				return evs, false
			}
			evs[b]["inner"] = evs[a]["inner"]
			return evs, true
		}},
		{"type refers to a later type", "type refers to a later or missing type", func(evs []irev.J) ([]irev.J, bool) {
			i := findEv(evs, 0, func(j irev.J) bool {
				in, _ := j["inner"].(map[string]any)
				return j["ev"] == "type" && in != nil && in["k"] == "array"
			})
			if i < 0 {
				return evs, false
			}
			evs[i]["inner"].(map[string]any)["base"] = asInt(evs[i]["h"]) + 2
			return evs, true
		}},
		{"abstract scalar kind left in a type", "abstract scalar kind survives", func(evs []irev.J) ([]irev.J, bool) {
			i := findEv(evs, 0, func(j irev.J) bool {
				in, _ := j["inner"].(map[string]any)
				return j["ev"] == "type" && in != nil && in["k"] == "vector"
			})
			if i < 0 {
				return evs, false
			}
			evs[i]["inner"].(map[string]any)["sk"] = "afloat"
			return evs, true
		}},
		{"abstract literal left behind", "abstract literal survives", func(evs []irev.J) ([]irev.J, bool) {
			i := findEv(evs, 0, func(j irev.J) bool { return j["ev"] == "expr" && j["k"] == "Literal" && j["lit"] == "i32" })
			if i < 0 {
				return evs, false
			}
			evs[i]["lit"] = "aint"
			return evs, true
		}},
		{"entry point argument loses its binding", "has no binding", func(evs []irev.J) ([]irev.J, bool) {
			i := findEv(evs, 0, func(j irev.J) bool { return j["ev"] == "fbegin" && j["stage"] == "compute" })
			if i < 0 {
				return evs, false
			}
			evs[i]["args"].([]any)[0].(map[string]any)["b"] = irev.J{"k": "none"}
			return evs, true
		}},
		{"two output members share a location", "share a location", func(evs []irev.J) ([]irev.J, bool) {
			for _, e := range evs {
				in, _ := e["inner"].(map[string]any)
				if e["ev"] != "type" || in == nil || in["k"] != "struct" {
					continue
				}
				var locs []map[string]any
				for _, m := range in["ms"].([]any) {
					if b := m.(map[string]any)["b"].(map[string]any); b["k"] == "location" && asInt(b["bs"]) < 0 {
						locs = append(locs, b)
					}
				}
				if len(locs) >= 2 {
					locs[1]["loc"] = locs[0]["loc"]
					return evs, true
				}
			}
			return evs, false
		}},
		{"@blend_src dropped from a dual-source pair (both outputs at location 0)", "share a location", func(evs []irev.J) ([]irev.J, bool) {
			return c09EditDual(evs, func(a, b map[string]any) { a["bs"], b["bs"] = -1, -1 })
		}},
		{"both dual-source outputs carry the same @blend_src", "share a location", func(evs []irev.J) ([]irev.J, bool) {
			return c09EditDual(evs, func(a, b map[string]any) { b["bs"] = a["bs"] })
		}},
		{"storage buffer loses @group/@binding", "without @group/@binding", func(evs []irev.J) ([]irev.J, bool) {
			i := findEv(evs, 0, func(j irev.J) bool { return j["ev"] == "global" && j["space"] == "storage" })
			if i < 0 {
				return evs, false
			}
			evs[i]["group"], evs[i]["binding"] = -1, -1
			return evs, true
		}},
		{"return loses its value", "return without a value in a function with a result", func(evs []irev.J) ([]irev.J, bool) {
			i := findEv(evs, 0, func(j irev.J) bool { return j["ev"] == "return" && asInt(j["v"]) >= 0 })
			if i < 0 {
				return evs, false
			}
			evs[i]["v"], evs[i]["use"] = -1, []any{}
			return evs, true
		}},
		{"final return dropped", "can reach its end without returning a value", func(evs []irev.J) ([]irev.J, bool) {
			for i := 1; i < len(evs); i++ {
				if evs[i]["ev"] == "fend" && evs[i-1]["ev"] == "return" && asInt(evs[i-1]["v"]) >= 0 {
					return append(evs[:i-1:i-1], evs[i:]...), true
				}
			}
			return evs, false
		}},
		{"store of a value of another type", "stored value type differs from the pointee type", func(evs []irev.J) ([]irev.J, bool) {
			i := findEv(evs, 0, isEv("store"))
			if i < 0 {
				return evs, false
			}
			evs[i]["v"] = evs[i]["p"]
			evs[i]["use"] = []any{evs[i]["p"], evs[i]["p"]}
			return evs, true
		}},
		{"call loses an argument", "argument count differs", func(evs []irev.J) ([]irev.J, bool) {
			i := findEv(evs, 0, func(j irev.J) bool { return j["ev"] == "call" && len(asInts(j["args"])) == 2 })
			if i < 0 {
				return evs, false
			}
			evs[i]["args"] = evs[i]["args"].([]any)[:1]
			return evs, true
		}},
		{"call arguments swapped", "argument type differs from the parameter type", func(evs []irev.J) ([]irev.J, bool) {
			i := findEv(evs, 0, func(j irev.J) bool { return j["ev"] == "call" && len(asInts(j["args"])) == 2 })
			if i < 0 {
				return evs, false
			}
			a := evs[i]["args"].([]any)
			evs[i]["args"] = []any{a[1], a[0]}
			return evs, true
		}},
		{"break at function level", "break outside of a loop body or switch case", func(evs []irev.J) ([]irev.J, bool) {
			i := findEv(evs, 0, isEv("named"))
			return insertAt(evs, i+1, irev.J{"ev": "break", "use": []any{}}), i >= 0
		}},
		{"continue in a continuing block", "continue outside of a loop body", func(evs []irev.J) ([]irev.J, bool) {
			i := findEv(evs, 0, isEv("continuing"))
			return insertAt(evs, i+1, irev.J{"ev": "continue", "use": []any{}}), i >= 0
		}},
		{"return in a continuing block", "return inside a continuing block", func(evs []irev.J) ([]irev.J, bool) {
			i := findEv(evs, 0, isEv("continuing"))
			return insertAt(evs, i+1, irev.J{"ev": "return", "v": -1, "use": []any{}}), i >= 0
		}},
		{"default case turned into a value case", "exactly one default", func(evs []irev.J) ([]irev.J, bool) {
			i := findEv(evs, 0, func(j irev.J) bool { return j["ev"] == "case" && j["vk"] == "default" })
			if i < 0 {
				return evs, false
			}
			evs[i]["vk"], evs[i]["v"] = "uint", 77
			return evs, true
		}},
		{"case value repeated", "switch case value appears twice", func(evs []irev.J) ([]irev.J, bool) {
			a := findEv(evs, 0, func(j irev.J) bool { return j["ev"] == "case" && j["vk"] == "uint" })
			b := findEv(evs, a+1, func(j irev.J) bool { return j["ev"] == "case" && j["vk"] == "uint" })
			if a < 0 || b < 0 {
				return evs, false
			}
			evs[b]["v"] = evs[a]["v"]
			return evs, true
		}},
		{"case value of the other signedness", "case value type differs from the selector type", func(evs []irev.J) ([]irev.J, bool) {
			a := findEv(evs, 0, func(j irev.J) bool { return j["ev"] == "case" && j["vk"] == "uint" })
			if a < 0 {
				return evs, false
			}
			evs[a]["vk"] = "sint"
			return evs, true
		}},
		{"atomic value of another type", "atomic: value type differs", func(evs []irev.J) ([]irev.J, bool) {
			i := findEv(evs, 0, isEv("atomic"))
			if i < 0 {
				return evs, false
			}
			evs[i]["v"] = evs[i]["p"]
			evs[i]["use"] = []any{evs[i]["p"], evs[i]["p"]}
			return evs, true
		}},
		{"ir.Validate reports an error", "ir.Validate reports errors", func(evs []irev.J) ([]irev.J, bool) {
			i := findEv(evs, 0, isEv("validate"))
			if i < 0 {
				return evs, false
			}
			evs[i]["n"], evs[i]["first"] = 1, "seeded"
			return evs, true
		}},
	}
}

func c09TraceSelfTest(c *core.Ctx) error {
	golden, err := c09LoadGolden()
	if err != nil {
		return fmt.Errorf("golden stream: %v", err)
	}
	mk := func(name string, evs []irev.J) *irev.Stream {
		s := &irev.Stream{Name: name}
		for _, e := range evs {
			s.Events = append(s.Events, irev.Ev{J: e})
		}
		return s
	}
	cors := c09Corruptions()
	streams := []*irev.Stream{mk("golden", deepCopy(golden))}
	for _, co := range cors {
		evs, ok := co.apply(deepCopy(golden))
		if !ok {
			return fmt.Errorf("corruption %q does not apply to the golden stream", co.name)
		}
		streams = append(streams, mk(co.name, evs))
	}
	res, err := c09RunTrace(c, streams)
	if err != nil {
		return err
	}
	if len(res[0]) != 0 {
		return fmt.Errorf("the golden stream is rejected: %+v", res[0])
	}
	for i, co := range cors {
		hit := false
		for _, v := range res[i+1] {
			if strings.Contains(v.Rule, co.expect) {
				hit = true
			}
		}
		if !hit {
			return fmt.Errorf("corrupted trace %q: rule %q not reported (got %+v)", co.name, co.expect, res[i+1])
		}
	}
	c.Cov["selftest_corrupted_traces_detected"] = len(cors)
	return nil
}

// ---- design level --------------------------------------------------------------------------------------------------------

var c09Faults = []string{"emit_literal", "emit_call_result", "double_emit", "use_before_emit", "missing_emit", "forward_handle",
	"wrong_type", "untyped", "dup_type", "abstract_literal", "missing_return", "return_novalue", "break_outside",
	"scope_leak", "store_type", "call_arg_count", "continue_in_continuing", "forward_type"}

func c09LowerCfg(faults string, depth2, probe bool) string {
	b := func(x bool) string {
		if x {
			return "TRUE"
		}
		return "FALSE"
	}
	return fmt.Sprintf("SPECIFICATION Spec\nCONSTANTS\n Faults = %s\n Depth2 = %s\n Probe = %s\nINVARIANTS Accepted Evaluated\nCHECK_DEADLOCK FALSE\n",
		faults, b(depth2), b(probe))
}

func c09Design(c *core.Ctx) error {
	var mu sync.Mutex
	var firstErr error
	fail := func(err error) {
		mu.Lock()
		if firstErr == nil {
			firstErr = err
		}
		mu.Unlock()
	}
	core.ParMap(2, 2, func(i int) {
		if i == 0 {
			// the lowerer as transcribed: every stream it emits, for every small program, is accepted
			r, err := c09TLC(c, core.TLCOpts{Spec: "IrLower", CfgText: c09LowerCfg("{}", !c.Quick(), false), Workers: min(4, core.Cores()), HeapGB: 4,
				Timeout: 20 * time.Minute, Coverage: !c.Quick()})
			if err != nil || !r.OK {
				fail(fmt.Errorf("IrLower.tla: the abstract lowerer is not accepted by the rules: %v %s %s\n%s", err, r.Violated, r.Err, r.Tail(30)))
				return
			}
			c.AddTLC(r)
			mu.Lock()
			c.Cov["design_states"] = r.Distinct
			mu.Unlock()
			return
		}
		// self-test: one behaviour family per seeded fault; each fault must be noticed on some program, and the
		// faultless lowerer on none
		var fs []string
		for _, f := range c09Faults {
			fs = append(fs, fmt.Sprintf("%q", f))
		}
		r, err := c09TLC(c, core.TLCOpts{Spec: "IrLower", CfgText: c09LowerCfg("{"+strings.Join(fs, ", ")+"}", false, true), Workers: 1, HeapGB: 2, Timeout: 10 * time.Minute})
		if err != nil || !r.OK {
			fail(fmt.Errorf("IrLower.tla self-test did not complete: %v %s %s\n%s", err, r.Violated, r.Err, r.Tail(20)))
			return
		}
		seen := map[string]bool{}
		for _, l := range r.Printed {
			var rec struct {
				Fault    string `json:"fault"`
				Detected bool   `json:"detected"`
			}
			if json.Unmarshal([]byte(l), &rec) != nil {
				continue
			}
			if rec.Fault == "none" && rec.Detected {
				fail(fmt.Errorf("IrLower.tla self-test: the faultless lowerer is rejected"))
				return
			}
			if rec.Detected {
				seen[rec.Fault] = true
			}
		}
		detected := 0
		for _, f := range c09Faults {
			if !seen[f] {
				fail(fmt.Errorf("IrLower.tla self-test: seeded fault %s is not rejected by any rule (vacuous rule?)", f))
				return
			}
			detected++
		}
		mu.Lock()
		c.Cov["selftest_faults_detected"] = detected
		mu.Unlock()
	})
	return firstErr
}

// ---- monitored modules ---------------------------------------------------------------------------------------------------

var c09StageMu sync.Mutex

// c09Stages lowers src again with the stage hook and returns the event stream after every lowering stage.
func c09Stages(name, src string) (stages []string, streams []*irev.Stream) {
	c09StageMu.Lock()
	defer c09StageMu.Unlock()
	wgsl.VerifSetLowerStageHook(func(stage string, m *ir.Module) {
		s := irev.Events(name+"@"+stage, m, nil)
		stages = append(stages, stage)
		streams = append(streams, &s)
	})
	defer wgsl.VerifSetLowerStageHook(nil)
	func() {
		defer func() { _ = recover() }()
		if ast, err := naga.Parse(src); err == nil {
			_, _ = naga.LowerWithSource(ast, src)
		}
	}()
	return
}

// c09Reorder lowers src under the stage hook and reports whether ir.ReorderTypes really permuted the type arena and
// whether some function records an inline pointer type whose pointee is one of the moved arena entries (the situation
// in which a stale handle inside an inline resolution becomes visible).
func c09Reorder(src string) (permuted, movedPointee bool) {
	c09StageMu.Lock()
	defer c09StageMu.Unlock()
	sig := func(t ir.Type) string {
		switch in := t.Inner.(type) {
		case ir.ScalarType, ir.VectorType, ir.MatrixType, ir.AtomicType:
			return fmt.Sprintf("%s|%T%v", t.Name, in, in)
		}
		return fmt.Sprintf("%s|%T", t.Name, t.Inner)
	}
	var before []string
	wgsl.VerifSetLowerStageHook(func(stage string, m *ir.Module) {
		switch stage {
		case "CompactTypes":
			for _, t := range m.Types {
				before = append(before, sig(t))
			}
		case "ReorderTypes":
			if len(before) != len(m.Types) {
				return
			}
			moved := make([]bool, len(m.Types))
			for i, t := range m.Types {
				if sig(t) != before[i] {
					moved[i] = true
					permuted = true
				}
			}
			if !permuted {
				return
			}
			look := func(f *ir.Function) {
				for _, tr := range f.ExpressionTypes {
					if p, ok := tr.Value.(ir.PointerType); ok && tr.Handle == nil && int(p.Base) < len(moved) && moved[p.Base] {
						movedPointee = true
					}
				}
			}
			for i := range m.Functions {
				look(&m.Functions[i])
			}
			for i := range m.EntryPoints {
				look(&m.EntryPoints[i].Function)
			}
		}
	})
	defer wgsl.VerifSetLowerStageHook(nil)
	func() {
		defer func() { _ = recover() }()
		if ast, err := naga.Parse(src); err == nil {
			_, _ = naga.LowerWithSource(ast, src)
		}
	}()
	return
}

func c09Sig(mod *c09Mod, v c09Verdict) string {
	d := c09Describe(mod, v.L, v)
	return d["rule"] + "|" + d["fn"] + "|" + d["shape"]
}

func c09Modules(c *core.Ctx, rng *rand.Rand) ([]*c09Mod, error) {
	var mods []*c09Mod
	names, texts := corpusSources()
	if len(texts) < 50 {
		return nil, fmt.Errorf("corpus not found under %s", core.RepoDir)
	}
	perm := rng.Perm(len(texts))
	ncorpus := c.Pick(24, len(texts))
	if s := os.Getenv("C09_CORPUS"); s != "" { // development aid
		fmt.Sscan(s, &ncorpus)
		c.Assumef("development run: C09_CORPUS=%s", s)
	}
	for _, p := range perm[:ncorpus] {
		mods = append(mods, &c09Mod{Name: names[p], Family: "corpus", Src: texts[p]})
	}
	for i, s := range sessionExtraSources {
		mods = append(mods, &c09Mod{Name: fmt.Sprintf("extra%d", i), Family: "extra", Src: s})
	}
	// table families (operators x type shapes, conversions, builtins, matrix arithmetic)
	sem := semanticFamilies(c)
	sp := rng.Perm(len(sem))
	nsem := c.Pick(12, len(sem))
	if nsem > len(sem) {
		nsem = len(sem)
	}
	for _, p := range sp[:nsem] {
		mods = append(mods, &c09Mod{Name: "sem:" + sem[p].Desc, Family: "sem:" + sem[p].Family, Src: wg.Print(sem[p].Prog)})
	}
	// control-flow skeletons enumerated by TLC (CtlGen.tla)
	var shards []int
	if c.Quick() {
		shards = []int{int(c.Seed) % 16}
	} else {
		for i := 0; i < 16; i++ {
			shards = append(shards, i)
		}
	}
	var ctl []*SemCase
	for len(shards) > 0 { // at most core.Cores() TLC processes at a time
		n := min(len(shards), core.Cores())
		part, err := ctlCases(c, 3, 16, shards[:n])
		if err != nil {
			return nil, fmt.Errorf("control-flow family: %v", err)
		}
		ctl = append(ctl, part...)
		shards = shards[n:]
	}
	cp := rng.Perm(len(ctl))
	nctl := c.Pick(10, len(ctl))
	if nctl > len(ctl) {
		nctl = len(ctl)
	}
	for _, p := range cp[:nctl] {
		mods = append(mods, &c09Mod{Name: "ctl:" + ctl[p].Desc, Family: "ctl", Src: wg.Print(ctl[p].Prog)})
	}
	c.Cov["ctl_programs"] = nctl
	// random programs
	nrand := c.Pick(14, 1500)
	if s := os.Getenv("C09_RAND"); s != "" { // development aid
		fmt.Sscan(s, &nrand)
		c.Assumef("development run: C09_RAND=%s", s)
	}
	for i := 0; i < nrand; i++ {
		src, _ := RandModule(rng)
		mods = append(mods, &c09Mod{Name: fmt.Sprintf("rand:%d/%d", c.Seed, i), Family: "rand", Src: src})
	}
	// modules built around type aliases (declared before and after use, the aliased type also spelled directly) and
	// around IO attribute lists in both orders, every second one with a dual-source (@blend_src) fragment output
	nio := c.Pick(12, 400)
	for i := 0; i < nio; i++ {
		opts := RandOpts{Aliases: true, Dual: i%2 == 0, AttrLast: i%4 == 0, Stages: []string{[]string{"vertex", "fragment", "compute"}[i%3]}}
		src, _ := RandModuleWith(rng, opts)
		mods = append(mods, &c09Mod{Name: fmt.Sprintf("aliasio:%d/%d", c.Seed, i), Family: "aliasio", Src: src})
	}
	return mods, nil
}

func runC09(tier, replay string) int {
	c := core.NewCtx("C09", tier, "model_checking")
	c09Sem = make(chan struct{}, core.Cores())
	c.Cov["rule"] = "IrValid.tla is a rule automaton over the event stream of an IR module (one event per type / constant / override / global / global expression / function / local / expression / statement). Design level: IrLower.tla, an abstract lowerer with naga's emitter protocol, is model-checked over all small programs (every stream it emits must be accepted) and each seeded fault must be rejected. Binding: every monitored WGSL module (corpus shaders, operator/conversion/builtin/matrix table families, TLC-enumerated control-flow skeletons, seeded random modules with helpers, pointers, atomics, textures and all three classic stages) is lowered by the real naga, the returned *ir.Module is turned into events and TLC evaluates every rule at every event (IrTrace.tla), including an independent type inference in TLA+ compared with ExpressionTypes and ir.Validate's own verdict. A case is one module; non-trivial if it has at least one emitted expression; distinct by source text. Verdicts are attributed to a lowering stage through the stage hook."
	c.Assumef("upstream naga's valid:: rules and typifier as transcribed in spec/IrValid.tla (the header lists what is left out)")
	rng := rand.New(rand.NewSource(c.Seed))

	// design level + self-tests run while the modules are prepared
	var wgDesign sync.WaitGroup
	var designErr, selfErr error
	wgDesign.Add(2)
	if os.Getenv("C09_DEV") != "" { // development aid: monitored modules only
		c.Assumef("development run: design-level check and self-tests skipped (C09_DEV)")
		wgDesign.Add(-2)
	} else {
		go func() { defer wgDesign.Done(); designErr = c09Design(c) }()
		go func() { defer wgDesign.Done(); selfErr = c09TraceSelfTest(c) }()
	}

	mods, err := c09Modules(c, rng)
	if err != nil {
		wgDesign.Wait()
		c.BrokenF("%v", err)
		return c.Finish()
	}
	// lower + extract
	var live []*c09Mod
	var mu sync.Mutex
	skipped := 0
	core.ParMap(len(mods), core.Cores(), func(i int) {
		mod := mods[i]
		m, stage, err := drive.Front(mod.Src)
		if err != nil {
			msg := err.Error()
			if len(msg) > 60 {
				msg = msg[:60]
			}
			c.Skip("front end rejects the module (" + stage + "): " + mod.Family)
			mu.Lock()
			skipped++
			mu.Unlock()
			_ = msg
			return
		}
		mod.stream = irev.Events(mod.Name, m, c09Validate)
		if mod.stream.Skip != "" {
			c.Skip("extractor: " + mod.stream.Skip)
			mu.Lock()
			skipped++
			mu.Unlock()
			return
		}
		mod.idx = c09BuildIndex(&mod.stream)
	})
	npermuted, nmoved, ndual := 0, 0, 0
	for _, mod := range mods {
		if mod.idx != nil {
			live = append(live, mod)
			if mod.Family == "rand" || mod.Family == "aliasio" {
				p, mv := c09Reorder(mod.Src)
				if p {
					npermuted++
				}
				if mv {
					nmoved++
				}
				if strings.Contains(mod.Src, "@blend_src(1) @location(0)") {
					ndual++
				}
			}
		}
	}
	c.Cov["modules_where_ReorderTypes_permutes_the_arena"] = npermuted
	c.Cov["modules_with_an_inline_pointer_type_to_a_moved_arena_entry"] = nmoved
	c.Cov["modules_with_blend_src_written_before_location"] = ndual
	if os.Getenv("C09_RAND") == "" && (nmoved == 0 || ndual == 0) { // vacuity guard for the handle-renumbering and IO-binding rules
		c.BrokenF("generated modules do not exercise type reordering (%d permuted, %d with a moved pointee) or dual-source IO (%d)", npermuted, nmoved, ndual)
	}
	if skipped*3 > len(mods) {
		c.BrokenF("%d of %d modules could not be judged", skipped, len(mods))
	}
	// shards balanced by event count
	nsh := min(c.Pick(6, 16), core.Cores())
	if nsh > len(live) {
		nsh = len(live)
	}
	order := make([]int, len(live))
	for i := range order {
		order[i] = i
	}
	sort.Slice(order, func(a, b int) bool { return len(live[order[a]].stream.Events) > len(live[order[b]].stream.Events) })
	shards := make([][]int, nsh)
	load := make([]int, nsh)
	for _, i := range order {
		best := 0
		for s := range load {
			if load[s] < load[best] {
				best = s
			}
		}
		shards[best] = append(shards[best], i)
		load[best] += len(live[i].stream.Events)
	}
	verdicts := make([][]c09Verdict, len(live))
	var runErr error
	core.ParMap(nsh, nsh, func(s int) {
		var ss []*irev.Stream
		for _, i := range shards[s] {
			ss = append(ss, &live[i].stream)
		}
		res, err := c09RunTrace(c, ss)
		if err != nil {
			mu.Lock()
			if runErr == nil {
				runErr = err
			}
			mu.Unlock()
			return
		}
		for k, i := range shards[s] {
			verdicts[i] = res[k]
		}
	})
	wgDesign.Wait()
	if designErr != nil {
		c.BrokenF("%v", designErr)
	}
	if selfErr != nil {
		c.BrokenF("IrTrace self-test: %v", selfErr)
	}
	if runErr != nil {
		c.BrokenF("trace validation: %v", runErr)
		return c.Finish()
	}

	// evidence counters
	events := 0
	kinds := map[string]int{}
	fam := map[string]int{}
	for i, mod := range live {
		events += len(mod.stream.Events)
		emits := 0
		for _, e := range mod.stream.Events {
			kinds[e.What]++
			if e.What == "Emit" {
				emits++
			}
		}
		h := sha256.Sum256([]byte(mod.Src))
		c.Eval(hex.EncodeToString(h[:]), emits > 0)
		f := mod.Family
		if k := strings.Index(f, ":"); k > 0 {
			f = f[:k]
		}
		fam[f]++
		if i%(len(live)/5+1) == 0 {
			c.Sample(map[string]any{"module": mod.Name, "family": mod.Family, "events": len(mod.stream.Events), "verdicts": len(verdicts[i])})
		}
	}
	c.Traces = len(live)
	c.Programs = len(live)
	c.Cov["events"] = events
	c.Cov["event_kinds"] = kinds
	c.Cov["modules_by_family"] = fam

	// stage attribution for the modules with verdicts
	type attrib struct{ first map[string]string }
	attr := make([]map[string]string, len(live))
	var bad []int
	for i := range live {
		if len(verdicts[i]) > 0 {
			bad = append(bad, i)
		}
	}
	maxAttr := c.Pick(40, 400)
	if len(bad) > 0 {
		var ss []*irev.Stream
		type ref struct {
			mod   int
			stage string
		}
		var refs []ref
		todo := bad
		if len(todo) > maxAttr {
			todo = todo[:maxAttr]
		}
		for _, i := range todo {
			st, sts := c09Stages(live[i].Name, live[i].Src)
			for k := range st {
				if sts[k].Skip != "" {
					continue
				}
				ss = append(ss, sts[k])
				refs = append(refs, ref{i, st[k]})
			}
		}
		if len(ss) > 0 {
			nsh := min(c.Pick(4, 16), core.Cores())
			if nsh > len(ss) {
				nsh = len(ss)
			}
			res := make([][]c09Verdict, len(ss))
			var aerr error
			core.ParMap(nsh, nsh, func(s int) {
				var part []*irev.Stream
				var at []int
				for k := s; k < len(ss); k += nsh {
					part = append(part, ss[k])
					at = append(at, k)
				}
				r, err := c09RunTrace(c, part)
				if err != nil {
					mu.Lock()
					aerr = err
					mu.Unlock()
					return
				}
				for k, a := range at {
					res[a] = r[k]
				}
			})
			if aerr != nil {
				c.Assumef("stage attribution unavailable in this run: %v", aerr)
			} else {
				for k, r := range refs {
					tmp := &c09Mod{Name: live[r.mod].Name, Family: live[r.mod].Family, stream: *ss[k]}
					tmp.idx = c09BuildIndex(&tmp.stream)
					if attr[r.mod] == nil {
						attr[r.mod] = map[string]string{}
					}
					for _, v := range res[k] {
						sig := c09Sig(tmp, v)
						if _, seen := attr[r.mod][sig]; !seen {
							attr[r.mod][sig] = r.stage
						}
					}
				}
			}
		}
	}

	// consequences of an ill-formed constant composite travel through declared types (a local whose type was inferred
	// from the mistyped initialiser, a module constant used in several functions): typing verdicts in a function that
	// contains such a root verdict - or in any function of a module whose module-scope arena has one - carry
	// desc["tainted"] = "constfold", so that the known finding for the constant evaluator can name them
	constRoot := func(rule string) bool {
		return strings.HasPrefix(rule, "Compose components do not fit") || strings.HasPrefix(rule, "global expression:") ||
			strings.HasPrefix(rule, "constant: initialiser type differs")
	}
	typingRule := func(rule string) bool {
		for _, p := range []string{"expression has no recorded type", "operand types not admissible", "recorded type differs", "stored value type differs",
			"returned value type differs", "call: argument type differs", "local variable: initialiser type differs", "Compose components do not fit"} {
			if strings.HasPrefix(rule, p) {
				return true
			}
		}
		return false
	}
	// report
	cascades := 0
	defer func() { c.Cov["verdicts_following_from_an_untyped_operand"] = cascades }()
	for _, i := range bad {
		mod := live[i]
		taintedFn := map[int]bool{}
		fwdFn := map[int]bool{} // functions with a Compose whose components were appended after it (it is never emitted)
		taintedMod := false
		for _, v := range verdicts[i] {
			if strings.HasPrefix(v.Rule, "operand handle refers forward") && mod.stream.Events[v.L].What == "Compose" {
				fwdFn[mod.idx.fnOf[v.L]] = true
			}
			if constRoot(v.Rule) {
				if f := mod.idx.fnOf[v.L]; f >= 0 {
					taintedFn[f] = true
				} else {
					taintedMod = true
				}
			}
		}
		for _, v := range verdicts[i] {
			if strings.HasPrefix(v.Rule, "harness:") {
				c.BrokenF("%s: event %d: %s", mod.Name, v.L, v.Rule)
				continue
			}
			d := c09Describe(mod, v.L, v)
			if d["cascade"] == "yes" {
				cascades++
				continue
			}
			d["tainted"] = "-"
			if f := mod.idx.fnOf[v.L]; f >= 0 && typingRule(v.Rule) && !constRoot(v.Rule) && (taintedMod || taintedFn[f]) {
				d["tainted"] = "constfold"
			}
			if (strings.HasPrefix(v.Rule, "operand of an emitted expression is not in scope") || strings.HasPrefix(v.Rule, "statement operand is not in scope")) && fwdFn[mod.idx.fnOf[v.L]] {
				d["tainted"] = "forward-compose"
			}
			if attr[i] != nil {
				if st, ok := attr[i][d["rule"]+"|"+d["fn"]+"|"+d["shape"]]; ok {
					d["stage"] = st
				} else {
					d["stage"] = "after-last-stage"
				}
			}
			c.Disagree++
			evj, _ := json.Marshal(mod.stream.Events[v.L].J)
			what := fmt.Sprintf("%s [%s %s %s%s] in %s, function %q (first seen after stage %s)", v.Rule, d["shape"],
				d["detail"], d["types"], func() string {
					if d["usedby"] != "" {
						return " used by " + d["usedby"]
					}
					return ""
				}(), mod.Name, d["fn"], d["stage"])
			c.Report(what, d, map[string]any{"name": mod.Name, "family": mod.Family, "source": mod.Src, "event": json.RawMessage(evj), "handle": v.H, "rule": v.Rule})
		}
	}
	return c.Finish()
}
