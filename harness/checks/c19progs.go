package checks

// c19Tricky are valid WGSL programs written for the adjacencies the property names: template lists closed by
// `>` next to `>`, `=`, `>=`; `>>=`, `>=`, `>>`, `<`, `<<` as operators; `-` `-`, `/` `*`, `&` `&`; numbers next
// to `.`, suffixes and exponents with signs; trailing commas already present; non-ASCII identifiers; comments
// of every kind already in the text.
var c19Tricky = []string{
	// 0: template closers next to each other and next to `=`
	`struct S { a: array<vec2<f32>, 2>, b: vec3<u32> }
var<private> g: array<vec2<f32>,2> =array<vec2<f32>,2>(vec2<f32>(1.0,2.0),vec2<f32>(3.0,4.0));
var<private> h: array<array<vec4<i32>,2>,2>;
@group(0) @binding(0) var<storage, read_write> o: array<f32, 8>;
fn pick(p: ptr<function, array<vec2<f32>, 2>>, i: i32) -> vec2<f32> { return (*p)[i]; }
@compute @workgroup_size(1)
fn main() {
  var l: array<vec2<f32>,2> = g;
  let v: vec2<f32> =pick(&l, 1);
  var k: vec2<i32> = vec2<i32>(h[1][0].xy);
  let w = array<vec2<u32>, 1 << 1>(vec2<u32>(1u, 2u), vec2<u32>(3u, 4u));
  let c = bitcast<vec2<u32>>(v);
  k.x >>= 1u;
  k.y <<= 2u;
  let ge = k.x >= k.y;
  let sh = (k.x >> 1u) + (k.y << 1u);
  let lt = k.x < k.y;
  o[0] = v.x + f32(sh) + f32(w[1].y) + f32(c.x & 1u) + select(0.0, 1.0, ge) + select(0.0, 2.0, lt);
}
`,
	// 1: operators that would fuse, unary chains, pointers
	`@group(0) @binding(0) var<storage, read_write> o: array<i32, 8>;
fn f(p: ptr<function, i32>, q: ptr<function, i32>) -> i32 { return *p / *q + *p * *q - -*q; }
@compute @workgroup_size(1)
fn main() {
  var a: i32 = 7; var b: i32 = 3;
  let c = a - -b;
  let d = a - - -b;
  let e = a & b & 1;
  let t = (a > b) && (b > 0) || !(a < b);
  let u = !!t;
  let n = ~ ~a;
  a--; b++;
  a -= 1; b += 1; a *= 2; b /= 1; a %= 5; a |= 1; a &= 7; a ^= 2;
  let r = f(&a, &b);
  let m = a / b * c % 4;
  let z = (a<b) == (c>d);
  o[0] = c + d + e + r + m + n + select(0, 1, u) + select(0, 1, z);
  o[1] = a+b-c*d/e;
  o[2] = a<<1u>>1u;
}
`,
	// 2: numbers
	`@group(0) @binding(0) var<storage, read_write> o: array<f32, 8>;
const K = 0x10u;
const H = 0x1Fi;
@compute @workgroup_size(1)
fn main() {
  let a = 1.0f+2.0;
  let b = 1e3 + 1e-3f + 1.5e+2 - 2.0E0;
  let c = 3 -1;
  let d = 3-1;
  let e = vec2<f32>(1., 0.5).x;
  let g = 1f + 2.0f * 0.0;
  let h = 1.5e0 + 0.5;
  let i = 4u+K;
  let j = vec3<f32>(1.0, 2.0, 3.0).zyx.x;
  let k = 1 ;
  o[0] = a + b + f32(c) + f32(d) + e + g + h + f32(i) + j + f32(H);
  o[1] = f32(k);
}
`,
	// 3: trailing commas already present, attributes, switch selectors, struct with semicolon
	`struct P { @align(16) a: vec3<f32>, @size(16) b: f32, c: array<i32, 4,>, };
@group(0) @binding(0,) var<storage, read_write> o: array<i32, 8,>;
@group(0) @binding(1) var<uniform> u: P;
const N: i32 = 2;
override scale: i32 = 2;
fn g(x: i32, y: i32,) -> i32 { return max(x, y,); }
@compute @workgroup_size(2, 1,)
fn main(@builtin(local_invocation_index) li: u32, @builtin(global_invocation_id,) gid: vec3<u32>,) {
  var acc = 0;
  for (var i = 0; i < 4; i++) {
    switch i {
      case 0, 1,: { acc += g(i, N,); }
      case 2: { continue; }
      default: { acc -= 1; }
    }
  }
  switch acc { case 1 { acc = 2; } default { } }
  loop { if acc > 10 { break; } acc += 3; continuing { acc += 1; break if acc > 20; } }
  while acc > 0 { acc -= 7; }
  o[li] = acc * scale + u.c[1] + i32(u.a.x + u.b) + i32(gid.x);
}
`,
	// 4: non-ASCII identifiers, comments of every kind in the original text
	"/* header /* nested */ still comment */\n" +
		"// line comment with \"quotes\" and /* an opener\r\n" +
		"struct Données { valeur: f32, /* inline */ 名前: i32 } // trailing\n" +
		"@group(0) @binding(0) var<storage, read_write> sortie: array<f32, 4>;\n" +
		"fn Δ(α: f32, β: f32) -> f32 { return α /* mid */ - β; }\n" +
		"@compute @workgroup_size(1)\n" +
		"fn main() {\n" +
		"\tvar d: Données = Données(1.5, 2); /* * / */\n" +
		"\tlet r = Δ(d.valeur, f32(d.名前)); //\n" +
		"\tsortie[0] = r; /***/ sortie[1] = d.valeur;\n" +
		"}\n" +
		"// last line without a line break",
	// 5: render stages, textures, builtin structures, let shadowing
	`struct VO { @builtin(position) pos: vec4<f32>, @location(0) @interpolate(flat) id: u32, @location(1) uv: vec2<f32> }
@group(0) @binding(0) var t: texture_2d<f32>;
@group(0) @binding(1) var s: sampler;
@group(0) @binding(2) var<uniform> m: mat4x4<f32>;
@vertex fn vs(@location(0) p: vec3<f32>, @builtin(vertex_index) vi: u32) -> VO {
  var out: VO;
  out.pos = m * vec4<f32>(p, 1.0);
  out.id = vi;
  out.uv = p.xy * 0.5 + vec2<f32>(0.5);
  return out;
}
@fragment fn fs(i: VO) -> @location(0) vec4<f32> {
  let c = textureSample(t, s, i.uv);
  let fr = frexp(c.x);
  let md = modf(c.y);
  if c.a < 0.5 { discard; }
  var r = c;
  { let c = r * 2.0; r = c; }
  return r * fr.fract + vec4<f32>(md.whole) + vec4<f32>(f32(i.id));
}
`,
	// 6: aliases, const expressions in templates and attributes, atomics, workgroup memory
	`alias V = vec4<f32>;
alias A = array<V, 2>;
const W: u32 = 4u;
const M = W * 2u;
struct C { n: atomic<u32>, d: array<u32> }
@group(0) @binding(0) var<storage, read_write> c: C;
var<workgroup> wg: array<atomic<i32>, M>;
var<workgroup> tile: array<array<f32, W>, W>;
fn sum(a: A) -> f32 { return a[0].x + a[1].w; }
@compute @workgroup_size(W, 2, 1)
fn main(@builtin(local_invocation_id) lid: vec3<u32>) {
  let old = atomicAdd(&c.n, 1u);
  atomicStore(&wg[lid.x], i32(old));
  tile[lid.x][lid.y] = sum(A(V(1.0), V(2.0)));
  workgroupBarrier();
  let x = atomicLoad(&wg[(lid.x + 1u) % M]);
  let r = atomicCompareExchangeWeak(&c.n, old, u32(x));
  if r.exchanged { c.d[lid.x] = r.old_value + arrayLength(&c.d); }
  const_assert M == 8u;
}
`,
}

// c19Invalid are programs that must be rejected, before and after every neutral edit.
var c19Invalid = []string{
	`fn f() -> i32 { return 1.5; }`,
	`fn f() { let a = b; }`,
	`fn f() { var x: i32 = 1 }`,
	`@compute @workgroup_size(1) fn main() { var a: i32 = 1; a = true; }`,
	`struct S { a: i32 } fn f(s: S) -> f32 { return s.b; }`,
	`fn f(x: i32) -> i32 { return x + ; }`,
	`fn f() { g(); }`,
	`var<private> a: i32 = 1; var<private> a: i32 = 2;`,
	`fn f() { let x: vec2<f32> = vec3<f32>(1.0, 2.0, 3.0); }`,
	`fn f() { if 1 { } }`,
}

// c19Tiny are small valid programs on which TLC enumerates EVERY single neutral edit at every token boundary.
var c19Tiny = []string{
	"var<private> a: array<vec2<f32>,2> = array<vec2<f32>,2>();\nfn m() -> bool { return a[1].y >= 2.0; }\n",
	"fn g(p: ptr<function, vec2<i32>>) -> i32 { (*p).x >>= 1u; return 3 - -(*p).y; }\n",
	"fn h(i: i32, o: f32) -> f32 { if i < 2 && o > 0.5e0 { return o * 1e1 + f32(i << 1u); } return o / 2.0; }\n",
	"struct S { a: i32, b: f32 }\nfn m(s: S) -> f32 { return f32(s.a) + s.b / 1.5; // end\n}\n",
	"fn k(x: i32) -> i32 { var r = x; switch r { case 1, 2: { r--; } default: { r = max(r, 2); } } return r; }\n",
	"@fragment fn fs(@location(0) c: vec3<f32>) -> @location(0) vec4<f32> { return vec4<f32>(c /* m */ * 2.0, 1.0); }\n",
}
