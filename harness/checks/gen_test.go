package checks

import (
	"fmt"
	"math/rand"
	"testing"
	"time"

	"verif/harness/core"
	"verif/harness/drive"
	"verif/harness/gen"
	"verif/harness/wg"
)

func TestBinOpsSpec(t *testing.T) {
	c := core.NewCtx("DEMO", "quick", "other")
	rng := rand.New(rand.NewSource(1))
	cases := gen.UnOpsConv(rng, 12)
	cases = append(cases, gen.Builtins(rng, 12)...)
	cases = append(cases, gen.MatOps(rng, 6)...)
	var sc []*SemCase
	for _, g := range cases {
		sc = append(sc, &SemCase{Family: g.Family, Desc: g.Desc, Prog: g.Prog, Inputs: g.Inputs})
	}
	rej := 0
	for _, s := range sc {
		src := wg.Print(s.Prog)
		if _, stage, err := drive.Front(src); err != nil {
			rej++
			if rej < 5 {
				fmt.Println("REJECTED", s.Desc, stage, err, "\n", src)
			}
		}
	}
	fmt.Println("programs:", len(sc), "rejected:", rej)
	t0 := time.Now()
	if err := EvalSpec(c, sc, 8); err != nil {
		t.Fatal(err)
	}
	fmt.Println("spec eval:", time.Since(t0))
	und := map[string]int{}
	rows := 0
	for _, s := range sc {
		for _, r := range s.Expect {
			rows++
			if !r.OK {
				und[r.Why]++
			}
		}
	}
	fmt.Println("rows:", rows, "abandoned:", und)
	fmt.Println(wg.Print(sc[7].Prog), sc[7].Inputs[0], sc[7].Expect[0])
}
