package checks

// C15 - generated code has no reachable undefined behaviour on hostile data.
//
// The specification is spec/Policy.tla (hardened operators, bounds-check policies as a parameter of WgslSem's access
// rule, and the access rules R1..R5).  This file generates the Policy family (harness/gen/policy*.go), compiles every
// program with the protective option sets of the backends (harness/drive/c15opts.go), executes the emitted code on the
// trapping executors with access tracing, writes the executions as an event trace and lets TLC validate every event
// against Policy.tla; TLC's per-run verdicts (`bad`) are the only source of violations.

import (
	"bytes"
	"encoding/json"
	"fmt"
	"math/rand"
	"os"
	"regexp"
	"sort"
	"strings"
	"sync"
	"sync/atomic"
	"time"

	"github.com/gogpu/naga/ir"

	"verif/harness/core"
	"verif/harness/drive"
	"verif/harness/gen"
	"verif/harness/wg"
	"verif/harness/xrt"
)

func init() { Registry["C15"] = runC15 }

// c15Run is one execution of emitted code.
type c15Run struct {
	id      int
	cs      *gen.PolicyCase
	row     int
	be, pol string
	art     []byte
	out     xrt.Outcome
	words   [][]int32 // final words per global ([] for non-buffers)
	acc     []c15Acc
	trap    string
}

type c15Acc struct {
	G, Off, Size, W int
	Fix             int // 1: the same access occurs in every completed execution of the same emitted code (index-independent)
}

// c15MarkFixed marks the accesses that occur in every completed (not trapped) run of one (program, backend, option set).
func c15MarkFixed(runs []*c15Run) {
	type key struct{ g, off, size, w int }
	n := 0
	cnt := map[key]int{}
	for _, r := range runs {
		if r.trap != "" {
			continue
		}
		n++
		seen := map[key]bool{}
		for _, a := range r.acc {
			k := key{a.G, a.Off, a.Size, a.W}
			if !seen[k] {
				seen[k] = true
				cnt[k]++
			}
		}
	}
	if n < 2 {
		return // nothing to compare with: every access stays subject to R2
	}
	for _, r := range runs {
		for i := range r.acc {
			a := &r.acc[i]
			if cnt[key{a.G, a.Off, a.Size, a.W}] == n {
				a.Fix = 1
			}
		}
	}
}

// c15Verdict is one entry of TLC's `bad`.
type c15Verdict struct {
	L    int       `json:"l"`
	ID   int       `json:"id"`
	Rule string    `json:"rule"`
	Exp  [][]int32 `json:"exp"`
	Mask [][]int32 `json:"mask"`
}

// c15Compiled caches the compilation of one program for one (backend, option set).
type c15Compiled struct {
	art    []byte
	entry  string
	wgSize [3]uint32
	err    string
}

func c15Compile(cs *gen.PolicyCase, be, pol string) c15Compiled {
	src := c15Src(cs)
	m, stage, err := drive.Front(src)
	if err != nil {
		return c15Compiled{err: fmt.Sprintf("front end rejected the program at %s (judged by C08)", stage)}
	}
	entry := "main"
	wgSize := [3]uint32{1, 1, 1}
	found := false
	for _, ep := range m.EntryPoints {
		if ep.Stage == ir.StageCompute && (cs.Entry == "" || ep.Name == cs.Entry) {
			entry, wgSize, found = ep.Name, ep.Workgroup, true
			break
		}
	}
	if !found {
		return c15Compiled{err: "entry point " + cs.Entry + " not in the lowered module (judged by C08)"}
	}
	art, err := drive.CompileProtective(be, pol, m, entry)
	if err != nil {
		return c15Compiled{err: fmt.Sprintf("%s backend returned an error (judged by C08)", be)}
	}
	emitted := target{Name: be}.entryName(art, entry)
	if cs.Entry != "" {
		emitted = c15EntryName(be, art, entry)
	}
	return c15Compiled{art: art, entry: emitted, wgSize: wgSize}
}

// c15Src is the WGSL text naga compiles (modules with several entry points print all of them).
func c15Src(cs *gen.PolicyCase) string {
	if cs.Source != nil {
		return wg.Print(cs.Source)
	}
	return wg.Print(cs.Prog)
}

// c15EntryName finds the name a given WGSL entry point has in the emitted text (naga appends `_` to reserved words).
func c15EntryName(be string, art []byte, name string) string {
	var pat string
	switch be {
	case "msl":
		pat = `kernel\s+void\s+(%s_*)\s*\(`
	case "hlsl":
		pat = `\]\s*void\s+(%s_*)\s*\(`
	default:
		return name
	}
	if m := regexp.MustCompile(fmt.Sprintf(pat, regexp.QuoteMeta(name))).FindSubmatch(art); m != nil {
		return string(m[1])
	}
	return name
}

// c15Exec runs one row and returns the run record (nil + reason when the executor cannot judge).
func c15Exec(cs *gen.PolicyCase, row int, be, pol string, cc c15Compiled) (*c15Run, string) {
	t := target{Name: be}
	globals := wg.L(cs.Prog, "globals")
	in := xrt.Input{Entry: cc.entry, Buffers: map[string][]byte{}, NumWorkgroups: [3]uint32{1, 1, 1}, MaxSteps: 200000, TraceAccesses: true}
	slotG := map[string]int{}
	for gi, g := range globals {
		if sp := wg.S(g, "space"); sp == "storage" || sp == "uniform" {
			in.Buffers[t.slotFor(g)] = words2bytes(cs.Inputs[row][gi])
			slotG[t.slotFor(g)] = gi + 1
		}
	}
	out := t.exec(cc.art, cc.entry, cc.wgSize, in)
	if out.Skip != "" {
		return nil, be + " executor: " + trimReason(out.Skip)
	}
	r := &c15Run{cs: cs, row: row, be: be, pol: pol, art: cc.art, out: out, trap: out.Trap}
	for _, a := range out.Accesses {
		g, ok := slotG[a.Slot]
		if !ok {
			return nil, be + " executor: access to an unknown slot " + a.Slot
		}
		w := 0
		if a.Write {
			w = 1
		}
		off, size := a.Offset, a.Size
		// offsets travel as TLC integers
		if off < -(1<<30) || off > 1<<30 {
			off = 1 << 30
		}
		if size > 1<<20 {
			size = 1 << 20
		}
		r.acc = append(r.acc, c15Acc{G: g, Off: off, Size: size, W: w})
	}
	for _, g := range globals {
		if sp := wg.S(g, "space"); sp == "storage" || sp == "uniform" {
			r.words = append(r.words, bytes2words(in.Buffers[t.slotFor(g)]))
		} else {
			r.words = append(r.words, []int32{})
		}
	}
	return r, ""
}

// c15Group is the unit of the trace: one (program, row, policy combination) with the runs of every backend under it.
type c15Group struct {
	cs   *gen.PolicyCase
	row  int
	pol  string
	runs []*c15Run
}

// c15PolsFor lists, per policy combination of Policy.tla, the (backend, option set) pairs that select it for a case.
// spvIndexPolicies = false (quick tier, programs not shared with MSL): SPIR-V runs with its defaults only - its Index
// option is a known no-op, the RR / ZZ evaluations are spent where MSL shares them.
func c15PolsFor(cs *gen.PolicyCase, backends []string, spvIndexPolicies bool) map[string][][2]string {
	res := map[string][][2]string{}
	for _, be := range backends {
		opts := drive.ProtectiveOpts(be)
		if cs.Kind != "index" || (be == "spv" && !spvIndexPolicies) {
			opts = opts[:1] // operators and zero-initialisation do not depend on the index policy
		}
		for _, o := range opts {
			res[o] = append(res[o], [2]string{be, o})
		}
	}
	return res
}

// c15OutsideGLSL: the GLSL backend has no hardening of operators at all (no option and no unconditional wrapper: integer
// / and % are printed bare, conversions and shifts likewise), so the hostile operand classes are outside the property for
// GLSL (harness/docs/C15.md); rows of the plain class stay inside.
func c15OutsideGLSL(cs *gen.PolicyCase, row int, be string) bool {
	if be != "glsl" || cs.Kind != "op" {
		return false
	}
	for _, cl := range strings.Split(cs.RowClass[row], ",") {
		switch cl {
		case "div0", "minint/-1", "negoperand", "cnt>=32", "oor", "nan", "inf", "subnormal", "negfrac", "off+cnt>32":
			return true
		}
	}
	return false
}

// c15Excluded says whether a (case, backend) pair is outside what the check can judge, with the reason.
func c15Excluded(cs *gen.PolicyCase, be string) string {
	if be == "glsl" && cs.Space == "uniform" && strings.HasPrefix(cs.Form, "mat4x2") {
		return "GLSL lays out matCx2 in uniform blocks with std140 (known finding of C07); not a C15 matter"
	}
	return ""
}

func c15WriteTrace(groups []*c15Group) (cases, trace []byte, nEvents int) {
	var cb, tb bytes.Buffer
	progIdx := map[*gen.PolicyCase]int{}
	enc := func(b *bytes.Buffer, v any) {
		j, _ := json.Marshal(v)
		b.Write(j)
		b.WriteByte('\n')
	}
	for _, g := range groups {
		k, ok := progIdx[g.cs]
		if !ok {
			k = len(progIdx) + 1
			progIdx[g.cs] = k
			enc(&cb, map[string]any{"prog": g.cs.Prog, "inputs": g.cs.Inputs})
		}
		enc(&tb, map[string]any{"ev": "case", "k": k, "r": g.row + 1, "pol": g.pol})
		nEvents++
		for _, r := range g.runs {
			acc := make([][5]int, len(r.acc))
			for i, a := range r.acc {
				acc[i] = [5]int{a.G, a.Off, a.Size, a.W, a.Fix}
			}
			trap := 0
			if r.trap != "" {
				trap = 1
			}
			enc(&tb, map[string]any{"ev": "run", "id": r.id, "be": r.be, "opt": r.pol, "acc": acc, "trap": trap, "out": r.words})
			nEvents++
		}
	}
	return cb.Bytes(), tb.Bytes(), nEvents
}

const c15Cfg = "SPECIFICATION TSpec\nCHECK_DEADLOCK FALSE\n"

// c15Validate runs TLC on one shard and returns the verdicts.
func c15Validate(c *core.Ctx, groups []*c15Group) ([]c15Verdict, error) {
	cases, trace, n := c15WriteTrace(groups)
	r, err := c.RunTLC(core.TLCOpts{Spec: "Policy", CfgText: c15Cfg, Files: map[string][]byte{"cases.ndjson": cases, "trace.ndjson": trace},
		Timeout: 40 * time.Minute, HeapGB: 3})
	if err != nil {
		return nil, err
	}
	if !r.OK {
		ctx := ""
		if i := strings.Index(r.Out, "Error:"); i >= 0 {
			ctx = r.Out[i:]
			if len(ctx) > 1500 {
				ctx = ctx[:1500]
			}
		}
		return nil, fmt.Errorf("Policy.tla: %s %s\n%s\n...\n%s", r.Violated, r.Err, ctx, r.Tail(12))
	}
	c.AddTLC(r)
	if len(r.Printed) != 1 {
		return nil, fmt.Errorf("Policy.tla printed %d verdict lines, expected 1\n%s", len(r.Printed), r.Tail(20))
	}
	var res struct {
		Consumed int          `json:"consumed"`
		Bad      []c15Verdict `json:"bad"`
	}
	if err := json.Unmarshal([]byte(r.Printed[0]), &res); err != nil {
		return nil, fmt.Errorf("bad verdict line: %v: %.300s", err, r.Printed[0])
	}
	if res.Consumed != n {
		return nil, fmt.Errorf("Policy.tla consumed %d of %d events", res.Consumed, n)
	}
	return res.Bad, nil
}

// c15TextBackends are the three text backends; in the quick tier every index program runs on SPIR-V and on ONE of them.
var c15TextBackends = []string{"msl", "hlsl", "glsl"}

// c15Cases draws the programs of a tier.  Thorough: a seeded fraction of the index forms, every operator and zero-init
// program, all backends.  Quick: stratified - for every access shape three programs (seeded choice among its address
// space x operation x index type combinations), one for each text backend (assign: description -> text backend), so that
// every shape meets every backend on every seed; 24 operator programs, 10 single-entry zero-init programs and all
// multi-entry-point zero-init programs on all four backends.
func c15Cases(c *core.Ctx) (cases []*gen.PolicyCase, assign map[string]string) {
	rng := rand.New(rand.NewSource(c.Seed))
	filter := envOr("VERIF_C15_FILTER", "") // development: exactly the programs whose description contains the text
	var idx []gen.PolicyCase
	switch {
	case filter != "":
		idx = gen.PolicyIndexCases(rng, func(desc string) bool { return strings.Contains(desc, filter) })
	case !c.Quick() || envOr("VERIF_C15_BACKENDS", "") != "":
		frac := map[bool]float64{true: 0.035, false: 0.15}[c.Quick()]
		idx = gen.PolicyIndexCases(rng, func(desc string) bool {
			return rand.New(rand.NewSource(c.Seed*7919+int64(hashStr(desc)))).Float64() < frac
		})
	default:
		assign = map[string]string{}
		var shapes []string
		byShape := map[string][]gen.IndexDesc{}
		for _, d := range gen.PolicyIndexDescs() {
			if _, ok := byShape[d.Shape]; !ok {
				shapes = append(shapes, d.Shape)
			}
			byShape[d.Shape] = append(byShape[d.Shape], d)
		}
		key := func(d gen.IndexDesc) uint32 { return hashStr(fmt.Sprintf("%d/%s", c.Seed, d.Desc)) }
		for _, sh := range shapes {
			cands := byShape[sh]
			sort.Slice(cands, func(i, j int) bool { return key(cands[i]) < key(cands[j]) })
			used := map[string]bool{}
			for _, be := range c15TextBackends {
				tries := 0
				for _, d := range cands {
					if used[d.Desc] || tries >= 12 {
						continue
					}
					// a program the generator does not build, the backend rejects or the executor cannot run is no use here
					pcs := gen.PolicyIndexCases(rng, func(desc string) bool { return desc == d.Desc })
					if len(pcs) != 1 {
						continue
					}
					tries++
					pol := drive.ProtectiveOpts(be)[0]
					cc := c15Compile(&pcs[0], be, pol)
					if cc.err != "" {
						continue
					}
					row := 0
					for pcs[0].OOB[row] && row+1 < len(pcs[0].OOB) {
						row++
					}
					if r, _ := c15Exec(&pcs[0], row, be, pol, cc); r == nil || r.trap != "" {
						continue
					}
					used[d.Desc] = true
					assign[d.Desc] = be
					idx = append(idx, pcs[0])
					break
				}
			}
		}
	}
	ops := gen.PolicyOpCases(rng, c.Pick(10, 40))
	if c.Quick() && filter == "" {
		rng.Shuffle(len(ops), func(i, j int) { ops[i], ops[j] = ops[j], ops[i] })
		ops = ops[:24]
	}
	un := gen.PolicyUninitCases()
	if c.Quick() && filter == "" {
		// every multi-entry-point program, 10 of the others
		var multi, single []gen.PolicyCase
		for _, u := range un {
			if u.Entry != "" {
				multi = append(multi, u)
			} else {
				single = append(single, u)
			}
		}
		rng.Shuffle(len(single), func(i, j int) { single[i], single[j] = single[j], single[i] })
		un = append(single[:10], multi...)
	}
	for _, l := range [][]gen.PolicyCase{idx, ops, un} {
		for i := range l {
			cases = append(cases, &l[i])
		}
	}
	return cases, assign
}

func hashStr(s string) uint32 {
	h := uint32(2166136261)
	for i := 0; i < len(s); i++ {
		h = (h ^ uint32(s[i])) * 16777619
	}
	return h
}

func runC15(tier, replay string) int {
	c := core.NewCtx("C15", tier, "translation_validation")
	c.Cov["rule"] = "Policy family: every access form (array / vector / matrix column / matrix element / nested chains through struct-array-matrix-vector / through ptr parameters and let-bound pointers / value indexing / stores / compound assignment / ++ / atomics / run-time sized arrays with arrayLength / one index value at two levels of different extent) x address space (storage rw / storage read / uniform / workgroup / private / function) x index type (i32, u32) with index operands loaded from a buffer holding {0, len-1, len, len+1, -1, INT_MAX, INT_MIN, 2^28, 2^30, 2^29+1, len+60}; the hardened-operator grid (/ % << >> + - * /= %= neg abs i32(f32) u32(f32) dot extractBits insertBits, scalar and vector, on hostile operands); workgroup / private / function variables read before any write, also in modules with several entry points that reach the variable through helper chains (every entry point executed). Each program is compiled by the real naga with the backend's protective option sets, executed by the trapping executor of the target language with access tracing, and the execution (accesses, trap, final words) is validated event by event by TLC against spec/Policy.tla (rules R1 AccessInBuffer, R2 AccessInObject, R3 NoSkippedWrite, R4 NoTrap, R5 ResultWords). A case = (program, input row, backend, option set); non-trivial if it executed to a verdict; distinct by (backend, option set, program, row)."
	c.Assumef("WGSL hardened semantics and bounds-check policies as transcribed in spec/Policy.tla and spec/WgslSem.tla (Word32.tla, F32.tla self-tested against native arithmetic)")
	c.Assumef("the executors (harness/spv, glslx, hlslx, mslx) trap on every operation the target language leaves undefined (harness/docs/EXECUTORS.md)")
	// self-tests of the value layer and of Policy.tla's rules (Faults), side by side
	var stErr [3]error
	var stN [2]int
	core.ParMap(3, 3, func(i int) {
		switch i {
		case 0:
			stN[0], stErr[0] = SelfTestWord32(c)
		case 1:
			stN[1], stErr[1] = SelfTestF32(c)
		case 2:
			stErr[2] = c15SelfTest(c)
		}
	})
	for i, what := range []string{"Word32 self-test", "F32 self-test", "Policy.tla Faults self-test"} {
		if stErr[i] != nil {
			c.BrokenF("%s: %v", what, stErr[i])
			return c.Finish()
		}
	}
	c.Cov["word32_selftest_rows"], c.Cov["f32_selftest_rows"] = stN[0], stN[1]

	backends := []string{"spv", "hlsl", "msl", "glsl"}
	if b := strings.TrimSpace(envOr("VERIF_C15_BACKENDS", "")); b != "" {
		backends = strings.Split(b, ",")
	}
	c.Cov["backends"] = backends
	cases, assign := c15Cases(c)
	if assign != nil {
		per := map[string]int{}
		for _, be := range assign {
			per[be]++
		}
		c.Cov["quick_index_programs_per_text_backend"] = per
	}
	if f := envOr("VERIF_C15_FILTER", ""); f != "" {
		var cs2 []*gen.PolicyCase
		for _, cs := range cases {
			if strings.Contains(cs.Desc, f) {
				cs2 = append(cs2, cs)
			}
		}
		cases = cs2
	}
	c.Programs = len(cases)

	// 1. compile and execute
	type job struct {
		cs      *gen.PolicyCase
		be, pol string
	}
	var jobs []job
	for _, cs := range cases {
		bes, spvPol := backends, true
		if text, ok := assign[cs.Desc]; ok && cs.Kind == "index" {
			bes, spvPol = []string{"spv", text}, text == "msl"
		}
		for pol, bos := range c15PolsFor(cs, bes, spvPol) {
			for _, bo := range bos {
				jobs = append(jobs, job{cs, bo[0], pol})
			}
		}
	}
	sort.Slice(jobs, func(i, j int) bool {
		a, b := jobs[i], jobs[j]
		if a.cs.Desc != b.cs.Desc {
			return a.cs.Desc < b.cs.Desc
		}
		if a.pol != b.pol {
			return a.pol < b.pol
		}
		return a.be < b.be
	})
	runsOf := make([][]*c15Run, len(jobs))
	var outsideGLSL int64
	core.ParMap(len(jobs), core.Cores(), func(i int) {
		j := jobs[i]
		if why := c15Excluded(j.cs, j.be); why != "" {
			c.Skip(why)
			return
		}
		cc := c15Compile(j.cs, j.be, j.pol)
		if cc.err != "" {
			c.Skip(cc.err)
			return
		}
		for row := range j.cs.Inputs {
			if j.pol == "UU" && j.cs.OOB[row] {
				continue // no index policy selected: out-of-range rows are outside the property
			}
			if c15OutsideGLSL(j.cs, row, j.be) {
				atomic.AddInt64(&outsideGLSL, 1)
				continue
			}
			r, why := c15Exec(j.cs, row, j.be, j.pol, cc)
			if r == nil {
				c.Skip(why)
				continue
			}
			runsOf[i] = append(runsOf[i], r)
		}
		c15MarkFixed(runsOf[i])
	})
	// 2. group by (program, row, policy), number the runs
	gmap := map[string]*c15Group{}
	var groups []*c15Group
	var runs []*c15Run
	for i, j := range jobs {
		for _, r := range runsOf[i] {
			r.id = len(runs) + 1
			runs = append(runs, r)
			key := fmt.Sprintf("%s\x00%d\x00%s", j.cs.Desc, r.row, j.pol)
			g := gmap[key]
			if g == nil {
				g = &c15Group{cs: j.cs, row: r.row, pol: j.pol}
				gmap[key] = g
				groups = append(groups, g)
			}
			g.runs = append(g.runs, r)
		}
	}
	c.Cov["runs"] = len(runs)
	c.Cov["rows_outside_property_glsl_operators"] = outsideGLSL
	c.Cov["spec_evaluations"] = len(groups)
	if len(runs) == 0 {
		c.BrokenF("no execution could be judged")
		return c.Finish()
	}
	// 3. validate with TLC, sharded (groups of one program stay together: its JSON is written once per shard)
	// shards of bounded size (a JVM start costs as much as ~40 evaluations; a shard of 1500 groups is ~5 k events),
	// run Cores() at a time
	per := 1500
	if n := (len(groups) + core.Cores() - 1) / core.Cores(); n < per {
		per = max(n, 40)
	}
	shards := (len(groups) + per - 1) / per
	c.Cov["tlc_shards"] = shards
	var mu sync.Mutex
	verdicts := map[int]c15Verdict{}
	var firstErr error
	events, accesses := 0, 0
	core.ParMap(shards, core.Cores(), func(s int) {
		lo, hi := s*per, min((s+1)*per, len(groups))
		if lo >= hi {
			return
		}
		bad, err := c15Validate(c, groups[lo:hi])
		mu.Lock()
		defer mu.Unlock()
		if err != nil {
			if firstErr == nil {
				firstErr = err
			}
			return
		}
		for _, g := range groups[lo:hi] {
			events += 1 + len(g.runs)
			for _, r := range g.runs {
				accesses += len(r.acc)
			}
		}
		for _, v := range bad {
			if _, dup := verdicts[v.ID]; !dup {
				verdicts[v.ID] = v
			}
		}
	})
	if firstErr != nil {
		c.BrokenF("trace validation failed: %v", firstErr)
		return c.Finish()
	}
	c.Traces = len(runs)
	c.Cov["trace_events"] = events
	c.Cov["trace_accesses_validated"] = accesses
	// 4. verdicts
	nIdx, nOp, nUn, nOOB := 0, 0, 0, 0
	for _, r := range runs {
		key := fmt.Sprintf("%s/%s/%s/%d", r.be, r.pol, r.cs.Desc, r.row)
		c.Eval(key, true)
		switch r.cs.Kind {
		case "index":
			nIdx++
			if r.cs.OOB[r.row] {
				nOOB++
			}
		case "op":
			nOp++
		default:
			nUn++
		}
		v, bad := verdicts[r.id]
		if !bad {
			continue
		}
		c15Report(c, r, v)
	}
	c.Cov["runs_index"] = nIdx
	c.Cov["runs_index_out_of_range"] = nOOB
	c.Cov["runs_operator"] = nOp
	c.Cov["runs_uninit"] = nUn
	if sk := c.Skips(); sk*3 > len(runs)+sk {
		c.BrokenF("%d of %d executions could not be judged", sk, len(runs)+sk)
	}
	for i := 0; i < len(runs) && i < 6; i++ {
		r := runs[(i*7919)%len(runs)]
		c.Sample(map[string]any{"desc": r.cs.Desc, "backend": r.be, "opt": r.pol, "rowclass": r.cs.RowClass[r.row], "wgsl": c15Src(r.cs),
			"input": r.cs.Inputs[r.row], "accesses": len(r.acc), "trap": r.trap})
	}
	return c.Finish()
}

func envOr(k, d string) string {
	if v := strings.TrimSpace(os.Getenv(k)); v != "" {
		return v
	}
	return d
}

// c15Report turns one TLC verdict into a report (or a harness failure).
func c15Report(c *core.Ctx, r *c15Run, v c15Verdict) {
	if strings.HasPrefix(v.Rule, "harness:") {
		c.BrokenF("%s (run %s/%s %s row %d)", v.Rule, r.be, r.pol, r.cs.Desc, r.row)
		return
	}
	oob := "no"
	if r.cs.OOB[r.row] {
		oob = "yes"
	}
	rule := strings.Fields(v.Rule)[0]
	desc := map[string]string{"family": "policy", "kind": r.cs.Kind, "backend": r.be, "opt": r.pol, "form": r.cs.Form, "space": r.cs.Space,
		"op": r.cs.Op, "idxt": r.cs.IdxT, "desc": r.cs.Desc, "rowclass": r.cs.RowClass[r.row], "oob": oob, "rule": rule, "trap": trimReason(r.trap)}
	desc["sig"] = fmt.Sprintf("%s|%s|%s|%s|%s|%s|%s", r.be, r.pol, r.cs.Desc, rule, oob, c15ClassSig(r), trimReason(r.trap))
	c.Disagree++
	what := ""
	switch rule {
	case "R4":
		what = fmt.Sprintf("%s/%s: %s [%s]: emitted code reaches a target-undefined operation: %s", r.be, r.pol, r.cs.Desc, r.cs.RowClass[r.row], r.trap)
	case "R5":
		what = fmt.Sprintf("%s/%s: %s [%s]: final buffer words differ from the hardened value; input %v observed %v expected %v", r.be, r.pol, r.cs.Desc, r.cs.RowClass[r.row], r.cs.Inputs[r.row][0], c15Brief(r.words), c15Brief(v.Exp))
	default:
		what = fmt.Sprintf("%s/%s: %s [%s]: %s violated by the access trace %v", r.be, r.pol, r.cs.Desc, r.cs.RowClass[r.row], v.Rule, c15BriefAcc(r.acc))
	}
	c.Report(what, desc, map[string]any{"wgsl": c15Src(r.cs), "input": r.cs.Inputs[r.row], "backend": r.be, "options": r.pol,
		"emitted": emittedText(target{Name: r.be}, r.art), "trap": r.trap, "accesses": r.acc, "observed": r.words, "expected": v.Exp, "mask": v.Mask, "rule": v.Rule})
}

// c15ClassSig keeps operator row classes in the signature (they separate root causes) but not index classes.
func c15ClassSig(r *c15Run) string {
	if r.cs.Kind == "op" {
		return r.cs.RowClass[r.row]
	}
	return ""
}

func c15Brief(w [][]int32) string {
	s := fmt.Sprint(w)
	if len(s) > 160 {
		s = s[:160] + "..."
	}
	return s
}

func c15BriefAcc(a []c15Acc) string {
	var sb strings.Builder
	for i, x := range a {
		if i > 0 {
			sb.WriteByte(' ')
		}
		if i >= 12 {
			sb.WriteString("...")
			break
		}
		d := "r"
		if x.W == 1 {
			d = "w"
		}
		fmt.Fprintf(&sb, "%s(g%d,%d+%d)", d, x.G, x.Off, x.Size)
	}
	return sb.String()
}
