package checks

// Worker processes of the C08 replay.  A fatal error of the Go runtime inside naga (stack overflow by unbounded
// recursion, concurrent map write ...) cannot be recovered and would kill the whole check; therefore programs are
// replayed in child processes (the harness binary re-executed with C08_WORKER_JOB set, caught in init() below).  A
// worker announces every call into naga in a marker file before making it; when a worker dies the parent reads the
// marker, records "process crash" as the outcome of that call of that program (an `err` outcome: a crash on a valid
// program is a rejection) and restarts a worker on the remaining programs, which skips the calls known to crash.

import (
	"bufio"
	"bytes"
	"encoding/json"
	"fmt"
	"os"
	"os/exec"
	"path/filepath"
	"regexp"
	"runtime/debug"
	"strings"
	"sync"

	"verif/harness/core"
)

var (
	c08Crash  map[string]string // "<program id>/<call key>" -> text of the crash (calls not to be repeated)
	c08Marker *os.File
)

// c08Announce writes the call about to be made into the marker file (fixed-size record at offset 0).
func c08Announce(id int, key string) {
	if c08Marker == nil {
		return
	}
	b := bytes.Repeat([]byte{' '}, 200)
	copy(b, fmt.Sprintf("%d/%s\n", id, key))
	_, _ = c08Marker.WriteAt(b, 0)
}

type c08Job struct {
	Progs  []*acProg         `json:"progs"`
	Full   []bool            `json:"full"`
	Rot    []int             `json:"rot"`
	Crash  map[string]string `json:"crash"`
	Out    string            `json:"out"`
	Marker string            `json:"marker"`
}

// c08Result is what a worker reports per program.
type c08Result struct {
	ID     int              `json:"id"`
	Feats  []string         `json:"feats"`
	Eps    []acEntry        `json:"eps"`
	Events []acEvent        `json:"events"`
	Errs   map[int][]string `json:"errs"`
	Dup    bool             `json:"dup"`
}

func init() {
	if job := os.Getenv("C08_WORKER_JOB"); job != "" {
		os.Exit(c08Worker(job))
	}
}

func c08Worker(jobPath string) int {
	b, err := os.ReadFile(jobPath)
	var job c08Job
	if err != nil || json.Unmarshal(b, &job) != nil {
		fmt.Fprintln(os.Stderr, "c08 worker: bad job", err)
		return 3
	}
	debug.SetMaxStack(192 << 20) // an unbounded recursion dies quickly
	c08Crash = job.Crash
	c08Marker, err = os.OpenFile(job.Marker, os.O_CREATE|os.O_WRONLY|os.O_TRUNC, 0o644)
	if err != nil {
		return 3
	}
	out, err := os.OpenFile(job.Out, os.O_CREATE|os.O_WRONLY|os.O_APPEND, 0o644)
	if err != nil {
		return 3
	}
	for i, p := range job.Progs {
		replayAccept(p, job.Full[i], job.Rot[i])
		line, _ := json.Marshal(c08Result{ID: p.ID, Feats: p.Feats, Eps: p.Eps, Events: p.Events, Errs: p.Errs, Dup: p.Dup})
		if _, err := out.Write(append(line, '\n')); err != nil {
			return 3
		}
	}
	c08Announce(0, "done")
	return 0
}

var c08ReFatal = regexp.MustCompile(`(?m)^(fatal error: .*|panic: .*|runtime: goroutine stack exceeds.*)$`)

// c08ReplayInWorkers replays every program; false = machinery failure (BrokenF recorded).
func c08ReplayInWorkers(c *core.Ctx, progs []*acProg) bool {
	self, err := os.Executable()
	if err != nil {
		c.BrokenF("cannot find the harness binary: %v", err)
		return false
	}
	byID := map[int]*acProg{}
	for _, p := range progs {
		byID[p.ID] = p
	}
	nb := max(core.Cores()*3, 1)
	if nb > len(progs) {
		nb = max(len(progs), 1)
	}
	var mu sync.Mutex
	crashes := 0
	okAll := true
	core.ParMap(nb, core.Cores(), func(b int) {
		var todo []*acProg
		var idx []int
		for i := b; i < len(progs); i += nb {
			todo = append(todo, progs[i])
			idx = append(idx, i)
		}
		crash := map[string]string{}
		dir := filepath.Join(c.WorkDir, fmt.Sprintf("replay%d", b))
		_ = os.MkdirAll(dir, 0o755)
		for attempt := 0; len(todo) > 0; attempt++ {
			if attempt > 60 {
				mu.Lock()
				okAll = false
				mu.Unlock()
				c.BrokenF("replay worker %d: more than 60 crashes in one batch", b)
				return
			}
			job := c08Job{Progs: todo, Crash: crash, Out: filepath.Join(dir, fmt.Sprintf("out%d.ndjson", attempt)), Marker: filepath.Join(dir, "marker")}
			for _, i := range idx {
				// the whole catalogue for the corpus and every 4th generated program; the default option sets plus a
				// rotating third of the catalogue for the others (announced to the trace spec in `sel`)
				job.Full = append(job.Full, progs[i].Family == "corpus" || i%4 == 0)
				job.Rot = append(job.Rot, i)
			}
			jb, _ := json.Marshal(job)
			jp := filepath.Join(dir, fmt.Sprintf("job%d.json", attempt))
			if err := os.WriteFile(jp, jb, 0o644); err != nil {
				c.BrokenF("replay worker: %v", err)
				return
			}
			_ = os.Remove(job.Marker)
			cmd := exec.Command(self, "check", "C08")
			cmd.Env = append(os.Environ(), "C08_WORKER_JOB="+jp)
			var stderr bytes.Buffer
			cmd.Stderr = &stderr
			runErr := cmd.Run()
			// collect what was completed
			done := map[int]bool{}
			if f, err := os.Open(job.Out); err == nil {
				sc := bufio.NewScanner(f)
				sc.Buffer(make([]byte, 1<<20), 1<<28)
				for sc.Scan() {
					var r c08Result
					if json.Unmarshal(sc.Bytes(), &r) != nil {
						continue // a line cut off by the crash
					}
					if p := byID[r.ID]; p != nil {
						p.Feats, p.Eps, p.Events, p.Errs, p.Dup = r.Feats, r.Eps, r.Events, r.Errs, r.Dup
						done[r.ID] = true
					}
				}
				f.Close()
			}
			var rest []*acProg
			var restIdx []int
			for k, p := range todo {
				if !done[p.ID] {
					rest = append(rest, p)
					restIdx = append(restIdx, idx[k])
				}
			}
			if runErr == nil {
				if len(rest) > 0 {
					c.BrokenF("replay worker %d ended normally but left %d programs", b, len(rest))
					mu.Lock()
					okAll = false
					mu.Unlock()
					return
				}
				return
			}
			// the worker died: which call?
			mk, _ := os.ReadFile(job.Marker)
			key := strings.TrimSpace(strings.SplitN(string(mk), "\n", 2)[0])
			text := "process crash"
			if m := c08ReFatal.FindString(stderr.String()); m != "" {
				text = "process crash: " + m
			}
			if key == "" || len(rest) == 0 || !strings.HasPrefix(key, fmt.Sprintf("%d/", rest[0].ID)) {
				c.BrokenF("replay worker %d died outside a call into naga (%v; marker %q)\n%.1500s", b, runErr, key, stderr.String())
				mu.Lock()
				okAll = false
				mu.Unlock()
				return
			}
			if _, again := crash[key]; again {
				c.BrokenF("replay worker %d died twice in %s\n%.1500s", b, key, stderr.String())
				mu.Lock()
				okAll = false
				mu.Unlock()
				return
			}
			crash[key] = text
			mu.Lock()
			crashes++
			mu.Unlock()
			// events of a half-replayed program are dropped: it is replayed again, skipping the deadly call
			for _, p := range rest {
				p.Events, p.Errs, p.Feats, p.Eps = nil, nil, nil, nil
			}
			todo, idx = rest, restIdx
		}
	})
	c.Cov["worker_process_crashes"] = crashes
	return okAll
}
