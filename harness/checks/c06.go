package checks

import (
	"bytes"
	"encoding/json"
	"fmt"
	"math"
	"os"
	"regexp"
	"sort"
	"strconv"
	"strings"
	"sync"
	"time"

	"verif/harness/core"
	"verif/harness/wg"
)

func init() { Registry["C06"] = runC06 }

// ---- TLC: predictions and judgements ------------------------------------------------------------------------------

type judgeObs struct {
	Acc    int     `json:"acc"`
	Folded int     `json:"folded"`
	Trap   int     `json:"trap"`
	V      []int32 `json:"v"`
}

type constLine struct {
	ID  int       `json:"id"`
	E   wg.N      `json:"e"`
	Obs *judgeObs `json:"obs,omitempty"`
}

// runConstSpec evaluates lines with spec/ConstRun.tla (sharded); faults != "" seeds specification faults (self-test).
func runConstSpec(c *core.Ctx, lines []constLine, shards int, faults string) (map[int]cpred, error) {
	out := map[int]cpred{}
	if s, err := strconv.Atoi(os.Getenv("C06_SHARDS")); err == nil && s > 0 && s < shards {
		shards = s
	}
	if len(lines) == 0 {
		return out, nil
	}
	if shards > len(lines)/200+1 {
		shards = len(lines)/200 + 1
	}
	var mu sync.Mutex
	var firstErr error
	fail := func(err error) {
		mu.Lock()
		if firstErr == nil {
			firstErr = err
		}
		mu.Unlock()
	}
	cfg := "SPECIFICATION Spec\nCONSTANT Faults = {" + faults + "}\nCHECK_DEADLOCK FALSE\n"
	core.ParMap(shards, shards, func(s int) {
		var buf bytes.Buffer
		n := 0
		for i := s; i < len(lines); i += shards {
			b, err := json.Marshal(lines[i])
			if err != nil {
				fail(err)
				return
			}
			buf.Write(b)
			buf.WriteByte('\n')
			n++
		}
		r, err := c.RunTLC(core.TLCOpts{Spec: "ConstRun", CfgText: cfg, Files: map[string][]byte{"cases.ndjson": buf.Bytes()}, Timeout: 30 * time.Minute, HeapGB: 3})
		if err == nil && !r.OK {
			err = fmt.Errorf("ConstRun: %s %s\n%s", r.Violated, r.Err, r.Tail(25))
		}
		if err != nil {
			fail(err)
			return
		}
		c.AddTLC(r)
		got := 0
		for _, l := range r.Printed {
			var p cpred
			if err := json.Unmarshal([]byte(l), &p); err != nil {
				fail(fmt.Errorf("bad ConstRun line: %v: %.300s", err, l))
				return
			}
			mu.Lock()
			out[p.ID] = p
			mu.Unlock()
			got++
		}
		if got != n {
			fail(fmt.Errorf("ConstRun evaluated %d of %d cases\n%s", got, n, r.Tail(25)))
		}
	})
	return out, firstErr
}

// ---- findings -------------------------------------------------------------------------------------------------------

type cfinding struct {
	c     *ccase
	form  string
	class string
	o     *cobs
	note  string
}

func (f *cfinding) whyKey() string {
	if f.c.Pred.S == "err" {
		return f.c.Pred.Why
	}
	return f.c.Pred.M
}

// operandClass tags the hazardous operand classes among the literal leaves of the tree (for known-finding predicates).
func operandClass(t wg.N) string {
	tags := map[string]bool{}
	for _, l := range leaves(t) {
		v := int32(wg.I(l, "v"))
		switch kindOf(tOf(l)) {
		case "ai":
			x := aiValue(l)
			if x != int64(int32(x)) {
				tags["ai-wide"] = true
			}
			if x < 0 {
				tags["negative"] = true
			}
			if x == -2147483648 {
				tags["intmin"] = true
			}
		case "i32":
			if v < 0 {
				tags["negative"] = true
			}
			if v == -2147483648 {
				tags["intmin"] = true
			}
		case "u32":
			if v < 0 {
				tags["u32-msb"] = true
			}
		case "f32", "af":
			f := float64(math.Float32frombits(uint32(v)))
			if math.Signbit(f) {
				tags["fneg"] = true
			}
			if f != math.Trunc(f) {
				tags["fnonint"] = true
			}
			if math.Abs(f) >= 2147483648 {
				tags["fbig"] = true
			}
		}
	}
	var out []string
	for k := range tags {
		out = append(out, k)
	}
	sort.Strings(out)
	return strings.Join(out, ",")
}

func (f *cfinding) desc() map[string]string {
	d := map[string]string{"oc": operandClass(f.c.Tree), "class": f.class, "form": f.form, "opclass": f.c.OpClass, "op": f.c.Op, "kind": f.c.Kind, "shape": f.c.Shape,
		"spell": f.c.Spell, "why": f.whyKey(), "note": f.note}
	d["sig"] = strings.Join([]string{f.class, f.form, f.c.OpClass, f.c.Op, f.c.Kind, f.c.Shape, f.c.Spell, f.whyKey(), f.note, d["oc"]}, "~")
	return d
}

func wordsStr(k string, ws []int32) string {
	var out []string
	for _, w := range ws {
		switch k {
		case "u32":
			out = append(out, fmt.Sprint(uint32(w)))
		case "f32":
			out = append(out, fmt.Sprintf("0x%08x", uint32(w)))
		default:
			out = append(out, fmt.Sprint(w))
		}
	}
	return "[" + strings.Join(out, " ") + "]"
}

func (f *cfinding) what() string {
	p := f.c.Pred
	k := kindOf(tOf(f.c.Tree))
	expr := literalText(f.c.Tree)
	wgsl := "value " + wordsStr(k, p.V) + " of type " + wgslType(tOf(f.c.Tree))
	if p.S == "err" {
		wgsl = "shader-creation error (" + p.Why + ")"
	} else if p.M != "" {
		wgsl += " (or an error: " + p.M + ")"
	}
	got := "rejected: " + f.o.ErrMsg
	if f.o.Acc {
		v, _ := f.o.observedValue()
		got = "accepted, value " + wordsStr(k, v)
		if !f.o.Folded && baseForm(f.form) != "case" {
			got += " computed at run time (" + f.o.Why + " left in the IR)"
		}
		if f.o.Trap != "" {
			got = "accepted, emitted code traps: " + f.o.Trap
		}
		if len(f.o.V2) > 0 {
			got += fmt.Sprintf(" / %v", f.o.V2)
		}
	}
	return fmt.Sprintf("%s: `%s` written as %s [%s]: WGSL: %s; naga: %s %s", f.class, expr, f.form, f.c.desc(), wgsl, got, f.note)
}

// ---- the check --------------------------------------------------------------------------------------------------------

var valueForms = []string{"fn", "let", "fnconst", "modconst", "named"}

type cjob struct {
	form  string
	cases []*ccase
}

func runC06(tier, replay string) int {
	c := core.NewCtx("C06", tier, "translation_validation")
	c.Cov["rule"] = "const-expression trees are generated from the operator x type-shape x boundary-operand tables of harness/gen (all binary and unary operators, conversions, bitcasts, the foldable builtins, constructors, swizzles, literal representability, a few deeper trees) in suffixed / abstract / mixed literal spellings; spec/ConstEval.tla (TLC) gives for each tree the WGSL const-expression verdict (value, shader-creation error with its rule, error-or-value where WGSL is not pinned, undecided), the run-time value of the same tree through WgslSem, the lemma ConstValue = RunValue and a typing check; each tree is then written in the compile-time forms fn (literal operands in a function body), let, fnconst, modconst (module-scope const), named (named-constant operands), and for integer scalars case (switch selector), arraysize, assert_eq / assert_ne (const_assert) and wgsize (@workgroup_size), and in the run-time form (operands loaded from a storage buffer); the programs are compiled by the real naga, the lowered IR is read (Literal / Compose / Constant trees, array sizes, switch values, EntryPoint.Workgroup) and the emitted SPIR-V is executed on harness/spv; observed values / acceptance are compared with the specification. A case = (tree, form); non-trivial if the specification decided it and naga's behaviour was observed; distinct by (tree, spelling, form)."
	c.Assumef("WGSL const-expression rules as transcribed in spec/ConstEval.tla (rules E1-E6 certain, M1-M4 accepted either way), value semantics of spec/WgslSem.tla, Word32.tla, F32.tla")
	c.Assumef("SPIR-V executor harness/spv reads the emitted code according to SPIR-V (validated by C01)")
	// the self-tests of the value layer and of this specification run first (beside the main evaluation they lose
	// their two-minute TLC timeout on a busy machine)
	type stRes struct {
		w, f int
		err  error
	}
	stCh := make(chan stRes, 1)
	func() {
		var r stRes
		if os.Getenv("C06_NOSELFTEST") != "" { // development aid (the evidence then lacks the self-test rows and the run is marked)
			c.Assumef("self-tests of the value layer skipped (C06_NOSELFTEST)")
			stCh <- r
			return
		}
		// a TLC run killed by its timeout on an oversubscribed machine is retried (it says nothing about the specification)
		for try := 0; try < 3; try++ {
			if r.w, r.err = SelfTestWord32(c); r.err != nil {
				r.err = fmt.Errorf("Word32 self-test: %v", r.err)
			} else if r.f, r.err = SelfTestF32(c); r.err != nil {
				r.err = fmt.Errorf("F32 self-test: %v", r.err)
			} else if r.err = specFaultSelfTest(c); r.err != nil {
				r.err = fmt.Errorf("ConstEval fault self-test: %v", r.err)
			}
			if r.err == nil || !(strings.Contains(r.err.Error(), "signal: killed") || strings.Contains(r.err.Error(), "timeout")) {
				break
			}
		}
		stCh <- r
	}()
	dbg := func(what string) {
		if os.Getenv("VERIF_DEBUG") != "" {
			fmt.Fprintf(os.Stderr, "[c06 %6.1fs] %s\n", time.Since(c.Start).Seconds(), what)
		}
	}
	cases := genConstCases(c.Seed, c.Quick())
	if only := os.Getenv("C06_ONLY"); only != "" { // development aid: restrict the cases to those whose descriptor matches
		re := regexp.MustCompile(only)
		var keep []*ccase
		for _, cs := range cases {
			if re.MatchString(cs.desc()) {
				keep = append(keep, cs)
			}
		}
		cases = keep
		c.Assumef("restricted to cases matching %q (C06_ONLY)", only)
	}
	dbg(fmt.Sprintf("%d cases generated", len(cases)))
	lines := make([]constLine, len(cases))
	for i, cs := range cases {
		lines[i] = constLine{ID: cs.ID, E: cs.Tree}
	}
	preds, err := runConstSpec(c, lines, core.Cores(), "")
	if err != nil {
		c.BrokenF("specification evaluation failed: %v", err)
		return c.Finish()
	}
	dbg("pass 1 done")
	if r := <-stCh; r.err != nil {
		c.BrokenF("%v", r.err)
		return c.Finish()
	} else {
		c.Cov["word32_selftest_rows"], c.Cov["f32_selftest_rows"] = r.w, r.f
	}
	dbg("self-tests done")
	stat := map[string]int{}
	for _, cs := range cases {
		p, ok := preds[cs.ID]
		if !ok {
			c.BrokenF("no prediction for case %d", cs.ID)
			return c.Finish()
		}
		cs.Pred = p
		if p.Ty != 1 {
			c.BrokenF("generator typing disagrees with ConstEval!TypeOK: %s `%s`", cs.desc(), literalText(cs.Tree))
			return c.Finish()
		}
		if p.Lem == 0 {
			c.BrokenF("lemma ConstValue = RunValue violated inside the specification: %s `%s` const %v run %v", cs.desc(), literalText(cs.Tree), p.V, p.RV)
			return c.Finish()
		}
		stat["spec_"+p.S]++
		if p.S == "ok" && p.M != "" {
			stat["spec_ok_or_error"]++
		}
		if p.Lem == 1 {
			stat["lemma_checked"]++
		}
	}
	c.Cov["cases"] = len(cases)
	for k, v := range stat {
		c.Cov[k] = v
	}
	if stat["spec_und"]*2 > len(cases) {
		c.BrokenF("the specification leaves %d of %d cases undecided", stat["spec_und"], len(cases))
	}

	// ---- jobs: packs of cases per form ----
	pack := c.Pick(60, 80)
	var jobs []cjob
	addJobs := func(form string, sel func(cs *ccase) (use bool, alone bool)) {
		var cur []*ccase
		for _, cs := range cases {
			use, alone := sel(cs)
			if !use {
				continue
			}
			if alone {
				jobs = append(jobs, cjob{form, []*ccase{cs}})
				continue
			}
			cur = append(cur, cs)
			if len(cur) >= pack {
				jobs = append(jobs, cjob{form, cur})
				cur = nil
			}
		}
		if len(cur) > 0 {
			jobs = append(jobs, cjob{form, cur})
		}
	}
	decided := func(cs *ccase) bool { return cs.Pred.S == "ok" || cs.Pred.S == "err" }
	clean := func(cs *ccase) bool { return cs.Pred.S == "ok" && cs.Pred.M == "" }
	for _, f := range valueForms {
		f := f
		addJobs(f, func(cs *ccase) (bool, bool) {
			if !decided(cs) {
				c.Skip("specification leaves the expression undecided: " + trimReason(cs.Pred.Why))
				return false, false
			}
			if f == "let" && lanesOf(tOf(cs.Tree)) > 0 {
				return false, false // the fn form of a vector already goes through a let
			}
			return true, !clean(cs)
		})
	}
	// chains: the operator nodes below the root are computed module-scope constants (`const A = x op y; const B = A op2 z;`)
	isChain := func(cs *ccase) bool { return cs.OpClass == "chain" }
	for _, f := range []string{"chain_modconst", "chain_fn"} {
		addJobs(f, func(cs *ccase) (bool, bool) { return isChain(cs) && decided(cs), !clean(cs) })
	}
	addJobs("runtime", func(cs *ccase) (bool, bool) { return cs.Pred.RS == "ok", false })
	intScalar := func(cs *ccase) bool {
		k := kindOf(tOf(cs.Tree))
		return lanesOf(tOf(cs.Tree)) == 0 && (k == "i32" || k == "u32")
	}
	inRange := func(cs *ccase, hi int64) bool {
		v := int64(cs.Pred.V[0])
		if kindOf(tOf(cs.Tree)) == "u32" {
			v = int64(uint32(cs.Pred.V[0]))
		}
		return v >= 1 && v <= hi
	}
	addJobs("case", func(cs *ccase) (bool, bool) { return intScalar(cs) && (clean(cs) || cs.Pred.S == "err"), !clean(cs) })
	addJobs("arraysize", func(cs *ccase) (bool, bool) {
		return intScalar(cs) && ((clean(cs) && inRange(cs, 65535)) || cs.Pred.S == "err"), !clean(cs)
	})
	addJobs("wgsize", func(cs *ccase) (bool, bool) {
		return intScalar(cs) && ((clean(cs) && inRange(cs, 256)) || cs.Pred.S == "err"), !clean(cs)
	})
	addJobs("chain_case", func(cs *ccase) (bool, bool) {
		return isChain(cs) && intScalar(cs) && (clean(cs) || cs.Pred.S == "err"), !clean(cs)
	})
	addJobs("chain_arraysize", func(cs *ccase) (bool, bool) {
		return isChain(cs) && intScalar(cs) && ((clean(cs) && inRange(cs, 65535)) || cs.Pred.S == "err"), !clean(cs)
	})
	addJobs("chain_wgsize", func(cs *ccase) (bool, bool) {
		return isChain(cs) && intScalar(cs) && ((clean(cs) && inRange(cs, 256)) || cs.Pred.S == "err"), !clean(cs)
	})
	addJobs("chain_assert_eq", func(cs *ccase) (bool, bool) { return isChain(cs) && lanesOf(tOf(cs.Tree)) == 0 && clean(cs), false })
	addJobs("chain_assert_ne", func(cs *ccase) (bool, bool) { return isChain(cs) && lanesOf(tOf(cs.Tree)) == 0 && clean(cs), true })
	addJobs("assert_eq", func(cs *ccase) (bool, bool) { return lanesOf(tOf(cs.Tree)) == 0 && clean(cs), false })
	addJobs("assert_ne", func(cs *ccase) (bool, bool) { return lanesOf(tOf(cs.Tree)) == 0 && clean(cs), true })

	var mu sync.Mutex
	var finds []*cfinding
	type okObs struct {
		c *ccase
		o *cobs
	}
	var oks []okObs
	rt := map[string]int{}
	programs := 0
	record := func(cs *ccase, form, class, note string, o *cobs) {
		mu.Lock()
		defer mu.Unlock()
		finds = append(finds, &cfinding{c: cs, form: form, class: class, o: o, note: note})
	}
	core.ParMap(len(jobs), core.Cores(), func(ji int) {
		j := jobs[ji]
		n := runConstJob(c, j, record, func(cs *ccase, o *cobs) {
			mu.Lock()
			if len(oks) < 400 && (cs.ID+ji)%7 == 0 {
				oks = append(oks, okObs{cs, o})
			}
			mu.Unlock()
		}, func(k string) {
			mu.Lock()
			rt[k]++
			mu.Unlock()
		})
		mu.Lock()
		programs += n
		mu.Unlock()
	})
	c.Programs = programs
	dbg(fmt.Sprintf("%d jobs, %d programs observed, %d findings", len(jobs), programs, len(finds)))
	for k, v := range rt {
		c.Cov["runtime_form_"+k] = v
	}

	// ---- pass 2: TLC judges (a) up to two findings per signature, (b) a sample of agreeing observations, (c) corrupted observations ----
	sort.Slice(finds, func(i, j int) bool {
		if finds[i].c.ID != finds[j].c.ID {
			return finds[i].c.ID < finds[j].c.ID
		}
		return finds[i].form < finds[j].form
	})
	var jl []constLine
	type expect struct {
		f       *cfinding
		want    string // verdict TLC must give ("" = anything but "ok")
		corrupt bool
	}
	exp := map[int]expect{}
	perSig := map[string]int{}
	toObs := func(o *cobs) *judgeObs {
		jo := &judgeObs{V: []int32{}}
		if o.Acc {
			jo.Acc = 1
		}
		if o.Folded {
			jo.Folded = 1
		}
		if o.Trap != "" {
			jo.Trap = 1
		}
		if v, ok := o.observedValue(); ok {
			jo.V = v
		}
		return jo
	}
	valueForm := map[string]bool{"fn": true, "let": true, "fnconst": true, "modconst": true, "named": true}
	for _, f := range finds {
		if !valueForm[baseForm(f.form)] || f.class == "type" {
			continue
		}
		sig := f.desc()["sig"]
		if perSig[sig] >= 2 {
			continue
		}
		perSig[sig]++
		id := len(jl) + 1
		jl = append(jl, constLine{ID: id, E: f.c.Tree, Obs: toObs(f.o)})
		exp[id] = expect{f: f, want: f.class}
	}
	nConfirm := len(jl)
	nCorrupt := 0
	for i, ok := range oks {
		if ok.c.Tol > 0 {
			continue
		}
		id := len(jl) + 1
		jo := toObs(ok.o)
		if i%2 == 0 && len(jo.V) > 0 {
			// corrupted observation: one bit of the observed value flipped (not the sign bit of a float zero)
			v := append([]int32{}, jo.V...)
			v[len(v)-1] ^= 1 << uint(1+i%8)
			jo.V = v
			jl = append(jl, constLine{ID: id, E: ok.c.Tree, Obs: jo})
			exp[id] = expect{want: "value", corrupt: true}
			nCorrupt++
			continue
		}
		jl = append(jl, constLine{ID: id, E: ok.c.Tree, Obs: jo})
		exp[id] = expect{want: "ok"}
	}
	jp, err := runConstSpec(c, jl, core.Cores(), "")
	if err != nil {
		c.BrokenF("judging pass failed: %v", err)
		return c.Finish()
	}
	dbg(fmt.Sprintf("pass 2 done (%d lines)", len(jl)))
	flagged := 0
	unconfirmed := map[*cfinding]bool{}
	for id, e := range exp {
		p := jp[id]
		switch {
		case e.corrupt:
			if p.J != "ok" && p.J != "skip" {
				flagged++
			}
		case e.f == nil:
			if p.J != "ok" {
				c.BrokenF("TLC judges an observation the harness found in agreement as %q (case %d)", p.J, id)
			}
		default:
			c.Traces++
			if p.J != e.want && !(e.f.c.Tol > 0 && p.J == "value") {
				unconfirmed[e.f] = true
				c.BrokenF("TLC judges %q where the harness said %q: %s", p.J, e.want, e.f.what())
			}
		}
	}
	c.Cov["findings_confirmed_by_tlc"] = nConfirm
	c.Cov["selftest_corrupted_observations"] = nCorrupt
	c.Cov["selftest_corrupted_flagged"] = flagged
	if nCorrupt == 0 || flagged != nCorrupt {
		c.BrokenF("self-test: TLC flagged %d of %d corrupted observations", flagged, nCorrupt)
	}

	// ---- report ----
	byClass := map[string]int{}
	var dump *os.File
	if path := os.Getenv("C06_DUMP_FINDINGS"); path != "" { // development aid
		dump, _ = os.Create(path)
		defer dump.Close()
	}
	for _, f := range finds {
		if dump != nil {
			fmt.Fprintf(dump, "%s\t%s\n", f.desc()["sig"], f.what())
		}
		byClass[f.class]++
		c.Disagree++
		src := f.o.Src
		c.Report(f.what(), f.desc(), map[string]any{"wgsl": src, "expr": literalText(f.c.Tree), "tree": f.c.Tree, "spec": f.c.Pred, "form": f.form,
			"observed": map[string]any{"accepted": f.o.Acc, "error": f.o.ErrMsg, "folded": f.o.Folded, "ir": f.o.IRV, "exec": f.o.V, "exec2": f.o.V2, "trap": f.o.Trap}})
	}
	for k, v := range byClass {
		c.Cov["class_"+k] = v
	}
	return c.Finish()
}

var (
	debugMu  sync.Mutex
	debugOut *os.File
)

// debugNote appends a line to $C06_DEBUG_NOTES (development aid).
func debugNote(kind string, cs *ccase, msg string) {
	path := os.Getenv("C06_DEBUG_NOTES")
	if path == "" {
		return
	}
	debugMu.Lock()
	defer debugMu.Unlock()
	if debugOut == nil {
		debugOut, _ = os.Create(path)
	}
	if debugOut != nil {
		fmt.Fprintf(debugOut, "%s\t%s\t%s\t%s\n", kind, cs.desc(), literalText(cs.Tree), msg)
	}
}

// runConstJob builds, compiles and observes one pack; returns the number of programs compiled.
func runConstJob(c *core.Ctx, j cjob, record func(cs *ccase, form, class, note string, o *cobs), okFn func(cs *ccase, o *cobs), rt func(string)) int {
	programs := 0
	build := func(cases []*ccase) *cprog {
		p := &cprog{}
		for _, cs := range cases {
			s := p.add(cs, j.form)
			if baseForm(j.form) == "case" && cs.Pred.S == "ok" {
				p.inp[s.slot] = cs.Pred.V[0]
			}
		}
		return p
	}
	var run func(cases []*ccase)
	run = func(cases []*ccase) {
		p := build(cases)
		src := p.text()
		programs++
		cm := frontEnd(src)
		if cm.err != nil {
			if len(cases) > 1 {
				for _, cs := range cases {
					run([]*ccase{cs})
				}
				return
			}
			judgeSite(c, j.form, p.sites[0], &cobs{Acc: false, ErrMsg: cm.err.Error(), Src: src}, nil, record, okFn, rt)
			return
		}
		obs, ok := observeProgram(p, cm)
		if !ok {
			for _, cs := range cases {
				run([]*ccase{cs})
			}
			return
		}
		var second []int32
		if baseForm(j.form) == "case" {
			inp2 := append([]int32{}, p.inp...)
			for _, s := range p.sites {
				inp2[s.slot]++
			}
			if _, ou, _, trap, skip := cm.execute(inp2, p.nOut); trap == "" && skip == "" {
				second = ou
			}
		}
		for _, s := range p.sites {
			judgeSite(c, j.form, s, obs[s], second, record, okFn, rt)
		}
		if len(cases) > 1 && cases[0].ID%97 == 0 {
			c.Sample(map[string]any{"form": j.form, "wgsl": src})
		}
	}
	run(j.cases)
	return programs
}

func judgeSite(c *core.Ctx, form string, s *site, o *cobs, second []int32, record func(cs *ccase, form, class, note string, o *cobs), okFn func(cs *ccase, o *cobs), rt func(string)) {
	cs := s.c
	p := cs.Pred
	k := kindOf(tOf(cs.Tree))
	key := fmt.Sprintf("%s/%s/%s", form, cs.desc(), literalText(cs.Tree))
	switch baseForm(form) {
	case "runtime":
		// the run-time leg of the three-way comparison: deviations here are C01's business, not C06's
		switch {
		case !o.Acc:
			rt("rejected")
			c.Skip("run-time form rejected by the front end (judged by C08)")
		case o.Trap != "":
			rt("trap")
			c.Skip("run-time form reaches a target-undefined operation (judged by C01): " + trimReason(o.Trap))
		case !o.Exec:
			rt("notexecuted")
			c.Skip("run-time form: " + o.Skip)
		case sameWords(k, o.V, p.RV, cs.Tol):
			rt("agrees_with_spec")
			c.Eval(key, true)
		default:
			rt("differs_from_spec")
			c.Skip("run-time form computes a value different from WgslSem (judged by C01)")
			debugNote("runtime-differs", cs, fmt.Sprintf("spec %v observed %v", p.RV, o.V))
		}
		return
	case "case":
		switch {
		case p.S == "err":
			if o.Acc {
				c.Eval(key, true)
				record(cs, form, "noerror", "", o)
			} else {
				c.Eval(key, true)
			}
		case !o.Acc:
			c.Eval(key, true)
			record(cs, form, "rejects-valid", errClass(o.ErrMsg), o)
		case o.Trap != "" || !o.Exec || second == nil:
			c.Skip("switch program could not be executed: " + trimReason(o.Trap+o.Skip))
		default:
			c.Eval(key, true)
			o.V2 = []int32{second[s.base]}
			if o.V[0] != 1 || o.V2[0] != 2 {
				record(cs, form, "value", "", o)
			}
		}
		return
	case "arraysize", "wgsize":
		c.Eval(key, true)
		switch {
		case p.S == "err":
			if o.Acc {
				record(cs, form, "noerror", "", o)
			}
		case !o.Acc:
			record(cs, form, "rejects-valid", errClass(o.ErrMsg), o)
		case len(o.V) != 1 || o.V[0] != p.V[0]:
			record(cs, form, "value", "", o)
		}
		return
	case "assert_eq":
		c.Eval(key, true)
		if !o.Acc {
			if errClass(o.ErrMsg) == "assert-failed" {
				record(cs, form, "value", "const_assert E == expected fails", o)
			} else {
				record(cs, form, "rejects-valid", errClass(o.ErrMsg), o)
			}
		}
		return
	case "assert_ne":
		c.Eval(key, true)
		if o.Acc {
			record(cs, form, "value", "const_assert E != expected accepted", o)
		}
		return
	}
	v := judgeValue(cs, o)
	if strings.HasPrefix(v, "skip:spv") {
		debugNote("exec-skip", cs, form+": "+v)
	}
	if strings.HasPrefix(v, "skip:") {
		c.Skip(strings.TrimPrefix(v, "skip:"))
		return
	}
	c.Eval(key, true)
	note := ""
	switch v {
	case "ok":
		// kinds: the value in the IR and the recorded constant type must have the kind WGSL gives the expression
		sk := k
		if k == "bool" {
			sk = "u32"
		}
		if o.Acc && o.Folded && o.IRKind != "" && o.IRKind != sk {
			record(cs, form, "type", "stored value has kind "+o.IRKind, o)
		} else if o.Acc && o.CKind != "" && o.CKind != k {
			record(cs, form, "type", "constant recorded with kind "+o.CKind, o)
		} else if o.Acc && p.S == "ok" {
			okFn(cs, o)
		}
		return
	case "noerror":
		note = "other-value"
		if got, ok := o.observedValue(); ok && p.RS == "ok" && sameWords(k, got, p.RV, 0) {
			note = "runtime-value"
		}
	case "rejects-valid":
		note = errClass(o.ErrMsg)
	}
	record(cs, form, v, note, o)
}

// ---- self-test of the specification: seeded faults must break the lemma / the error rule ---------------------------------

func specFaultSelfTest(c *core.Ctx) error {
	i := func(v int32) wg.N { return cLit("i32", v) }
	u := func(v uint32) wg.N { return cLit("u32", int32(v)) }
	trees := []wg.N{
		nSink(nBin(">>", i(-8), u(1)), ""),                                                  // shr_logical
		nSink(nBin("<", u(0xffffffff), u(1)), ""),                                           // u32_cmp_signed
		nSink(nCast(tS("i32"), cLit("f32", fbits(1.5))), ""),                                // f2i_round
		nSink(nBiSame("min", nCtor(2, "i32", i(1), i(5)), nCtor(2, "i32", i(3), i(2))), ""), // min_lane
		nSink(nBin("/", u(5), u(0)), ""),                                                    // div0_noerr
	}
	var lines []constLine
	for k, t := range trees {
		lines = append(lines, constLine{ID: k + 1, E: t})
	}
	good, err := runConstSpec(c, lines, 1, "")
	if err != nil {
		return err
	}
	bad, err := runConstSpec(c, lines, 1, `"shr_logical", "u32_cmp_signed", "f2i_round", "min_lane", "div0_noerr"`)
	if err != nil {
		return err
	}
	for id := 1; id <= 4; id++ {
		if good[id].Lem != 1 {
			return fmt.Errorf("case %d: lemma not established without faults (lem=%d)", id, good[id].Lem)
		}
		if bad[id].Lem != 0 {
			return fmt.Errorf("case %d: seeded fault does not violate the lemma (lem=%d)", id, bad[id].Lem)
		}
	}
	if good[5].S != "err" || bad[5].S == "err" {
		return fmt.Errorf("div0 rule: without fault %q, with fault %q", good[5].S, bad[5].S)
	}
	c.Cov["spec_faults_detected"] = 5
	return nil
}
