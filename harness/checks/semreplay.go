package checks

import (
	"encoding/json"
	"fmt"
	"os"

	"verif/harness/core"
	"verif/harness/drive"
	"verif/harness/wg"
	"verif/harness/xrt"
)

// semReplayFile is what the translation checks write as a replay (see runSemCase).
type semReplayFile struct {
	Property string `json:"property"`
	What     string `json:"what"`
	Case     struct {
		Prog    wg.N      `json:"prog"`
		Input   [][]int32 `json:"input"`
		Family  string    `json:"family"`
		Desc    string    `json:"desc"`
		Opt     string    `json:"opt"`
		Backend string    `json:"backend"`
		Wgsl    string    `json:"wgsl"`
	} `json:"case"`
}

func loadSemReplay(path string) (*semReplayFile, error) {
	b, err := os.ReadFile(path)
	if err != nil {
		return nil, err
	}
	var r semReplayFile
	if err := json.Unmarshal(b, &r); err != nil {
		return nil, err
	}
	if r.Case.Prog == nil {
		return nil, fmt.Errorf("replay file %s carries no program", path)
	}
	return &r, nil
}

// replayTranslation re-judges the single case of a replay file: the specification is evaluated again on the recorded
// program and input row, the program is compiled again with the recorded option set and executed.
func replayTranslation(prop string, t target, tier, path string) int {
	c := core.NewCtx(prop, tier, "translation_validation")
	c.Cov["rule"] = "replay of one recorded (program, option set, input row) case: the specification is evaluated again and the program compiled and executed again"
	r, err := loadSemReplay(path)
	if err != nil {
		c.BrokenF("replay: %v", err)
		return c.Finish()
	}
	cs := &SemCase{Family: r.Case.Family, Desc: r.Case.Desc, Prog: r.Case.Prog, Inputs: [][][]int32{r.Case.Input}}
	if err := EvalSpec(c, []*SemCase{cs}, 1); err != nil {
		c.BrokenF("specification evaluation failed: %v", err)
		return c.Finish()
	}
	opt := r.Case.Opt
	if opt == "" {
		opt = meaningPreservingOpts(c, t.Name)[0]
	}
	st := runSemCase(c, t, cs, opt, defaultRowClass)
	c.Programs = st.Programs
	c.Sample(map[string]any{"replayed": path, "desc": cs.Desc, "opt": opt})
	return c.Finish()
}

// disagrees reports whether the emitted code for the case disagrees with the specification on its first row
// (the kind of disagreement wanted: "trap" or "value").
var wantKind = ""

func disagrees(t target, cs *SemCase, opt string) bool {
	k := disagreeKind(t, cs, opt)
	return k != "" && (wantKind == "" || k == wantKind)
}

func disagreeKind(t target, cs *SemCase, opt string) string {
	if disagreesRaw(t, cs, opt, true) {
		return "trap"
	}
	if disagreesRaw(t, cs, opt, false) {
		return "value"
	}
	return ""
}

func disagreesRaw(t target, cs *SemCase, opt string, trapWanted bool) bool {
	if len(cs.Expect) == 0 || !cs.Expect[0].OK {
		return false
	}
	src := wg.Print(cs.Prog)
	m, _, err := drive.Front(src)
	if err != nil {
		return false
	}
	art, err := drive.Compile(t.Name, opt, m, "main")
	if err != nil {
		return false
	}
	emitted := t.entryName(art, "main")
	in := xrt.Input{Entry: emitted, Buffers: map[string][]byte{}, NumWorkgroups: [3]uint32{1, 1, 1}, MaxSteps: 200000}
	globals := wg.L(cs.Prog, "globals")
	for gi, g := range globals {
		if sp := wg.S(g, "space"); sp == "storage" || sp == "uniform" {
			in.Buffers[t.slotFor(g)] = words2bytes(cs.Inputs[0][gi])
		}
	}
	out := t.exec(art, emitted, [3]uint32{1, 1, 1}, in)
	if out.Skip != "" {
		return false
	}
	if out.Trap != "" {
		return trapWanted
	}
	if trapWanted {
		return false
	}
	exp := cs.Expect[0]
	for gi, g := range globals {
		if sp := wg.S(g, "space"); sp != "storage" && sp != "uniform" {
			continue
		}
		got := bytes2words(in.Buffers[t.slotFor(g)])
		for wi, w := range exp.Out[gi] {
			if wi < len(exp.Mask[gi]) && exp.Mask[gi][wi] != 0 && (wi >= len(got) || got[wi] != w) {
				return true
			}
		}
	}
	return false
}

func cloneN(x any) any {
	switch v := x.(type) {
	case map[string]any:
		m := make(map[string]any, len(v))
		for k, e := range v {
			m[k] = cloneN(e)
		}
		return m
	case []any:
		a := make([]any, len(v))
		for i, e := range v {
			a[i] = cloneN(e)
		}
		return a
	case []wg.N:
		a := make([]any, len(v))
		for i, e := range v {
			a[i] = cloneN(e)
		}
		return a
	case []int:
		a := make([]any, len(v))
		for i, e := range v {
			a[i] = float64(e)
		}
		return a
	}
	return x
}

// stmtLists collects pointers to every statement list of the program (function bodies and nested blocks).
func stmtLists(p map[string]any) []*[]any {
	var out []*[]any
	var walk func(m map[string]any)
	visit := func(m map[string]any, key string) {
		if l, ok := m[key].([]any); ok {
			ll := l
			m[key] = ll
			// keep a pointer that writes back into the map
			out = append(out, nil)
			idx := len(out) - 1
			holder := &ll
			out[idx] = holder
			defer func() { _ = holder }()
			for _, s := range l {
				if sm, ok := s.(map[string]any); ok {
					walk(sm)
				}
			}
		}
	}
	walk = func(m map[string]any) {
		for _, k := range []string{"body", "a", "b", "cont"} {
			visit(m, k)
		}
		if cs, ok := m["cases"].([]any); ok {
			for _, c := range cs {
				if cm, ok := c.(map[string]any); ok {
					visit(cm, "body")
				}
			}
		}
	}
	if fns, ok := p["fns"].([]any); ok {
		for _, f := range fns {
			if fm, ok := f.(map[string]any); ok {
				visit(fm, "body")
			}
		}
	}
	return out
}

type stmtPos struct{ list, idx int }

// positions lists every statement position (list number in pre-order, index).
func positions(p wg.N) []stmtPos {
	var out []stmtPos
	probe := cloneN(map[string]any(p)).(map[string]any)
	for li, l := range stmtLists(probe) {
		for i := range *l {
			out = append(out, stmtPos{li, i})
		}
	}
	return out
}

// deleteSet returns a copy of p without the statements at the given positions.
func deleteSet(p wg.N, set map[stmtPos]bool) wg.N {
	q := cloneN(map[string]any(p)).(map[string]any)
	cnt := -1
	var walk func(m map[string]any)
	del := func(m map[string]any, key string) {
		l, ok := m[key].([]any)
		if !ok {
			return
		}
		cnt++
		me := cnt
		var nl []any
		for i, s := range l {
			if set[stmtPos{me, i}] {
				// still count the lists nested in the deleted statement so that numbering stays that of p
				if sm, ok := s.(map[string]any); ok {
					walk(sm)
				}
				continue
			}
			if sm, ok := s.(map[string]any); ok {
				walk(sm)
			}
			nl = append(nl, s)
		}
		if nl == nil {
			nl = []any{}
		}
		m[key] = nl
	}
	walk = func(m map[string]any) {
		for _, k := range []string{"body", "a", "b", "cont"} {
			del(m, k)
		}
		if cs, ok := m["cases"].([]any); ok {
			for _, c := range cs {
				if cm, ok := c.(map[string]any); ok {
					del(cm, "body")
				}
			}
		}
	}
	if fns, ok := q["fns"].([]any); ok {
		for _, f := range fns {
			if fm, ok := f.(map[string]any); ok {
				del(fm, "body")
			}
		}
	}
	return wg.N(q)
}

// dropHelpers returns the programs obtained by deleting one helper function.
func dropHelpers(p wg.N) []wg.N {
	var out []wg.N
	q0 := cloneN(map[string]any(p)).(map[string]any)
	if fl, ok := q0["fns"].([]any); ok {
		for i := range fl {
			if fm, _ := fl[i].(map[string]any); fm != nil && wg.I(fm, "entry") == 1 {
				continue
			}
			q := cloneN(map[string]any(p)).(map[string]any)
			ql := q["fns"].([]any)
			q["fns"] = append(append([]any{}, ql[:i]...), ql[i+1:]...)
			out = append(out, wg.N(q))
		}
	}
	return out
}

// SemReduce shrinks the program of a replay file by statement deletion while the disagreement persists (development aid).
func SemReduce(path string) int {
	r, err := loadSemReplay(path)
	if err != nil {
		fmt.Println(err)
		return 2
	}
	t := target{Name: r.Case.Backend}
	if t.Name == "" {
		t.Name = "spv"
	}
	c := core.NewCtx("REDUCE", "quick", "other")
	opt := r.Case.Opt
	if opt == "" {
		opt = meaningPreservingOpts(c, t.Name)[0]
	}
	cur := wg.N(cloneN(map[string]any(r.Case.Prog)).(map[string]any))
	base := &SemCase{Prog: cur, Inputs: [][][]int32{r.Case.Input}}
	if err := EvalSpec(c, []*SemCase{base}, 1); err != nil {
		fmt.Println("spec:", err)
		return 2
	}
	wantKind = disagreeKind(t, base, opt)
	if wantKind == "" {
		fmt.Println("the recorded case does not disagree any more")
		return 0
	}
	fmt.Fprintln(os.Stderr, "kind of disagreement:", wantKind)
	valid := func(q wg.N) bool { _, _, err := drive.Front(wg.Print(q)); return err == nil }
	still := func(qs []wg.N) []bool {
		var cases []*SemCase
		idx := map[int]int{}
		for i, q := range qs {
			if valid(q) {
				idx[i] = len(cases)
				cases = append(cases, &SemCase{Prog: q, Inputs: [][][]int32{r.Case.Input}})
			}
		}
		res := make([]bool, len(qs))
		if len(cases) == 0 {
			return res
		}
		if err := EvalSpec(c, cases, core.Cores()); err != nil {
			fmt.Fprintln(os.Stderr, "spec:", err)
			return res
		}
		for i := range qs {
			if j, ok := idx[i]; ok {
				res[i] = disagrees(t, cases[j], opt)
			}
		}
		return res
	}
	for round := 1; round <= 40; round++ {
		pos := positions(cur)
		// chunked deletion first (halves, quarters ...), then single statements
		progressed := false
		for chunk := len(pos) / 2; chunk >= 1 && !progressed; chunk /= 2 {
			var qs []wg.N
			for start := 0; start < len(pos); start += chunk {
				set := map[stmtPos]bool{}
				for k := start; k < start+chunk && k < len(pos); k++ {
					set[pos[k]] = true
				}
				qs = append(qs, deleteSet(cur, set))
			}
			ok := still(qs)
			// adopt every chunk that individually preserves the disagreement, cumulatively when possible
			acc := map[stmtPos]bool{}
			for i, keep := range ok {
				if !keep {
					continue
				}
				trial := map[stmtPos]bool{}
				for k := range acc {
					trial[k] = true
				}
				for k := i * chunk; k < (i+1)*chunk && k < len(pos); k++ {
					trial[pos[k]] = true
				}
				if len(acc) == 0 {
					acc = trial
					continue
				}
				if still([]wg.N{deleteSet(cur, trial)})[0] {
					acc = trial
				}
			}
			if len(acc) > 0 {
				cur = deleteSet(cur, acc)
				progressed = true
			}
			fmt.Fprintf(os.Stderr, "round %d chunk %d: %d statements, removed %d, size=%d bytes\n", round, chunk, len(pos), len(acc), len(wg.Print(cur)))
		}
		hs := dropHelpers(cur)
		for i, keep := range still(hs) {
			if keep {
				cur = hs[i]
				progressed = true
				break
			}
		}
		if !progressed {
			break
		}
	}
	fmt.Println(wg.Print(cur))
	fmt.Println("// input:", r.Case.Input)
	return 0
}
