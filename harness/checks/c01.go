package checks

import (
	"math/rand"
	"os"

	"verif/harness/core"
	"verif/harness/gen"
)

func init() {
	reg := func(prop string, t target) {
		Registry[prop] = func(tier, replay string) int {
			if replay != "" {
				return replayTranslation(prop, t, tier, replay)
			}
			return runTranslation(prop, t, tier)
		}
	}
	reg("C01", target{Name: "spv"})
	reg("C03", target{Name: "hlsl"})
	reg("C04", target{Name: "msl"})
	reg("C05", target{Name: "glsl", undefinedIsSkip: true})
}

// semanticFamilies builds the program families of DESIGN.md 5.1 for this tier and seed.
func semanticFamilies(c *core.Ctx) []*SemCase { return semanticFamiliesFor(c, "") }

// semanticFamiliesFor: as semanticFamilies; for backend "glsl" the random programs stay inside the operations GLSL defines.
func semanticFamiliesFor(c *core.Ctx, backend string) []*SemCase {
	rng := rand.New(rand.NewSource(c.Seed))
	limit := c.Pick(24, 0)
	var gs []gen.Case
	gs = append(gs, gen.BinOps(rng, c.Pick(48, 0))...)
	gs = append(gs, gen.UnOpsConv(rng, limit)...)
	gs = append(gs, gen.Builtins(rng, limit)...)
	gs = append(gs, gen.MatOps(rng, c.Pick(6, 24))...)
	gs = append(gs, gen.ZeroInit()...)
	gs = append(gs, gen.LetCopy()...)
	gs = append(gs, gen.ContinuingOps()...)
	gs = append(gs, gen.CasgOrder()...)
	gs = append(gs, gen.RzswPrec()...)
	gs = append(gs, gen.MatDyn()...)
	gs = append(gs, gen.CtlNest()...)
	gs = append(gs, gen.MemCopy()...)
	gs = append(gs, gen.PtrArg()...)
	// random structured programs (own generator state, so that the table families above do not depend on their number)
	if randFamilyOn(backend) {
		gs = append(gs, gen.RandProgramsFor(rand.New(rand.NewSource(c.Seed*7919+13)), c.Pick(60, 300), c.Pick(6, 8), backend == "glsl")...)
	}
	var out []*SemCase
	for _, g := range gs {
		out = append(out, &SemCase{Family: g.Family, Desc: g.Desc, Prog: g.Prog, Inputs: g.Inputs})
	}
	return out
}

func meaningPreservingOpts(c *core.Ctx, backend string) []string {
	switch backend {
	case "spv":
		if c.Quick() {
			return []string{"default", "v1.5debug"}
		}
		return []string{"default", "v1.0", "v1.3", "v1.4", "v1.6", "debug", "noloopbound", "v1.5debug"}
	case "hlsl":
		if c.Quick() {
			return []string{"default", "sm60"}
		}
		return []string{"default", "sm50", "sm60", "sm66", "noloopbound", "nozero"}
	case "msl":
		if c.Quick() {
			return []string{"default", "v3.1"}
		}
		return []string{"default", "v1.2", "v2.4", "v3.1", "nozero", "noloopbound"}
	case "glsl":
		if c.Quick() {
			return []string{"430", "es310"}
		}
		return []string{"430", "450", "460", "es310", "es320"}
	}
	return nil
}

func runTranslation(prop string, t target, tier string) int {
	c := core.NewCtx(prop, tier, "translation_validation")
	c.Cov["rule"] = "program families (operator x type shape tables over boundary-operand grids, conversions, builtins, matrix arithmetic, accesses, control-flow skeletons, helper functions, memory) are evaluated by the TLA+ specification WgslSem.tla with TLC (expected final buffer words per input row; rows whose result WGSL does not pin are left undecided); each program is printed as WGSL, compiled by the real naga with every meaning-preserving option set, the emitted code is executed by an independent executor for the target language and the buffers compared word by word (padding masked). A case = (program, option set, input row); non-trivial if it executed and was compared or trapped; distinct by (backend, options, program, row)."
	c.Assumef("WGSL semantics as transcribed in spec/WgslSem.tla, Word32.tla, F32.tla (self-tested against native arithmetic)")
	c.Assumef("executor for %s reads the emitted code according to the target language (harness/%s)", t.Name, map[string]string{"spv": "spv", "hlsl": "hlslx", "msl": "mslx", "glsl": "glslx"}[t.Name])
	if n, err := SelfTestWord32(c); err != nil {
		c.BrokenF("Word32 self-test: %v", err)
		return c.Finish()
	} else {
		c.Cov["word32_selftest_rows"] = n
	}
	if n, err := SelfTestF32(c); err != nil {
		c.BrokenF("F32 self-test: %v", err)
		return c.Finish()
	} else {
		c.Cov["f32_selftest_rows"] = n
	}
	cases := semanticFamiliesFor(c, t.Name)
	onlyFam := os.Getenv("VERIF_FAMILY") // development aid: restrict to one family (evidence then says so)
	if onlyFam != "" {
		var keep []*SemCase
		for _, cs := range cases {
			if cs.Family == onlyFam {
				keep = append(keep, cs)
			}
		}
		cases = keep
		c.Assumef("restricted to family %q by VERIF_FAMILY (development run)", onlyFam)
	}
	if err := EvalSpec(c, cases, core.Cores()); err != nil {
		c.BrokenF("specification evaluation failed: %v", err)
		return c.Finish()
	}
	// control-flow skeletons: enumerated and evaluated by TLC (CtlGen.tla)
	var ctl []*SemCase
	var err error
	if onlyFam != "" && onlyFam != "ctl" {
	} else if c.Quick() {
		ctl, err = ctlCases(c, 3, 16, []int{int(c.Seed) % 16, int(c.Seed+5) % 16, int(c.Seed+11) % 16})
	} else {
		all := make([]int, 16)
		for i := range all {
			all[i] = i
		}
		ctl, err = ctlCases(c, 3, 16, all)
		// K = 4 was planned for this tier; CtlGen's skeleton set at K = 4 exceeds TLC's limit on the size of an
		// enumerated set (> 10^6 elements), so the tier stays at the complete K = 3 enumeration.
	}
	if err != nil {
		c.BrokenF("control-flow family: %v", err)
		return c.Finish()
	}
	c.Cov["ctl_programs"] = len(ctl)
	for i, cs := range ctl {
		cs.ID = 100000 + i
	}
	cases = append(cases, ctl...)
	// The random programs keep every index in range, so any bounds-check policy preserves their meaning.  For MSL they
	// run under the Restrict and Unchecked policies: under the default ReadZeroSkipWrite policy every dynamic index
	// used as an operand hits the recorded precedence defect of the `i < n ? a[i] : DefaultConstructible()` form (family
	// rzswprec), which would mask everything else.
	var st semStats
	if t.Name == "msl" {
		var rnd, rest []*SemCase
		for _, cs := range cases {
			if cs.Family == "rand" {
				rnd = append(rnd, cs)
			} else {
				rest = append(rest, cs)
			}
		}
		st = runSemantic(c, t, rest, meaningPreservingOpts(c, t.Name), defaultRowClass)
		if len(rnd) > 0 {
			s2 := runSemantic(c, t, rnd, []string{"restrict", "unchecked"}, defaultRowClass)
			st.Programs += s2.Programs
			st.Rows += s2.Rows
			st.Compared += s2.Compared
			st.Undecided += s2.Undecided
		}
	} else {
		st = runSemantic(c, t, cases, meaningPreservingOpts(c, t.Name), defaultRowClass)
	}
	c.Programs = st.Programs
	c.Cov["rows"] = st.Rows
	c.Cov["rows_compared"] = st.Compared
	c.Cov["rows_undecided_by_spec"] = st.Undecided
	if st.Rows > 0 && st.Compared*4 < st.Rows {
		c.BrokenF("only %d of %d rows could be judged (executor or front end rejects too much)", st.Compared, st.Rows)
	}
	return c.Finish()
}

// randFamilyOn: the random family is switched on per backend once its disagreements on the unchanged tree have been
// triaged (VERIF_RAND=1 forces it on for development runs).
func randFamilyOn(backend string) bool {
	if os.Getenv("VERIF_RAND") == "1" {
		return true
	}
	switch backend {
	case "spv", "hlsl", "glsl", "msl":
		return true // clean on the unchanged tree for seeds 1-3 after triage (DESIGN.md 13.4, 13.5); msl: under restrict / unchecked
	}
	return false
}
