package checks

import (
	"bytes"
	"encoding/binary"
	"encoding/json"
	"fmt"
	"math/rand"
	"os"
	"path/filepath"
	"regexp"
	"sort"
	"strings"
	"sync"
	"time"

	"github.com/gogpu/naga/dxil"
	"github.com/gogpu/naga/ir"

	"verif/harness/core"
	"verif/harness/drive"
	"verif/harness/dxbc"
	"verif/harness/gen"
	"verif/harness/wg"
)

func init() { Registry["C18"] = runC18 }

// ---------------------------------------------------------------------------------------------------------------------
// C18: DXIL output is a well-formed, self-consistent container with sound bitcode.
//
//   spec/Dxbc.tla       the format automaton (rules as a pure Step function over decoder events)
//   spec/DxbcTrace.tla  trace validation: many containers per TLC run, per-container verdicts in `bad`
//   spec/DxbcMC.tla     design level: abstract bit writer / container builder / module, all nestings, seeded Faults
//
// This file drives naga (generated programs + corpus x shader models x binding maps x hash modes), checks determinism,
// decodes the returned bytes with the independent decoder harness/dxbc, and hands the event streams to TLC.
// ---------------------------------------------------------------------------------------------------------------------

type c18Case struct {
	Family string // gen | corpus | golden | selftest
	Shader string
	Entry  string
	Src    string
	EpIdx  int
	SM     dxil.ShaderModel
	BMName string
	Bypass bool

	bin   []byte
	req   c18Request
	same  bool
	trace []byte // reset + events + fin
	nline int
	orig  []int // trace line (1-based, after reset) -> decoder event index
	// selftest
	expect []string // a rule with one of these prefixes must be reported
	base   int      // index of the uncorrupted case (-1 none)
}

func (cs *c18Case) id() string {
	h := "retail"
	if cs.Bypass {
		h = "bypass"
	}
	return fmt.Sprintf("%s/%s@%d.%d/%s/%s", cs.Shader, cs.Entry, cs.SM.Major, cs.SM.Minor, cs.BMName, h)
}

var c18SMs = []dxil.ShaderModel{dxil.SM6_0, dxil.SM6_1, dxil.SM6_2, dxil.SM6_3, dxil.SM6_4, dxil.SM6_5, dxil.SM6_6}
var c18BMs = []string{"none", "shift", "perm", "sparse"}

// c18BindingMap builds one of the binding-map shapes from the module's own bindings.
func c18BindingMap(name string, m *ir.Module) dxil.BindingMap {
	if name == "none" {
		return nil
	}
	bm := dxil.BindingMap{}
	k := 0
	for _, g := range m.GlobalVariables {
		if g.Binding == nil {
			continue
		}
		gr, b := g.Binding.Group, g.Binding.Binding
		loc := dxil.BindingLocation{Group: gr, Binding: b}
		switch name {
		case "shift":
			bm[loc] = dxil.BindTarget{Space: gr + 1, Register: b + 2}
		case "perm":
			bm[loc] = dxil.BindTarget{Space: b % 3, Register: 7*gr + 3*b + 1}
		case "sparse":
			if k%2 == 0 {
				bm[loc] = dxil.BindTarget{Space: gr + 4, Register: b + 16}
			}
		}
		k++
	}
	return bm
}

func c18Compile(m *ir.Module, opts dxil.Options) (out []byte, err error, panicked bool) {
	defer func() {
		if r := recover(); r != nil {
			out, err, panicked = nil, fmt.Errorf("panic: %v", r), true
		}
	}()
	out, err = dxil.Compile(m, opts)
	return out, err, false
}

// c18Single returns a shallow copy of m with only entry point k (dxil.Compile translates EntryPoints[0]).
func c18Single(m *ir.Module, k int) *ir.Module {
	single := *m
	single.EntryPoints = []ir.EntryPoint{m.EntryPoints[k]}
	return &single
}

// c18Build compiles one case three times (twice on one module, once on a re-lowered module) and prepares its trace.
// status: "" ok, "error" (ordinary error: allowed), "panic", "front" (front end rejects the program)
func c18Build(cs *c18Case) (status, msg string) {
	m, _, err := drive.Front(cs.Src)
	if err != nil {
		return "front", err.Error()
	}
	if cs.EpIdx >= len(m.EntryPoints) {
		return "front", "entry point index out of range"
	}
	one := c18Single(m, cs.EpIdx)
	ep := &one.EntryPoints[0]
	cs.Entry = ep.Name
	bm := c18BindingMap(cs.BMName, m)
	opts := dxil.Options{ShaderModel: cs.SM, UseBypassHash: cs.Bypass, BindingMap: bm}
	b1, err, pan := c18Compile(one, opts)
	if pan {
		return "panic", err.Error()
	}
	if err != nil {
		return "error", err.Error()
	}
	b2, err2, _ := c18Compile(one, opts)
	m3, _, err := drive.Front(cs.Src)
	var b3 []byte
	var err3 error
	if err == nil {
		b3, err3, _ = c18Compile(c18Single(m3, cs.EpIdx), dxil.Options{ShaderModel: cs.SM, UseBypassHash: cs.Bypass, BindingMap: c18BindingMap(cs.BMName, m3)})
	}
	cs.same = err2 == nil && err3 == nil && err == nil && bytes.Equal(b1, b2) && bytes.Equal(b1, b3)
	cs.bin = b1
	cs.req = c18AnyRequest()
	cs.req.Major, cs.req.Minor = int(cs.SM.Major), int(cs.SM.Minor)
	cs.req.Hash = "retail"
	if cs.Bypass {
		cs.req.Hash = "bypass"
	}
	// the interface the container must describe, from a freshly lowered module (Compile works on a clone, but be safe)
	if m4, _, err := drive.Front(cs.Src); err == nil && cs.EpIdx < len(m4.EntryPoints) {
		c18IfaceRequest(&cs.req, m4, &m4.EntryPoints[cs.EpIdx], c18BindingMap(cs.BMName, m4), cs.Family == "gen" || cs.Family == "genx" || cs.Family == "big")
	}
	return "", ""
}

// c18BitcodeSize returns BitcodeSize of the DXIL part (0 if there is none).
func c18BitcodeSize(bin []byte) int {
	ct, err := dxbc.ParseContainer(bin)
	if err != nil {
		return 0
	}
	d := ct.FindPart("DXIL")
	if d == nil || len(d.Data) < 24 {
		return 0
	}
	return int(binary.LittleEndian.Uint32(d.Data[20:]))
}

// c18Encode decodes the container and renders the trace of the case (container number cidx).
func c18Encode(cs *c18Case, cidx int) (internal []string) {
	evs := dxbc.Events(cs.bin)
	lines, orig, internal := c18Project(evs)
	var buf bytes.Buffer
	cs.nline = c18Trace(&buf, cidx, cs.req, lines, cs.same)
	cs.trace = buf.Bytes()
	cs.orig = orig
	return internal
}

var c18Digits = regexp.MustCompile(`[0-9]+`)

// c18Detail describes the decoder event a rule tripped on (used in reports and known-finding predicates).
func c18Detail(cs *c18Case, line int) (detail string, ev dxbc.Event) {
	// line: 1-based line inside the case's trace; 1 = reset, last = fin
	if line <= 1 {
		return "reset", nil
	}
	if line >= cs.nline {
		return "end-of-container", nil
	}
	evs := dxbc.Events(cs.bin)
	k := line - 2
	if k < 0 || k >= len(cs.orig) || cs.orig[k] >= len(evs) {
		return "?", nil
	}
	e := evs[cs.orig[k]]
	name, _ := e["ev"].(string)
	switch name {
	case "error":
		msg := c18Digits.ReplaceAllString(fmt.Sprint(e["msg"]), "#")
		return fmt.Sprintf("error[%v/%v] %s", e["layer"], e["part"], msg), e
	case "ir_inst":
		d := fmt.Sprintf("ir_inst op=%v", e["op"])
		if n, ok := e["callee_name"].(string); ok {
			d += " callee=" + n
		}
		if f := c18Typed(e); len(f) > 0 {
			d += " failed=" + strings.Join(f, ",")
		}
		return d, e
	case "part", "program_header", "sig", "sig_elem":
		p := e["fourcc"]
		if p == nil {
			p = e["part"]
		}
		d := fmt.Sprintf("%s %v", name, p)
		if n, ok := e["name"].(string); ok {
			d += " " + c18Digits.ReplaceAllString(n, "#")
		}
		return d, e
	case "ir_type":
		return fmt.Sprintf("ir_type kind=%v", e["kind"]), e
	case "ir_const":
		return fmt.Sprintf("ir_const kind=%v", e["kind"]), e
	case "ir_md":
		return fmt.Sprintf("ir_md kind=%v", e["kind"]), e
	case "enter_block", "exit_block", "record", "define_abbrev":
		b := e["id"]
		if b == nil {
			b = e["block"]
		}
		return fmt.Sprintf("%s block=%v", name, b), e
	}
	return name, e
}

// ---- TLC trace runs ------------------------------------------------------------------------------------------------

// at most core.Cores() TLC processes at any time (trace shards, design-level runs)
var c18Sem = make(chan struct{}, max(1, core.Cores()))

func c18TLC(c *core.Ctx, o core.TLCOpts) (*core.TLCResult, error) {
	c18Sem <- struct{}{}
	defer func() { <-c18Sem }()
	return c.RunTLC(o)
}

type c18Bad struct {
	C    int    `json:"c"`
	L    int    `json:"l"`
	Rule string `json:"rule"`
}

// c18Validate runs DxbcTrace over the cases (sharded over TLC processes); returns per case the violated rules with the
// line inside the case's trace.  ok=false: machinery failure (already recorded with BrokenF).
func c18Validate(c *core.Ctx, cases []*c18Case, maxLines, par int) (map[int][]c18Bad, bool) {
	type chunk struct {
		idx   []int
		start []int // first line (1-based) of each case in the chunk
		n     int
		buf   bytes.Buffer
	}
	// big cases first so that chunks fill evenly; chunks are then cut by size
	order := make([]int, len(cases))
	for i := range order {
		order[i] = i
	}
	sort.SliceStable(order, func(a, b int) bool { return cases[order[a]].nline > cases[order[b]].nline })
	var chunks []*chunk
	for _, i := range order {
		cs := cases[i]
		var ch *chunk
		for _, c2 := range chunks {
			if c2.n+cs.nline <= maxLines {
				ch = c2
				break
			}
		}
		if ch == nil {
			ch = &chunk{}
			chunks = append(chunks, ch)
		}
		ch.idx = append(ch.idx, i)
		ch.start = append(ch.start, ch.n+1)
		ch.buf.Write(cs.trace)
		ch.n += cs.nline
	}
	out := map[int][]c18Bad{}
	var mu sync.Mutex
	ok := true
	core.ParMap(len(chunks), par, func(k int) {
		ch := chunks[k]
		r, err := c18TLC(c, core.TLCOpts{Spec: "DxbcTrace", CfgText: "SPECIFICATION TSpec\nCHECK_DEADLOCK FALSE\n",
			Files: map[string][]byte{"trace.ndjson": ch.buf.Bytes()}, Workers: 1, HeapGB: 4, Timeout: 25 * time.Minute})
		mu.Lock()
		defer mu.Unlock()
		if err != nil || !r.OK || len(r.Printed) != 1 {
			ok = false
			tail := ""
			if r != nil {
				tail = r.Tail(25)
			}
			c.BrokenF("DxbcTrace run failed on a chunk of %d containers / %d lines: %v\n%s", len(ch.idx), ch.n, err, tail)
			return
		}
		c.AddTLC(r)
		var res struct {
			Consumed int      `json:"consumed"`
			Bad      []c18Bad `json:"bad"`
		}
		if err := json.Unmarshal([]byte(r.Printed[0]), &res); err != nil || res.Consumed != ch.n {
			ok = false
			c.BrokenF("DxbcTrace consumed %d of %d lines (%v)", res.Consumed, ch.n, err)
			return
		}
		for _, b := range res.Bad {
			// locate the case by line
			j := sort.Search(len(ch.start), func(x int) bool { return ch.start[x] > b.L }) - 1
			if j < 0 || ch.idx[j] != b.C {
				ok = false
				c.BrokenF("DxbcTrace verdict for container %d at line %d does not match the chunk layout", b.C, b.L)
				return
			}
			out[b.C] = append(out[b.C], c18Bad{C: b.C, L: b.L - ch.start[j] + 1, Rule: b.Rule})
		}
	})
	return out, ok
}

// ---- corrupted copies of real containers (binding self-test) ----------------------------------------------------------

func c18Clone(b []byte) []byte { return append([]byte(nil), b...) }

func c18SetBits(b []byte, bit, n int, v uint32) {
	for i := 0; i < n; i++ {
		p := bit + i
		if v&(1<<uint(i)) != 0 {
			b[p/8] |= 1 << uint(p%8)
		} else {
			b[p/8] &^= 1 << uint(p%8)
		}
	}
}

type c18Mut struct {
	name   string
	expect []string
	bin    []byte
}

// c18Mutations derives single-field corruptions of a well-formed container.
func c18Mutations(bin []byte) []c18Mut {
	var out []c18Mut
	add := func(name string, b []byte, expect ...string) { out = append(out, c18Mut{name, expect, b}) }
	ct, err := dxbc.ParseContainer(bin)
	if err != nil || len(ct.Parts) < 3 {
		return nil
	}
	le := binary.LittleEndian
	m := c18Clone(bin)
	le.PutUint32(m[24:], uint32(len(bin)+4))
	add("total size + 4", m, "container.size_is_file_length")
	last := ct.Parts[len(ct.Parts)-1]
	m = c18Clone(bin)
	le.PutUint32(m[last.Offset+4:], last.DeclaredSize+4)
	add("last part size + 4", m, "part.in_bounds")
	mid := ct.Parts[1]
	m = c18Clone(bin)
	le.PutUint32(m[mid.Offset+4:], mid.DeclaredSize+4)
	add("inner part size + 4", m, "part.no_overlap", "container.size_is_sum_of_parts")
	if mid.DeclaredSize >= 12 {
		m = c18Clone(bin)
		le.PutUint32(m[mid.Offset+4:], mid.DeclaredSize-4)
		add("inner part size - 4", m, "container.size_is_sum_of_parts")
	}
	m = c18Clone(bin)
	le.PutUint32(m[32+4:], le.Uint32(m[32+4:])+2)
	add("part offset + 2", m, "offset.aligned4")
	m = c18Clone(bin)
	m[9] ^= 0x40
	add("container digest bit flip", m, "container.digest_matches_content")
	m = c18Clone(bin)
	m[20] = 2
	add("container version 2", m, "container.version")
	if h := ct.FindPart("HASH"); h != nil {
		m = c18Clone(bin)
		m[h.DataStart+7] ^= 1
		add("HASH digest bit flip", m, "hash.digest_is_md5_of_bitcode")
	}
	d := ct.FindPart("DXIL")
	if d == nil {
		return out
	}
	ds := int(d.DataStart)
	m = c18Clone(bin)
	le.PutUint32(m[ds+4:], le.Uint32(m[ds+4:])+1)
	add("program size in dwords + 1", m, "program.size_in_dwords")
	m = c18Clone(bin)
	le.PutUint32(m[ds+20:], le.Uint32(m[ds+20:])-4)
	add("bitcode size - 4", m, "program.bitcode_fills_part")
	m = c18Clone(bin)
	le.PutUint32(m[ds:], le.Uint32(m[ds:])^(7<<16)) // another shader kind
	add("program kind changed", m, "program.stage_matches_request", "cross.psv_stage")
	m = c18Clone(bin)
	le.PutUint32(m[ds:], le.Uint32(m[ds:])+3) // shader model minor + 3
	add("program minor + 3", m, "cross.shader_model_metadata", "program.dxil_version")
	bc := ds + 8 + int(le.Uint32(bin[ds+16:]))
	m = c18Clone(bin)
	m[bc+2] = 0xC1
	add("bitcode magic", m, "bitstream.magic")
	evs := dxbc.Events(bin)
	nEnter := 0
	for _, e := range evs {
		switch e["ev"] {
		case "enter_block":
			nEnter++
			if nEnter == 1 || nEnter == 3 {
				lb := e["len_bit"].(int)
				m = c18Clone(bin)
				at := bc + lb/8
				le.PutUint32(m[at:], le.Uint32(m[at:])+1)
				add(fmt.Sprintf("length word of block %v + 1", e["id"]), m, "bitstream.block_length", "bitstream.item_inside_block", "decode.bitstream")
			}
			if nEnter == 1 {
				// abbreviation width of the MODULE block: vbr4 at bits 42..45
				word := le.Uint32(bin[bc+4:])
				wd := (word >> 10) & 0xF
				m = c18Clone(bin)
				le.PutUint32(m[bc+4:], word&^(0xF<<10)|((wd+1)&7)<<10)
				add("abbreviation width of the MODULE block", m, "bitstream.", "decode.bitstream", "decode.ir")
			}
		}
	}
	if s := ct.FindPart("ISG1"); s != nil {
		m = c18Clone(bin)
		le.PutUint32(m[s.DataStart:], le.Uint32(m[s.DataStart:])+1)
		add("ISG1 element count + 1", m, "sig.elements_in_bounds", "cross.psv_sig_counts", "sig.all_elements_decoded")
	}
	if s := ct.FindPart("OSG1"); s != nil && le.Uint32(bin[s.DataStart:]) >= 2 {
		// second element takes the first element's register and a full mask
		m = c18Clone(bin)
		e0, e1 := int(s.DataStart)+8, int(s.DataStart)+8+32
		copy(m[e1+20:e1+24], m[e0+20:e0+24])
		m[e1+24], m[e0+24] = 0x0F, 0x0F
		add("OSG1 elements share a register", m, "sig.no_register_overlap")
		m = c18Clone(bin)
		le.PutUint32(m[e1+4:], uint32(s.DeclaredSize)+100)
		add("OSG1 semantic name offset outside the part", m, "sig.name_in_part")
	}
	if p := ct.FindPart("PSV0"); p != nil {
		isz := int(le.Uint32(bin[p.DataStart:]))
		if isz >= 36 && int(p.DataStart)+4+isz+4 <= len(bin) {
			m = c18Clone(bin)
			m[int(p.DataStart)+4+24] ^= 4 // shader stage byte
			add("PSV0 stage", m, "cross.psv_stage")
			m = c18Clone(bin)
			m[int(p.DataStart)+4+28]++ // SigInputElements
			add("PSV0 input element count + 1", m, "cross.psv_sig_counts", "psv.", "decode.psv")
			rc := int(p.DataStart) + 4 + isz
			m = c18Clone(bin)
			le.PutUint32(m[rc:], le.Uint32(m[rc:])+1)
			add("PSV0 resource count + 1", m, "cross.psv_resource_count", "psv.", "decode.psv")
			if le.Uint32(bin[rc:]) > 0 {
				// first resource: lower bound above upper bound
				m = c18Clone(bin)
				le.PutUint32(m[rc+8+8:], le.Uint32(m[rc+8+12:])+5)
				add("PSV0 resource lower > upper", m, "psv.resource_range")
			}
		}
	}
	return out
}

// c18BitcodeMutations patches operands of unabbreviated records (naga writes every record unabbreviated: abbreviation
// id, vbr6 code, vbr6 #operands, vbr6 operands) - an index out of range in each index space.
func c18BitcodeMutations(bin []byte) []c18Mut {
	var out []c18Mut
	ct, err := dxbc.ParseContainer(bin)
	if err != nil {
		return nil
	}
	d := ct.FindPart("DXIL")
	if d == nil {
		return nil
	}
	le := binary.LittleEndian
	bc := int(d.DataStart) + 8 + int(le.Uint32(bin[int(d.DataStart)+16:]))
	evs := dxbc.Events(bin)
	// width of the abbreviation id per block id, from the walk
	width := map[int]int{}
	for _, e := range evs {
		if e["ev"] == "enter_block" {
			width[e["id"].(int)] = e["width"].(int)
		}
	}
	// raw operands of every record, by bit position (to find the bit offset of an operand)
	rawOps := map[int][]int{}
	rawCode := map[int]int{}
	rawN := map[int]int{}
	for _, e := range evs {
		if e["ev"] == "record" {
			ops, _ := e["ops"].([]int)
			rawOps[e["bit"].(int)] = ops
			rawCode[e["bit"].(int)], _ = e["code"].(int)
			rawN[e["bit"].(int)], _ = e["nops"].(int)
		}
	}
	vbr6 := func(v int) int {
		n := 6
		for v >= 32 {
			v >>= 5
			n += 6
		}
		return n
	}
	patch := func(name string, blockID, recBit, opIdx int, val uint32, expect ...string) {
		w, ok := width[blockID]
		ops := rawOps[recBit]
		if !ok || opIdx >= len(ops) || opIdx >= 16 || ops[opIdx] < 0 || ops[opIdx] >= 32 {
			return
		}
		off := w + vbr6(rawCode[recBit]) + vbr6(rawN[recBit])
		for j := 0; j < opIdx; j++ {
			if ops[j] < 0 {
				return
			}
			off += vbr6(ops[j])
		}
		m := c18Clone(bin)
		c18SetBits(m, bc*8+recBit+off, 5, val) // low 5 bits of a one-chunk vbr6 operand
		out = append(out, c18Mut{name, expect, m})
	}
	done := map[string]bool{}
	ntypes := 0
	for _, e := range evs {
		if e["ev"] == "ir_types_end" {
			ntypes = e["count"].(int)
		}
	}
	for _, e := range evs {
		switch e["ev"] {
		case "ir_type":
			ops, _ := e["ops"].([]int)
			if e["kind"] == "pointer" && !done["type"] && len(ops) == 2 && ops[0] < 32 && ntypes < 31 && e["nops"] == 2 {
				done["type"] = true
				patch("pointer type refers to type 31", 17, e["bit"].(int), 0, 31, "ir.type_ref_in_range")
			}
		case "ir_inst":
			bit := e["bit"].(int)
			switch e["op"] {
			case "ret":
				if e["nops"] == 1 && !done["ret"] {
					done["ret"] = true
					patch("ret operand is the value being defined (relative id 0)", 12, bit, 0, 0, "ir.")
				}
			case "br":
				if e["nops"] == 1 && !done["br"] {
					done["br"] = true
					patch("branch to basic block 29", 12, bit, 0, 29, "ir.branch_target_in_range")
				}
			case "call":
				if vn, _ := e["vn"].(int); !done["call"] && e["nops"].(int) >= 4 && e["explicit_type"] == true && vn >= 2 {
					// operands: paramattr, cc, fnty, callee(relative) ...: point the callee at the previous value
					done["call"] = true
					patch("call target is not a function", 12, bit, 3, 1, "ir.call_target_is_function", "ir.typed", "ir.record_operand_count", "decode.ir")
				}
			}
		case "ir_declareblocks":
			if n, _ := e["n"].(int); n < 30 && !done["bb"] {
				done["bb"] = true
				// the record is the first of the function block: find its bit via the matching bitstream record
				for _, r := range evs {
					if r["ev"] == "record" && r["block"] == 12 && r["code"] == 1 {
						patch("DECLAREBLOCKS + 1", 12, r["bit"].(int), 0, uint32(n+1), "ir.block_count")
						break
					}
				}
			}
		}
	}
	return out
}

var c18SelfShaders = map[string]string{
	"self_vertex": `
struct U { m: mat4x4<f32>, k: vec4<f32> }
@group(0) @binding(0) var<uniform> u: U;
@group(1) @binding(2) var<storage, read> s: array<f32>;
struct VOut { @builtin(position) pos: vec4<f32>, @location(0) uv: vec2<f32>, @location(1) @interpolate(flat) id: u32 }
@vertex fn vmain(@builtin(vertex_index) vi: u32, @location(0) p: vec3<f32>) -> VOut {
  var o: VOut;
  o.pos = u.m * vec4<f32>(p, 1.0) + u.k * s[vi];
  if (vi > 2u) { o.pos.x = o.pos.x * 2.0; }
  o.uv = p.xy;
  o.id = vi;
  return o;
}`,
	"self_compute": `
@group(0) @binding(0) var<storage, read_write> data: array<u32>;
fn helper(x: u32, n: u32) -> u32 {
  var acc = 0u;
  for (var i = 0u; i < n; i = i + 1u) { if (i % 3u == 0u) { continue; } acc = acc + x * i; }
  return acc;
}
@compute @workgroup_size(8, 2, 1) fn cmain(@builtin(global_invocation_id) gid: vec3<u32>) {
  data[gid.x] = helper(data[gid.x], gid.y + 3u);
}`,
}

// c18SelfTest: (1) the DXC-built containers of the repository must be accepted without a single violated rule (a rule
// that rejects one of them is wrong); (2) every single-field corruption of real containers must be rejected with the
// expected rule.  Returns the number of corruptions recognised.
func c18SelfTest(c *core.Ctx) (int, bool) {
	var cases []*c18Case
	goldens, _ := filepath.Glob(filepath.Join(core.RepoDir, "internal/dxcvalidator/bitcheck/testdata/golden-dxc/*.dxil"))
	sort.Strings(goldens)
	if len(goldens) == 0 {
		c.BrokenF("no DXC-built containers found under %s", core.RepoDir)
		return 0, false
	}
	addCase := func(cs *c18Case) int {
		cases = append(cases, cs)
		return len(cases) - 1
	}
	withMuts := func(baseIdx int, muts []c18Mut) {
		base := cases[baseIdx]
		for _, mu := range muts {
			addCase(&c18Case{Family: "selftest", Shader: base.Shader + " [" + mu.name + "]", bin: mu.bin, req: base.req, same: true,
				expect: mu.expect, base: baseIdx})
		}
	}
	for _, g := range goldens {
		b, err := os.ReadFile(g)
		if err != nil {
			c.BrokenF("%v", err)
			return 0, false
		}
		req := c18AnyRequest()
		req.Hash = "retail"
		req.Major, req.Minor = 6, 0
		switch {
		case strings.Contains(g, "_vs_"):
			req.Stage = 1
		case strings.Contains(g, "_fs_"), strings.Contains(g, "_ps_"):
			req.Stage = 0
		}
		i := addCase(&c18Case{Family: "golden", Shader: filepath.Base(g), bin: b, req: req, same: true, base: -1})
		withMuts(i, c18Mutations(b))
	}
	names := make([]string, 0, len(c18SelfShaders))
	for n := range c18SelfShaders {
		names = append(names, n)
	}
	sort.Strings(names)
	for _, n := range names {
		cs := &c18Case{Family: "selftest", Shader: n, Src: c18SelfShaders[n], SM: dxil.SM6_0, BMName: "none", base: -1}
		if st, msg := c18Build(cs); st != "" {
			// naga does not produce this container (the main check counts that); the DXC-built containers still carry the self-test
			c.Cov["selftest_shader_not_compiled"] = fmt.Sprintf("%s: %s: %.80s", n, st, msg)
			continue
		}
		i := addCase(cs)
		withMuts(i, c18Mutations(cs.bin))
		withMuts(i, c18BitcodeMutations(cs.bin))
	}
	for i, cs := range cases {
		if internal := c18Encode(cs, i); len(internal) > 0 && cs.base < 0 {
			c.BrokenF("decoder fault on %s: %v", cs.Shader, internal)
			return 0, false
		}
	}
	bad, ok := c18Validate(c, cases, 60000, min(4, core.Cores()))
	if !ok {
		return 0, false
	}
	rules := func(i int) map[string]bool {
		m := map[string]bool{}
		for _, b := range bad[i] {
			m[b.Rule] = true
		}
		return m
	}
	detected, skippedBase := 0, 0
	for i, cs := range cases {
		switch {
		case cs.Family == "golden":
			if len(bad[i]) > 0 {
				c.BrokenF("the specification rejects the DXC-built container %s: %v (a rule that rejects a DXC container is wrong)", cs.Shader, bad[i])
				ok = false
			}
		case cs.base >= 0:
			if cases[cs.base].Family != "golden" && len(bad[cs.base]) > 0 {
				// the naga-built baseline is itself rejected (reported by the main check, not here): its corruptions prove nothing
				skippedBase++
				continue
			}
			baseRules, got := rules(cs.base), rules(i)
			hit := ""
			for r := range got {
				if baseRules[r] {
					continue
				}
				for _, p := range cs.expect {
					if strings.HasPrefix(r, p) {
						hit = r
					}
				}
			}
			if hit == "" {
				var gs []string
				for r := range got {
					gs = append(gs, r)
				}
				sort.Strings(gs)
				c.BrokenF("binding self-test: corruption %q was not rejected with any of %v (reported: %v)", cs.Shader, cs.expect, gs)
				ok = false
			} else {
				detected++
			}
		}
	}
	if skippedBase > 0 {
		c.Cov["selftest_corruptions_skipped_baseline_rejected"] = skippedBase
	}
	return detected, ok
}

// ---- the check -----------------------------------------------------------------------------------------------------------

var c18AllFaults = []string{"len_off_by_one", "len_in_bytes", "width_not_restored", "missing_end_block", "no_align_on_exit", "no_align_on_enter",
	"abbrev_before_define", "blockinfo_without_setbid", "part_size_off_by_4", "total_size_wrong", "offset_unaligned", "hash_wrong_range",
	"digest_wrong_range", "program_size_bytes", "psv_count_mismatch", "stage_mismatch", "type_ref_oob", "value_ref_oob", "md_ref_oob",
	"missing_terminator", "bb_count_mismatch", "call_param_mismatch", "call_target_not_function"}

func c18MCConfig(maxOps int, faults []string) string {
	q := make([]string, len(faults))
	for i, f := range faults {
		q[i] = fmt.Sprintf("%q", f)
	}
	s := fmt.Sprintf("SPECIFICATION Spec\nCONSTANTS MaxDepth = 3 MaxOps = %d Kinds = {\"bitstream\", \"container\", \"module\"}\n Faults = {%s}\n"+
		"INVARIANTS Accepted Detect BodyAligned WidthMatchesStack\nCHECK_DEADLOCK FALSE\n", maxOps, strings.Join(q, ", "))
	if len(faults) > 0 {
		s += "POSTCONDITION AllDetected\n"
	}
	return s
}

func runC18(tier, replay string) int {
	var replayBytes []byte
	var replayErr error
	if replay != "" { // read before NewCtx clears the stale replay files of this property
		replayBytes, replayErr = os.ReadFile(replay)
	}
	c := core.NewCtx("C18", tier, "model_checking")
	c.Cov["rule"] = "Containers returned by dxil.Compile are decoded by the independent DXBC/LLVM-bitstream reader harness/dxbc into an event stream (header, part table, parts, program header, hashes, signature and PSV0 records, every ENTER_SUBBLOCK / DEFINE_ABBREV / record / END_BLOCK with bit positions, type/value/metadata index uses, DXIL metadata); TLC validates every event against the format automaton spec/Dxbc.tla (DxbcTrace.tla; many containers per run, per-container verdicts). Programs: seeded generator of single-entry vertex/fragment/compute modules (scalars, vectors, matrices, uniform/storage buffers, control flow, helper calls, IO structs, builtins), semantic-family compute programs, programs of 60-2600 statements (5-200 KiB of bitcode; family big), and every corpus entry point dxil.Compile accepts; configurations: shader model 6.0-6.6 x binding map {none, shift, perm, sparse} x {retail, bypass} hash. Each case is compiled twice on one module and once on a re-lowered module (identical bytes required). The expected interface (signature elements, resources, entry name, thread counts) is derived from the IR entry point by the harness. A case is one (program, entry point, configuration); it is non-trivial when its DXIL part holds a function body that decoded; distinct by program text + configuration. Design level: DxbcMC.tla (abstract bit writer with back-patched lengths, container builder, module) over all nestings to depth 3; every seeded fault must be rejected; corrupted copies of DXC-built and naga-built containers must be rejected with the expected rule."
	rng := rand.New(rand.NewSource(c.Seed))

	// ---- design level + seeded faults (runs concurrently with the compilation work) -----------------------------------
	var wgMC sync.WaitGroup
	var mcFree, mcFault *core.TLCResult
	var mcErr1, mcErr2 error
	dev := os.Getenv("C18_DEV_NOSELFTEST") != "" // development aid only: skip the self-tests (the run is then reported BROKEN)
	if dev {
		c.Assumef("DEVELOPMENT RUN without self-tests (C18_DEV_NOSELFTEST) - not a verdict")
		fmt.Println("DEVELOPMENT RUN without self-tests - not a verdict")
	}
	wgMC.Add(2)
	go func() {
		if dev {
			wgMC.Done()
			return
		}
		defer wgMC.Done()
		mcFree, mcErr1 = c18TLC(c, core.TLCOpts{Spec: "DxbcMC", CfgText: c18MCConfig(c.Pick(5, 6), nil), Workers: 1, Timeout: 20 * time.Minute,
			Coverage: !c.Quick()})
	}()
	go func() {
		if dev {
			wgMC.Done()
			return
		}
		defer wgMC.Done()
		// one worker: the Detect invariant records detections in TLC registers read by the postcondition
		mcFault, mcErr2 = c18TLC(c, core.TLCOpts{Spec: "DxbcMC", CfgText: c18MCConfig(4, c18AllFaults), Workers: 1, Timeout: 15 * time.Minute})
	}()

	// ---- binding self-test -------------------------------------------------------------------------------------------------
	detected, ok := 0, true
	if !dev {
		detected, ok = c18SelfTest(c)
	}
	if !ok {
		wgMC.Wait()
		return c.Finish()
	}
	c.Cov["selftest_corruptions_rejected"] = detected

	// ---- cases ---------------------------------------------------------------------------------------------------------------
	var cases []*c18Case
	cfg := func(cs *c18Case, k int) {
		// the first configurations walk through every shader model / map / hash mode; later ones are random
		if k < len(c18SMs)*2 {
			cs.SM = c18SMs[k%len(c18SMs)]
			cs.BMName = c18BMs[(k/2)%len(c18BMs)]
			cs.Bypass = k%2 == 1
		} else {
			cs.SM = c18SMs[rng.Intn(len(c18SMs))]
			cs.BMName = c18BMs[rng.Intn(len(c18BMs))]
			cs.Bypass = rng.Intn(3) == 0
		}
	}
	// "gen": constructs with known defects left out (c18GenOff) - a violation there is new; "genx": every construct
	ngen, ngenx := c.Pick(24, 620), c.Pick(9, 160)
	for i := 0; i < ngen+ngenx; i++ {
		off, famName := c18GenOff, "gen"
		if i >= ngen {
			off, famName = c18GenAll, "genx"
		}
		p := c18Generate(c.Seed, i, off)
		cs := &c18Case{Family: famName, Shader: p.Name, Src: p.Src, base: -1}
		cfg(cs, i)
		cases = append(cases, cs)
	}
	// the size dimension: programs of 60 .. 2600 statements (5 .. 200 KiB of bitcode), straight-line and looped, compute and
	// vertex; the quick tier always has one container above 32 KiB and one above 64 KiB of bitcode
	type bigSpec struct {
		n      int
		looped bool
		stage  string
	}
	odd := c.Seed%2 == 1
	bigs := []bigSpec{{60, !odd, "compute"}, {500, odd, "vertex"}, {1000, !odd, "compute"}}
	if !c.Quick() {
		bigs = nil
		for _, n := range []int{60, 300, 500, 1000} {
			for _, l := range []bool{false, true} {
				for _, st := range []string{"compute", "vertex"} {
					bigs = append(bigs, bigSpec{n, l, st})
				}
			}
		}
		bigs = append(bigs, bigSpec{1600, false, "compute"}, bigSpec{1600, true, "vertex"}, bigSpec{2600, odd, "compute"})
	}
	for i, b := range bigs {
		p := c18GenerateBig(c.Seed, i, b.n, b.looped, b.stage)
		cs := &c18Case{Family: "big", Shader: p.Name, Src: p.Src, base: -1}
		cfg(cs, 7*i+int(c.Seed))
		cases = append(cases, cs)
	}
	// fixed probe programs: one per construct with a known defect (and clean controls)
	pnames := make([]string, 0, len(c18Probes))
	for n := range c18Probes {
		pnames = append(pnames, n)
	}
	sort.Strings(pnames)
	for i, n := range pnames {
		cs := &c18Case{Family: "probe", Shader: n, Src: c18Probes[n], base: -1, SM: c18SMs[i%len(c18SMs)], BMName: "none"}
		cases = append(cases, cs)
	}
	// compute programs of the semantic families (operators, conversions, builtins, matrices)
	var fam []gen.Case
	fam = append(fam, gen.BinOps(rng, 4)...)
	fam = append(fam, gen.UnOpsConv(rng, 4)...)
	fam = append(fam, gen.Builtins(rng, 4)...)
	fam = append(fam, gen.MatOps(rng, 4)...)
	rng.Shuffle(len(fam), func(a, b int) { fam[a], fam[b] = fam[b], fam[a] })
	if n := c.Pick(9, 150); len(fam) > n {
		fam = fam[:n]
	}
	for i, f := range fam {
		cs := &c18Case{Family: "fam", Shader: fmt.Sprintf("fam%d-%s", i, f.Family), Src: wg.Print(f.Prog), base: -1}
		cfg(cs, 100+i)
		cases = append(cases, cs)
	}
	names, texts := corpusSources()
	if len(texts) < 50 {
		c.BrokenF("corpus not found under %s", core.RepoDir)
		wgMC.Wait()
		return c.Finish()
	}
	type centry struct {
		shader, src string
		ep          int
	}
	var entries []centry
	for i, src := range texts {
		if replay != "" {
			break
		}
		m, _, err := drive.Front(src)
		if err != nil {
			continue
		}
		for k := range m.EntryPoints {
			entries = append(entries, centry{strings.TrimSuffix(names[i], ".wgsl"), src, k})
		}
	}
	if os.Getenv("C18_CORPUS_ALL") != "" { // development aid: every corpus entry point once, default configuration
		for _, e := range entries {
			cases = append(cases, &c18Case{Family: "corpus", Shader: e.shader, Src: e.src, EpIdx: e.ep, base: -1, SM: dxil.SM6_0, BMName: "none"})
		}
		c.Assumef("development run: C18_CORPUS_ALL")
	} else if c.Quick() {
		perm := rng.Perm(len(entries))
		for j, p := range perm[:min(16, len(perm))] {
			e := entries[p]
			cs := &c18Case{Family: "corpus", Shader: e.shader, Src: e.src, EpIdx: e.ep, base: -1}
			cfg(cs, 1000+j)
			cases = append(cases, cs)
		}
	} else {
		for j, e := range entries {
			for v := 0; v < 3; v++ {
				cs := &c18Case{Family: "corpus", Shader: e.shader, Src: e.src, EpIdx: e.ep, base: -1}
				if v == 0 {
					cs.SM, cs.BMName = dxil.SM6_0, "none"
				} else {
					cfg(cs, (j*2+v)%14+(v-1)*1000)
				}
				cases = append(cases, cs)
			}
		}
	}

	// --replay file: only the case recorded in the replay file
	if replay != "" {
		var rf struct {
			Desc map[string]string `json:"desc"`
			Case struct {
				Source   string   `json:"source"`
				EntryIdx int      `json:"entry_index"`
				SM       []uint32 `json:"shader_model"`
				BM       string   `json:"binding_map"`
				Bypass   bool     `json:"bypass_hash"`
			} `json:"case"`
		}
		b, err := replayBytes, replayErr
		if err != nil || json.Unmarshal(b, &rf) != nil || len(rf.Case.SM) != 2 {
			c.BrokenF("cannot read replay file %s: %v", replay, err)
			wgMC.Wait()
			return c.Finish()
		}
		cases = []*c18Case{{Family: rf.Desc["family"], Shader: rf.Desc["shader"], Src: rf.Case.Source, EpIdx: rf.Case.EntryIdx,
			SM: dxil.ShaderModel{Major: rf.Case.SM[0], Minor: rf.Case.SM[1]}, BMName: rf.Case.BM, Bypass: rf.Case.Bypass, base: -1}}
	}
	// development aid only: C18_ONLY=fam1,fam2 keeps the named families
	if only := os.Getenv("C18_ONLY"); only != "" {
		var keep []*c18Case
		for _, cs := range cases {
			if strings.Contains(","+only+",", ","+cs.Family+",") {
				keep = append(keep, cs)
			}
		}
		cases = keep
		c.Assumef("development run: C18_ONLY=%s", only)
	}
	// development aid only: C18_LIMIT=n keeps a seeded sample of n cases (never set in real runs; recorded in the evidence)
	if lim := os.Getenv("C18_LIMIT"); lim != "" {
		n := 0
		fmt.Sscan(lim, &n)
		if n > 0 && n < len(cases) {
			rng.Shuffle(len(cases), func(a, b int) { cases[a], cases[b] = cases[b], cases[a] })
			cases = cases[:n]
			c.Assumef("development run: C18_LIMIT=%d cases", n)
		}
	}
	// ---- compile -------------------------------------------------------------------------------------------------------------
	status := make([]string, len(cases))
	msgs := make([]string, len(cases))
	core.ParMap(len(cases), core.Cores(), func(i int) { status[i], msgs[i] = c18Build(cases[i]) })
	var live []*c18Case
	errs := map[string]int{}
	nerr, nfront := 0, 0
	progs := map[string]bool{}
	for i, cs := range cases {
		switch status[i] {
		case "":
			live = append(live, cs)
			progs[cs.Src] = true
		case "panic":
			c.Skip("panic")
		case "front":
			nfront++
			if cs.Family == "corpus" {
				c.Skip("front end rejects the corpus shader")
			}
		case "error":
			nerr++
			k := c18Digits.ReplaceAllString(msgs[i], "#")
			if len(k) > 90 {
				k = k[:90]
			}
			errs[k]++
		}
	}
	c.Cov["compile_errors_allowed_by_the_property"] = nerr
	c.Cov["generated_programs_rejected_by_the_front_end"] = nfront
	c.Programs = len(progs)
	if len(live) < len(cases)/3 {
		c.BrokenF("only %d of %d cases produced a container (errors: %v)", len(live), len(cases), errs)
		wgMC.Wait()
		return c.Finish()
	}
	// decode + render (parallel), container number = index in live
	internal := make([][]string, len(live))
	core.ParMap(len(live), core.Cores(), func(i int) { internal[i] = c18Encode(live[i], i) })
	var valid []*c18Case
	for i, cs := range live {
		if len(internal[i]) > 0 {
			c.Skip("decoder fault")
			continue
		}
		valid = append(valid, cs)
	}
	// renumber: the container number in the trace is the index in `valid`
	core.ParMap(len(valid), core.Cores(), func(i int) { c18Encode(valid[i], i) })
	totalLines := 0
	for _, cs := range valid {
		totalLines += cs.nline
	}
	c.Cov["events"] = totalLines
	bad, ok := c18Validate(c, valid, c.Pick(40000, 70000), min(c.Pick(8, 12), core.Cores()))
	if ok {
		cov := map[string]int{}
		for i, cs := range valid {
			c.Traces++
			c.Eval(cs.Src+"|"+cs.id(), cs.nline > 150)
			cov["sm6."+fmt.Sprint(cs.SM.Minor)]++
			cov["bm."+cs.BMName]++
			cov["family."+cs.Family]++
			cov["stage."+fmt.Sprint(cs.req.Stage)]++
			if cs.Bypass {
				cov["hash.bypass"]++
			} else {
				cov["hash.retail"]++
			}
			if cs.req.Iface == "check" {
				cov["interface_expectation_checked"]++
			}
			switch bc := c18BitcodeSize(cs.bin); {
			case bc > 64<<10:
				cov["bitcode_over_64KiB"]++
			case bc > 32<<10:
				cov["bitcode_32_to_64KiB"]++
			case bc > 8<<10:
				cov["bitcode_8_to_32KiB"]++
			default:
				cov["bitcode_under_8KiB"]++
			}
			if cs.req.Res != "none" {
				cov["resource_expectation."+cs.req.Res]++
			}
			if i < 4 {
				c.Sample(map[string]any{"case": cs.id(), "bytes": len(cs.bin), "events": cs.nline, "request": cs.req})
			}
			for _, b := range bad[i] {
				detail, _ := c18Detail(cs, b.L)
				c.Disagree++
				if os.Getenv("C18_DEV_LIST") != "" { // development aid: list every (case, rule)
					fmt.Printf("LIST %s | %s | %s | %s\n", cs.Family, cs.id(), b.Rule, detail)
				}
				desc := map[string]string{"rule": b.Rule, "family": cs.Family, "shader": cs.Shader, "entry": cs.Entry, "stage": fmt.Sprint(cs.req.Stage),
					"sm": fmt.Sprintf("%d.%d", cs.SM.Major, cs.SM.Minor), "bm": cs.BMName, "hash": cs.req.Hash, "detail": detail,
					"sig": b.Rule + " @ " + detail}
				c.Report(fmt.Sprintf("%s: rule %s violated at %s (trace line %d of %d)", cs.id(), b.Rule, detail, b.L, cs.nline), desc,
					map[string]any{"source": cs.Src, "entry": cs.Entry, "entry_index": cs.EpIdx, "shader_model": []uint32{cs.SM.Major, cs.SM.Minor},
						"binding_map": cs.BMName, "bypass_hash": cs.Bypass, "rule": b.Rule, "detail": detail, "request": cs.req})
			}
		}
		c.Cov["configurations"] = cov
		// vacuity guard of the size dimension: the big programs that compiled must reach the sizes they are there for
		nbig := 0
		for _, cs := range valid {
			if cs.Family == "big" {
				nbig++
			}
		}
		if replay == "" && os.Getenv("C18_ONLY") == "" && os.Getenv("C18_LIMIT") == "" && nbig == len(bigs) && (cov["bitcode_over_64KiB"] == 0 || cov["bitcode_32_to_64KiB"] == 0) {
			c.BrokenF("size dimension miscalibrated: %d containers above 64 KiB and %d between 32 and 64 KiB of bitcode", cov["bitcode_over_64KiB"], cov["bitcode_32_to_64KiB"])
		}
	}

	wgMC.Wait()
	if dev {
		return c.Finish()
	}
	if mcErr1 != nil || mcFree == nil || !mcFree.OK {
		t := ""
		if mcFree != nil {
			t = mcFree.Violated + " " + mcFree.Err + "\n" + mcFree.Tail(25)
		}
		c.BrokenF("DxbcMC design check failed (the reader rejects an output of the fault-free abstract writer): %v %s", mcErr1, t)
	} else {
		c.AddTLC(mcFree)
		if mcFree.Distinct < 1000 {
			c.BrokenF("DxbcMC explored only %d states (vacuous)", mcFree.Distinct)
		}
	}
	if mcErr2 != nil || mcFault == nil || !mcFault.OK {
		t := ""
		if mcFault != nil {
			t = mcFault.Violated + " " + mcFault.Err + "\n" + strings.Join(mcFault.Printed, "\n") + "\n" + mcFault.Tail(12)
		}
		c.BrokenF("DxbcMC self-test: a seeded fault was not rejected (or the run failed): %v %s", mcErr2, t)
	} else {
		c.AddTLC(mcFault)
		c.Cov["selftest_faults_detected"] = len(c18AllFaults)
	}
	if len(errs) > 0 {
		c.Cov["compile_error_classes"] = errs
	}
	if c.Skips() > len(cases)/3 {
		c.BrokenF("%d of %d cases skipped", c.Skips(), len(cases))
	}
	return c.Finish()
}
