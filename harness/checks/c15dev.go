package checks

import (
	"fmt"
	"math/rand"
	"sort"
	"strconv"
	"strings"
	"sync"

	"verif/harness/core"

	"verif/harness/gen"
)

// C15Dev is the development aid behind cmd/c15probe.
func C15Dev(args []string) int {
	if len(args) == 0 {
		fmt.Println("usage: c15probe list [substr] | show <desc> <backend> <pol> [row|class] [noemit]")
		return 2
	}
	rng := rand.New(rand.NewSource(1))
	var all []gen.PolicyCase
	all = append(all, gen.PolicyIndexCases(rng, nil)...)
	all = append(all, gen.PolicyOpCases(rng, 0)...)
	all = append(all, gen.PolicyUninitCases()...)
	switch args[0] {
	case "list":
		rows := 0
		for _, cs := range all {
			rows += len(cs.Inputs)
			if len(args) < 2 || strings.Contains(cs.Desc, args[1]) {
				fmt.Printf("%-50s rows=%d\n", cs.Desc, len(cs.Inputs))
			}
		}
		fmt.Println(len(all), "programs", rows, "rows")
	case "front":
		bad := map[string]int{}
		for i := range all {
			cc := c15Compile(&all[i], "spv", "UU")
			if cc.err != "" {
				bad[cc.err]++
				fmt.Println(all[i].Desc, ":", cc.err)
			}
		}
		fmt.Println(bad)
	case "sweep":
		// executor-only sweep (no TLC): trap and skip classes over the whole family
		backends := []string{"spv", "hlsl", "msl", "glsl"}
		if len(args) > 1 {
			backends = strings.Split(args[1], ",")
		}
		type agg struct {
			n   int
			ex  string
			oob map[bool]int
		}
		var mu sync.Mutex
		res := map[string]*agg{}
		core.ParMap(len(all), core.Cores(), func(i int) {
			cs := &all[i]
			if len(args) > 2 && !strings.Contains(cs.Desc, args[2]) {
				return
			}
			for pol, bos := range c15PolsFor(cs, backends, true) {
				for _, bo := range bos {
					be := bo[0]
					cc := c15Compile(cs, be, pol)
					if cc.err != "" {
						mu.Lock()
						k := be + "|" + pol + "|COMPILE|" + cc.err
						if res[k] == nil {
							res[k] = &agg{ex: cs.Desc, oob: map[bool]int{}}
						}
						res[k].n++
						mu.Unlock()
						continue
					}
					for row := range cs.Inputs {
						if pol == "UU" && cs.OOB[row] {
							continue
						}
						if c15OutsideGLSL(cs, row, be) {
							continue
						}
						r, why := c15Exec(cs, row, be, pol, cc)
						k := ""
						if r == nil {
							k = fmt.Sprintf("%s|%s|SKIP|%s|%s|%s|%s", be, pol, cs.Form, cs.Space, cs.Op, why)
						} else if r.trap != "" {
							cl := ""
							if cs.Kind == "op" {
								cl = cs.RowClass[row]
							}
							k = fmt.Sprintf("%s|%s|TRAP|%s|%s|%s|%s|%s", be, pol, cs.Form, cs.Space, cs.Op, cl, trimReason(r.trap))
						} else {
							continue
						}
						mu.Lock()
						if res[k] == nil {
							res[k] = &agg{ex: fmt.Sprintf("%s row %d", cs.Desc, row), oob: map[bool]int{}}
						}
						res[k].n++
						res[k].oob[cs.OOB[row]]++
						mu.Unlock()
					}
				}
			}
		})
		var ks []string
		for k := range res {
			ks = append(ks, k)
		}
		sort.Strings(ks)
		for _, k := range ks {
			fmt.Printf("%6d oob=%d inr=%d %s   e.g. %s\n", res[k].n, res[k].oob[true], res[k].oob[false], k, res[k].ex)
		}
	case "show":
		for i := range all {
			cs := &all[i]
			if cs.Desc != args[1] {
				continue
			}
			be, pol := args[2], args[3]
			fmt.Println(c15Src(cs))
			cc := c15Compile(cs, be, pol)
			if cc.err != "" {
				fmt.Println("COMPILE:", cc.err)
				return 1
			}
			if len(args) < 6 {
				fmt.Println(emittedText(target{Name: be}, cc.art))
			}
			for row := range cs.Inputs {
				if len(args) > 4 {
					if n, err := strconv.Atoi(args[4]); err == nil {
						if n != row {
							continue
						}
					} else if !strings.Contains(cs.RowClass[row], args[4]) {
						continue
					}
				}
				r, why := c15Exec(cs, row, be, pol, cc)
				if r == nil {
					fmt.Println("row", row, cs.RowClass[row], "SKIP", why)
					continue
				}
				fmt.Printf("row %d [%s] in=%v trap=%q\n  acc=%s\n  out=%v\n", row, cs.RowClass[row], cs.Inputs[row][0], r.trap, c15BriefAcc(r.acc), r.words[1:])
			}
			return 0
		}
		fmt.Println("no such program")
		return 1
	}
	return 0
}
