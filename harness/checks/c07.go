package checks

import (
	"encoding/json"
	"fmt"
	"math/rand"
	"sort"
	"strings"
	"time"

	"github.com/gogpu/naga/ir"
	"github.com/gogpu/naga/spirv"

	"verif/harness/core"
	"verif/harness/drive"
	"verif/harness/wg"
)

func init() { Registry["C07"] = runC07 }

// layoutCase is one line printed by LayoutGen.tla.
type layoutCase struct {
	T       *wg.AType `json:"t"`
	Uniform bool      `json:"uniform"`
	Runtime bool      `json:"runtime"`
	Atomic  bool      `json:"atomic"`
	id      int
}

func layoutCfg(maxMembers, maxPool int, leaf, aligns, sizes, counts string, rt bool) string {
	return fmt.Sprintf(`SPECIFICATION Spec
CONSTANTS
  MaxMembers = %d
  MaxPool = %d
  LeafSel = "%s"
  AlignAttrs = %s
  SizeDeltas = %s
  ArrayCounts = %s
  WithRuntime = %s
INVARIANTS LayoutInv BuilderInv
CHECK_DEADLOCK FALSE
`, maxMembers, maxPool, leaf, aligns, sizes, counts, strings.ToUpper(fmt.Sprint(rt)))
}

func runC07(tier, replay string) int {
	c := core.NewCtx("C07", tier, "model_checking")
	c.Cov["rule"] = "TLC explores the struct-builder state machine of LayoutGen.tla (exhaustive at the stated bounds, plus seeded simulation for nested types), checks the layout invariants on every reachable struct and prints each with the WGSL-prescribed offsets/sizes/strides; every printed type is declared in a WGSL module as storage/uniform/workgroup variable, compiled by the real naga, and the IR offsets/spans/strides, ir.TypeSize, the SPIR-V Offset/ArrayStride/MatrixStride decorations and the layouts implied by the emitted MSL/HLSL/GLSL text are compared with the specification. A case is non-trivial if the struct has >= 2 members or nests an aggregate; distinct by the annotated type tree."
	c.Assumef("WGSL layout rules as transcribed in spec/Layout.tla (AlignOf/SizeOf/StrideOf/OffsetOfMember, @align/@size)")

	var cases []layoutCase
	collect := func(r *core.TLCResult, what string) bool {
		if !r.OK {
			if r.Violated != "" {
				c.BrokenF("Layout.tla: %s: TLC reports %s (the specification's own invariant fails: specification error)\n%s", what, r.Violated, r.Tail(30))
			} else {
				c.BrokenF("Layout.tla: %s: TLC failed: %s\n%s", what, r.Err, r.Tail(30))
			}
			return false
		}
		c.AddTLC(r)
		for _, l := range r.Printed {
			var lc layoutCase
			if err := json.Unmarshal([]byte(l), &lc); err != nil {
				c.BrokenF("cannot parse TLC output line: %v: %.200s", err, l)
				return false
			}
			lc.id = len(cases)
			cases = append(cases, lc)
		}
		return true
	}

	type run struct {
		name string
		o    core.TLCOpts
	}
	var runs []run
	if c.Quick() {
		runs = append(runs,
			run{"exhaustive<=2 members", core.TLCOpts{Spec: "LayoutGen", CfgText: layoutCfg(2, 1, "all", "{0, 16}", "{999, 12}", "{3, 4}", true), Workers: 4}},
			run{"f32only<=3 members", core.TLCOpts{Spec: "LayoutGen", CfgText: layoutCfg(3, 1, "f32only", "{0, 16}", "{999}", "{}", false), Workers: 2}},
			run{"nested simulation", core.TLCOpts{Spec: "LayoutGen", CfgText: layoutCfg(3, 3, "all", "{0, 8, 16, 32}", "{999, 0, 12, 20}", "{2, 3, 5}", true), Simulate: "num=400", Depth: 12, Seed: c.Seed}},
		)
	} else {
		runs = append(runs,
			run{"exhaustive<=2 members, all attrs", core.TLCOpts{Spec: "LayoutGen", CfgText: layoutCfg(2, 1, "all", "{0, 8, 16, 32}", "{999, 0, 12}", "{3, 4}", true), Workers: 8, HeapGB: 8}},
			run{"f32only<=3 members", core.TLCOpts{Spec: "LayoutGen", CfgText: layoutCfg(3, 1, "f32only", "{0, 16, 32}", "{999, 4}", "{2}", true), Workers: 8, HeapGB: 8}},
			run{"nested simulation", core.TLCOpts{Spec: "LayoutGen", CfgText: layoutCfg(4, 3, "all", "{0, 8, 16, 32, 64}", "{999, 0, 4, 12, 20}", "{1, 2, 3, 5}", true), Simulate: "num=2500", Depth: 16, Seed: c.Seed}},
		)
	}
	results := make([]*core.TLCResult, len(runs))
	core.ParMap(len(runs), len(runs), func(i int) {
		o := runs[i].o
		o.Timeout = 50 * time.Minute
		r, err := c.RunTLC(o)
		if err != nil {
			c.BrokenF("TLC: %v", err)
			return
		}
		results[i] = r
	})
	exh := true
	for i, r := range results {
		if r == nil || !collect(r, runs[i].name) {
			return c.Finish()
		}
	}
	c.Cov["exhaustive"] = exh
	c.Cov["tlc_runs"] = func() []string {
		var s []string
		for i, r := range runs {
			s = append(s, fmt.Sprintf("%s: %d states, %d types printed", r.name, results[i].Distinct, len(results[i].Printed)))
		}
		return s
	}()

	// replay in batches
	const batch = 40
	nb := (len(cases) + batch - 1) / batch
	// SPIR-V backends that are reused across batches (the history dimension: state left by one module must not leak
	// into the layout decorations of the next)
	pool := make(chan *spirv.Backend, core.Cores())
	for i := 0; i < core.Cores(); i++ {
		pool <- spirv.NewBackend(drive.SpvOptions([]string{"default", "v1.3", "v1.4", "debug"}[i%4]))
	}
	core.ParMap(nb, core.Cores(), func(b int) {
		lo, hi := b*batch, min((b+1)*batch, len(cases))
		bad := checkLayoutBatch(c, cases[lo:hi], false)
		for _, i := range bad {
			// re-run the single case on its own (fresh module) before reporting
			checkLayoutBatch(c, cases[lo+i:lo+i+1], true)
		}
		// SPIR-V decorations: fresh backend and reused backend
		src := layoutModule(cases[lo:hi])
		m, _, err := drive.Front(src)
		if err != nil {
			return
		}
		for _, i := range checkSpvLayoutBatch(c, cases[lo:hi], m, src, spirv.NewBackend(drive.SpvOptions("default")), "fresh backend", false) {
			one := cases[lo+i : lo+i+1]
			src1 := layoutModule(one)
			if m1, _, err := drive.Front(src1); err == nil {
				checkSpvLayoutBatch(c, one, m1, src1, spirv.NewBackend(drive.SpvOptions("default")), "fresh backend", true)
			}
		}
		for _, i := range checkMslLayoutBatch(c, cases[lo:hi], m, src, false) {
			one := cases[lo+i : lo+i+1]
			src1 := layoutModule(one)
			if m1, _, err := drive.Front(src1); err == nil {
				checkMslLayoutBatch(c, one, m1, src1, true)
			}
		}
		reused := <-pool
		for _, i := range checkSpvLayoutBatch(c, cases[lo:hi], m, src, reused, "reused backend", false) {
			// confirm on the same instance with the single case (the instance keeps its history)
			one := cases[lo+i : lo+i+1]
			src1 := layoutModule(one)
			if m1, _, err := drive.Front(src1); err == nil {
				if len(checkSpvLayoutBatch(c, one, m1, src1, reused, "reused backend", true)) == 0 {
					// not reproducible in isolation on the instance: report the batch observation itself
					checkSpvLayoutBatch(c, cases[lo:hi], m, src, reused, "reused backend (batch)", true)
				}
			}
		}
		pool <- reused
	})
	c.Traces = len(cases)

	// layout probing on the executors: markers stored through / read from every leaf must land at the WGSL offsets
	var probe []layoutCase
	for _, lc := range cases {
		if !lc.T.UsesF16() {
			probe = append(probe, lc)
		}
	}
	rng := rand.New(rand.NewSource(c.Seed))
	rng.Shuffle(len(probe), func(i, j int) { probe[i], probe[j] = probe[j], probe[i] })
	// nested and array-bearing types first, then the seeded sample
	sort.SliceStable(probe, func(i, j int) bool { return layoutDepth(probe[i].T) > layoutDepth(probe[j].T) })
	if n := c.Pick(300, 6000); len(probe) > n {
		probe = append(probe[:n/2], probe[len(probe)-n/2:]...)
	}
	backends := []string{"spv", "hlsl", "msl", "glsl"}
	core.ParMap(len(probe), core.Cores(), func(i int) { probeLayout(c, probe[i], backends) })
	c.Cov["probed_types"] = len(probe)
	return c.Finish()
}

func layoutDepth(t *wg.AType) int {
	if t == nil {
		return 0
	}
	d := 0
	if t.K == "arr" || t.K == "struct" || t.K == "mat" {
		d = 1
	}
	best := layoutDepth(t.E)
	for _, m := range t.Ms {
		if x := layoutDepth(m.Ty); x > best {
			best = x
		}
	}
	return d + best
}

// layoutModule prints the WGSL module declaring every case's type as variables.
func layoutModule(cs []layoutCase) string {
	var sb strings.Builder
	f16 := false
	for _, lc := range cs {
		if lc.T.UsesF16() {
			f16 = true
		}
	}
	if f16 {
		sb.WriteString("enable f16;\n")
	}
	seen := map[string]bool{}
	var body strings.Builder
	bind := 0
	for i, lc := range cs {
		pfx := fmt.Sprintf("C%d_", i)
		lc.T.StructDecls(pfx, seen, &sb)
		ty := lc.T.WGSL(pfx)
		leaves := lc.T.Leaves(1)
		use := func(v string) {
			if len(leaves) == 0 {
				return
			}
			l := leaves[0]
			if l.Atomic {
				fmt.Fprintf(&body, "  acc = acc + u32(atomicLoad(&%s%s));\n", v, l.Path)
			} else {
				fmt.Fprintf(&body, "  acc = acc + u32(%s%s);\n", v, l.Path)
			}
		}
		fmt.Fprintf(&sb, "@group(0) @binding(%d) var<storage, read_write> s%d: %s;\n", bind, i, ty)
		bind++
		use(fmt.Sprintf("s%d", i))
		if lc.Uniform && !lc.Runtime && !lc.Atomic {
			fmt.Fprintf(&sb, "@group(0) @binding(%d) var<uniform> u%d: %s;\n", bind, i, ty)
			bind++
			use(fmt.Sprintf("u%d", i))
		}
		if !lc.Runtime {
			fmt.Fprintf(&sb, "var<workgroup> w%d: %s;\n", i, ty)
			use(fmt.Sprintf("w%d", i))
		}
	}
	fmt.Fprintf(&sb, "@group(1) @binding(0) var<storage, read_write> out_acc: array<u32, 2>;\n")
	sb.WriteString("@compute @workgroup_size(1)\nfn main() {\n  var acc: u32 = 0u;\n")
	sb.WriteString(body.String())
	sb.WriteString("  out_acc[0] = acc;\n}\n")
	return sb.String()
}

// checkLayoutBatch compiles one module and compares; returns indices of cases with a mismatch.
// With report=true mismatches are reported as violations (single-case confirmation run).
func checkLayoutBatch(c *core.Ctx, cs []layoutCase, report bool) (bad []int) {
	src := layoutModule(cs)
	m, stage, err := drive.Front(src)
	if err != nil {
		if len(cs) == 1 {
			if report {
				c.Report(fmt.Sprintf("valid layout program rejected at %s: %v", stage, err),
					map[string]string{"family": "layout", "where": "accept", "stage": stage, "err": err.Error()},
					map[string]any{"wgsl": src})
			}
			return []int{0}
		}
		// find the culprit(s) one by one
		for i := range cs {
			bad = append(bad, checkLayoutBatch(c, cs[i:i+1], false)...)
			if n := len(bad); n > 0 && bad[n-1] == 0 {
				bad[n-1] = i
			}
		}
		return bad
	}
	for i, lc := range cs {
		pfx := fmt.Sprintf("C%d_", i)
		var probs []string
		desc := map[string]string{"family": "layout"}
		for _, gv := range m.GlobalVariables {
			if gv.Name != fmt.Sprintf("s%d", i) && gv.Name != fmt.Sprintf("u%d", i) && gv.Name != fmt.Sprintf("w%d", i) {
				continue
			}
			compareIRType(m, gv.Type, lc.T, pfx, gv.Name, &probs, desc)
		}
		nontrivial := len(lc.T.Ms) >= 2 || (len(lc.T.Ms) == 1 && (lc.T.Ms[0].Ty.K == "arr" || lc.T.Ms[0].Ty.K == "struct" || lc.T.Ms[0].Ty.K == "mat"))
		if !report {
			key, _ := json.Marshal(lc.T)
			c.Eval(string(key), nontrivial)
			if lc.id%997 == 0 {
				c.Sample(map[string]any{"type": lc.T, "wgsl": layoutModule(cs[i : i+1])})
			}
		}
		if len(probs) > 0 {
			bad = append(bad, i)
			if report {
				desc["where"] = "ir"
				c.Disagree++
				c.Report("IR layout differs from the WGSL layout: "+strings.Join(probs, "; "), desc,
					map[string]any{"wgsl": src, "expected": lc.T, "problems": probs})
			}
		}
	}
	return bad
}

// compareIRType walks the IR type against the annotated tree.
func compareIRType(m *ir.Module, h ir.TypeHandle, want *wg.AType, pfx, path string, probs *[]string, desc map[string]string) {
	if int(h) >= len(m.Types) {
		*probs = append(*probs, fmt.Sprintf("%s: type handle %d out of range", path, h))
		return
	}
	t := m.Types[h]
	if want.K != "arr" || want.N != 0 {
		if got := int(ir.TypeSize(m, h)); got != want.Sz {
			*probs = append(*probs, fmt.Sprintf("%s: ir.TypeSize=%d want %d", path, got, want.Sz))
			desc["what_"+want.K] = "size"
		}
	}
	switch in := t.Inner.(type) {
	case ir.ScalarType:
		if !want.IsScalar() || int(in.Width) != want.Sz {
			*probs = append(*probs, fmt.Sprintf("%s: scalar %v where %s expected", path, in, want.K))
		}
	case ir.AtomicType:
		if want.K != "atomic" {
			*probs = append(*probs, fmt.Sprintf("%s: atomic where %s expected", path, want.K))
		}
	case ir.VectorType:
		if want.K != "vec" || int(in.Size) != want.N {
			*probs = append(*probs, fmt.Sprintf("%s: vector %v where %s expected", path, in, want.K))
		}
	case ir.MatrixType:
		if want.K != "mat" || int(in.Columns) != want.C || int(in.Rows) != want.R {
			*probs = append(*probs, fmt.Sprintf("%s: matrix %v where %s expected", path, in, want.K))
		}
	case ir.ArrayType:
		if want.K != "arr" {
			*probs = append(*probs, fmt.Sprintf("%s: array where %s expected", path, want.K))
			return
		}
		if int(in.Stride) != want.Stride {
			*probs = append(*probs, fmt.Sprintf("%s: array stride=%d want %d", path, in.Stride, want.Stride))
			desc["what_arr"] = "stride"
		}
		if (in.Size.Constant == nil) != (want.N == 0) || (in.Size.Constant != nil && int(*in.Size.Constant) != want.N) {
			*probs = append(*probs, fmt.Sprintf("%s: array size mismatch", path))
		}
		compareIRType(m, in.Base, want.E, pfx, path+"[]", probs, desc)
	case ir.StructType:
		if want.K != "struct" || len(in.Members) != len(want.Ms) {
			*probs = append(*probs, fmt.Sprintf("%s: struct shape mismatch", path))
			return
		}
		if int(in.Span) != want.Sz {
			*probs = append(*probs, fmt.Sprintf("%s: struct span=%d want %d", path, in.Span, want.Sz))
			desc["what_struct"] = "span"
		}
		for i, mem := range in.Members {
			w := want.Ms[i]
			if int(mem.Offset) != w.Off {
				*probs = append(*probs, fmt.Sprintf("%s.%s: offset=%d want %d", path, w.Name, mem.Offset, w.Off))
				desc["what_member"] = "offset"
				if w.Ty.K == "struct" || (w.Ty.K == "arr" && w.Ty.E.K == "struct") {
					desc["member_kind"] = "nested-struct"
				}
			}
			compareIRType(m, mem.Type, w.Ty, pfx, path+"."+w.Name, probs, desc)
		}
	default:
		*probs = append(*probs, fmt.Sprintf("%s: unexpected IR type %T", path, t.Inner))
	}
}
