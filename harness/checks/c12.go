package checks

import (
	"bytes"
	"crypto/sha256"
	"encoding/hex"
	"encoding/json"
	"fmt"
	"math/rand"
	"os"
	"os/exec"
	"path/filepath"
	"regexp"
	"sort"
	"strings"
	"sync"
	"time"

	"github.com/gogpu/naga"
	"github.com/gogpu/naga/ir"
	"github.com/gogpu/naga/spirv"

	"verif/harness/core"
	"verif/harness/drive"
	"verif/harness/irx"
	"verif/harness/spv"
)

func init() { Registry["C12"] = runC12 }

// sessKind is a call kind <<family, option set>> of Session.tla.
type sessKind struct{ Fam, Opt string }

func (k sessKind) String() string { return k.Fam + ":" + k.Opt }

// sessJob is the input of the replay / reference workers.
type sessJob struct {
	Sources   []string     `json:"sources"`   // WGSL texts
	Names     []string     `json:"names"`     // for messages
	Kinds     []sessKind   `json:"kinds"`
	Schedules [][][]any    `json:"schedules"` // from TLC: [["start", id, [fam,opt], slot], ...]
	SrcOf     [][]int      `json:"srcof"`     // per schedule: slot (1-based) -> source index
	InstOpt   string       `json:"instopt"`
	Repeat    int          `json:"repeat"`
}

// digestOf runs one call kind on a module (inst: the reusable backend for family "inst").
func digestOf(k sessKind, m *ir.Module, inst *spirv.Backend) string {
	h := sha256.New()
	put := func(b []byte, err error) {
		if err != nil {
			h.Write([]byte("ERR:" + err.Error()))
			return
		}
		h.Write(b)
	}
	defer func() {
		if r := recover(); r != nil {
			h.Write([]byte(fmt.Sprint("PANIC:", r)))
		}
	}()
	switch k.Fam {
	case "inst":
		func() {
			defer func() {
				if r := recover(); r != nil {
					h.Write([]byte(fmt.Sprint("PANIC:", r)))
				}
			}()
			put(inst.Compile(m))
		}()
	case "glsl":
		for _, ep := range m.EntryPoints {
			opt := k.Opt
			if ep.Stage != ir.StageCompute && (opt == "430" || opt == "450" || opt == "460") {
				// the same options are fine for graphics stages
			}
			put(drive.Compile("glsl", opt, m, ep.Name))
		}
	case "gspv":
		// the one-call SPIR-V entry point of package naga (its own path to the backend)
		put(naga.GenerateSPIRV(m, drive.SpvOptions(k.Opt)))
	case "validate":
		errs, err := naga.Validate(m)
		put([]byte(fmt.Sprint(errs)), err)
	case "overrides":
		c := ir.CloneModuleForOverrides(m)
		err := ir.ProcessOverrides(c, ir.PipelineConstants{})
		put([]byte(irx.Fingerprint(c)), err)
	default:
		put(drive.Compile(k.Fam, k.Opt, m, ""))
	}
	return hex.EncodeToString(h.Sum(nil))[:24]
}

// SessionWorker implements `verif worker-session <job.json> <out.json>`: reference digests in a fresh process.
// Output: digests[source][kind] (kinds of family "inst" are computed with a fresh backend, which is what a reused one must equal).
func SessionWorker(jobFile, outFile string) int {
	var job sessJob
	b, err := os.ReadFile(jobFile)
	if err != nil || json.Unmarshal(b, &job) != nil {
		fmt.Println("bad job", err)
		return 2
	}
	out := make([][]string, len(job.Sources))
	fps := make([]string, len(job.Sources))
	for i, src := range job.Sources {
		m, _, err := drive.Front(src)
		if err != nil {
			continue
		}
		fps[i] = irx.Fingerprint(m)
		for _, k := range job.Kinds {
			kk := k
			if k.Fam == "inst" {
				kk = sessKind{"spv", k.Opt}
			}
			// a fresh module per reference call: no history at all
			m2, _, _ := drive.Front(src)
			out[i] = append(out[i], digestOf(kk, m2, nil))
		}
	}
	ob, _ := json.Marshal(map[string]any{"digests": out, "fps": fps})
	if err := os.WriteFile(outFile, ob, 0o644); err != nil {
		return 2
	}
	return 0
}

// sessEvent is one line of the recorded trace.
type sessEvent struct {
	Ev        string `json:"ev"`
	ID        int    `json:"id"`
	Fam       string `json:"fam"`
	Opt       string `json:"opt"`
	Slot      int    `json:"slot"`
	Digest    int    `json:"digest"`
	Ref       int    `json:"ref"`
	FpAfter   int    `json:"fp_after"`
	FpLowered int    `json:"fp_lowered"`
	Sched     int    `json:"sched"` // schedule index (not read by the spec)
}

// SessionReplay implements `verif replay-sessions <job.json> <refs.json> <trace.ndjson>` (run from a -race build):
// replays every schedule against the real API, calls in flight together run as goroutines.
func SessionReplay(jobFile, refFile, traceFile string) int {
	var job sessJob
	b, err := os.ReadFile(jobFile)
	if err != nil || json.Unmarshal(b, &job) != nil {
		fmt.Println("bad job", err)
		return 2
	}
	var refs struct {
		Digests [][]string `json:"digests"`
		Fps     []string   `json:"fps"`
	}
	b, err = os.ReadFile(refFile)
	if err != nil || json.Unmarshal(b, &refs) != nil {
		fmt.Println("bad refs", err)
		return 2
	}
	kindIdx := map[sessKind]int{}
	for i, k := range job.Kinds {
		kindIdx[k] = i
	}
	intern := map[string]int{}
	id := func(s string) int {
		if v, ok := intern[s]; ok {
			return v
		}
		intern[s] = len(intern) + 1
		return len(intern)
	}
	var out bytes.Buffer
	enc := json.NewEncoder(&out)
	for si, sched := range job.Schedules {
		enc.Encode(sessEvent{Ev: "reset", Sched: si})
		srcOf := job.SrcOf[si]
		mods := make([]*ir.Module, len(srcOf))
		for slot, s := range srcOf {
			mods[slot], _, _ = drive.Front(job.Sources[s])
		}
		inst := spirv.NewBackend(drive.SpvOptions(job.InstOpt))
		type inflight struct {
			done   chan struct{}
			digest string
			k      sessKind
			slot   int
		}
		fl := map[int]*inflight{}
		var mu sync.Mutex
		for _, ev := range sched {
			what := ev[0].(string)
			cid := int(ev[1].(float64))
			kk := ev[2].([]any)
			k := sessKind{kk[0].(string), kk[1].(string)}
			slot := int(ev[3].(float64))
			switch what {
			case "start":
				c := &inflight{done: make(chan struct{}), k: k, slot: slot}
				fl[cid] = c
				enc.Encode(sessEvent{Ev: "start", ID: cid, Fam: k.Fam, Opt: k.Opt, Slot: slot, Sched: si})
				m := mods[slot-1]
				go func() {
					defer close(c.done)
					d := digestOf(k, m, inst)
					mu.Lock()
					c.digest = d
					mu.Unlock()
				}()
			case "finish":
				c := fl[cid]
				<-c.done
				src := srcOf[slot-1]
				enc.Encode(sessEvent{Ev: "finish", ID: cid, Fam: k.Fam, Opt: k.Opt, Slot: slot, Sched: si,
					Digest: id(c.digest), Ref: id(refs.Digests[src][kindIdx[k]]),
					FpAfter: id(irx.Fingerprint(mods[slot-1])), FpLowered: id(refs.Fps[src])})
			}
		}
	}
	if err := os.WriteFile(traceFile, out.Bytes(), 0o644); err != nil {
		return 2
	}
	return 0
}

func containsInt(a []int, x int) bool {
	for _, v := range a {
		if v == x {
			return true
		}
	}
	return false
}

// spvSignature summarises which backend features a source exercises: emitted version word, capabilities, extensions.
func spvSignature(src string) string {
	m, _, err := drive.Front(src)
	if err != nil {
		return ""
	}
	b, err := drive.Compile("spv", "default", m, "")
	if err != nil {
		return "err"
	}
	mod, err := spv.Decode(b)
	if err != nil {
		return "undecodable"
	}
	var parts []string
	for _, in := range mod.Insts {
		if n := spv.OpName(in.Op); n == "OpCapability" || n == "OpExtension" {
			parts = append(parts, fmt.Sprint(in.Words[1:]))
		}
	}
	sort.Strings(parts)
	return fmt.Sprintf("%x %v", mod.Version, parts)
}

func sessionMC(kinds []sessKind, slots int, srcOf []int) string {
	var ks []string
	for _, k := range kinds {
		ks = append(ks, fmt.Sprintf("<<%q, %q>>", k.Fam, k.Opt))
	}
	var so []string
	for _, s := range srcOf {
		so = append(so, fmt.Sprint(s))
	}
	base, name := "Session", "SessionMC"
	if slots < 0 {
		base, name = "SessionTrace", "SessionTraceMC"
	}
	return fmt.Sprintf("---- MODULE %s ----\nEXTENDS %s\nMCKinds == {%s}\nMCSrcOf == <<%s>>\n====\n",
		name, base, strings.Join(ks, ", "), strings.Join(so, ", "))
}

func sessionCfg(spec string, slots, maxCalls, maxFlight int, faults string, invs []string, props []string) string {
	var sl []string
	for i := 1; i <= slots; i++ {
		sl = append(sl, fmt.Sprint(i))
	}
	s := fmt.Sprintf("SPECIFICATION %s\nCONSTANTS\n Slots = {%s}\n SrcOf <- MCSrcOf\n Kinds <- MCKinds\n MaxCalls = %d\n MaxInFlight = %d\n Faults = %s\nCHECK_DEADLOCK FALSE\n",
		spec, strings.Join(sl, ", "), maxCalls, maxFlight, faults)
	for _, i := range invs {
		s += "INVARIANT " + i + "\n"
	}
	for _, p := range props {
		s += "PROPERTY " + p + "\n"
	}
	return s
}

// corpusSources returns (name, text) of the snapshot corpus, sorted.
func corpusSources() (names, texts []string) {
	files, _ := filepath.Glob(filepath.Join(core.RepoDir, "snapshot/testdata/in/*.wgsl"))
	sort.Strings(files)
	for _, f := range files {
		b, err := os.ReadFile(f)
		if err != nil {
			continue
		}
		names = append(names, filepath.Base(f))
		texts = append(texts, string(b))
	}
	return
}

// sessionExtraSources are programs written to exercise every pass (struct locals, stored locals, helpers, overrides, workgroup memory).
var sessionExtraSources = []string{
	`@group(0) @binding(0) var t: texture_2d<f32>;
@group(0) @binding(1) var sa: sampler;
@group(0) @binding(2) var sb: sampler;
@group(0) @binding(3) var sc: sampler;
@group(0) @binding(4) var td: texture_depth_2d;
@group(0) @binding(5) var sd: sampler_comparison;
@group(1) @binding(0) var t2: texture_2d<f32>;
override gain: f32 = 1.5;
@fragment fn fs(@location(0) uv: vec2<f32>) -> @location(0) vec4<f32> {
  let a = textureSample(t, sa, uv); let b = textureSample(t, sb, uv * 0.5); let c = textureSample(t, sc, uv * 0.25);
  let d = textureSampleCompare(td, sd, uv, 0.5); let e = textureSample(t2, sc, uv) + textureSample(t2, sa, uv);
  return (a + b + c + e) * d * gain;
}
`,
	`struct P { a: vec3<f32>, b: array<i32, 4>, c: mat2x2<f32> }
@group(0) @binding(0) var<storage, read_write> o: array<i32, 16>;
@group(0) @binding(1) var<uniform> u: P;
var<workgroup> w: array<i32, 8>;
var<private> pv: i32 = 3;
override scale: i32 = 2;
fn h(x: i32, q: ptr<function, i32>) -> i32 { *q = *q + x; if x > 3 { return x * scale; } return x - 1; }
fn g(p: P, i: i32) -> i32 { var l = p; l.b[i & 3] = l.b[(i + 1) & 3] + i32(l.a.y); return l.b[i & 3] + i32(l.c[1].x); }
@compute @workgroup_size(2)
fn main(@builtin(local_invocation_index) li: u32) {
  var acc = pv; var s: P = u;
  for (var i = 0; i < 4; i++) { acc += h(i, &acc); s.b[i] = acc; switch i { case 1: { acc = acc * 2; } case 2, 3: { continue; } default: { } } w[i] = acc; }
  workgroupBarrier();
  o[li] = g(s, acc) + w[li & 7u];
}
`,
	`struct VO { @builtin(position) pos: vec4<f32>, @location(0) c: vec2<f32> }
@group(0) @binding(0) var<uniform> m: mat4x4<f32>;
@group(1) @binding(0) var t: texture_2d<f32>;
@group(1) @binding(1) var s: sampler;
@vertex fn vs(@location(0) p: vec3<f32>, @builtin(vertex_index) vi: u32) -> VO { var o: VO; o.pos = m * vec4<f32>(p, 1.0); o.c = vec2<f32>(f32(vi), p.x); return o; }
@fragment fn fs(i: VO) -> @location(0) vec4<f32> { let c = textureSample(t, s, i.c); if c.a < 0.5 { discard; } return c * 0.5; }
`,
}

func runC12(tier, replay string) int {
	c := core.NewCtx("C12", tier, "model_checking")
	c.Cov["rule"] = "Session.tla is model-checked (all histories/overlaps of <= MaxCalls two-phase calls; self-test: every seeded fault is reported); TLC-generated schedules are replayed against the real API in a -race build (calls in flight together run as goroutines on shared module objects, one reused spirv.Backend), each call records module fingerprint before/after and output digest; reference digests come from fresh processes that must agree with each other; the recorded trace is validated by TLC against SessionTrace.tla. A case is one (schedule, source assignment); non-trivial if it has >= 2 calls; distinct by schedule+sources."
	rng := rand.New(rand.NewSource(c.Seed))

	// ---- design level: the specification itself ------------------------------------------------
	kindsAll := []sessKind{{"spv", "default"}, {"spv", "v1.3"}, {"inst", "default"}, {"hlsl", "default"}, {"msl", "default"},
		{"glsl", "430"}, {"dxil", "default"}, {"validate", "-"}, {"overrides", "-"}, {"msl", "pc"}, {"glsl", "pc"},
		{"gspv", "default"}, {"gspv", "noloopbound"}}
	designKinds := []sessKind{{"spv", "default"}, {"inst", "default"}, {"hlsl", "default"}, {"dxil", "default"}, {"overrides", "-"}}
	mc := sessionMC(designKinds, 2, []int{1, 2})
	r, err := c.RunTLC(core.TLCOpts{Spec: "SessionMC", Files: map[string][]byte{"SessionMC.tla": []byte(mc), "trace.ndjson": []byte("{\"ev\":\"reset\"}\n")},
		CfgText: sessionCfg("Spec", 2, 3, 2, "{}", []string{"Deterministic", "ModulesUntouched", "InstanceClean"}, []string{"Frame"}),
		Workers: 4, Timeout: 10 * time.Minute, Coverage: !c.Quick()})
	if err != nil || !r.OK {
		c.BrokenF("Session.tla design check failed: %v %s %s\n%s", err, r.Violated, r.Err, r.Tail(20))
		return c.Finish()
	}
	c.AddTLC(r)
	for _, fault := range []string{"dxil_mutates", "reset_leaks", "overrides_mutate"} {
		r, err := c.RunTLC(core.TLCOpts{Spec: "SessionMC", Files: map[string][]byte{"SessionMC.tla": []byte(mc), "trace.ndjson": []byte("{\"ev\":\"reset\"}\n")},
			CfgText: sessionCfg("Spec", 2, 3, 2, fmt.Sprintf("{%q}", fault), []string{"Deterministic", "ModulesUntouched", "InstanceClean"}, nil),
			Workers: 2, Timeout: 5 * time.Minute})
		if err != nil || r.Violated == "" {
			c.BrokenF("Session.tla self-test: seeded fault %s not reported (vacuous property?): %v\n%s", fault, err, r.Tail(15))
			return c.Finish()
		}
	}
	c.Cov["selftest_faults_detected"] = 3

	// ---- sources ----------------------------------------------------------------------------------
	names, texts := corpusSources()
	if len(texts) < 50 {
		c.BrokenF("corpus not found under %s", core.RepoDir)
		return c.Finish()
	}
	nsrc := c.Pick(10, 60)
	perm := rng.Perm(len(texts))
	var srcNames, srcTexts []string
	for i, e := range sessionExtraSources {
		srcNames = append(srcNames, fmt.Sprintf("extra%d", i))
		srcTexts = append(srcTexts, e)
	}
	// shaders known to exercise the DXIL pipeline and SPIR-V 1.4 paths are always included
	must := map[string]bool{"push-constants.wgsl": true, "extra.wgsl": true, "workgroup-var-init.wgsl": true, "debug-symbol-simple.wgsl": true, "access.wgsl": true}
	for i, n := range names {
		if must[n] {
			srcNames = append(srcNames, n)
			srcTexts = append(srcTexts, texts[i])
		}
	}
	for _, p := range perm {
		if len(srcTexts) >= nsrc {
			break
		}
		if must[names[p]] {
			continue
		}
		if _, _, err := drive.Front(texts[p]); err != nil {
			continue
		}
		srcNames = append(srcNames, names[p])
		srcTexts = append(srcTexts, texts[p])
	}

	// ---- schedules from TLC --------------------------------------------------------------------------
	nSlots := 3
	var schedules [][][]any
	seen := map[string]bool{}
	addScheds := func(r *core.TLCResult) {
		for _, l := range r.Printed {
			if seen[l] {
				continue
			}
			var s [][]any
			if json.Unmarshal([]byte(l), &s) == nil && len(s) > 0 {
				seen[l] = true
				schedules = append(schedules, s)
			}
		}
	}
	genMC := sessionMC(kindsAll, nSlots, []int{1, 2, 1})
	// exhaustive for 2 calls (all kinds x slots x overlaps) ...
	r, err = c.RunTLC(core.TLCOpts{Spec: "SessionMC", Files: map[string][]byte{"SessionMC.tla": []byte(genMC), "trace.ndjson": []byte("{\"ev\":\"reset\"}\n")},
		CfgText: sessionCfg("Spec", nSlots, 2, 2, "{}", []string{"Deterministic", "ModulesUntouched", "EmitSchedules"}, nil), Workers: 1, Timeout: 10 * time.Minute})
	if err != nil || !r.OK {
		c.BrokenF("schedule generation failed: %v %s\n%s", err, r.Err, r.Tail(20))
		return c.Finish()
	}
	c.AddTLC(r)
	addScheds(r)
	exhaustive2 := len(schedules)
	// ... and seeded simulation for longer histories
	r, err = c.RunTLC(core.TLCOpts{Spec: "SessionMC", Files: map[string][]byte{"SessionMC.tla": []byte(genMC), "trace.ndjson": []byte("{\"ev\":\"reset\"}\n")},
		CfgText:  sessionCfg("Spec", nSlots, c.Pick(4, 5), 3, "{}", []string{"Deterministic", "ModulesUntouched", "EmitSchedules"}, nil),
		Simulate: fmt.Sprintf("num=%d", c.Pick(120, 1500)), Depth: 12, Seed: c.Seed, Timeout: 10 * time.Minute})
	if err != nil || !r.OK {
		c.BrokenF("schedule simulation failed: %v %s\n%s", err, r.Err, r.Tail(20))
		return c.Finish()
	}
	addScheds(r)
	if c.Quick() && exhaustive2 > 400 {
		// keep the quick tier short: a seeded sample of the exhaustive 2-call schedules plus all simulated ones
		keep := schedules[exhaustive2:]
		p := rng.Perm(exhaustive2)
		for _, i := range p[:400] {
			keep = append(keep, schedules[i])
		}
		schedules = keep
	} else {
		c.Cov["exhaustive"] = true
	}
	c.Cov["schedules"] = len(schedules)

	job := sessJob{Sources: srcTexts, Names: srcNames, Kinds: kindsAll, Schedules: schedules, InstOpt: "default"}
	for range schedules {
		a, b := rng.Intn(len(srcTexts)), rng.Intn(len(srcTexts))
		job.SrcOf = append(job.SrcOf, []int{a, b, a}) // slots 1 and 3: same source, separately lowered modules
	}
	// histories of the reused backend instance: every sequence of <= 3 Compile calls on one instance over the three
	// slots (exhaustive, from TLC), each with every ordered pair of sources from a pool
	r, err = c.RunTLC(core.TLCOpts{Spec: "SessionMC", Files: map[string][]byte{"SessionMC.tla": []byte(sessionMC([]sessKind{{"inst", "default"}}, nSlots, []int{1, 2, 1})), "trace.ndjson": []byte("{\"ev\":\"reset\"}\n")},
		CfgText: sessionCfg("Spec", nSlots, 3, 1, "{}", []string{"Deterministic", "ModulesUntouched", "InstanceClean", "EmitSchedules"}, nil), Workers: 1, Timeout: 5 * time.Minute})
	if err != nil || !r.OK {
		c.BrokenF("instance-history generation failed: %v %s\n%s", err, r.Err, r.Tail(20))
		return c.Finish()
	}
	c.AddTLC(r)
	nBefore := len(schedules)
	addScheds(r)
	instScheds := schedules[nBefore:]
	schedules = schedules[:nBefore]
	// pool: sources that drive the backend through different feature sets (SPIR-V version actually emitted, capabilities,
	// extensions), one per distinct signature first - state left behind by one of them is what a later compile could pick up
	npool := c.Pick(6, 14)
	var poolIdx []int
	seenSig := map[string]bool{}
	for pass := 0; pass < 2 && len(poolIdx) < npool; pass++ {
		for i, src := range srcTexts {
			if len(poolIdx) >= npool {
				break
			}
			sig := spvSignature(src)
			if sig == "" || (pass == 0 && seenSig[sig]) || (pass == 1 && containsInt(poolIdx, i)) {
				continue
			}
			seenSig[sig] = true
			poolIdx = append(poolIdx, i)
		}
	}
	pool := len(poolIdx)
	for _, a := range poolIdx {
		for _, b := range poolIdx {
			if a == b {
				continue
			}
			for _, sc := range instScheds {
				schedules = append(schedules, sc)
				job.SrcOf = append(job.SrcOf, []int{a, b, a})
			}
		}
	}
	job.Schedules = schedules
	c.Cov["instance_histories"] = len(instScheds) * pool * (pool - 1)
	jb, _ := json.Marshal(job)
	jobFile := filepath.Join(c.WorkDir, "job.json")
	os.WriteFile(jobFile, jb, 0o644)

	// ---- reference digests from fresh processes ------------------------------------------------------
	self, _ := os.Executable()
	nref := c.Pick(3, 6)
	refFiles := make([]string, nref)
	var refErr error
	core.ParMap(nref, nref, func(i int) {
		refFiles[i] = filepath.Join(c.WorkDir, fmt.Sprintf("ref%d.json", i))
		cmd := exec.Command(self, "worker-session", jobFile, refFiles[i])
		if out, err := cmd.CombinedOutput(); err != nil {
			refErr = fmt.Errorf("reference worker: %v: %s", err, out)
		}
	})
	if refErr != nil {
		c.BrokenF("%v", refErr)
		return c.Finish()
	}
	type refT struct {
		Digests [][]string `json:"digests"`
		Fps     []string   `json:"fps"`
	}
	var ref0 refT
	for i, f := range refFiles {
		var rf refT
		b, _ := os.ReadFile(f)
		if json.Unmarshal(b, &rf) != nil {
			c.BrokenF("bad reference file")
			return c.Finish()
		}
		if i == 0 {
			ref0 = rf
			continue
		}
		for s := range rf.Digests {
			for k := range rf.Digests[s] {
				c.Eval(fmt.Sprintf("proc/%s/%s", srcNames[s], kindsAll[k]), true)
				if rf.Digests[s][k] != ref0.Digests[s][k] {
					c.Disagree++
					c.Report(fmt.Sprintf("output of %s on %s differs between fresh processes (nondeterministic output)", kindsAll[k], srcNames[s]),
						map[string]string{"family": "process-determinism", "kind": kindsAll[k].String(), "source": srcNames[s]},
						map[string]any{"source": srcTexts[s], "kind": kindsAll[k].String()})
				}
			}
			if rf.Fps[s] != ref0.Fps[s] {
				c.Report(fmt.Sprintf("lowered module of %s differs between fresh processes", srcNames[s]),
					map[string]string{"family": "process-determinism", "kind": "lower", "source": srcNames[s]}, map[string]any{"source": srcTexts[s]})
			}
		}
	}

	// ---- replay in a -race build ------------------------------------------------------------------------
	raceBin := filepath.Join(core.Root, ".work", "bin", fmt.Sprintf("verif-race.%d", os.Getpid()))
	bcmd := exec.Command("go", "build", "-race", "-tags", "verif", "-o", raceBin, "./cmd/verif")
	bcmd.Dir = filepath.Join(core.Root, "harness")
	bcmd.Env = append(os.Environ(), "GOFLAGS=-mod=mod", "GOPROXY=off")
	if out, err := bcmd.CombinedOutput(); err != nil {
		c.BrokenF("race build failed: %v\n%s", err, out)
		return c.Finish()
	}
	defer os.Remove(raceBin)
	traceFile := filepath.Join(c.WorkDir, "trace.ndjson")
	raceLog := filepath.Join(c.WorkDir, "race")
	rcmd := exec.Command(raceBin, "replay-sessions", jobFile, refFiles[0], traceFile)
	rcmd.Env = append(os.Environ(), "GORACE=halt_on_error=0 exitcode=0 log_path="+raceLog)
	if out, err := rcmd.CombinedOutput(); err != nil {
		c.BrokenF("session replay failed: %v\n%.2000s", err, out)
		return c.Finish()
	}
	// race reports
	logs, _ := filepath.Glob(raceLog + ".*")
	reRace := regexp.MustCompile(`(?s)WARNING: DATA RACE.*?={18}`)
	reFn := regexp.MustCompile(`(?m)^  (github\.com/gogpu/naga[^\s(]*)\(`)
	reAccess := regexp.MustCompile(`(?m)^(?:Previous )?(?:[Rr]ead|[Ww]rite) at 0x[0-9a-f]+ by [^\n]*\n`)
	seenRace := map[string]bool{}
	for _, lf := range logs {
		b, _ := os.ReadFile(lf)
		for _, blk := range reRace.FindAllString(string(b), -1) {
			// two access stacks: "<Read|Write> at ... by goroutine N:" and "Previous <read|write> at ... by goroutine M:"
			parts := reAccess.Split(blk, -1)
			var sides []string
			for _, part := range parts[1:] {
				if i := strings.Index(part, "Goroutine "); i >= 0 {
					part = part[:i]
				}
				var top []string
				for _, f := range reFn.FindAllStringSubmatch(part, 3) {
					top = append(top, f[1])
				}
				sides = append(sides, strings.Join(top, "<"))
				if len(sides) == 2 {
					break
				}
			}
			key := strings.Join(sides, " || ")
			if seenRace[key] {
				continue
			}
			seenRace[key] = true
			c.Disagree++
			c.Report("data race between concurrent compilations: "+key, map[string]string{"family": "race", "frames": key},
				map[string]any{"report": blk})
		}
	}

	// ---- trace validation by TLC -------------------------------------------------------------------------
	tb, err := os.ReadFile(traceFile)
	if err != nil {
		c.BrokenF("no trace: %v", err)
		return c.Finish()
	}
	lines := bytes.Split(bytes.TrimSpace(tb), []byte("\n"))
	r, err = c.RunTLC(core.TLCOpts{Spec: "SessionTraceMC", Files: map[string][]byte{"SessionTraceMC.tla": []byte(sessionMC(kindsAll, -1, []int{1, 2, 1})), "trace.ndjson": tb},
		CfgText: sessionCfg("TSpec", nSlots, 1000000, 3, "{}", nil, nil) + "POSTCONDITION Consumed\n", Workers: 1, Timeout: 20 * time.Minute, HeapGB: 6})
	if err != nil || !r.OK || len(r.Printed) == 0 {
		c.BrokenF("trace validation failed to run: %v %s %s\n%s", err, r.Violated, r.Err, r.Tail(25))
		return c.Finish()
	}
	c.AddTLC(r)
	var verdict struct {
		Consumed int `json:"consumed"`
		Bad      []struct {
			L    int    `json:"l"`
			Rule string `json:"rule"`
		} `json:"bad"`
	}
	if err := json.Unmarshal([]byte(r.Printed[len(r.Printed)-1]), &verdict); err != nil || verdict.Consumed != len(lines) {
		c.BrokenF("trace not fully consumed: %d of %d (%v)", verdict.Consumed, len(lines), err)
		return c.Finish()
	}
	c.Traces = len(schedules)
	for si := range schedules {
		key, _ := json.Marshal([]any{schedules[si], job.SrcOf[si]})
		c.Eval(string(key), len(schedules[si]) >= 4)
		if si%97 == 0 {
			c.Sample(map[string]any{"schedule": schedules[si], "sources": []string{srcNames[job.SrcOf[si][0]], srcNames[job.SrcOf[si][1]]}})
		}
	}
	for _, bd := range verdict.Bad {
		var ev sessEvent
		json.Unmarshal(lines[bd.L-1], &ev)
		if strings.HasPrefix(bd.Rule, "harness:") {
			c.BrokenF("line %d: %s", bd.L, bd.Rule)
			continue
		}
		srcs := job.SrcOf[ev.Sched]
		src := srcs[max(ev.Slot-1, 0)]
		c.Disagree++
		rule := strings.SplitN(bd.Rule, ":", 2)[0]
		// which earlier calls ran on this module / instance (the history that matters)
		var hist []string
		taint := ""
		reached := false
		for _, e := range schedules[ev.Sched] {
			kk := e[2].([]any)
			hist = append(hist, fmt.Sprintf("%s %v %s:%s slot%v", e[0], e[1], kk[0], kk[1], e[3]))
			if e[0] == "finish" && int(e[1].(float64)) == ev.ID {
				reached = true
			}
			// an override-resolution call started earlier on the same module object: the module may already carry the
			// alteration recorded as a known finding (shallow CloneModuleForOverrides)
			if !reached && e[0] == "start" && (kk[0] == "overrides" || (kk[0] == "glsl" && kk[1] == "pc")) && int(e[3].(float64)) == ev.Slot {
				taint = "overrides"
			}
		}
		c.Report(fmt.Sprintf("%s: call %s:%s on %s (schedule: %s)", bd.Rule, ev.Fam, ev.Opt, srcNames[src], strings.Join(hist, "; ")),
			map[string]string{"family": "session", "rule": rule, "kind": ev.Fam + ":" + ev.Opt, "source": srcNames[src], "history": strings.Join(hist, "; "), "taint": taint},
			map[string]any{"schedule": schedules[ev.Sched], "srcof": srcs, "sources": []string{srcTexts[srcs[0]], srcTexts[srcs[1]]}, "event": ev})
	}
	return c.Finish()
}
