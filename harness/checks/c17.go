package checks

import (
	"bytes"
	"encoding/json"
	"fmt"
	"math/rand"
	"os"
	"regexp"
	"sort"
	"strings"
	"sync"
	"time"

	"github.com/gogpu/naga/glsl"
	"github.com/gogpu/naga/ir"

	"verif/harness/c17x"
	"verif/harness/core"
	"verif/harness/drive"
)

func init() { Registry["C17"] = runC17 }

// c17Case is one module description printed by BindingsGen.tla with what the real naga did with it.
type c17Case struct {
	M    *c17x.Module `json:"m"`
	Odd  string       `json:"odd"`
	NSpv int          `json:"nspv"`
	id   int
	from string
	src  string
	err  string // front-end error
	runs []c17x.Run
}

type c17Gen struct {
	name     string
	mc, cfg  string
	simulate string
	depth    int
	seed     int64
	workers  int
}

const c17AllKinds = `{"uniform", "storage_ro", "storage_rw", "tex2d", "tex2du", "texdepth", "texms", "stexw", "sampler", "sampler_cmp", "workgroup", "private"}`
const c17AllInterps = `{<<"none","none">>, <<"flat","none">>, <<"linear","none">>, <<"linear","center">>, <<"linear","centroid">>, <<"linear","sample">>, <<"perspective","none">>, <<"perspective","center">>, <<"perspective","centroid">>, <<"perspective","sample">>}`
const c17AllForms = `{"usuffix", "isuffix", "hex", "const", "expr"}`
const c17AllLocs = `{0, 1, 2, 3, 4, 5, 6, 7, 8, 9, 10, 11, 12, 13, 14, 15}`

func c17MC(budgets, kinds, interps, loctys, wg string) string {
	return fmt.Sprintf("---- MODULE BindingsGenMC ----\nEXTENDS BindingsGen\nMCBudgets == %s\nMCKinds == %s\nMCInterps == %s\nMCLocTys == %s\nMCWg == %s\n====\n",
		budgets, kinds, interps, loctys, wg)
}

const c17AllBuiltins = `{"position", "vertex_index", "instance_index", "front_facing", "frag_depth", "sample_index", "sample_mask", "local_invocation_id", "local_invocation_index", "global_invocation_id", "workgroup_id", "num_workgroups"}`

func c17Cfg(groups, binds, stages, locs, oddats, forms string, rnd bool, inv string) string {
	return c17CfgB(groups, binds, stages, locs, oddats, forms, rnd, inv, c17AllBuiltins)
}

// c17Orders is the set of attribute orders a generator may write (both, unless a configuration narrows it).
var c17BothOrders = "{FALSE, TRUE}"

func c17CfgB(groups, binds, stages, locs, oddats, forms string, rnd bool, inv, builtins string) string {
	return c17CfgO(groups, binds, stages, locs, oddats, forms, rnd, inv, builtins, c17BothOrders)
}

func c17CfgO(groups, binds, stages, locs, oddats, forms string, rnd bool, inv, builtins, orders string) string {
	return fmt.Sprintf(`SPECIFICATION Spec
CONSTANTS
 Budgets <- MCBudgets
 Kinds <- MCKinds
 Groups = %s
 Binds = %s
 Stages = %s
 Builtins = %s
 Locs = %s
 LocTys <- MCLocTys
 Interps <- MCInterps
 OddAts = %s
 Forms = %s
 WgSizes <- MCWg
 Orders = %s
 Rand = %s
INVARIANT %s
CHECK_DEADLOCK FALSE
`, groups, binds, stages, builtins, locs, oddats, forms, orders, strings.ToUpper(fmt.Sprint(rnd)), inv)
}

func c17Generators0(c *core.Ctx) []c17Gen {
	old := os.Getenv("VERIF_C17_DEV")
	os.Setenv("VERIF_C17_DEV", "")
	defer os.Setenv("VERIF_C17_DEV", old)
	return c17Generators(c)
}

func c17Generators(c *core.Ctx) []c17Gen {
	allStages := `{"vertex", "fragment", "compute"}`
	var gs []c17Gen
	// exhaustive: every builtin valid for its stage and direction, bare and in IO structs, locations 0 and 15
	gs = append(gs, c17Gen{name: "exhaustive: one entry point, one parameter, every result form",
		mc:  c17MC(`{[g |-> 0, h |-> 0, e |-> 1, p |-> 1, m |-> 1, u |-> 0]}`, `{"uniform"}`, `{<<"none","none">>}`, `<<"f32", "u32">>`, `{<<4, 2, 1, 2>>}`),
		cfg: c17Cfg("{0}", "{0}", allStages, "{0, 15}", "{0}", `{"usuffix"}`, false, "GenInv"), workers: 2})
	// exhaustive: every spelling form at every attribute position
	gs = append(gs, c17Gen{name: "exhaustive: attribute spellings",
		mc:  c17MC(`{[g |-> 1, h |-> 0, e |-> 1, p |-> 1, m |-> 2, u |-> 1]}`, `{"uniform"}`, `{<<"none","none">>}`, `<<"vec4f">>`, `{<<2, 3, 4, 3>>}`),
		cfg: c17CfgO("{1}", "{2}", `{"fragment", "compute"}`, "{0}", "{1, 2, 3, 4, 5, 6, 7}", map[bool]string{true: `{"usuffix", "hex", "const"}`, false: c17AllForms}[c.Quick()], false, "GenInv", `{"global_invocation_id"}`, map[bool]string{true: "{FALSE}", false: c17BothOrders}[c.Quick()]), workers: 2})
	// exhaustive: both attribute orders (@interpolate before / after @location, @invariant before / after
	// @builtin(position), @blend_src before / after @location) on bare parameters, struct members and results
	gs = append(gs, c17Gen{name: "exhaustive: attribute orders x interpolation",
		mc:  c17MC(`{[g |-> 0, h |-> 0, e |-> 1, p |-> 1, m |-> 1, u |-> 0]}`, `{"uniform"}`, `{<<"flat","none">>, <<"linear","centroid">>, <<"perspective","sample">>}`, `<<"vec2f">>`, `{<<1, 1, 1, 1>>}`),
		cfg: c17CfgB("{1}", "{2}", `{"vertex", "fragment"}`, "{1}", "{0}", `{"usuffix"}`, false, "GenInv", `{"position"}`), workers: 2})
	gs = append(gs, c17Gen{name: "exhaustive: attribute orders of fragment results (dual-source pair)",
		mc:  c17MC(`{[g |-> 0, h |-> 0, e |-> 1, p |-> 0, m |-> 2, u |-> 0]}`, `{"uniform"}`, `{<<"none","none">>}`, `<<"vec4f">>`, `{<<1, 1, 1, 1>>}`),
		cfg: c17CfgB("{1}", "{2}", `{"fragment"}`, "{0}", "{0}", `{"usuffix"}`, false, "GenInv", `{"frag_depth"}`), workers: 2})
	// exhaustive: pairs of resources of every class, sharing / not sharing a slot, used directly or through a helper
	kinds := `{"uniform", "storage_rw", "tex2d"}`
	budgets := `{[g |-> 2, h |-> 0, e |-> 2, p |-> 0, m |-> 1, u |-> 1]}`
	if !c.Quick() {
		kinds = c17AllKinds
	}
	gs = append(gs, c17Gen{name: "exhaustive: two resources, two compute entry points",
		mc:  c17MC(budgets, kinds, `{<<"none","none">>}`, `<<"f32">>`, `{<<1, 1, 1, 1>>}`),
		cfg: c17CfgO("{0, 1}", "{0}", `{"compute"}`, "{0}", "{0}", `{"usuffix"}`, false, "GenInv", c17AllBuiltins, "{FALSE}"), workers: 4})
	if !c.Quick() {
		gs = append(gs, c17Gen{name: "exhaustive: two resources, one helper, one compute entry point",
			mc:  c17MC(`{[g |-> 2, h |-> 1, e |-> 1, p |-> 0, m |-> 1, u |-> 1]}`, kinds, `{<<"none","none">>}`, `<<"f32">>`, `{<<1, 1, 1, 1>>}`),
			cfg: c17CfgO("{0, 1}", "{0}", `{"compute"}`, "{0}", "{0}", `{"usuffix"}`, false, "GenInv", c17AllBuiltins, "{FALSE}"), workers: 4})
		gs = append(gs, c17Gen{name: "exhaustive: interpolation x type x location",
			mc:  c17MC(`{[g |-> 0, h |-> 0, e |-> 1, p |-> 1, m |-> 1, u |-> 0]}`, `{"uniform"}`, c17AllInterps, `<<"f32", "vec4u", "vec2f", "i32", "vec4f", "u32", "vec2i">>`, `{<<8, 1, 1, 1>>}`),
			cfg: c17Cfg("{0}", "{0}", `{"vertex", "fragment"}`, "{0, 1, 2, 5, 9, 15}", "{0}", `{"usuffix"}`, false, "GenInv"), workers: 4})
	}
	// seeded random walks at the full bounds of the quantifier
	nsim, per := c.Pick(3, 16), c.Pick(60, 950)
	if d := c17Dev(); d > 0 {
		gs = gs[:0]
		if os.Getenv("VERIF_C17_GEN") != "" { // one exhaustive generator by index
			i := 0
			fmt.Sscan(os.Getenv("VERIF_C17_GEN"), &i)
			return c17Generators0(c)[i : i+1]
		}
		nsim, per = 1, d
	}
	for i := 0; i < nsim; i++ {
		gs = append(gs, c17Gen{name: fmt.Sprintf("simulation %d", i),
			mc: c17MC(`[g : {0, 2, 4, 7}, h : 0 .. 2, e : 1 .. 4, p : {0, 1, 3}, m : {1, 3}, u : {0, 2, 3, 5}]`, c17AllKinds, c17AllInterps,
				`<<"f32", "vec4u", "vec2f", "i32", "vec4f", "u32", "vec2i">>`, `{<<4, 2, 1, 2>>, <<1, 1, 1, 1>>, <<8, 1, 1, 1>>, <<2, 3, 4, 3>>, <<64, 1, 1, 3>>, <<16, 16, 1, 2>>}`),
			cfg:      c17Cfg("{0, 1, 2, 3}", "{0, 1, 2, 5}", allStages, c17AllLocs, "{0, 100, 101, 102, 103, 104, 105, 1, 2, 3, 5, 7, 9, 12}", c17AllForms, true, "GenInv"),
			simulate: fmt.Sprintf("num=%d", per), depth: 400, seed: c.Seed*1000 + int64(i) + 1})
	}
	return gs
}

// c17Verdict is what BindingsTrace.tla prints at the end of a trace file.
type c17Verdict struct {
	Consumed int `json:"consumed"`
	Bad      []struct {
		L      int    `json:"l"`
		ID     int    `json:"id"`
		Run    int    `json:"run"`
		Rule   string `json:"rule"`
		Key    string `json:"key"`
		Detail string `json:"detail"`
	} `json:"bad"`
}

type c17Bad struct {
	Rule, Key, Detail string
}

const c17TraceCfg = "SPECIFICATION TSpec\nCHECK_DEADLOCK FALSE\nPOSTCONDITION Consumed\n"

// c17TLC runs TLC, never more than core.Cores() processes at a time.
var c17Sem chan struct{}
var c17SemOnce sync.Once

func c17TLC(c *core.Ctx, o core.TLCOpts) (*core.TLCResult, error) {
	c17SemOnce.Do(func() { c17Sem = make(chan struct{}, core.Cores()) })
	c17Sem <- struct{}{}
	defer func() { <-c17Sem }()
	o.Workers = 1
	return c.RunTLC(o)
}

// c17Dev returns the development sample size (VERIF_C17_DEV=n: n random walks, small exhaustive sets only), 0 otherwise.
func c17Dev() int {
	n := 0
	fmt.Sscan(os.Getenv("VERIF_C17_DEV"), &n)
	return n
}

// c17Validate runs TLC on one trace (lines are complete JSON objects) and returns bad[(id, run)] -> verdicts.
func c17Validate(c *core.Ctx, lines [][]byte) (map[[2]int][]c17Bad, []string, error) {
	tb := append(bytes.Join(lines, []byte("\n")), '\n')
	r, err := c17TLC(c, core.TLCOpts{Spec: "BindingsTrace", CfgText: c17TraceCfg, Files: map[string][]byte{"trace.ndjson": tb},
		Workers: 1, HeapGB: 3, Timeout: 25 * time.Minute})
	if err != nil {
		return nil, nil, err
	}
	if !r.OK || len(r.Printed) == 0 {
		return nil, nil, fmt.Errorf("trace validation failed to run: %s %s\n%s", r.Violated, r.Err, r.Tail(25))
	}
	c.AddTLC(r)
	var v c17Verdict
	if err := json.Unmarshal([]byte(r.Printed[len(r.Printed)-1]), &v); err != nil || v.Consumed != len(lines) {
		return nil, nil, fmt.Errorf("trace not fully consumed: %d of %d (%v)", v.Consumed, len(lines), err)
	}
	out := map[[2]int][]c17Bad{}
	for _, b := range v.Bad {
		if strings.HasPrefix(b.Rule, "harness:") {
			return nil, nil, fmt.Errorf("line %d: %s", b.L, b.Rule)
		}
		k := [2]int{b.ID, b.Run}
		out[k] = append(out[k], c17Bad{b.Rule, b.Key, b.Detail})
	}
	for _, bs := range out {
		sort.Slice(bs, func(i, j int) bool { return bs[i].Key+bs[i].Rule < bs[j].Key+bs[j].Rule })
	}
	return out, r.Printed[:len(r.Printed)-1], nil
}

func c17Lines(cs *c17Case) [][]byte {
	var out [][]byte
	b, _ := json.Marshal(map[string]any{"ev": "case", "id": cs.id, "m": cs.M.Normalize()})
	out = append(out, b)
	for i, r := range cs.runs {
		if r.Broken != "" {
			continue
		}
		obs := r.Obs
		if obs == nil {
			obs = []c17x.Obs{}
		}
		b, _ := json.Marshal(map[string]any{"ev": "observe", "id": cs.id, "run": i, "o": r.O, "ok": r.OK, "obs": obs})
		out = append(out, b)
	}
	return out
}

var c17SpvVersions = [][2]uint8{{1, 0}, {1, 3}, {1, 4}, {1, 5}, {1, 6}, {1, 1}, {1, 2}}

// c17Execute renders, lowers and compiles one case under nmaps option sets per backend.
func c17Execute(cs *c17Case, nmaps int, seed int64) {
	rng := rand.New(rand.NewSource(seed*7919 + int64(cs.id)))
	cs.src = c17x.Render(cs.M)
	cs.runs = nil
	im, _, err := drive.Front(cs.src)
	if err != nil {
		cs.err = err.Error()
		return
	}
	c17ExecuteIR(cs, im, nmaps, rng)
}

func c17ExecuteIR(cs *c17Case, im *ir.Module, nmaps int, rng *rand.Rand) {
	m := cs.M
	// SPIR-V: one version below 1.4 and one from 1.4 on (the interface rule changes there), rotating
	lo := [][2]uint8{{1, 0}, {1, 3}, {1, 1}, {1, 2}}[(cs.id)%4]
	hi := [][2]uint8{{1, 4}, {1, 5}, {1, 6}}[(cs.id)%3]
	cs.runs = append(cs.runs, c17x.SpvRun(im, lo), c17x.SpvRun(im, hi))
	for k := 0; k < nmaps; k++ {
		kind := c17x.MapKinds[(cs.id*nmaps+k)%len(c17x.MapKinds)]
		cs.runs = append(cs.runs, c17x.HlslRun(m, im, kind, rng))
		kind = c17x.MapKinds[(cs.id*nmaps+k+3)%len(c17x.MapKinds)]
		if kind == "complete-nofake" {
			kind = "identity"
		}
		cs.runs = append(cs.runs, c17x.MslRun(m, im, kind, rng))
	}
	for ei := range m.Eps {
		e := &m.Eps[ei]
		vs := c17x.GlslVersions(m, e)
		for k := 0; k < nmaps; k++ {
			kind := c17x.MapKinds[(cs.id*nmaps+k+ei+5)%len(c17x.MapKinds)]
			ver := vs[(cs.id+k+ei)%len(vs)]
			cs.runs = append(cs.runs, c17x.GlslRun(m, im, e, ver, kind, rng))
		}
	}
}

func runC17(tier, replay string) int {
	c := core.NewCtx("C17", tier, "model_checking")
	c.Cov["rule"] = "TLC explores the module-builder state machine of BindingsGen.tla (exhaustive at small bounds: every builtin per stage and direction, bare and in IO structs; every attribute spelling at every attribute position; pairs of resources of every class sharing / not sharing a (group, binding) across two entry points and a helper; plus seeded random walks at the full bounds: 1-4 entry points of mixed stages, up to 7 globals, helpers, locations 0-15, all interpolation forms) and checks on every state that the description is a well-formed WGSL interface. Each printed description is rendered as WGSL, lowered and compiled by the real naga to SPIR-V (one version below 1.4, one from 1.4), HLSL, MSL and GLSL (every entry point) under binding maps of the kinds identity / permuted / sparse / absent entries with and without FakeMissingBindings / random / none; independent decoders extract declarations with their slots, interface variables and decorations, execution modes and the reflection structs; TLC validates every compilation against Bindings!Exp (BindingsTrace.tla: each observed artefact allowed, each expected key observed exactly once). A case is non-trivial if it has a resource or an IO binding; distinct by the module description."
	c.Assumef("WGSL attribute semantics, SPIR-V / Vulkan interface rules and naga's documented option rules as transcribed in spec/Bindings.tla")
	c.Assumef("SPIR-V variables are identified through OpName (Options.Debug = true in every SPIR-V compilation)")

	// ---- self-test of the specification (corrupted observation streams must be rejected) ------------------------
	var wg sync.WaitGroup
	var selfErr string
	wg.Add(1)
	go func() {
		defer wg.Done()
		selfErr = c17SelfTest(c)
	}()

	phases := map[string]float64{}
	t0 := time.Now()
	mark := func(name string) {
		phases[name] = time.Since(t0).Seconds()
		t0 = time.Now()
		c.Cov["phase_seconds"] = phases
	}
	// ---- generation ----------------------------------------------------------------------------------------------
	gens := c17Generators(c)
	results := make([]*core.TLCResult, len(gens))
	core.ParMap(len(gens), min(len(gens), core.Cores()), func(i int) {
		g := gens[i]
		r, err := c17TLC(c, core.TLCOpts{Spec: "BindingsGenMC", CfgText: g.cfg, Files: map[string][]byte{"BindingsGenMC.tla": []byte(g.mc)},
			Workers: max(g.workers, 1), HeapGB: 3, Timeout: 18 * time.Minute, Simulate: g.simulate, Depth: g.depth, Seed: g.seed})
		if err != nil {
			c.BrokenF("TLC: %v", err)
			return
		}
		results[i] = r
	})
	var cases []*c17Case
	seen := map[string]bool{}
	var genStats []string
	for i, r := range results {
		if r == nil {
			return c.Finish()
		}
		if !r.OK {
			if r.Violated != "" {
				c.BrokenF("BindingsGen.tla: %s: TLC reports %s (the generator built an ill-formed module: specification error)\n%s", gens[i].name, r.Violated, r.Tail(30))
			} else {
				c.BrokenF("BindingsGen.tla: %s: TLC failed: %s\n%s", gens[i].name, r.Err, r.Tail(30))
			}
			return c.Finish()
		}
		c.AddTLC(r)
		n := 0
		for _, l := range r.Printed {
			var cs c17Case
			if err := json.Unmarshal([]byte(l), &cs); err != nil || cs.M == nil {
				c.BrokenF("cannot parse TLC output line: %v: %.200s", err, l)
				return c.Finish()
			}
			key, _ := json.Marshal(cs.M)
			if seen[string(key)] {
				continue
			}
			seen[string(key)] = true
			cs.id, cs.from = len(cases), gens[i].name
			cases = append(cases, &cs)
			n++
		}
		genStats = append(genStats, fmt.Sprintf("%s: %d states, %d modules printed, %d new", gens[i].name, r.Distinct, len(r.Printed), n))
	}
	c.Cov["tlc_runs"] = genStats
	if len(cases) < 50 && c17Dev() == 0 {
		c.BrokenF("only %d modules generated", len(cases))
		return c.Finish()
	}

	// ---- self-test of the generator invariant: a false claim must be refuted -------------------------------------
	wg.Add(1)
	go func() {
		defer wg.Done()
		g := gens[min(4, len(gens)-1)]
		if c17Dev() > 0 {
			return
		}
		r, err := c17TLC(c, core.TLCOpts{Spec: "BindingsGenMC", CfgText: strings.Replace(g.cfg, "INVARIANT GenInv", "INVARIANT NoSharedSlot", 1),
			Files: map[string][]byte{"BindingsGenMC.tla": []byte(g.mc)}, Workers: 2, HeapGB: 2, Timeout: 10 * time.Minute})
		if err != nil || r.Violated == "" {
			selfErr += fmt.Sprintf("BindingsGen self-test: the false invariant NoSharedSlot was not refuted (%v)\n", err)
		}
	}()

	mark("generate (TLC)")
	// ---- execution -----------------------------------------------------------------------------------------------
	nmaps := 2
	core.ParMap(len(cases), core.Cores(), func(i int) { c17Execute(cases[i], nmaps, c.Seed) })

	mark("compile and extract")
	verdicts, ok := c17Judge(c, cases)
	mark("validate (TLC)")
	wg.Wait()
	if selfErr != "" {
		c.BrokenF("%s", selfErr)
		return c.Finish()
	}
	c.Cov["selftest_corruptions_detected"] = 3
	if !ok {
		return c.Finish()
	}

	// ---- front-end rejections and bad verdicts: confirm on a fresh compilation, with a plain-spelling control ----
	type pending struct {
		cs    *c17Case
		fresh *c17Case // same description, recompiled
		plain *c17Case // all attribute arguments as plain decimals (control), nil when already plain
	}
	var pend []*pending
	// verdicts of the same shape are confirmed (and reported) on at most three cases each; the shape keeps every field
	// a known-finding predicate can look at, with numbers and generated names abstracted
	shapeCount := map[string]int{}
	nbad := 0
	for _, cs := range cases {
		np := strings.Join(cs.M.NonPlain(), ",")
		need := false
		if cs.err != "" {
			sh := "front|" + np + "|" + c17ErrClass(cs.err)
			shapeCount[sh]++
			need = shapeCount[sh] <= 3
			nbad++
		}
		for i := range cs.runs {
			bs := verdicts[[2]int{cs.id, i}]
			if len(bs) > 0 {
				nbad++
			}
			for _, b := range bs {
				sh := strings.Join([]string{cs.runs[i].Backend, cs.runs[i].MapKind, b.Rule, c17Abstract(b.Key), c17Abstract(b.Detail), np,
					c17EpShape(cs.M, b.Key), c17LidShape(cs.M, b.Key), c17Order(cs.M)}, "|")
				shapeCount[sh]++
				if shapeCount[sh] <= 3 {
					need = true
				}
			}
		}
		if !need {
			continue
		}
		p := &pending{cs: cs, fresh: &c17Case{M: cs.M, id: cs.id}}
		if len(cs.M.NonPlain()) > 0 {
			p.plain = &c17Case{M: cs.M.Plain(), id: cs.id}
		}
		pend = append(pend, p)
	}
	c.Disagree = nbad
	c.Cov["compilations_with_verdicts"] = nbad
	c.Cov["verdict_shapes"] = len(shapeCount)
	c.Cov["cases_confirmed_and_reported"] = len(pend)
	var again []*c17Case
	for i, p := range pend {
		p.fresh.id = 2 * i
		again = append(again, p.fresh)
		if p.plain != nil {
			p.plain.id = 2*i + 1
			again = append(again, p.plain)
		}
	}
	core.ParMap(len(again), core.Cores(), func(i int) {
		id := again[i].id
		orig := pend[id/2].cs
		again[i].id = orig.id // same option choices as the original
		c17Execute(again[i], nmaps, c.Seed)
		again[i].id = id
	})
	verdicts2, ok := c17Judge(c, again)
	if !ok {
		return c.Finish()
	}
	mark("confirm and control (compile + TLC)")

	// ---- evidence and reports --------------------------------------------------------------------------------------
	nruns, skipped := 0, 0
	for _, cs := range cases {
		key, _ := json.Marshal(cs.M)
		nontrivial := false
		for _, g := range cs.M.Globals {
			nontrivial = nontrivial || c17x.IsResource(g.Kind)
		}
		for _, e := range cs.M.Eps {
			nontrivial = nontrivial || len(e.Params) > 0 || e.Result.Kind != "none"
		}
		c.Eval(string(key), nontrivial)
		if cs.id%211 == 0 {
			c.Sample(map[string]any{"wgsl": cs.src, "from": cs.from, "runs": len(cs.runs)})
		}
		for _, r := range cs.runs {
			nruns++
			if r.Broken != "" {
				skipped++
				c.Skip(strings.SplitN(r.Broken, ":", 2)[0] + " cannot read the output")
				if skipped <= 3 {
					c.Sample(map[string]any{"skip": r.Broken, "backend": r.Backend, "wgsl": cs.src})
				}
			}
		}
	}
	c.Traces = nruns
	c.Programs = len(cases)
	c.Cov["compilations_validated"] = nruns
	if skipped*3 > nruns {
		c.BrokenF("%d of %d compilations could not be read by the decoders", skipped, nruns)
	}

	type report struct {
		what   string
		desc   map[string]string
		replay any
	}
	var reports []report
	for i, p := range pend {
		cs, fresh := p.cs, p.fresh
		np := cs.M.NonPlain()
		odd := "plain"
		if len(np) > 0 {
			odd = strings.Join(np, ",")
		}
		// front-end rejection of a generated (valid) module
		if cs.err != "" {
			if fresh.err == "" {
				c.BrokenF("front-end error not reproducible: %s", cs.err)
				continue
			}
			desc := map[string]string{"backend": "front", "rule": "front end rejects the module", "kind": "front", "odd": odd, "cause": "other", "error": c17ErrClass(cs.err)}
			if p.plain != nil && p.plain.err == "" {
				desc["cause"] = "attr-form"
			} else if p.plain != nil || len(np) == 0 {
				// the generator / renderer produced something naga does not accept: not a binding question
				c.Skip("front end rejects a generated module: " + c17ErrClass(cs.err))
				c.Sample(map[string]any{"front_error": cs.err, "wgsl": cs.src})
				continue
			}
			desc["sig"] = "front|" + odd + "|" + desc["error"]
			reports = append(reports, report{fmt.Sprintf("the front end rejects a valid module when an attribute argument is written as %s (accepted with plain decimal literals): %s", odd, cs.err),
				desc, map[string]any{"wgsl": cs.src, "module": cs.M}})
			continue
		}
		for ri := range cs.runs {
			bads := verdicts[[2]int{cs.id, ri}]
			if len(bads) == 0 {
				continue
			}
			r := cs.runs[ri]
			has := func(list []c17Bad, b c17Bad) bool {
				for _, x := range list {
					if x == b {
						return true
					}
				}
				return false
			}
			var freshBads, plainBads []c17Bad
			if ri < len(fresh.runs) {
				freshBads = verdicts2[[2]int{2 * i, ri}]
			}
			plainOK := p.plain != nil && p.plain.err == "" && ri < len(p.plain.runs)
			if plainOK {
				plainBads = verdicts2[[2]int{2*i + 1, ri}]
			}
			// one report per distinct (rule, kind of artefact, field)
			reported := map[string]bool{}
			for _, b := range bads {
				if !has(freshBads, b) {
					c.BrokenF("verdict not reproducible on a fresh compilation: case %d %s %s: %v", cs.id, r.Backend, r.MapKind, b)
					continue
				}
				// a verdict that disappears when every attribute argument is a plain decimal is caused by the spelling
				cause := "other"
				if plainOK && !has(plainBads, b) {
					cause = "attr-form"
				}
				kind := strings.SplitN(b.Key, " ", 2)[0]
				field := ""
				if b.Rule == "artefact differs" {
					field = strings.SplitN(b.Detail, ":", 2)[0]
				}
				desc := map[string]string{"backend": r.Backend, "rule": b.Rule, "kind": kind, "field": field, "mapkind": r.MapKind,
					"odd": odd, "cause": cause, "key": b.Key, "detail": b.Detail, "epshape": c17EpShape(cs.M, b.Key), "lidshape": c17LidShape(cs.M, b.Key), "order": c17Order(cs.M)}
				if cause != "attr-form" {
					desc["odd"] = "plain"
				}
				sig := strings.Join([]string{r.Backend, b.Rule, kind, field, desc["odd"], cause}, "|")
				if reported[sig] {
					continue
				}
				reported[sig] = true
				desc["sig"] = sig
				what := fmt.Sprintf("%s (%s): %s: %s %s", r.Backend, r.MapKind, b.Rule, b.Key, b.Detail)
				if cause == "attr-form" {
					what += fmt.Sprintf(" [attribute argument spelled %s; accepted when spelled as a plain decimal]", odd)
				}
				reports = append(reports, report{what, desc, map[string]any{"wgsl": cs.src, "module": cs.M, "options": r.O, "ok": r.OK, "error": r.Err, "observed": r.Obs, "emitted": r.Text, "verdicts": bads}})
			}
		}
	}
	// violations that do not depend on an attribute spelling first (replay files are capped)
	sort.SliceStable(reports, func(i, j int) bool {
		return reports[i].desc["cause"] != "attr-form" && reports[j].desc["cause"] == "attr-form"
	})
	for _, r := range reports {
		c.Report(r.what, r.desc, r.replay)
	}
	return c.Finish()
}

// c17EpShape describes the parameter list of the entry point a verdict key names ("io entA in ..."): which of its
// parameters carry @location bindings directly and which through IO structs.
func c17EpShape(m *c17x.Module, key string) string {
	f := strings.Fields(key)
	if len(f) < 2 {
		return ""
	}
	for _, e := range m.Eps {
		if e.Name != f[1] {
			continue
		}
		bare, st := false, false
		for _, p := range e.Params {
			for _, io := range p.IOs {
				if io.B == "location" {
					if p.Kind == "bare" {
						bare = true
					} else {
						st = true
					}
				}
			}
		}
		switch {
		case bare && st:
			return "bare and struct locations"
		case bare:
			return "bare locations"
		case st:
			return "struct locations"
		}
		return "no input locations"
	}
	return ""
}

// c17Order tells whether the module writes some attribute list in the reverse order (@binding @group, @interpolate
// @location, @invariant @builtin ...).
func c17Order(m *c17x.Module) string {
	for _, g := range m.Globals {
		if g.Rev {
			return "some reversed"
		}
	}
	for _, e := range m.Eps {
		for _, p := range append(append([]c17x.Param(nil), e.Params...), e.Result) {
			for _, io := range p.IOs {
				if io.Rev {
					return "some reversed"
				}
			}
		}
	}
	return "canonical"
}

// c17LidShape tells how the entry point a verdict key names declares @builtin(local_invocation_id): bare, struct or none.
func c17LidShape(m *c17x.Module, key string) string {
	f := strings.Fields(key)
	if len(f) < 2 {
		return ""
	}
	for _, e := range m.Eps {
		if e.Name != f[1] {
			continue
		}
		for _, p := range e.Params {
			for _, io := range p.IOs {
				if io.B == "builtin" && io.Builtin == "local_invocation_id" {
					return p.Kind
				}
			}
		}
		return "none"
	}
	return ""
}

var reC17Num = regexp.MustCompile(`\d+`)
var reC17Name = regexp.MustCompile(`\b(ent|res|help|qin|qout|StIn|StOut|Tres)[A-Z]+\b`)

// c17Abstract removes numbers and generated names from a verdict text (for grouping verdicts of the same shape).
func c17Abstract(s string) string {
	return reC17Num.ReplaceAllString(reC17Name.ReplaceAllString(s, "$1_"), "N")
}

func c17ErrClass(e string) string {
	for _, k := range []string{"requires @binding", "requires @group", "missing binding", "must have a binding", "unknown", "expected"} {
		if strings.Contains(e, k) {
			return k
		}
	}
	if i := strings.LastIndex(e, ": "); i >= 0 && len(e)-i < 80 {
		return e[i+2:]
	}
	if len(e) > 60 {
		return e[:60]
	}
	return e
}

// c17Judge validates all cases with TLC (sharded) and returns the verdicts per (case id, run index).
func c17Judge(c *core.Ctx, cases []*c17Case) (map[[2]int][]c17Bad, bool) {
	out := map[[2]int][]c17Bad{}
	if len(cases) == 0 {
		return out, true
	}
	// at most 400 cases per TLC process (the whole trace is held in memory), at least one shard per core
	nsh := max(min(core.Cores(), (len(cases)+24)/25), (len(cases)+399)/400)
	shards := make([][][]byte, nsh)
	for i, cs := range cases {
		if cs.err != "" {
			continue
		}
		shards[i%nsh] = append(shards[i%nsh], c17Lines(cs)...)
	}
	var mu sync.Mutex
	okAll := true
	core.ParMap(nsh, min(nsh, core.Cores()), func(s int) {
		if len(shards[s]) == 0 {
			return
		}
		v, _, err := c17Validate(c, shards[s])
		mu.Lock()
		defer mu.Unlock()
		if err != nil {
			c.BrokenF("%v", err)
			okAll = false
			return
		}
		for k, b := range v {
			out[k] = b
		}
	})
	return out, okAll
}

// c17SelfTest: TLC prints, for a fixed module, an observation sequence the specification accepts for each backend; the
// sequence must be accepted when fed back, and each of three corruptions must be rejected at its own line:
// DescriptorSet / Binding swapped, one interface variable missing, one reflection entry dropped.
func c17SelfTest(c *core.Ctx) string {
	var m c17x.Module
	if err := json.Unmarshal([]byte(c17SelfModule), &m); err != nil {
		return "self-test module: " + err.Error()
	}
	opts := []map[string]any{
		{"be": "spv", "ver": 14},
		{"be": "hlsl", "map": []any{map[string]any{"group": 1, "binding": 2, "space": 3, "reg": 4}}, "sbuf": []any{}, "fake": true},
		{"be": "msl", "fake": false, "maps": []any{map[string]any{"ep": "entB", "entries": []any{map[string]any{"group": 1, "binding": 2, "slot": 5}, map[string]any{"group": 0, "binding": 1, "slot": 6}, map[string]any{"group": 0, "binding": 3, "slot": 7}}}}},
		{"be": "glsl", "ep": "entB", "ver": 450, "es": false, "hasmap": true, "map": []any{map[string]any{"group": 1, "binding": 2, "slot": 9}}},
	}
	var lines [][]byte
	b, _ := json.Marshal(map[string]any{"ev": "case", "id": 0, "m": m})
	lines = append(lines, b)
	for i, o := range opts {
		b, _ := json.Marshal(map[string]any{"ev": "dump", "id": 0, "run": i, "o": o})
		lines = append(lines, b)
	}
	_, printed, err := c17Validate(c, lines)
	if err != nil {
		return "self-test (dump): " + err.Error()
	}
	if len(printed) != len(opts) {
		return fmt.Sprintf("self-test: %d dumps printed, want %d", len(printed), len(opts))
	}
	obs := make([][]map[string]any, len(opts))
	for _, p := range printed {
		var d struct {
			Dump int              `json:"dump"`
			Obs  []map[string]any `json:"obs"`
		}
		if err := json.Unmarshal([]byte(p), &d); err != nil {
			return "self-test: " + err.Error()
		}
		obs[d.Dump] = d.Obs
	}
	// the corruptions
	clone := func(x []map[string]any) []map[string]any {
		var y []map[string]any
		for _, r := range x {
			q := map[string]any{}
			for k, v := range r {
				q[k] = v
			}
			y = append(y, q)
		}
		return y
	}
	type variant struct {
		name string
		run  int
		obs  []map[string]any
		bad  bool
	}
	var vs []variant
	for i := range opts {
		vs = append(vs, variant{"unchanged", i, obs[i], false})
	}
	swapped := clone(obs[0])
	done := false
	for _, r := range swapped {
		if r["k"] == "var" && r["set"] != r["binding"] && r["class"] == "Uniform" {
			r["set"], r["binding"] = r["binding"], r["set"]
			done = true
			break
		}
	}
	if !done {
		return "self-test: no variable with DescriptorSet # Binding in the canonical SPIR-V observations"
	}
	vs = append(vs, variant{"DescriptorSet/Binding swapped", 0, swapped, true})
	var missing []map[string]any
	done = false
	for _, r := range obs[0] {
		if !done && r["k"] == "iface" {
			done = true
			continue
		}
		missing = append(missing, r)
	}
	if !done {
		return "self-test: no interface variable in the canonical SPIR-V observations"
	}
	vs = append(vs, variant{"one interface variable missing", 0, missing, true})
	var dropped []map[string]any
	done = false
	for _, r := range obs[3] {
		if !done && r["k"] == "r_uniform" {
			done = true
			continue
		}
		dropped = append(dropped, r)
	}
	if !done {
		return "self-test: no reflection entry in the canonical GLSL observations"
	}
	vs = append(vs, variant{"one reflection entry dropped", 3, dropped, true})
	lines = lines[:1]
	for i, v := range vs {
		b, _ := json.Marshal(map[string]any{"ev": "observe", "id": 0, "run": i, "o": opts[v.run], "ok": true, "obs": v.obs})
		lines = append(lines, b)
	}
	bad, _, err := c17Validate(c, lines)
	if err != nil {
		return "self-test (validate): " + err.Error()
	}
	for i, v := range vs {
		got := len(bad[[2]int{0, i}]) > 0
		if got != v.bad {
			return fmt.Sprintf("self-test: observation stream %q (%v): rejected = %v, want %v: %v", v.name, opts[v.run]["be"], got, v.bad, bad[[2]int{0, i}])
		}
	}
	return ""
}

// c17SelfModule: a uniform at (1,2), a storage buffer, a texture + sampler pair, a workgroup variable; vertex, fragment
// and compute entry points; one helper.
const c17SelfModule = `{"globals":[
 {"name":"resA","kind":"uniform","group":1,"binding":2,"gform":"plain","bform":"plain"},
 {"name":"resB","kind":"storage_rw","group":0,"binding":1,"gform":"plain","bform":"plain"},
 {"name":"resC","kind":"tex2d","group":0,"binding":3,"gform":"plain","bform":"plain"},
 {"name":"resD","kind":"sampler","group":0,"binding":4,"gform":"plain","bform":"plain"},
 {"name":"resE","kind":"workgroup","group":0,"binding":0,"gform":"plain","bform":"plain"}],
"helpers":[{"name":"helpA","uses":[2],"pairs":[],"calls":[]}],
"eps":[
 {"name":"entA","stage":"vertex","wg":[1,1,1],"wgn":1,"wgforms":["plain","plain","plain"],
  "params":[{"kind":"bare","sname":"","ios":[{"name":"qinA","ty":"vec4f","b":"location","builtin":"","loc":2,"lform":"plain","interp":"none","sampling":"none","invariant":false,"blend":-1,"blform":"plain"}]}],
  "result":{"kind":"struct","sname":"StOutA","ios":[{"name":"qoutA","ty":"vec4f","b":"builtin","builtin":"position","loc":0,"lform":"plain","interp":"none","sampling":"none","invariant":false,"blend":-1,"blform":"plain"},{"name":"qoutB","ty":"u32","b":"location","builtin":"","loc":3,"lform":"plain","interp":"flat","sampling":"none","invariant":false,"blend":-1,"blform":"plain"}]},
  "uses":[1],"pairs":[],"calls":[]},
 {"name":"entB","stage":"fragment","wg":[1,1,1],"wgn":1,"wgforms":["plain","plain","plain"],
  "params":[{"kind":"bare","sname":"","ios":[{"name":"qinA","ty":"u32","b":"location","builtin":"","loc":3,"lform":"plain","interp":"flat","sampling":"none","invariant":false,"blend":-1,"blform":"plain"}]}],
  "result":{"kind":"bare","sname":"","ios":[{"name":"qoutA","ty":"vec4f","b":"location","builtin":"","loc":0,"lform":"plain","interp":"none","sampling":"none","invariant":false,"blend":-1,"blform":"plain"}]},
  "uses":[1],"pairs":[[3,4]],"calls":[1]},
 {"name":"entC","stage":"compute","wg":[4,2,1],"wgn":2,"wgforms":["plain","plain","plain"],
  "params":[{"kind":"bare","sname":"","ios":[{"name":"qinA","ty":"vec3u","b":"builtin","builtin":"global_invocation_id","loc":0,"lform":"plain","interp":"none","sampling":"none","invariant":false,"blend":-1,"blform":"plain"}]}],
  "result":{"kind":"none","sname":"","ios":[]},
  "uses":[5],"pairs":[],"calls":[1]}
]}`

var _ = glsl.Version330
