package checks

import (
	"embed"
	"fmt"
	"sort"
	"strings"

	"verif/harness/drive"
)

// The reproducers of the known findings of C13 (one minimal program per finding, with the pass sequence and the input
// rows in its first two lines).  They are part of every run: a known finding is therefore observed on every seed, and
// a repaired one shows up as a reproducer that no longer reports anything.
//
//go:embed c13repro/*.wgsl
var c13ReproFS embed.FS

func c13ReproArts() ([]*c13Art, error) {
	ents, err := c13ReproFS.ReadDir("c13repro")
	if err != nil {
		return nil, err
	}
	var names []string
	for _, e := range ents {
		names = append(names, e.Name())
	}
	sort.Strings(names)
	var out []*c13Art
	for _, n := range names {
		b, err := c13ReproFS.ReadFile("c13repro/" + n)
		if err != nil {
			return nil, err
		}
		src := string(b)
		var seq []string
		rowSpec := ""
		for _, l := range strings.Split(src, "\n") {
			if s, ok := strings.CutPrefix(l, "// sequence:"); ok {
				seq = c13Split(s, ",")
			}
			if s, ok := strings.CutPrefix(l, "// rows:"); ok {
				rowSpec = s
			}
		}
		if len(seq) == 0 {
			return nil, fmt.Errorf("%s: no sequence line", n)
		}
		m, _, err := drive.Front(src)
		if err != nil {
			return nil, fmt.Errorf("%s: %v", n, err)
		}
		bufs, ok := c13ModuleBuffers(m, 4)
		if !ok {
			return nil, fmt.Errorf("%s: buffers", n)
		}
		a := &c13Art{Name: "repro-" + strings.TrimSuffix(n, ".wgsl"), Family: "repro", Tags: strings.TrimSuffix(n, ".wgsl"), Src: src,
			Seqs: [][]string{seq}, FixedBufs: bufs, FixedRows: c13ParseRows(bufs, rowSpec)}
		out = append(out, a)
	}
	return out, nil
}
