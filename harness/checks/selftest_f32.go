package checks

import (
	"bufio"
	"encoding/json"
	"fmt"
	"math"
	"os"
	"path/filepath"
	"time"

	"verif/harness/core"
)

func f32ok(x float32) bool {
	if x == 0 {
		return true
	}
	b := math.Float32bits(x)
	e := (b >> 23) & 0xff
	return e > 0 && e < 255
}

// SelfTestF32 runs F32Test.tla and recomputes every row with Go's float32.
func SelfTestF32(c *core.Ctx) (rows int, err error) {
	dir := filepath.Join(c.WorkDir, "f32")
	r, e := c.RunTLC(core.TLCOpts{Spec: "F32Test", Dir: dir, Timeout: 2 * time.Minute})
	if e != nil {
		return 0, e
	}
	if !r.OK {
		return 0, fmt.Errorf("F32Test: %s %s\n%s", r.Violated, r.Err, r.Tail(15))
	}
	each := func(name string, f func(m map[string]int64) error) error {
		fh, e := os.Open(filepath.Join(dir, name))
		if e != nil {
			return e
		}
		defer fh.Close()
		sc := bufio.NewScanner(fh)
		sc.Buffer(make([]byte, 1<<20), 1<<20)
		for sc.Scan() {
			var m map[string]int64
			if e := json.Unmarshal(sc.Bytes(), &m); e != nil {
				return e
			}
			if e := f(m); e != nil {
				return e
			}
			rows++
		}
		return nil
	}
	// big: the infinitely precise result is zero or at least the smallest normal (otherwise FTZ may apply: undecided)
	big := func(x float64) bool { return x == 0 || math.Abs(x) >= 0x1p-126 }
	fb := func(v int64) float32 { return math.Float32frombits(uint32(int32(v))) }
	bf := func(f float32) int32 { return int32(math.Float32bits(f)) }
	err = each("f32_table.ndjson", func(m map[string]int64) error {
		a, b := fb(m["a"]), fb(m["b"])
		chk := func(op string, okKey, valKey string, res float32, extraOk bool) error {
			ok := f32ok(a) && f32ok(b) && f32ok(res) && extraOk
			if (m[okKey] == 1) != ok {
				return fmt.Errorf("F32 %s(%v,%v) [%d,%d]: ok TLA+=%d native=%v (res %v)", op, a, b, m["a"], m["b"], m[okKey], ok, res)
			}
			if ok && int32(m[valKey]) != bf(res) {
				return fmt.Errorf("F32 %s(%v,%v) [%d,%d]: TLA+=%d native=%d (%v)", op, a, b, m["a"], m["b"], m[valKey], bf(res), res)
			}
			return nil
		}
		if e := chk("add", "addok", "add", a+b, big(float64(a)+float64(b))); e != nil {
			return e
		}
		if e := chk("sub", "subok", "sub", a-b, big(float64(a)-float64(b))); e != nil {
			return e
		}
		if e := chk("mul", "mulok", "mul", a*b, big(float64(a)*float64(b))); e != nil {
			return e
		}
		if e := chk("div", "divok", "div", a/b, b != 0 && big(float64(a)/float64(b))); e != nil {
			return e
		}
		if m["mulok"] == 1 {
			exact := float64(a)*float64(b) == float64(a*b)
			if (m["mulex"] == 1) != exact {
				return fmt.Errorf("F32 mulexact(%v,%v): TLA+=%d native=%v", a, b, m["mulex"], exact)
			}
		}
		if !f32ok(a) || !f32ok(b) {
			return nil
		}
		for k, v := range map[string]bool{"lt": a < b, "le": a <= b, "eq": a == b} {
			if (m[k] == 1) != v {
				return fmt.Errorf("F32 %s(%v,%v): TLA+=%d native=%v", k, a, b, m[k], v)
			}
		}
		un := map[string]float32{"floor": float32(math.Floor(float64(a))), "ceil": float32(math.Ceil(float64(a))),
			"trunc": float32(math.Trunc(float64(a))), "round": float32(math.RoundToEven(float64(a)))}
		for k, v := range un {
			if int32(m[k]) != bf(v) {
				return fmt.Errorf("F32 %s(%v) [%d]: TLA+=%d native=%d", k, a, m["a"], m[k], bf(v))
			}
		}
		// saturating conversions
		var ts int32
		switch {
		case a >= 2147483648:
			ts = math.MaxInt32
		case a <= -2147483648:
			ts = math.MinInt32
		default:
			ts = int32(a)
		}
		var tu uint32
		switch {
		case a >= 4294967296:
			tu = math.MaxUint32
		case a <= 0:
			tu = 0
		default:
			tu = uint32(a)
		}
		if int32(m["tos"]) != ts || uint32(int32(m["tou"])) != tu {
			return fmt.Errorf("F32 toint(%v): TLA+ s=%d u=%d native s=%d u=%d", a, m["tos"], uint32(int32(m["tou"])), ts, tu)
		}
		sq := float32(math.Sqrt(float64(a)))
		exact := a >= 0 && float64(sq)*float64(sq) == float64(a) && f32ok(sq)
		if (m["sqrtok"] == 1) != exact {
			return fmt.Errorf("F32 sqrtok(%v): TLA+=%d native=%v", a, m["sqrtok"], exact)
		}
		if exact && int32(m["sqrt"]) != bf(sq) {
			return fmt.Errorf("F32 sqrt(%v): TLA+=%d native=%d", a, m["sqrt"], bf(sq))
		}
		return nil
	})
	if err != nil {
		return rows, err
	}
	err = each("f32_itable.ndjson", func(m map[string]int64) error {
		n := int32(m["n"])
		s := float32(n)
		sok := int64(s) == int64(n)
		if (m["sok"] == 1) != sok || (sok && int32(m["s"]) != bf(s)) {
			return fmt.Errorf("F32 stof(%d): TLA+ ok=%d v=%d native ok=%v v=%d", n, m["sok"], m["s"], sok, bf(s))
		}
		u := float32(uint32(n))
		uok := uint64(u) == uint64(uint32(n)) && u < 4294967296
		if (m["uok"] == 1) != uok || (uok && int32(m["u"]) != bf(u)) {
			return fmt.Errorf("F32 utof(%d): TLA+ ok=%d v=%d native ok=%v v=%d", uint32(n), m["uok"], m["u"], uok, bf(u))
		}
		return nil
	})
	if err == nil && rows < 100 {
		err = fmt.Errorf("F32 tables have only %d rows", rows)
	}
	return rows, err
}
