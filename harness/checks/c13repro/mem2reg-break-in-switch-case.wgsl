// sequence: prepareModule,sroa,mem2reg
// rows: 2,5,1,0,0,0,0,0; 2,5,0,0,0,0,0,0
@group(0) @binding(0) var<storage, read> inp: array<i32, 8>;
@group(0) @binding(1) var<storage, read_write> out: array<i32, 8>;
@compute @workgroup_size(1)
fn main() {
  var x = 1;
  switch inp[0] {
    case 2: {
      x = inp[1];
      if inp[2] > 0 { break; }
      x = 77;
    }
    default: { }
  }
  out[0] = x;
}
