// sequence: InlineAll
// rows: 1,0,0,0,0,0,0,0; 3,0,0,0,0,0,0,0
@group(0) @binding(0) var<storage, read> inp: array<i32, 8>;
@group(0) @binding(1) var<storage, read_write> out: array<i32, 8>;
fn pick(n: i32) -> i32 {
  switch n {
    case 1: { return 10; }
    default: { }
  }
  return 20;
}
@compute @workgroup_size(1)
fn main() {
  out[0] = pick(inp[0]);
}
