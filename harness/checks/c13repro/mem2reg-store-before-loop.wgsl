// sequence: prepareModule,sroa,mem2reg
// rows: 0,0,0,0,0,6,0,0; 3,1,4,1,5,9,2,6
@group(0) @binding(0) var<storage, read> inp: array<i32, 8>;
@group(0) @binding(1) var<storage, read_write> out: array<i32, 8>;
@compute @workgroup_size(1)
fn main() {
  var s = 0;
  var n = 0;
  s = inp[5];
  loop {
    if n >= 3 { break; }
    s = s + n;
    n = n + 1;
  }
  out[0] = s + n;
}
