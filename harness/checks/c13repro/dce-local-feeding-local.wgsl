// sequence: prepareModule,sroa,mem2reg,dce
// rows: 1,2,3,4,5,6,7,8; 0,5,0,5,0,5,0,5
@group(0) @binding(0) var<storage, read> inp: array<i32, 8>;
@group(0) @binding(1) var<storage, read_write> out: array<i32, 8>;
@compute @workgroup_size(1)
fn main() {
  var a = 0;
  var b = 0;
  var n = 0;
  loop {
    if n >= 3 { break; }
    if n > 0 { a = inp[n]; } else { a = 1; }
    b = b + a;
    n = n + 1;
  }
  out[0] = b + n;
}
