// sequence: InlineAll
// rows: 0,5,0,0,0,0,0,0; 3,5,0,0,0,0,0,0
@group(0) @binding(0) var<storage, read> inp: array<i32, 8>;
@group(0) @binding(1) var<storage, read_write> out: array<i32, 8>;
@group(0) @binding(2) var<storage, read_write> cell: atomic<i32>;
fn cas(want: i32, put: i32) -> i32 {
  let r = atomicCompareExchangeWeak(&cell, want, put);
  return r.old_value;
}
@compute @workgroup_size(1)
fn main() {
  let scale = f32(inp[1]) * 2.0;
  out[0] = cas(inp[0], 7) + i32(scale);
  out[1] = atomicLoad(&cell);
}
