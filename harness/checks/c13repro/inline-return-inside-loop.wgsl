// sequence: InlineAll
// rows: 2,0,0,0,0,0,0,0; 9,0,0,0,0,0,0,0
@group(0) @binding(0) var<storage, read> inp: array<i32, 8>;
@group(0) @binding(1) var<storage, read_write> out: array<i32, 8>;
fn find(n: i32) -> i32 {
  var i = 0;
  loop {
    if i >= 4 { break; }
    if i == n { return 100 + i; }
    i = i + 1;
  }
  return -1;
}
@compute @workgroup_size(1)
fn main() {
  out[0] = find(inp[0]);
}
