// sequence: prepareModule,sroa,mem2reg,dce
// rows: 1,2,3,4,5,6,7,8
// (snapshot/testdata/in/boids.wgsl) a second run of dce removes stores and branches the first run kept
const NUM_PARTICLES: u32 = 1500u;

struct Particle {
  pos : vec2<f32>,
  vel : vec2<f32>,
}

struct SimParams {
  deltaT : f32,
  rule1Distance : f32,
  rule2Distance : f32,
  rule3Distance : f32,
  rule1Scale : f32,
  rule2Scale : f32,
  rule3Scale : f32,
}

struct Particles {
  particles : array<Particle>
}

@group(0) @binding(0) var<uniform> params : SimParams;
@group(0) @binding(1) var<storage> particlesSrc : Particles;
@group(0) @binding(2) var<storage,read_write> particlesDst : Particles;

// https://github.com/austinEng/Project6-Vulkan-Flocking/blob/master/data/shaders/computeparticles/particle.comp
@compute @workgroup_size(64)
fn main(@builtin(global_invocation_id) global_invocation_id : vec3<u32>) {
  let index : u32 = global_invocation_id.x;
  if index >= NUM_PARTICLES {
    return;
  }

  var vPos = particlesSrc.particles[index].pos;
  var vVel = particlesSrc.particles[index].vel;

  var cMass = vec2<f32>(0.0, 0.0);
  var cVel = vec2<f32>(0.0, 0.0);
  var colVel = vec2<f32>(0.0, 0.0);
  var cMassCount : i32 = 0;
  var cVelCount : i32 = 0;

  var pos : vec2<f32>;
  var vel : vec2<f32>;
  var i : u32 = 0u;
  loop {
    if i >= NUM_PARTICLES {
      break;
    }
    if i == index {
      continue;
    }

    pos = particlesSrc.particles[i].pos;
    vel = particlesSrc.particles[i].vel;

    if distance(pos, vPos) < params.rule1Distance {
      cMass = cMass + pos;
      cMassCount = cMassCount + 1;
    }
    if distance(pos, vPos) < params.rule2Distance {
      colVel = colVel - (pos - vPos);
    }
    if distance(pos, vPos) < params.rule3Distance {
      cVel = cVel + vel;
      cVelCount = cVelCount + 1;
    }

    continuing {
      i = i + 1u;
    }
  }
  if cMassCount > 0 {
    cMass = cMass / f32(cMassCount) - vPos;
  }
  if cVelCount > 0 {
    cVel = cVel / f32(cVelCount);
  }

  vVel = vVel + (cMass * params.rule1Scale) +
      (colVel * params.rule2Scale) +
      (cVel * params.rule3Scale);

  // clamp velocity for a more pleasing simulation
  vVel = normalize(vVel) * clamp(length(vVel), 0.0, 0.1);

  // kinematic update
  vPos = vPos + (vVel * params.deltaT);

  // Wrap around boundary
  if vPos.x < -1.0 {
    vPos.x = 1.0;
  }
  if vPos.x > 1.0 {
    vPos.x = -1.0;
  }
  if vPos.y < -1.0 {
    vPos.y = 1.0;
  }
  if vPos.y > 1.0 {
    vPos.y = -1.0;
  }

  // Write back
  particlesDst.particles[index].pos = vPos;
  particlesDst.particles[index].vel = vVel;
}
