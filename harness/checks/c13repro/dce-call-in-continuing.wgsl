// sequence: prepareModule,sroa,mem2reg,dce
// rows: 1,2,3,4,5,6,7,8
@group(0) @binding(0) var<storage, read> inp: array<i32, 8>;
@group(0) @binding(1) var<storage, read_write> out: array<i32, 8>;
fn bump(x: i32) -> i32 { return x + 2; }
@compute @workgroup_size(1)
fn main() {
  var i = 0;
  var s = inp[5];
  loop {
    s += i * 2;
    continuing {
      i = bump(i);
      break if i >= 4;
    }
  }
  out[2] = s + i;
}
