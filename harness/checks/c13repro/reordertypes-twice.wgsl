// sequence: ReorderTypes
// rows: 1,2,3,4,5,6,7,8
alias F3 = vec3<f32>;
alias I = i32;
struct U { p: F3, q: array<u32, 5>, }
@group(0) @binding(0) var<storage, read> inp: array<i32, 8>;
@group(0) @binding(1) var<storage, read_write> out: array<i32, 8>;
var<private> pv: U;
fn helper(b: f32) -> u32 {
  let z = F3(vec2<f32>(0.0), b);
  let h = vec2<I>();
  return pv.q[1] + u32(h.x) + u32(z.x);
}
@compute @workgroup_size(1)
fn main() {
  out[0] = inp[0] + i32(helper(1.0));
}
