// sequence: prepareModule,sroa,mem2reg
// rows: 1,2,3,4,5,6,7,8
@group(0) @binding(0) var<storage, read> inp: array<i32, 8>;
@group(0) @binding(1) var<storage, read_write> out: array<i32, 8>;
@compute @workgroup_size(1)
fn main() {
  var n = 0;
  loop {
    if n >= 3 { break; }
    out[n] = inp[n] + 7;
    n = n + 1;
  }
}
