// sequence: prepareModule,sroa,mem2reg,dce
// rows: 0,0,0,1,0,0,0,0; 0,0,0,2,0,0,0,0
@group(0) @binding(0) var<storage, read> inp: array<i32, 8>;
@group(0) @binding(1) var<storage, read_write> out: array<i32, 8>;
@compute @workgroup_size(1)
fn main() {
  var k = 0;
  switch inp[3] {
    case 1: { k = 4; }
    default: { k = 9; }
  }
  out[0] = k;
}
