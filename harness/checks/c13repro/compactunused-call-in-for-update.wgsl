// sequence: CompactUnused
// rows: 0,0,0,0,0,0,0,0; 3,0,0,0,0,0,0,0; 5,1,0,0,0,0,0,0
// (no finding on the pinned tree: the regression case for the reachability trace of CompactUnused - `next` is
// reachable only through the update clause of the for loop, i.e. StmtLoop.Continuing)
@group(0) @binding(0) var<storage, read> inp: array<i32, 8>;
@group(0) @binding(1) var<storage, read_write> out: array<i32, 8>;
fn weight(x: i32) -> i32 { return x * 3 + 1; }
fn next(x: i32) -> i32 { return x + 1; }
@compute @workgroup_size(1)
fn main() {
  var acc = 0;
  for (var i = 0; i < inp[0]; i = next(i)) {
    acc = acc + weight(i);
  }
  out[0] = acc;
}
