// sequence: prepareModule,sroa
// rows: 1,2,3,4,5,6,7,8
@group(0) @binding(0) var<storage, read> inp: array<i32, 8>;
@group(0) @binding(1) var<storage, read_write> out: array<i32, 8>;
struct S { a: i32, b: i32, }
@compute @workgroup_size(1)
fn main() {
  var s: S;
  s.a = 1;
  s = S(inp[1], inp[2]);
  out[0] = s.a * 10 + s.b;
}
