package checks

// Feature extraction for property C08: the feature vocabulary of spec/Naga.tla computed from a lowered module (used
// for programs whose features are not stated by a TLA+ generator: corpus shaders, semantic families), and the
// reference evidence / reference option set of a corpus shader.

import (
	"os"
	"path/filepath"
	"regexp"
	"sort"
	"strconv"
	"strings"

	"github.com/gogpu/naga/ir"

	"verif/harness/core"
	"verif/harness/drive"
)

type featSet map[string]bool

func (f featSet) list() []string {
	out := []string{}
	for k := range f {
		out = append(out, k)
	}
	sort.Strings(out)
	return out
}

// storage formats every targeted GLSL ES version has without an extension
var plainStorageFormats = map[string]bool{}

func init() {
	for _, f := range []ir.StorageFormat{ir.StorageFormatRgba8Unorm, ir.StorageFormatRgba8Snorm, ir.StorageFormatRgba8Uint, ir.StorageFormatRgba8Sint,
		ir.StorageFormatRgba16Uint, ir.StorageFormatRgba16Sint, ir.StorageFormatRgba16Float, ir.StorageFormatR32Uint, ir.StorageFormatR32Sint,
		ir.StorageFormatR32Float, ir.StorageFormatRgba32Uint, ir.StorageFormatRgba32Sint, ir.StorageFormatRgba32Float} {
		plainStorageFormats[strconv.Itoa(int(f))] = true
	}
}

var plainMath = map[ir.MathFunction]bool{}

func init() {
	for f := ir.MathAbs; f <= ir.MathFirstLeadingBit; f++ {
		plainMath[f] = true
	}
	for _, f := range []ir.MathFunction{ir.MathDot4I8Packed, ir.MathDot4U8Packed, ir.MathQuantizeF16, ir.MathModf, ir.MathFrexp, ir.MathLdexp,
		ir.MathInverse, ir.MathFma, ir.MathCountLeadingZeros, ir.MathCountTrailingZeros, ir.MathCountOneBits, ir.MathReverseBits,
		ir.MathExtractBits, ir.MathInsertBits, ir.MathFirstLeadingBit, ir.MathFirstTrailingBit} {
		// bit manipulation and fma / frexp / ldexp need GLSL 4.00 / ES 3.10 built-ins: not part of the plain vocabulary
		delete(plainMath, f)
	}
}

func typeFeatures(m *ir.Module, f featSet) {
	scalar := func(s ir.ScalarType) {
		switch {
		case s.Kind == ir.ScalarFloat && s.Width == 2:
			f["f16"] = true
		case s.Kind == ir.ScalarFloat && s.Width == 8:
			f["f64"] = true
		case (s.Kind == ir.ScalarSint || s.Kind == ir.ScalarUint) && s.Width == 8:
			f["i64"] = true
		}
	}
	for _, t := range m.Types {
		switch in := t.Inner.(type) {
		case ir.ScalarType:
			scalar(in)
		case ir.VectorType:
			scalar(in.Scalar)
		case ir.MatrixType:
			scalar(in.Scalar)
		case ir.AtomicType:
			f["atomics"] = true
			if in.Scalar.Width != 4 || in.Scalar.Kind == ir.ScalarFloat {
				f["exotic"] = true
			}
		case ir.ImageType:
			if in.Dim == ir.Dim1D || in.Multisampled || (in.Dim == ir.DimCube && in.Arrayed) || in.Class == ir.ImageClassExternal {
				f["exotic"] = true
			}
			switch in.Class {
			case ir.ImageClassSampled:
				f["texture"] = true
			case ir.ImageClassDepth:
				f["texture"], f["depth_texture"] = true, true
			case ir.ImageClassStorage:
				f["storage_texture"] = true
				if !plainStorageFormats[strconv.Itoa(int(in.StorageFormat))] || in.StorageAccess != ir.StorageAccessWrite {
					f["exotic"] = true
				}
			}
		case ir.SamplerType:
			f["sampler"] = true
		case ir.StructType, ir.ArrayType, ir.PointerType, ir.ValuePointerType:
		default:
			f["exotic"] = true // binding arrays, acceleration structures, ray queries ...
		}
	}
}

func bindingFeatures(b *ir.Binding, f featSet) {
	if b == nil {
		return
	}
	switch x := (*b).(type) {
	case ir.BuiltinBinding:
		switch x.Builtin {
		case ir.BuiltinSampleIndex, ir.BuiltinSampleMask:
			f["sample_rate"] = true
		case ir.BuiltinPosition, ir.BuiltinVertexIndex, ir.BuiltinInstanceIndex, ir.BuiltinFrontFacing, ir.BuiltinFragDepth,
			ir.BuiltinLocalInvocationID, ir.BuiltinLocalInvocationIndex, ir.BuiltinGlobalInvocationID, ir.BuiltinWorkGroupID, ir.BuiltinNumWorkGroups:
		default:
			f["exotic"] = true
		}
		if x.Invariant {
			f["invariant"] = true
		}
	case ir.LocationBinding:
		if x.Interpolation != nil && x.Interpolation.Sampling == ir.SamplingSample {
			f["sample_rate"] = true
		}
		if x.BlendSrc != nil {
			f["exotic"] = true
		}
	}
}

func fnFeatures(m *ir.Module, fn *ir.Function, f featSet) {
	for i := range fn.Arguments {
		bindingFeatures(fn.Arguments[i].Binding, f)
		ioStruct(m, fn.Arguments[i].Type, f)
	}
	if fn.Result != nil {
		bindingFeatures(fn.Result.Binding, f)
		ioStruct(m, fn.Result.Type, f)
	}
	for _, e := range fn.Expressions {
		switch k := e.Kind.(type) {
		case ir.ExprImageSample:
			if k.Gather != nil || k.Offset != nil || k.ClampToEdge {
				f["exotic"] = true
			}
			switch k.Level.(type) {
			case ir.SampleLevelAuto, ir.SampleLevelBias:
				f["sample_implicit"] = true
			case ir.SampleLevelGradient:
				f["exotic"] = true
			}
		case ir.ExprImageQuery:
			f["image_query"] = true
			if _, ok := k.Query.(ir.ImageQuerySize); !ok {
				f["exotic"] = true
			}
		case ir.ExprDerivative:
			f["derivative"] = true
			if k.Control != ir.DerivativeNone {
				f["derivative_control"] = true
			}
		case ir.ExprArrayLength:
			f["array_length"] = true
		case ir.ExprAtomicResult:
			f["atomics"] = true
		case ir.ExprMath:
			if !plainMath[k.Fun] {
				f["exotic"] = true
			}
		case ir.ExprOverride:
			f["override"] = true
		case ir.ExprWorkGroupUniformLoadResult, ir.ExprRayQueryProceedResult, ir.ExprRayQueryGetIntersection,
			ir.ExprSubgroupBallotResult, ir.ExprSubgroupOperationResult:
			f["exotic"] = true
		}
	}
	var walk func(b []ir.Statement)
	walk = func(b []ir.Statement) {
		for _, s := range b {
			switch k := s.Kind.(type) {
			case ir.StmtBlock:
				walk(k.Block)
			case ir.StmtIf:
				walk(k.Accept)
				walk(k.Reject)
			case ir.StmtSwitch:
				for _, c := range k.Cases {
					walk(c.Body)
				}
			case ir.StmtLoop:
				walk(k.Body)
				walk(k.Continuing)
			case ir.StmtKill:
				f["discard"] = true
			case ir.StmtBarrier:
				f["barrier"] = true
				if k.Flags&^(ir.BarrierStorage|ir.BarrierWorkGroup) != 0 {
					f["exotic"] = true
				}
			case ir.StmtAtomic:
				f["atomics"] = true
			case ir.StmtImageAtomic, ir.StmtWorkGroupUniformLoad, ir.StmtRayQuery, ir.StmtSubgroupBallot,
				ir.StmtSubgroupCollectiveOperation, ir.StmtSubgroupGather:
				f["exotic"] = true
			}
		}
	}
	walk(fn.Body)
}

func ioStruct(m *ir.Module, h ir.TypeHandle, f featSet) {
	if int(h) >= len(m.Types) {
		return
	}
	if st, ok := m.Types[h].Inner.(ir.StructType); ok {
		for i := range st.Members {
			bindingFeatures(st.Members[i].Binding, f)
		}
	}
}

var stageName = map[ir.ShaderStage]string{ir.StageVertex: "vertex", ir.StageFragment: "fragment", ir.StageCompute: "compute"}

// irFeatures computes the (module-wide, conservative) feature set of a lowered module.
func irFeatures(m *ir.Module) featSet {
	f := featSet{}
	typeFeatures(m, f)
	for _, gv := range m.GlobalVariables {
		switch gv.Space {
		case ir.SpaceUniform:
			f["uniform_buffer"] = true
		case ir.SpaceStorage:
			f["storage_buffer"] = true
			if gv.Access != ir.StorageRead {
				f["storage_rw"] = true
			}
		case ir.SpaceWorkGroup:
			f["workgroup"] = true
		case ir.SpacePrivate:
			f["private"] = true
		case ir.SpaceHandle, ir.SpaceFunction:
		default:
			f["exotic"] = true
		}
		if gv.Binding != nil && gv.Binding.Group > 0 {
			f["group_nonzero"] = true
		}
	}
	if len(m.Overrides) > 0 {
		f["override"] = true
	}
	for i := range m.Functions {
		fnFeatures(m, &m.Functions[i], f)
	}
	for i := range m.EntryPoints {
		ep := &m.EntryPoints[i]
		if _, ok := stageName[ep.Stage]; !ok || ep.EarlyDepthTest != nil || ep.MeshInfo != nil || ep.TaskPayload != nil {
			f["exotic"] = true
		}
		fnFeatures(m, &ep.Function, f)
	}
	return f
}

// ---------------------------------------------------------------- corpus evidence

// corpusEvidence says for which action groups the Rust-naga reference holds output of a corpus shader:
// "front"/"validate" (any output exists), "spv", "hlsl", "msl", and "glsl:<entry>" per entry point.
func corpusEvidence(name string) []string {
	base := strings.TrimSuffix(name, ".wgsl")
	ref := filepath.Join(core.RepoDir, "snapshot/testdata/reference")
	var claim []string
	exists := func(p string) bool { _, err := os.Stat(p); return err == nil }
	if exists(filepath.Join(ref, "spv", "wgsl-"+base+".spvasm")) {
		claim = append(claim, "spv")
	}
	if exists(filepath.Join(ref, "hlsl", "wgsl-"+base+".hlsl")) {
		claim = append(claim, "hlsl")
	}
	if exists(filepath.Join(ref, "msl", "wgsl-"+base+".msl")) {
		claim = append(claim, "msl")
	}
	gl, _ := filepath.Glob(filepath.Join(ref, "glsl", "wgsl-"+base+".*.glsl"))
	for _, g := range gl {
		parts := strings.Split(strings.TrimPrefix(filepath.Base(g), "wgsl-"+base+"."), ".")
		if len(parts) == 3 { // <entry>.<Stage>.glsl
			claim = append(claim, "glsl:"+parts[0])
		}
	}
	if len(claim) > 0 || exists(filepath.Join(ref, "ir", "wgsl-"+base+".ron")) {
		claim = append(claim, "front", "validate")
	}
	sort.Strings(claim)
	return claim
}

var (
	reSection   = regexp.MustCompile(`(?m)^\[([a-z_]+)\]\s*$`)
	reVersion2  = regexp.MustCompile(`(?m)^\s*(version|lang_version)\s*=\s*\[\s*(\d+)\s*,\s*(\d+)\s*\]`)
	reDesktop   = regexp.MustCompile(`version\.Desktop\s*=\s*(\d+)`)
	reEmbedded  = regexp.MustCompile(`version\.Embedded\s*=\s*\{[^}]*version\s*=\s*(\d+)`)
	reSM        = regexp.MustCompile(`(?m)^\s*shader_model\s*=\s*"V(\d)_(\d)"`)
	rePC        = regexp.MustCompile(`(?m)^pipeline_constants\s*=\s*\{([^}]*)\}`)
	reFake      = regexp.MustCompile(`(?m)^\s*fake_missing_bindings\s*=\s*true`)
	reSpvDebug  = regexp.MustCompile(`(?m)^\s*debug\s*=\s*true`)
)

// corpusRefOpts reads the fields of the shader's configuration file that can influence acceptance (versions, pipeline
// constants); everything else keeps the defaults the reference implementation's snapshot harness uses.
func corpusRefOpts(name string) *drive.RefOpts {
	r := &drive.RefOpts{MslVersion: [2]int{1, 0}, GlslVersion: 310, GlslES: true, HlslSM: 51, SpvVersion: [2]int{1, 1}}
	b, err := os.ReadFile(filepath.Join(core.RepoDir, "snapshot/testdata/in", strings.TrimSuffix(name, ".wgsl")+".toml"))
	if err != nil {
		return r
	}
	text := string(b)
	if m := rePC.FindStringSubmatch(text); m != nil {
		r.HasConstants = true
		r.Constants = map[string]float64{}
		for _, kv := range strings.Split(m[1], ",") {
			p := strings.SplitN(kv, "=", 2)
			if len(p) != 2 {
				continue
			}
			k, v := strings.TrimSpace(p[0]), strings.TrimSpace(p[1])
			if v == "nan" {
				continue // "not set": the override keeps its default
			}
			if x, err := strconv.ParseFloat(v, 64); err == nil {
				r.Constants[strings.Trim(k, `"`)] = x
			}
		}
	}
	// split into sections
	idx := reSection.FindAllStringSubmatchIndex(text, -1)
	for i, loc := range idx {
		sec := text[loc[2]:loc[3]]
		end := len(text)
		if i+1 < len(idx) {
			end = idx[i+1][0]
		}
		body := text[loc[1]:end]
		switch sec {
		case "spv":
			if m := reVersion2.FindStringSubmatch(body); m != nil && m[1] == "version" {
				r.SpvVersion[0], _ = strconv.Atoi(m[2])
				r.SpvVersion[1], _ = strconv.Atoi(m[3])
			}
			r.SpvDebug = reSpvDebug.MatchString(body)
		case "msl":
			if m := reVersion2.FindStringSubmatch(body); m != nil && m[1] == "lang_version" {
				r.MslVersion[0], _ = strconv.Atoi(m[2])
				r.MslVersion[1], _ = strconv.Atoi(m[3])
			}
			r.MslFake = reFake.MatchString(body)
		case "glsl":
			if m := reDesktop.FindStringSubmatch(body); m != nil {
				r.GlslVersion, _ = strconv.Atoi(m[1])
				r.GlslES = false
			}
			if m := reEmbedded.FindStringSubmatch(body); m != nil {
				r.GlslVersion, _ = strconv.Atoi(m[1])
				r.GlslES = true
			}
		case "hlsl":
			if m := reSM.FindStringSubmatch(body); m != nil {
				a, _ := strconv.Atoi(m[1])
				c, _ := strconv.Atoi(m[2])
				r.HlslSM = a*10 + c
			}
		}
	}
	return r
}
