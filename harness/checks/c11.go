package checks

import (
	"bytes"
	"encoding/json"
	"fmt"
	"os"
	"regexp"
	"sort"
	"strconv"
	"strings"
	"sync"
	"time"
	"unicode/utf8"

	"github.com/gogpu/naga"
	"github.com/gogpu/naga/wgsl"

	"verif/harness/core"
	"verif/harness/drive"
	"verif/harness/tokgen"
)

func init() { Registry["C11"] = runC11 }

// c11Mut is one line printed by Edits.tla: a mutant (kind "mut") with the expectation the specification attaches to it,
// or the rendering of an original program (kind "orig").
type c11Mut struct {
	Kind     string   `json:"kind"`
	P        int      `json:"p"`
	Rule     string   `json:"rule"`
	Var      any      `json:"var"`
	Ri       int      `json:"ri"`
	Role     string   `json:"role"`
	S        string   `json:"s"`
	Wh       string   `json:"wh"`
	X        string   `json:"x"`
	A        int      `json:"a"`
	B        int      `json:"b"`
	N        int      `json:"n"`
	Ntok     int      `json:"ntok"`
	Src      string   `json:"src"`
	Rejected bool     `json:"rejected"`
	Output   bool     `json:"output"`
	Stages   []string `json:"stages"`
	Mode     string   `json:"mode"`
	Lo       []int    `json:"lo"`
	Hi       []int    `json:"hi"`
	Eof      []int    `json:"eof"`
}

func (m *c11Mut) variant() string {
	switch v := m.Var.(type) {
	case string:
		return v
	case []any:
		var s []string
		for _, x := range v {
			s = append(s, fmt.Sprint(x))
		}
		return strings.Join(s, ":")
	}
	return fmt.Sprint(m.Var)
}

// c11Obs is what the real compiler did with one source text.
type c11Obs struct {
	Stage   string // "" accepted by Parse+Lower, else parse | lower | panic
	Err     string
	HasPos  bool
	Line    int
	Col     int
	Compile string // outcome of naga.Compile: "rejected" | "output:<n> bytes"
	Late    string // when Parse+Lower accept: "validate" if only validation/backend reject it
}

var (
	reParsePos = regexp.MustCompile(`line (\d+), column (-?\d+):`)
	reLowerPos = regexp.MustCompile(`^(\d+):(-?\d+): `)
)

// c11Observe runs the front end and the one-call compiler on src.
func c11Observe(src string) c11Obs {
	var o c11Obs
	m, stage, err := drive.Front(src)
	o.Stage = stage
	if err != nil {
		o.Err = err.Error()
		var mm []string
		if stage == "parse" {
			mm = reParsePos.FindStringSubmatch(o.Err)
		} else if stage == "lower" {
			mm = reLowerPos.FindStringSubmatch(o.Err)
		}
		if mm != nil {
			o.HasPos = true
			o.Line, _ = strconv.Atoi(mm[1])
			o.Col, _ = strconv.Atoi(mm[2])
		}
	}
	out, cerr := func() (b []byte, e error) {
		defer func() {
			if r := recover(); r != nil {
				b, e = nil, fmt.Errorf("panic: %v", r)
			}
		}()
		return naga.Compile(src)
	}()
	switch {
	case cerr != nil && len(out) == 0:
		o.Compile = "rejected"
	default:
		o.Compile = fmt.Sprintf("output:%d bytes", len(out))
	}
	if err == nil {
		if cerr != nil {
			o.Late = "validate"
			o.Err = cerr.Error()
		} else if m != nil {
			// show that a backend really emits code for the accepted mutant
			if b, e := drive.Compile("msl", "default", m, ""); e == nil {
				o.Compile += fmt.Sprintf(", msl:%d bytes", len(b))
			}
		}
	}
	return o
}

func posLE(l1, c1, l2, c2 int) bool { return l1 < l2 || (l1 == l2 && c1 <= c2) }

// c11Judge compares an observation with the expectation of the specification.  It returns "" when they agree, else the
// class of the contradiction (observed) and a sentence.
func c11Judge(m *c11Mut, o c11Obs) (observed, what string) {
	if !m.Rejected || m.Output {
		return "", "" // (never: ExpectOK in the specification)
	}
	if o.Stage == "panic" {
		return "panic", "the compiler panicked instead of rejecting: " + o.Err
	}
	if o.Stage == "" {
		if o.Late != "" {
			return "late", "accepted by Parse and Lower; only validation/code generation rejects it, without a source position: " + o.Err
		}
		return "accepted", "accepted and compiled (" + o.Compile + ")"
	}
	if o.Compile != "rejected" {
		return "output", "front end rejects but naga.Compile produced " + o.Compile
	}
	okStage := false
	for _, s := range m.Stages {
		if s == o.Stage {
			okStage = true
		}
	}
	if !okStage {
		return "stage", fmt.Sprintf("rejected at stage %s, expected %v: %s", o.Stage, m.Stages, o.Err)
	}
	if !o.HasPos {
		return "nopos", "rejected without a line:column position: " + o.Err
	}
	in := posLE(m.Lo[0], m.Lo[1], o.Line, o.Col) && posLE(o.Line, o.Col, m.Hi[0], m.Hi[1])
	if in {
		return "", ""
	}
	inside := posLE(1, 1, o.Line, o.Col) && posLE(o.Line, o.Col, m.Eof[0], m.Eof[1]) && o.Col >= 1
	switch m.Mode {
	case "exact":
		cls := "position"
		if !inside {
			cls = "position-outside-source"
		}
		return cls, fmt.Sprintf("reported %d:%d, the first token that cannot continue the grammar is at %d:%d: %s", o.Line, o.Col, m.Lo[0], m.Lo[1], o.Err)
	case "from":
		if !inside {
			return "position-outside-source", fmt.Sprintf("reported %d:%d which is outside the source (1:1 .. %d:%d): %s", o.Line, o.Col, m.Eof[0], m.Eof[1], o.Err)
		}
		return "position-before", fmt.Sprintf("reported %d:%d, before the mutated token at %d:%d: %s", o.Line, o.Col, m.Lo[0], m.Lo[1], o.Err)
	default:
		return "position-outside-decl", fmt.Sprintf("reported %d:%d, outside the enclosing declaration %d:%d .. %d:%d: %s", o.Line, o.Col, m.Lo[0], m.Lo[1], m.Hi[0], m.Hi[1], o.Err)
	}
}

// c11SiteKind is the site descriptor used in known-finding predicates: role kind plus its sub-kind.
func c11SiteKind(m *c11Mut) string {
	k := m.Role
	if m.S != "" {
		k += ":" + m.S
	}
	return k
}

func c11Cfg(faults string, checkFast bool) string {
	return fmt.Sprintf("SPECIFICATION Spec\nCONSTANTS\n Faults = %s\n CheckFast = %s\nINVARIANTS Differs Frame FreshOK FreshUsed ExpectOK FastOK OrigPrinted\nCHECK_DEADLOCK FALSE\n",
		faults, strings.ToUpper(fmt.Sprint(checkFast)))
}

func c11ProgFile(ps []*tokgen.Prog) []byte {
	var buf bytes.Buffer
	enc := json.NewEncoder(&buf)
	enc.SetEscapeHTML(false)
	for _, p := range ps {
		_ = enc.Encode(p)
	}
	return buf.Bytes()
}

// c11Options varies the generator from the program number.
func c11Options(i int) tokgen.Options {
	o := tokgen.Options{Stmts: 2 + i%3, Depth: 1 + (i/3)%2, Helpers: 2 + (i/5)%2}
	o.Comments = i%2 == 1
	o.NonASCII = i%8 == 5
	return o
}

func runC11(tier, replay string) int {
	c := core.NewCtx("C11", tier, "model_checking")
	c.Cov["rule"] = "Valid WGSL programs are generated as token sequences with layout and roles (tokgen: typed generator over structs, constants, const_asserts (operands of one integer kind and of mixed kinds: u32 / i32 / AbstractInt constants, literals, conversions, products, under ! && ||), aliases, resources, helper functions incl. @must_use and pointer parameters, compute/vertex/fragment entry points, nested blocks, loops with continuing, switch; seeded by VERIF_SEED); each is accepted by the real naga and its token table (kinds, lexemes, line:column) is compared with the real lexer (wgsl.VerifTokens). TLC explores spec/Edits.tla: from every program every BreakRule(rule, site, variant) action (19 rule classes, every applicable site - exhaustive per program), checks on every mutant that it differs from the original, that the original is unchanged outside the edited window, that fresh names hit nothing and that the expectation is well formed, and prints the mutant text with the expectation (rejected; stage; position: exact first bad token / from the mutated token / within the enclosing declaration). Every mutant is replayed through naga.Parse, naga.LowerWithSource and naga.Compile and compared. A case is one (program, rule, site, variant); all are non-trivial; distinct by mutant text + rule."
	c.Assumef("WGSL validity rules as cited in the header of spec/Edits.tla; the generated originals are valid WGSL by construction (typed generation) and accepted by naga")
	c.Assumef("integer division/remainder by a constant zero is only expected to be diagnosed when the dividend is a const-expression too")

	// ---- programs ---------------------------------------------------------------------------------------------
	nprog := c.Pick(6, 680)
	if v, err := strconv.Atoi(os.Getenv("VERIF_C11_PROGS")); err == nil && v > 0 {
		nprog = v // development aid: a smaller sample
	}
	first := 0
	if v, err := strconv.Atoi(os.Getenv("VERIF_C11_FIRST")); err == nil && v > 0 {
		first = v // development aid: the sample starts at this program of the sequence (0-based)
	}
	stride := 1
	if v, err := strconv.Atoi(os.Getenv("VERIF_C11_STRIDE")); err == nil && v > 0 {
		stride = v // development aid: every stride-th program of the sequence
	}
	progs := make([]*tokgen.Prog, nprog)
	core.ParMap(nprog, core.Cores(), func(i int) {
		k := first + i*stride
		progs[i] = tokgen.Generate(k+1, c.Seed*100003+int64(k)*7919+1, c11Options(k))
	})
	srcs := make([]string, nprog)
	var kept []*tokgen.Prog
	var mu sync.Mutex
	lexFindings := 0
	okProg := make([]bool, nprog)
	core.ParMap(nprog, core.Cores(), func(i int) {
		p := progs[i]
		src := p.Text()
		srcs[i] = src
		o := c11Observe(src)
		if o.Stage != "" || o.Compile == "rejected" {
			// a valid program rejected is C08's subject, not C11's: the program is not used
			c.Skip("original program rejected by naga (C08 territory): " + firstWords(o.Err, 8))
			return
		}
		// the token table against the real lexer
		lx, err := wgsl.NewLexer(src).Tokenize()
		if err != nil {
			c.BrokenF("program %d: real lexer fails on the original: %v", p.ID, err)
			return
		}
		vt := wgsl.VerifTokens(lx)
		pos := p.Positions()
		k := 0
		for ti, t := range p.Toks {
			if t.K == "cmt" {
				continue
			}
			if k >= len(vt) {
				c.BrokenF("program %d: real token stream shorter than the table", p.ID)
				return
			}
			v := vt[k]
			k++
			if v.Lexeme != t.Real || !c11KindOK(t, v.Kind) {
				c.BrokenF("program %d token %d: table has %s %q, real lexer %s %q", p.ID, ti+1, t.K, t.Real, v.Kind, v.Lexeme)
				return
			}
			if v.Line != pos[ti].Line || v.Column != pos[ti].Col {
				ascii := t.X == t.Real
				if ascii {
					c.BrokenF("program %d token %d %q: table position %d:%d, real lexer %d:%d", p.ID, ti+1, t.Real, pos[ti].Line, pos[ti].Col, v.Line, v.Column)
					return
				}
				mu.Lock()
				lexFindings++
				c.Disagree++
				mu.Unlock()
				c.Report(fmt.Sprintf("lexer position of a token with non-ASCII code points: %q is at %d:%d (columns in code points), the lexer says %d:%d", t.Real, pos[ti].Line, pos[ti].Col, v.Line, v.Column),
					map[string]string{"rule": "token-position", "site": "non-ascii-identifier", "observed": "position", "sig": "token-position"},
					map[string]any{"wgsl": src, "token": t.Real, "expected": pos[ti], "lexer": []int{v.Line, v.Column}})
			}
		}
		if k != len(vt) {
			c.BrokenF("program %d: real token stream has %d tokens, the table %d", p.ID, len(vt), k)
			return
		}
		okProg[i] = true
	})
	byID := map[int]*tokgen.Prog{}
	for i, p := range progs {
		if okProg[i] {
			kept = append(kept, p)
			byID[p.ID] = p
		}
	}
	c.Programs = len(kept)
	if len(kept) == 0 || len(c.Broken) > 0 {
		if len(kept) == 0 {
			c.BrokenF("no usable program")
		}
		return c.Finish()
	}
	if c.Skips()*3 > nprog {
		c.BrokenF("%d of %d generated programs are rejected by naga", c.Skips(), nprog)
		return c.Finish()
	}

	// ---- self-test of the specification: every seeded fault must be reported by TLC -------------------------------
	selfFile := c11ProgFile(kept[:1])
	faults := map[string]string{"noop": "Differs", "outside": "Frame", "collide": "FreshUsed", "accept": "ExpectOK", "posflip": "ExpectOK"}
	var fnames []string
	for f := range faults {
		fnames = append(fnames, f)
	}
	sort.Strings(fnames)
	core.ParMap(len(fnames), min(len(fnames), core.Cores()), func(i int) {
		f := fnames[i]
		r, err := c.RunTLC(core.TLCOpts{Spec: "Edits", CfgText: c11Cfg(fmt.Sprintf("{%q}", f), true), Files: map[string][]byte{"c11_progs.ndjson": selfFile},
			Workers: 1, HeapGB: 2, Timeout: 10 * time.Minute})
		if err != nil || !strings.Contains(r.Violated, faults[f]) {
			v, t := "", ""
			if r != nil {
				v, t = r.Violated+" "+r.Err, r.Tail(12)
			}
			c.BrokenF("Edits.tla self-test: seeded fault %s not reported as a violation of %s (got %q): %v\n%s", f, faults[f], v, err, t)
		}
	})
	if len(c.Broken) > 0 {
		return c.Finish()
	}
	c.Cov["selftest_faults_detected"] = len(fnames)

	// ---- per shard: TLC enumerates the mutants of its programs, the harness replays them -----------------------
	// (each TLC process gets its own share of the programs; the first one also checks the incremental text/position
	// forms of the specification against the plain definitions on every mutant)
	// A TLC process keeps per-program tables and its large states in memory: with 57 programs in one process a 6 GB
	// heap was exhausted (GC thrash, then "Evaluating invariant FastOK failed" from an allocation failure).  The
	// number of programs per process is therefore bounded (8: measured fine with a 2 GB heap), independent of the
	// number of cores; Cores() processes run at a time.
	const perShard = 8
	nshards := min(len(kept), max(c.Pick(6, 2*core.Cores()), (len(kept)+perShard-1)/perShard))
	if v, err := strconv.Atoi(os.Getenv("VERIF_C11_SHARDS")); err == nil && v > 0 {
		nshards = min(len(kept), v) // development aid
	}
	type tally struct{ n, bad int }
	perRule := map[string]*tally{}
	perWhere := map[string]int{}
	perMode := map[string]int{}
	perCassert := map[string]int{} // const_assert mutants by operand class / variant
	origSeen := map[int]bool{}
	nmut := 0
	var tmu sync.Mutex

	replayOne := func(m *c11Mut) {
		o := c11Observe(m.Src)
		observed, what := c11Judge(m, o)
		c.Eval(m.Rule+"\x00"+m.Src, true)
		tmu.Lock()
		t := perRule[m.Rule]
		if t == nil {
			t = &tally{}
			perRule[m.Rule] = t
		}
		t.n++
		perWhere[m.Wh]++
		perMode[m.Mode]++
		if m.Rule == "const_assert" {
			perCassert[m.S+"/"+m.variant()]++
		}
		nmut++
		sample := nmut%977 == 1
		if observed != "" {
			t.bad++
			c.Disagree++
		}
		tmu.Unlock()
		if sample {
			c.Sample(map[string]any{"rule": m.Rule, "site": c11SiteKind(m), "where": m.Wh, "variant": m.variant(), "mode": m.Mode, "lo": m.Lo, "hi": m.Hi,
				"stage": o.Stage, "error": o.Err})
		}
		if observed == "" {
			return
		}
		// confirm once more on its own before reporting
		o2 := c11Observe(m.Src)
		if ob2, _ := c11Judge(m, o2); ob2 != observed {
			c.BrokenF("mutant of program %d (%s) judged %q then %q", m.P, m.Rule, observed, ob2)
			return
		}
		delim := ""
		if m.Role == "close" || m.Role == "open" || m.Role == "semi" {
			delim = m.X
		}
		ascii := "ascii"
		if byID[m.P].NonASCII {
			ascii = "non-ascii"
		}
		// for position findings: is the token the compiler points at one with non-ASCII code points?
		errtok := ""
		if strings.HasPrefix(observed, "position") {
			errtok = "ascii"
			if lx, err := wgsl.NewLexer(m.Src).Tokenize(); err == nil {
				for _, v := range wgsl.VerifTokens(lx) {
					if v.Line == o.Line && v.Column == o.Col && len(v.Lexeme) != utf8.RuneCountInString(v.Lexeme) {
						errtok = "non-ascii"
					}
				}
			}
		}
		desc := map[string]string{"rule": m.Rule, "site": c11SiteKind(m), "delim": delim, "variant": m.variant(), "where": m.Wh, "observed": observed,
			"stage": o.Stage, "mode": m.Mode, "text": ascii, "errtoken": errtok,
			"sig": m.Rule + "/" + c11SiteKind(m) + "/" + m.variantClass() + "/" + observed}
		c.Report(fmt.Sprintf("%s at %s (%s, %s): %s", m.Rule, c11SiteKind(m), m.variant(), m.Wh, what), desc,
			map[string]any{"wgsl": m.Src, "original": byID[m.P].Text(), "rule": m.Rule, "site": c11SiteKind(m), "variant": m.variant(), "window": []int{m.A, m.B, m.N},
				"expect": map[string]any{"rejected": true, "stages": m.Stages, "mode": m.Mode, "lo": m.Lo, "hi": m.Hi}, "observed": o})
	}

	// self-test of the comparison: a mutant equal to the original and corrupted expectations must be flagged
	selfTest := func(muts []*c11Mut) {
		m0 := *muts[0]
		m0.Src = byID[m0.P].Text()
		if obs, _ := c11Judge(&m0, c11Observe(m0.Src)); obs != "accepted" {
			c.BrokenF("self-test: a mutant equal to the original program is not flagged (got %q)", obs)
		}
		flagged := 0
		tried := 0
		for _, m := range muts {
			if m.Mode != "exact" && m.Mode != "within" {
				continue
			}
			o := c11Observe(m.Src)
			if obs, _ := c11Judge(m, o); obs != "" || !o.HasPos {
				continue
			}
			tried++
			bad := *m
			// move the expected window away from the reported position
			bad.Lo = []int{o.Line, o.Col + 1}
			bad.Hi = []int{max(m.Hi[0], o.Line), max(m.Hi[1], o.Col+1) + 1}
			if bad.Mode == "exact" {
				bad.Hi = bad.Lo
			}
			if obs, _ := c11Judge(&bad, o); strings.HasPrefix(obs, "position") {
				flagged++
			}
			bad2 := *m
			bad2.Stages = []string{"none"}
			if obs, _ := c11Judge(&bad2, o); obs == "stage" {
				flagged++
			}
			if tried >= 20 {
				break
			}
		}
		if tried == 0 || flagged != 2*tried {
			c.BrokenF("self-test: corrupted expectations flagged %d of %d", flagged, 2*tried)
		}
		tmu.Lock()
		c.Cov["selftest_corrupted_expectations_flagged"] = flagged
		tmu.Unlock()
	}

	core.ParMap(nshards, min(nshards, core.Cores()), func(s int) {
		var mine []*tokgen.Prog
		for i, p := range kept {
			if i%nshards == s {
				mine = append(mine, p)
			}
		}
		r, err := c.RunTLC(core.TLCOpts{Spec: "Edits", CfgText: c11Cfg("{}", s == 0), Files: map[string][]byte{"c11_progs.ndjson": c11ProgFile(mine)},
			Workers: 1, HeapGB: c.Pick(2, 6), Timeout: c11ShardTimeout(c)})
		if err != nil {
			c.BrokenF("TLC: %v", err)
			return
		}
		if !r.OK {
			if r.Violated != "" {
				c.BrokenF("Edits.tla shard %d: TLC reports %s (a mutant violates the specification's own sanity invariant: specification error)\n%s", s, r.Violated, r.Tail(25))
			} else {
				c.BrokenF("Edits.tla shard %d: TLC failed: %s\n%s", s, r.Err, r.Tail(25))
			}
			return
		}
		c.AddTLC(r)
		var muts []*c11Mut
		for _, l := range r.Printed {
			m := &c11Mut{}
			if err := json.Unmarshal([]byte(l), m); err != nil {
				c.BrokenF("cannot parse TLC output line: %v: %.200s", err, l)
				return
			}
			p := byID[m.P]
			if p == nil {
				c.BrokenF("TLC printed a line for unknown program %d", m.P)
				return
			}
			m.Src = p.Subst(m.Src)
			if m.Kind == "orig" {
				// both sides must render the same text and agree on where the file ends
				pos := p.Positions()
				if m.Src != p.Text() || len(m.Eof) != 2 || m.Eof[0] != pos[len(pos)-1].Line || m.Eof[1] != pos[len(pos)-1].Col {
					c.BrokenF("program %d: the specification renders the original differently from the harness", m.P)
					return
				}
				tmu.Lock()
				origSeen[m.P] = true
				tmu.Unlock()
				continue
			}
			muts = append(muts, m)
		}
		r.Out, r.Printed = "", nil
		if len(muts) == 0 {
			c.BrokenF("shard %d: no mutants enumerated", s)
			return
		}
		if s == 0 {
			selfTest(muts)
		}
		for _, m := range muts {
			replayOne(m)
		}
	})
	if len(c.Broken) > 0 {
		return c.Finish()
	}
	if len(origSeen) != len(kept) {
		c.BrokenF("TLC handled %d of %d programs", len(origSeen), len(kept))
		return c.Finish()
	}
	if nmut < 100 {
		c.BrokenF("only %d mutants enumerated (vacuous run)", nmut)
		return c.Finish()
	}
	c.Traces = nmut
	rules := map[string]string{}
	for r, t := range perRule {
		rules[r] = fmt.Sprintf("%d mutants, %d contradict the expectation", t.n, t.bad)
	}
	c.Cov["mutants_per_rule"] = rules
	c.Cov["mutants_per_position_mode"] = perMode
	c.Cov["sites_by_place"] = perWhere
	c.Cov["const_assert_mutants_by_class"] = perCassert
	for _, k := range []string{"mixed/negate", "mixed/false", "mixed/operand", "int/negate"} {
		if perCassert[k] == 0 {
			c.BrokenF("no const_assert mutant of class %s was enumerated (vacuous for that class)", k)
		}
	}
	c.Cov["lexer_position_disagreements"] = lexFindings
	need := []string{"undecl_var", "undecl_type", "undecl_fn", "undecl_member", "args_few", "args_many", "args_type", "must_use", "const_assert",
		"group_only", "binding_only", "array_size", "swizzle_mix", "swizzle_width", "semicolon", "del_close", "extra_open", "no_wgsize", "div_zero"}
	for _, r := range need {
		if perRule[r] == nil {
			c.BrokenF("no mutant of rule %s was enumerated (vacuous for that rule)", r)
		}
	}
	return c.Finish()
}

// variantClass drops the argument index from args_type variants (for signatures).
func (m *c11Mut) variantClass() string {
	v := m.variant()
	if i := strings.Index(v, ":"); i >= 0 && m.Rule == "args_type" {
		return v[i+1:]
	}
	return v
}

// c11KindOK relates the table's lexical class to the real lexer's kind name.
func c11KindOK(t tokgen.Tok, kind string) bool {
	switch t.K {
	case "id":
		return kind == "Ident"
	case "int":
		return kind == "IntLiteral"
	case "float":
		return kind == "FloatLiteral"
	case "p", "kw":
		return kind == t.Real
	case "tkw":
		return kind == "Unknown" // type keywords have no name in the lexer's table
	case "eof":
		return kind == "EOF"
	}
	return false
}

func firstWords(s string, n int) string {
	f := strings.Fields(s)
	if len(f) > n {
		f = f[:n]
	}
	return strings.Join(f, " ")
}

// c11ShardTimeout: the thorough tier's shards hold ~40 programs each (more mutants per program since the mixed
// const_assert conditions were added).
func c11ShardTimeout(c *core.Ctx) time.Duration {
	if c.Quick() {
		return 40 * time.Minute
	}
	return 80 * time.Minute
}
