package checks

import (
	"fmt"

	"github.com/gogpu/naga/dxil"
	"github.com/gogpu/naga/ir"
)

// C13 pass names: the actions of spec/Passes.tla.
var c13IrPassNames = []string{"CompactUnused", "InlineAll", "InlineSome", "CompactConstants", "CompactExpressions", "CompactTypes", "ReorderTypes", "DeduplicateEmits"}
var c13DxilPassNames = []string{"prepareModule", "sroa", "mem2reg", "dce"}

// c13InlineSomePolicy is the partial inlining policy of the action InlineSome: a callee is inlined iff it has an even
// number of expressions (an arbitrary but deterministic property of the callee, so that call chains are cut at
// different depths in different programs).
func c13InlineSomePolicy(callee *ir.Function) bool { return len(callee.Expressions)%2 == 0 }

// ApplyPass applies one pass of the real naga to m (in place for every pass but prepareModule, which returns a
// prepared clone) and returns the resulting module.  Panics are returned as errors.
func ApplyPass(m *ir.Module, name string) (out *ir.Module, err error) {
	defer func() {
		if r := recover(); r != nil {
			out, err = nil, fmt.Errorf("panic: %v", r)
		}
	}()
	switch name {
	case "CompactUnused":
		ir.CompactUnused(m)
	case "InlineAll":
		err = ir.InlineUserFunctions(m, func(*ir.Function) bool { return true })
	case "InlineSome":
		err = ir.InlineUserFunctions(m, c13InlineSomePolicy)
	case "CompactConstants":
		ir.CompactConstants(m)
	case "CompactExpressions":
		ir.CompactExpressions(m)
	case "CompactTypes":
		ir.CompactTypes(m)
	case "ReorderTypes":
		ir.ReorderTypes(m)
	case "DeduplicateEmits":
		ir.DeduplicateEmits(m)
	case "prepareModule":
		return dxil.VerifPrepareModule(m)
	case "sroa", "mem2reg", "dce":
		err = dxil.VerifRunPass(m, name)
	default:
		err = fmt.Errorf("unknown pass %q", name)
	}
	return m, err
}
