package checks

import (
	"encoding/json"
	"os"
	"testing"
)

// TestC06DumpCases writes the quick-tier cases as ndjson (development aid): C06_DUMP=/path go test -run TestC06DumpCases
func TestC06DumpCases(t *testing.T) {
	path := os.Getenv("C06_DUMP")
	if path == "" {
		t.Skip("C06_DUMP not set")
	}
	f, err := os.Create(path)
	if err != nil {
		t.Fatal(err)
	}
	defer f.Close()
	for _, cs := range genConstCases(1, os.Getenv("C06_THOROUGH") == "") {
		b, _ := json.Marshal(constLine{ID: cs.ID, E: cs.Tree})
		f.Write(b)
		f.Write([]byte("\n"))
	}
}
