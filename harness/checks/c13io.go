package checks

import (
	"fmt"
	"sort"

	"github.com/gogpu/naga/ir"
)

// c13Buf is one input buffer of a module: the resource binding and its size in 32-bit words.
type c13Buf struct {
	Group, Binding int
	Words          int
	Name           string
}

// c13TypeBytes is the size in bytes the IR records for a type (runtime-sized arrays count `rt` elements).
func c13TypeBytes(m *ir.Module, th ir.TypeHandle, rt int) int {
	if int(th) >= len(m.Types) {
		return 0
	}
	switch t := m.Types[th].Inner.(type) {
	case ir.ScalarType:
		return int(t.Width)
	case ir.AtomicType:
		return int(t.Scalar.Width)
	case ir.VectorType:
		return int(t.Size) * int(t.Scalar.Width)
	case ir.MatrixType:
		col := int(t.Rows)
		if col == 3 {
			col = 4
		}
		return int(t.Columns) * col * int(t.Scalar.Width)
	case ir.ArrayType:
		n := rt
		if t.Size.Constant != nil {
			n = int(*t.Size.Constant)
		}
		return n * int(t.Stride)
	case ir.StructType:
		if len(t.Members) == 0 {
			return int(t.Span)
		}
		last := t.Members[len(t.Members)-1]
		sz := int(last.Offset) + c13TypeBytes(m, last.Type, rt)
		if int(t.Span) > sz {
			sz = int(t.Span)
		}
		return sz
	}
	return 0
}

// c13ModuleBuffers lists the storage/uniform globals of a module as input buffers (sorted by binding); ok is false when
// two of them share a binding or one has none (the module is then outside what the C13 machinery can feed).
func c13ModuleBuffers(m *ir.Module, rt int) (bufs []c13Buf, ok bool) {
	seen := map[[2]int]bool{}
	for _, g := range m.GlobalVariables {
		if g.Space != ir.SpaceStorage && g.Space != ir.SpaceUniform {
			continue
		}
		if g.Binding == nil {
			return nil, false
		}
		k := [2]int{int(g.Binding.Group), int(g.Binding.Binding)}
		if seen[k] {
			return nil, false
		}
		seen[k] = true
		by := c13TypeBytes(m, g.Type, rt)
		if by <= 0 || by > 1<<16 {
			return nil, false
		}
		bufs = append(bufs, c13Buf{Group: k[0], Binding: k[1], Words: (by + 3) / 4, Name: g.Name})
	}
	sort.Slice(bufs, func(i, j int) bool {
		if bufs[i].Group != bufs[j].Group {
			return bufs[i].Group < bufs[j].Group
		}
		return bufs[i].Binding < bufs[j].Binding
	})
	return bufs, true
}

func c13BufKey(b c13Buf) string { return fmt.Sprintf("%d.%d", b.Group, b.Binding) }

// ProbeCase renders one IrRun case line for the triage tool cmd/irprobe.
func ProbeCase(id int, m *ir.Module, rowSpec string) []byte {
	bufs, _ := c13ModuleBuffers(m, 4)
	rows := c13ParseRows(bufs, rowSpec)
	ep := ""
	for _, e := range m.EntryPoints {
		if e.Stage == ir.StageCompute {
			ep = e.Name
			break
		}
	}
	return c13CaseLine(id, m, ep, bufs, rows)
}

// c13ParseRows reads "w,w,w; w,w,w": per row the words of the first buffer (the other buffers start zeroed); no spec gives one zero row.
func c13ParseRows(bufs []c13Buf, rowSpec string) [][][]int32 {
	var rows [][][]int32
	for _, rs := range c13Split(rowSpec, ";") {
		var row [][]int32
		for bi, b := range bufs {
			w := make([]int32, b.Words)
			if bi == 0 {
				for i, x := range c13Split(rs, ",") {
					var v int64
					fmt.Sscan(x, &v)
					if i < len(w) {
						w[i] = int32(v)
					}
				}
			}
			row = append(row, w)
		}
		rows = append(rows, row)
	}
	if len(rows) == 0 {
		var row [][]int32
		for _, b := range bufs {
			row = append(row, make([]int32, b.Words))
		}
		rows = append(rows, row)
	}
	return rows
}
