package checks

import (
	"bytes"
	"os"
	"strconv"
	"encoding/json"
	"fmt"
	"sync"
	"time"

	"verif/harness/core"
	"verif/harness/wg"
)

// SemCase is one program with its input rows; Expect is filled by the
// specification (WgslSem.tla, evaluated by TLC).
type SemCase struct {
	ID     int         `json:"id"`
	Family string      `json:"family"`
	Desc   string      `json:"desc"`
	Prog   wg.N        `json:"prog"`
	Inputs [][][]int32 `json:"inputs"` // row -> global index -> words (empty for non-buffers)
	Expect []SemRow    `json:"-"`
}

// SemRow is the specification's verdict for one input row.
type SemRow struct {
	OK   bool      `json:"ok"`
	Why  string    `json:"why"`
	Out  [][]int32 `json:"out"`
	Mask [][]int32 `json:"mask"`
}

// EvalSpec evaluates the cases with TLC (sharded over processes).
func EvalSpec(c *core.Ctx, cases []*SemCase, shards int) error {
	var todo []*SemCase
	for _, cs := range cases {
		if cs.Expect == nil {
			todo = append(todo, cs)
		}
	}
	cases = todo
	if len(cases) == 0 {
		return nil
	}
	if shards < 1 {
		shards = 1
	}
	if shards > len(cases) {
		shards = len(cases)
	}
	byID := map[int]*SemCase{}
	for i, cs := range cases {
		cs.ID = i + 1
		byID[cs.ID] = cs
	}
	var mu sync.Mutex
	var firstErr error
	core.ParMap(shards, shards, func(s int) {
		var buf bytes.Buffer
		n := 0
		for i := s; i < len(cases); i += shards {
			b, err := json.Marshal(map[string]any{"id": cases[i].ID, "prog": cases[i].Prog, "inputs": cases[i].Inputs})
			if err != nil {
				mu.Lock()
				firstErr = err
				mu.Unlock()
				return
			}
			buf.Write(b)
			buf.WriteByte('\n')
			n++
		}
		r, err := c.RunTLC(core.TLCOpts{Spec: "WgslRun", Files: map[string][]byte{"cases.ndjson": buf.Bytes()}, Timeout: evalTimeout(), HeapGB: 3})
		if err == nil && !r.OK {
			err = fmt.Errorf("WgslRun: %s %s\n%s", r.Violated, r.Err, r.Tail(25))
		}
		if err != nil {
			mu.Lock()
			if firstErr == nil {
				firstErr = err
			}
			mu.Unlock()
			return
		}
		c.AddTLC(r)
		got := 0
		for _, l := range r.Printed {
			var res struct {
				ID   int      `json:"id"`
				Rows []SemRow `json:"rows"`
			}
			if err := json.Unmarshal([]byte(l), &res); err != nil {
				mu.Lock()
				firstErr = fmt.Errorf("bad WgslRun line: %v: %.300s", err, l)
				mu.Unlock()
				return
			}
			mu.Lock()
			if cs := byID[res.ID]; cs != nil {
				cs.Expect = res.Rows
				got++
			}
			mu.Unlock()
		}
		if got != n {
			mu.Lock()
			if firstErr == nil {
				firstErr = fmt.Errorf("WgslRun evaluated %d of %d cases\n%s", got, n, r.Tail(25))
			}
			mu.Unlock()
		}
	})
	return firstErr
}

// evalTimeout is the time limit of one WgslRun shard (VERIF_EVAL_TIMEOUT in seconds overrides it for development).
func evalTimeout() time.Duration {
	if v := os.Getenv("VERIF_EVAL_TIMEOUT"); v != "" {
		if n, err := strconv.Atoi(v); err == nil && n > 0 {
			return time.Duration(n) * time.Second
		}
	}
	return 30 * time.Minute
}
