package checks

import (
	"encoding/binary"
	"fmt"
	"math"
	"strings"

	"github.com/gogpu/naga/ir"
	"github.com/gogpu/naga/spirv"

	"verif/harness/core"
	"verif/harness/drive"
	"verif/harness/mslx"
	"verif/harness/spv"
	"verif/harness/wg"
	"verif/harness/xrt"
)

// compareSpvTree compares the decorated SPIR-V type tree of a buffer variable with the WGSL layout.
func compareSpvTree(t *spv.TypeTree, want *wg.AType, path string, probs *[]string) {
	if t == nil {
		*probs = append(*probs, path+": no type")
		return
	}
	switch want.K {
	case "struct":
		if t.Kind != spv.KindStruct || len(t.Members) != len(want.Ms) {
			*probs = append(*probs, fmt.Sprintf("%s: struct with %d members expected, SPIR-V has %s", path, len(want.Ms), t.Kind))
			return
		}
		for i, m := range t.Members {
			w := want.Ms[i]
			p := path + "." + w.Name
			if !m.HasOffset {
				*probs = append(*probs, p+": member has no Offset decoration")
			} else if int(m.Offset) != w.Off {
				*probs = append(*probs, fmt.Sprintf("%s: Offset %d, WGSL offset %d", p, m.Offset, w.Off))
			}
			// matrix members (possibly inside arrays) need MatrixStride + ColMajor
			inner := w.Ty
			for inner.K == "arr" {
				inner = inner.E
			}
			if inner.K == "mat" {
				if !m.HasMatrixStride {
					*probs = append(*probs, p+": matrix member has no MatrixStride decoration")
				} else if int(m.MatrixStride) != inner.MStride {
					*probs = append(*probs, fmt.Sprintf("%s: MatrixStride %d, WGSL column stride %d", p, m.MatrixStride, inner.MStride))
				}
				if !m.ColMajor || m.RowMajor {
					*probs = append(*probs, p+": matrix member is not decorated ColMajor")
				}
			} else if m.HasMatrixStride {
				*probs = append(*probs, p+": MatrixStride on a non-matrix member")
			}
			compareSpvTree(m.Type, w.Ty, p, probs)
		}
	case "arr":
		if (want.N == 0 && t.Kind != spv.KindRuntimeArray) || (want.N != 0 && (t.Kind != spv.KindArray || t.Count != want.N)) {
			*probs = append(*probs, fmt.Sprintf("%s: array[%d] expected, SPIR-V has %s[%d]", path, want.N, t.Kind, t.Count))
			return
		}
		if !t.HasArrayStride {
			*probs = append(*probs, path+": array has no ArrayStride decoration")
		} else if int(t.ArrayStride) != want.Stride {
			*probs = append(*probs, fmt.Sprintf("%s: ArrayStride %d, WGSL stride %d", path, t.ArrayStride, want.Stride))
		}
		compareSpvTree(t.Elem, want.E, path+"[]", probs)
	case "mat":
		if t.Kind != spv.KindMatrix || t.Count != want.C || t.Rows != want.R {
			*probs = append(*probs, fmt.Sprintf("%s: mat%dx%d expected, SPIR-V has %s %dx%d", path, want.C, want.R, t.Kind, t.Count, t.Rows))
		}
	case "vec":
		if t.Kind != spv.KindVector || t.Count != want.N {
			*probs = append(*probs, fmt.Sprintf("%s: vec%d expected, SPIR-V has %s", path, want.N, t.Kind))
		}
	}
}

// spvShapeMatches reports whether the SPIR-V struct has the member count and member kinds of the WGSL struct.
func spvShapeMatches(t *spv.TypeTree, want *wg.AType) bool {
	if want.K != "struct" || len(t.Members) != len(want.Ms) {
		return false
	}
	for i, m := range t.Members {
		wk := want.Ms[i].Ty.K
		if m.Type == nil || (m.Type.Kind == spv.KindStruct) != (wk == "struct") {
			return false
		}
	}
	return true
}

// checkSpvLayoutBatch compiles the batch module to SPIR-V through `backend` (a fresh or a reused instance) and compares
// the decorations of every storage/uniform variable with the WGSL layout.  Returns indices of cases with a mismatch.
func checkSpvLayoutBatch(c *core.Ctx, cs []layoutCase, m *ir.Module, src string, backend *spirv.Backend, how string, report bool) (bad []int) {
	bin, err := func() (b []byte, err error) {
		defer func() {
			if r := recover(); r != nil {
				err = fmt.Errorf("panic: %v", r)
			}
		}()
		return backend.Compile(m)
	}()
	if err != nil {
		c.Skip("SPIR-V backend returned an error for a layout module (judged by C08)")
		return nil
	}
	mod, err := spv.Decode(bin)
	if err != nil {
		c.Skip("SPIR-V output not decodable (judged by C02)")
		return nil
	}
	byName := map[string]*spv.Resource{}
	bySlot := map[string]*spv.Resource{}
	res := mod.Resources()
	for i := range res {
		bySlot[res[i].Slot] = &res[i]
		byName[res[i].Name] = &res[i]
	}
	// map module globals to (group, binding)
	slotOf := map[string]string{}
	for _, gv := range m.GlobalVariables {
		if gv.Binding != nil {
			slotOf[gv.Name] = fmt.Sprintf("%d.%d", gv.Binding.Group, gv.Binding.Binding)
		}
	}
	for i, lc := range cs {
		var probs []string
		for _, v := range []string{fmt.Sprintf("s%d", i), fmt.Sprintf("u%d", i)} {
			slot, ok := slotOf[v]
			if !ok {
				continue
			}
			r := bySlot[slot]
			if r == nil {
				probs = append(probs, v+": no SPIR-V variable with DescriptorSet/Binding "+slot)
				continue
			}
			// naga may wrap a buffer variable's type in a Block struct with the value as its only member at offset 0
			// (SPIR-V wants a Block-decorated struct at the top).  The wrapper is layout-neutral, so the tree is accepted
			// if it matches either directly or through such a wrapper.
			var direct []string
			compareSpvTree(r.Type, lc.T, v, &direct)
			if len(direct) > 0 && r.Type != nil && r.Type.Kind == spv.KindStruct && len(r.Type.Members) == 1 &&
				r.Type.Members[0].HasOffset && r.Type.Members[0].Offset == 0 {
				var wrapped []string
				compareSpvTree(r.Type.Members[0].Type, lc.T, v, &wrapped)
				if len(wrapped) < len(direct) {
					direct = wrapped
				}
			}
			probs = append(probs, direct...)
		}
		if len(probs) > 0 {
			bad = append(bad, i)
			if report {
				c.Disagree++
				c.Report(fmt.Sprintf("SPIR-V layout decorations (%s) differ from the WGSL layout: %s", how, strings.Join(probs, "; ")),
					map[string]string{"family": "layout", "where": "spv-decorations", "how": how},
					map[string]any{"wgsl": src, "expected": lc.T, "problems": probs, "how": how})
			}
		}
	}
	return bad
}

func hasLayoutAttrs(t *wg.AType) bool {
	if t == nil {
		return false
	}
	for _, m := range t.Ms {
		if m.Align != 0 || m.Size != 0 || hasLayoutAttrs(m.Ty) {
			return true
		}
	}
	return hasLayoutAttrs(t.E)
}

// hasMatX2 reports whether the tree contains a matrix with two rows (column vectors of 8 bytes).
func hasMatX2(t *wg.AType) bool {
	if t == nil {
		return false
	}
	if t.K == "mat" && t.R == 2 {
		return true
	}
	for _, m := range t.Ms {
		if hasMatX2(m.Ty) {
			return true
		}
	}
	return hasMatX2(t.E)
}

// typeShape is a coarse description of the member kinds (for aggregating violations).
func typeShape(t *wg.AType) string {
	var ks []string
	for _, m := range t.Ms {
		k := m.Ty.K
		if k == "arr" {
			k = "arr<" + m.Ty.E.K + ">"
		}
		ks = append(ks, k)
	}
	return strings.Join(ks, ",")
}

// ---- probing -------------------------------------------------------------------------------------------------

func markerWord(l wg.Leaf, k int) uint32 {
	if l.Scalar == "f32" {
		return math.Float32bits(float32(k + 1))
	}
	return uint32(k + 1)
}

// probeModule builds a program that stores a distinct marker into every scalar leaf of a storage variable of type T and
// copies every scalar leaf of a uniform variable of type T (if allowed) into an output array.
func probeModule(lc layoutCase, rt int) (src string, leaves []wg.Leaf) {
	var sb strings.Builder
	seen := map[string]bool{}
	lc.T.StructDecls("P_", seen, &sb)
	ty := lc.T.WGSL("P_")
	leaves = lc.T.Leaves(rt)
	uni := lc.Uniform && !lc.Runtime && !lc.Atomic
	fmt.Fprintf(&sb, "@group(0) @binding(0) var<storage, read_write> s: %s;\n", ty)
	if uni {
		fmt.Fprintf(&sb, "@group(0) @binding(1) var<uniform> u: %s;\n", ty)
	}
	fmt.Fprintf(&sb, "@group(0) @binding(2) var<storage, read_write> o: array<u32, %d>;\n", max(len(leaves), 1))
	sb.WriteString("@compute @workgroup_size(1)\nfn main() {\n")
	for k, l := range leaves {
		switch {
		case l.Atomic:
			fmt.Fprintf(&sb, "  atomicStore(&s%s, %du);\n", l.Path, k+1)
		case l.Scalar == "f32":
			fmt.Fprintf(&sb, "  s%s = %d.0f;\n", l.Path, k+1)
		case l.Scalar == "i32":
			fmt.Fprintf(&sb, "  s%s = %di;\n", l.Path, k+1)
		default:
			fmt.Fprintf(&sb, "  s%s = %du;\n", l.Path, k+1)
		}
	}
	if uni {
		for k, l := range leaves {
			switch l.Scalar {
			case "f32":
				fmt.Fprintf(&sb, "  o[%d] = bitcast<u32>(u%s);\n", k, l.Path)
			case "i32":
				fmt.Fprintf(&sb, "  o[%d] = u32(u%s);\n", k, l.Path)
			default:
				fmt.Fprintf(&sb, "  o[%d] = u%s;\n", k, l.Path)
			}
		}
	}
	sb.WriteString("}\n")
	return sb.String(), leaves
}

// probeLayout executes the probe program on every backend's executor and checks that the markers land at the WGSL offsets.
func probeLayout(c *core.Ctx, lc layoutCase, backends []string) {
	const rt = 2
	src, leaves := probeModule(lc, rt)
	m, stage, err := drive.Front(src)
	if err != nil {
		c.Skip("layout probe rejected at " + stage + " (judged by C08)")
		return
	}
	size := lc.T.Sz
	if lc.Runtime {
		// static part + rt elements of the trailing array
		last := lc.T.Ms[len(lc.T.Ms)-1]
		size = last.Off + rt*last.Ty.Stride
	}
	size = (size + 3) &^ 3
	uni := lc.Uniform && !lc.Runtime && !lc.Atomic
	for _, b := range backends {
		opt := "default"
		if b == "glsl" {
			opt = "430"
		}
		t := target{Name: b}
		art, err := drive.Compile(b, opt, m, "main")
		if err != nil {
			c.Skip(b + " backend returned an error for a layout probe (judged by C08)")
			continue
		}
		sbuf := make([]byte, size)
		for i := range sbuf {
			sbuf[i] = 0xEE
		}
		ubuf := make([]byte, size)
		for w := 0; w+4 <= size; w += 4 {
			binary.LittleEndian.PutUint32(ubuf[w:], 0x40000000|uint32(w/4))
		}
		obuf := make([]byte, 4*max(len(leaves), 1))
		g := func(space, access string, bnd int) wg.N {
			return wg.N{"group": 0, "binding": bnd, "space": space, "access": access}
		}
		in := xrt.Input{Entry: t.entryName(art, "main"), NumWorkgroups: [3]uint32{1, 1, 1}, MaxSteps: 400000, Buffers: map[string][]byte{
			t.slotFor(g("storage", "rw", 0)): sbuf, t.slotFor(g("storage", "rw", 2)): obuf}}
		if uni {
			in.Buffers[t.slotFor(g("uniform", "", 1))] = ubuf
		}
		out := t.exec(art, in.Entry, [3]uint32{1, 1, 1}, in)
		key := fmt.Sprintf("probe/%s/%d", b, lc.id)
		if out.Skip != "" {
			c.Skip(b + " executor (layout probe): " + trimReason(out.Skip))
			continue
		}
		c.Eval(key, true)
		attrs := "no"
		if hasLayoutAttrs(lc.T) {
			attrs = "yes"
		}
		matx2 := "no"
		if uni && hasMatX2(lc.T) {
			matx2 = "yes"
		}
		desc := map[string]string{"family": "layout", "where": "probe", "backend": b, "attrs": attrs, "uniform_matx2": matx2,
			"sig": "probe|" + b + "|attrs=" + attrs + "|uniform_matx2=" + matx2 + "|" + typeShape(lc.T)}
		if out.Trap != "" {
			desc["kind"] = "trap"
			c.Disagree++
			c.Report(fmt.Sprintf("%s: layout probe reaches a target-undefined operation: %s", b, out.Trap), desc,
				map[string]any{"wgsl": src, "emitted": emittedText(t, art), "trap": out.Trap})
			continue
		}
		// expected storage image
		want := make([]byte, size)
		for i := range want {
			want[i] = 0xEE
		}
		var probs []string
		for k, l := range leaves {
			if l.Off+4 <= size {
				binary.LittleEndian.PutUint32(want[l.Off:], markerWord(l, k))
			}
		}
		for off := 0; off+4 <= size; off += 4 {
			gw, ww := binary.LittleEndian.Uint32(sbuf[off:]), binary.LittleEndian.Uint32(want[off:])
			if gw != ww {
				probs = append(probs, fmt.Sprintf("storage byte offset %d holds 0x%08x, expected 0x%08x", off, gw, ww))
				if len(probs) > 4 {
					break
				}
			}
		}
		if uni {
			for k, l := range leaves {
				gw := binary.LittleEndian.Uint32(obuf[4*k:])
				ww := 0x40000000 | uint32(l.Off/4)
				if gw != ww {
					probs = append(probs, fmt.Sprintf("uniform leaf u%s read word 0x%08x, the WGSL offset %d holds 0x%08x", l.Path, gw, l.Off, ww))
					if len(probs) > 8 {
						break
					}
				}
			}
		}
		if len(probs) > 0 {
			desc["kind"] = "value"
			c.Disagree++
			c.Report(fmt.Sprintf("%s addresses buffer data at offsets other than the WGSL layout: %s", b, strings.Join(probs, "; ")), desc,
				map[string]any{"wgsl": src, "expected": lc.T, "emitted": emittedText(t, art), "problems": probs})
		}
	}
}

// checkMslLayoutBatch compiles the batch module to MSL, computes the C++/Metal layout of the emitted structs with the
// independent layout function of harness/mslx and compares member offsets, struct sizes and array strides with WGSL.
func checkMslLayoutBatch(c *core.Ctx, cs []layoutCase, m *ir.Module, src string, report bool) (bad []int) {
	art, err := drive.Compile("msl", "default", m, "")
	if err != nil {
		c.Skip("MSL backend returned an error for a layout module (judged by C08)")
		return nil
	}
	u, err := mslx.Parse(string(art))
	if err != nil {
		c.Skip("MSL output of a layout module not parsed: " + trimReason(err.Error()))
		return nil
	}
	structs := map[string]mslx.StructLayout{}
	for _, s := range u.Structs() {
		structs[s.Name] = s
	}
	for i, lc := range cs {
		pfx := fmt.Sprintf("C%d_", i)
		var probs []string
		var walk func(t *wg.AType)
		seen := map[string]bool{}
		walk = func(t *wg.AType) {
			if t == nil {
				return
			}
			walk(t.E)
			if t.K != "struct" || seen[t.Name] {
				return
			}
			seen[t.Name] = true
			sl, ok := structs[pfx+t.Name]
			if !ok {
				sl, ok = structs[pfx+t.Name+"_"] // naga appends "_" to names that end in a digit
			}
			if !ok {
				c.Skip("MSL static layout: emitted struct for a WGSL struct not found by name")
				return
			}
			byName := map[string]mslx.MemberLayout{}
			for _, ml := range sl.Members {
				byName[ml.Name] = ml
			}
			for _, wm := range t.Ms {
				walk(wm.Ty)
				ml, ok := byName[wm.Name]
				if !ok {
					ml, ok = byName[wm.Name+"_"]
				}
				if !ok {
					probs = append(probs, fmt.Sprintf("%s.%s: member not found in the MSL struct", t.Name, wm.Name))
					continue
				}
				if ml.Offset != wm.Off {
					probs = append(probs, fmt.Sprintf("%s.%s: Metal places it at offset %d, WGSL offset %d", t.Name, wm.Name, ml.Offset, wm.Off))
				}
				if wm.Ty.K == "arr" && wm.Ty.N > 0 {
					if ws, ok := structs[ml.Canon]; ok && ws.Size != wm.Ty.N*wm.Ty.Stride {
						probs = append(probs, fmt.Sprintf("%s.%s: Metal array wrapper %s has size %d, WGSL %d x stride %d", t.Name, wm.Name, ml.Canon, ws.Size, wm.Ty.N, wm.Ty.Stride))
					}
				}
			}
			if !hasRuntime(t) && sl.Size != t.Sz {
				probs = append(probs, fmt.Sprintf("%s: Metal sizeof is %d, WGSL size %d", t.Name, sl.Size, t.Sz))
			}
		}
		walk(lc.T)
		if len(probs) > 0 {
			bad = append(bad, i)
			if report {
				c.Disagree++
				c.Report("MSL struct layout (Metal size/alignment rules applied to the emitted text) differs from the WGSL layout: "+strings.Join(probs, "; "),
					map[string]string{"family": "layout", "where": "msl-static"}, map[string]any{"wgsl": src, "expected": lc.T, "emitted": string(art), "problems": probs})
			}
		}
	}
	return bad
}

func hasRuntime(t *wg.AType) bool {
	if t == nil {
		return false
	}
	if t.K == "arr" && t.N == 0 {
		return true
	}
	for _, m := range t.Ms {
		if hasRuntime(m.Ty) {
			return true
		}
	}
	return hasRuntime(t.E)
}
