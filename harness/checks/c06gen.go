package checks

import (
	"fmt"
	"math"
	"math/rand"
	"strconv"
	"strings"

	"verif/harness/gen"
	"verif/harness/wg"
)

// ---- C06: const-expression cases -------------------------------------------------------------------------
//
// A case is one expression tree over literals (JSON schema of spec/ConstEval.tla: WgslSem's typed nodes plus the
// abstract kinds "ai" / "af") wrapped in a "sink" node that fixes the concrete result type.  The tables are those
// of harness/gen (operator x type shape x boundary-operand rows); here the operands are literals instead of loads.

type ccase struct {
	ID      int
	OpClass string // binop unop conv bitcast builtin ctor swz lit tree
	Op      string // operator / builtin name / "i32->f32" ...
	Kind    string // operand scalar kind of the table row: i32 u32 f32 bool
	Shape   string // s v2 v3 v4 sv vs
	Spell   string // sfx abs mix
	Tree    wg.N   // sink node
	Tol     int    // ULP tolerance for f32 results (WGSL bounds the error of the function instead of pinning it)
	Pred    cpred
}

// cpred is what spec/ConstEval.tla says about the case.
type cpred struct {
	ID  int     `json:"id"`
	S   string  `json:"s"`
	Why string  `json:"why"`
	M   string  `json:"m"`
	V   []int32 `json:"v"`
	RS  string  `json:"rs"`
	RV  []int32 `json:"rv"`
	Lem int     `json:"lem"`
	Ty  int     `json:"ty"`
	J   string  `json:"j"`
}

func (c *ccase) desc() string {
	return fmt.Sprintf("%s %s %s %s %s", c.OpClass, c.Op, c.Kind, c.Shape, c.Spell)
}

// ---- tree construction -----------------------------------------------------------------------------------------

func tS(k string) wg.N { return wg.N{"k": k} }
func tV(n int, k string) wg.N {
	if n <= 1 {
		return tS(k)
	}
	return wg.N{"k": "vec", "n": n, "e": tS(k)}
}
func kindOf(t wg.N) string {
	if wg.K(t) == "vec" {
		return wg.K(wg.Sub(t, "e"))
	}
	return wg.K(t)
}
func lanesOf(t wg.N) int {
	if wg.K(t) == "vec" {
		return wg.I(t, "n")
	}
	return 0
}
func withKind(t wg.N, k string) wg.N { return tV(lanesOf(t), k) }
func isAbs(k string) bool            { return k == "ai" || k == "af" }
func tOf(e wg.N) wg.N                { return wg.Sub(e, "t") }

func cLit(k string, w int32) wg.N { return wg.N{"k": "lit", "t": tS(k), "v": int(w), "x": 0} }
func aiLit(v int64) wg.N {
	return wg.N{"k": "lit", "t": tS("ai"), "hi": int(int32(v >> 32)), "lo": int(int32(uint32(v))), "x": 0}
}
func afLit(w int32) wg.N { return wg.N{"k": "lit", "t": tS("af"), "v": int(w), "x": 0} }

// badLit is a literal whose text denotes a value outside its type (rule E5); txt is its WGSL spelling.
func badLit(k, txt string) wg.N {
	n := wg.N{"k": "lit", "t": tS(k), "v": 0, "x": 1, "txt": txt}
	if k == "ai" {
		n["hi"], n["lo"] = 0, 0
	}
	return n
}

// leaf builds the literal for table word w of kind k; abstract spelling where asked (bool has none).
func leaf(k string, w int32, abstract bool) wg.N {
	if !abstract || k == "bool" {
		return cLit(k, w)
	}
	switch k {
	case "i32":
		return aiLit(int64(w))
	case "u32":
		return aiLit(int64(uint32(w)))
	}
	return afLit(w)
}

func unify(a, b string) string {
	switch {
	case a == b:
		return a
	case a == "ai" && (b == "af" || b == "i32" || b == "u32" || b == "f32"):
		return b
	case b == "ai" && (a == "af" || a == "i32" || a == "u32" || a == "f32"):
		return a
	case (a == "af" && b == "f32") || (a == "f32" && b == "af"):
		return "f32"
	}
	return "bad"
}

var cmpOps = map[string]bool{"==": true, "!=": true, "<": true, "<=": true, ">": true, ">=": true}

func nBin(op string, a, b wg.N) wg.N {
	ta, tb := tOf(a), tOf(b)
	n := lanesOf(ta)
	if n == 0 {
		n = lanesOf(tb)
	}
	var t wg.N
	switch {
	case op == "&&" || op == "||":
		t = tS("bool")
	case op == "<<" || op == ">>":
		t = ta
	case cmpOps[op]:
		t = tV(n, "bool")
	default:
		t = tV(n, unify(kindOf(ta), kindOf(tb)))
	}
	return wg.N{"k": "bin", "op": op, "t": t, "a": a, "b": b}
}
func nUn(op string, a wg.N) wg.N   { return wg.N{"k": "un", "op": op, "t": tOf(a), "a": a} }
func nCast(t wg.N, a wg.N) wg.N    { return wg.N{"k": "cast", "t": t, "a": a} }
func nBitcast(t wg.N, a wg.N) wg.N { return wg.N{"k": "bitcast", "t": t, "a": a} }
func nSwz(a wg.N, s ...int) wg.N {
	n := len(s)
	return wg.N{"k": "swz", "t": tV(n, kindOf(tOf(a))), "a": a, "s": s}
}

// nCtor builds vecN<k>(args) (explicit element type) or vecN(args) when k == "" (element kind inferred).
func nCtor(n int, k string, args ...wg.N) wg.N {
	ex := 1
	if k == "" {
		ex = 0
		k = kindOf(tOf(args[0]))
		for _, a := range args[1:] {
			k = unify(k, kindOf(tOf(a)))
		}
	}
	return wg.N{"k": "ctor", "ex": ex, "t": tV(n, k), "args": args}
}
func nBi(f string, t wg.N, args ...wg.N) wg.N { return wg.N{"k": "bi", "f": f, "t": t, "args": args} }

var floatOnlyBi = map[string]bool{"floor": true, "ceil": true, "trunc": true, "round": true, "fract": true, "sqrt": true, "saturate": true,
	"step": true, "fma": true, "cross": true, "exp2": true, "log2": true, "pow": true, "mix": true}

// nBiSame builds a builtin whose result has the (unified) type of its arguments.
func nBiSame(f string, args ...wg.N) wg.N {
	k := kindOf(tOf(args[0]))
	n := lanesOf(tOf(args[0]))
	for _, a := range args[1:] {
		k = unify(k, kindOf(tOf(a)))
		if l := lanesOf(tOf(a)); l > n {
			n = l
		}
	}
	if floatOnlyBi[f] && k == "ai" {
		k = "af"
	}
	return nBi(f, tV(n, k), args...)
}

func concreteKind(k, want string) string {
	switch k {
	case "ai":
		if want == "i32" || want == "u32" || want == "f32" {
			return want
		}
		return "i32"
	case "af":
		return "f32"
	}
	return k
}

// nSink wraps e; want is the kind the context demands ("" = none).
func nSink(e wg.N, want string) wg.N {
	t := tOf(e)
	return wg.N{"k": "sink", "want": want, "t": withKind(t, concreteKind(kindOf(t), want)), "a": e}
}

// vecOf builds an n-lane operand (n <= 1: scalar) of table kind k from words ws in the given spelling.
// spell: "sfx" vecN<k>(1i, ..); "abs" vecN(1, ..); "mix" vecN<k>(1, ..) (abstract components, explicit type)
func vecOf(n int, k string, ws []int32, spell string) wg.N {
	if n <= 1 {
		return leaf(k, ws[0], spell == "abs")
	}
	args := make([]wg.N, n)
	for i := range args {
		args[i] = leaf(k, ws[i], spell != "sfx")
	}
	if spell == "abs" && k != "bool" {
		return nCtor(n, "", args...)
	}
	return nCtor(n, k, args...)
}

// ---- tables ----------------------------------------------------------------------------------------------------------

type cgen struct {
	rng   *rand.Rand
	quick bool
	seed  int64
	out   []*ccase
	nth   int
}

func (g *cgen) add(c *ccase) {
	c.ID = len(g.out) + 1
	g.out = append(g.out, c)
}

// hazard rows: always part of the sampled rows of a scalar table so that every error rule is exercised for every seed
var hazIntPairs = [][2]int32{{1, 0}, {math.MinInt32, -1}, {math.MaxInt32, 1}, {math.MinInt32, 1}, {1, 32}, {-1, 31}, {math.MaxInt32, math.MaxInt32}, {0, -1}, {7, 2}}
var hazInt = []int32{0, -1, math.MinInt32, math.MaxInt32}

func fbits(f float32) int32 { return int32(math.Float32bits(f)) }

var hazFloatPairs = [][2]int32{{fbits(1), fbits(0)}, {fbits(1e20), fbits(1e20)}, {fbits(-2.5), fbits(0.5)}}
var hazFloat = []int32{fbits(0), fbits(-2.5), fbits(1e20)}

type wpair struct{ a, b int }

// samplePairs returns index pairs into (ga, gb): all of them when limit == 0, else the hazard pairs (if haz) plus a seeded sample.
func (g *cgen) samplePairs(ga, gb []int32, limit int, haz bool, hz [][2]int32) []wpair {
	var all []wpair
	for i := range ga {
		for j := range gb {
			all = append(all, wpair{i, j})
		}
	}
	if limit == 0 || len(all) <= limit {
		return all
	}
	seen := map[wpair]bool{}
	var out []wpair
	if haz {
		for _, h := range hz {
			for _, p := range all {
				if ga[p.a] == h[0] && gb[p.b] == h[1] && !seen[p] {
					out = append(out, p)
					seen[p] = true
					break
				}
			}
		}
	}
	g.rng.Shuffle(len(all), func(i, j int) { all[i], all[j] = all[j], all[i] })
	for _, p := range all {
		if len(out) >= limit+len(seen) {
			break
		}
		if !seen[p] {
			out = append(out, p)
		}
	}
	return out
}

func gridOf(k string) []int32 {
	switch k {
	case "f32":
		return gen.FloatGrid
	case "bool":
		return gen.BoolGrid
	}
	return gen.IntGrid
}

func hazOf(k string) []int32 {
	if k == "f32" {
		return hazFloat
	}
	return hazInt
}

func hazPairsOf(k string) [][2]int32 {
	if k == "f32" {
		return hazFloatPairs
	}
	return hazIntPairs
}

// lanesWords spreads a row over n lanes the way gen.pairRows does (lane 0 = the pair, other lanes rotated through the grid).
func lanesWords(grid []int32, idx, n, step int) []int32 {
	if n < 1 {
		n = 1
	}
	ws := make([]int32, n)
	for l := 0; l < n; l++ {
		ws[l] = grid[(idx+l*step)%len(grid)]
	}
	return ws
}

func shapeLanes(sh string) int {
	switch sh {
	case "v2":
		return 2
	case "v3", "sv", "vs":
		return 3
	case "v4":
		return 4
	}
	return 1
}

// spellsFor picks the spellings of a table: every one for scalar shapes (and everything in the thorough tier), one (rotating) otherwise.
func (g *cgen) spellsFor(k, sh string) []string {
	all := []string{"sfx", "abs", "mix"}
	if k == "bool" {
		return []string{"sfx"}
	}
	if !g.quick || sh == "s" {
		return all
	}
	g.nth++
	return []string{all[(int(g.seed)+g.nth)%3]}
}

func sinkWant(k string, t wg.N) string {
	if isAbs(kindOf(t)) {
		return k // the table's kind is what the store demands
	}
	return ""
}

func (g *cgen) binOps(limit int) {
	type opk struct {
		op    string
		kinds []string
		cmp   bool
	}
	ops := []opk{
		{"+", []string{"i32", "u32", "f32"}, false}, {"-", []string{"i32", "u32", "f32"}, false},
		{"*", []string{"i32", "u32", "f32"}, false}, {"/", []string{"i32", "u32", "f32"}, false},
		{"%", []string{"i32", "u32", "f32"}, false},
		{"&", []string{"i32", "u32", "bool"}, false}, {"|", []string{"i32", "u32", "bool"}, false}, {"^", []string{"i32", "u32"}, false},
		{"<<", []string{"i32", "u32"}, false}, {">>", []string{"i32", "u32"}, false},
		{"==", []string{"i32", "u32", "f32", "bool"}, true}, {"!=", []string{"i32", "u32", "f32", "bool"}, true},
		{"<", []string{"i32", "u32", "f32"}, true}, {"<=", []string{"i32", "u32", "f32"}, true},
		{">", []string{"i32", "u32", "f32"}, true}, {">=", []string{"i32", "u32", "f32"}, true},
		{"&&", []string{"bool"}, false}, {"||", []string{"bool"}, false},
	}
	shapes := []string{"s", "v2", "v3", "v4", "sv", "vs"}
	for _, o := range ops {
		for _, k := range o.kinds {
			for _, sh := range shapes {
				if (o.op == "&&" || o.op == "||") && sh != "s" {
					continue
				}
				shift := o.op == "<<" || o.op == ">>"
				if (sh == "sv" || sh == "vs") && (o.cmp || k == "bool" || shift || o.op == "&" || o.op == "|" || o.op == "^") {
					continue
				}
				n := shapeLanes(sh)
				ga, gb, bk := gridOf(k), gridOf(k), k
				if shift {
					gb, bk = gen.ShiftGrid, "u32"
				}
				for _, sp := range g.spellsFor(k, sh) {
					lim := limit
					if limit == 0 && sh != "s" {
						lim = 48 // thorough: vector shapes get a sample of the pair grid,
					} else if limit == 0 && sp != "sfx" {
						lim = 192 // the abstract / mixed spellings of scalars a larger one, suffixed scalars all of it
					}
					for pi, p := range g.samplePairs(ga, gb, lim, sh == "s", hazPairsOf(k)) {
						na, nb := n, n
						if sh == "sv" {
							na = 1
						}
						if sh == "vs" {
							nb = 1
						}
						spa, spb := sp, sp
						if sp == "mix" && n == 1 { // one abstract, one suffixed operand, alternating
							spa, spb = "abs", "sfx"
							if pi%2 == 1 {
								spa, spb = "sfx", "abs"
							}
						}
						if sp == "mix" && (sh == "sv" || sh == "vs") {
							spa, spb = "abs", "sfx"
							if sh == "vs" {
								spa, spb = "sfx", "abs"
							}
						}
						a := vecOf(na, k, lanesWords(ga, p.a, na, 5), spa)
						b := vecOf(nb, bk, lanesWords(gb, p.b, nb, 7), spb)
						e := nBin(o.op, a, b)
						if kindOf(tOf(e)) == "bad" {
							continue
						}
						want := sinkWant(k, tOf(e))
						g.add(&ccase{OpClass: "binop", Op: o.op, Kind: k, Shape: sh, Spell: sp, Tree: nSink(e, want)})
					}
				}
			}
		}
	}
}

func (g *cgen) sampleIdx(n, limit int, grid []int32, hz []int32, haz bool) []int {
	idx := make([]int, n)
	for i := range idx {
		idx[i] = i
	}
	if limit == 0 || n <= limit {
		return idx
	}
	var out []int
	seen := map[int]bool{}
	if haz {
		for i, w := range grid {
			for _, h := range hz {
				if w == h && !seen[i] {
					out = append(out, i)
					seen[i] = true
				}
			}
		}
	}
	g.rng.Shuffle(n, func(i, j int) { idx[i], idx[j] = idx[j], idx[i] })
	for _, i := range idx {
		if len(out) >= limit+len(seen) {
			break
		}
		if !seen[i] {
			out = append(out, i)
		}
	}
	return out
}

func (g *cgen) unOpsConv(limit int) {
	f2iGrid := append(append([]int32{}, gen.FloatGrid...), fbits(2147483520), fbits(2147483648), fbits(-2147483648), fbits(4294967040),
		fbits(4294967296), fbits(-0.5), fbits(0.99), fbits(-1e10), fbits(1e10), fbits(16777216), fbits(-2147483904))
	for _, n := range []int{1, 2, 3, 4} {
		sh := "s"
		if n > 1 {
			sh = fmt.Sprintf("v%d", n)
		}
		un := func(op, k string, grid []int32) {
			for _, sp := range g.spellsFor(k, sh) {
				if sp == "mix" && n == 1 {
					continue
				}
				for _, i := range g.sampleIdx(len(grid), limit, grid, hazOf(k), n == 1) {
					a := vecOf(n, k, lanesWords(grid, i, n, 5), sp)
					e := nUn(op, a)
					g.add(&ccase{OpClass: "unop", Op: map[string]string{"-": "neg", "~": "not", "!": "lnot"}[op], Kind: k, Shape: sh, Spell: sp,
						Tree: nSink(e, sinkWant(k, tOf(e)))})
				}
			}
		}
		un("-", "i32", gen.IntGrid)
		un("-", "f32", gen.FloatGrid)
		un("~", "i32", gen.IntGrid)
		un("~", "u32", gen.IntGrid)
		un("!", "bool", gen.BoolGrid)
		kinds := []string{"i32", "u32", "f32", "bool"}
		for _, from := range kinds {
			for _, to := range kinds {
				grid := gridOf(from)
				if from == "f32" {
					grid = f2iGrid
				}
				for _, sp := range g.spellsFor(from, sh) {
					if sp == "mix" && n == 1 {
						continue
					}
					if from == to && sp == "sfx" {
						continue
					}
					for _, i := range g.sampleIdx(len(grid), limit, grid, hazOf(from), n == 1) {
						a := vecOf(n, from, lanesWords(grid, i, n, 5), sp)
						e := nCast(tV(n, to), a)
						g.add(&ccase{OpClass: "conv", Op: from + "->" + to, Kind: from, Shape: sh, Spell: sp, Tree: nSink(e, "")})
					}
				}
			}
		}
		for _, p := range [][2]string{{"i32", "u32"}, {"u32", "i32"}, {"f32", "u32"}, {"u32", "f32"}, {"i32", "f32"}, {"f32", "i32"}, {"f32", "f32"}} {
			from, to := p[0], p[1]
			grid := gen.IntGrid
			if from == "f32" || to == "f32" {
				grid = gen.FloatGrid
			}
			for _, i := range g.sampleIdx(len(grid), limit, grid, hazOf(from), n == 1) {
				a := vecOf(n, from, lanesWords(grid, i, n, 5), "sfx")
				e := nBitcast(tV(n, to), a)
				g.add(&ccase{OpClass: "bitcast", Op: from + "->" + to, Kind: from, Shape: sh, Spell: "sfx", Tree: nSink(e, "")})
			}
		}
	}
}

func (g *cgen) builtins(limit int) {
	type bi struct {
		f     string
		kinds []string
		arity int
	}
	list := []bi{
		{"abs", []string{"i32", "u32", "f32"}, 1}, {"sign", []string{"i32", "f32"}, 1},
		{"floor", []string{"f32"}, 1}, {"ceil", []string{"f32"}, 1}, {"trunc", []string{"f32"}, 1}, {"round", []string{"f32"}, 1},
		{"fract", []string{"f32"}, 1}, {"sqrt", []string{"f32"}, 1}, {"saturate", []string{"f32"}, 1},
		{"exp2", []string{"f32"}, 1}, {"log2", []string{"f32"}, 1},
		{"countOneBits", []string{"i32", "u32"}, 1}, {"countLeadingZeros", []string{"i32", "u32"}, 1},
		{"countTrailingZeros", []string{"i32", "u32"}, 1}, {"reverseBits", []string{"i32", "u32"}, 1},
		{"firstLeadingBit", []string{"i32", "u32"}, 1}, {"firstTrailingBit", []string{"i32", "u32"}, 1},
		{"min", []string{"i32", "u32", "f32"}, 2}, {"max", []string{"i32", "u32", "f32"}, 2}, {"step", []string{"f32"}, 2}, {"pow", []string{"f32"}, 2},
		{"clamp", []string{"i32", "u32", "f32"}, 3}, {"fma", []string{"f32"}, 3}, {"mix", []string{"f32"}, 3},
	}
	floatGridX := append(append([]int32{}, gen.FloatGrid...), fbits(2.5), fbits(-0.5), fbits(0.49999997), fbits(4), fbits(9), fbits(0.25), fbits(6.25),
		fbits(-7.75), fbits(8388607.5), fbits(1e-3))
	expGrid := []int32{fbits(0), fbits(1), fbits(-1), fbits(2), fbits(3), fbits(10), fbits(-10), fbits(23), fbits(24), fbits(100), fbits(-126), fbits(127), fbits(0.5), fbits(128)}
	logGrid := []int32{fbits(1), fbits(2), fbits(4), fbits(0.5), fbits(1024), fbits(0.125), fbits(8388608), fbits(3), fbits(1.5)}
	bitBuiltin := map[string]bool{"countOneBits": true, "countLeadingZeros": true, "countTrailingZeros": true, "reverseBits": true, "firstLeadingBit": true, "firstTrailingBit": true}
	for _, bd := range list {
		for _, k := range bd.kinds {
			for _, n := range []int{1, 2, 3, 4} {
				sh := "s"
				if n > 1 {
					sh = fmt.Sprintf("v%d", n)
				}
				grid := gridOf(k)
				if k == "f32" {
					grid = floatGridX
					switch bd.f {
					case "fma", "mix", "pow":
						grid = gen.SmallFloatGrid
					case "exp2":
						grid = expGrid
					case "log2":
						grid = logGrid
					}
				}
				tol := 0
				if bd.f == "exp2" || bd.f == "log2" || bd.f == "pow" {
					tol = 8
				}
				for _, sp := range g.spellsFor(k, sh) {
					if sp == "mix" && n == 1 && bd.arity == 1 {
						continue
					}
					if sp != "sfx" && bitBuiltin[bd.f] && sp == "abs" && k == "u32" {
						continue // countOneBits(5) is the i32 overload: the table kind would not be what is evaluated
					}
					mk := func(args [][]int32, pi int) {
						as := make([]wg.N, len(args))
						for a := range args {
							spa := sp
							if sp == "mix" && n == 1 {
								spa = "sfx"
								if (a+pi)%2 == 0 {
									spa = "abs"
								}
							}
							as[a] = vecOf(n, k, args[a], spa)
						}
						e := nBiSame(bd.f, as...)
						if bitBuiltin[bd.f] && isAbs(kindOf(tOf(e))) {
							e["t"] = withKind(tOf(e), "i32") // the bit builtins have no abstract overload: AbstractInt becomes i32
						}
						g.add(&ccase{OpClass: "builtin", Op: bd.f, Kind: k, Shape: sh, Spell: sp, Tol: tol, Tree: nSink(e, sinkWant(k, tOf(e)))})
					}
					if bd.arity == 1 {
						for _, i := range g.sampleIdx(len(grid), limit, grid, hazOf(k), n == 1) {
							mk([][]int32{lanesWords(grid, i, n, 5)}, i)
						}
						continue
					}
					lim := limit
					if n > 1 && limit == 0 {
						lim = 48
					} else if limit == 0 && sp != "sfx" {
						lim = 192
					}
					for pi, p := range g.samplePairs(grid, grid, lim, n == 1, hazPairsOf(k)) {
						args := [][]int32{lanesWords(grid, p.a, n, 5), lanesWords(grid, p.b, n, 7)}
						for a := 2; a < bd.arity; a++ {
							args = append(args, lanesWords(grid, p.a+p.b+a, n, 3))
						}
						mk(args, pi)
					}
				}
			}
		}
	}
	lim := limit
	if limit == 0 {
		lim = 48
	}
	// select (scalar and vector condition), all / any, dot, cross, extractBits / insertBits, integer packing
	for _, k := range []string{"i32", "u32", "f32"} {
		for _, n := range []int{1, 2, 3, 4} {
			for _, vc := range []bool{false, true} {
				if n == 1 && vc {
					continue
				}
				sh := "s"
				if n > 1 {
					sh = fmt.Sprintf("v%d", n)
				}
				grid := gridOf(k)
				for _, sp := range g.spellsFor(k, sh) {
					if sp == "mix" && n == 1 {
						continue
					}
					for pi, p := range g.samplePairs(grid, grid, lim, false, nil) {
						fa := vecOf(n, k, lanesWords(grid, p.a, n, 5), sp)
						ta := vecOf(n, k, lanesWords(grid, p.b, n, 7), sp)
						cn := 1
						if vc {
							cn = n
						}
						cw := make([]int32, cn)
						for l := range cw {
							cw[l] = int32((pi >> l) & 1)
						}
						cond := vecOf(cn, "bool", cw, "sfx")
						e := nBi("select", tV(n, unify(kindOf(tOf(fa)), kindOf(tOf(ta)))), fa, ta, cond)
						op := "select"
						if vc {
							op = "select-veccond"
						}
						g.add(&ccase{OpClass: "builtin", Op: op, Kind: k, Shape: sh, Spell: sp, Tree: nSink(e, sinkWant(k, tOf(e)))})
					}
				}
			}
		}
	}
	for _, f := range []string{"all", "any"} {
		for _, n := range []int{2, 3, 4} {
			for m := 0; m < 1<<n; m++ {
				cw := make([]int32, n)
				for l := range cw {
					cw[l] = int32((m >> l) & 1)
				}
				e := nBi(f, tS("bool"), vecOf(n, "bool", cw, "sfx"))
				g.add(&ccase{OpClass: "builtin", Op: f, Kind: "bool", Shape: fmt.Sprintf("v%d", n), Spell: "sfx", Tree: nSink(e, "")})
			}
		}
	}
	for _, k := range []string{"i32", "u32", "f32"} {
		for _, n := range []int{2, 3, 4} {
			grid := gridOf(k)
			if k == "f32" {
				grid = gen.SmallFloatGrid
			}
			sh := fmt.Sprintf("v%d", n)
			for _, sp := range g.spellsFor(k, sh) {
				for _, p := range g.samplePairs(grid, grid, lim, false, nil) {
					a := vecOf(n, k, lanesWords(grid, p.a, n, 5), sp)
					b := vecOf(n, k, lanesWords(grid, p.b, n, 7), sp)
					e := nBi("dot", tS(unify(kindOf(tOf(a)), kindOf(tOf(b)))), a, b)
					if isAbs(kindOf(tOf(e))) {
						continue // dot on abstract vectors: not modelled
					}
					g.add(&ccase{OpClass: "builtin", Op: "dot", Kind: k, Shape: sh, Spell: sp, Tree: nSink(e, "")})
				}
			}
		}
	}
	for _, sp := range g.spellsFor("f32", "v3") {
		for _, p := range g.samplePairs(gen.SmallFloatGrid, gen.SmallFloatGrid, lim, false, nil) {
			a := vecOf(3, "f32", lanesWords(gen.SmallFloatGrid, p.a, 3, 5), sp)
			b := vecOf(3, "f32", lanesWords(gen.SmallFloatGrid, p.b, 3, 7), sp)
			e := nBiSame("cross", a, b)
			g.add(&ccase{OpClass: "builtin", Op: "cross", Kind: "f32", Shape: "v3", Spell: sp, Tree: nSink(e, sinkWant("f32", tOf(e)))})
		}
	}
	cg := []int32{0, 1, 4, 8, 16, 31, 32, 33, 40, -1}
	for _, k := range []string{"i32", "u32"} {
		for _, n := range []int{1, 3} {
			sh := "s"
			if n > 1 {
				sh = "v3"
			}
			for _, sp := range []string{"sfx", "mix"} {
				if g.quick && sp == "mix" && n > 1 {
					continue
				}
				for pi, p := range g.samplePairs(gen.IntGrid, cg, lim, false, nil) {
					spv := sp
					if sp == "mix" && n == 1 {
						spv = "sfx"
					}
					v := vecOf(n, k, lanesWords(gen.IntGrid, p.a, n, 5), spv)
					off := leaf("u32", cg[p.b], sp == "mix")
					cnt := leaf("u32", cg[(p.a+p.b)%len(cg)], sp == "mix")
					e := nBi("extractBits", tV(n, k), v, off, cnt)
					g.add(&ccase{OpClass: "builtin", Op: "extractBits", Kind: k, Shape: sh, Spell: sp, Tree: nSink(e, "")})
					nb := vecOf(n, k, lanesWords(gen.IntGrid, p.a+p.b+pi, n, 7), spv)
					e2 := nBi("insertBits", tV(n, k), v, nb, off, cnt)
					g.add(&ccase{OpClass: "builtin", Op: "insertBits", Kind: k, Shape: sh, Spell: sp, Tree: nSink(e2, "")})
				}
			}
		}
	}
	for _, f := range []string{"pack4xI8", "pack4xU8", "pack4xI8Clamp", "pack4xU8Clamp"} {
		k := "i32"
		if strings.Contains(f, "U8") {
			k = "u32"
		}
		pg := []int32{0, 1, -1, 127, 128, -128, -129, 255, 256, 0x12345678, math.MaxInt32, math.MinInt32}
		for _, sp := range []string{"sfx", "mix"} {
			for i := range pg {
				if g.quick && i%2 == int(g.seed)%2 {
					continue
				}
				e := nBi(f, tS("u32"), vecOf(4, k, lanesWords(pg, i, 4, 5), sp))
				g.add(&ccase{OpClass: "builtin", Op: f, Kind: k, Shape: "v4", Spell: sp, Tree: nSink(e, "")})
			}
		}
	}
	for _, f := range []string{"unpack4xI8", "unpack4xU8"} {
		k := "i32"
		if f == "unpack4xU8" {
			k = "u32"
		}
		for i, w := range []int32{0, -1, 0x12345678, -2139062144, 0x7f80ff01, 255, -16777216} {
			if g.quick && i%2 == int(g.seed)%2 {
				continue
			}
			for _, sp := range []string{"sfx", "abs"} {
				e := nBi(f, tV(4, k), leaf("u32", w, sp == "abs"))
				g.add(&ccase{OpClass: "builtin", Op: f, Kind: "u32", Shape: "s", Spell: sp, Tree: nSink(e, "")})
			}
		}
	}
}

// ctorSwz: constructors (splat, mixed scalar/vector arguments) and all swizzles of length 1..4 over vec2/3/4 of literal vectors.
func (g *cgen) ctorSwz() {
	for _, k := range []string{"i32", "u32", "f32", "bool"} {
		grid := gridOf(k)
		for _, sp := range []string{"sfx", "abs", "mix"} {
			if k == "bool" && sp != "sfx" {
				continue
			}
			for n := 2; n <= 4; n++ {
				base := g.rng.Intn(len(grid))
				ws := lanesWords(grid, base, n, 5)
				sh := fmt.Sprintf("v%d", n)
				want := ""
				if sp == "abs" {
					want = k
				}
				// splat and flattening constructors
				ek := k
				if sp == "abs" {
					ek = ""
				}
				g.add(&ccase{OpClass: "ctor", Op: "splat", Kind: k, Shape: sh, Spell: sp, Tree: nSink(nCtor(n, ek, leaf(k, ws[0], sp != "sfx")), want)})
				if n >= 3 {
					inner := vecOf(n-1, k, ws[:n-1], sp)
					g.add(&ccase{OpClass: "ctor", Op: "vec+scalar", Kind: k, Shape: sh, Spell: sp,
						Tree: nSink(nCtor(n, ek, inner, leaf(k, ws[n-1], sp != "sfx")), want)})
					inner2 := vecOf(n-1, k, ws[1:], sp)
					g.add(&ccase{OpClass: "ctor", Op: "scalar+vec", Kind: k, Shape: sh, Spell: sp,
						Tree: nSink(nCtor(n, ek, leaf(k, ws[0], sp != "sfx"), inner2), want)})
				}
				// swizzles
				v := vecOf(n, k, ws, sp)
				var pats [][]int
				for l := 1; l <= 4; l++ {
					cnt := 1
					for i := 0; i < l; i++ {
						cnt *= n
					}
					for c := 0; c < cnt; c++ {
						p := make([]int, l)
						x := c
						for i := range p {
							p[i] = x % n
							x /= n
						}
						pats = append(pats, p)
					}
				}
				if g.quick {
					g.rng.Shuffle(len(pats), func(i, j int) { pats[i], pats[j] = pats[j], pats[i] })
					if len(pats) > 10 {
						pats = pats[:10]
					}
				}
				for _, p := range pats {
					g.add(&ccase{OpClass: "swz", Op: fmt.Sprintf("len%d", len(p)), Kind: k, Shape: sh, Spell: sp, Tree: nSink(nSwz(v, p...), want)})
				}
			}
		}
	}
}

// literals: representability of literals and conversions at the sink (rule E5), and deeper trees (named in DESIGN.md 8.1).
func (g *cgen) literals() {
	lit := func(op, k, sp, want string, e wg.N) {
		g.add(&ccase{OpClass: "lit", Op: op, Kind: k, Shape: "s", Spell: sp, Tree: nSink(e, want)})
	}
	for _, v := range []int64{0, 1, -1, 2147483647, 2147483648, -2147483648, -2147483649, 3000000000, 4294967295, 4294967296, 1 << 40, -(1 << 40)} {
		lit("ai->i32", "i32", "abs", "i32", aiLit(v))
		lit("ai->u32", "u32", "abs", "u32", aiLit(v))
		lit("ai->f32", "f32", "abs", "f32", aiLit(v))
		lit("i32(ai)", "i32", "abs", "", nCast(tS("i32"), aiLit(v)))
		lit("u32(ai)", "u32", "abs", "", nCast(tS("u32"), aiLit(v)))
		lit("f32(ai)", "f32", "abs", "", nCast(tS("f32"), aiLit(v)))
	}
	// hexadecimal spellings of the same boundary values
	for _, h := range []struct {
		txt string
		v   int64
	}{{"0x7fffffff", 2147483647}, {"0x80000000", 2147483648}, {"0xffffffff", 4294967295}, {"0x100000000", 4294967296}} {
		n := aiLit(h.v)
		n["txt"] = h.txt
		lit("hex ai->i32", "i32", "abs", "i32", n)
		n2 := aiLit(h.v)
		n2["txt"] = h.txt
		lit("hex ai->u32", "u32", "abs", "u32", n2)
	}
	lit("badlit", "u32", "sfx", "", badLit("u32", "4294967296u"))
	lit("badlit", "i32", "sfx", "", badLit("i32", "2147483648i"))
	lit("badlit", "i32", "sfx", "", badLit("i32", "3000000000i"))
	lit("badlit", "f32", "sfx", "", badLit("f32", "1e40f"))
	lit("badlit", "f32", "abs", "f32", badLit("af", "1e40"))
	lit("badlit", "f32", "abs", "f32", badLit("af", "3.5e38"))
	lit("badlit", "i32", "abs", "i32", badLit("ai", "9223372036854775808"))
	for _, w := range []int32{fbits(0), fbits(1.5), fbits(-2.5), fbits(3.4028235e38), fbits(1e-20), fbits(16777216)} {
		lit("af->f32", "f32", "abs", "f32", afLit(w))
	}
	// trees of depth 2-3 mixing operators (wrap-around chains, conversions of results, abstract sub-expressions)
	i := func(v int32) wg.N { return cLit("i32", v) }
	u := func(v uint32) wg.N { return cLit("u32", int32(v)) }
	tree := func(op string, k, sp, want string, e wg.N) {
		g.add(&ccase{OpClass: "tree", Op: op, Kind: k, Shape: "s", Spell: sp, Tree: nSink(e, want)})
	}
	tree("(a+b)*c", "i32", "sfx", "", nBin("*", nBin("+", i(46340), i(1)), i(46341)))
	tree("(a-b)>>c", "i32", "sfx", "", nBin(">>", nBin("-", i(3), i(11)), u(1)))
	tree("(a-b)>>c", "u32", "sfx", "", nBin(">>", nBin("-", u(3), u(11)), u(1)))
	tree("(a-b)/c", "i32", "abs", "i32", nBin("/", nBin("-", aiLit(3), aiLit(11)), aiLit(2)))
	tree("(a-b)/c", "u32", "abs", "u32", nBin("/", nBin("-", aiLit(3), aiLit(11)), aiLit(2)))
	tree("(a-b)+c", "u32", "abs", "u32", nBin("+", nBin("-", aiLit(3), aiLit(5)), aiLit(4)))
	tree("a*b/c", "i32", "abs", "i32", nBin("/", nBin("*", aiLit(2147483647), aiLit(2)), aiLit(2)))
	tree("a*b/c", "i32", "sfx", "", nBin("/", nBin("*", i(2147483647), i(2)), i(2)))
	tree("a+b ai", "i32", "abs", "i32", nBin("+", aiLit(2147483647), aiLit(1)))
	tree("a*b ai-ovf", "i32", "abs", "i32", nBin("*", aiLit(3037000500), aiLit(3037000500)))
	tree("a+b ai-ovf", "i32", "abs", "i32", nBin("+", aiLit(math.MaxInt64), aiLit(1)))
	tree("a<<b ai", "u32", "abs", "u32", nBin("<<", aiLit(1), cLit("u32", 31)))
	tree("a<<b ai", "i32", "abs", "i32", nBin("<<", aiLit(1), cLit("u32", 31)))
	tree("a<<b ai", "i32", "abs", "i32", nBin("<<", aiLit(1), cLit("u32", 63)))
	tree("a<<b ai", "i32", "abs", "i32", nBin("<<", aiLit(1), cLit("u32", 64)))
	tree("(a<<b)>>c ai", "i32", "abs", "i32", nBin(">>", nBin("<<", aiLit(1), cLit("u32", 40)), cLit("u32", 38)))
	tree("u32(a-b)", "u32", "abs", "", nCast(tS("u32"), nBin("-", aiLit(3), aiLit(5))))
	tree("i32(a)*b", "i32", "mix", "", nBin("*", nCast(tS("i32"), cLit("u32", -1)), aiLit(7)))
	tree("f32(a/b)", "f32", "sfx", "", nCast(tS("f32"), nBin("/", i(7), i(2))))
	tree("a/b f", "f32", "abs", "f32", nBin("/", aiLit(7), afLit(fbits(2))))
	tree("a/b i", "f32", "abs", "f32", nBin("/", aiLit(7), aiLit(2)))
	tree("min(a,b)+c", "i32", "mix", "", nBin("+", nBiSame("min", aiLit(5), i(-3)), aiLit(10)))
	tree("abs(a-b)", "i32", "sfx", "", nBiSame("abs", nBin("-", i(math.MinInt32+1), i(1))))
	tree("-(a-b)", "i32", "sfx", "", nUn("-", nBin("-", i(math.MinInt32+1), i(1))))
	tree("select(a,b,c<d)", "u32", "sfx", "", nBi("select", tS("u32"), u(7), u(9), nBin("<", u(0xffffffff), u(1))))
	tree("vec.x+vec.y", "i32", "sfx", "", nBin("+", nSwz(nCtor(2, "i32", i(2147483647), i(1)), 0), nSwz(nCtor(2, "i32", i(2147483647), i(1)), 1)))
	tree("a&&b", "bool", "sfx", "", nBin("&&", nBin("<", i(1), i(2)), nBin("==", u(3), u(3))))
	tree("!(a<b)", "bool", "sfx", "", nUn("!", nBin("<", cLit("f32", fbits(1.5)), cLit("f32", fbits(-2)))))
	tree("a*b f ovf", "f32", "sfx", "", nBin("*", cLit("f32", fbits(1e38)), cLit("f32", fbits(10))))
	tree("a/b f 0", "f32", "sfx", "", nBin("/", cLit("f32", fbits(1)), cLit("f32", fbits(0))))
	tree("a/b f 0", "f32", "abs", "f32", nBin("/", afLit(fbits(1)), afLit(fbits(0))))
}

// chains: trees of depth 2-3 whose inner operator nodes produce negative, boundary and wrapped intermediate values; they are
// written (forms chain_*) with every inner node as a computed module-scope constant, consumed by a further constant, a
// const_assert, a case selector, an array size, a workgroup size or an expression in a function body.
func (g *cgen) chains() {
	type inner struct {
		op   string
		x, y int64
	}
	inners := map[string][]inner{
		"i32": {{"-", 2, 5}, {"-", 0, 1}, {"-", -2147483647, 1}, {"*", -7, 3}, {"+", 2147483647, 1}, {"*", 46341, 46341}, {"-", 7, 2}, {"+", -2147483647, 2147483600}},
		"u32": {{"-", 0, 1}, {"-", 3, 5}, {"+", 4294967295, 1}, {"*", 65536, 65537}, {"+", 2147483648, 5}, {"-", 7, 2}, {"-", 4294967295, 2147483647}},
	}
	type outer struct {
		op string
		z  int64
		zk string // kind of z ("" = the chain's kind)
	}
	outers := []outer{{"/", 2, ""}, {"%", 2, ""}, {">>", 1, "u32"}, {"<", 0, ""}, {"<=", 4, ""}, {">", 1, ""}, {">=", 0, ""}, {"==", 5, ""}, {"!=", 5, ""},
		{"+", 1, ""}, {"-", 1, ""}, {"*", 2, ""}, {"&", 255, ""}, {"|", 1, ""}, {"^", 21, ""}, {"<<", 1, "u32"}, {"/", 3, ""}, {"%", 7, ""}, {">>", 31, "u32"}}
	thirds := []outer{{"/", 2, ""}, {"%", 3, ""}, {">>", 1, "u32"}, {"<", 0, ""}, {"+", 7, ""}}
	mk := func(k, sp string, v int64, zk string) wg.N {
		kk := k
		if zk != "" {
			kk = zk
		}
		if sp == "typed" {
			return aiLit(v)
		}
		return cLit(kk, int32(uint32(v)))
	}
	// node builds `x op y` in the given spelling; "typed": abstract literals, the result declared with the chain's kind
	node := func(k, sp, op string, a, b wg.N) wg.N {
		e := nBin(op, a, b)
		if sp == "typed" && isAbs(kindOf(tOf(e))) && lanesOf(tOf(e)) == 0 {
			return nCast(tS(k), e)
		}
		return e
	}
	nth := 0
	for _, k := range []string{"i32", "u32"} {
		ins := inners[k]
		for oi, o := range outers {
			for _, sp := range []string{"sfx", "typed"} {
				for ii, in := range ins {
					if g.quick && !(ii == oi%2 || ii == (int(g.seed)+oi+len(sp))%len(ins)) {
						continue // quick: the canonical negative / wrapped inner value plus one rotating with the seed
					}
					if k == "u32" && in.x < 0 {
						continue
					}
					a := node(k, sp, in.op, mk(k, sp, in.x, ""), mk(k, sp, in.y, ""))
					e := nBin(o.op, a, mk(k, sp, o.z, o.zk))
					g.add(&ccase{OpClass: "chain", Op: in.op + "," + o.op, Kind: k, Shape: "s", Spell: sp, Tree: nSink(e, "")})
					nth++
					// depth 3: a third operator over the second constant (integer-valued second results only)
					if cmpOps[o.op] || (g.quick && (nth+int(g.seed))%4 != 0) {
						continue
					}
					t3 := thirds[(nth+ii)%len(thirds)]
					b := node(k, sp, o.op, a, mk(k, sp, o.z, o.zk))
					e3 := nBin(t3.op, b, mk(k, sp, t3.z, t3.zk))
					g.add(&ccase{OpClass: "chain", Op: in.op + "," + o.op + "," + t3.op, Kind: k, Shape: "s", Spell: sp, Tree: nSink(e3, "")})
				}
			}
		}
		// unary inner nodes and a vector chain
		for _, sp := range []string{"sfx", "typed"} {
			neg := node(k, sp, "-", mk(k, sp, 3, ""), mk(k, sp, 10, ""))
			if k == "i32" {
				un := nUn("-", neg)
				if sp == "typed" {
					un = nCast(tS(k), nUn("-", nBin("-", aiLit(10), aiLit(3))))
				}
				g.add(&ccase{OpClass: "chain", Op: "neg,/", Kind: k, Shape: "s", Spell: sp, Tree: nSink(nBin("/", un, mk(k, sp, 2, "")), "")})
			}
			nt := nUn("~", node(k, sp, "+", mk(k, sp, 5, ""), mk(k, sp, 1, "")))
			if sp == "typed" {
				nt = nCast(tS(k), nUn("~", nBin("+", aiLit(5), aiLit(1))))
				if k == "u32" {
					nt = nil // ~6 is -7: not a u32
				}
			}
			if nt != nil {
				g.add(&ccase{OpClass: "chain", Op: "not,>>", Kind: k, Shape: "s", Spell: sp, Tree: nSink(nBin(">>", nt, cLit("u32", 1)), "")})
			}
		}
		va := nBin("-", vecOf(2, k, []int32{2, 0}, "sfx"), vecOf(2, k, []int32{5, 1}, "sfx"))
		g.add(&ccase{OpClass: "chain", Op: "-,/", Kind: k, Shape: "v2", Spell: "sfx", Tree: nSink(nBin("/", va, vecOf(2, k, []int32{2, 2}, "sfx")), "")})
	}
}

// genConstCases builds the case list for this tier and seed.
func genConstCases(seed int64, quick bool) []*ccase {
	g := &cgen{rng: rand.New(rand.NewSource(seed)), quick: quick, seed: seed}
	if quick {
		g.binOps(5)
		g.unOpsConv(4)
		g.builtins(3)
	} else {
		g.binOps(0)
		g.unOpsConv(0)
		g.builtins(0)
	}
	g.ctorSwz()
	g.literals()
	g.chains()
	return g.out
}

// ---- literal spelling ----------------------------------------------------------------------------------------

func aiValue(e wg.N) int64 {
	return int64(int32(wg.I(e, "hi")))<<32 | int64(uint32(int32(wg.I(e, "lo"))))
}

func litText(e wg.N) string {
	if s := wg.S(e, "txt"); s != "" {
		return s
	}
	v := int32(wg.I(e, "v"))
	switch wg.K(tOf(e)) {
	case "ai":
		x := aiValue(e)
		if x < 0 {
			return fmt.Sprintf("(-%d)", -x)
		}
		return fmt.Sprint(x)
	case "af":
		f := float64(math.Float32frombits(uint32(v)))
		s := strconv.FormatFloat(math.Abs(f), 'g', -1, 64)
		if !strings.ContainsAny(s, ".e") {
			s += ".0"
		}
		if math.Signbit(f) {
			return "(-" + s + ")"
		}
		return s
	case "i32":
		if v == math.MinInt32 {
			return "i32(-2147483648)"
		}
		if v < 0 {
			return fmt.Sprintf("(-%di)", -int64(v))
		}
		return fmt.Sprintf("%di", v)
	case "u32":
		return fmt.Sprintf("%du", uint32(v))
	case "bool":
		if v != 0 {
			return "true"
		}
		return "false"
	case "f32":
		f := math.Float32frombits(uint32(v))
		s := strconv.FormatFloat(math.Abs(float64(f)), 'g', -1, 32)
		if !strings.ContainsAny(s, ".e") {
			s += ".0"
		}
		s += "f"
		if math.Signbit(float64(f)) {
			return "(-" + s + ")"
		}
		return s
	}
	return "?"
}
