package checks

import (
	"fmt"
	"sort"
	"strings"

	"verif/harness/spvev"
)

// c02Detail describes the instruction a verdict points at in terms that do not depend on id numbers: operand types
// for an ordinary instruction, the condition's provenance for an unmerged two-way branch, the set of notable opcodes
// of the function for other per-function rules.  Known-finding predicates match on it, so that they name the
// construct rather than the rule alone.
func c02Detail(md *c02Mod, v *c02Verdict) string {
	evs := md.Evs
	def := map[int32]*spvev.Event{}
	for i := range evs {
		if evs[i].Ev == "inst" && evs[i].R != 0 {
			if _, dup := def[evs[i].R]; !dup {
				def[evs[i].R] = &evs[i]
			}
		}
	}
	var ty func(id int32, d int) string
	ty = func(id int32, d int) string {
		e := def[id]
		if e == nil || d > 4 {
			return "?"
		}
		switch e.Op {
		case "OpTypeVoid":
			return "void"
		case "OpTypeBool":
			return "bool"
		case "OpTypeInt":
			if len(e.Lits) == 2 {
				return fmt.Sprintf("%s%d", map[int32]string{0: "u", 1: "i"}[e.Lits[1]], e.Lits[0])
			}
		case "OpTypeFloat":
			if len(e.Lits) >= 1 {
				return fmt.Sprintf("f%d", e.Lits[0])
			}
		case "OpTypeVector":
			if len(e.Ids) == 1 && len(e.Lits) == 1 {
				return fmt.Sprintf("vec%d<%s>", e.Lits[0], ty(e.Ids[0], d+1))
			}
		case "OpTypeMatrix":
			if len(e.Ids) == 1 && len(e.Lits) == 1 {
				return fmt.Sprintf("mat%d<%s>", e.Lits[0], ty(e.Ids[0], d+1))
			}
		case "OpTypeArray":
			return "array<" + ty(e.Ids[0], d+1) + ">"
		case "OpTypeRuntimeArray":
			return "rtarray<" + ty(e.Ids[0], d+1) + ">"
		case "OpTypeStruct":
			return "struct"
		case "OpTypePointer":
			if len(e.Ids) == 1 && len(e.En) == 1 {
				return "ptr<" + e.En[0] + "," + ty(e.Ids[0], d+1) + ">"
			}
		case "OpTypeImage":
			if len(e.Lits) >= 6 && len(e.Ids) == 1 {
				dim := map[int32]string{0: "1D", 1: "2D", 2: "3D", 3: "Cube", 4: "Rect", 5: "Buffer", 6: "Subpass"}[e.Lits[0]]
				return fmt.Sprintf("image<%s,%s,depth=%d,arrayed=%d,ms=%d,sampled=%d,fmt=%d>", ty(e.Ids[0], d+1), dim, e.Lits[1], e.Lits[2], e.Lits[3], e.Lits[4], e.Lits[5])
			}
		case "OpTypeSampler":
			return "sampler"
		case "OpTypeSampledImage":
			return "sampled_" + ty(e.Ids[0], d+1)
		case "OpTypeFunction":
			return "fn"
		}
		return strings.TrimPrefix(e.Op, "OpType")
	}
	valTy := func(id int32) string {
		e := def[id]
		if e == nil {
			return "undefined"
		}
		if e.T != 0 {
			return ty(e.T, 0)
		}
		if strings.HasPrefix(e.Op, "OpType") {
			return "type:" + ty(id, 0)
		}
		return strings.TrimPrefix(e.Op, "Op")
	}
	// provenance of a value: the opcode that computes it and, two levels deep, those of its operands
	var prov func(id int32, d int) string
	prov = func(id int32, d int) string {
		e := def[id]
		if e == nil {
			return "?"
		}
		if d == 0 || len(e.Ids) == 0 || strings.HasPrefix(e.Op, "OpConstant") || e.Op == "OpLoad" || e.Op == "OpVariable" {
			return strings.TrimPrefix(e.Op, "Op")
		}
		var parts []string
		for _, x := range e.Ids {
			parts = append(parts, prov(x, d-1))
		}
		return strings.TrimPrefix(e.Op, "Op") + "(" + strings.Join(parts, ",") + ")"
	}
	if v.L < 0 || v.L >= len(evs) {
		return ""
	}
	e := &evs[v.L]
	switch {
	case e.Ev != "inst":
		// end of module: describe the witness variables (storage class and type), not their ids
		var parts []string
		for _, w := range v.W {
			if d := def[int32(w)]; d != nil && d.Op == "OpVariable" {
				parts = append(parts, "var:"+ty(d.T, 0))
			}
		}
		sort.Strings(parts)
		if len(parts) > 4 {
			parts = parts[:4]
		}
		return strings.TrimSpace(e.Ev + " " + strings.Join(parts, " "))
	case e.Op == "OpFunctionEnd":
		// the function's blocks
		start := v.L
		for start > 0 && evs[start].Op != "OpFunction" {
			start--
		}
		if len(v.W) > 0 {
			// the unmerged two-way branches: what their conditions test
			seen := map[string]bool{}
			for _, w := range v.W {
				in := false
				for i := start; i < v.L; i++ {
					if evs[i].Op == "OpLabel" {
						in = evs[i].R == int32(w)
					}
					if in && evs[i].Op == "OpBranchConditional" && len(evs[i].Ids) > 0 {
						seen["cond="+prov(evs[i].Ids[0], 2)] = true
					}
				}
			}
			var ks []string
			for k := range seen {
				ks = append(ks, k)
			}
			sort.Strings(ks)
			return strings.Join(ks, " ")
		}
		notable := map[string]bool{}
		for i := start; i < v.L; i++ {
			switch op := evs[i].Op; {
			case op == "OpLoopMerge", op == "OpSwitch", op == "OpPhi", op == "OpKill", op == "OpUnreachable", strings.HasPrefix(op, "OpImage"), strings.HasPrefix(op, "OpRayQuery"), strings.HasPrefix(op, "OpAtomic"):
				notable[op] = true
			}
		}
		var ks []string
		for k := range notable {
			ks = append(ks, k)
		}
		sort.Strings(ks)
		return "fn-ops: " + strings.Join(ks, " ")
	}
	var sb strings.Builder
	if e.T != 0 {
		sb.WriteString(ty(e.T, 0))
	} else if strings.HasPrefix(e.Op, "OpType") {
		sb.WriteString("type")
	}
	sb.WriteString(" <-")
	for i, x := range e.Ids {
		if i >= 6 {
			sb.WriteString(" ...")
			break
		}
		sb.WriteString(" " + valTy(x))
	}
	if len(e.En) > 0 {
		sb.WriteString(" [" + strings.Join(e.En, ",") + "]")
	}
	return sb.String()
}
