package checks

import (
	"bytes"
	"encoding/json"
	"fmt"
	"math/rand"
	"os"
	"regexp"
	"sort"
	"strings"
	"sync"
	"time"

	"github.com/gogpu/naga"
	"github.com/gogpu/naga/ir"
	"github.com/gogpu/naga/wgsl"

	"verif/harness/core"
	"verif/harness/drive"
	"verif/harness/wg"
)

func init() { Registry["C08"] = runC08 }

// acProg is one program replayed by the check.
type acProg struct {
	ID      int
	Family  string   // accept | sem | ctl | corpus
	Name    string   // corpus file name / family description
	Src     string
	Claim   []string // action groups for which acceptance is claimed
	Spec    *agModule
	Constr  []string // constructs (for descriptors)
	Ref     *drive.RefOpts
	Consts  map[string]float64
	// filled by the replay
	Feats  []string
	Eps    []acEntry
	Events []acEvent
	Errs   map[int][]string // event index -> error texts
	Dup    bool             // two resources are DECLARED with one (group, binding) pair (valid unless one entry point uses both)
}

type acEntry struct {
	N  string   `json:"n"`
	St string   `json:"st"`
	F  []string `json:"f"`
}

// acEvent is one line of the trace (spec/NagaTrace.tla).  Only the fields of its kind are written: a prog event carries
// id/wt/claim/feats/eps/sel, a front-end call st/out, a backend call additionally b/opt/ov/oes/opc/ocaps/ep.
type acEvent struct {
	Ev    string    `json:"ev"`
	ID    int       `json:"id"`
	Wt    int       `json:"wt"`
	Claim []string  `json:"claim"`
	Feats []string  `json:"feats"`
	Eps   []acEntry `json:"eps"`
	Sel   []string  `json:"sel"`
	St    string    `json:"st"`
	B     string    `json:"b"`
	Opt   string    `json:"opt"`
	Ov    int       `json:"ov"`
	Oes   int       `json:"oes"`
	Opc   int       `json:"opc"`
	Ocaps string    `json:"ocaps"`
	Ep    string    `json:"ep"`
	Out   string    `json:"out"`
}

// MarshalJSON writes the fields of the event's kind.
func (e acEvent) MarshalJSON() ([]byte, error) {
	switch {
	case e.Ev == "prog":
		return json.Marshal(map[string]any{"ev": e.Ev, "id": e.ID, "wt": e.Wt, "claim": e.Claim, "feats": e.Feats, "eps": e.Eps, "sel": e.Sel})
	case e.St == "backend":
		return json.Marshal(map[string]any{"ev": e.Ev, "st": e.St, "b": e.B, "opt": e.Opt, "ov": e.Ov, "oes": e.Oes, "opc": e.Opc, "ocaps": e.Ocaps, "ep": e.Ep, "out": e.Out})
	}
	return json.Marshal(map[string]any{"ev": e.Ev, "st": e.St, "out": e.Out})
}

func c08b2i(b bool) int {
	if b {
		return 1
	}
	return 0
}

var stageOfName = map[string]ir.ShaderStage{"vertex": ir.StageVertex, "fragment": ir.StageFragment, "compute": ir.StageCompute}

// replayAccept drives one program through the whole public API and records one event per call.
// optPick selects, per backend, which catalogue option sets are run (nil = all).
func replayAccept(p *acProg, fullOpts bool, rot int) {
	p.Errs = map[int][]string{}
	call := func(st string, err error, more ...string) bool {
		ev := acEvent{Ev: "call", St: st, Out: "ok", Claim: []string{}, Feats: []string{}, Eps: []acEntry{}, Sel: []string{}}
		if err != nil {
			ev.Out = "err"
			p.Errs[len(p.Events)] = append([]string{err.Error()}, more...)
		}
		p.Events = append(p.Events, ev)
		return err == nil
	}
	// every call into naga is announced (so that a fatal error - e.g. a stack overflow, which no recover() catches - can be
	// attributed to it by the parent process) and is skipped when an earlier attempt died in it
	guardK := func(key string, f func() error) (err error) {
		if t, dead := c08Crash[fmt.Sprintf("%d/%s", p.ID, key)]; dead {
			return fmt.Errorf("%s", t)
		}
		c08Announce(p.ID, key)
		defer func() {
			if r := recover(); r != nil {
				err = fmt.Errorf("panic: %v", r)
			}
		}()
		return f()
	}
	// the prog event is completed once the features are known
	p.Events = append(p.Events, acEvent{Ev: "prog", ID: p.ID, Wt: 1, Claim: p.Claim, Feats: []string{}, Eps: []acEntry{}, Sel: []string{}})
	sel := []string{}

	var tokens *wgsl.Tokens
	var ast *wgsl.Module
	var m *ir.Module
	ok := call("tokenize", guardK("tokenize", func() (e error) { tokens, e = wgsl.NewLexer(p.Src).Tokenize(); return }))
	if ok {
		ok = call("parse", guardK("parse", func() (e error) { ast, e = wgsl.NewParser(tokens).Parse(); return }))
	}
	if ok {
		ok = call("lower", guardK("lower", func() (e error) { m, e = naga.LowerWithSource(ast, p.Src); return }))
	}
	if ok {
		// two declarations with one (group, binding): from the description when there is one (the IR holds what naga read)
		if p.Spec != nil {
			for i, a := range p.Spec.Res {
				for _, b := range p.Spec.Res[:i] {
					if a.K != "workgroup" && a.K != "private" && b.K != "workgroup" && b.K != "private" && a.G == b.G && a.B == b.B {
						p.Dup = true
					}
				}
			}
		} else {
			seen := map[ir.ResourceBinding]bool{}
			for _, gv := range m.GlobalVariables {
				if gv.Binding != nil {
					if seen[*gv.Binding] {
						p.Dup = true
					}
					seen[*gv.Binding] = true
				}
			}
		}
		// features
		irf := irFeatures(m)
		if p.Spec != nil {
			p.Feats = append([]string{}, p.Spec.Feats...)
			for i, e := range p.Spec.Entries {
				p.Eps = append(p.Eps, acEntry{N: fmt.Sprintf("e%d", i+1), St: e.Stage, F: append([]string{}, e.F...)})
			}
		} else {
			p.Feats = irf.list()
			for _, ep := range m.EntryPoints {
				st, known := stageName[ep.Stage]
				if !known {
					st = "compute" // exotic stage: the module is marked exotic, the stage name is irrelevant
				}
				p.Eps = append(p.Eps, acEntry{N: ep.Name, St: st, F: p.Feats})
			}
		}
		sort.Strings(p.Feats)
		var verrs []ir.ValidationError
		verr := guardK("validate", func() (e error) {
			verrs, e = naga.Validate(m)
			if e == nil && len(verrs) > 0 {
				e = fmt.Errorf("%d validation error(s)", len(verrs))
			}
			return
		})
		var texts []string
		for _, ve := range verrs {
			texts = append(texts, ve.Error())
		}
		call("validate", verr, texts...)
	}
	// the SPIR-V half of the one-call API, then the one-call API itself
	if ok {
		for _, o := range drive.AcceptOpts("spv") {
			if o.Name == "onecall" {
				err := guardK("backend/spv/onecall/*", func() (e error) { _, e = drive.AcceptCompile("spv", o.Name, m, "*", 0, p.Consts, p.Ref); return })
				p.backendEvent("spv", o, "*", err)
			}
		}
	}
	call("onecall", guardK("onecall", func() (e error) { _, e = naga.CompileWithOptions(p.Src, naga.DefaultOptions()); return }))
	if ok {
		for _, be := range drive.AcceptBackends {
			opts := drive.AcceptOpts(be)
			if p.Ref != nil {
				opts = append(opts, p.Ref.RefOpt(be))
			}
			for oi, o := range opts {
				if be == "spv" && o.Name == "onecall" {
					continue
				}
				if !fullOpts && oi != 0 && o.Name != "ref" && (oi+rot)%3 != 0 {
					continue // bulk programs: default + a rotating third of the catalogue
				}
				if !fullOpts {
					sel = append(sel, be+"/"+o.Name)
				}
				var entries []string
				if be != "glsl" {
					entries = append(entries, "*")
				}
				if be != "spv" {
					for _, e := range p.Eps {
						entries = append(entries, e.N)
					}
				}
				for _, en := range entries {
					var st ir.ShaderStage
					for _, e := range p.Eps {
						if e.N == en {
							st = stageOfName[e.St]
						}
					}
					err := guardK("backend/"+be+"/"+o.Name+"/"+en, func() (e error) { _, e = drive.AcceptCompile(be, o.Name, m, en, st, p.Consts, p.Ref); return })
					p.backendEvent(be, o, en, err)
				}
			}
		}
	}
	if !fullOpts {
		sel = append(sel, "spv/onecall")
	}
	p.Events[0].Sel = sel
	p.Events[0].Feats = p.Feats
	if p.Feats == nil {
		p.Events[0].Feats = []string{}
	}
	p.Events[0].Eps = p.Eps
	if p.Eps == nil {
		p.Events[0].Eps = []acEntry{}
	}
}

func (p *acProg) backendEvent(be string, o drive.AcceptOpt, en string, err error) {
	ev := acEvent{Ev: "call", St: "backend", B: be, Opt: o.Name, Ov: o.V, Oes: c08b2i(o.ES), Opc: c08b2i(o.PC), Ocaps: o.Caps, Ep: en, Out: "ok",
		Claim: []string{}, Feats: []string{}, Eps: []acEntry{}, Sel: []string{}}
	if err != nil {
		ev.Out = "err"
		p.Errs[len(p.Events)] = []string{err.Error()}
	}
	p.Events = append(p.Events, ev)
}

// ---------------------------------------------------------------- AcceptGen configurations

type agCfg struct {
	name                                                 string
	kinds                                                []string
	groups, bindings, formats                            []int
	maxRes, maxHelpers, maxEntries, maxOps, maxIO, maxSyn int
	shapes, stages, ops, ctl, io, syn, orders            []string
	locs                                                 []int
	types, interps                                       []string
	sim                                                  int // 0 = exhaustive
	depth                                                int
	workers                                              int
}

func tlaSet(ss []string) string {
	q := make([]string, len(ss))
	for i, s := range ss {
		q[i] = fmt.Sprintf("%q", s)
	}
	return "{" + strings.Join(q, ", ") + "}"
}
func tlaInts(xs []int) string {
	q := make([]string, len(xs))
	for i, x := range xs {
		q[i] = fmt.Sprint(x)
	}
	return "{" + strings.Join(q, ", ") + "}"
}

func (a agCfg) text() string {
	return fmt.Sprintf(`SPECIFICATION Spec
CONSTANTS
 ResKinds = %s
 Groups = %s
 Bindings = %s
 Formats = %s
 MaxRes = %d
 MaxHelpers = %d
 MaxEntries = %d
 MaxOps = %d
 MaxIO = %d
 MaxSyn = %d
 HelperShapes = %s
 StagesC = %s
 OpKinds = %s
 CtlKinds = %s
 IOKinds = %s
 IOLocs = %s
 IOTypes = %s
 IOInterps = %s
 SynForms = %s
 Orders = %s
INVARIANTS WellTyped Emit
CHECK_DEADLOCK FALSE
`, tlaSet(a.kinds), tlaInts(a.groups), tlaInts(a.bindings), tlaInts(a.formats), a.maxRes, a.maxHelpers, a.maxEntries, a.maxOps, a.maxIO, a.maxSyn,
		tlaSet(a.shapes), tlaSet(a.stages), tlaSet(a.ops), tlaSet(a.ctl), tlaSet(a.io), tlaInts(a.locs), tlaSet(a.types), tlaSet(a.interps),
		tlaSet(a.syn), tlaSet(a.orders))
}

var (
	agAllKinds  = []string{"uniform", "storage_ro", "storage_rw", "atomic", "tex2d", "texdepth", "texstorage", "sampler", "sampler_cmp", "workgroup", "private"}
	agAllShapes = []string{"value_params", "ptr_function", "ptr_private", "ptr_compound_assign", "early_return", "switch_break_in_loop", "switch_break_noloop",
		"switch_continue_in_loop", "switch_nested_break_after", "switch_nested_break_direct", "switch_in_continuing", "switch_in_continuing_nested_break", "shadow_let", "shadow_var", "shadow_param", "shadow_global", "shadow_builtin_fn", "user_fn_named_builtin",
		"fwd_fn", "fwd_const", "fwd_struct", "fwd_alias", "alias_chain", "const_composite_index_member", "const_matrix_elem",
		"shadow_fwd_let_const", "shadow_fwd_const_const", "shadow_fwd_var_private", "shadow_fwd_let_override", "shadow_fwd_block", "shadow_fwd_loop",
		"shadow_fwd_for_init", "shadow_block_leak", "uses_res"}
	agAllOps = []string{"read", "write", "atomic", "array_length", "sample", "sample_level", "sample_cmp", "sample_cmp_level", "tex_load",
		"tex_dims", "tex_store", "barrier", "derivative", "derivative_ctl", "discard", "call"}
	agAllCtl    = []string{"top", "if_uniform", "if_nonuniform", "loop", "switch", "switch_nested"}
	agAllStages = []string{"vertex", "fragment", "compute"}
	agAllSyn    = []string{"tc_struct", "tc_params", "tc_args", "tc_tmpl_vec", "tc_tmpl_array", "tc_tmpl_var", "tc_tmpl_ptr", "tc_tmpl_tex",
		"tc_tmpl_atomic", "tc_tmpl_mat", "tc_bitcast", "tc_attr_binding", "tc_attr_wg", "tc_attr_loc", "tc_attr_builtin", "tc_attr_interp",
		"tc_attr_align", "tc_case", "tc_ctor",
		"lit_suffix_i", "lit_suffix_u", "lit_suffix_f", "lit_suffix_f_int", "lit_hex", "lit_exp", "lit_exp_sign", "lit_trailing_dot",
		"lit_leading_dot", "lit_dot_exp", "lit_dot_suffix", "lit_hexfloat", "lit_hexfloat_frac",
		"cattr_binding", "cattr_group", "cattr_wgsize", "cattr_location", "cattr_align", "cattr_size", "attr_lit_u", "attr_lit_hex"}
	agAllTypes   = []string{"f32", "vec2f", "vec3f", "vec4f", "i32", "u32", "vec2i", "vec4u"}
	agAllInterps = []string{"", "flat", "linear", "perspective", "linear_centroid", "perspective_sample", "perspective_center", "linear_sample"}
)

func agConfigs(c *core.Ctx) []agCfg {
	q := c.Quick()
	tiny := os.Getenv("C08_TINY") != "" // development: the smallest sample that exercises every part
	pick := func(a, b int) int {
		if tiny {
			return min(a, 1)
		}
		if q {
			return a
		}
		return b
	}
	one := []string{"decl_first"}
	top := []string{"top"}
	f32 := []string{"f32"}
	none := []string{""}
	cfgs := []agCfg{
		// the resource interface: every way two entry points use resources that share / reuse (group, binding) pairs
		{name: "bindings (exhaustive)", kinds: pick2(q, []string{"uniform", "storage_rw"}, []string{"uniform", "storage_rw", "tex2d", "sampler"}),
			groups: []int{0}, bindings: []int{0, 1}, maxRes: 2, maxEntries: 2, maxOps: pick(1, 2),
			stages: pick2(q, []string{"fragment", "compute"}, agAllStages), ops: pick2(q, []string{"read", "write"}, []string{"read", "write", "sample", "tex_load"}),
			ctl: top, locs: []int{0}, types: f32, interps: none, orders: one},
		// every helper shape called from an entry point, both declaration orders (thorough: pairs of shapes, two stages)
		{name: "helpers (exhaustive)", kinds: []string{"storage_rw"}, groups: []int{0}, bindings: []int{0},
			maxRes: 1, maxHelpers: pick(1, 2), maxEntries: 1, maxOps: pick(1, 2), shapes: agAllShapes,
			stages: pick2(q, []string{"compute"}, []string{"compute", "fragment"}), ops: pick2(q, []string{"call"}, []string{"call", "write"}),
			ctl: top, locs: []int{0}, types: f32, interps: none, orders: []string{"decl_first", "use_first"}},
		// the one shape that makes the unpatched lowerer die (stack overflow): kept apart so that few programs pay for a worker restart
		{name: "crash shapes (exhaustive)", kinds: []string{}, groups: []int{0}, bindings: []int{0}, maxHelpers: 1, maxEntries: 1, maxOps: 1,
			shapes: []string{"shadow_fwd_const_abstract"}, stages: []string{"compute"}, ops: []string{"call"}, ctl: top, locs: []int{0}, types: f32,
			interps: none, orders: []string{"decl_first", "use_first"}},
		// the stage interface: built-ins and locations per stage and direction, forms, interpolation
		{name: "interface (exhaustive)", kinds: []string{}, groups: []int{0}, bindings: []int{0}, maxEntries: 1, maxIO: pick(2, 3),
			stages: agAllStages, io: []string{"builtin", "loc"}, locs: pick2(q, []int{0}, []int{0, 1}), types: pick2(q, []string{"f32", "u32"}, []string{"f32", "vec4f", "u32"}),
			interps: pick2(q, []string{"", "flat", "perspective_sample"}, []string{"", "flat", "linear_centroid", "perspective_sample"}), orders: one, ops: []string{}, ctl: top},
		// every operation in every control-flow context on every resource kind, one entry point
		{name: "operations (exhaustive)", formats: []int{0, 1, 2, 3, 4, 5, 6, 7, 8, 9}, kinds: agAllKinds, groups: pick2(q, []int{0}, []int{0, 1}), bindings: []int{0}, maxRes: pick(1, 2), maxEntries: 1, maxOps: 1,
			stages: agAllStages, ops: agAllOps, ctl: agAllCtl, locs: []int{0}, types: f32, interps: none, orders: one},
		// sampling: texture / sampler pairs
		{name: "sampling (exhaustive)", kinds: []string{"tex2d", "texdepth", "sampler", "sampler_cmp"}, groups: []int{0}, bindings: pick2(q, []int{0}, []int{0, 1}), maxRes: 2, maxEntries: 1,
			maxOps: pick(1, 2), stages: agAllStages, ops: []string{"sample", "sample_level", "sample_cmp", "sample_cmp_level", "tex_load", "tex_dims"},
			ctl: pick2(q, []string{"top", "if_nonuniform"}, []string{"top", "if_nonuniform", "loop"}), locs: []int{0}, types: f32, interps: none, orders: one},
		// every syntax variation on its own, on every small module that has a site for it
		{name: "syntax (exhaustive)", kinds: []string{"atomic"}, groups: []int{1}, bindings: []int{2}, maxRes: 1, maxEntries: 1, maxIO: 1, maxSyn: 1,
			stages: agAllStages, ops: []string{}, ctl: top, io: []string{"loc"}, locs: []int{1}, types: f32, interps: []string{"linear"},
			syn: agAllSyn, orders: one},
		{name: "syntax tex (exhaustive)", formats: []int{3}, kinds: []string{"tex2d", "texstorage"}, groups: []int{0}, bindings: []int{1}, maxRes: 1, maxEntries: 1, maxSyn: 1,
			stages: []string{"fragment"}, ops: []string{}, ctl: top, locs: []int{0}, types: f32, interps: none,
			syn: []string{"tc_tmpl_tex", "tc_attr_binding", "cattr_binding", "attr_lit_hex"}, orders: one},
		// syntax variations in pairs on larger modules
		{name: "syntax (simulation)", formats: []int{0, 2, 5}, kinds: []string{"uniform", "storage_rw", "atomic", "tex2d", "texstorage", "sampler"}, groups: []int{0, 1}, bindings: []int{0, 1, 2},
			maxRes: 4, maxHelpers: 1, maxEntries: 2, maxOps: 2, maxIO: 2, maxSyn: 2, shapes: []string{"ptr_function", "value_params"},
			stages: agAllStages, ops: []string{"read", "write", "atomic", "tex_load", "tex_store", "call"}, ctl: []string{"top", "switch"},
			io: []string{"builtin", "loc"}, locs: []int{0, 1}, types: []string{"f32", "vec4f", "u32"}, interps: []string{"", "flat", "linear"},
			syn: agAllSyn, orders: one, sim: pick(30, 600), depth: 13},
		// everything together
		{name: "everything (simulation)", formats: []int{0, 1, 2, 3, 4, 5, 6, 7, 8, 9}, kinds: agAllKinds, groups: []int{0, 1, 2}, bindings: []int{0, 1, 2, 3}, maxRes: 6, maxHelpers: 3, maxEntries: 4,
			maxOps: 5, maxIO: 4, maxSyn: 2, shapes: agAllShapes, stages: agAllStages, ops: agAllOps, ctl: agAllCtl, io: []string{"builtin", "loc"},
			locs: []int{0, 1, 2}, types: agAllTypes, interps: agAllInterps, syn: agAllSyn, orders: []string{"decl_first", "use_first"},
			sim: pick(24, 900), depth: 26},
	}
	if tiny {
		for i := range cfgs {
			if cfgs[i].sim > 0 {
				cfgs[i].sim = 6
			}
		}
		cfgs = []agCfg{cfgs[1], cfgs[2], cfgs[4], cfgs[6], cfgs[7], cfgs[8], cfgs[9]}
	}
	return cfgs
}

func pick2[T any](q bool, a, b T) T {
	if q {
		return a
	}
	return b
}

// ---------------------------------------------------------------- the check

// c08Verdict is what NagaTrace.tla prints after the last line.
type c08Verdict struct {
	Consumed int `json:"consumed"`
	Bad      []struct {
		L    int    `json:"l"`
		ID   int    `json:"id"`
		Rule string `json:"rule"`
	} `json:"bad"`
	Stats struct {
		Obl   int `json:"obl"`
		Free  int `json:"free"`
		Progs int `json:"progs"`
	} `json:"stats"`
}

var reNum = regexp.MustCompile(`\d+`)

// normErr turns an error text into a class (numbers and quoted names removed).
func normErr(s string) string {
	s = reNum.ReplaceAllString(s, "N")
	s = regexp.MustCompile(`"[^"]*"|'[^']*'`).ReplaceAllString(s, "Q")
	if len(s) > 160 {
		s = s[:160]
	}
	return s
}

func runC08(tier, replay string) int {
	c := core.NewCtx("C08", tier, "model_checking")
	c.Cov["rule"] = "Naga.tla states the pipeline protocol (Tokenize, Parse, Lower, Validate, OneCall, Backend(b, option set, entry point) with outcomes ok|err) and the property: every action claimed for a WellTyped program is ok under every option set Expressible for the features used; it is model-checked at design level with seeded faults. AcceptGen.tla is a module-builder state machine (resources, helper shapes, entry points with stage interface and body operations in control-flow contexts, syntax variations, declaration order) whose invariants are the WGSL validity conditions; TLC enumerates it (exhaustive configurations at small bounds + seeded simulation), every printed description is rendered as WGSL and replayed through the real API together with the semantic families, the control-flow skeletons and the corpus shaders that have Rust-naga reference output; each API call is one trace event, validated by TLC against NagaTrace.tla (per-program verdicts). A case = one program; non-trivial if lowering succeeded and at least one backend call was judged; distinct by source text."
	c.Assumef("a module description satisfying the invariants of spec/AcceptGen.tla, rendered by harness/checks/c08render.go, is a valid WGSL program")
	c.Assumef("Expressible (spec/Naga.tla) under-approximates what an option set can express; calls outside it are recorded but not judged")
	c.Assumef("a corpus shader is claimed valid for a backend only if snapshot/testdata/reference/<backend>/ holds Rust-naga output for it")
	rng := rand.New(rand.NewSource(c.Seed))
	phases := map[string]float64{}
	c.Cov["phase_seconds"] = phases
	t0 := time.Now()
	lap := func(name string) {
		phases[name] = time.Since(t0).Seconds()
		t0 = time.Now()
	}

	// ---- design level: the protocol and the property, then every seeded fault -----------------------------------
	designCfg := func(faults string) string {
		return fmt.Sprintf("SPECIFICATION Spec\nCONSTANTS Faults = %s\n MaxBackendCalls = 2\nINVARIANTS TypeOK Ordered Accepted Composed\nCHECK_DEADLOCK FALSE\n", faults)
	}
	faults := []string{"validator_rejects_switch_break", "validator_bindings_module_wide", "lowerer_rejects_shadowing",
		"glsl_rejects_storage_texture", "backend_rejects_second_entry", "onecall_fails"}
	designOK := true
	var dmu sync.Mutex
	stub := map[string][]byte{"trace.ndjson": []byte("{\"ev\":\"none\"}\n")}
	core.ParMap(len(faults)+1, min(4, core.Cores()), func(i int) {
		if i == 0 {
			r, err := c.RunTLC(core.TLCOpts{Spec: "Naga", CfgText: designCfg("{}"), Files: stub, Workers: 1, Timeout: 20 * time.Minute, Coverage: !c.Quick()})
			if err != nil || !r.OK {
				c.BrokenF("Naga.tla design check failed: %v %s %s\n%s", err, r.Violated, r.Err, r.Tail(20))
				dmu.Lock()
				designOK = false
				dmu.Unlock()
				return
			}
			c.AddTLC(r)
			return
		}
		f := faults[i-1]
		r, err := c.RunTLC(core.TLCOpts{Spec: "Naga", CfgText: designCfg(fmt.Sprintf("{%q}", f)), Files: stub, Workers: 1, Timeout: 10 * time.Minute})
		if err != nil || !(strings.Contains(r.Violated, "Accepted") || strings.Contains(r.Violated, "Composed")) {
			c.BrokenF("Naga.tla self-test: seeded fault %s not reported (vacuous property?): %v %s\n%s", f, err, r.Err, r.Tail(15))
			dmu.Lock()
			designOK = false
			dmu.Unlock()
		}
	})
	if !designOK {
		return c.Finish()
	}
	c.Cov["selftest_faults_detected"] = len(faults)
	lap("design_level_tlc")

	// ---- programs ------------------------------------------------------------------------------------------------
	var progs []*acProg
	allClaims := []string{"front", "validate", "spv", "hlsl", "msl", "glsl"}

	// (a) the Accept family: AcceptGen.tla
	cfgs := agConfigs(c)
	type genOut struct {
		lines []string
		sim   bool
	}
	outs := make([]genOut, 0)
	var gmu sync.Mutex
	type job struct {
		cfg  agCfg
		seed int64
	}
	var jobs []job
	for _, a := range cfgs {
		if a.sim == 0 {
			jobs = append(jobs, job{a, 0})
			continue
		}
		// simulations are split over processes with different seeds
		parts := min(c.Pick(2, 8), max(core.Cores(), 1), max(a.sim/3, 1))
		for k := 0; k < parts; k++ {
			b := a
			b.sim = a.sim / parts
			jobs = append(jobs, job{b, c.Seed*1000 + int64(k) + 1})
		}
	}
	genBad := false
	var runInfo []string
	core.ParMap(len(jobs), min(c.Pick(6, 12), core.Cores()), func(i int) {
		j := jobs[i]
		o := core.TLCOpts{Spec: "AcceptGen", CfgText: j.cfg.text(), Workers: 1, Timeout: 40 * time.Minute, HeapGB: 3, Files: stub}
		if j.cfg.sim > 0 {
			o.Simulate = fmt.Sprintf("num=%d", j.cfg.sim)
			o.Depth = j.cfg.depth
			o.Seed = j.seed
			o.Workers = 1
		}
		r, err := c.RunTLC(o)
		gmu.Lock()
		defer gmu.Unlock()
		if err != nil || !r.OK {
			genBad = true
			if r != nil && r.Violated != "" {
				c.BrokenF("AcceptGen.tla (%s): TLC reports %s: the builder reaches a module description that breaks a validity condition (specification error)\n%s", j.cfg.name, r.Violated, r.Tail(30))
			} else if r != nil {
				c.BrokenF("AcceptGen.tla (%s): TLC failed: %s\n%s", j.cfg.name, r.Err, r.Tail(30))
			} else {
				c.BrokenF("AcceptGen.tla (%s): %v", j.cfg.name, err)
			}
			return
		}
		c.AddTLC(r)
		outs = append(outs, genOut{r.Printed, j.cfg.sim > 0})
		runInfo = append(runInfo, fmt.Sprintf("%s: %d states, %d descriptions printed, %.0fs", j.cfg.name, r.Distinct, len(r.Printed), r.Wall.Seconds()))
	})
	if genBad {
		return c.Finish()
	}
	lap("acceptgen_tlc")
	sort.Strings(runInfo)
	c.Cov["tlc_runs"] = runInfo
	seenLine := map[string]bool{}
	var descs, simDescs []*agModule
	for pass := 0; pass < 2; pass++ { // exhaustive configurations first: a description they contain is not counted as simulated
		for _, o := range outs {
			if o.sim != (pass == 1) {
				continue
			}
			for _, l := range o.lines {
				if seenLine[l] {
					continue
				}
				seenLine[l] = true
				var d agModule
				if err := json.Unmarshal([]byte(l), &d); err != nil {
					c.BrokenF("cannot parse AcceptGen line: %v: %.200s", err, l)
					return c.Finish()
				}
				if !d.Wt {
					c.BrokenF("AcceptGen printed a description that is not WellTyped: %.300s", l)
					return c.Finish()
				}
				if o.sim {
					simDescs = append(simDescs, &d)
				} else {
					descs = append(descs, &d)
				}
			}
		}
	}
	byJSON := func(ds []*agModule) {
		sort.Slice(ds, func(i, j int) bool {
			a, _ := json.Marshal(ds[i])
			b, _ := json.Marshal(ds[j])
			return bytes.Compare(a, b) < 0
		})
	}
	byJSON(descs)
	byJSON(simDescs)
	c.Cov["accept_descriptions_exhaustive"] = len(descs)
	c.Cov["accept_descriptions_simulated"] = len(simDescs)
	// every description of the exhaustive configurations is replayed; the simulated ones fill the tier's budget (seeded sample)
	capN := c.Pick(2900, 100000)
	c.Cov["exhaustive"] = true
	if room := capN - len(descs); len(simDescs) > room {
		rng.Shuffle(len(simDescs), func(i, j int) { simDescs[i], simDescs[j] = simDescs[j], simDescs[i] })
		simDescs = simDescs[:max(room, 0)]
	}
	if len(descs) > capN {
		rng.Shuffle(len(descs), func(i, j int) { descs[i], descs[j] = descs[j], descs[i] })
		descs = descs[:capN]
		c.Cov["exhaustive"] = false
	}
	descs = append(descs, simDescs...)
	seenSrc := map[string]bool{}
	for _, d := range descs {
		src, pcs := renderAcceptPC(d)
		if seenSrc[src] {
			continue
		}
		seenSrc[src] = true
		progs = append(progs, &acProg{Family: "accept", Name: "accept", Src: src, Claim: allClaims, Spec: d, Constr: d.constructs(), Consts: pcs})
	}
	c.Cov["accept_programs"] = len(progs)

	// (b) semantic families and control-flow skeletons (programs of C01/C03-C05)
	tiny := os.Getenv("C08_TINY") != ""
	sem := semanticFamilies(c)
	if tiny && len(sem) > 25 {
		sem = sem[:25]
	}
	for _, cs := range sem {
		if cs.Family == "mat" && strings.HasPrefix(cs.Desc, "neg ") {
			// unary minus on a matrix: not in WGSL's table of arithmetic expressions (negation is defined for scalars and
			// vectors), accepted by naga as an extension - outside the property's "valid under the specification"
			c.Skip("semantic-family program outside WGSL (matrix negation)")
			continue
		}
		progs = append(progs, &acProg{Family: "sem", Name: cs.Family + ": " + cs.Desc, Src: wg.Print(cs.Prog), Claim: allClaims})
	}
	var ctl []*SemCase
	var err error
	if tiny {
	} else if c.Quick() {
		ctl, err = ctlCases(c, 3, 16, []int{int(c.Seed) % 16})
	} else {
		all := make([]int, 16)
		for i := range all {
			all[i] = i
		}
		ctl, err = ctlCases(c, 3, 16, all)
	}
	if err != nil {
		c.BrokenF("control-flow family: %v", err)
		return c.Finish()
	}
	for _, cs := range ctl {
		progs = append(progs, &acProg{Family: "ctl", Name: cs.Desc, Src: wg.Print(cs.Prog), Claim: allClaims})
	}

	// (c) corpus shaders with reference evidence
	names, texts := corpusSources()
	if len(texts) < 50 {
		c.BrokenF("corpus not found under %s", core.RepoDir)
		return c.Finish()
	}
	ncorpus := 0
	for i, n := range names {
		if tiny && i%12 != 0 && n != "control-flow.wgsl" && n != "shadow.wgsl" && n != "overrides.wgsl" {
			continue
		}
		claim := corpusEvidence(n)
		if len(claim) == 0 {
			c.Skip("corpus shader without Rust-naga reference output")
			continue
		}
		ref := corpusRefOpts(n)
		progs = append(progs, &acProg{Family: "corpus", Name: n, Src: texts[i], Claim: claim, Ref: ref, Consts: ref.Constants})
		ncorpus++
	}
	c.Cov["corpus_programs"] = ncorpus
	for i, p := range progs {
		p.ID = i + 1
	}
	c.Programs = len(progs)

	lap("families_corpus")
	// ---- replay into the real naga ----------------------------------------------------------------------------------
	// (in worker processes: a fatal error inside naga kills a worker, not the check; the call it died in is recorded as a
	// rejection "process crash" of that program and the worker is restarted behind it)
	if !c08ReplayInWorkers(c, progs) {
		return c.Finish()
	}

	lap("replay")
	// ---- trace validation ---------------------------------------------------------------------------------------------
	nev := 0
	for _, p := range progs {
		nev += len(p.Events)
	}
	nshards := max(core.Cores(), (nev+119999)/120000) // one TLC process per core, at most ~120k events per process
	type shard struct {
		buf   bytes.Buffer
		lines []struct{ prog, ev int } // line (1-based) -> (program index, event index)
	}
	shards := make([]*shard, nshards)
	for i := range shards {
		shards[i] = &shard{}
	}
	totalEvents := 0
	for pi, p := range progs {
		s := shards[pi%nshards]
		for ei, ev := range p.Events {
			b, _ := json.Marshal(ev)
			s.buf.Write(b)
			s.buf.WriteByte('\n')
			s.lines = append(s.lines, struct{ prog, ev int }{pi, ei})
			totalEvents++
		}
	}
	c.Cov["trace_events"] = totalEvents
	traceCfg := "SPECIFICATION TSpec\nCONSTANTS Faults = {}\n MaxBackendCalls = 0\nPOSTCONDITION Consumed\nCHECK_DEADLOCK FALSE\n"
	validate := func(tb []byte, nlines int) (*c08Verdict, error) {
		r, err := c.RunTLC(core.TLCOpts{Spec: "NagaTrace", CfgText: traceCfg, Files: map[string][]byte{"trace.ndjson": tb}, Workers: 1,
			Timeout: 25 * time.Minute, HeapGB: 5})
		if err != nil || !r.OK || len(r.Printed) == 0 {
			return nil, fmt.Errorf("trace validation failed to run: %v %s %s\n%s", err, r.Violated, r.Err, r.Tail(25))
		}
		c.AddTLC(r)
		var v c08Verdict
		if err := json.Unmarshal([]byte(r.Printed[len(r.Printed)-1]), &v); err != nil || v.Consumed != nlines {
			return nil, fmt.Errorf("trace not fully consumed: %d of %d (%v)", v.Consumed, nlines, err)
		}
		return &v, nil
	}
	verdicts := make([]*c08Verdict, nshards)
	var vmu sync.Mutex
	vbad := false
	core.ParMap(nshards, min(c.Pick(8, 12), core.Cores()), func(i int) {
		if len(shards[i].lines) == 0 {
			verdicts[i] = &c08Verdict{}
			return
		}
		v, err := validate(shards[i].buf.Bytes(), len(shards[i].lines))
		if err != nil {
			vmu.Lock()
			vbad = true
			vmu.Unlock()
			c.BrokenF("%v", err)
			return
		}
		verdicts[i] = v
	})
	if vbad {
		return c.Finish()
	}

	lap("trace_validation_tlc")
	// ---- self-test of the binding: one recorded outcome flipped to err must be rejected -------------------------------
	if !c08SelfTest(c, progs, validate) {
		return c.Finish()
	}

	lap("selftest_tlc")
	// ---- verdicts -------------------------------------------------------------------------------------------------------
	obl, free := 0, 0
	judged := map[int]bool{}
	for si, v := range verdicts {
		obl += v.Stats.Obl
		free += v.Stats.Free
		for _, bd := range v.Bad {
			if bd.L < 1 || bd.L > len(shards[si].lines) {
				// closing verdict of the last program of the shard (line = number of lines + 1)
				if strings.HasPrefix(bd.Rule, "harness:") {
					c.BrokenF("shard %d: %s (program id %d)", si, bd.Rule, bd.ID)
				}
				continue
			}
			ref := shards[si].lines[bd.L-1]
			if strings.HasPrefix(bd.Rule, "harness:") {
				c.BrokenF("shard %d line %d: %s (program %s id %d)", si, bd.L, bd.Rule, progs[ref.prog].Name, bd.ID)
				continue
			}
			p := progs[ref.prog]
			ev := p.Events[ref.ev]
			errs := p.Errs[ref.ev]
			if len(errs) == 0 {
				errs = []string{"(the call disagrees with the composition; no error text)"}
			}
			first := errs[0]
			texts := errs
			if ev.St == "validate" && len(errs) > 1 {
				texts = errs[1:] // one report per validation error: a new error is not hidden behind a known one
			}
			seenT := map[string]bool{}
			for _, t := range texts {
				if seenT[normErr(t)] {
					continue
				}
				seenT[normErr(t)] = true
				c.Disagree++
				stage := ev.St
				desc := map[string]string{"family": p.Family, "stage": stage, "backend": ev.B, "opt": ev.Opt, "entry_stage": "", "err": t,
					"errclass": normErr(t), "constructs": strings.Join(p.Constr, " "), "name": p.Name, "rule": strings.SplitN(bd.Rule, ":", 2)[0],
					"feats": strings.Join(p.Feats, " "), "dup_declared": map[bool]string{true: "yes", false: "no"}[p.Dup]}
				for _, e := range p.Eps {
					if e.N == ev.Ep {
						desc["entry_stage"] = e.St
					}
				}
				desc["sig"] = fmt.Sprintf("%s/%s/%s: %s", p.Family, stage, ev.B, normErr(t))
				what := fmt.Sprintf("%s [%s %s %s/%s entry %s] on %s program %q: %s", bd.Rule, stage, ev.B, ev.Opt, desc["entry_stage"], ev.Ep, p.Family, p.Name, t)
				_ = first
				c.Report(what, desc, map[string]any{"wgsl": p.Src, "event": ev, "errors": errs, "constructs": p.Constr, "claim": p.Claim})
			}
		}
	}
	for _, p := range progs {
		nb := 0
		for _, ev := range p.Events {
			if ev.St == "backend" {
				nb++
			}
		}
		c.Eval(p.Src, nb > 0)
		if nb > 0 {
			judged[p.ID] = true
		}
		if p.ID%997 == 1 {
			c.Sample(map[string]any{"family": p.Family, "name": p.Name, "wgsl": p.Src, "features": p.Feats, "calls": len(p.Events) - 1})
		}
	}
	c.Traces = len(progs)
	c.Cov["calls_judged_by_the_property"] = obl
	c.Cov["calls_outside_expressible_or_claim"] = free
	if obl == 0 || (obl+free > 0 && obl*3 < (obl + free)) {
		c.BrokenF("only %d of %d recorded calls were covered by the property (Expressible / claims too narrow?)", obl, obl+free)
	}
	if replay != "" {
		_ = os.Stdout
	}
	return c.Finish()
}

// c08SelfTest corrupts recorded traces (an ok outcome of a claimed call flipped to err at three different actions, one
// required call dropped) and requires NagaTrace to reject exactly the corrupted programs, with the expected rule, and to
// accept the untouched copy.
func c08SelfTest(c *core.Ctx, progs []*acProg, validate func([]byte, int) (*c08Verdict, error)) bool {
	var clean []*acProg
	for _, p := range progs {
		if p.Family != "accept" || len(p.Errs) > 0 || len(p.Events) < 12 {
			continue
		}
		clean = append(clean, p)
		if len(clean) == 5 {
			break
		}
	}
	if len(clean) < 5 {
		c.BrokenF("self-test: fewer than 5 accepted programs of the Accept family to corrupt (%d)", len(clean))
		return false
	}
	var buf bytes.Buffer
	n := 0
	want := map[int]string{}
	for k, p := range clean {
		evs := append([]acEvent{}, p.Events...)
		id := 900000 + k
		evs[0].ID = id
		find := func(pred func(acEvent) bool) int {
			for i, e := range evs {
				if pred(e) {
					return i
				}
			}
			return -1
		}
		switch k {
		case 0:
			i := find(func(e acEvent) bool { return e.St == "validate" })
			evs[i].Out = "err"
			want[id] = "Accepted: validate"
		case 1:
			i := find(func(e acEvent) bool { return e.St == "backend" && e.B == "spv" && e.Opt == "default" })
			evs[i].Out = "err"
			want[id] = "Accepted: backend spv"
		case 2:
			i := find(func(e acEvent) bool { return e.St == "onecall" })
			evs[i].Out = "err"
			want[id] = "Accepted: the one-call API"
		case 3:
			i := find(func(e acEvent) bool { return e.St == "backend" && e.B == "msl" && e.Opt == "default" && e.Ep == "*" })
			evs = append(evs[:i], evs[i+1:]...)
			want[id] = "harness: an expressible"
		case 4:
			want[id] = ""
		}
		for _, e := range evs {
			b, _ := json.Marshal(e)
			buf.Write(b)
			buf.WriteByte('\n')
			n++
		}
	}
	v, err := validate(buf.Bytes(), n)
	if err != nil {
		c.BrokenF("self-test: %v", err)
		return false
	}
	got := map[int][]string{}
	for _, b := range v.Bad {
		got[b.ID] = append(got[b.ID], b.Rule)
	}
	for id, w := range want {
		rules := got[id]
		if w == "" {
			if len(rules) != 0 {
				c.BrokenF("self-test: the untouched trace was rejected: %v", rules)
				return false
			}
			continue
		}
		found := false
		for _, r := range rules {
			if strings.HasPrefix(r, w) {
				found = true
			}
		}
		if !found {
			c.BrokenF("self-test: corrupted trace (%s expected) not rejected by NagaTrace: got %v", w, rules)
			return false
		}
	}
	c.Cov["selftest_corrupted_traces_rejected"] = len(want) - 1
	return true
}
