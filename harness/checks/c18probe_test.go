package checks

import (
	"fmt"
	"os"
	"strings"
	"testing"

	"github.com/gogpu/naga/dxil"

	"verif/harness/drive"
	"verif/harness/dxbc"
)

// Development aid: C18_SRC=<wgsl file> [C18_EP=<index>] [C18_SM=<minor>] [C18_OUT=<file>] go test -run TestC18Probe
// compiles the file with dxil.Compile and writes the decoder's event summary.
func TestC18Probe(t *testing.T) {
	f := os.Getenv("C18_SRC")
	if f == "" {
		t.Skip()
	}
	b, _ := os.ReadFile(f)
	m, stage, err := drive.Front(string(b))
	t.Logf("front: %s %v", stage, err)
	if err != nil {
		return
	}
	ep := 0
	fmt.Sscan(os.Getenv("C18_EP"), &ep)
	minor := 0
	fmt.Sscan(os.Getenv("C18_SM"), &minor)
	bin, err, _ := c18Compile(c18Single(m, ep), dxil.Options{ShaderModel: dxil.ShaderModel{Major: 6, Minor: uint32(minor)}})
	t.Logf("dxil: %v (%d bytes)", err, len(bin))
	if err == nil {
		if o := os.Getenv("C18_OUT"); o != "" {
			os.WriteFile(o, []byte(dxbc.Summary(bin)), 0o644)
			os.WriteFile(o+".bin", bin, 0o644)
		}
	}
}

// Development aid: C18_SCAN=<n> lists, per generated program, the decoder facts that the typed / operand-count rules
// would trip over (no TLC; for triage only).
func TestC18Scan(t *testing.T) {
	n := 0
	fmt.Sscan(os.Getenv("C18_SCAN"), &n)
	if n == 0 {
		t.Skip()
	}
	classes := map[string][]string{}
	for _, f := range strings.Split(os.Getenv("C18_GEN_OFF"), ",") {
		if f != "" {
			c18GenOff[f] = true
		}
	}
	nfail := map[string]bool{}
	defer func() { t.Logf("programs with anomalies: %d of %d", len(nfail), n) }()
	for i := 0; i < n; i++ {
		p := c18Generate(1, i, c18GenOff)
		m, _, err := drive.Front(p.Src)
		if err != nil {
			continue
		}
		bin, err, _ := c18Compile(m, dxil.Options{ShaderModel: dxil.SM6_0})
		if err != nil {
			continue
		}
		seen := map[string]bool{}
		for _, e := range dxbc.Events(bin) {
			k := ""
			switch e["ev"] {
			case "error":
				k = fmt.Sprintf("error %v %s", e["layer"], c18Digits.ReplaceAllString(fmt.Sprint(e["msg"]), "#"))
			case "ir_inst":
				if f := c18Typed(e); len(f) > 0 {
					k = fmt.Sprintf("%v %v", e["op"], f)
				}
				if e["short"] == true || e["extra_ops"] != 0 {
					k += fmt.Sprintf(" %v short=%v extra=%v callee=%v", e["op"], e["short"], e["extra_ops"], e["callee_name"])
				}
				if e["fwd_type_conflict"] == true {
					k += fmt.Sprintf(" %v fwd_type_conflict", e["op"])
				}
			}
			if k != "" && !seen[k] {
				seen[k] = true
				nfail[p.Name] = true
				classes[k] = append(classes[k], p.Name)
			}
		}
	}
	for k, v := range classes {
		if len(v) > 8 {
			v = append(v[:8], fmt.Sprintf("... %d", len(v)))
		}
		t.Logf("%s\n      %v", k, v)
	}
}

// Development aid: C18_GEN_ONE=<idx> [C18_GEN_OFF=..] writes generated program idx to C18_OUT.
func TestC18GenOne(t *testing.T) {
	s := os.Getenv("C18_GEN_ONE")
	if s == "" {
		t.Skip()
	}
	for _, f := range strings.Split(os.Getenv("C18_GEN_OFF"), ",") {
		if f != "" {
			c18GenOff[f] = true
		}
	}
	i := 0
	fmt.Sscan(s, &i)
	os.WriteFile(os.Getenv("C18_OUT"), []byte(c18Generate(1, i, c18GenOff).Src), 0o644)
}

// Development aid: C18_BIG="<nstmt> <looped 0|1> <stage>" writes the big program to C18_OUT.
func TestC18GenBig(t *testing.T) {
	spec := os.Getenv("C18_BIG")
	if spec == "" {
		t.Skip()
	}
	n, l := 0, 0
	st := "compute"
	fmt.Sscan(spec, &n, &l, &st)
	os.WriteFile(os.Getenv("C18_OUT"), []byte(c18GenerateBig(1, 0, n, l == 1, st).Src), 0o644)
}
