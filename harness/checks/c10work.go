package checks

// C10 worker and supervisor.
//
// The worker (`verif check C10-worker --replay <job.json>`, a re-execution of the harness binary) runs a batch of
// inputs through the public entry points of naga under an address-space limit, with recover() around every stage,
// and reports on stdout, line by line:   B <id> <key>   before a stage,   E <json>   after it,   D <id>   when the
// input is finished.  The supervisor reads the stream, watches the worker's CPU time and resident set in /proc and
// kills it when a stage exceeds the kill limits; since it knows which (input, stage) was in flight when the worker
// died, the culprit is identified without bisection; the rest of the batch continues in a fresh worker and the
// culprit is re-run alone.

import (
	"bufio"
	"bytes"
	"encoding/json"
	"fmt"
	"math"
	"os"
	"os/exec"
	"path/filepath"
	"regexp"
	"runtime"
	"runtime/debug"
	"sort"
	"strconv"
	"strings"
	"sync"
	"syscall"
	"time"

	"github.com/gogpu/naga"
	"github.com/gogpu/naga/dxil"
	"github.com/gogpu/naga/glsl"
	"github.com/gogpu/naga/hlsl"
	"github.com/gogpu/naga/ir"
	"github.com/gogpu/naga/msl"
	"github.com/gogpu/naga/spirv"
	"github.com/gogpu/naga/wgsl"

	"verif/harness/drive"
)

func init() {
	Registry["C10-worker"] = func(tier, replay string) int { return c10Worker(replay) }
}

// c10Job is the job file of one worker.
type c10Job struct {
	ASMiB  int           `json:"as_mib"` // RLIMIT_AS
	Inputs []c10JobInput `json:"inputs"`
}

type c10JobInput struct {
	ID   int                 `json:"id"`
	Src  []byte              `json:"src"`  // base64 in JSON
	Opts map[string][]string `json:"opts"` // backend -> option-set names
	Skip []string            `json:"skip"` // stage keys not to run (they killed an earlier worker)
}

// c10Event is one recorded stage call.
type c10Event struct {
	ID    int    `json:"id"`
	Stage string `json:"stage"` // tokenize parse lower validate spv hlsl msl glsl dxil compile
	Key   string `json:"key"`   // stage[:opt[:entry]]
	Out   string `json:"out"`   // ok err panic fatal timeout oom
	CPU   int    `json:"cpu"`   // ms, user+sys of the worker process
	RSS   int    `json:"rss"`   // MiB, peak resident set during the stage
	OutB  int    `json:"outb"`  // output bytes
	Alloc int    `json:"alloc"` // MiB allocated on the Go heap during the call (runtime.MemStats.TotalAlloc delta)
	Msg   string `json:"msg,omitempty"`
	Where string `json:"where,omitempty"` // first naga frame below the panic
	File  string `json:"file,omitempty"`
	Hot   string `json:"hot,omitempty"` // the naga function that occurs most often in the dead worker's stack (the recursion / loop that was running)
}

func c10CPUms() int {
	var ru syscall.Rusage
	if syscall.Getrusage(syscall.RUSAGE_SELF, &ru) != nil {
		return 0
	}
	return int(ru.Utime.Sec*1000+ru.Utime.Usec/1000) + int(ru.Stime.Sec*1000+ru.Stime.Usec/1000)
}

// c10CalibRefMs is the process CPU time of c10Calib on the machine on which the envelope of spec/HostileProto.tla was
// calibrated (measured with 16 workers running side by side, as in the batch phase).
const c10CalibRefMs = 400

// c10Calib runs a fixed workload of the kind the compiler stages consist of (many small allocations, a large join,
// formatted writes into a growing buffer: allocation, page faults and copying) and returns the process CPU time it took.
// The supervisor divides by c10CalibRefMs to express the CPU times of this worker in reference-machine milliseconds: a
// machine (or a moment) on which the same work costs k times the CPU gets k times the CPU limit, never less than the
// envelope itself.  It cannot make the check stricter.
func c10Calib() int {
	t0 := c10CPUms()
	var sink int
	for rep := 0; rep < 1; rep++ {
		parts := make([]string, 150000)
		for i := range parts {
			parts[i] = strconv.Itoa(i & 1023)
		}
		j := strings.Join(parts, ", ")
		var sb strings.Builder
		for i := 0; i < 8; i++ {
			fmt.Fprintf(&sb, "%s = int[%d](%s);\n", "v", len(parts), j[:len(j)/8])
		}
		sink += sb.Len()
	}
	if sink == 0 {
		return 0
	}
	return c10CPUms() - t0
}

// c10ResetHWM resets the peak-RSS counter of this process (Linux: "5" to clear_refs).
func c10ResetHWM() bool {
	return os.WriteFile("/proc/self/clear_refs", []byte("5"), 0) == nil
}

func c10ProcKB(pid string, field string) int {
	b, err := os.ReadFile("/proc/" + pid + "/status")
	if err != nil {
		return 0
	}
	i := bytes.Index(b, []byte(field+":"))
	if i < 0 {
		return 0
	}
	f := strings.Fields(string(b[i+len(field)+1 : min(len(b), i+len(field)+40)]))
	if len(f) == 0 {
		return 0
	}
	v, _ := strconv.Atoi(f[0])
	return v
}

var reFrameArgs = regexp.MustCompile(`\([^()]*\)$`)

// c10Where finds the first naga frame below the panic in a stack dump.
func c10Where(stack string) (fn, file string) {
	lines := strings.Split(stack, "\n")
	start := 0
	for i, l := range lines {
		if strings.HasPrefix(l, "panic(") || strings.HasPrefix(l, "runtime.panic") || strings.HasPrefix(l, "runtime.goPanic") || strings.HasPrefix(l, "runtime.sigpanic") {
			start = i + 1
		}
	}
	for i := start; i < len(lines); i++ {
		l := lines[i]
		if strings.HasPrefix(l, "github.com/gogpu/naga") && !strings.HasPrefix(l, "\t") {
			fn = strings.TrimPrefix(reFrameArgs.ReplaceAllString(strings.TrimSpace(l), ""), "github.com/gogpu/naga/")
			fn = strings.TrimPrefix(fn, "github.com/gogpu/naga.")
			if i+1 < len(lines) {
				f := strings.TrimSpace(lines[i+1])
				if j := strings.Index(f, " +0x"); j >= 0 {
					f = f[:j]
				}
				for _, root := range []string{"/repo/", "/naga/"} {
					if j := strings.LastIndex(f, root); j >= 0 {
						f = f[j+len(root):]
					}
				}
				// scratch worktrees: keep the path below the module root
				for _, d := range []string{"/wgsl/", "/ir/", "/spirv/", "/hlsl/", "/msl/", "/glsl/", "/dxil/"} {
					if j := strings.Index(f, d); j >= 0 && strings.HasPrefix(f, "/") {
						f = f[j+1:]
					}
				}
				file = f
			}
			return
		}
	}
	return "", ""
}

func c10Worker(jobFile string) int {
	b, err := os.ReadFile(jobFile)
	if err != nil {
		fmt.Fprintln(os.Stderr, "c10 worker: no job:", err)
		return 2
	}
	var job c10Job
	if err := json.Unmarshal(b, &job); err != nil {
		fmt.Fprintln(os.Stderr, "c10 worker: bad job:", err)
		return 2
	}
	b = nil
	if job.ASMiB > 0 {
		lim := uint64(job.ASMiB) << 20
		_ = syscall.Setrlimit(syscall.RLIMIT_AS, &syscall.Rlimit{Cur: lim, Max: lim})
	}
	hwm := c10ResetHWM()
	w := bufio.NewWriterSize(os.Stdout, 1<<16)
	defer w.Flush()
	fmt.Fprintf(w, "H %v\n", hwm)
	fmt.Fprintf(w, "C %d\n", c10Calib())
	w.Flush()
	for i := range job.Inputs {
		c10RunInput(w, &job.Inputs[i], hwm)
		fmt.Fprintf(w, "D %d\n", job.Inputs[i].ID)
		w.Flush()
	}
	return 0
}

// c10Stage runs one stage call with recover() and cost measurement.
func c10Stage(w *bufio.Writer, id int, stage, key string, hwm bool, f func() (int, error)) (ok bool) {
	fmt.Fprintf(w, "B %d %s\n", id, key)
	w.Flush()
	if hwm {
		c10ResetHWM()
	}
	ev := c10Event{ID: id, Stage: stage, Key: key}
	var ms runtime.MemStats
	runtime.ReadMemStats(&ms)
	a0 := ms.TotalAlloc
	t0 := c10CPUms()
	func() {
		defer func() {
			if r := recover(); r != nil {
				ev.Out = "panic"
				ev.Msg = fmt.Sprint(r)
				if len(ev.Msg) > 300 {
					ev.Msg = ev.Msg[:300]
				}
				ev.Where, ev.File = c10Where(string(debug.Stack()))
			}
		}()
		n, err := f()
		ev.OutB = n
		if err != nil {
			ev.Out = "err"
			ev.Msg = err.Error()
			if len(ev.Msg) > 160 {
				ev.Msg = ev.Msg[:160]
			}
		} else {
			ev.Out = "ok"
		}
	}()
	ev.CPU = c10CPUms() - t0
	runtime.ReadMemStats(&ms)
	ev.Alloc = int((ms.TotalAlloc - a0) >> 20)
	if hwm {
		ev.RSS = c10ProcKB("self", "VmHWM") / 1024
	} else {
		ev.RSS = c10ProcKB("self", "VmRSS") / 1024
	}
	if ev.OutB > 1<<30 {
		ev.OutB = 1 << 30
	}
	jb, _ := json.Marshal(ev)
	w.WriteString("E ")
	w.Write(jb)
	w.WriteByte('\n')
	if ev.RSS > 192 {
		debug.FreeOSMemory()
	}
	return ev.Out == "ok"
}

const c10MaxGlslEntries = 4

func c10RunInput(w *bufio.Writer, in *c10JobInput, hwm bool) {
	src := string(in.Src)
	skip := map[string]bool{}
	for _, s := range in.Skip {
		skip[s] = true
	}
	frontSkipped := skip["tokenize"] || skip["parse"] || skip["lower"]
	var m *ir.Module
	if !frontSkipped {
		var toks *wgsl.Tokens
		var ast *wgsl.Module
		ok := c10Stage(w, in.ID, "tokenize", "tokenize", hwm, func() (int, error) {
			t, err := wgsl.NewLexer(src).Tokenize()
			toks = t
			return 0, err
		})
		if ok {
			ok = c10Stage(w, in.ID, "parse", "parse", hwm, func() (int, error) {
				a, err := wgsl.NewParser(toks).Parse()
				ast = a
				return 0, err
			})
		}
		toks = nil
		if ok {
			ok = c10Stage(w, in.ID, "lower", "lower", hwm, func() (int, error) {
				mm, err := naga.LowerWithSource(ast, src)
				m = mm
				return 0, err
			})
		}
		ast = nil
		if !ok {
			m = nil
		}
	}
	if m != nil {
		if !skip["validate"] {
			c10Stage(w, in.ID, "validate", "validate", hwm, func() (int, error) {
				errs, err := naga.Validate(m)
				if err != nil {
					return 0, err
				}
				if len(errs) > 0 {
					return 0, &errs[0]
				}
				return 0, nil
			})
		}
		for _, be := range []string{"spv", "hlsl", "msl", "glsl", "dxil"} {
			opts := in.Opts[be]
			if len(opts) == 0 {
				opts = drive.OptNames(be)[:1]
			}
			for _, opt := range opts {
				if be == "glsl" {
					var entries []string
					for i := range m.EntryPoints {
						if i < c10MaxGlslEntries-1 || i == len(m.EntryPoints)-1 {
							entries = append(entries, m.EntryPoints[i].Name)
						}
					}
					if len(entries) == 0 {
						entries = []string{""}
					}
					for _, e := range entries {
						key := "glsl:" + opt + ":" + e
						if len(key) > 80 {
							key = key[:80]
						}
						key = strings.Map(func(r rune) rune {
							if r <= ' ' || r > '~' {
								return '?'
							}
							return r
						}, key)
						if skip[key] {
							continue
						}
						e := e
						c10Stage(w, in.ID, "glsl", key, hwm, func() (int, error) {
							s, _, err := glsl.Compile(m, drive.GlslOptions(opt, e))
							return len(s), err
						})
					}
					continue
				}
				key := be + ":" + opt
				if skip[key] {
					continue
				}
				c10Stage(w, in.ID, be, key, hwm, func() (int, error) {
					switch be {
					case "spv":
						o, err := spirv.NewBackend(drive.SpvOptions(opt)).Compile(m)
						return len(o), err
					case "hlsl":
						s, _, err := hlsl.Compile(m, drive.HlslOptions(opt))
						return len(s), err
					case "msl":
						s, _, err := msl.Compile(m, drive.MslOptions(opt))
						return len(s), err
					default:
						o, err := dxil.Compile(m, drive.DxilOptions(opt))
						return len(o), err
					}
				})
			}
		}
	}
	m = nil
	if !skip["compile"] {
		c10Stage(w, in.ID, "compile", "compile", hwm, func() (int, error) {
			o, err := naga.Compile(src)
			return len(o), err
		})
	}
}

// ---------------------------------------------------------------- supervisor

// c10Limits are the kill limits of the supervisor's watchdog for one worker.
type c10Limits struct {
	CPUms   int // per stage (user+sys of the worker since the stage began)
	RSSMiB  int
	WallSec int // per stage, wall clock: only a protection against a sleeping worker (machinery, never a verdict)
	ASMiB   int
}

// c10Result is what the supervisor learned about one input.
type c10Result struct {
	Events   []c10Event
	Done     bool   // the worker finished the input
	Died     bool   // a stage killed the worker
	Machine  string // machinery problem (worker died outside a stage, stall ...): the input is not judged
	Stderr   string // tail of the dead worker's stderr
	HWM      bool
	Attempts int
}

type c10Super struct {
	self    string
	workDir string
	mu      sync.Mutex
	serial  int
	Workers int     // worker processes started
	MaxSlow float64 // largest calibration factor applied to a worker (1 = reference machine)
}

func newC10Super(workDir string) *c10Super {
	self, _ := os.Executable()
	return &c10Super{self: self, workDir: workDir}
}

var (
	reFatal = regexp.MustCompile(`(?m)^fatal error: (.*)$`)
	rePanic = regexp.MustCompile(`(?m)^panic: (.*)$`)
	reThrow = regexp.MustCompile(`(?m)^runtime: (goroutine stack exceeds.*|out of memory.*|cannot allocate.*)$`)
)

// c10Classify turns the stderr of a dead worker into (outcome, message).
func c10Classify(stderr string, killed string) (out, msg string) {
	if killed != "" {
		return killed, "killed by the supervisor: " + killed
	}
	if strings.Contains(stderr, "goroutine stack exceeds") || strings.Contains(stderr, "fatal error: stack overflow") {
		return "fatal", "stack overflow (goroutine stack exceeds the 1 GB limit)"
	}
	if m := reFatal.FindStringSubmatch(stderr); m != nil {
		if strings.Contains(m[1], "out of memory") || strings.Contains(m[1], "cannot allocate") {
			return "oom", m[1]
		}
		return "fatal", m[1]
	}
	if m := reThrow.FindStringSubmatch(stderr); m != nil {
		return "oom", m[1]
	}
	if m := rePanic.FindStringSubmatch(stderr); m != nil {
		return "panic", m[1]
	}
	return "", ""
}

// c10StackWhere finds the first naga frame in the stack dump of a fatal error.
func c10StackWhere(stderr string) (fn, file string) {
	lines := strings.Split(stderr, "\n")
	for i, l := range lines {
		if strings.HasPrefix(l, "github.com/gogpu/naga") {
			fn = strings.TrimPrefix(reFrameArgs.ReplaceAllString(strings.TrimSpace(l), ""), "github.com/gogpu/naga/")
			if i+1 < len(lines) {
				f := strings.TrimSpace(lines[i+1])
				if j := strings.Index(f, " +0x"); j >= 0 {
					f = f[:j]
				}
				if j := strings.LastIndex(f, "/repo/"); j >= 0 {
					f = f[j+6:]
				}
				file = f
			}
			return
		}
	}
	return "", ""
}

type c10Flight struct {
	mu       sync.Mutex
	id       int
	key      string
	active   bool
	cpu0     int // worker cpu ms when the stage began (as seen by the watchdog)
	t0       time.Time
	killed   string
	peakRSS  int
	lastCPU  int
	finished bool
	slow     float64 // calibration factor of this worker (>= 1)
}

func c10PidCPUms(pid int) int {
	b, err := os.ReadFile("/proc/" + strconv.Itoa(pid) + "/stat")
	if err != nil {
		return -1
	}
	i := bytes.LastIndexByte(b, ')')
	if i < 0 {
		return -1
	}
	f := strings.Fields(string(b[i+1:]))
	if len(f) < 13 {
		return -1
	}
	ut, _ := strconv.Atoi(f[11])
	st, _ := strconv.Atoi(f[12])
	return (ut + st) * 10 // USER_HZ = 100
}

// runOnce starts one worker on the inputs and returns the per-input results of those it reached, plus the index of
// the first input that was not finished (len(inputs) when all were).
func (s *c10Super) runOnce(inputs []c10JobInput, lim c10Limits) (res map[int]*c10Result, next int) {
	res = map[int]*c10Result{}
	s.mu.Lock()
	s.serial++
	n := s.serial
	s.Workers++
	s.mu.Unlock()
	jobFile := filepath.Join(s.workDir, fmt.Sprintf("job%d.json", n))
	jb, _ := json.Marshal(c10Job{ASMiB: lim.ASMiB, Inputs: inputs})
	if err := os.WriteFile(jobFile, jb, 0o644); err != nil {
		for _, in := range inputs {
			res[in.ID] = &c10Result{Machine: "cannot write job file"}
		}
		return res, len(inputs)
	}
	defer os.Remove(jobFile)
	cmd := exec.Command(s.self, "check", "C10-worker", "--replay", jobFile)
	cmd.Env = append(os.Environ(), "GOTRACEBACK=crash")
	stdout, _ := cmd.StdoutPipe()
	var stderr c10Tail
	cmd.Stderr = &stderr
	if err := cmd.Start(); err != nil {
		for _, in := range inputs {
			res[in.ID] = &c10Result{Machine: "cannot start worker: " + err.Error()}
		}
		return res, len(inputs)
	}
	fl := &c10Flight{slow: 1}
	stop := make(chan struct{})
	var wg sync.WaitGroup
	wg.Add(1)
	go func() { // watchdog
		defer wg.Done()
		pid := cmd.Process.Pid
		spid := strconv.Itoa(pid)
		tick := time.NewTicker(20 * time.Millisecond)
		defer tick.Stop()
		for {
			select {
			case <-stop:
				return
			case <-tick.C:
			}
			cpu := c10PidCPUms(pid)
			rss := c10ProcKB(spid, "VmRSS") / 1024
			fl.mu.Lock()
			if cpu >= 0 {
				fl.lastCPU = cpu
			}
			if fl.active && fl.killed == "" {
				if rss > fl.peakRSS {
					fl.peakRSS = rss
				}
				switch {
				case cpu >= 0 && float64(cpu-fl.cpu0) > float64(lim.CPUms)*fl.slow:
					fl.killed = "timeout"
				case rss > lim.RSSMiB:
					fl.killed = "oom"
				case time.Since(fl.t0) > time.Duration(lim.WallSec)*time.Second:
					fl.killed = "stall"
				}
				if fl.killed != "" {
					// SIGQUIT makes the Go runtime dump the stack (where the call was spinning) and exit; SIGKILL follows
					_ = cmd.Process.Signal(syscall.SIGQUIT)
					p := cmd.Process
					time.AfterFunc(20*time.Second, func() { _ = p.Kill() }) // the dump itself can take seconds on a loaded machine
				}
			}
			fl.mu.Unlock()
		}
	}()
	idx := map[int]int{}
	for i, in := range inputs {
		idx[in.ID] = i
	}
	hwm := false
	sc := bufio.NewScanner(stdout)
	sc.Buffer(make([]byte, 1<<20), 1<<24)
	next = 0
	for sc.Scan() {
		line := sc.Text()
		if len(line) < 2 {
			continue
		}
		switch line[0] {
		case 'H':
			hwm = strings.Contains(line, "true")
		case 'C':
			if ms, err := strconv.Atoi(strings.TrimSpace(line[2:])); err == nil {
				f := math.Min(6, math.Max(1, float64(ms)/c10CalibRefMs))
				fl.mu.Lock()
				fl.slow = f
				fl.mu.Unlock()
				s.mu.Lock()
				if f > s.MaxSlow {
					s.MaxSlow = f
				}
				s.mu.Unlock()
			}
		case 'B':
			f := strings.SplitN(line, " ", 3)
			if len(f) == 3 {
				id, _ := strconv.Atoi(f[1])
				fl.mu.Lock()
				fl.id, fl.key, fl.active, fl.t0, fl.peakRSS = id, f[2], true, time.Now(), 0
				c := c10PidCPUms(cmd.Process.Pid)
				if c < 0 {
					c = fl.lastCPU
				}
				fl.cpu0 = c
				fl.mu.Unlock()
				if res[id] == nil {
					res[id] = &c10Result{HWM: hwm}
				}
			}
		case 'E':
			var ev c10Event
			if json.Unmarshal([]byte(line[2:]), &ev) == nil {
				fl.mu.Lock()
				fl.active = false
				ev.CPU = int(float64(ev.CPU) / fl.slow)
				fl.mu.Unlock()
				if res[ev.ID] == nil {
					res[ev.ID] = &c10Result{HWM: hwm}
				}
				res[ev.ID].Events = append(res[ev.ID].Events, ev)
			}
		case 'D':
			id, _ := strconv.Atoi(strings.TrimSpace(line[2:]))
			if res[id] == nil {
				res[id] = &c10Result{HWM: hwm}
			}
			res[id].Done = true
			if i, ok := idx[id]; ok && i+1 > next {
				next = i + 1
			}
		}
	}
	werr := cmd.Wait()
	close(stop)
	wg.Wait()
	fl.mu.Lock()
	defer fl.mu.Unlock()
	if next >= len(inputs) && werr == nil {
		return res, next
	}
	// the worker died
	errText := stderr.String()
	if fl.active {
		id := fl.id
		r := res[id]
		if r == nil {
			r = &c10Result{HWM: hwm}
			res[id] = r
		}
		killed := fl.killed
		if killed == "stall" {
			r.Machine = "worker stalled (wall-clock limit with little CPU use)"
			killed = ""
		}
		out, msg := c10Classify(errText, killed)
		if out == "" && r.Machine == "" {
			r.Machine = fmt.Sprintf("worker died for an unknown reason (%v)", werr)
		}
		if out != "" {
			stage := fl.key
			if i := strings.IndexByte(stage, ':'); i >= 0 {
				stage = stage[:i]
			}
			ev := c10Event{ID: id, Stage: stage, Key: fl.key, Out: out, Msg: msg, CPU: int(float64(max(0, fl.lastCPU-fl.cpu0)) / fl.slow), RSS: fl.peakRSS}
			ev.Where, ev.File = c10StackWhere(errText)
			ev.Hot = c10Hot(errText)
			r.Events = append(r.Events, ev)
			r.Died = true
		}
		if len(errText) > 600000 {
			errText = errText[:540000] + "\n...\n" + errText[len(errText)-50000:]
		}
		r.Stderr = errText
		if i, ok := idx[id]; ok {
			next = i + 1
		}
		return res, next
	}
	// died between stages / at start-up: machinery
	if next < len(inputs) {
		id := inputs[next].ID
		if res[id] == nil {
			res[id] = &c10Result{}
		}
		res[id].Machine = fmt.Sprintf("worker died outside a stage (%v): %s", werr, c10Short(errText, 300))
		next++
	}
	return res, next
}

// c10Hot returns the recursion signature of a stack dump: the naga functions that each make up at least a quarter of the
// first 80 naga frames, sorted and joined by "+" (short names); if there is none, the innermost naga function.
func c10Hot(stderr string) string {
	fr := c10NagaFrames(stderr, 80)
	if len(fr) == 0 {
		return ""
	}
	cnt := map[string]int{}
	for _, f := range fr {
		cnt[strings.SplitN(f, " ", 2)[0]]++
	}
	var hot []string
	for fn, n := range cnt {
		if n*4 >= len(fr) && n >= 2 {
			hot = append(hot, fn)
		}
	}
	if len(hot) == 0 {
		return strings.SplitN(fr[0], " ", 2)[0]
	}
	sort.Strings(hot)
	return strings.Join(hot, "+")
}

// c10NagaFrames lists the first n naga frames (function file:line) of a stack dump.
func c10NagaFrames(stderr string, n int) []string {
	var out []string
	lines := strings.Split(stderr, "\n")
	for i, l := range lines {
		if strings.HasPrefix(l, "github.com/gogpu/naga") && i+1 < len(lines) {
			fn := strings.TrimPrefix(reFrameArgs.ReplaceAllString(strings.TrimSpace(l), ""), "github.com/gogpu/naga/")
			f := strings.TrimSpace(lines[i+1])
			if j := strings.Index(f, " +0x"); j >= 0 {
				f = f[:j]
			}
			if j := strings.LastIndex(f, "/"); j >= 0 {
				f = f[j+1:]
			}
			out = append(out, fn+" "+f)
			if len(out) >= n {
				break
			}
		}
	}
	return out
}

func c10Short(s string, n int) string {
	s = strings.TrimSpace(s)
	if len(s) > n {
		return s[:n] + "..."
	}
	return s
}

// RunBatch runs the inputs in worker processes (a fresh one after every death) and returns one result per input.
func (s *c10Super) RunBatch(inputs []c10JobInput, lim c10Limits) map[int]*c10Result {
	all := map[int]*c10Result{}
	for len(inputs) > 0 {
		res, next := s.runOnce(inputs, lim)
		for id, r := range res {
			all[id] = r
		}
		if next <= 0 {
			next = 1
			if all[inputs[0].ID] == nil {
				all[inputs[0].ID] = &c10Result{Machine: "worker made no progress"}
			}
		}
		inputs = inputs[min(next, len(inputs)):]
	}
	return all
}

// c10Tail keeps the head and the tail of a stream.
type c10Tail struct {
	mu   sync.Mutex
	head []byte
	tail []byte
}

func (t *c10Tail) Write(p []byte) (int, error) {
	t.mu.Lock()
	defer t.mu.Unlock()
	n := len(p)
	if len(t.head) < 1<<19 {
		k := min(len(p), 1<<19-len(t.head))
		t.head = append(t.head, p[:k]...)
		p = p[k:]
	}
	if len(p) > 0 {
		t.tail = append(t.tail, p...)
		if len(t.tail) > 1<<16 {
			t.tail = t.tail[len(t.tail)-(1<<16):]
		}
	}
	return n, nil
}

func (t *c10Tail) String() string {
	t.mu.Lock()
	defer t.mu.Unlock()
	if len(t.tail) == 0 {
		return string(t.head)
	}
	return string(t.head) + "\n...\n" + string(t.tail)
}
