package checks

import (
	"fmt"
	"math/rand"
	"testing"
	"time"

	"verif/harness/core"
	"verif/harness/gen"
)

func TestSpecPerf(t *testing.T) {
	c := core.NewCtx("DEMO", "quick", "other")
	cases := gen.BinOps(rand.New(rand.NewSource(1)), 0)
	for _, g := range cases {
		if g.Desc != "/ f32 v4" && g.Desc != "% i32 s" && g.Desc != "<< u32 v3" && g.Desc != "< f32 v2" && g.Desc != "* u32 vs" {
			continue
		}
		n := 300
		sc := []*SemCase{{Prog: g.Prog, Inputs: g.Inputs[:n]}}
		t0 := time.Now()
		if err := EvalSpec(c, sc, 1); err != nil {
			t.Fatal(err)
		}
		fmt.Println(g.Desc, "rows", n, time.Since(t0))
	}
}
