package checks

import (
	"fmt"
	"math/rand"
	"strings"
)

// c18Gen generates WGSL programs with ONE entry point (vertex / fragment / compute) inside the feature set the property
// quantifies over: scalars, vectors, matrices, arrays, structs, uniform / storage buffers, control flow (if, for, while,
// loop/continuing/break, switch), helper functions, IO structs and builtins.  Every declared buffer is used observably
// (its value flows into an output or a store), so the set of bound globals is exactly the set of resources the entry
// point uses.  All choices come from the seeded rng.
type c18Gen struct {
	r      *rand.Rand
	sb     strings.Builder
	vars   map[string][]string // type -> variable names in scope (readable)
	muts   map[string][]string // type -> mutable variables
	nvar   int
	helper []c18Helper
	depth  int
	loops  int
	off    map[string]bool // constructs not to generate (see c18GenOff)
}

// c18GenOff lists constructs the generator leaves out.  The DXIL backend emits malformed bitcode for them on the pinned
// tree (known findings of C18, each demonstrated by a fixed probe program in c18Probes); leaving them out of the random
// programs keeps every OTHER violation in a generated program visible as a new one.
var c18GenOff = map[string]bool{"private": true, "matvar": true, "shortcircuit": true}

// c18GenAll: no construct left out (family "genx": the known findings are expected there)
var c18GenAll = map[string]bool{}

type c18Helper struct {
	name string
	ret  string
	args []string
}

var c18Scalars = []string{"f32", "i32", "u32"}

func c18Vec(n int, s string) string { return fmt.Sprintf("vec%d<%s>", n, s) }

func (g *c18Gen) pick(xs []string) string { return xs[g.r.Intn(len(xs))] }

func (g *c18Gen) fresh(p string) string {
	g.nvar++
	return fmt.Sprintf("%s%d", p, g.nvar)
}

func (g *c18Gen) addVar(ty, name string, mut bool) {
	g.vars[ty] = append(g.vars[ty], name)
	if mut {
		g.muts[ty] = append(g.muts[ty], name)
	}
}

func c18ScalarOf(ty string) string {
	switch {
	case strings.Contains(ty, "f32"):
		return "f32"
	case strings.Contains(ty, "i32"):
		return "i32"
	case strings.Contains(ty, "u32"):
		return "u32"
	}
	return "bool"
}

func c18VecSize(ty string) int {
	if strings.HasPrefix(ty, "vec") {
		return int(ty[3] - '0')
	}
	return 1
}

func (g *c18Gen) lit(ty string) string {
	switch ty {
	case "f32":
		return []string{"0.5", "1.0", "2.0", "-1.25", "3.5", "0.125"}[g.r.Intn(6)]
	case "i32":
		return []string{"1", "2", "3", "-4", "7", "16"}[g.r.Intn(6)]
	case "u32":
		return []string{"1u", "2u", "3u", "5u", "8u", "31u"}[g.r.Intn(6)]
	case "bool":
		return []string{"true", "false"}[g.r.Intn(2)]
	}
	if strings.HasPrefix(ty, "vec") {
		n, s := c18VecSize(ty), c18ScalarOf(ty)
		if g.r.Intn(3) == 0 {
			return fmt.Sprintf("%s(%s)", ty, g.lit(s))
		}
		parts := make([]string, n)
		for i := range parts {
			parts[i] = g.lit(s)
		}
		return fmt.Sprintf("%s(%s)", ty, strings.Join(parts, ", "))
	}
	if strings.HasPrefix(ty, "mat") {
		c, r := int(ty[3]-'0'), int(ty[5]-'0')
		cols := make([]string, c)
		for i := range cols {
			cols[i] = g.lit(c18Vec(r, "f32"))
		}
		return fmt.Sprintf("%s(%s)", ty, strings.Join(cols, ", "))
	}
	return ty + "()"
}

// expr returns an expression of type ty.
func (g *c18Gen) expr(ty string, d int) string {
	if ty == "bool" && g.off["constbool"] && (d <= 0 || g.r.Intn(5) == 0) {
		// never a constant: a comparison with a variable operand (or a bool variable)
		if vs := g.vars["bool"]; len(vs) > 0 && g.r.Intn(2) == 0 {
			return g.pick(vs)
		}
		for _, t := range []string{"f32", "u32", "i32"} {
			if vs := g.vars[t]; len(vs) > 0 {
				return fmt.Sprintf("(%s %s %s)", g.pick(vs), g.pick([]string{"<", ">", "!="}), g.lit(t))
			}
		}
	}
	if d <= 0 || g.r.Intn(5) == 0 {
		if vs := g.vars[ty]; len(vs) > 0 && g.r.Intn(4) != 0 {
			return g.pick(vs)
		}
		return g.lit(ty)
	}
	s := c18ScalarOf(ty)
	n := c18VecSize(ty)
	switch {
	case ty == "bool":
		var withVars []string
		for _, t := range c18Scalars {
			if len(g.vars[t]) > 0 {
				withVars = append(withVars, t)
			}
		}
		if g.off["constbool"] && len(withVars) == 0 {
			if vs := g.vars["bool"]; len(vs) > 0 {
				return g.pick(vs)
			}
			return g.lit("bool") // nothing variable in scope: a plain literal, never a foldable operator expression
		}
		switch g.r.Intn(5) {
		case 0:
			op := g.pick([]string{"&&", "||"})
			if g.off["shortcircuit"] {
				op = g.pick([]string{"&", "|"}) // non-short-circuit forms
			}
			return fmt.Sprintf("(%s %s %s)", g.expr("bool", d-1), op, g.expr("bool", d-1))
		case 1:
			return fmt.Sprintf("!(%s)", g.expr("bool", d-1))
		default:
			t := g.pick(c18Scalars)
			lhs := g.expr(t, d-1)
			if g.off["constbool"] {
				t = g.pick(withVars)
				lhs = g.pick(g.vars[t]) // keeps the comparison from folding to a constant
			}
			return fmt.Sprintf("(%s %s %s)", lhs, g.pick([]string{"<", "<=", ">", ">=", "==", "!="}), g.expr(t, d-1))
		}
	case strings.HasPrefix(ty, "mat"):
		c, r := int(ty[3]-'0'), int(ty[5]-'0')
		switch g.r.Intn(4) {
		case 0:
			if c == r {
				return fmt.Sprintf("transpose(%s)", g.expr(ty, d-1))
			}
		case 1:
			if c == r {
				return fmt.Sprintf("(%s * %s)", g.expr(ty, d-1), g.expr(ty, d-1))
			}
		case 2:
			return fmt.Sprintf("(%s * %s)", g.expr(ty, d-1), g.expr("f32", d-1))
		}
		if vs := g.vars[ty]; len(vs) > 0 {
			return g.pick(vs)
		}
		return g.lit(ty)
	case n > 1:
		switch g.r.Intn(9) {
		case 0: // constructor from scalars
			parts := make([]string, n)
			for i := range parts {
				parts[i] = g.expr(s, d-1)
			}
			return fmt.Sprintf("%s(%s)", ty, strings.Join(parts, ", "))
		case 1: // swizzle of a larger or equal vector
			m := n + g.r.Intn(5-n)
			sw := ""
			for i := 0; i < n; i++ {
				sw += string("xyzw"[g.r.Intn(m)])
			}
			if a, ok := g.atom(c18Vec(m, s)); ok {
				return fmt.Sprintf("%s.%s", a, sw)
			}
		case 2: // matrix * vector
			if s == "f32" {
				return fmt.Sprintf("(%s * %s)", g.expr(fmt.Sprintf("mat%dx%d<f32>", n, n), d-1), g.expr(ty, d-1))
			}
		case 3:
			if s == "f32" {
				return fmt.Sprintf("%s(%s)", g.pick([]string{"abs", "floor", "fract", "sqrt", "sin", "cos", "normalize", "exp2"}), g.expr(ty, d-1))
			}
			return fmt.Sprintf("%s(%s, %s)", g.pick([]string{"min", "max"}), g.expr(ty, d-1), g.expr(ty, d-1))
		case 4:
			return fmt.Sprintf("select(%s, %s, %s)", g.expr(ty, d-1), g.expr(ty, d-1), g.expr("bool", d-1))
		case 5: // conversion
			o := g.pick(c18Scalars)
			return fmt.Sprintf("%s(%s)", ty, g.expr(c18Vec(n, o), d-1))
		case 6:
			if s == "f32" {
				return fmt.Sprintf("mix(%s, %s, %s)", g.expr(ty, d-1), g.expr(ty, d-1), g.expr("f32", d-1))
			}
		case 7: // vector * scalar
			return fmt.Sprintf("(%s * %s)", g.expr(ty, d-1), g.expr(s, d-1))
		}
		return fmt.Sprintf("(%s %s %s)", g.expr(ty, d-1), g.pick([]string{"+", "-", "*"}), g.expr(ty, d-1))
	default: // numeric scalar
		switch g.r.Intn(12) {
		case 0:
			o := g.pick(c18Scalars)
			return fmt.Sprintf("%s(%s)", ty, g.expr(o, d-1))
		case 1:
			m := 2 + g.r.Intn(3)
			if a, ok := g.atom(c18Vec(m, s)); ok {
				return fmt.Sprintf("%s.%s", a, string("xyzw"[g.r.Intn(m)]))
			}
		case 2:
			if s == "f32" {
				m := 2 + g.r.Intn(3)
				return fmt.Sprintf("%s(%s, %s)", g.pick([]string{"dot", "distance"}), g.expr(c18Vec(m, s), d-1), g.expr(c18Vec(m, s), d-1))
			}
			return fmt.Sprintf("(%s %s %s)", g.expr(ty, d-1), g.pick([]string{"&", "|", "^"}), g.expr(ty, d-1))
		case 3:
			if s == "f32" {
				if g.r.Intn(4) == 0 {
					return fmt.Sprintf("length(%s)", g.expr(c18Vec(2+g.r.Intn(3), "f32"), d-1))
				}
				return fmt.Sprintf("%s(%s)", g.pick([]string{"abs", "floor", "ceil", "sqrt", "sin", "cos", "exp2"}), g.expr(ty, d-1))
			}
			return fmt.Sprintf("(%s %s %s)", g.expr(ty, d-1), g.pick([]string{"<<", ">>"}), g.pick([]string{"1u", "3u", "7u"}))
		case 4:
			return fmt.Sprintf("select(%s, %s, %s)", g.expr(ty, d-1), g.expr(ty, d-1), g.expr("bool", d-1))
		case 5:
			lim := map[string][2]string{"f32": {"0.0", "1.0"}, "i32": {"-8", "8"}, "u32": {"1u", "9u"}}[s]
			return fmt.Sprintf("clamp(%s, %s, %s)", g.expr(ty, d-1), lim[0], lim[1])
		case 6: // helper call
			var cands []c18Helper
			for _, h := range g.helper {
				if h.ret == ty {
					cands = append(cands, h)
				}
			}
			if len(cands) > 0 {
				h := cands[g.r.Intn(len(cands))]
				args := make([]string, len(h.args))
				for i, a := range h.args {
					args[i] = g.expr(a, d-1)
				}
				return fmt.Sprintf("%s(%s)", h.name, strings.Join(args, ", "))
			}
		case 7:
			if s != "f32" {
				return fmt.Sprintf("(%s %s %s)", g.expr(ty, d-1), g.pick([]string{"/", "%"}), g.pick(map[string][]string{"i32": {"3", "5", "-7"}, "u32": {"3u", "5u", "9u"}}[s]))
			}
			return fmt.Sprintf("(%s / %s)", g.expr(ty, d-1), g.lit(ty))
		case 8:
			if s == "f32" {
				m := 2 + g.r.Intn(3)
				if a, ok := g.atom(fmt.Sprintf("mat%dx%d<f32>", m, m)); ok {
					return fmt.Sprintf("%s[%d][%d]", a, g.r.Intn(m), g.r.Intn(m))
				}
			}
			if s == "u32" {
				return fmt.Sprintf("%s(%s)", g.pick([]string{"countOneBits", "reverseBits", "firstLeadingBit"}), g.expr(ty, d-1))
			}
		}
		if s == "i32" && g.r.Intn(6) == 0 {
			return fmt.Sprintf("(-(%s))", g.expr(ty, d-1))
		}
		return fmt.Sprintf("(%s %s %s)", g.expr(ty, d-1), g.pick([]string{"+", "-", "*"}), g.expr(ty, d-1))
	}
}

// atom returns a variable of the type (the only base used for swizzles and indexing), if one is in scope.
func (g *c18Gen) atom(ty string) (string, bool) {
	if vs := g.vars[ty]; len(vs) > 0 {
		return g.pick(vs), true
	}
	return "", false
}

var c18LocalTypes = []string{"f32", "f32", "i32", "u32", "vec2<f32>", "vec3<f32>", "vec4<f32>", "vec3<i32>", "vec4<u32>", "vec2<u32>",
	"mat2x2<f32>", "mat3x3<f32>", "mat4x4<f32>", "bool"}

func (g *c18Gen) ind() string { return strings.Repeat("  ", g.depth+1) }

// stmts emits n statements into the current block.
func (g *c18Gen) stmts(n, d int) {
	for i := 0; i < n; i++ {
		g.stmt(d)
	}
}

func (g *c18Gen) scoped(f func()) {
	sv, sm := map[string][]string{}, map[string][]string{}
	for k, v := range g.vars {
		sv[k] = append([]string(nil), v...)
	}
	for k, v := range g.muts {
		sm[k] = append([]string(nil), v...)
	}
	g.depth++
	f()
	g.depth--
	g.vars, g.muts = sv, sm
}

func (g *c18Gen) assign(d int) {
	var tys []string
	for t, v := range g.muts {
		if len(v) > 0 {
			tys = append(tys, t)
		}
	}
	if len(tys) == 0 {
		return
	}
	// deterministic order (map iteration is random)
	for i := 1; i < len(tys); i++ {
		for j := i; j > 0 && tys[j] < tys[j-1]; j-- {
			tys[j], tys[j-1] = tys[j-1], tys[j]
		}
	}
	t := g.pick(tys)
	v := g.pick(g.muts[t])
	switch {
	case strings.HasPrefix(t, "vec") && g.r.Intn(3) == 0 && !g.off["compstore"] && !(g.off["privcomp"] && v == "priv"):
		c := string("xyzw"[g.r.Intn(c18VecSize(t))])
		fmt.Fprintf(&g.sb, "%s%s.%s = %s;\n", g.ind(), v, c, g.expr(c18ScalarOf(t), d))
	case strings.HasPrefix(t, "mat") && g.r.Intn(2) == 0 && !g.off["compstore"]:
		c, r := int(t[3]-'0'), int(t[5]-'0')
		fmt.Fprintf(&g.sb, "%s%s[%d] = %s;\n", g.ind(), v, g.r.Intn(c), g.expr(c18Vec(r, "f32"), d))
	case (t == "i32" || t == "u32" || t == "f32") && g.r.Intn(3) == 0:
		fmt.Fprintf(&g.sb, "%s%s %s %s;\n", g.ind(), v, g.pick([]string{"+=", "-=", "*="}), g.expr(t, d))
	default:
		fmt.Fprintf(&g.sb, "%s%s = %s;\n", g.ind(), v, g.expr(t, d))
	}
}

func (g *c18Gen) stmt(d int) {
	k := g.r.Intn(14)
	if (g.off["switch"] && k >= 12) || (g.off["loop"] && k == 10) || (g.off["while"] && k == 11) || (g.off["for"] && (k == 8 || k == 9)) || (g.off["if"] && (k == 6 || k == 7)) {
		k = g.r.Intn(6)
	}
	if g.depth >= 3 && k >= 6 {
		k = g.r.Intn(6)
	}
	switch k {
	case 0, 1, 2:
		t := g.pick(c18LocalTypes)
		n := g.fresh("v")
		if g.r.Intn(3) == 0 || (g.off["matvar"] && strings.HasPrefix(t, "mat")) || (g.off["vecvar"] && strings.HasPrefix(t, "vec")) || (g.off["boolvar"] && t == "bool") {
			fmt.Fprintf(&g.sb, "%slet %s: %s = %s;\n", g.ind(), n, t, g.expr(t, d))
			g.addVar(t, n, false)
		} else {
			fmt.Fprintf(&g.sb, "%svar %s: %s = %s;\n", g.ind(), n, t, g.expr(t, d))
			g.addVar(t, n, true)
		}
	case 3, 4, 5:
		g.assign(d)
	case 6, 7:
		fmt.Fprintf(&g.sb, "%sif %s {\n", g.ind(), g.expr("bool", d))
		g.scoped(func() { g.stmts(1+g.r.Intn(3), d) })
		if g.r.Intn(2) == 0 {
			fmt.Fprintf(&g.sb, "%s} else {\n", g.ind())
			g.scoped(func() { g.stmts(1+g.r.Intn(2), d) })
		}
		fmt.Fprintf(&g.sb, "%s}\n", g.ind())
	case 8, 9:
		i := g.fresh("it")
		t := g.pick([]string{"i32", "u32"})
		suf := map[string]string{"i32": "", "u32": "u"}[t]
		fmt.Fprintf(&g.sb, "%sfor (var %s: %s = 0%s; %s < %d%s; %s++) {\n", g.ind(), i, t, suf, i, 2+g.r.Intn(6), suf, i)
		g.scoped(func() {
			g.addVar(t, i, false)
			g.loops++
			g.stmts(1+g.r.Intn(3), d)
			if g.r.Intn(3) == 0 {
				fmt.Fprintf(&g.sb, "%sif %s { %s; }\n", g.ind(), g.expr("bool", 1), g.pick([]string{"break", "continue"}))
			}
			g.loops--
		})
		fmt.Fprintf(&g.sb, "%s}\n", g.ind())
	case 10:
		c := g.fresh("k")
		fmt.Fprintf(&g.sb, "%svar %s: u32 = 0u;\n%sloop {\n", g.ind(), c, g.ind())
		g.scoped(func() {
			g.addVar("u32", c, false)
			fmt.Fprintf(&g.sb, "%sif %s >= %du { break; }\n", g.ind(), c, 1+g.r.Intn(5))
			g.stmts(1+g.r.Intn(2), d)
			fmt.Fprintf(&g.sb, "%scontinuing { %s = %s + 1u; }\n", g.ind(), c, c)
		})
		fmt.Fprintf(&g.sb, "%s}\n", g.ind())
	case 11:
		c := g.fresh("w")
		fmt.Fprintf(&g.sb, "%svar %s: i32 = %d;\n%swhile %s > 0 {\n", g.ind(), c, 1+g.r.Intn(6), g.ind(), c)
		g.scoped(func() {
			g.addVar("i32", c, false)
			g.stmts(1+g.r.Intn(2), d)
			fmt.Fprintf(&g.sb, "%s%s = %s - 1;\n", g.ind(), c, c)
		})
		fmt.Fprintf(&g.sb, "%s}\n", g.ind())
	case 12, 13:
		t := g.pick([]string{"i32", "u32"})
		suf := map[string]string{"i32": "", "u32": "u"}[t]
		fmt.Fprintf(&g.sb, "%sswitch %s {\n", g.ind(), g.expr(t, d))
		ncase := 1 + g.r.Intn(3)
		val := 0
		for c := 0; c < ncase; c++ {
			if g.r.Intn(3) == 0 {
				fmt.Fprintf(&g.sb, "%s  case %d%s, %d%s: {\n", g.ind(), val, suf, val+1, suf)
				val += 2
			} else {
				fmt.Fprintf(&g.sb, "%s  case %d%s: {\n", g.ind(), val, suf)
				val++
			}
			g.depth++
			g.scoped(func() { g.stmts(1+g.r.Intn(2), d) })
			g.depth--
			fmt.Fprintf(&g.sb, "%s  }\n", g.ind())
		}
		fmt.Fprintf(&g.sb, "%s  default: {\n", g.ind())
		g.depth++
		g.scoped(func() { g.stmts(1, d) })
		g.depth--
		fmt.Fprintf(&g.sb, "%s  }\n%s}\n", g.ind(), g.ind())
	}
}

func (g *c18Gen) genHelper(i int) {
	h := c18Helper{name: fmt.Sprintf("helper%d", i), ret: g.pick([]string{"f32", "i32", "u32"})}
	na := 1 + g.r.Intn(3)
	sv, sm := g.vars, g.muts
	g.vars, g.muts = map[string][]string{}, map[string][]string{}
	var ps []string
	for a := 0; a < na; a++ {
		t := g.pick([]string{"f32", "i32", "u32", "vec2<f32>", "vec3<f32>", "vec4<f32>", "vec3<i32>"})
		n := fmt.Sprintf("a%d", a)
		h.args = append(h.args, t)
		ps = append(ps, n+": "+t)
		g.addVar(t, n, false)
	}
	fmt.Fprintf(&g.sb, "fn %s(%s) -> %s {\n", h.name, strings.Join(ps, ", "), h.ret)
	acc := g.fresh("acc")
	fmt.Fprintf(&g.sb, "  var %s: %s = %s;\n", acc, h.ret, g.expr(h.ret, 2))
	g.addVar(h.ret, acc, true)
	g.stmts(1+g.r.Intn(4), 2)
	if g.r.Intn(2) == 0 {
		fmt.Fprintf(&g.sb, "  if %s { return %s; }\n", g.expr("bool", 2), g.expr(h.ret, 2))
	}
	fmt.Fprintf(&g.sb, "  return %s;\n}\n", acc)
	g.vars, g.muts = sv, sm
	g.helper = append(g.helper, h)
}

// c18Program is a generated program with what the generator knows about it.
type c18Program struct {
	Name  string
	Src   string
	Stage string
}

// reduce folds a value of type ty into an f32 expression (to make a value observable).
func c18ToF32(ty, e string) string {
	s := c18ScalarOf(ty)
	switch {
	case ty == "bool":
		return fmt.Sprintf("select(0.0, 1.0, %s)", e)
	case strings.HasPrefix(ty, "mat"):
		return fmt.Sprintf("%s[0].x", e)
	case strings.HasPrefix(ty, "vec"):
		if s == "f32" {
			return fmt.Sprintf("%s.x", e)
		}
		return fmt.Sprintf("f32(%s.x)", e)
	case s == "f32":
		return e
	}
	return fmt.Sprintf("f32(%s)", e)
}

// Generate builds one program.
func c18Generate(seed int64, idx int, off map[string]bool) c18Program {
	g := &c18Gen{r: rand.New(rand.NewSource(seed*1000003 + int64(idx))), vars: map[string][]string{}, muts: map[string][]string{}, off: off}
	stage := []string{"vertex", "fragment", "compute"}[idx%3]
	// ---- resources -----------------------------------------------------------------------------------------------
	type buf struct{ name, kind string }
	var bufs []buf
	nb := g.r.Intn(4)
	if stage == "compute" && nb == 0 {
		nb = 1
	}
	var reads []string // f32 expressions reading each buffer
	var writes []string
	binding := 0
	group := func() int { return g.r.Intn(3) }
	haveRW := false
	for b := 0; b < nb; b++ {
		kind := g.pick([]string{"uniform", "storage_r", "storage_rw"})
		if stage == "compute" && b == 0 {
			kind = "storage_rw"
		}
		if stage != "compute" && kind == "storage_rw" {
			kind = "storage_r" // keep vertex/fragment free of UAV writes
		}
		name := fmt.Sprintf("buf%d", b)
		at := fmt.Sprintf("@group(%d) @binding(%d)", group(), binding)
		binding += 1 + g.r.Intn(2)
		switch kind {
		case "uniform":
			st := fmt.Sprintf("U%d", b)
			switch g.r.Intn(3) {
			case 0:
				fmt.Fprintf(&g.sb, "struct %s { m: mat4x4<f32>, v: vec4<f32>, s: f32, k: u32 }\n%s var<uniform> %s: %s;\n", st, at, name, st)
				g.addVar("mat4x4<f32>", name+".m", false)
				g.addVar("vec4<f32>", name+".v", false)
				g.addVar("f32", name+".s", false)
				g.addVar("u32", name+".k", false)
				reads = append(reads, fmt.Sprintf("(%s.m[1].y + %s.v.z + %s.s + f32(%s.k))", name, name, name, name))
			case 1:
				fmt.Fprintf(&g.sb, "struct %s { n: mat3x3<f32>, a: array<vec4<f32>, 4>, i: vec3<i32> }\n%s var<uniform> %s: %s;\n", st, at, name, st)
				g.addVar("mat3x3<f32>", name+".n", false)
				g.addVar("vec4<f32>", name+".a[1]", false)
				g.addVar("vec3<i32>", name+".i", false)
				reads = append(reads, fmt.Sprintf("(%s.n[2].x + %s.a[3].w + f32(%s.i.y))", name, name, name))
			default:
				fmt.Fprintf(&g.sb, "%s var<uniform> %s: vec4<f32>;\n", at, name)
				g.addVar("vec4<f32>", name, false)
				reads = append(reads, name+".y")
			}
		case "storage_r":
			switch g.r.Intn(3) {
			case 0:
				fmt.Fprintf(&g.sb, "%s var<storage, read> %s: array<f32>;\n", at, name)
				g.addVar("f32", name+"[1]", false)
				reads = append(reads, fmt.Sprintf("(%s[0] + f32(arrayLength(&%s)))", name, name))
			case 1:
				st := fmt.Sprintf("S%d", b)
				fmt.Fprintf(&g.sb, "struct %s { p: vec3<f32>, q: u32, r: vec2<i32> }\n%s var<storage, read> %s: array<%s, 8>;\n", st, at, name, st)
				g.addVar("vec3<f32>", name+"[2].p", false)
				g.addVar("u32", name+"[3].q", false)
				g.addVar("vec2<i32>", name+"[1].r", false)
				reads = append(reads, fmt.Sprintf("(%s[0].p.z + f32(%s[7].q))", name, name))
			default:
				fmt.Fprintf(&g.sb, "%s var<storage, read> %s: array<vec4<u32>, 16>;\n", at, name)
				g.addVar("vec4<u32>", name+"[5]", false)
				reads = append(reads, fmt.Sprintf("f32(%s[2].w)", name))
			}
		case "storage_rw":
			haveRW = true
			switch g.r.Intn(3) {
			case 0:
				fmt.Fprintf(&g.sb, "%s var<storage, read_write> %s: array<f32>;\n", at, name)
				g.addVar("f32", name+"[2]", false)
				writes = append(writes, name+"[IDX] = VAL;")
			case 1:
				fmt.Fprintf(&g.sb, "%s var<storage, read_write> %s: array<vec4<f32>, 32>;\n", at, name)
				g.addVar("vec4<f32>", name+"[4]", false)
				writes = append(writes, name+"[IDX & 31u] = vec4<f32>(VAL);")
			default:
				st := fmt.Sprintf("W%d", b)
				fmt.Fprintf(&g.sb, "struct %s { total: f32, count: u32, grid: array<f32, 12> }\n%s var<storage, read_write> %s: %s;\n", st, at, name, st)
				g.addVar("f32", name+".total", false)
				g.addVar("u32", name+".count", false)
				writes = append(writes, name+".grid[IDX % 12u] = VAL; "+name+".count = IDX;")
			}
		}
		bufs = append(bufs, buf{name, kind})
	}
	_ = haveRW
	if g.r.Intn(3) == 0 && !g.off["private"] {
		fmt.Fprintf(&g.sb, "var<private> priv: vec4<f32> = vec4<f32>(1.0, 2.0, 3.0, 4.0);\n")
		g.addVar("vec4<f32>", "priv", true)
	}
	if g.r.Intn(4) == 0 {
		fmt.Fprintf(&g.sb, "const SCALE: f32 = 1.5;\nconst COUNT: u32 = 6u;\n")
		g.addVar("f32", "SCALE", false)
		g.addVar("u32", "COUNT", false)
	}
	// ---- helpers -----------------------------------------------------------------------------------------------
	globV, globM := g.vars, g.muts
	nh := g.r.Intn(3)
	if g.off["helper"] {
		nh = 0
	}
	for h := 0; h < nh; h++ {
		g.genHelper(h)
	}
	g.vars, g.muts = globV, globM
	// ---- entry point ---------------------------------------------------------------------------------------------
	obs := func() string {
		// an f32 that depends on every buffer read and on a couple of locals
		parts := append([]string(nil), reads...)
		for _, t := range []string{"f32", "i32", "u32", "vec3<f32>", "vec4<f32>", "mat3x3<f32>", "mat4x4<f32>", "vec4<u32>", "bool"} {
			if vs := g.vars[t]; len(vs) > 0 {
				parts = append(parts, c18ToF32(t, vs[len(vs)-1]))
			}
		}
		if len(parts) == 0 {
			return "1.0"
		}
		return strings.Join(parts, " + ")
	}
	switch stage {
	case "vertex":
		// inputs
		nin := g.r.Intn(4)
		var params, fields []string
		loc := 0
		inStruct := g.r.Intn(2) == 0
		for i := 0; i < nin; i++ {
			t := g.pick([]string{"f32", "vec2<f32>", "vec3<f32>", "vec4<f32>", "vec2<i32>", "u32", "vec4<u32>"})
			n := fmt.Sprintf("in%d", i)
			if inStruct {
				fields = append(fields, fmt.Sprintf("@location(%d) %s: %s", loc, n, t))
				g.addVar(t, "vin."+n, false)
			} else {
				params = append(params, fmt.Sprintf("@location(%d) %s: %s", loc, n, t))
				g.addVar(t, n, false)
			}
			loc += 1 + g.r.Intn(2)
		}
		if inStruct && len(fields) > 0 {
			if g.r.Intn(2) == 0 {
				fields = append(fields, "@builtin(instance_index) inst: u32")
				g.addVar("u32", "vin.inst", false)
			}
			fmt.Fprintf(&g.sb, "struct VIn { %s }\n", strings.Join(fields, ", "))
			params = append(params, "vin: VIn")
		}
		if g.r.Intn(2) == 0 {
			params = append(params, "@builtin(vertex_index) vi: u32")
			g.addVar("u32", "vi", false)
		}
		if !inStruct && g.r.Intn(3) == 0 {
			params = append(params, "@builtin(instance_index) ii: u32")
			g.addVar("u32", "ii", false)
		}
		// outputs
		nout := g.r.Intn(4)
		outs := []string{"@builtin(position) pos: vec4<f32>"}
		type of struct{ n, t string }
		var ofs []of
		oloc := 0
		for i := 0; i < nout; i++ {
			t := g.pick([]string{"f32", "vec2<f32>", "vec3<f32>", "vec4<f32>", "vec2<i32>", "u32", "vec3<u32>"})
			n := fmt.Sprintf("o%d", i)
			attr := fmt.Sprintf("@location(%d)", oloc)
			if c18ScalarOf(t) != "f32" {
				attr += " @interpolate(flat)"
			} else if g.r.Intn(4) == 0 {
				attr += " " + g.pick([]string{"@interpolate(flat)", "@interpolate(linear)", "@interpolate(perspective, centroid)"})
			}
			outs = append(outs, fmt.Sprintf("%s %s: %s", attr, n, t))
			ofs = append(ofs, of{n, t})
			oloc += 1 + g.r.Intn(2)
		}
		if g.r.Intn(2) == 0 { // position not first
			outs = append(outs[1:], outs[0])
		}
		fmt.Fprintf(&g.sb, "struct VOut { %s }\n@vertex fn vmain(%s) -> VOut {\n", strings.Join(outs, ", "), strings.Join(params, ", "))
		g.stmts(2+g.r.Intn(7), 3)
		fmt.Fprintf(&g.sb, "  var out: VOut;\n  out.pos = vec4<f32>(%s, %s, 0.0, 1.0);\n", obs(), g.expr("f32", 2))
		for _, o := range ofs {
			fmt.Fprintf(&g.sb, "  out.%s = %s;\n", o.n, g.expr(o.t, 2))
		}
		g.sb.WriteString("  return out;\n}\n")
	case "fragment":
		nin := g.r.Intn(4)
		var fields, params []string
		loc := 0
		inStruct := g.r.Intn(2) == 0
		add := func(decl, ref, t string) {
			if inStruct {
				fields = append(fields, decl)
				g.addVar(t, "fin."+ref, false)
			} else {
				params = append(params, decl)
				g.addVar(t, ref, false)
			}
		}
		for i := 0; i < nin; i++ {
			t := g.pick([]string{"f32", "vec2<f32>", "vec3<f32>", "vec4<f32>", "vec2<i32>", "u32", "vec3<u32>"})
			n := fmt.Sprintf("in%d", i)
			attr := fmt.Sprintf("@location(%d)", loc)
			if c18ScalarOf(t) != "f32" {
				attr += " @interpolate(flat)"
			} else if g.r.Intn(4) == 0 {
				attr += " " + g.pick([]string{"@interpolate(flat)", "@interpolate(linear)", "@interpolate(perspective, sample)"})
			}
			add(fmt.Sprintf("%s %s: %s", attr, n, t), n, t)
			loc += 1 + g.r.Intn(2)
		}
		if g.r.Intn(2) == 0 {
			add("@builtin(position) fc: vec4<f32>", "fc", "vec4<f32>")
		}
		if g.r.Intn(3) == 0 {
			add("@builtin(front_facing) ff: bool", "ff", "bool")
		}
		if g.r.Intn(5) == 0 {
			add("@builtin(sample_index) si: u32", "si", "u32")
		}
		if inStruct && len(fields) > 0 {
			fmt.Fprintf(&g.sb, "struct FIn { %s }\n", strings.Join(fields, ", "))
			params = append(params, "fin: FIn")
		}
		nout := 1 + g.r.Intn(3)
		single := nout == 1 && g.r.Intn(2) == 0
		type of struct{ n, t string }
		var outs []string
		var ofs []of
		for i := 0; i < nout; i++ {
			t := g.pick([]string{"vec4<f32>", "vec4<f32>", "vec2<f32>", "f32", "vec4<u32>", "vec4<i32>"})
			n := fmt.Sprintf("c%d", i)
			outs = append(outs, fmt.Sprintf("@location(%d) %s: %s", i, n, t))
			ofs = append(ofs, of{n, t})
		}
		depth := !single && g.r.Intn(3) == 0
		if depth {
			outs = append(outs, "@builtin(frag_depth) depth: f32")
		}
		if single {
			fmt.Fprintf(&g.sb, "@fragment fn fmain(%s) -> @location(0) %s {\n", strings.Join(params, ", "), ofs[0].t)
		} else {
			fmt.Fprintf(&g.sb, "struct FOut { %s }\n@fragment fn fmain(%s) -> FOut {\n", strings.Join(outs, ", "), strings.Join(params, ", "))
		}
		g.stmts(2+g.r.Intn(7), 3)
		if g.r.Intn(4) == 0 {
			fmt.Fprintf(&g.sb, "  if %s { discard; }\n", g.expr("bool", 2))
		}
		if single {
			t := ofs[0].t
			fmt.Fprintf(&g.sb, "  return %s(%s(%s)) + %s;\n}\n", t, c18ScalarOf(t), obs(), g.expr(t, 2))
		} else {
			g.sb.WriteString("  var out: FOut;\n")
			for i, o := range ofs {
				if i == 0 {
					fmt.Fprintf(&g.sb, "  out.%s = %s(%s(%s)) + %s;\n", o.n, o.t, c18ScalarOf(o.t), obs(), g.expr(o.t, 2))
				} else {
					fmt.Fprintf(&g.sb, "  out.%s = %s;\n", o.n, g.expr(o.t, 2))
				}
			}
			if depth {
				fmt.Fprintf(&g.sb, "  out.depth = clamp(%s, 0.0, 1.0);\n", g.expr("f32", 2))
			}
			g.sb.WriteString("  return out;\n}\n")
		}
	default: // compute
		wg := [][3]int{{1, 1, 1}, {64, 1, 1}, {8, 8, 1}, {4, 4, 4}, {32, 2, 1}, {16, 1, 2}}[g.r.Intn(6)]
		var params []string
		params = append(params, "@builtin(global_invocation_id) gid: vec3<u32>")
		g.addVar("vec3<u32>", "gid", false)
		if g.r.Intn(2) == 0 {
			params = append(params, "@builtin(local_invocation_id) lid: vec3<u32>")
			g.addVar("vec3<u32>", "lid", false)
		}
		if g.r.Intn(2) == 0 {
			params = append(params, "@builtin(local_invocation_index) lix: u32")
			g.addVar("u32", "lix", false)
		}
		if g.r.Intn(3) == 0 {
			params = append(params, "@builtin(workgroup_id) wid: vec3<u32>")
			g.addVar("vec3<u32>", "wid", false)
		}
		useWG := g.r.Intn(3) == 0
		if useWG {
			fmt.Fprintf(&g.sb, "var<workgroup> tile: array<f32, 64>;\n")
		}
		fmt.Fprintf(&g.sb, "@compute @workgroup_size(%d, %d, %d) fn cmain(%s) {\n", wg[0], wg[1], wg[2], strings.Join(params, ", "))
		g.stmts(2+g.r.Intn(7), 3)
		val := obs()
		if useWG {
			fmt.Fprintf(&g.sb, "  tile[gid.x & 63u] = %s;\n  workgroupBarrier();\n", g.expr("f32", 2))
			val += " + tile[(gid.x + 1u) & 63u]"
		}
		fmt.Fprintf(&g.sb, "  let result: f32 = %s;\n", val)
		for _, w := range writes {
			w = strings.ReplaceAll(w, "IDX", "gid.x")
			w = strings.ReplaceAll(w, "VAL", "result")
			fmt.Fprintf(&g.sb, "  %s\n", w)
		}
		g.sb.WriteString("}\n")
	}
	_ = bufs
	return c18Program{Name: fmt.Sprintf("gen%d-%s", idx, stage), Src: g.sb.String(), Stage: stage}
}

// ---- the size dimension ---------------------------------------------------------------------------------------------
//
// c18GenerateBig builds a compute or vertex program of about nstmt statements, straight-line or with its statements
// grouped in bounded `for` loops with nested `if`s.  About 130 bytes of bitcode per statement: 50 / 300 / 800 / 1600
// statements give roughly 8 / 40 / 110 / 210 KiB of bitcode, so the writer's output buffer is reallocated many times
// while MODULE_BLOCK, FUNCTION_BLOCK, METADATA and the symbol table are open.  Only constructs that are clean on the
// pinned tree are used (no private variables, matrix variables or short-circuit operators), so the family is strict.
func c18GenerateBig(seed int64, idx, nstmt int, looped bool, stage string) c18Program {
	r := rand.New(rand.NewSource(seed*7919 + int64(idx)*104729 + int64(nstmt)))
	var sb strings.Builder
	sb.WriteString("struct P { a: vec4<f32>, k: u32 }\n@group(0) @binding(0) var<uniform> p: P;\n@group(0) @binding(1) var<storage, read> src: array<f32>;\n")
	if stage == "compute" {
		sb.WriteString("@group(0) @binding(2) var<storage, read_write> dst: array<f32>;\n")
		sb.WriteString("@compute @workgroup_size(64) fn cmain(@builtin(global_invocation_id) gid: vec3<u32>) {\n  let i: u32 = gid.x;\n")
	} else {
		sb.WriteString("struct VOut { @builtin(position) pos: vec4<f32>, @location(0) c: vec4<f32> }\n")
		sb.WriteString("@vertex fn vmain(@builtin(vertex_index) vi: u32, @location(0) pin: vec3<f32>) -> VOut {\n  let i: u32 = vi;\n")
	}
	sb.WriteString("  var acc: f32 = src[i];\n  var v: vec4<f32> = p.a;\n  var n: u32 = p.k;\n")
	if stage != "compute" {
		sb.WriteString("  acc = acc + pin.x * pin.y - pin.z;\n")
	}
	ind := "  "
	idxExpr := "i"
	one := func(s int) {
		switch r.Intn(8) {
		case 0, 1:
			fmt.Fprintf(&sb, "%sacc = acc * src[%s + %du] + %d.5;\n", ind, idxExpr, s, s%97)
		case 2:
			fmt.Fprintf(&sb, "%sif (acc > %d.0) { acc = acc - p.a.x; }\n", ind, s%211)
		case 3:
			fmt.Fprintf(&sb, "%sv = v * acc + vec4<f32>(%d.0, 1.0, 2.0, 3.0);\n", ind, s%53)
		case 4:
			fmt.Fprintf(&sb, "%slet t%d: f32 = sin(acc) + v.y;\n%sacc = acc + t%d * 0.5;\n", ind, s, ind, s)
		case 5:
			fmt.Fprintf(&sb, "%sn = (n * 3u + %du) & 1023u;\n", ind, s)
		case 6:
			fmt.Fprintf(&sb, "%sif (n > %du) { v.x = acc; } else { v.y = f32(n); }\n", ind, s%1024)
		default:
			fmt.Fprintf(&sb, "%sacc = select(acc, v.z + src[%s + %du], n == %du);\n", ind, idxExpr, s%64, s%1024)
		}
	}
	s := 0
	for s < nstmt {
		if looped && r.Intn(3) != 0 {
			k := 6 + r.Intn(14)
			fmt.Fprintf(&sb, "  for (var j%d: u32 = 0u; j%d < %du; j%d++) {\n", s, s, 2+r.Intn(3), s)
			ind, idxExpr = "    ", fmt.Sprintf("i + j%d", s)
			loopVar := s
			for q := 0; q < k && s < nstmt; q++ {
				s++
				one(s)
				if q == k/2 {
					fmt.Fprintf(&sb, "    if (acc < -%d.0) { %s; }\n", 1000+s, []string{"break", "continue"}[r.Intn(2)])
					s++
				}
			}
			_ = loopVar
			sb.WriteString("  }\n")
			ind, idxExpr = "  ", "i"
			s++
			continue
		}
		s++
		one(s)
	}
	if stage == "compute" {
		sb.WriteString("  dst[i] = acc + v.x + v.y + f32(n);\n}\n")
	} else {
		sb.WriteString("  var out: VOut;\n  out.pos = vec4<f32>(acc, v.x, 0.0, 1.0);\n  out.c = v + vec4<f32>(f32(n));\n  return out;\n}\n")
	}
	shape := "straight"
	if looped {
		shape = "looped"
	}
	return c18Program{Name: fmt.Sprintf("big%d-%s-%s-%d", idx, stage, shape, nstmt), Src: sb.String(), Stage: stage}
}
