package checks

import (
	"encoding/json"
	"fmt"
	"os"
	"sort"
	"strings"
	"sync"
	"time"

	"verif/harness/core"
)

// c16NamerLine is one label sequence exported by Namer.tla.
type c16NamerLine struct {
	Labels    [][]string `json:"labels"`
	Spellings [][]string `json:"spellings"`
	NS        []int      `json:"ns"`
	Dup       bool       `json:"dup"`
	BadKW     bool       `json:"badkw"`
	Illegal   bool       `json:"illegal"`
	Target    string     `json:"target"`
}

func (l c16NamerLine) labels() []string {
	var out []string
	for _, x := range l.Labels {
		out = append(out, strings.Join(x, ""))
	}
	return out
}

func namerCfg(targets, alphabet []string, maxLen, maxCalls int, faults []string, export bool, invs []string) string {
	return namerCfgS(targets, alphabet, maxLen, maxCalls, faults, export, invs, -1)
}

func namerCfgS(targets, alphabet []string, maxLen, maxCalls int, faults []string, export bool, invs []string, nspaces int) string {
	q := func(xs []string) string {
		var o []string
		for _, x := range xs {
			o = append(o, fmt.Sprintf("%q", x))
		}
		return "{" + strings.Join(o, ", ") + "}"
	}
	e, spaces := "FALSE", 2
	if export {
		e, spaces = "TRUE", 1
	}
	if nspaces >= 0 {
		spaces = nspaces
	}
	s := fmt.Sprintf("SPECIFICATION Spec\nCONSTANTS\n Targets = %s\n Alphabet = %s\n MaxLen = %d\n MaxCalls = %d\n Faults = %s\n MaxSpaces = %d\n Export = %s\nCHECK_DEADLOCK FALSE\n",
		q(targets), q(alphabet), maxLen, maxCalls, q(faults), spaces, e)
	for _, i := range invs {
		s += "INVARIANT " + i + "\n"
	}
	return s
}

const namerSelfMC = "---- MODULE NamerSelfMC ----\nEXTENDS Namer\nASSUME PrintT(\"@@\" \\o ToJson(SelfTest))\n====\n"

// c16Namer model-checks Namer.tla (design level), runs its fault self-test and
// collects the label sequences it exports: the nearly colliding ones (used as
// adversarial renamings) and the suspects (sequences for which the MODEL of a
// backend's namer returns a keyword / helper name / illegal spelling - they
// become findings only if the real output clashes, which Scopes.tla judges).
func c16Namer(c *core.Ctx) (sets [][]string, suspects []c16NamerLine, exact []c16NamerLine, ok bool) {
	if os.Getenv("C16_NONAMER") != "" { // development aid only: the check is incomplete without this step
		return [][]string{{"a", "a_1", "a"}, {"a1", "a1_", "a"}}, nil, nil, true
	}
	all := []string{"Injective", "KeywordFree", "Legal"}
	type run struct {
		name     string
		spec     string
		files    map[string][]byte
		cfg      string
		wantViol string // "" = must pass
		export   bool
		suspects bool
		selftest bool
	}
	base := []string{"a", "1", "_", "k"}
	three := []string{"hlsl", "msl", "glsl"}
	runs := []run{
		{name: "design/all-targets", cfg: namerCfg(three, base, c.Pick(2, 3), c.Pick(3, 2), nil, false, all)},
		{name: "design/helpers", cfg: namerCfg([]string{"hlsl", "msl"}, []string{"a", "_", "h", "k"}, 2, c.Pick(2, 3), nil, false, all)},
		{name: "design/case", cfg: namerCfg([]string{"hlsl"}, []string{"a", "_", "k", "K", "1"}, 2, c.Pick(2, 3), nil, false, all)},
		// non-ASCII letters: the escape u<hex>_ and the collapsing / trimming of the separators around it
		{name: "design/nonascii", cfg: namerCfg(three, []string{"a", "_", "e", "u", "9"}, c.Pick(2, 3), 2, nil, false, all)},
		// self-test: SelfTest (every named fault is detected by the invariant named with it) is printed by an ASSUME, and the
		// state machine itself runs with one seeded fault, which TLC must report
		{name: "selftest", spec: "NamerSelfMC", files: map[string][]byte{"NamerSelfMC.tla": []byte(namerSelfMC)},
			cfg: namerCfg([]string{"glsl"}, []string{"a"}, 1, 3, []string{"counter_stuck"}, false, all), wantViol: "Injective", selftest: true},
		// exports: interacting label sequences (target independent up to keywords: taken from the HLSL variant) ...
		{name: "export/len3", cfg: namerCfgS([]string{"hlsl"}, base, 3, 2, nil, true, nil, 0), export: true},
		{name: "export/calls3", cfg: namerCfgS([]string{"msl"}, []string{"a", "1", "_"}, 2, 3, nil, true, nil, 0), export: true},
		{name: "export/nonascii1", cfg: namerCfgS([]string{"msl"}, []string{"a", "_", "e", "u", "9", "1"}, 3, 1, nil, true, nil, 0), export: true},
		{name: "export/nonascii2", cfg: namerCfgS([]string{"msl"}, []string{"a", "_", "e"}, 2, 2, nil, true, nil, 0), export: true},
		// ... and suspects: what the model of each backend does with unprotected helper names, gl_ and non-ASCII letters
		{name: "suspects", cfg: namerCfg(three, []string{"a", "_", "n", "g", "e", "h", "K"}, 2, c.Pick(1, 2), nil, true, nil), export: true, suspects: true},
	}
	if !c.Quick() {
		runs = append(runs,
			run{name: "design/4calls", cfg: namerCfg(three, base, 2, 4, nil, false, all)},
			run{name: "design/len3calls3", cfg: namerCfg(three, []string{"a", "1", "_"}, 3, 3, nil, false, all)},
			run{name: "export/len3calls3", cfg: namerCfgS([]string{"msl"}, []string{"a", "1", "_"}, 3, 3, nil, true, nil, 0), export: true})
	}
	var mu sync.Mutex
	good := true
	seen := map[string]bool{}
	faultsSeen := 0
	core.ParMap(len(runs), core.Cores(), func(i int) {
		r := runs[i]
		spec := r.spec
		if spec == "" {
			spec = "Namer"
		}
		res, err := c.RunTLC(core.TLCOpts{Spec: spec, CfgText: r.cfg, Files: r.files, Workers: 1, HeapGB: 2, Timeout: 30 * time.Minute})
		mu.Lock()
		defer mu.Unlock()
		if os.Getenv("C16_DEBUG") != "" && res != nil {
			fmt.Fprintf(os.Stderr, "namer %s: %.1fs, %d distinct states, %d lines\n", r.name, res.Wall.Seconds(), res.Distinct, len(res.Printed))
		}
		if err != nil {
			c.BrokenF("Namer.tla %s: %v", r.name, err)
			good = false
			return
		}
		switch {
		case r.wantViol != "":
			if !strings.Contains(res.Violated, "Invariant "+r.wantViol+" ") {
				c.BrokenF("Namer.tla self-test %s: expected invariant %s to be violated, TLC says: violated=%q err=%q (vacuous invariant?)\n%s", r.name, r.wantViol, res.Violated, res.Err, res.Tail(12))
				good = false
				return
			}
			faultsSeen++
			if r.selftest {
				var st map[string]bool
				if len(res.Printed) == 0 || json.Unmarshal([]byte(res.Printed[0]), &st) != nil || len(st) < 8 {
					c.BrokenF("Namer.tla self-test: SelfTest was not printed\n%s", res.Tail(12))
					good = false
					return
				}
				for f, det := range st {
					if !det {
						c.BrokenF("Namer.tla self-test: seeded fault %s is not detected by its invariant (vacuous invariant?)", f)
						good = false
					} else {
						faultsSeen++
					}
				}
			}
		default:
			if !res.OK {
				c.BrokenF("Namer.tla %s: %s %s\n%s", r.name, res.Violated, res.Err, res.Tail(25))
				good = false
				return
			}
			c.AddTLC(res)
		}
		if r.export {
			for _, p := range res.Printed {
				var l c16NamerLine
				if err := json.Unmarshal([]byte(p), &l); err != nil {
					c.BrokenF("Namer.tla %s: bad export line: %v", r.name, err)
					good = false
					return
				}
				key := fmt.Sprint(l.labels(), l.NS)
				if r.suspects {
					if l.Dup || l.BadKW || l.Illegal {
						if k := l.Target + key; !seen[k] {
							seen[k] = true
							suspects = append(suspects, l)
						}
					}
					continue
				}
				if !seen[key] {
					seen[key] = true
					sets = append(sets, l.labels())
					exact = append(exact, l)
				}
			}
		}
	})
	if !good {
		return nil, nil, nil, false
	}
	sort.Slice(sets, func(i, j int) bool { return fmt.Sprint(sets[i]) < fmt.Sprint(sets[j]) })
	sort.Slice(suspects, func(i, j int) bool {
		return suspects[i].Target+fmt.Sprint(suspects[i].labels()) < suspects[j].Target+fmt.Sprint(suspects[j].labels())
	})
	c.Cov["namer_faults_detected"] = faultsSeen
	c.Cov["namer_label_sets_exported"] = len(sets)
	c.Cov["namer_suspect_sequences"] = len(suspects)
	if len(sets) < 20 {
		c.BrokenF("Namer.tla exported only %d nearly colliding label sequences", len(sets))
		return nil, nil, nil, false
	}
	sort.Slice(exact, func(i, j int) bool { return fmt.Sprint(exact[i].labels()) < fmt.Sprint(exact[j].labels()) })
	return sets, suspects, exact, true
}
