package checks

import (
	"encoding/json"
	"fmt"
	"sync"
	"time"

	"verif/harness/core"
	"verif/harness/wg"
)

// ctlCases runs the control-flow family generator CtlGen.tla: TLC enumerates every statement skeleton with at most k
// nodes (each an initial state), checks the Progress invariant on it and prints the program with the prescribed results.
// shards selects which residue classes (mod nshards) of the enumeration are produced in this run.
func ctlCases(c *core.Ctx, k, nshards int, shards []int) ([]*SemCase, error) {
	var mu sync.Mutex
	var out []*SemCase
	var firstErr error
	core.ParMap(len(shards), len(shards), func(i int) {
		cfg := fmt.Sprintf("SPECIFICATION Spec\nCONSTANTS K = %d Shard = %d NShards = %d\nINVARIANTS Progress EmitInv\n", k, shards[i], nshards)
		r, err := c.RunTLC(core.TLCOpts{Spec: "CtlGen", CfgText: cfg, Timeout: 40 * time.Minute, HeapGB: 3})
		if err == nil && !r.OK {
			if r.Violated != "" {
				err = fmt.Errorf("CtlGen: %s (the specification's own progress invariant fails)\n%s", r.Violated, r.Tail(30))
			} else {
				err = fmt.Errorf("CtlGen: %s\n%s", r.Err, r.Tail(20))
			}
		}
		if err != nil {
			mu.Lock()
			if firstErr == nil {
				firstErr = err
			}
			mu.Unlock()
			return
		}
		c.AddTLC(r)
		for _, l := range r.Printed {
			var rec struct {
				Prog   wg.N        `json:"prog"`
				Inputs [][][]int32 `json:"inputs"`
				Rows   []SemRow    `json:"rows"`
			}
			if err := json.Unmarshal([]byte(l), &rec); err != nil {
				mu.Lock()
				firstErr = fmt.Errorf("bad CtlGen line: %v", err)
				mu.Unlock()
				return
			}
			cs := &SemCase{Family: "ctl", Prog: rec.Prog, Inputs: rec.Inputs, Expect: rec.Rows}
			mu.Lock()
			cs.Desc = fmt.Sprintf("ctl k%d #%d.%d", k, shards[i], len(out))
			out = append(out, cs)
			mu.Unlock()
		}
	})
	return out, firstErr
}
