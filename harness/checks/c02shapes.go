package checks

import (
	"fmt"
	"strings"
)

// c02Shapes returns hand-shaped programs that are part of EVERY run (quick and thorough, all seeds) because the shape,
// not the volume, is what exposes the defect class:
//
//   - several entry points sharing helpers, where a helper (or a helper of a helper) is the ONLY user of a Uniform /
//     StorageBuffer / Workgroup / Private global, in different call orders: from SPIR-V 1.4 the interface of EVERY entry
//     point has to list those globals (SpvValid!ModuleEndRules, interface coverage);
//   - helper functions with 9-12 parameters in pairs that differ only in a late parameter type, only in the return type
//     or only in the parameter count: every function needs its own OpTypeFunction, OpFunctionParameter types and
//     OpFunctionCall argument types must match it, and function types must be unique.
func c02Shapes() (names, texts []string) {
	add := func(n, t string) { names, texts = append(names, n), append(texts, t) }

	add("shared-helper-2cs", `struct P { k: vec4<f32> }
@group(0) @binding(0) var<uniform> u: P;
@group(0) @binding(1) var<storage, read_write> o: array<vec4<f32>, 4>;
fn apply(v: vec4<f32>) -> vec4<f32> { return v * u.k; }
@compute @workgroup_size(1) fn forward() { o[0] = apply(o[1]); }
@compute @workgroup_size(1) fn backward() { o[2] = apply(o[3]); }
`)
	add("helper-of-helper", `@group(0) @binding(0) var<storage, read> table: array<u32, 8>;
@group(0) @binding(1) var<storage, read_write> o: array<u32, 8>;
var<workgroup> scratch: array<u32, 8>;
fn inner(i: u32) -> u32 { return table[i & 7u]; }
fn outer(i: u32) -> u32 { scratch[i & 7u] = inner(i); return scratch[(i + 1u) & 7u] + inner(i + 2u); }
@compute @workgroup_size(8) fn first(@builtin(local_invocation_index) li: u32) { o[li] = outer(li); }
@compute @workgroup_size(8) fn second(@builtin(local_invocation_index) li: u32) { o[li] = inner(li) + 1u; }
@compute @workgroup_size(8) fn third(@builtin(local_invocation_index) li: u32) { o[li] = outer(li + 3u) + inner(li); }
`)
	add("call-orders", `struct U { a: i32, b: i32 }
@group(0) @binding(0) var<uniform> ua: U;
@group(0) @binding(1) var<storage, read_write> acc: array<i32, 4>;
@group(1) @binding(0) var<storage, read> ro: array<i32, 4>;
var<private> pcount: i32 = 0;
fn h1(x: i32) -> i32 { pcount = pcount + 1; return x + ua.a; }
fn h2(x: i32) -> i32 { return x * ro[x & 3] + pcount; }
fn h3(x: i32) -> i32 { return h2(h1(x)); }
@compute @workgroup_size(1) fn ab() { acc[0] = h2(h1(1)); }
@compute @workgroup_size(1) fn ba() { acc[1] = h1(h2(2)); }
@compute @workgroup_size(1) fn only2() { acc[2] = h2(3); }
@compute @workgroup_size(1) fn deep() { acc[3] = h3(4); }
`)
	add("stages-share-helper", `struct M { m: mat4x4<f32>, tint: vec4<f32> }
@group(0) @binding(0) var<uniform> um: M;
@group(0) @binding(1) var<storage, read_write> log: array<vec4<f32>, 2>;
struct VO { @builtin(position) pos: vec4<f32>, @location(0) c: vec4<f32> }
fn shade(c: vec4<f32>) -> vec4<f32> { return c * um.tint; }
fn xform(p: vec4<f32>) -> vec4<f32> { return um.m * shade(p); }
@vertex fn vs(@location(0) p: vec4<f32>) -> VO { var o: VO; o.pos = xform(p); o.c = p; return o; }
@fragment fn fs(i: VO) -> @location(0) vec4<f32> { return shade(i.c); }
@compute @workgroup_size(1) fn cs() { log[0] = xform(log[1]); }
`)
	add("direct-then-through-helper", `@group(0) @binding(0) var<uniform> scale: vec4<u32>;
@group(0) @binding(1) var<storage, read_write> o: array<u32, 4>;
var<workgroup> w: array<u32, 4>;
fn viaHelper(i: u32) -> u32 { w[i & 3u] = i; return w[(i + 1u) & 3u] * scale.y; }
@compute @workgroup_size(4) fn direct(@builtin(local_invocation_index) li: u32) { w[li] = scale.x; o[li] = w[li] + viaHelper(li); }
@compute @workgroup_size(4) fn indirect(@builtin(local_invocation_index) li: u32) { o[li] = viaHelper(li); }
`)

	// ---- many-parameter helpers in pairs ------------------------------------------------------------------------------
	params := func(n int, ty string, lateIdx int, lateTy string) (decl, use, args string) {
		var ds, us, as []string
		for i := 0; i < n; i++ {
			t := ty
			if i == lateIdx {
				t = lateTy
			}
			ds = append(ds, fmt.Sprintf("p%d: %s", i, t))
			switch t {
			case "f32":
				us = append(us, fmt.Sprintf("p%d", i))
				as = append(as, fmt.Sprintf("%d.5", i))
			case "u32":
				us = append(us, fmt.Sprintf("f32(p%d)", i))
				as = append(as, fmt.Sprintf("%du", i))
			case "i32":
				us = append(us, fmt.Sprintf("f32(p%d)", i))
				as = append(as, fmt.Sprintf("%di", i))
			case "vec2<f32>":
				us = append(us, fmt.Sprintf("p%d.x", i))
				as = append(as, fmt.Sprintf("vec2<f32>(%d.0, 1.0)", i))
			case "vec2<i32>":
				us = append(us, fmt.Sprintf("f32(p%d.y)", i))
				as = append(as, fmt.Sprintf("vec2<i32>(%d, 1)", i))
			case "bool":
				us = append(us, fmt.Sprintf("select(0.0, 1.0, p%d)", i))
				as = append(as, "true")
			}
		}
		return strings.Join(ds, ", "), strings.Join(us, " + "), strings.Join(as, ", ")
	}
	pair := func(name string, n1 int, late1 string, ret1 string, n2 int, late2 string, ret2 string, lateIdx int) {
		d1, u1, a1 := params(n1, "f32", lateIdx, late1)
		d2, u2, a2 := params(n2, "f32", lateIdx, late2)
		conv := func(ret, e string) string {
			if ret == "f32" {
				return e
			}
			return ret + "(" + e + ")"
		}
		add(name, fmt.Sprintf(`@group(0) @binding(0) var<storage, read_write> o: array<f32, 4>;
fn box_a(%s) -> %s { return %s; }
fn box_b(%s) -> %s { return %s; }
fn both(k: f32) -> f32 { return f32(box_a(%s)) * k + f32(box_b(%s)); }
@compute @workgroup_size(1) fn main() { o[0] = f32(box_a(%s)); o[1] = f32(box_b(%s)); o[2] = both(2.0); }
`, d1, ret1, conv(ret1, u1), d2, ret2, conv(ret2, u2), a1, a2, a1, a2))
	}
	pair("params9-late-type", 9, "f32", "f32", 9, "u32", "f32", 8)
	pair("params12-late-type", 12, "vec2<f32>", "f32", 12, "vec2<i32>", "f32", 10)
	pair("params10-late-bool", 10, "i32", "f32", 10, "bool", "f32", 9)
	pair("params9-return-only", 9, "f32", "f32", 9, "f32", "u32", 8)
	pair("params-count-only", 9, "f32", "f32", 10, "f32", "f32", 8)
	pair("params11-last-type", 11, "u32", "i32", 11, "i32", "i32", 10)
	return
}
