package checks

import (
	"fmt"
	"testing"

	"verif/harness/core"
	"verif/harness/wg"
)

func demoProg() wg.N {
	out := wg.Arr(wg.I32, 8)
	in := wg.Arr(wg.I32, 4)
	rout := wg.RVar("out", out)
	rin := wg.RVar("inp", in)
	ld := func(i int) wg.N { return wg.Load(wg.RIdx(rin, wg.LitI(int32(i)), wg.I32)) }
	st := func(i int, e wg.N) wg.N { return wg.Asg(wg.RIdx(rout, wg.LitI(int32(i)), wg.I32), e) }
	ri := wg.RVar("i", wg.I32)
	body := []wg.N{
		st(0, wg.Bin("/", wg.I32, ld(0), ld(1))),
		st(1, wg.Bin("%", wg.I32, ld(0), ld(1))),
		st(2, wg.Bin("<<", wg.I32, ld(0), wg.Cast(wg.U32, ld(2)))),
		wg.Var("i", wg.I32, wg.LitI(0)),
		wg.Var("acc", wg.I32, wg.None),
		wg.Loop([]wg.N{
			wg.If(wg.Bin(">=", wg.Bool, wg.Load(ri), wg.LitI(4)), []wg.N{wg.Break()}, nil),
			wg.CAsg("+", wg.RVar("acc", wg.I32), wg.Call("h", wg.I32, wg.Load(wg.RIdx(rin, wg.Load(ri), wg.I32)), wg.Addr(wg.RVar("acc", wg.I32), "function"))),
		}, []wg.N{wg.Inc(ri)}, wg.None),
		st(3, wg.Load(wg.RVar("acc", wg.I32))),
		wg.Switch(ld(3), wg.Case([]int{1, 2}, false, []wg.N{st(4, wg.LitI(11))}), wg.Case(nil, true, []wg.N{st(4, wg.LitI(22))})),
	}
	h := wg.Fn("h", []wg.N{wg.Param("x", wg.I32), wg.Param("q", wg.Ptr("function", wg.I32))}, wg.I32, []wg.N{
		wg.Asg(wg.RDeref(wg.Id("q", wg.Ptr("function", wg.I32))), wg.Bin("+", wg.I32, wg.Load(wg.RDeref(wg.Id("q", wg.Ptr("function", wg.I32)))), wg.LitI(1))),
		wg.Ret(wg.Bin("*", wg.I32, wg.Id("x", wg.I32), wg.LitI(3))),
	})
	return wg.Program(nil, nil, []wg.N{
		wg.Global("inp", "storage", "r", in, 0, 0, wg.None),
		wg.Global("out", "storage", "rw", out, 0, 1, wg.None),
	}, []wg.N{h, wg.Entry("main", nil, body)})
}

func TestSemDemo(t *testing.T) {
	c := core.NewCtx("DEMO", "quick", "other")
	p := demoProg()
	fmt.Println(wg.Print(p))
	cs := []*SemCase{{Prog: p, Inputs: [][][]int32{
		{{-7, 2, 3, 1}, make([]int32, 8)},
		{{-2147483648, -1, 33, 5}, make([]int32, 8)},
		{{5, 0, 31, 2}, make([]int32, 8)},
	}}}
	if err := EvalSpec(c, cs, 1); err != nil {
		t.Fatal(err)
	}
	for _, r := range cs[0].Expect {
		fmt.Printf("%+v\n", r)
	}
}
