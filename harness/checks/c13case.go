package checks

import (
	"encoding/json"
	"strings"

	"github.com/gogpu/naga/ir"

	"verif/harness/irjson"
)

func c13Split(s, sep string) []string {
	var out []string
	for _, x := range strings.Split(s, sep) {
		if strings.TrimSpace(x) != "" {
			out = append(out, strings.TrimSpace(x))
		}
	}
	return out
}

func c13BufPairs(bufs []c13Buf) [][]int {
	out := make([][]int, len(bufs))
	for i, b := range bufs {
		out[i] = []int{b.Group, b.Binding}
	}
	return out
}

// c13CaseLine renders one IrRun case.
func c13CaseLine(id int, m *ir.Module, ep string, bufs []c13Buf, rows [][][]int32) []byte {
	b, err := json.Marshal(map[string]any{"id": id, "m": irjson.Export(m), "ep": ep, "bufs": c13BufPairs(bufs), "rows": rows})
	if err != nil {
		panic(err)
	}
	return append(b, '\n')
}
