package checks

import (
	"bufio"
	"encoding/json"
	"fmt"
	"math/bits"
	"os"
	"path/filepath"
	"time"

	"verif/harness/core"
)

// SelfTestWord32 runs Word32Test.tla and recomputes every row natively.
// It guards every check that uses Word32 against a common-mode arithmetic error.
func SelfTestWord32(c *core.Ctx) (rows int, err error) {
	dir := filepath.Join(c.WorkDir, "w32")
	r, e := c.RunTLC(core.TLCOpts{Spec: "Word32Test", Dir: dir, Timeout: 2 * time.Minute})
	if e != nil {
		return 0, e
	}
	if !r.OK {
		return 0, fmt.Errorf("Word32Test: %s %s\n%s", r.Violated, r.Err, r.Tail(15))
	}
	f, e := os.Open(filepath.Join(dir, "word32_table.ndjson"))
	if e != nil {
		return 0, e
	}
	defer f.Close()
	sc := bufio.NewScanner(f)
	sc.Buffer(make([]byte, 1<<20), 1<<20)
	for sc.Scan() {
		var m map[string]int64
		if e := json.Unmarshal(sc.Bytes(), &m); e != nil {
			return rows, e
		}
		a, b := int32(m["a"]), int32(m["b"])
		ua, ub := uint32(a), uint32(b)
		exp := map[string]int32{
			"add": int32(ua + ub), "sub": int32(ua - ub), "mul": int32(ua * ub), "neg": int32(-ua),
			"notw": ^a, "andw": a & b, "orw": a | b, "xorw": a ^ b,
			"ltu":  b2i(ua < ub),
			"shl":  int32(ua << (ub % 32)), "shrs": a >> (ub % 32), "shru": int32(ua >> (ub % 32)),
			"pop": int32(bits.OnesCount32(ua)), "clz": int32(bits.LeadingZeros32(ua)), "ctz": int32(bits.TrailingZeros32(ua)),
			"rev": int32(bits.Reverse32(ua)), "bytes": a,
		}
		if ub == 0 {
			exp["divu"], exp["remu"], exp["divs"], exp["rems"] = a, 0, a, 0
		} else {
			exp["divu"], exp["remu"] = int32(ua/ub), int32(ua%ub)
			if a == -2147483648 && b == -1 {
				exp["divs"], exp["rems"] = a, 0
			} else {
				exp["divs"], exp["rems"] = a/b, a%b
			}
		}
		if ua == 0 {
			exp["flbu"], exp["ftb"] = -1, -1
		} else {
			exp["flbu"], exp["ftb"] = int32(31-bits.LeadingZeros32(ua)), int32(bits.TrailingZeros32(ua))
		}
		switch {
		case a == 0 || a == -1:
			exp["flbs"] = -1
		case a < 0:
			exp["flbs"] = int32(31 - bits.LeadingZeros32(^ua))
		default:
			exp["flbs"] = int32(31 - bits.LeadingZeros32(ua))
		}
		lob := uint32(uint16(ub))
		off, cnt := lob%40, (lob/64)%40
		exp["exu"], exp["exs"] = int32(extractU(ua, off, cnt)), extractS(a, off, cnt)
		loa := uint32(uint16(ua))
		exp["ins"] = int32(insertBits(ua, ub, lob%40, (loa/4)%40))
		for k, v := range exp {
			if int32(m[k]) != v {
				return rows, fmt.Errorf("Word32 mismatch: %s(%d,%d) TLA+=%d native=%d", k, a, b, m[k], v)
			}
		}
		rows++
	}
	if rows < 100 {
		return rows, fmt.Errorf("Word32 table has only %d rows", rows)
	}
	return rows, nil
}

func b2i(b bool) int32 {
	if b {
		return 1
	}
	return 0
}

func clampOC(off, cnt uint32) (uint32, uint32) {
	o := min(off, 32)
	c := min(cnt, 32-o)
	return o, c
}

func extractU(e, off, cnt uint32) uint32 {
	o, c := clampOC(off, cnt)
	if c == 0 {
		return 0
	}
	if c == 32 {
		return e
	}
	return (e >> o) & (1<<c - 1)
}

func extractS(e int32, off, cnt uint32) int32 {
	o, c := clampOC(off, cnt)
	if c == 0 {
		return 0
	}
	if c == 32 {
		return e
	}
	return int32(uint32(e)<<(32-c-o)) >> (32 - c)
}

func insertBits(e, nb, off, cnt uint32) uint32 {
	o, c := clampOC(off, cnt)
	if c == 0 {
		return e
	}
	var mask uint32
	if c == 32 {
		mask = ^uint32(0)
	} else {
		mask = (1<<c - 1) << o
	}
	return (e &^ mask) | ((nb << o) & mask)
}
