package checks

import (
	"bufio"
	"encoding/json"
	"fmt"
	"os"
	"strings"
	"testing"
)

// TestC08Render is a development aid: C08_LINES=<file of AcceptGen JSON lines> go test -run TestC08Render
// renders every line, replays it and prints the calls that fail (C08_SHOW=1 also prints the WGSL).
func TestC08Render(t *testing.T) {
	path := os.Getenv("C08_LINES")
	if path == "" {
		t.Skip("C08_LINES not set")
	}
	f, err := os.Open(path)
	if err != nil {
		t.Fatal(err)
	}
	defer f.Close()
	sc := bufio.NewScanner(f)
	sc.Buffer(make([]byte, 1<<20), 1<<24)
	var trace *os.File
	if tp := os.Getenv("C08_TRACE"); tp != "" {
		trace, _ = os.Create(tp)
		defer trace.Close()
	}
	classes := map[string]int{}
	example := map[string]string{}
	n := 0
	for sc.Scan() {
		l := strings.TrimSpace(sc.Text())
		if strings.HasPrefix(l, "\"@@") {
			var s string
			if json.Unmarshal([]byte(l), &s) != nil {
				continue
			}
			l = s[2:]
		} else if strings.HasPrefix(l, "@@") {
			l = l[2:]
		} else if !strings.HasPrefix(l, "{") {
			continue
		}
		var d agModule
		if err := json.Unmarshal([]byte(l), &d); err != nil {
			t.Fatalf("bad line: %v", err)
		}
		n++
		src, pcs := renderAcceptPC(&d)
		p := &acProg{ID: n, Family: "accept", Src: src, Claim: []string{"front", "validate", "spv", "hlsl", "msl", "glsl"}, Spec: &d, Constr: d.constructs(), Consts: pcs}
		replayAccept(p, true, 0)
		if trace != nil {
			for _, ev := range p.Events {
				b, _ := json.Marshal(ev)
				trace.Write(append(b, '\n'))
			}
		}
		if os.Getenv("C08_SHOW") != "" && n <= 5 {
			fmt.Println(p.Src)
		}
		for i, es := range p.Errs {
			ev := p.Events[i]
			k := fmt.Sprintf("%s %s/%s: %s", ev.St, ev.B, ev.Opt, normErr(strings.Join(es, " | ")))
			classes[k]++
			if _, ok := example[k]; !ok {
				example[k] = p.Src
			}
		}
	}
	fmt.Println("programs:", n)
	for k, v := range classes {
		fmt.Printf("%6d  %s\n", v, k)
	}
	if os.Getenv("C08_EX") != "" {
		for k, v := range example {
			fmt.Printf("==== %s\n%s\n", k, v)
		}
	}
}
