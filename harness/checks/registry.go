// Package checks holds one check per property.
package checks

// Registry maps a property id to its check: func(tier, replayFile) exit code.
var Registry = map[string]func(tier, replay string) int{}
