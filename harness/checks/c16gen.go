package checks

import (
	"math/rand"
	"sort"
	"strings"
	"unicode"

	"verif/harness/c16x"
)

// c16Gen draws renamings.  Every random choice comes from the run's seeded generator.
type c16Gen struct {
	rng       *rand.Rand
	res       map[string]c16x.Reserved
	labelSets [][]string // nearly colliding label sets exported by Namer.tla (symbols a 1 _ k K h n g e)
	suspects  []c16NamerLine
	exact     []c16NamerLine // exported sequences with the spellings the model predicts
	derived    map[string][]string // program -> every derived-name candidate, shuffled once
	derivedPos map[string]int
	union     []string
}

func (g *c16Gen) pick(xs []string) string { return xs[g.rng.Intn(len(xs))] }

// reservedPool: the reserved words of one backend, or of all three.
func (g *c16Gen) reservedPool(lang string) []string {
	if lang != "" {
		r := g.res[lang]
		out := append([]string{}, r.Words...)
		out = append(out, r.FnOnly...)
		for _, w := range r.CI {
			out = append(out, w, strings.ToUpper(w), strings.ToUpper(w[:1])+w[1:])
		}
		return out
	}
	if g.union == nil {
		seen := map[string]bool{}
		for _, l := range c16Backends {
			for _, w := range g.reservedPool(l) {
				if !seen[w] {
					seen[w] = true
					g.union = append(g.union, w)
				}
			}
		}
		sort.Strings(g.union)
	}
	return g.union
}

func (g *c16Gen) candidatePool(lang string) []string {
	if lang == "" {
		lang = g.pick(c16Backends)
	}
	return c16x.Candidates[lang]
}

// family: spellings that differ from stem only by what the namer adds or removes.
func family(stem string) []string {
	up := stem
	for i, r := range stem {
		if unicode.IsLower(r) {
			up = stem[:i] + string(unicode.ToUpper(r)) + stem[i+len(string(r)):]
			break
		}
	}
	out := []string{stem, stem + "_", stem + "_1", stem + "1", stem + "1_", stem + "_1_1", stem + "_2", stem + "_1_", stem + "__1", stem + "_0",
		stem + "__", stem + "_1_2", stem + "2", stem + "_01", strings.ToUpper(stem), "_" + stem, "_" + stem + "_1"}
	if up != stem {
		out = append(out, up, up+"_1")
	}
	return out
}

// unprotected: helper names a backend generates without protecting them (read from the backends).
var unprotected = map[string][]string{
	"hlsl": {"naga_neg", "naga_abs", "NagaBufferLengthRW", "NagaBufferLength"},
	"msl":  {"naga_neg", "naga_abs", "naga_f2i32", "naga_f2u32"},
	"glsl": {"naga_modf", "naga_frexp", "_naga_div", "_naga_mod", "naga_vs_first_instance"},
}

// concrete maps a label over Namer.tla's alphabet to an identifier: a -> the
// stem, digits and _ -> themselves, k -> a keyword of the target (K: in upper
// case), h -> a protected helper name, n -> an unprotected one, g -> "gl_",
// e -> a non-ASCII letter.
func (g *c16Gen) concrete(label, stem, kw, helper, unprot string) string {
	var sb strings.Builder
	for _, r := range label {
		switch r {
		case 'a':
			sb.WriteString(stem)
		case 'k':
			sb.WriteString(kw)
		case 'K':
			sb.WriteString(strings.ToUpper(kw))
		case 'h':
			sb.WriteString(helper)
		case 'n':
			sb.WriteString(unprot)
		case 'g':
			sb.WriteString("gl_")
		case 'e':
			sb.WriteString("é")
		default:
			sb.WriteRune(r)
		}
	}
	return sb.String()
}

var c16LocalKinds = map[string]bool{"member": true, "param": true, "let": true, "var": true, "lconst": true}

// usable: may entity `old` (baseline name) of program p be called n?
func usable(p *c16Prog, old, n string, taken map[string]bool) bool {
	if n == old || taken[n] || p.idents[n] {
		return false
	}
	switch c16x.WgslNameClass(n) {
	case "":
		return false
	case "predeclared":
		for _, k := range p.kinds[old] {
			if !c16LocalKinds[k] {
				return false
			}
		}
	}
	return true
}

// make draws one renaming of b's program.
func (g *c16Gen) make(b *c16Base) *c16Case {
	p := b.prog
	if len(p.names) == 0 {
		return nil
	}
	cs := &c16Case{Base: b, Ren: c16x.Renaming{}, Class: map[string]string{}}
	if p.ID == "namerprobe" {
		return g.makeExact(b)
	}
	taken := map[string]bool{}
	assign := func(old, n, class string) bool {
		if _, done := cs.Ren[old]; done || !usable(p, old, n, taken) {
			return false
		}
		cs.Ren[old] = n
		cs.Class[n] = class
		taken[n] = true
		return true
	}
	order := g.rng.Perm(len(p.names))
	ent := func(i int) string { return p.names[order[i%len(order)]] }
	lang := b.backend
	if g.rng.Intn(3) == 0 {
		lang = "" // union / another backend's words
	}
	// how many entities change: one, a few, or all
	count := func() int {
		switch g.rng.Intn(4) {
		case 0:
			return 1
		case 1:
			return 2 + g.rng.Intn(3)
		case 2:
			return (len(p.names) + 1) / 2
		}
		return len(p.names)
	}
	fromPool := func(pool []string, class string, n int) {
		for i := 0; i < n; i++ {
			for try := 0; try < 8; try++ {
				if assign(ent(i), g.pick(pool), class) {
					break
				}
			}
		}
	}
	switch s := g.rng.Intn(22); {
	case s >= 20:
		// names that naga derives from OTHER entities' names (read from the backends): constructors, matrix accessors,
		// interface structs, interface block names, matrix column members
		cs.Strategy = "derived"
		all := g.derivedNames(p)
		if len(all) == 0 {
			return nil
		}
		next := func() string {
			k := g.derivedPos[p.ID] % len(all)
			g.derivedPos[p.ID]++
			return all[k]
		}
		nn := 1 + g.rng.Intn(3)
		for i := 0; i < len(order) && nn > 0; i++ {
			for try := 0; try < 6; try++ {
				n := next()
				old := ent(i)
				// a column-member name goes to a member, the others to anything
				if (strings.HasSuffix(n, "_0") || strings.HasSuffix(n, "_1") || strings.HasSuffix(n, "_2")) && p.kinds[old][0] != "member" {
					continue
				}
				if assign(old, n, "derived") {
					nn--
					break
				}
			}
		}
	case s < 5:
		cs.Strategy = "reserved"
		cl := "reserved-" + lang
		if lang == "" {
			cl = "reserved-union"
		}
		fromPool(g.reservedPool(lang), cl, count())
	case s < 7:
		cs.Strategy = "library"
		fromPool(g.candidatePool(lang), "library", count())
	case s < 8:
		cs.Strategy = "front"
		fromPool(c16x.Candidates["front"], "front", count())
	case s < 11:
		cs.Strategy = "naga"
		fromPool(c16x.Candidates["naga"], "naga", count())
	case s < 15:
		cs.Strategy = "family"
		// stems: a benign word, a reserved word, a library / helper name, another entity's (baseline) name
		var stem, class string
		switch g.rng.Intn(5) {
		case 0:
			stem, class = g.pick([]string{"val", "x", "tmp", "v", "data"}), "family-benign"
		case 1:
			stem, class = g.pick(g.reservedPool(lang)), "family-reserved"
		case 2:
			stem, class = g.pick(g.candidatePool(lang)), "family-library"
		case 3:
			stem, class = g.pick(c16x.Candidates["naga"]), "family-naga"
		default:
			stem, class = ent(len(order)-1), "family-entity"
		}
		fam := family(stem)
		g.rng.Shuffle(len(fam), func(i, j int) { fam[i], fam[j] = fam[j], fam[i] })
		n := count()
		if n < 3 {
			n = 3
		}
		// half of the time the family goes to entities of ONE kind group (members / function-level / module-level)
		group := g.rng.Intn(2) == 0
		want := ""
		if group {
			want = g.pick([]string{"member", "local", "module"})
		}
		fi := 0
		for i := 0; i < len(order) && n > 0 && fi < len(fam); i++ {
			old := ent(i)
			if want != "" {
				k := p.kinds[old][0]
				kg := "module"
				if k == "member" {
					kg = "member"
				} else if c16LocalKinds[k] {
					kg = "local"
				}
				if kg != want {
					continue
				}
			}
			for fi < len(fam) {
				ok := assign(old, fam[fi], class)
				fi++
				if ok {
					n--
					break
				}
			}
		}
	case s < 16:
		cs.Strategy = "case"
		fromPool(c16x.CaseVariants, "case", count())
	case s < 17:
		cs.Strategy = "nonascii"
		fromPool(c16x.NonASCII, "nonascii", count())
	case s < 19 && len(g.labelSets) > 0:
		cs.Strategy = "namer"
		set := g.labelSets[g.rng.Intn(len(g.labelSets))]
		want := g.pick([]string{"member", "local", "module", ""})
		class := "namer"
		if g.rng.Intn(3) == 0 {
			// a sequence for which the MODEL of this backend's namer returns a bad spelling
			var mine []c16NamerLine
			for _, sp := range g.suspects {
				if sp.Target == b.backend {
					mine = append(mine, sp)
				}
			}
			if len(mine) > 0 {
				sp := mine[g.rng.Intn(len(mine))]
				set, class, want = sp.labels(), "namer-suspect", "module"
				if sp.NS[0] != 0 {
					want = "member"
				}
			}
		}
		stem := g.pick([]string{"v", "val", "q", "u00e"})
		kw := g.pick(g.res[b.backend].Words)
		helper := g.pick([]string{"naga_div", "naga_mod", "naga_modf", "naga_frexp"})
		unprot := g.pick(unprotected[b.backend])
		li := 0
		for i := 0; i < len(order) && li < len(set); i++ {
			old := ent(i)
			if want != "" {
				k := p.kinds[old][0]
				kg := "module"
				if k == "member" {
					kg = "member"
				} else if c16LocalKinds[k] {
					kg = "local"
				}
				if kg != want {
					continue
				}
			}
			n := g.concrete(set[li], stem, kw, helper, unprot)
			if stem == "u00e" {
				n = strings.ReplaceAll(n, "u00e1", "u00e9")
			}
			if assign(old, n, class) {
				li++
			} else if c16x.WgslNameClass(n) == "" || taken[n] || p.idents[n] {
				li++ // not usable here (not a WGSL identifier, or already present): drop the label
				i--
			}
		}
	default:
		cs.Strategy = "mixed"
		n := count()
		for i := 0; i < n; i++ {
			var pool []string
			var class string
			switch g.rng.Intn(6) {
			case 0:
				pool, class = g.reservedPool(""), "reserved-union"
			case 1:
				pool, class = g.candidatePool(""), "library"
			case 2:
				pool, class = c16x.Candidates["naga"], "naga"
			case 3:
				pool, class = c16x.CaseVariants, "case"
			case 4:
				pool, class = c16x.NonASCII, "nonascii"
			default:
				pool, class = family(g.pick(c16x.Candidates["naga"])), "family-naga"
			}
			for try := 0; try < 8; try++ {
				if assign(ent(i), g.pick(pool), class) {
					break
				}
			}
		}
	}
	if len(cs.Ren) == 0 {
		return nil
	}
	return cs
}

// makeExact names the four probe locals of the namerprobe program by a label
// sequence exported by Namer.tla and records the spellings the specification
// predicts, so that the real namer is compared with the model call by call.
func (g *c16Gen) makeExact(b *c16Base) *c16Case {
	p := b.prog
	if len(g.exact) == 0 {
		return nil
	}
	line := g.exact[g.rng.Intn(len(g.exact))]
	// the probe locals in function order
	var locals []string
	for _, want := range []string{"probe_a", "probe_b", "probe_c", "probe_d"} {
		for bn, on := range p.orig {
			if on == want {
				locals = append(locals, bn)
			}
		}
	}
	if len(locals) != 4 || len(line.Labels) > 4 {
		return nil
	}
	stem := g.pick([]string{"q", "val", "w"})
	// the model's `k` is a LETTER that is a keyword: take a keyword made of letters only
	var kws []string
	for _, w := range g.res[b.backend].Words {
		if strings.IndexFunc(w, func(r rune) bool { return !unicode.IsLetter(r) }) < 0 {
			kws = append(kws, w)
		}
	}
	kw := g.pick(kws)
	cs := &c16Case{Base: b, Strategy: "namer-exact", Ren: c16x.Renaming{}, Class: map[string]string{}, Predict: map[string]string{}}
	// the model writes a non-ASCII letter as the symbols u 9 _ : é (U+00E9) is written u00e9_
	exactName := func(syms []string) string {
		var sb strings.Builder
		for _, c := range syms {
			switch c {
			case "u":
				sb.WriteString("u00e")
			case "e":
				sb.WriteString("é")
			default:
				sb.WriteString(g.concrete(c, stem, kw, "", ""))
			}
		}
		return sb.String()
	}
	for i, lab := range line.Labels {
		n := exactName(lab)
		if c16x.WgslNameClass(n) != "plain" || p.idents[n] {
			return nil
		}
		cs.Ren[locals[i]] = n
		cs.Class[n] = "namer"
		cs.Predict[locals[i]] = exactName(line.Spellings[i])
	}
	return cs
}

// derivedNames lists, for one program, every name that naga would derive from
// the program's own (baseline) names by the patterns read from the backends:
// HLSL constructors and matrix accessors, interface structs, GLSL interface
// block names, HLSL matrix column members, MSL stage-in/out structs.
func (g *c16Gen) derivedNames(p *c16Prog) []string {
	if g.derived == nil {
		g.derived, g.derivedPos = map[string][]string{}, map[string]int{}
	}
	if v, ok := g.derived[p.ID]; ok {
		return v
	}
	byKind := map[string][]string{}
	for _, n := range p.names {
		for _, k := range p.kinds[n] {
			byKind[k] = append(byKind[k], n)
		}
	}
	pats := []string{"Construct{T}", "ret_Construct{T}", "Constructarray2_{T}_", "Constructarray3_{T}_", "ret_Constructarray3_{T}_", "Constructarray4_int_",
		"ret_Constructarray4_int_", "GetMat{m}On{T}", "SetMat{m}On{T}", "SetMatVec{m}On{T}", "SetMatScalar{m}On{T}", "{m}_0", "{m}_1", "{m}_2",
		"VertexOutput_{ep}", "FragmentInput_{ep}", "fragmentinput_{ep}", "{ep}Input", "{ep}Output", "varyings", "varyings_1", "varyings_2",
		"{T}_block_0Compute", "{T}_block_1Compute", "{T}_block_2Compute", "{T}_block_0Vertex", "{T}_block_0Fragment", "type_1_block_0Compute",
		"type_4_block_1Compute", "type_5_block_1Vertex", "type_8_block_0Compute", "{ep}_1", "{T}_1", "{m}_"}
	seen := map[string]bool{}
	var out []string
	var expand func(pat string)
	expand = func(pat string) {
		for _, ph := range []struct{ key, kind string }{{"{T}", "struct"}, {"{m}", "member"}, {"{ep}", "entry"}} {
			if strings.Contains(pat, ph.key) {
				for _, n := range byKind[ph.kind] {
					expand(strings.Replace(pat, ph.key, n, 1))
				}
				return
			}
		}
		if !seen[pat] {
			seen[pat] = true
			out = append(out, pat)
		}
	}
	for _, pat := range pats {
		expand(pat)
	}
	sort.Strings(out)
	g.rng.Shuffle(len(out), func(i, j int) { out[i], out[j] = out[j], out[i] })
	g.derived[p.ID] = out
	return out
}

// sweep lists single-name renamings systematically: every name of the generated-name pools (naga's helpers and
// temporaries, names derived from the program's own names, names the front end treats specially) given to one
// entity of each kind group (member / function-level / module-level, functions and the rest separately).
func (g *c16Gen) sweep(b *c16Base) []*c16Case {
	p := b.prog
	var pool []string
	pool = append(pool, c16x.Candidates["naga"]...)
	pool = append(pool, c16x.Candidates["front"]...)
	pool = append(pool, g.derivedNames(p)...)
	for _, l := range c16Backends {
		pool = append(pool, unprotected[l]...)
	}
	groups := map[string][]string{}
	for _, n := range p.names {
		k := p.kinds[n][0]
		kg := "module"
		switch {
		case k == "member":
			kg = "member"
		case c16LocalKinds[k]:
			kg = "local"
		case k == "fn":
			kg = "fn"
		case k == "struct":
			kg = "struct"
		}
		groups[kg] = append(groups[kg], n)
	}
	var out []*c16Case
	seen := map[string]bool{}
	for _, n := range pool {
		if seen[n] {
			continue
		}
		seen[n] = true
		for _, kg := range []string{"member", "local", "fn", "struct", "module"} {
			es := groups[kg]
			if len(es) == 0 {
				continue
			}
			old := es[g.rng.Intn(len(es))]
			if !usable(p, old, n, map[string]bool{}) {
				continue
			}
			out = append(out, &c16Case{Base: b, Strategy: "sweep", Ren: c16x.Renaming{old: n}, Class: map[string]string{n: "generated-pool"}})
		}
	}
	return out
}

// cover builds renamings that, between them, use EVERY word of b's backend's independent reserved list (and the case
// variants of its case-insensitive words) at least once: the words are dealt out to the program's entities, a
// different entity kind for a word from one rotation to the next (rot).
func (g *c16Gen) cover(b *c16Base, rot int) []*c16Case {
	return g.coverWords(b, rot, g.reservedPool(b.backend), "reserved-"+b.backend)
}

// coverWords deals the given words out to the program's entities (see cover).
func (g *c16Gen) coverWords(b *c16Base, rot int, words []string, class string) []*c16Case {
	p := b.prog
	var out []*c16Case
	names := append([]string{}, p.names...)
	if len(names) == 0 {
		return nil
	}
	wi := 0
	for wi < len(words) {
		cs := &c16Case{Base: b, Strategy: "cover", Ren: c16x.Renaming{}, Class: map[string]string{}}
		taken := map[string]bool{}
		for k := 0; k < len(names) && wi < len(words); k++ {
			old := names[(k+rot+len(out))%len(names)]
			// the next usable word for this entity
			for tries := 0; tries < 4 && wi < len(words); tries++ {
				w := words[wi]
				wi++
				if _, done := cs.Ren[old]; !done && usable(p, old, w, taken) {
					cs.Ren[old] = w
					cs.Class[w] = class
					taken[w] = true
					break
				}
			}
		}
		if len(cs.Ren) > 0 {
			out = append(out, cs)
		}
	}
	return out
}

// twins builds renamings in which a module-scope entity and a function-level one (and two members) get names that
// differ only in what the sanitiser removes (a trailing `_`, a doubled `__`): the namer must keep them apart
// although their sanitised bases coincide.
func (g *c16Gen) twins(b *c16Base) []*c16Case {
	p := b.prog
	var mod, loc, mem []string
	for _, n := range p.names {
		switch k := p.kinds[n][0]; {
		case k == "member":
			mem = append(mem, n)
		case c16LocalKinds[k]:
			loc = append(loc, n)
		case strings.HasPrefix(k, "global-") || k == "const" || k == "fn":
			mod = append(mod, n)
		}
	}
	pairs := [][2]string{{"total_", "total"}, {"total", "total_"}, {"to__tal", "to_tal"}, {"sum__", "sum"}, {"acc_1_", "acc_1"}, {"w__1", "w_1"}}
	var out []*c16Case
	add := func(a, b2 string, pr [2]string) {
		cs := &c16Case{Base: b, Strategy: "twins", Ren: c16x.Renaming{}, Class: map[string]string{}}
		taken := map[string]bool{}
		if usable(p, a, pr[0], taken) {
			taken[pr[0]] = true
			if usable(p, b2, pr[1], taken) {
				cs.Ren[a], cs.Ren[b2] = pr[0], pr[1]
				cs.Class[pr[0]], cs.Class[pr[1]] = "twin", "twin"
				out = append(out, cs)
			}
		}
	}
	for i, pr := range pairs {
		if len(mod) > 0 && len(loc) > 0 {
			// every function-level entity in turn, so that one of them is used next to the module-scope twin
			add(mod[(i+g.rng.Intn(len(mod)))%len(mod)], loc[(i*7+g.rng.Intn(len(loc)))%len(loc)], pr)
		}
		if len(mem) > 1 {
			add(mem[i%len(mem)], mem[(i+1)%len(mem)], pr)
		}
	}
	return out
}
