package checks

import (
	"bytes"
	"encoding/binary"
	"fmt"
	"sort"
	"strings"

	"github.com/gogpu/naga/wgsl"

	"verif/harness/drive"
	"verif/harness/irx"
	"verif/harness/wgslx"
)

// c19Out is everything C19 observes of one compilation.
type c19Out struct {
	Accepted bool
	Stage    string // parse | lower | panic
	Err      string
	IR       string            // canonical dump of the lowered module
	IRNN     string            // the same without programmer-chosen names
	Art      map[string][]byte // backend (glsl: one per entry point, "glsl#i") -> bytes, or "ERR:..." text
}

var c19Backends = []string{"spv", "hlsl", "msl", "glsl"}

// c19Compile runs the front end and, if backends is true, the four backends with their default options.
func c19Compile(src string, backends bool) *c19Out {
	o := &c19Out{Art: map[string][]byte{}}
	m, stage, err := drive.Front(src)
	if err != nil {
		o.Stage, o.Err = stage, err.Error()
		return o
	}
	o.Accepted = true
	o.IR = irx.Dump(m)
	o.IRNN = irx.DumpNoNames(m)
	if !backends {
		return o
	}
	put := func(key string, b []byte, err error) {
		if err != nil {
			o.Art[key] = []byte("ERR:" + err.Error())
		} else {
			o.Art[key] = b
		}
	}
	for _, be := range []string{"spv", "hlsl", "msl"} {
		b, err := drive.Compile(be, "default", m, "")
		put(be, b, err)
	}
	for i, ep := range m.EntryPoints {
		b, err := drive.Compile("glsl", "430", m, ep.Name)
		put(fmt.Sprintf("glsl#%d", i), b, err)
	}
	// the backends must not have changed the module (else later artefacts depend on earlier ones)
	return o
}

// stripMarkers removes the renaming marker (and the non-ASCII letter of style 2) from a text.
func stripMarkers(s string) string {
	s = strings.ReplaceAll(s, wgslx.Marker+"é", "")
	s = strings.ReplaceAll(s, wgslx.Marker+"_u00e9_", "") // the text backends spell a non-ASCII code point _uXXXX_
	return strings.ReplaceAll(s, wgslx.Marker, "")
}

// spvNormalizeNames drops debug instructions and strips the renaming marker from entry-point names.
func spvNormalizeNames(b []byte) []byte {
	if len(b) < 20 || len(b)%4 != 0 {
		return b
	}
	w := make([]uint32, len(b)/4)
	for i := range w {
		w[i] = binary.LittleEndian.Uint32(b[4*i:])
	}
	out := append([]uint32(nil), w[:5]...)
	for i := 5; i < len(w); {
		n, op := int(w[i]>>16), w[i]&0xffff
		if n == 0 || i+n > len(w) {
			return b
		}
		ins := w[i : i+n]
		switch op {
		case 2, 3, 4, 5, 6, 7, 8, 317, 330: // SourceContinued Source SourceExtension Name MemberName String Line NoLine ModuleProcessed
		case 15: // OpEntryPoint model id name... interface
			var raw []byte
			j := 3
			for ; j < n; j++ {
				var q [4]byte
				binary.LittleEndian.PutUint32(q[:], ins[j])
				raw = append(raw, q[:]...)
				if q[3] == 0 {
					j++
					break
				}
			}
			name := string(bytes.TrimRight(raw, "\x00"))
			name = stripMarkers(name)
			nb := append([]byte(name), 0)
			for len(nb)%4 != 0 {
				nb = append(nb, 0)
			}
			rest := ins[j:]
			nn := 3 + len(nb)/4 + len(rest)
			out = append(out, uint32(nn)<<16|15, ins[1], ins[2])
			for k := 0; k < len(nb); k += 4 {
				out = append(out, binary.LittleEndian.Uint32(nb[k:]))
			}
			out = append(out, rest...)
		default:
			out = append(out, ins...)
		}
		i += n
	}
	res := make([]byte, 4*len(out))
	for i, x := range out {
		binary.LittleEndian.PutUint32(res[4*i:], x)
	}
	return res
}

// identSkeleton replaces every identifier run of a text by one placeholder byte.
func identSkeleton(s string) string {
	var sb strings.Builder
	isStart := func(c byte) bool { return c == '_' || (c >= 'a' && c <= 'z') || (c >= 'A' && c <= 'Z') || c >= 0x80 }
	isCont := func(c byte) bool { return isStart(c) || (c >= '0' && c <= '9') }
	for i := 0; i < len(s); {
		if isStart(s[i]) && (i == 0 || !isCont(s[i-1])) {
			j := i + 1
			for j < len(s) && isCont(s[j]) {
				j++
			}
			sb.WriteByte(1)
			i = j
			continue
		}
		sb.WriteByte(s[i])
		i++
	}
	return sb.String()
}

// c19Diff is one observed difference between the compilation before and after an edit.
type c19Diff struct {
	Where  string // accept ir spv hlsl msl glsl
	Effect string
	Detail string
}

func firstDiff(a, b string) string {
	n := min(len(a), len(b))
	i := 0
	for i < n && a[i] == b[i] {
		i++
	}
	lo := max(0, i-60)
	return fmt.Sprintf("at byte %d: before %q after %q", i, a[lo:min(len(a), i+60)], b[lo:min(len(b), i+60)])
}

// c19Compare applies the oracle of C19.  renamed: the script contains a renaming (names are compared modulo the
// marker, text outputs modulo a consistent identifier mapping as fallback).
func c19Compare(before, after *c19Out, renamed bool) []c19Diff {
	var ds []c19Diff
	if before.Accepted != after.Accepted {
		if before.Accepted {
			return []c19Diff{{"accept", "rejected-after", fmt.Sprintf("accepted before, rejected after at %s: %s", after.Stage, after.Err)}}
		}
		return []c19Diff{{"accept", "accepted-after", fmt.Sprintf("rejected before at %s (%s), accepted after", before.Stage, before.Err)}}
	}
	if !before.Accepted {
		return nil
	}
	if renamed {
		if stripMarkers(after.IR) != before.IR {
			eff := "ir-names-differ"
			if after.IRNN != before.IRNN {
				eff = "ir-structure-differs"
			}
			ds = append(ds, c19Diff{"ir", eff, firstDiff(before.IR, stripMarkers(after.IR))})
		}
	} else if after.IR != before.IR {
		eff := "ir-names-differ"
		if after.IRNN != before.IRNN {
			eff = "ir-structure-differs"
		}
		ds = append(ds, c19Diff{"ir", eff, firstDiff(before.IR, after.IR)})
	}
	keys := make([]string, 0, len(before.Art))
	for k := range before.Art {
		keys = append(keys, k)
	}
	sort.Strings(keys)
	if len(after.Art) != len(before.Art) {
		ds = append(ds, c19Diff{"glsl", "entry-point-count", fmt.Sprintf("%d artefacts before, %d after", len(before.Art), len(after.Art))})
	}
	for _, k := range keys {
		a, ok := after.Art[k]
		b := before.Art[k]
		where := strings.SplitN(k, "#", 2)[0]
		if !ok {
			continue
		}
		if bytes.Equal(a, b) {
			continue
		}
		if !renamed {
			ds = append(ds, c19Diff{where, "output-differs", firstDiff(string(b), string(a))})
			continue
		}
		if where == "spv" && !bytes.HasPrefix(b, []byte("ERR:")) {
			if !bytes.Equal(spvNormalizeNames(a), spvNormalizeNames(b)) {
				ds = append(ds, c19Diff{where, "output-differs", "non-debug SPIR-V differs beyond the entry-point name string"})
			}
			continue
		}
		if stripMarkers(string(a)) == string(b) {
			continue
		}
		// the backend re-spelled a renamed identifier (keyword avoidance such as main -> main_, lower-casing in derived
		// names, _uXXXX_ escapes): the text is then compared with every identifier spelling ignored
		if identSkeleton(string(a)) == identSkeleton(string(b)) {
			continue
		}
		ds = append(ds, c19Diff{where, "output-differs", firstDiff(string(b), stripMarkers(string(a)))})
	}
	return ds
}

// nagaKind maps a token kind of naga's lexer to the kinds of Lexer.tla.
func nagaKind(kind, lexeme string) string {
	switch kind {
	case "Ident":
		if lexeme == "_" {
			return "op"
		}
		return "ident"
	case "Unknown": // naga's own token kinds for predeclared type names: identifiers in WGSL
		return "ident"
	case "IntLiteral":
		return "int"
	case "FloatLiteral":
		return "float"
	case "Error":
		return "invalid"
	case "EOF":
		return "eof"
	}
	if wgslx.Keywords[kind] {
		return "keyword"
	}
	return "op"
}

// nagaTokens runs the real lexer.
func nagaTokens(src string) (toks []wgsl.VerifToken, err error) {
	defer func() {
		if r := recover(); r != nil {
			err = fmt.Errorf("panic: %v", r)
		}
	}()
	t, e := wgsl.NewLexer(src).Tokenize()
	if e != nil {
		return nil, e
	}
	return wgsl.VerifTokens(t), nil
}
