package checks

import (
	"math/rand"
	"os"
	"strings"
	"testing"

	"verif/harness/drive"
)

// TestC02GenAccepted reports how many generated programs the front end and the SPIR-V backend accept.
func TestC02GenAccepted(t *testing.T) {
	progs := c02Generate(rand.New(rand.NewSource(7)), 300, false)
	reasons := map[string]int{}
	ok := 0
	for _, p := range progs {
		m, _, err := drive.Front(p)
		if err != nil {
			msg := err.Error()
			if i := strings.Index(msg, "\n"); i > 0 {
				msg = msg[:i]
			}
			if i := strings.Index(msg, ": "); i > 0 && i < 10 {
				msg = msg[i+2:]
			}
			if i := strings.LastIndex(msg, "body: "); i > 0 {
				msg = msg[i+6:]
			}
			if len(msg) > 110 {
				msg = msg[:110]
			}
			if reasons[msg] == 0 && os.Getenv("C02GEN_SHOW") != "" {
				t.Logf("REJECTED: %s\n%s", err, p)
			}
			reasons[msg]++
			continue
		}
		if _, err := drive.Compile("spv", "default", m, ""); err != nil {
			reasons["spv: "+err.Error()]++
			continue
		}
		ok++
	}
	t.Logf("accepted %d of %d", ok, len(progs))
	for r, n := range reasons {
		t.Logf("%4d %s", n, r)
	}
	if ok*2 < len(progs) {
		t.Fatalf("fewer than half of the generated programs are accepted")
	}
}
