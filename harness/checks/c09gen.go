package checks

// Random valid WGSL modules for C09: a type-directed generator that prints WGSL text.  It aims at the shapes the
// lowering has to translate (every statement kind, nested control flow, helper calls with and without results, pointer
// parameters, abstract and suffixed literals, constructors incl. splat forms, swizzles, constant and dynamic indexing
// of vectors / matrices / arrays / structs, storage / uniform / private / workgroup variables, atomics, barriers,
// textures, all three classic stages with IO structs).  Programs are never executed, so they need not terminate.
// Everything is drawn from one *rand.Rand (seeded from VERIF_SEED by the caller).

import (
	"fmt"
	"math/rand"
	"strings"
)

type rty struct {
	k    string // i32 u32 f32 bool vec mat arr struct
	n    int    // vec size / mat columns / array length
	r    int    // mat rows
	e    string // vec element scalar
	elem *rty   // array element
	s    int    // struct index
}

// canon is the canonical spelling of the type (its identity).
func (t rty) canon() string {
	switch t.k {
	case "vec":
		return fmt.Sprintf("vec%d<%s>", t.n, t.e)
	case "mat":
		return fmt.Sprintf("mat%dx%d<f32>", t.n, t.r)
	case "arr":
		return fmt.Sprintf("array<%s, %d>", t.elem.canon(), t.n)
	case "struct":
		return fmt.Sprintf("S%d", t.s)
	}
	return t.k
}

// curGen is the generator whose aliases String() may use (RandModule is not re-entrant: modules are generated one
// after the other).
var curGen *rgen

// String spells the type as it is written into the program: its canonical spelling or, when the module declares an
// alias for it, sometimes the alias (so that the same type is reached through the alias and directly).
func (t rty) String() string {
	if g := curGen; g != nil && len(g.aliases) > 0 && !g.noAlias {
		if a, ok := g.aliases[t.canon()]; ok && g.chance(0.55) {
			g.use("alias-use")
			return a
		}
	}
	if t.k == "arr" {
		return fmt.Sprintf("array<%s, %d>", t.elem.String(), t.n)
	}
	return t.canon()
}

func (t rty) key() string { return t.canon() }

func scalarTy(k string) rty  { return rty{k: k} }
func vecTy(n int, e string) rty { return rty{k: "vec", n: n, e: e} }

type rvar struct {
	name    string
	ty      rty
	mutable bool   // var (assignable)
	expr    string // how to read it (name, or *name for pointer parameters)
}

type rfn struct {
	name   string
	params []rty
	ptr    []bool // parameter i is ptr<function, T>
	ret    *rty
}

type rstruct struct {
	fields []rty
}

type rgen struct {
	r        *rand.Rand
	sb       strings.Builder
	structs  []rstruct
	fns      []rfn
	scopes   [][]rvar
	globals  []rvar // readable module-scope values (private / workgroup vars, consts)
	nname    int
	inLoop   int
	inCont   int
	stage    string // "", compute, fragment, vertex
	hasBuf   bool
	hasUni   bool
	hasTex   bool
	hasWg    bool
	ret      *rty
	retExpr  string // fixed return expression (entry points returning an IO struct)
	ind      int
	budget   int
	features map[string]bool
	aliases  map[string]string // canonical type spelling -> alias name
	aliasTys []rty
	noAlias  bool // inside module-scope initialisers (this front end rejects alias constructors there)
	uvInterp string // interpolation of the uv varying ("" = default)
	opts     RandOpts
}

// RandOpts steers RandModuleWith.
type RandOpts struct {
	Aliases  bool // declare type aliases (before and after use) and reach the aliased types through them and directly
	Dual     bool // the fragment stage writes a dual-source pair (@blend_src)
	AttrLast bool // with Dual: @blend_src / @interpolate / @invariant are written BEFORE @location / @builtin
	Stages   []string
}

func (g *rgen) name(p string) string { g.nname++; return fmt.Sprintf("%s%d", p, g.nname) }
func (g *rgen) pick(n int) int       { return g.r.Intn(n) }
func (g *rgen) chance(p float64) bool { return g.r.Float64() < p }
func (g *rgen) line(f string, a ...any) {
	g.sb.WriteString(strings.Repeat("  ", g.ind))
	fmt.Fprintf(&g.sb, f, a...)
	g.sb.WriteByte('\n')
}
func (g *rgen) use(f string) { g.features[f] = true }

var rScalars = []string{"i32", "u32", "f32", "bool"}

func (g *rgen) randScalar(numeric bool) rty {
	if numeric {
		return scalarTy(rScalars[g.pick(3)])
	}
	return scalarTy(rScalars[g.pick(4)])
}

// randType draws a constructible value type.
func (g *rgen) randType(depth int) rty {
	if len(g.aliasTys) > 0 && g.chance(0.4) {
		t := g.aliasTys[g.pick(len(g.aliasTys))]
		if t.k != "arr" || depth > 0 {
			return t
		}
	}
	switch x := g.pick(10); {
	case x < 4:
		return g.randScalar(false)
	case x < 7:
		return vecTy(2+g.pick(3), rScalars[g.pick(4)])
	case x == 7:
		return rty{k: "mat", n: 2 + g.pick(3), r: 2 + g.pick(3)}
	case x == 8 && depth > 0:
		e := g.randType(depth - 1)
		return rty{k: "arr", n: 1 + g.pick(4), elem: &e}
	case x == 9 && len(g.structs) > 0:
		return rty{k: "struct", s: g.pick(len(g.structs))}
	}
	return scalarTy("f32")
}

func (g *rgen) push() { g.scopes = append(g.scopes, nil) }
func (g *rgen) pop()  { g.scopes = g.scopes[:len(g.scopes)-1] }
func (g *rgen) declare(v rvar) {
	g.scopes[len(g.scopes)-1] = append(g.scopes[len(g.scopes)-1], v)
}

func (g *rgen) visible(pred func(rvar) bool) []rvar {
	var out []rvar
	for _, s := range g.scopes {
		for _, v := range s {
			if pred(v) {
				out = append(out, v)
			}
		}
	}
	for _, v := range g.globals {
		if pred(v) {
			out = append(out, v)
		}
	}
	return out
}

func (g *rgen) lit(t rty) string {
	switch t.k {
	case "i32":
		v := g.pick(17) - 4
		if v < 0 {
			return fmt.Sprintf("(%d)", v)
		}
		if g.chance(0.4) {
			return fmt.Sprintf("%di", v)
		}
		return fmt.Sprint(v)
	case "u32":
		return fmt.Sprintf("%du", g.pick(9))
	case "f32":
		switch g.pick(3) {
		case 0:
			return fmt.Sprintf("%d.%d", g.pick(5), g.pick(10))
		case 1:
			return fmt.Sprintf("%d.5f", g.pick(4))
		}
		return fmt.Sprintf("%d.0", 1+g.pick(7))
	case "bool":
		if g.chance(0.5) {
			return "true"
		}
		return "false"
	}
	return g.construct(t, 0)
}

// construct builds a value of a composite type from components.
func (g *rgen) construct(t rty, depth int) string {
	switch t.k {
	case "vec":
		et := scalarTy(t.e)
		switch g.pick(5) {
		case 0: // splat, inferred element type where that is unambiguous
			g.use("splat-ctor")
			if t.e == "f32" && g.chance(0.5) {
				return fmt.Sprintf("vec%d(%s)", t.n, g.floatLit())
			}
			return fmt.Sprintf("%s(%s)", t, g.expr(et, depth-1))
		case 1: // from a smaller vector and scalars
			if t.n > 2 {
				return fmt.Sprintf("%s(%s, %s)", t, g.expr(vecTy(t.n-1, t.e), depth-1), g.expr(et, depth-1))
			}
		case 2: // zero value
			g.use("zero-value")
			return fmt.Sprintf("%s()", t)
		}
		var cs []string
		for i := 0; i < t.n; i++ {
			cs = append(cs, g.comp(et, depth-1))
		}
		return fmt.Sprintf("%s(%s)", t, strings.Join(cs, ", "))
	case "mat":
		if g.chance(0.2) {
			return fmt.Sprintf("%s()", t)
		}
		var cs []string
		if g.chance(0.5) {
			for i := 0; i < t.n; i++ {
				cs = append(cs, g.expr(vecTy(t.r, "f32"), depth-1))
			}
		} else {
			for i := 0; i < t.n*t.r; i++ {
				cs = append(cs, g.comp(scalarTy("f32"), 0))
			}
		}
		return fmt.Sprintf("%s(%s)", t, strings.Join(cs, ", "))
	case "arr":
		if g.chance(0.2) {
			return fmt.Sprintf("%s()", t)
		}
		var cs []string
		for i := 0; i < t.n; i++ {
			cs = append(cs, g.expr(*t.elem, depth-1))
		}
		return fmt.Sprintf("%s(%s)", t, strings.Join(cs, ", "))
	case "struct":
		if g.chance(0.2) {
			return fmt.Sprintf("%s()", t)
		}
		var cs []string
		for _, f := range g.structs[t.s].fields {
			cs = append(cs, g.expr(f, depth-1))
		}
		return fmt.Sprintf("%s(%s)", t, strings.Join(cs, ", "))
	}
	return g.lit(t)
}

// comp is a component of an explicitly typed constructor: besides any expression of the type, an abstract
// integer literal is admissible there (it converts to the constructor's element type).
func (g *rgen) comp(et rty, depth int) string {
	if (et.k == "u32" || et.k == "f32") && g.chance(0.2) {
		g.use("abstract-int-component")
		return fmt.Sprint(1 + g.pick(6))
	}
	return g.expr(et, depth)
}

func (g *rgen) floatLit() string { return fmt.Sprintf("%d.%d", g.pick(4), 1+g.pick(9)) }

// index expression valid for a length n
func (g *rgen) index(n int, depth int) string {
	if depth <= 0 || g.chance(0.5) {
		return fmt.Sprint(g.pick(n))
	}
	g.use("dynamic-index")
	if g.chance(0.5) {
		return fmt.Sprintf("(%s %% %du)", g.expr(scalarTy("u32"), depth-1), n)
	}
	return fmt.Sprintf("min(%s, %du)", g.expr(scalarTy("u32"), depth-1), n-1)
}

var swz = "xyzw"

// expr yields an expression of type t.
func (g *rgen) expr(t rty, depth int) string {
	g.budget--
	if depth <= 0 || g.budget < 0 {
		return g.leaf(t)
	}
	switch t.k {
	case "bool":
		switch g.pick(8) {
		case 0:
			return g.leaf(t)
		case 1:
			n := g.randScalar(true)
			return fmt.Sprintf("(%s %s %s)", g.expr(n, depth-1), []string{"<", "<=", ">", ">=", "==", "!="}[g.pick(6)], g.expr(n, depth-1))
		case 2:
			return fmt.Sprintf("(%s %s %s)", g.expr(t, depth-1), []string{"&&", "||"}[g.pick(2)], g.expr(t, depth-1))
		case 3:
			return fmt.Sprintf("!%s", g.atom(t, depth-1))
		case 4:
			vt := vecTy(2+g.pick(3), "bool")
			g.use("relational")
			return fmt.Sprintf("%s(%s)", []string{"all", "any"}[g.pick(2)], g.expr(vt, depth-1))
		case 5:
			return fmt.Sprintf("select(%s, %s, %s)", g.expr(t, depth-1), g.expr(t, depth-1), g.expr(t, depth-1))
		case 6:
			return fmt.Sprintf("(%s == %s)", g.expr(scalarTy("bool"), depth-1), g.expr(scalarTy("bool"), depth-1))
		}
		return g.access(t, depth)
	case "i32", "u32", "f32":
		return g.numeric(t, depth)
	case "vec":
		return g.vector(t, depth)
	case "mat":
		switch g.pick(6) {
		case 0:
			return g.construct(t, depth)
		case 1:
			if t.n == t.r {
				return fmt.Sprintf("(%s * %s)", g.expr(t, depth-1), g.expr(t, depth-1))
			}
		case 2:
			g.use("transpose")
			return fmt.Sprintf("transpose(%s)", g.expr(rty{k: "mat", n: t.r, r: t.n}, depth-1))
		case 3:
			return fmt.Sprintf("(%s * %s)", g.expr(t, depth-1), g.expr(scalarTy("f32"), depth-1))
		case 4:
			return fmt.Sprintf("(%s %s %s)", g.expr(t, depth-1), []string{"+", "-"}[g.pick(2)], g.expr(t, depth-1))
		}
		return g.access(t, depth)
	default:
		if g.chance(0.5) {
			return g.construct(t, depth)
		}
		return g.access(t, depth)
	}
}

// atom yields a primary expression (safe operand of a prefix operator).
func (g *rgen) atom(t rty, depth int) string {
	e := g.expr(t, depth)
	if strings.HasPrefix(e, "(") || !strings.ContainsAny(e, " -!~") {
		return e
	}
	return "(" + e + ")"
}

func (g *rgen) numeric(t rty, depth int) string {
	isF := t.k == "f32"
	switch g.pick(14) {
	case 0:
		return g.leaf(t)
	case 1, 2:
		ops := []string{"+", "-", "*"}
		return fmt.Sprintf("(%s %s %s)", g.expr(t, depth-1), ops[g.pick(3)], g.expr(t, depth-1))
	case 3: // division / remainder by something that is not a constant zero
		op := []string{"/", "%"}[g.pick(2)]
		if isF {
			return fmt.Sprintf("(%s %s (abs(%s) + 1.0))", g.expr(t, depth-1), op, g.expr(t, depth-1))
		}
		one := map[string]string{"i32": "1", "u32": "1u"}[t.k]
		return fmt.Sprintf("(%s %s (%s | %s))", g.expr(t, depth-1), op, g.leafVar(t), one)
	case 4:
		if isF {
			f := []string{"abs", "sin", "cos", "floor", "ceil", "fract", "exp2", "tanh", "sign", "saturate", "trunc", "round"}[g.pick(12)]
			g.use("math1")
			return fmt.Sprintf("%s(%s)", f, g.expr(t, depth-1))
		}
		f := []string{"abs", "countOneBits", "reverseBits", "firstLeadingBit", "firstTrailingBit", "countLeadingZeros"}[g.pick(6)]
		g.use("math1")
		return fmt.Sprintf("%s(%s)", f, g.expr(t, depth-1))
	case 5:
		f := []string{"min", "max"}[g.pick(2)]
		return fmt.Sprintf("%s(%s, %s)", f, g.expr(t, depth-1), g.expr(t, depth-1))
	case 6:
		if isF {
			f := []string{"clamp", "mix", "fma", "smoothstep"}[g.pick(4)]
			g.use("math3")
			return fmt.Sprintf("%s(%s, %s, %s)", f, g.expr(t, depth-1), g.expr(t, depth-1), g.expr(t, depth-1))
		}
		return fmt.Sprintf("clamp(%s, %s, %s)", g.expr(t, depth-1), g.expr(t, depth-1), g.expr(t, depth-1))
	case 7: // conversion / bitcast
		from := g.randScalar(false)
		if from.k == t.k {
			from = scalarTy("bool")
		}
		if from.k != "bool" && g.chance(0.3) {
			g.use("bitcast")
			return fmt.Sprintf("bitcast<%s>(%s)", t.k, g.expr(from, depth-1))
		}
		g.use("convert")
		return fmt.Sprintf("%s(%s)", t.k, g.expr(from, depth-1))
	case 8:
		if !isF {
			if g.chance(0.5) {
				op := []string{"&", "|", "^"}[g.pick(3)]
				return fmt.Sprintf("(%s %s %s)", g.expr(t, depth-1), op, g.expr(t, depth-1))
			}
			g.use("shift")
			return fmt.Sprintf("(%s %s (%s & 31u))", g.typedForInference(t, depth-1), []string{"<<", ">>"}[g.pick(2)], g.expr(scalarTy("u32"), depth-1))
		}
		vt := vecTy(2+g.pick(3), "f32")
		g.use("dot-length")
		if g.chance(0.5) {
			return fmt.Sprintf("dot(%s, %s)", g.expr(vt, depth-1), g.expr(vt, depth-1))
		}
		return fmt.Sprintf("%s(%s)", []string{"length", "distance"}[0], g.expr(vt, depth-1))
	case 9:
		return fmt.Sprintf("select(%s, %s, %s)", g.expr(t, depth-1), g.expr(t, depth-1), g.expr(scalarTy("bool"), depth-1))
	case 10:
		return g.negOrNot(t, depth)
	case 11:
		if c := g.call(t, depth); c != "" {
			return c
		}
	case 12:
		if s := g.resource(t, depth); s != "" {
			return s
		}
	}
	return g.access(t, depth)
}

func (g *rgen) negOrNot(t rty, depth int) string {
	switch t.k {
	case "u32":
		return fmt.Sprintf("~%s", g.atom(t, depth-1))
	case "i32":
		if g.chance(0.5) {
			return fmt.Sprintf("~%s", g.atom(t, depth-1))
		}
	}
	return fmt.Sprintf("-%s", g.atom(t, depth-1))
}

func (g *rgen) vector(t rty, depth int) string {
	et := scalarTy(t.e)
	switch g.pick(12) {
	case 0, 1:
		return g.construct(t, depth)
	case 2: // swizzle of a vector of any size
		src := vecTy(2+g.pick(3), t.e)
		var p []byte
		for i := 0; i < t.n; i++ {
			p = append(p, swz[g.pick(src.n)])
		}
		g.use("swizzle")
		return fmt.Sprintf("%s.%s", g.atom(src, depth-1), p)
	case 3, 4:
		if t.e == "bool" {
			n := vecTy(t.n, rScalars[g.pick(3)])
			return fmt.Sprintf("(%s %s %s)", g.expr(n, depth-1), []string{"<", "==", "!=", ">="}[g.pick(4)], g.expr(n, depth-1))
		}
		ops := []string{"+", "-", "*"}
		switch g.pick(3) {
		case 0: // vector op scalar
			g.use("vec-scalar")
			return fmt.Sprintf("(%s %s %s)", g.expr(t, depth-1), ops[g.pick(3)], g.expr(et, depth-1))
		case 1:
			g.use("vec-scalar")
			return fmt.Sprintf("(%s %s %s)", g.expr(et, depth-1), ops[g.pick(3)], g.expr(t, depth-1))
		}
		return fmt.Sprintf("(%s %s %s)", g.expr(t, depth-1), ops[g.pick(3)], g.expr(t, depth-1))
	case 5:
		if t.e == "f32" {
			g.use("mat-vec")
			if g.chance(0.5) {
				c := 2 + g.pick(3)
				return fmt.Sprintf("(%s * %s)", g.expr(rty{k: "mat", n: c, r: t.n}, depth-1), g.expr(vecTy(c, "f32"), depth-1))
			}
			r := 2 + g.pick(3)
			return fmt.Sprintf("(%s * %s)", g.expr(vecTy(r, "f32"), depth-1), g.expr(rty{k: "mat", n: t.n, r: r}, depth-1))
		}
	case 6:
		if t.e == "f32" {
			f := []string{"normalize", "abs", "floor", "fract", "sin", "sqrt", "exp", "saturate"}[g.pick(8)]
			if f == "sqrt" {
				return fmt.Sprintf("sqrt(abs(%s))", g.expr(t, depth-1))
			}
			g.use("vec-math")
			return fmt.Sprintf("%s(%s)", f, g.expr(t, depth-1))
		}
		if t.e != "bool" {
			return fmt.Sprintf("%s(%s, %s)", []string{"min", "max"}[g.pick(2)], g.expr(t, depth-1), g.expr(t, depth-1))
		}
		return fmt.Sprintf("!%s", g.atom(t, depth-1))
	case 7:
		if t.e == "f32" && t.n == 3 {
			return fmt.Sprintf("cross(%s, %s)", g.expr(t, depth-1), g.expr(t, depth-1))
		}
		if t.e == "f32" {
			return fmt.Sprintf("mix(%s, %s, %s)", g.expr(t, depth-1), g.expr(t, depth-1), g.expr(et, depth-1))
		}
	case 8:
		g.use("select-vec")
		if g.chance(0.5) {
			return fmt.Sprintf("select(%s, %s, %s)", g.expr(t, depth-1), g.expr(t, depth-1), g.expr(vecTy(t.n, "bool"), depth-1))
		}
		return fmt.Sprintf("select(%s, %s, %s)", g.expr(t, depth-1), g.expr(t, depth-1), g.expr(scalarTy("bool"), depth-1))
	case 9: // conversion of a whole vector
		if t.e != "bool" {
			from := rScalars[g.pick(3)]
			if from != t.e {
				g.use("vec-convert")
				return fmt.Sprintf("%s(%s)", t, g.expr(vecTy(t.n, from), depth-1))
			}
		}
	case 10:
		if s := g.resource(t, depth); s != "" {
			return s
		}
	}
	return g.access(t, depth)
}

// access reads a value of type t out of something visible: a variable, a component of a bigger value, a call.
func (g *rgen) access(t rty, depth int) string {
	// direct variable
	vs := g.visible(func(v rvar) bool { return v.ty.key() == t.key() })
	if len(vs) > 0 && g.chance(0.6) {
		return vs[g.pick(len(vs))].expr
	}
	// component of a visible aggregate
	type cand struct{ e string }
	var cs []cand
	for _, v := range g.visible(func(rvar) bool { return true }) {
		switch v.ty.k {
		case "vec":
			if t.k == v.ty.e {
				if g.chance(0.5) {
					cs = append(cs, cand{fmt.Sprintf("%s.%c", v.expr, swz[g.pick(v.ty.n)])})
				} else {
					cs = append(cs, cand{fmt.Sprintf("%s[%s]", v.expr, g.index(v.ty.n, depth-1))})
				}
			}
		case "mat":
			if t.k == "vec" && t.e == "f32" && t.n == v.ty.r {
				cs = append(cs, cand{fmt.Sprintf("%s[%s]", v.expr, g.index(v.ty.n, depth-1))})
			}
			if t.k == "f32" {
				cs = append(cs, cand{fmt.Sprintf("%s[%s][%s]", v.expr, g.index(v.ty.n, depth-1), g.index(v.ty.r, depth-1))})
			}
		case "arr":
			if v.ty.elem.key() == t.key() {
				cs = append(cs, cand{fmt.Sprintf("%s[%s]", v.expr, g.index(v.ty.n, depth-1))})
			}
		case "struct":
			for i, f := range g.structs[v.ty.s].fields {
				if f.key() == t.key() {
					cs = append(cs, cand{fmt.Sprintf("%s.f%d", v.expr, i)})
				}
			}
		}
	}
	if len(cs) > 0 && g.chance(0.7) {
		g.use("component-access")
		return cs[g.pick(len(cs))].e
	}
	if c := g.call(t, depth); c != "" && g.chance(0.5) {
		return c
	}
	if len(vs) > 0 {
		return vs[g.pick(len(vs))].expr
	}
	return g.leaf(t)
}

func (g *rgen) leafVar(t rty) string {
	vs := g.visible(func(v rvar) bool { return v.ty.key() == t.key() })
	if len(vs) > 0 {
		return vs[g.pick(len(vs))].expr
	}
	return g.lit(t)
}

func (g *rgen) leaf(t rty) string {
	if g.chance(0.5) {
		return g.leafVar(t)
	}
	switch t.k {
	case "i32", "u32", "f32", "bool":
		return g.lit(t)
	}
	// composite leaf: constructor over literals
	return g.construct(t, 0)
}

// call to an earlier helper returning t
func (g *rgen) call(t rty, depth int) string {
	var cs []int
	for i, f := range g.fns {
		if f.ret != nil && f.ret.key() == t.key() {
			cs = append(cs, i)
		}
	}
	if len(cs) == 0 {
		return ""
	}
	return g.callExpr(g.fns[cs[g.pick(len(cs))]], depth)
}

func (g *rgen) callExpr(f rfn, depth int) string {
	var as []string
	for i, p := range f.params {
		if f.ptr[i] {
			vs := g.visibleLocals(func(v rvar) bool { return v.mutable && v.ty.key() == p.key() && !strings.HasPrefix(v.expr, "(*") && !strings.Contains(v.expr, ".") })
			if len(vs) == 0 {
				return ""
			}
			as = append(as, "&"+vs[g.pick(len(vs))].name)
			g.use("pointer-argument")
			continue
		}
		as = append(as, g.expr(p, depth-1))
	}
	g.use("call")
	return fmt.Sprintf("%s(%s)", f.name, strings.Join(as, ", "))
}

func (g *rgen) visibleLocals(pred func(rvar) bool) []rvar {
	var out []rvar
	for _, s := range g.scopes {
		for _, v := range s {
			if pred(v) {
				out = append(out, v)
			}
		}
	}
	return out
}

// resource reads: storage / uniform buffers, atomics, textures
func (g *rgen) resource(t rty, depth int) string {
	var cs []string
	if g.hasBuf {
		switch t.key() {
		case "u32":
			cs = append(cs, "atomicLoad(&buf.counter)", "arrayLength(&buf.data)", fmt.Sprintf("buf.data[%s]", g.expr(scalarTy("u32"), depth-1)))
		case "i32":
			cs = append(cs, "atomicLoad(&buf.acc)")
		case "vec4<f32>":
			cs = append(cs, "buf.v")
		case "f32":
			cs = append(cs, fmt.Sprintf("buf.v[%s]", g.index(4, depth-1)), "buf.v.z")
		}
	}
	if g.hasUni {
		switch t.key() {
		case "mat4x4<f32>":
			cs = append(cs, "uni.m")
		case "vec4<f32>":
			cs = append(cs, fmt.Sprintf("uni.m[%s]", g.index(4, depth-1)), fmt.Sprintf("uni.arr[%s]", g.index(3, depth-1)))
		case "f32":
			cs = append(cs, "uni.scale", fmt.Sprintf("uni.m[%s].y", g.index(4, depth-1)))
		case "vec2<u32>":
			cs = append(cs, "uni.dim")
		}
	}
	if g.hasWg {
		switch t.key() {
		case "f32":
			cs = append(cs, fmt.Sprintf("wg[%s]", g.index(8, depth-1)))
		case "u32":
			cs = append(cs, "atomicLoad(&wgc)", "wgu")
		}
	}
	if g.hasTex && g.inCont == 0 {
		switch t.key() {
		case "vec4<f32>":
			cs = append(cs, fmt.Sprintf("textureLoad(tex, %s, 0)", g.expr(vecTy(2, "i32"), depth-1)),
				fmt.Sprintf("textureSampleLevel(tex, smp, %s, 0.0)", g.expr(vecTy(2, "f32"), depth-1)))
		case "vec2<u32>":
			cs = append(cs, "textureDimensions(tex)")
		case "u32":
			cs = append(cs, "textureNumLevels(tex)")
		}
	}
	if len(cs) == 0 {
		return ""
	}
	g.use("resource-read")
	return cs[g.pick(len(cs))]
}

// ---- statements ---------------------------------------------------------------------------------------------------

func (g *rgen) lvalue(depth int) (string, rty, bool) {
	vs := g.visible(func(v rvar) bool { return v.mutable })
	if len(vs) == 0 {
		return "", rty{}, false
	}
	v := vs[g.pick(len(vs))]
	e, t := v.expr, v.ty
	for hop := 0; hop < 2 && g.chance(0.5); hop++ {
		switch t.k {
		case "vec":
			if g.chance(0.5) {
				return fmt.Sprintf("%s.%c", paren(e), swz[g.pick(t.n)]), scalarTy(t.e), true
			}
			return fmt.Sprintf("%s[%s]", paren(e), g.index(t.n, depth)), scalarTy(t.e), true
		case "mat":
			e, t = fmt.Sprintf("%s[%s]", paren(e), g.index(t.n, depth)), vecTy(t.r, "f32")
		case "arr":
			e, t = fmt.Sprintf("%s[%s]", paren(e), g.index(t.n, depth)), *t.elem
		case "struct":
			i := g.pick(len(g.structs[t.s].fields))
			e, t = fmt.Sprintf("%s.f%d", paren(e), i), g.structs[t.s].fields[i]
		}
	}
	return e, t, true
}

func paren(e string) string {
	if strings.HasPrefix(e, "*") {
		return "(" + e + ")"
	}
	return e
}

func (g *rgen) block(depth int, n int) {
	g.push()
	g.ind++
	for i := 0; i < n; i++ {
		g.stmt(depth)
	}
	g.ind--
	g.pop()
}

func (g *rgen) stmt(depth int) {
	g.budget = 14
	k := g.pick(24)
	switch {
	case k < 4: // let
		t := g.randType(1)
		n := g.name("l")
		if g.chance(0.3) {
			g.line("let %s: %s = %s;", n, t, g.expr(t, 3))
		} else {
			g.line("let %s = %s;", n, g.typedForInference(t, 3))
		}
		g.declare(rvar{name: n, ty: t, expr: n})
	case k < 7: // var
		t := g.randType(1)
		n := g.name("v")
		switch g.pick(3) {
		case 0:
			g.line("var %s: %s;", n, t)
		case 1:
			g.line("var %s: %s = %s;", n, t, g.expr(t, 3))
		default:
			g.line("var %s = %s;", n, g.typedForInference(t, 3))
		}
		g.declare(rvar{name: n, ty: t, expr: n, mutable: true})
	case k < 11: // assignment
		if e, t, ok := g.lvalue(2); ok {
			numeric := t.k == "i32" || t.k == "u32" || t.k == "f32" || (t.k == "vec" && t.e != "bool")
			switch {
			case numeric && g.chance(0.3):
				g.use("compound-assign")
				g.line("%s %s= %s;", e, []string{"+", "-", "*"}[g.pick(3)], g.expr(t, 2))
			case (t.k == "i32" || t.k == "u32") && g.chance(0.2):
				g.use("increment")
				g.line("%s%s;", e, []string{"++", "--"}[g.pick(2)])
			default:
				g.line("%s = %s;", e, g.expr(t, 3))
			}
		} else {
			g.line("_ = %s;", g.typedForInference(g.randType(1), 2))
		}
	case k < 13 && depth > 0: // if
		g.line("if %s {", g.expr(scalarTy("bool"), 2))
		g.block(depth-1, 1+g.pick(3))
		if g.chance(0.5) {
			if g.chance(0.3) {
				g.line("} else if %s {", g.expr(scalarTy("bool"), 2))
				g.block(depth-1, 1+g.pick(2))
			}
			g.line("} else {")
			g.block(depth-1, 1+g.pick(2))
		}
		g.line("}")
	case k < 15 && depth > 0: // loops
		g.inLoop++
		switch g.pick(3) {
		case 0:
			i := g.name("i")
			g.line("for (var %s = 0; %s < %d; %s++) {", i, i, 1+g.pick(5), i)
			g.push()
			g.declare(rvar{name: i, ty: scalarTy("i32"), expr: i})
			g.block(depth-1, 1+g.pick(3))
			g.pop()
			g.line("}")
			g.use("for")
		case 1:
			g.line("while %s {", g.expr(scalarTy("bool"), 2))
			g.block(depth-1, 1+g.pick(3))
			g.line("}")
			g.use("while")
		default:
			g.line("loop {")
			g.push()
			g.ind++
			for i := 0; i < 1+g.pick(3); i++ {
				g.stmt(depth - 1)
			}
			g.line("if %s { break; }", g.expr(scalarTy("bool"), 2))
			if g.chance(0.7) {
				g.line("continuing {")
				g.inCont++
				saved := g.inLoop
				g.inLoop = 0
				g.block(0, 1+g.pick(2))
				g.inLoop = saved
				g.inCont--
				if g.chance(0.5) {
					g.ind++
					g.line("break if %s;", g.expr(scalarTy("bool"), 2))
					g.ind--
					g.use("break-if")
				}
				g.line("}")
				g.use("continuing")
			}
			g.ind--
			g.pop()
			g.line("}")
		}
		g.inLoop--
	case k == 15 && depth > 0: // switch
		st := scalarTy([]string{"i32", "u32"}[g.pick(2)])
		suf := map[string]string{"i32": "", "u32": "u"}[st.k]
		g.line("switch %s {", g.expr(st, 2))
		g.ind++
		vals := g.r.Perm(7)
		vi := 0
		ncase := 1 + g.pick(3)
		defAt := g.pick(ncase + 1)
		for c := 0; c <= ncase; c++ {
			if c == defAt {
				if g.chance(0.3) && vi < len(vals) {
					g.line("case %d%s, default: {", vals[vi], suf)
					vi++
				} else {
					g.line("default: {")
				}
			} else {
				if g.chance(0.3) && vi+1 < len(vals) {
					g.line("case %d%s, %d%s: {", vals[vi], suf, vals[vi+1], suf)
					vi += 2
				} else {
					g.line("case %d%s: {", vals[vi], suf)
					vi++
				}
			}
			saved := g.inLoop
			g.block(depth-1, g.pick(3))
			g.inLoop = saved
			if g.chance(0.3) {
				g.ind++
				g.line("break;")
				g.ind--
			}
			g.line("}")
		}
		g.ind--
		g.line("}")
		g.use("switch")
	case k == 16 && g.inLoop > 0 && g.inCont == 0:
		g.line("if %s { %s; }", g.expr(scalarTy("bool"), 1), []string{"break", "continue"}[g.pick(2)])
		g.use("break-continue")
	case k == 17 && g.inCont == 0: // early return
		g.line("if %s {", g.expr(scalarTy("bool"), 2))
		g.ind++
		g.retStmt()
		g.ind--
		g.line("}")
		g.use("early-return")
	case k == 18: // call statement
		if len(g.fns) > 0 {
			f := g.fns[g.pick(len(g.fns))]
			if c := g.callExpr(f, 2); c != "" {
				if f.ret != nil && g.chance(0.5) {
					g.line("_ = %s;", c)
				} else {
					g.line("%s;", c)
				}
				g.use("call-statement")
				return
			}
		}
		g.line("_ = %s;", g.expr(scalarTy("f32"), 2))
	case k == 19 && g.hasBuf: // atomics / storage writes
		switch g.pick(5) {
		case 0:
			g.line("atomicStore(&buf.counter, %s);", g.expr(scalarTy("u32"), 2))
		case 1:
			n := g.name("a")
			f := []string{"atomicAdd", "atomicSub", "atomicMax", "atomicMin", "atomicAnd", "atomicOr", "atomicXor", "atomicExchange"}[g.pick(8)]
			g.line("let %s = %s(&buf.acc, %s);", n, f, g.expr(scalarTy("i32"), 2))
			g.declare(rvar{name: n, ty: scalarTy("i32"), expr: n})
		case 2:
			n := g.name("x")
			g.line("let %s = atomicCompareExchangeWeak(&buf.counter, %s, %s);", n, g.expr(scalarTy("u32"), 1), g.expr(scalarTy("u32"), 1))
			g.line("if %s.exchanged { buf.data[0] = %s.old_value; }", n, n)
			g.use("compare-exchange")
		case 3:
			g.line("buf.data[%s] = %s;", g.expr(scalarTy("u32"), 2), g.expr(scalarTy("u32"), 2))
		default:
			g.line("buf.v = %s;", g.expr(vecTy(4, "f32"), 2))
		}
		g.use("atomic-or-storage-write")
	case k == 20 && g.hasWg:
		switch g.pick(3) {
		case 0:
			g.line("wg[%s] = %s;", g.index(8, 2), g.expr(scalarTy("f32"), 2))
		case 1:
			g.line("atomicAdd(&wgc, %s);", g.expr(scalarTy("u32"), 1))
		default:
			g.line("wgu = %s;", g.expr(scalarTy("u32"), 2))
		}
	case k == 21 && g.stage == "fragment" && g.inCont == 0:
		g.line("if %s { discard; }", g.expr(scalarTy("bool"), 2))
		g.use("discard")
	case k == 22 && depth > 0:
		g.line("{")
		g.block(depth-1, 1+g.pick(2))
		g.line("}")
	case k == 23:
		t := g.randType(0)
		g.line("_ = %s;", g.typedForInference(t, 2))
		g.use("phony")
	default:
		if e, t, ok := g.lvalue(1); ok {
			g.line("%s = %s;", e, g.expr(t, 2))
		} else {
			t := scalarTy("i32")
			n := g.name("v")
			g.line("var %s = %s;", n, g.expr(t, 2))
			g.declare(rvar{name: n, ty: t, expr: n, mutable: true})
		}
	}
}

// typedForInference yields an expression whose inferred type is exactly t (no bare abstract literal at the top).
func (g *rgen) typedForInference(t rty, depth int) string {
	switch t.k {
	case "i32":
		if g.chance(0.3) {
			return fmt.Sprint(g.pick(9)) // abstract int defaults to i32
		}
		return fmt.Sprintf("i32(%s)", g.expr(t, depth-1))
	case "f32":
		if g.chance(0.3) {
			return g.floatLit() // abstract float defaults to f32
		}
		return fmt.Sprintf("f32(%s)", g.expr(t, depth-1))
	case "u32":
		return fmt.Sprintf("u32(%s)", g.expr(t, depth-1))
	case "bool":
		return g.expr(t, depth)
	}
	e := g.expr(t, depth)
	// composite constructors without template arguments could infer another element type: keep the explicit form
	if strings.HasPrefix(e, "vec") && !strings.HasPrefix(e, "vec2<") && !strings.HasPrefix(e, "vec3<") && !strings.HasPrefix(e, "vec4<") {
		return fmt.Sprintf("%s(%s)", t, e)
	}
	return e
}

func (g *rgen) retStmt() {
	if g.retExpr != "" {
		g.line("return %s;", g.retExpr)
		return
	}
	if g.ret == nil {
		g.line("return;")
		return
	}
	g.line("return %s;", g.expr(*g.ret, 3))
}

// seedLocals declares a few variables of common types so that operands are not only literals.
func (g *rgen) seedLocals() {
	g.ind++
	for _, t := range []rty{scalarTy("f32"), scalarTy("i32"), scalarTy("u32"), scalarTy("bool"), vecTy(2+g.pick(3), "f32"), vecTy(2+g.pick(3), rScalars[g.pick(3)])} {
		if g.chance(0.35) {
			continue
		}
		g.budget = 6
		n := g.name("s")
		g.line("var %s: %s = %s;", n, t, g.expr(t, 1))
		g.declare(rvar{name: n, ty: t, expr: n, mutable: true})
	}
	g.ind--
}

func (g *rgen) body(depth, n int) {
	g.seedLocals()
	g.ind++
	for i := 0; i < n; i++ {
		g.stmt(depth)
	}
	g.ind--
}

func (g *rgen) helper() {
	f := rfn{name: g.name("fn")}
	np := g.pick(4)
	var ps []string
	g.push()
	for i := 0; i < np; i++ {
		t := g.randType(1)
		pn := fmt.Sprintf("p%d", i)
		if g.chance(0.25) {
			f.ptr = append(f.ptr, true)
			ps = append(ps, fmt.Sprintf("%s: ptr<function, %s>", pn, t))
			g.declare(rvar{name: pn, ty: t, expr: "(*" + pn + ")", mutable: true})
			g.use("pointer-parameter")
		} else {
			f.ptr = append(f.ptr, false)
			ps = append(ps, fmt.Sprintf("%s: %s", pn, t))
			g.declare(rvar{name: pn, ty: t, expr: pn})
		}
		f.params = append(f.params, t)
	}
	g.ret = nil
	g.retExpr = ""
	sig := ""
	if g.chance(0.75) {
		t := g.randType(1)
		f.ret = &t
		g.ret = &t
		sig = " -> " + t.String()
	}
	g.stage = ""
	g.line("fn %s(%s)%s {", f.name, strings.Join(ps, ", "), sig)
	g.push()
	g.body(2, 1+g.pick(5))
	g.ind++
	g.retStmt()
	g.ind--
	g.pop()
	g.line("}")
	g.pop()
	g.fns = append(g.fns, f)
}

func (g *rgen) entry(stage string) {
	g.stage = stage
	g.ret = nil
	g.retExpr = ""
	defer func() { g.retExpr = "" }()
	g.push()
	n := g.name("ep")
	switch stage {
	case "compute":
		g.line("@compute @workgroup_size(%d, %d)", 1+g.pick(8), 1+g.pick(2))
		if g.chance(0.5) {
			g.line("fn %s(@builtin(global_invocation_id) gid: vec3<u32>, @builtin(local_invocation_index) li: u32) {", n)
			g.declare(rvar{name: "gid", ty: vecTy(3, "u32"), expr: "gid"})
			g.declare(rvar{name: "li", ty: scalarTy("u32"), expr: "li"})
		} else {
			g.line("fn %s(in: CIn) {", n)
			g.declare(rvar{name: "gid", ty: vecTy(3, "u32"), expr: "in.gid"})
			g.declare(rvar{name: "li", ty: scalarTy("u32"), expr: "in.wid.x"})
			g.use("compute-input-struct")
		}
		g.push()
		if g.hasWg {
			// uniform control flow is only certain at the very beginning of the entry point
			g.ind++
			g.line("%s;", []string{"workgroupBarrier()", "storageBarrier()"}[g.pick(2)])
			g.line("let wul = workgroupUniformLoad(&wgu);")
			g.ind--
			g.declare(rvar{name: "wul", ty: scalarTy("u32"), expr: "wul"})
			g.use("barrier")
		}
		g.body(3, 2+g.pick(6))
		g.pop()
		g.line("}")
	case "vertex":
		t := rty{k: "struct", s: -1}
		_ = t
		g.line("@vertex")
		g.line("fn %s(@builtin(vertex_index) vi: u32, @location(0) pos: %s, @location(1) uv: %s, @builtin(instance_index) ii: u32) -> VOut {", n, vecTy(3, "f32"), vecTy(2, "f32"))
		g.declare(rvar{name: "vi", ty: scalarTy("u32"), expr: "vi"})
		g.declare(rvar{name: "pos", ty: vecTy(3, "f32"), expr: "pos"})
		g.declare(rvar{name: "uv", ty: vecTy(2, "f32"), expr: "uv"})
		g.declare(rvar{name: "ii", ty: scalarTy("u32"), expr: "ii"})
		g.push()
		g.ind++
		g.line("var out: VOut;")
		g.ind--
		g.retExpr = "out"
		g.declare(rvar{name: "out.pos", ty: vecTy(4, "f32"), expr: "out.pos", mutable: true})
		g.declare(rvar{name: "out.uv", ty: vecTy(2, "f32"), expr: "out.uv", mutable: true})
		g.declare(rvar{name: "out.id", ty: scalarTy("u32"), expr: "out.id", mutable: true})
		g.body(2, 2+g.pick(5))
		g.ind++
		g.line("out.pos = %s;", g.expr(vecTy(4, "f32"), 3))
		g.line("return out;")
		g.ind--
		g.pop()
		g.line("}")
	case "fragment":
		g.line("@fragment")
		rt := vecTy(4, "f32")
		if g.opts.Dual {
			// dual-source blending: two outputs share location 0 and differ in @blend_src
			g.line("fn %s(in: VOut) -> FDual {", n)
			g.declare(rvar{name: "in.pos", ty: vecTy(4, "f32"), expr: "in.pos"})
			g.declare(rvar{name: "in.uv", ty: vecTy(2, "f32"), expr: "in.uv"})
			g.declare(rvar{name: "in.id", ty: scalarTy("u32"), expr: "in.id"})
			g.retExpr = "FDual(vec4<f32>(in.uv, 0.0, 1.0), vec4<f32>(0.5))"
			g.push()
			g.fragPrologue("in.uv")
			g.body(3, 2+g.pick(4))
			g.ind++
			g.line("return FDual(%s, %s);", g.expr(vecTy(4, "f32"), 3), g.expr(vecTy(4, "f32"), 2))
			g.ind--
			g.pop()
			g.use("dual-source")
		} else if g.chance(0.5) {
			g.line("fn %s(in: VOut, @builtin(front_facing) ff: bool) -> @location(0) vec4<f32> {", n)
			g.declare(rvar{name: "in.pos", ty: vecTy(4, "f32"), expr: "in.pos"})
			g.declare(rvar{name: "in.uv", ty: vecTy(2, "f32"), expr: "in.uv"})
			g.declare(rvar{name: "in.id", ty: scalarTy("u32"), expr: "in.id"})
			g.declare(rvar{name: "ff", ty: scalarTy("bool"), expr: "ff"})
			g.ret = &rt
			g.push()
			g.fragPrologue("in.uv")
			g.body(3, 2+g.pick(5))
			g.ind++
			g.retStmt()
			g.ind--
			g.pop()
		} else {
			g.line("fn %s(%s uv: %s, %s id: u32, @builtin(position) fc: vec4<f32>) -> FOut {", n,
				g.attrs("@location(0)", g.uvInterp), vecTy(2, "f32"), g.attrs("@location(1)", "@interpolate(flat)"))
			g.declare(rvar{name: "uv", ty: vecTy(2, "f32"), expr: "uv"})
			g.declare(rvar{name: "id", ty: scalarTy("u32"), expr: "id"})
			g.declare(rvar{name: "fc", ty: vecTy(4, "f32"), expr: "fc"})
			g.retExpr = "FOut(vec4<f32>(uv, 0.0, 1.0), 0.5)"
			g.push()
			g.fragPrologue("uv")
			g.body(3, 2+g.pick(5))
			g.ind++
			g.line("return FOut(%s, %s);", g.expr(vecTy(4, "f32"), 3), g.expr(scalarTy("f32"), 2))
			g.ind--
			g.pop()
			g.use("output-struct")
		}
		g.line("}")
	}
	g.pop()
}

// fragPrologue samples the texture where control flow is still uniform.
func (g *rgen) fragPrologue(uv string) {
	if !g.hasTex {
		return
	}
	g.ind++
	switch g.pick(3) {
	case 0:
		g.line("let ts = textureSample(tex, smp, %s);", uv)
	case 1:
		g.line("let ts = textureSample(tex, smp, %s * vec2<f32>(0.5));", uv)
	default:
		g.line("let ts = textureSample(tex, smp, vec2(0.5)) + textureSampleBias(tex, smp, %s, 1.0);", uv)
	}
	g.ind--
	g.declare(rvar{name: "ts", ty: vecTy(4, "f32"), expr: "ts"})
	g.use("texture-sample")
}

// attrs joins a main attribute (@location / @builtin) and a modifier (@interpolate / @blend_src / @invariant) in one of
// the two orders; AttrLast forces the modifier first.
func (g *rgen) attrs(main, mod string) string {
	if mod == "" {
		return main
	}
	if g.opts.AttrLast || g.chance(0.5) {
		g.use("io-modifier-before-location")
		return mod + " " + main
	}
	return main + " " + mod
}

// aliasPool: the types a module may alias (each is also spelled directly somewhere: fixed declarations such as Buf / Uni /
// VOut use vec4<f32>, vec2<f32>, mat4x4<f32>, vec3<u32> ... directly, and String() alternates between the two spellings).
var aliasPool = []rty{vecTy(3, "f32"), vecTy(2, "f32"), vecTy(4, "f32"), vecTy(2, "u32"), vecTy(3, "i32"), vecTy(3, "u32"), vecTy(4, "bool"),
	{k: "mat", n: 2, r: 2}, {k: "mat", n: 3, r: 3}, {k: "mat", n: 4, r: 4}, {k: "mat", n: 2, r: 3}, scalarTy("f32"), scalarTy("i32"), scalarTy("u32")}

// RandModule returns one random module and the set of features it uses.
func RandModule(r *rand.Rand) (string, []string) {
	return RandModuleWith(r, RandOpts{Aliases: r.Float64() < 0.35, Dual: r.Float64() < 0.2})
}

// RandModuleWith returns one random module with the given options.
func RandModuleWith(r *rand.Rand, opts RandOpts) (string, []string) {
	g := &rgen{r: r, features: map[string]bool{}, opts: opts, aliases: map[string]string{}}
	curGen = g
	defer func() { curGen = nil }()
	var aliasAfter []string
	if opts.Aliases {
		// aliases are declared before everything or after everything (declaration order is free at module scope)
		for _, i := range r.Perm(len(aliasPool))[:2+g.pick(3)] {
			t := aliasPool[i]
			name := fmt.Sprintf("A%d_%s", i, strings.NewReplacer("<", "", ">", "", ",", "", " ", "").Replace(t.canon()))
			decl := fmt.Sprintf("alias %s = %s;", name, t.canon())
			if g.chance(0.5) {
				g.line("%s", decl)
			} else {
				aliasAfter = append(aliasAfter, decl)
			}
			g.aliases[t.canon()] = name
			g.aliasTys = append(g.aliasTys, t)
		}
		g.use("alias")
	}
	// structs
	for i := 0; i < g.pick(3); i++ {
		var fs []rty
		g.line("struct S%d {", i)
		for k := 0; k < 1+g.pick(4); k++ {
			t := g.randType(1)
			for t.k == "struct" && t.s >= i {
				t = g.randType(0)
			}
			fs = append(fs, t)
			g.line("  f%d: %s,", k, t)
		}
		g.line("}")
		g.structs = append(g.structs, rstruct{fields: fs})
	}
	// IO attributes are an unordered list in WGSL: modifiers are written before and after @location / @builtin
	g.uvInterp = []string{"", "", "@interpolate(linear, centroid)", "@interpolate(perspective, sample)", "@interpolate(linear)", "@interpolate(perspective)"}[g.pick(6)]
	inv := ""
	if g.chance(0.3) {
		inv = "@invariant"
	}
	g.line("struct VOut { %s pos: vec4<f32>, %s uv: %s, %s id: u32 }", g.attrs("@builtin(position)", inv),
		g.attrs("@location(0)", g.uvInterp), vecTy(2, "f32"), g.attrs("@location(1)", "@interpolate(flat)"))
	g.line("struct FOut { @location(0) color: vec4<f32>, @builtin(frag_depth) depth: f32 }")
	if g.opts.Dual {
		g.line("struct FDual { %s color: vec4<f32>, %s weight: %s }", g.attrs("@location(0)", "@blend_src(0)"), g.attrs("@location(0)", "@blend_src(1)"), vecTy(4, "f32"))
	}
	g.line("struct CIn { @builtin(global_invocation_id) gid: vec3<u32>, @builtin(workgroup_id) wid: vec3<u32> }")
	stages := []string{"compute", "fragment", "vertex"}
	want := map[string]bool{stages[g.pick(3)]: true}
	if g.chance(0.4) {
		want[stages[g.pick(3)]] = true
	}
	if opts.Dual {
		want["fragment"] = true
	}
	for _, st := range opts.Stages {
		want[st] = true
	}
	if g.chance(0.7) {
		g.hasBuf = true
		g.line("struct Buf { counter: atomic<u32>, acc: atomic<i32>, v: vec4<f32>, data: array<u32> }")
		g.line("@group(0) @binding(0) var<storage, read_write> buf: Buf;")
	}
	if g.chance(0.6) {
		g.hasUni = true
		g.line("struct Uni { m: mat4x4<f32>, arr: array<vec4<f32>, 3>, scale: f32, dim: vec2<u32> }")
		g.line("@group(0) @binding(1) var<uniform> uni: Uni;")
	}
	if g.chance(0.5) {
		g.hasTex = true
		g.line("@group(1) @binding(0) var tex: texture_2d<f32>;")
		g.line("@group(1) @binding(1) var smp: sampler;")
	}
	// module-scope constants and private variables
	g.push()
	for i := 0; i < g.pick(4); i++ {
		t := g.randType(1)
		n := g.name("C")
		g.scopes = [][]rvar{nil}
		saved := g.globals
		// constant initialisers only use literals and earlier constants
		var cs []rvar
		for _, v := range saved {
			if strings.HasPrefix(v.name, "C") {
				cs = append(cs, v)
			}
		}
		g.globals = cs
		hb, hu, ht := g.hasBuf, g.hasUni, g.hasTex
		g.hasBuf, g.hasUni, g.hasTex = false, false, false
		fns := g.fns
		g.fns = nil
		g.budget = 8
		if g.chance(0.5) {
			g.line("const %s: %s = %s;", n, t, g.constExpr(t))
		} else {
			g.line("const %s = %s;", n, g.typedConst(t))
		}
		g.fns = fns
		g.hasBuf, g.hasUni, g.hasTex = hb, hu, ht
		g.globals = append(saved, rvar{name: n, ty: t, expr: n})
		g.use("module-const")
	}
	for i := 0; i < g.pick(3); i++ {
		t := g.randType(1)
		n := g.name("g")
		if g.chance(0.5) {
			g.line("var<private> %s: %s;", n, t)
		} else {
			g.line("var<private> %s: %s = %s;", n, t, g.constExpr(t))
		}
		g.globals = append(g.globals, rvar{name: n, ty: t, expr: n, mutable: true})
		g.use("private-var")
	}
	if g.chance(0.3) {
		g.line("override ov_scale: f32 = 1.5;")
		g.line("override ov_count: u32 = 3u;")
		g.globals = append(g.globals, rvar{name: "ov_scale", ty: scalarTy("f32"), expr: "ov_scale"}, rvar{name: "ov_count", ty: scalarTy("u32"), expr: "ov_count"})
		g.use("override")
	}
	for i := 0; i < g.pick(4); i++ {
		g.helper()
	}
	for _, s := range stages {
		if !want[s] {
			continue
		}
		if s == "compute" && g.chance(0.6) {
			g.hasWg = true
			g.line("var<workgroup> wg: array<f32, 8>;")
			g.line("var<workgroup> wgc: atomic<u32>;")
			g.line("var<workgroup> wgu: u32;")
		}
		g.entry(s)
		g.hasWg = false
		g.use("stage-" + s)
	}
	for _, d := range aliasAfter {
		g.line("%s", d)
		g.use("alias-declared-after-use")
	}
	var fs []string
	for f := range g.features {
		fs = append(fs, f)
	}
	src := g.sb.String()
	if opts.Dual {
		src = "enable dual_source_blending;\n" + src
	}
	return src, fs
}

// constExpr: a constant expression of type t (literals, constructors, earlier constants, simple arithmetic).
func (g *rgen) constExpr(t rty) string {
	saved := g.noAlias
	g.noAlias = true
	defer func() { g.noAlias = saved }()
	switch t.k {
	case "i32", "u32", "f32":
		if g.chance(0.3) {
			return fmt.Sprintf("(%s + %s)", g.constLeaf(t), g.constLeaf(t))
		}
		return g.constLeaf(t)
	case "bool":
		return g.lit(t)
	case "vec":
		if g.chance(0.3) {
			return fmt.Sprintf("%s(%s)", t, g.constLeaf(scalarTy(t.e)))
		}
		var cs []string
		for i := 0; i < t.n; i++ {
			cs = append(cs, g.constLeaf(scalarTy(t.e)))
		}
		return fmt.Sprintf("%s(%s)", t, strings.Join(cs, ", "))
	case "mat":
		var cs []string
		for i := 0; i < t.n*t.r; i++ {
			cs = append(cs, g.constLeaf(scalarTy("f32")))
		}
		return fmt.Sprintf("%s(%s)", t, strings.Join(cs, ", "))
	case "arr":
		var cs []string
		for i := 0; i < t.n; i++ {
			cs = append(cs, g.constExpr(*t.elem))
		}
		return fmt.Sprintf("%s(%s)", t, strings.Join(cs, ", "))
	case "struct":
		var cs []string
		for _, f := range g.structs[t.s].fields {
			cs = append(cs, g.constExpr(f))
		}
		return fmt.Sprintf("%s(%s)", t, strings.Join(cs, ", "))
	}
	return g.lit(t)
}

func (g *rgen) constLeaf(t rty) string {
	for _, v := range g.globals {
		if strings.HasPrefix(v.name, "C") && v.ty.key() == t.key() && g.chance(0.3) {
			return v.name
		}
	}
	return g.lit(t)
}

func (g *rgen) typedConst(t rty) string {
	switch t.k {
	case "i32":
		return fmt.Sprint(g.pick(9))
	case "f32":
		return g.floatLit()
	case "u32":
		return fmt.Sprintf("%du", g.pick(9))
	}
	return g.constExpr(t)
}
