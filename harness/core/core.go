// Package core holds the machinery every check shares: paths, seeds, the TLC
// runner, evidence files, known findings and violation reporting.
package core

import (
	"bytes"
	"crypto/sha256"
	"encoding/hex"
	"encoding/json"
	"fmt"
	"os"
	"os/exec"
	"path/filepath"
	"regexp"
	"runtime"
	"sort"
	"strconv"
	"strings"
	"sync"
	"time"
)

// Root is /verif (overridable for `vp run` snapshots through VERIF_ROOT).
var Root = func() string {
	if r := os.Getenv("VERIF_ROOT"); r != "" {
		return r
	}
	if wd, err := os.Getwd(); err == nil {
		for d := wd; d != "/"; d = filepath.Dir(d) {
			if _, err := os.Stat(filepath.Join(d, "properties.jsonl")); err == nil {
				return d
			}
		}
	}
	return "/verif"
}()

// RepoDir is the tree under test.
var RepoDir = func() string {
	if r := os.Getenv("VERIF_REPO"); r != "" {
		return r
	}
	return "/repo"
}()

// Seed returns VERIF_SEED (default 1).
func Seed() int64 {
	if s := os.Getenv("VERIF_SEED"); s != "" {
		if v, err := strconv.ParseInt(s, 10, 64); err == nil {
			return v
		}
	}
	return 1
}

// Ctx is the state of one check run.
type Ctx struct {
	Prop    string
	Tier    string // quick | thorough
	Seed    int64
	Level   string
	Start   time.Time
	WorkDir string

	mu         sync.Mutex
	Cov        map[string]any
	Assume     []string
	samples    []any
	skips      map[string]int
	violations []Violation
	known      []string
	distinct   map[string]struct{}
	evals      int
	States     int64
	Trans      int64
	Traces     int
	Programs   int
	Disagree   int
	findings   []Finding
	sigs       map[string]int
	files      int
	Broken     []string // machinery failures -> exit 2
}

// Violation is a confirmed contradiction between the real code and the spec.
type Violation struct {
	What   string
	Replay string
}

// NewCtx prepares a run.
func NewCtx(prop, tier, level string) *Ctx {
	c := &Ctx{Prop: prop, Tier: tier, Seed: Seed(), Level: level, Start: time.Now(),
		Cov: map[string]any{}, skips: map[string]int{}, distinct: map[string]struct{}{}}
	c.WorkDir = filepath.Join(Root, ".work", fmt.Sprintf("%s-%s-%d-%d", prop, tier, c.Seed, os.Getpid()))
	_ = os.RemoveAll(c.WorkDir)
	if err := os.MkdirAll(c.WorkDir, 0o755); err != nil {
		panic(err)
	}
	c.findings = LoadFindings(prop)
	// replay files of earlier runs of this property are stale
	if old, _ := filepath.Glob(filepath.Join(Root, "replays", prop+"-*.json")); len(old) > 0 {
		for _, f := range old {
			_ = os.Remove(f)
		}
	}
	return c
}

// Quick reports whether this is the quick tier.
func (c *Ctx) Quick() bool { return c.Tier != "thorough" }

// Pick returns q in the quick tier and t in the thorough tier.
func (c *Ctx) Pick(q, t int) int {
	if c.Quick() {
		return q
	}
	return t
}

// Eval counts one evaluated case; key identifies it for distinctness and
// nontrivial says whether it counts as a non-trivial case.
func (c *Ctx) Eval(key string, nontrivial bool) {
	c.mu.Lock()
	defer c.mu.Unlock()
	c.evals++
	if nontrivial {
		h := sha256.Sum256([]byte(key))
		c.distinct[string(h[:12])] = struct{}{}
	}
}

// Sample records an example case (kept to a handful).
func (c *Ctx) Sample(v any) {
	c.mu.Lock()
	defer c.mu.Unlock()
	if len(c.samples) < 6 {
		c.samples = append(c.samples, v)
	}
}

// Skip counts a case the machinery could not judge.
func (c *Ctx) Skip(reason string) {
	c.mu.Lock()
	defer c.mu.Unlock()
	c.skips[reason]++
}

// Skips returns the total number of skipped cases.
func (c *Ctx) Skips() int {
	c.mu.Lock()
	defer c.mu.Unlock()
	n := 0
	for _, v := range c.skips {
		n += v
	}
	return n
}

// AddTLC accumulates TLC statistics.
func (c *Ctx) AddTLC(r *TLCResult) {
	c.mu.Lock()
	defer c.mu.Unlock()
	c.States += r.Distinct
	c.Trans += r.Generated
}

// Assumef records an assumption for the evidence file.
func (c *Ctx) Assumef(f string, a ...any) {
	c.mu.Lock()
	defer c.mu.Unlock()
	s := fmt.Sprintf(f, a...)
	for _, x := range c.Assume {
		if x == s {
			return
		}
	}
	c.Assume = append(c.Assume, s)
}

// BrokenF records a machinery failure (exit 2, never a violation).
func (c *Ctx) BrokenF(f string, a ...any) {
	c.mu.Lock()
	defer c.mu.Unlock()
	c.Broken = append(c.Broken, fmt.Sprintf(f, a...))
}

// Report reports a contradiction.  desc is a map describing the case (used for
// matching known findings); replay is the content of the replay file.
func (c *Ctx) Report(what string, desc map[string]string, replay any) {
	c.mu.Lock()
	defer c.mu.Unlock()
	for _, f := range c.findings {
		if f.Status == "known" && f.Matches(desc, what) {
			line := fmt.Sprintf("KNOWN-FINDING: property=%s %s", c.Prop, f.What)
			for _, k := range c.known {
				if k == line {
					return
				}
			}
			c.known = append(c.known, line)
			return
		}
	}
	if sig := desc["sig"]; sig != "" {
		if c.sigs == nil {
			c.sigs = map[string]int{}
		}
		c.sigs[sig]++
		if c.sigs[sig] > 2 { // at most two replay files per signature
			c.violations = append(c.violations, Violation{What: what})
			return
		}
	}
	// one replay file per distinct "what" (cap the number of files)
	if c.files >= 120 {
		c.violations = append(c.violations, Violation{What: what})
		return
	}
	c.files++
	dir := filepath.Join(Root, "replays")
	_ = os.MkdirAll(dir, 0o755)
	h := sha256.Sum256([]byte(what + fmt.Sprint(desc)))
	p := filepath.Join(dir, fmt.Sprintf("%s-%s.json", c.Prop, hex.EncodeToString(h[:6])))
	b, _ := json.MarshalIndent(map[string]any{"property": c.Prop, "what": what, "desc": desc, "case": replay, "seed": c.Seed, "tier": c.Tier}, "", " ")
	_ = os.WriteFile(p, b, 0o644)
	c.violations = append(c.violations, Violation{What: what, Replay: p})
}

// Violations returns the number of reported violations.
func (c *Ctx) Violations() int {
	c.mu.Lock()
	defer c.mu.Unlock()
	return len(c.violations)
}

// Finish writes the evidence file, prints the verdict lines and returns the exit code.
func (c *Ctx) Finish() int {
	c.mu.Lock()
	defer c.mu.Unlock()
	cov := c.Cov
	cov["evaluations"] = c.evals
	cov["distinct_nontrivial"] = len(c.distinct)
	if len(c.samples) > 0 {
		cov["samples"] = c.samples
	}
	if c.States > 0 {
		cov["states"] = c.States
		cov["transitions"] = c.Trans
	}
	cov["traces_validated_against_impl"] = c.Traces
	if c.Programs > 0 {
		cov["programs"] = c.Programs
	}
	cov["disagreements_checked"] = c.Disagree
	if len(c.skips) > 0 {
		cov["skips"] = c.skips
	}
	if len(c.known) > 0 {
		cov["known_findings_seen"] = c.known
	}
	ev := map[string]any{
		"property_id": c.Prop, "tier": c.Tier, "seed": c.Seed, "level": c.Level,
		"coverage": cov, "assumptions": c.Assume, "wall_s": time.Since(c.Start).Seconds(),
		"violations": len(c.violations),
	}
	if c.Assume == nil {
		ev["assumptions"] = []string{}
	}
	b, _ := json.MarshalIndent(ev, "", " ")
	_ = os.MkdirAll(filepath.Join(Root, "evidence"), 0o755)
	_ = os.WriteFile(filepath.Join(Root, "evidence", c.Prop+".json"), b, 0o644)
	if os.Getenv("VERIF_KEEP") == "" {
		_ = os.RemoveAll(c.WorkDir)
	}
	sort.Strings(c.known)
	for _, k := range c.known {
		fmt.Println(k)
	}
	if len(c.Broken) > 0 {
		for _, b := range c.Broken {
			fmt.Println("BROKEN:", b)
		}
		return 2
	}
	if len(c.sigs) > 0 {
		var ks []string
		for k := range c.sigs {
			ks = append(ks, k)
		}
		sort.Strings(ks)
		fmt.Println("violation classes (signature: count):")
		for _, k := range ks {
			fmt.Printf("  %s: %d\n", k, c.sigs[k])
		}
	}
	if len(c.violations) > 0 {
		seen := map[string]bool{}
		for _, v := range c.violations {
			if v.Replay == "" || seen[v.Replay] {
				continue
			}
			seen[v.Replay] = true
			fmt.Printf("VIOLATION property=%s replay=%s\n", c.Prop, v.Replay)
			fmt.Printf("  %s\n", v.What)
		}
		return 1
	}
	fmt.Printf("OK property=%s tier=%s seed=%d evaluations=%d distinct_nontrivial=%d skips=%d wall=%.1fs\n",
		c.Prop, c.Tier, c.Seed, c.evals, len(c.distinct), func() int {
			n := 0
			for _, v := range c.skips {
				n += v
			}
			return n
		}(), time.Since(c.Start).Seconds())
	return 0
}

// ---------------------------------------------------------------- findings

// Finding is one line of known_findings.jsonl.
type Finding struct {
	Property string            `json:"property"`
	Status   string            `json:"status"` // known | fixed
	What     string            `json:"what"`
	Match    map[string]string `json:"match"` // desc key -> regexp (all must match)
	WhatRe   string            `json:"what_re,omitempty"`
	Commit   string            `json:"commit,omitempty"`
}

// Matches reports whether the case descriptor is the listed finding.
func (f Finding) Matches(desc map[string]string, what string) bool {
	if len(f.Match) == 0 && f.WhatRe == "" {
		return false
	}
	for k, re := range f.Match {
		v, ok := desc[k]
		if !ok {
			return false
		}
		if m, _ := regexp.MatchString("^(?:"+re+")$", v); !m {
			return false
		}
	}
	if f.WhatRe != "" {
		if m, _ := regexp.MatchString(f.WhatRe, what); !m {
			return false
		}
	}
	return true
}

// LoadFindings reads known_findings.jsonl and known_findings.d/*.jsonl (never written at run time).
func LoadFindings(prop string) []Finding {
	files := []string{filepath.Join(Root, "known_findings.jsonl")}
	more, _ := filepath.Glob(filepath.Join(Root, "known_findings.d", "*.jsonl"))
	sort.Strings(more)
	files = append(files, more...)
	var all []string
	for _, f := range files {
		if b, err := os.ReadFile(f); err == nil {
			all = append(all, strings.Split(string(b), "\n")...)
		}
	}
	var out []Finding
	for _, l := range all {
		l = strings.TrimSpace(l)
		if l == "" || strings.HasPrefix(l, "#") {
			continue
		}
		var f Finding
		if json.Unmarshal([]byte(l), &f) == nil && f.Property == prop {
			out = append(out, f)
		}
	}
	return out
}

// ---------------------------------------------------------------- TLC

const tlaJars = "/opt/veriftools/tla/tla2tools.jar:/opt/veriftools/tla/CommunityModules-deps.jar"

// TLCResult is the parsed outcome of one TLC run.
type TLCResult struct {
	Generated int64
	Distinct  int64
	Out       string
	OK        bool // "Model checking completed. No error has been found." or simulation ended normally
	Violated  string
	Err       string
	Wall      time.Duration
	Printed   []string // lines printed by PrintT that start with the marker "@@"
}

// TLCOpts configures a run.
type TLCOpts struct {
	Spec     string // module name (file Spec.tla in the spec dir)
	Config   string // cfg file name; generated from CfgText if that is set
	CfgText  string
	Workers  int
	HeapGB   int
	Timeout  time.Duration
	Simulate string // e.g. "num=100" ; empty = BFS
	Depth    int
	Seed     int64
	Coverage bool
	Files    map[string][]byte // extra files placed next to the spec (traces, case files)
	DFS      bool              // StateDeque queue
	Dir      string            // run directory (created); outputs written by the spec land here
}

var (
	reStates  = regexp.MustCompile(`(\d+) states generated, (\d+) distinct states found`)
	reViol    = regexp.MustCompile(`(?m)^Error: (Invariant \S+ is violated|Action property \S+ is violated|Temporal properties were violated|Assumption .* is false|Postcondition \S* ?is (?:violated|false)[^\n]*|Deadlock reached)`)
	reErr     = regexp.MustCompile(`(?m)^Error: (.*)$`)
	tlcSerial int
	tlcMu     sync.Mutex
)

// SpecDir is where the TLA+ modules live.
func SpecDir() string { return filepath.Join(Root, "spec") }

// RunTLC runs TLC on a scratch copy of the spec directory.
func (c *Ctx) RunTLC(o TLCOpts) (*TLCResult, error) {
	tlcMu.Lock()
	tlcSerial++
	n := tlcSerial
	tlcMu.Unlock()
	dir := o.Dir
	if dir == "" {
		dir = filepath.Join(c.WorkDir, fmt.Sprintf("tlc%d", n))
	}
	if err := os.MkdirAll(dir, 0o755); err != nil {
		return nil, err
	}
	ents, _ := os.ReadDir(SpecDir())
	for _, e := range ents {
		if strings.HasSuffix(e.Name(), ".tla") || strings.HasSuffix(e.Name(), ".cfg") {
			b, err := os.ReadFile(filepath.Join(SpecDir(), e.Name()))
			if err != nil {
				return nil, err
			}
			if err := os.WriteFile(filepath.Join(dir, e.Name()), b, 0o644); err != nil {
				return nil, err
			}
		}
	}
	for name, b := range o.Files {
		if err := os.WriteFile(filepath.Join(dir, name), b, 0o644); err != nil {
			return nil, err
		}
	}
	cfg := o.Config
	if o.CfgText != "" {
		if cfg == "" {
			cfg = o.Spec + "_gen.cfg"
		}
		if err := os.WriteFile(filepath.Join(dir, cfg), []byte(o.CfgText), 0o644); err != nil {
			return nil, err
		}
	}
	if cfg == "" {
		cfg = o.Spec + ".cfg"
	}
	heap := o.HeapGB
	if heap == 0 {
		heap = 4
	}
	workers := o.Workers
	if workers == 0 {
		workers = 1
	}
	to := o.Timeout
	if to == 0 {
		to = 10 * time.Minute
	}
	args := []string{"-XX:+UseParallelGC", "-Xss512m", fmt.Sprintf("-Xmx%dg", heap)}
	if o.DFS {
		args = append(args, "-Dtlc2.tool.queue.IStateQueue=StateDeque")
	}
	args = append(args, "-cp", tlaJars, "tlc2.TLC", "-metadir", filepath.Join(dir, "meta"),
		"-workers", strconv.Itoa(workers), "-config", cfg, "-noGenerateSpecTE")
	if o.Simulate != "" {
		args = append(args, "-simulate", o.Simulate)
		if o.Depth > 0 {
			args = append(args, "-depth", strconv.Itoa(o.Depth))
		}
	}
	if o.Seed != 0 {
		args = append(args, "-seed", strconv.FormatInt(o.Seed, 10))
	}
	if o.Coverage {
		args = append(args, "-coverage", "1")
	}
	args = append(args, o.Spec+".tla")
	cmd := exec.Command("timeout", append([]string{"-k", "5", fmt.Sprintf("%d", int(to.Seconds())), "java"}, args...)...)
	cmd.Dir = dir
	var buf bytes.Buffer
	cmd.Stdout = &buf
	cmd.Stderr = &buf
	t0 := time.Now()
	err := cmd.Run()
	r := &TLCResult{Out: buf.String(), Wall: time.Since(t0)}
	for _, m := range reStates.FindAllStringSubmatch(r.Out, -1) {
		r.Generated, _ = strconv.ParseInt(m[1], 10, 64)
		r.Distinct, _ = strconv.ParseInt(m[2], 10, 64)
	}
	for _, l := range strings.Split(r.Out, "\n") {
		l = strings.TrimSpace(l)
		if strings.HasPrefix(l, "\"@@") {
			if s, e := strconv.Unquote(l); e == nil {
				r.Printed = append(r.Printed, s[2:])
			}
		} else if strings.HasPrefix(l, "@@") {
			r.Printed = append(r.Printed, l[2:])
		}
	}
	if m := reViol.FindStringSubmatch(r.Out); m != nil {
		r.Violated = m[1]
	} else if m := reErr.FindStringSubmatch(r.Out); m != nil {
		r.Err = m[1]
	}
	if strings.Contains(r.Out, "No error has been found") || (o.Simulate != "" && r.Violated == "" && r.Err == "" && err == nil) {
		r.OK = r.Violated == "" && r.Err == ""
	}
	if err != nil && r.Violated == "" && r.Err == "" {
		if ee, ok := err.(*exec.ExitError); ok && ee.ExitCode() == 124 {
			r.Err = "timeout"
		} else {
			r.Err = "tlc failed: " + err.Error()
		}
	}
	if os.Getenv("VERIF_TLC_LOG") != "" {
		fmt.Fprintf(os.Stderr, "---- TLC %s/%s (%.1fs) ----\n%s\n", o.Spec, cfg, r.Wall.Seconds(), r.Out)
	}
	return r, nil
}

// Tail returns the last n lines of TLC output (for diagnostics).
func (r *TLCResult) Tail(n int) string {
	ls := strings.Split(strings.TrimSpace(r.Out), "\n")
	if len(ls) > n {
		ls = ls[len(ls)-n:]
	}
	return strings.Join(ls, "\n")
}

// Cores returns the number of usable cores.
func Cores() int {
	n := runtime.NumCPU()
	if n > 16 {
		n = 16
	}
	// VERIF_CORES caps the parallelism (used while several builders share the machine)
	if s := os.Getenv("VERIF_CORES"); s != "" {
		if v, err := strconv.Atoi(s); err == nil && v >= 1 && v < n {
			n = v
		}
	}
	return n
}

// ParMap runs f over 0..n-1 on up to `par` goroutines.
func ParMap(n, par int, f func(i int)) {
	if par < 1 {
		par = 1
	}
	var wg sync.WaitGroup
	ch := make(chan int)
	for w := 0; w < par; w++ {
		wg.Add(1)
		go func() {
			defer wg.Done()
			for i := range ch {
				f(i)
			}
		}()
	}
	for i := 0; i < n; i++ {
		ch <- i
	}
	close(ch)
	wg.Wait()
}
