// Package hostile applies the edit scripts of spec/Hostile.tla to real token
// sequences and renders them ("the printer" of the C10 input-space model).
// Everything here is the harness side of the model: the tokeniser that splits a
// seed into elements, the macro expander, the actions and the renderer.  None
// of it calls naga.
package hostile

import (
	"encoding/hex"
	"fmt"
	"hash/fnv"
	"math/rand"
	"regexp"
	"strconv"
	"strings"
)

// MaxBytes is the bound of the property's quantifier (64 KiB); rendered texts are clipped to it.
const MaxBytes = 65536

// Elem is one element of a document: a token text, a comment or a raw byte run.
type Elem struct {
	T    string
	Glue bool // no separator on either side when rendered
}

// Act is one action of a script (one JSON record printed by Hostile.tla).
type Act struct {
	A      string   `json:"a"`
	I      int      `json:"i,omitempty"`
	J      int      `json:"j,omitempty"`
	O      int      `json:"o,omitempty"`
	G      int      `json:"g,omitempty"`
	T      string   `json:"t,omitempty"`
	C      string   `json:"c,omitempty"`
	Ctx    string   `json:"ctx,omitempty"`
	K      int      `json:"k,omitempty"`
	Closed int      `json:"closed,omitempty"`
	At     string   `json:"at,omitempty"`
	Pre    []string `json:"pre,omitempty"`
	Open   []string `json:"open,omitempty"`
	Core   []string `json:"core,omitempty"`
	Close  []string `json:"close,omitempty"`
	Post   []string `json:"post,omitempty"`
}

// Script is one line printed by Hostile.tla.
type Script struct {
	Seed   int   `json:"seed"`
	Len    int   `json:"len"`
	Script []Act `json:"script"`
}

// IsBuild reports whether the action appends a constructed group of declarations.
func (a Act) IsBuild() bool {
	switch a.A {
	case "Nest", "LongChain", "HugeLiteral", "HugeArray", "SelfReference":
		return true
	case "HostileConstExpr":
		return a.Ctx != "subst"
	}
	return false
}

// Param is the parameter class of an action, as used in descriptors and evidence.
func (a Act) Param() string {
	switch a.A {
	case "Nest":
		return fmt.Sprintf("c=%s,ctx=%s,k=%d,closed=%d", a.C, a.Ctx, a.K, a.Closed)
	case "LongChain":
		return fmt.Sprintf("c=%s,ctx=%s,k=%d", a.C, a.Ctx, a.K)
	case "HugeLiteral":
		return fmt.Sprintf("lit=%s,ctx=%s", strings.Join(a.Core, ""), a.Ctx)
	case "HugeArray":
		return fmt.Sprintf("type=%s,ctx=%s", strings.Join(a.Core, ""), a.Ctx)
	case "SelfReference":
		return "c=" + a.C
	case "HostileConstExpr":
		e := strings.Join(a.Core, " ")
		if len(a.Pre) > 0 && len(a.Pre) <= 10 && a.Pre[0] == "const" {
			e = strings.Join(a.Pre, " ") + " " + e
		}
		if len(e) > 150 {
			e = e[:150]
		}
		return fmt.Sprintf("c=%s,ctx=%s,e=%s", a.C, a.Ctx, e)
	case "ReplaceToken", "InsertToken", "RawBytes", "RawFill":
		return "t=" + a.T
	}
	return ""
}

var puncts = []string{"<<=", ">>=", "->", "==", "!=", "<=", ">=", "<<", ">>", "&&", "||", "++", "--", "+=", "-=", "*=", "/=",
	"%=", "&=", "|=", "^="}

func isWord(c byte) bool {
	return c == '_' || c >= '0' && c <= '9' || c >= 'a' && c <= 'z' || c >= 'A' && c <= 'Z'
}

// Tokenize splits a text into elements: words (identifiers, keywords, numbers incl. a fraction / exponent sign),
// longest-match punctuation, each comment as one element, runs of non-ASCII bytes; blankspace is dropped.
func Tokenize(src string) []Elem {
	var out []Elem
	n := len(src)
	for i := 0; i < n; {
		c := src[i]
		switch {
		case c == ' ' || c == '\t' || c == '\n' || c == '\r' || c == '\f' || c == '\v':
			i++
		case c == '/' && i+1 < n && src[i+1] == '/':
			j := i
			for j < n && src[j] != '\n' {
				j++
			}
			out = append(out, Elem{T: strings.TrimRight(src[i:j], "\r")})
			i = j
		case c == '/' && i+1 < n && src[i+1] == '*':
			depth, j := 0, i
			for j < n {
				if j+1 < n && src[j] == '/' && src[j+1] == '*' {
					depth++
					j += 2
				} else if j+1 < n && src[j] == '*' && src[j+1] == '/' {
					depth--
					j += 2
					if depth == 0 {
						break
					}
				} else {
					j++
				}
			}
			out = append(out, Elem{T: src[i:j]})
			i = j
		case isWord(c):
			j := i
			num := c >= '0' && c <= '9'
			for j < n {
				d := src[j]
				if isWord(d) {
					j++
				} else if num && d == '.' && j+1 < n && src[j+1] >= '0' && src[j+1] <= '9' {
					j++
				} else if num && (d == '+' || d == '-') && (src[j-1] == 'e' || src[j-1] == 'E' || src[j-1] == 'p' || src[j-1] == 'P') {
					j++
				} else {
					break
				}
			}
			out = append(out, Elem{T: src[i:j]})
			i = j
		case c >= 0x80:
			j := i
			for j < n && src[j] >= 0x80 {
				j++
			}
			out = append(out, Elem{T: src[i:j]})
			i = j
		default:
			l := 1
			for _, p := range puncts {
				if strings.HasPrefix(src[i:], p) {
					l = len(p)
					break
				}
			}
			out = append(out, Elem{T: src[i : i+l]})
			i += l
		}
	}
	return out
}

// Render joins the elements (see the header of Hostile.tla) and clips the text to MaxBytes.
func Render(es []Elem) (text string, clipped bool) {
	var b strings.Builder
	for i, e := range es {
		if i > 0 && !e.Glue && !es[i-1].Glue {
			p := es[i-1].T
			if p == ";" || p == "{" || p == "}" || strings.HasPrefix(p, "//") {
				b.WriteByte('\n')
			} else {
				b.WriteByte(' ')
			}
		}
		b.WriteString(e.T)
		if b.Len() > MaxBytes {
			break
		}
	}
	s := b.String()
	if len(s) > MaxBytes {
		return s[:MaxBytes], true
	}
	return s, false
}

var (
	reRep  = regexp.MustCompile(`#R\{(.+?),(\d+)\}`)
	reHex  = regexp.MustCompile(`#X\{([0-9a-f]*)\}`)
	reHexN = regexp.MustCompile(`#Z\{([0-9a-f]+),(\d+)\}`)
	reRnd  = regexp.MustCompile(`#B\{(\d+),(\d+)\}`)
)

// Expander expands the macros of Hostile.tla inside token texts.
type Expander struct {
	VSeed int64  // VERIF_SEED
	Line  string // the script line (mixed into the PRNG seed of #B)
}

// Expand expands one token text; i is the repetition index, k the count, n the action's position in the script.
func (x *Expander) Expand(t string, i, k, n int) string {
	if !strings.Contains(t, "#") {
		return t
	}
	t = strings.ReplaceAll(t, "#I", strconv.Itoa(i))
	t = strings.ReplaceAll(t, "#P", strconv.Itoa(i-1))
	t = strings.ReplaceAll(t, "#K", strconv.Itoa(k))
	t = strings.ReplaceAll(t, "#N", strconv.Itoa(n))
	t = reRep.ReplaceAllStringFunc(t, func(m string) string {
		g := reRep.FindStringSubmatch(m)
		c, _ := strconv.Atoi(g[2])
		if c*len(g[1]) > 2*MaxBytes {
			c = 2 * MaxBytes / len(g[1])
		}
		return strings.Repeat(g[1], c)
	})
	t = reHexN.ReplaceAllStringFunc(t, func(m string) string {
		g := reHexN.FindStringSubmatch(m)
		c, _ := strconv.Atoi(g[2])
		raw, _ := hex.DecodeString(g[1])
		if c*len(raw) > 2*MaxBytes {
			c = 2 * MaxBytes / len(raw)
		}
		return strings.Repeat(string(raw), c)
	})
	t = reHex.ReplaceAllStringFunc(t, func(m string) string {
		g := reHex.FindStringSubmatch(m)
		raw, _ := hex.DecodeString(g[1])
		return string(raw)
	})
	t = reRnd.ReplaceAllStringFunc(t, func(m string) string {
		g := reRnd.FindStringSubmatch(m)
		c, _ := strconv.Atoi(g[1])
		r, _ := strconv.Atoi(g[2])
		if c > 2*MaxBytes {
			c = 2 * MaxBytes
		}
		h := fnv.New64a()
		fmt.Fprintf(h, "%d|%d|%d|%s", x.VSeed, r, n, x.Line)
		rng := rand.New(rand.NewSource(int64(h.Sum64())))
		buf := make([]byte, c)
		rng.Read(buf)
		return string(buf)
	})
	return t
}

// Apply applies a script to a seed document and returns the resulting elements.  It fails when an action is not
// applicable to the document (a disagreement between the model's length bookkeeping and the real sequence).
func Apply(seed []Elem, script []Act, x *Expander) ([]Elem, error) {
	doc := append([]Elem(nil), seed...)
	for n, a := range script {
		n1 := n + 1
		L := len(doc)
		bad := func() error { return fmt.Errorf("action %d %s not applicable: len=%d i=%d j=%d", n1, a.A, L, a.I, a.J) }
		switch a.A {
		case "DeleteToken":
			if a.I < 1 || a.I > L {
				return nil, bad()
			}
			doc = append(doc[:a.I-1:a.I-1], doc[a.I:]...)
		case "DuplicateToken":
			if a.I < 1 || a.I > L {
				return nil, bad()
			}
			nd := make([]Elem, 0, L+1)
			nd = append(nd, doc[:a.I]...)
			nd = append(nd, doc[a.I-1])
			doc = append(nd, doc[a.I:]...)
		case "SwapTokens":
			if a.I < 1 || a.J <= a.I || a.J > L {
				return nil, bad()
			}
			doc[a.I-1], doc[a.J-1] = doc[a.J-1], doc[a.I-1]
		case "ReplaceToken":
			if a.I < 1 || a.I > L {
				return nil, bad()
			}
			doc[a.I-1] = Elem{T: x.Expand(a.T, 0, 0, n1)}
		case "InsertToken", "RawBytes":
			if a.I < 1 || a.I > L+1 {
				return nil, bad()
			}
			nd := make([]Elem, 0, L+1)
			nd = append(nd, doc[:a.I-1]...)
			nd = append(nd, Elem{T: x.Expand(a.T, 0, 0, n1), Glue: a.G == 1})
			doc = append(nd, doc[a.I-1:]...)
		case "TruncateTok":
			if a.I < 0 || a.I >= L {
				return nil, bad()
			}
			doc = doc[:a.I]
		case "TruncateIn":
			if a.I < 1 || a.I > L || a.O < 1 {
				return nil, bad()
			}
			doc = doc[:a.I]
			t := doc[a.I-1].T
			keep := a.O
			if keep > len(t)-1 {
				keep = len(t) - 1
			}
			if keep < 1 {
				keep = 1
			}
			if keep > len(t) {
				keep = len(t)
			}
			doc[a.I-1] = Elem{T: t[:keep], Glue: doc[a.I-1].Glue}
		case "RawFill":
			doc = []Elem{{T: x.Expand(a.T, 0, 0, n1)}}
		case "HostileConstExpr":
			if a.Ctx != "subst" {
				doc = applyBuild(doc, a, x, n1)
				break
			}
			// substitution for a numeric literal of the seed: element i becomes the expression, declarations go in front
			if a.I < 1 || a.I > L || !IsNumber(doc[a.I-1].T) {
				return nil, bad()
			}
			nd := make([]Elem, 0, L+len(a.Core)+len(a.Pre))
			for _, t := range a.Pre {
				nd = append(nd, Elem{T: x.Expand(t, 0, 0, n1)})
			}
			nd = append(nd, doc[:a.I-1]...)
			for _, t := range a.Core {
				nd = append(nd, Elem{T: x.Expand(t, 0, 0, n1)})
			}
			doc = append(nd, doc[a.I:]...)
		default:
			if !a.IsBuild() {
				return nil, fmt.Errorf("unknown action %q", a.A)
			}
			doc = applyBuild(doc, a, x, n1)
		}
	}
	return doc, nil
}

// applyBuild appends / prepends the group  pre open^k core close^k post  of a Build action.
func applyBuild(doc []Elem, a Act, x *Expander, n1 int) []Elem {
	g := make([]Elem, 0, len(a.Pre)+a.K*(len(a.Open)+len(a.Close))+len(a.Core)+len(a.Post))
	for _, t := range a.Pre {
		g = append(g, Elem{T: x.Expand(t, 0, a.K, n1)})
	}
	for i := 1; i <= a.K; i++ {
		for _, t := range a.Open {
			g = append(g, Elem{T: x.Expand(t, i, a.K, n1)})
		}
	}
	for _, t := range a.Core {
		g = append(g, Elem{T: x.Expand(t, a.K, a.K, n1)})
	}
	if a.Closed == 1 {
		for i := a.K; i >= 1; i-- {
			for _, t := range a.Close {
				g = append(g, Elem{T: x.Expand(t, i, a.K, n1)})
			}
		}
	}
	for _, t := range a.Post {
		g = append(g, Elem{T: x.Expand(t, 0, a.K, n1)})
	}
	if a.At == "start" {
		doc = append(g, doc...)
	} else {
		doc = append(doc, g...)
	}
	return doc
}

var reNumber = regexp.MustCompile(`^(0[xX][0-9a-fA-F]+[iu]?|[0-9]+[iu]?|[0-9]*\.?[0-9]+([eE][-+]?[0-9]+)?[fh]?|[0-9]+\.[fh]?)$`)

// IsNumber reports whether an element is a numeric literal (a site where HostileConstExpr may substitute an expression).
func IsNumber(t string) bool { return reNumber.MatchString(t) }

// NumberPositions lists the 1-based positions of the numeric literal elements of a document.
func NumberPositions(es []Elem) []int {
	var out []int
	for i, e := range es {
		if IsNumber(e.T) {
			out = append(out, i+1)
		}
	}
	return out
}

// Classes returns the distinct action classes of a script in order of first use.
func Classes(script []Act) []string {
	var out []string
	seen := map[string]bool{}
	for _, a := range script {
		if !seen[a.A] {
			seen[a.A] = true
			out = append(out, a.A)
		}
	}
	return out
}

// ---------------------------------------------------------------- features of a rendered text

// Features are facts about an input computed from its bytes alone (independent of how it was generated); they let
// a known-finding predicate name the construct that triggers a defect whatever action produced it.
type Features struct {
	Depth    int    // deepest nesting of ( [ { <
	Run      int    // longest run of binary-operator-separated operands at one nesting level ( a + a + ... )
	MaxTok   int    // longest word token
	MaxInt   uint64 // largest decimal / hex integer literal (saturating)
	Decls    int    // number of top-level-ish declarations (fn/var/const/struct/alias/let keywords)
	NonASCII bool
}

// Feat computes the features of a text.
func Feat(src string) Features {
	var f Features
	es := Tokenize(src)
	depth := 0
	runAt := map[int]int{}
	var angles []bool // is the "<" at this depth a template bracket
	prev := ""
	for _, e := range es {
		t := e.T
		if t == "<" || t == ">" {
			// a template bracket only after a template head (array, ptr, vecN, matCxR, atomic, texture_*, var, bitcast)
			tmpl := false
			if t == "<" {
				tmpl = prev == "array" || prev == "ptr" || prev == "atomic" || prev == "var" || prev == "bitcast" || strings.HasPrefix(prev, "vec") || strings.HasPrefix(prev, "mat") || strings.HasPrefix(prev, "texture_")
			} else {
				tmpl = len(angles) > 0
			}
			if tmpl && t == "<" {
				angles = append(angles, true)
				t = "(<"
			} else if tmpl {
				angles = angles[:len(angles)-1]
				t = ")>"
			} else {
				t = "<cmp>"
			}
		}
		prev = e.T
		if len(t) > f.MaxTok && (isWord(t[0])) {
			f.MaxTok = len(t)
		}
		if t[0] >= 0x80 {
			f.NonASCII = true
		}
		switch t {
		case "(", "[", "{", "(<":
			depth++
			if depth > f.Depth {
				f.Depth = depth
			}
			runAt[depth] = 0
		case ")", "]", "}", ")>":
			if depth > 0 {
				delete(runAt, depth)
				depth--
			}
		case "+", "-", "*", "/", "%", "&", "|", "^", "&&", "||", "<<", ">>", "==", "!=", "<=", ">=", ".", "<cmp>":
			runAt[depth]++
			if runAt[depth] > f.Run {
				f.Run = runAt[depth]
			}
		case ";":
			runAt[depth] = 0
		case "fn", "var", "const", "struct", "alias", "let", "override":
			f.Decls++
		}
		if t[0] >= '0' && t[0] <= '9' {
			s := strings.TrimRight(t, "iu")
			var v uint64
			var err error
			if strings.HasPrefix(s, "0x") || strings.HasPrefix(s, "0X") {
				v, err = strconv.ParseUint(s[2:], 16, 64)
			} else {
				v, err = strconv.ParseUint(s, 10, 64)
			}
			if err != nil {
				if ne, ok := err.(*strconv.NumError); ok && ne.Err == strconv.ErrRange {
					v = ^uint64(0)
				} else if fv, e2 := strconv.ParseFloat(s, 64); e2 == nil && fv >= 1 {
					if fv >= 1.8e19 {
						v = ^uint64(0)
					} else {
						v = uint64(fv)
					}
				}
			}
			if v > f.MaxInt {
				f.MaxInt = v
			}
		}
	}
	return f
}

func bucket(v int, steps ...int) string {
	lab := "0"
	for _, s := range steps {
		if v >= s {
			lab = strconv.Itoa(s)
		}
	}
	return lab
}

// String renders the features as a stable, coarse label: depth>=D,run>=R,tok>=T,int>=2^B.
func (f Features) String() string {
	ib := 0
	for v := f.MaxInt; v > 1; v >>= 1 {
		ib++
	}
	ibs := "0"
	for _, s := range []int{16, 20, 24, 31, 32, 63} {
		if ib >= s {
			ibs = strconv.Itoa(s)
		}
	}
	return fmt.Sprintf("depth>=%s,run>=%s,tok>=%s,int>=2^%s", bucket(f.Depth, 100, 1000, 5000, 20000), bucket(f.Run, 100, 1000, 4000),
		bucket(f.MaxTok, 100, 1000, 30000), ibs)
}
