package irx

import (
	"reflect"
	"sort"
	"strings"
)

// DumpNoNames is Dump with every identifier chosen by the source text left out: struct fields called Name,
// the elements of TypeAliasNames and the values (not the keys) of NamedExpressions print as "_".  Two modules
// that differ only in the names the programmer chose have the same DumpNoNames.  (The IR carries no source
// positions.)
func DumpNoNames(v any) string {
	var sb strings.Builder
	dumpNN(&sb, reflect.ValueOf(v), 0, false)
	return sb.String()
}

func dumpNN(sb *strings.Builder, v reflect.Value, depth int, blank bool) {
	if depth > 200 {
		sb.WriteString("<deep>")
		return
	}
	if !v.IsValid() {
		sb.WriteString("nil")
		return
	}
	switch v.Kind() {
	case reflect.Pointer:
		if v.IsNil() {
			sb.WriteString("nil")
			return
		}
		sb.WriteString("&")
		dumpNN(sb, v.Elem(), depth+1, blank)
	case reflect.Interface:
		if v.IsNil() {
			sb.WriteString("nil")
			return
		}
		e := v.Elem()
		sb.WriteString(e.Type().String())
		sb.WriteString(":")
		dumpNN(sb, e, depth+1, blank)
	case reflect.Struct:
		sb.WriteString("{")
		t := v.Type()
		for i := 0; i < v.NumField(); i++ {
			if i > 0 {
				sb.WriteString(",")
			}
			n := t.Field(i).Name
			sb.WriteString(n)
			sb.WriteString("=")
			dumpNN(sb, v.Field(i), depth+1, n == "Name" || n == "TypeAliasNames" || n == "NamedExpressions")
		}
		sb.WriteString("}")
	case reflect.Slice, reflect.Array:
		sb.WriteString("[")
		for i := 0; i < v.Len(); i++ {
			if i > 0 {
				sb.WriteString(",")
			}
			dumpNN(sb, v.Index(i), depth+1, blank)
		}
		sb.WriteString("]")
	case reflect.Map:
		keys := v.MapKeys()
		ks := make([]string, len(keys))
		m := map[string]reflect.Value{}
		for i, k := range keys {
			var kb strings.Builder
			dump(&kb, k, depth+1)
			ks[i] = kb.String()
			m[ks[i]] = v.MapIndex(k)
		}
		sort.Strings(ks)
		sb.WriteString("map{")
		for i, k := range ks {
			if i > 0 {
				sb.WriteString(",")
			}
			sb.WriteString(k)
			sb.WriteString(":")
			dumpNN(sb, m[k], depth+1, blank)
		}
		sb.WriteString("}")
	case reflect.String:
		if blank {
			sb.WriteString("_")
			return
		}
		dump(sb, v, depth)
	default:
		dump(sb, v, depth)
	}
}
