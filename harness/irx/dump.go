// Package irx observes *ir.Module values: a canonical dump / fingerprint that
// is independent of pointer identity and map order, and the event traces the
// IrValid specification checks.
package irx

import (
	"crypto/sha256"
	"encoding/hex"
	"fmt"
	"reflect"
	"sort"
	"strings"
)

// Dump renders any value canonically: every field, slices and nested blocks in
// order, maps sorted by key, pointers followed, interface values tagged with
// their dynamic type.  nil slices and empty slices are distinguished only by
// length (both "[]"), nil pointers print as nil.
func Dump(v any) string {
	var sb strings.Builder
	dump(&sb, reflect.ValueOf(v), 0)
	return sb.String()
}

// Fingerprint is the SHA-256 of Dump.
func Fingerprint(v any) string {
	h := sha256.Sum256([]byte(Dump(v)))
	return hex.EncodeToString(h[:])
}

func dump(sb *strings.Builder, v reflect.Value, depth int) {
	if depth > 200 {
		sb.WriteString("<deep>")
		return
	}
	if !v.IsValid() {
		sb.WriteString("nil")
		return
	}
	switch v.Kind() {
	case reflect.Pointer:
		if v.IsNil() {
			sb.WriteString("nil")
			return
		}
		sb.WriteString("&")
		dump(sb, v.Elem(), depth+1)
	case reflect.Interface:
		if v.IsNil() {
			sb.WriteString("nil")
			return
		}
		e := v.Elem()
		sb.WriteString(e.Type().String())
		sb.WriteString(":")
		dump(sb, e, depth+1)
	case reflect.Struct:
		sb.WriteString("{")
		t := v.Type()
		for i := 0; i < v.NumField(); i++ {
			if i > 0 {
				sb.WriteString(",")
			}
			sb.WriteString(t.Field(i).Name)
			sb.WriteString("=")
			dump(sb, v.Field(i), depth+1)
		}
		sb.WriteString("}")
	case reflect.Slice, reflect.Array:
		sb.WriteString("[")
		for i := 0; i < v.Len(); i++ {
			if i > 0 {
				sb.WriteString(",")
			}
			dump(sb, v.Index(i), depth+1)
		}
		sb.WriteString("]")
	case reflect.Map:
		keys := v.MapKeys()
		ks := make([]string, len(keys))
		m := map[string]reflect.Value{}
		for i, k := range keys {
			var kb strings.Builder
			dump(&kb, k, depth+1)
			ks[i] = kb.String()
			m[ks[i]] = v.MapIndex(k)
		}
		sort.Strings(ks)
		sb.WriteString("map{")
		for i, k := range ks {
			if i > 0 {
				sb.WriteString(",")
			}
			sb.WriteString(k)
			sb.WriteString(":")
			dump(sb, m[k], depth+1)
		}
		sb.WriteString("}")
	case reflect.String:
		fmt.Fprintf(sb, "%q", v.String())
	case reflect.Bool:
		fmt.Fprintf(sb, "%v", v.Bool())
	case reflect.Int, reflect.Int8, reflect.Int16, reflect.Int32, reflect.Int64:
		fmt.Fprintf(sb, "%d", v.Int())
	case reflect.Uint, reflect.Uint8, reflect.Uint16, reflect.Uint32, reflect.Uint64, reflect.Uintptr:
		fmt.Fprintf(sb, "%d", v.Uint())
	case reflect.Float32, reflect.Float64:
		fmt.Fprintf(sb, "%x", v.Float())
	default:
		fmt.Fprintf(sb, "<%s>", v.Kind())
	}
}
