// Package tokgen generates valid WGSL programs directly as token sequences with
// layout and roles - the program representation of spec/Edits.tla (property C11).
//
// A program is printed token by token; every token records the blanks in front
// of it, its width in code points and the module-scope declaration it belongs
// to, and the printer records the roles the rule-breaking edits need (uses of
// variables / types / functions / members, call argument extents, statement
// ends, matching delimiters, attributes, array sizes, swizzles, constant
// divisions ...).  The generator only produces constructs that are valid WGSL
// (typed expression generation over a small type universe).
package tokgen

import (
	"fmt"
	"math/rand"
	"strings"
	"unicode/utf8"
)

// Tok is one token of the table (see spec/Edits.tla for the fields).
type Tok struct {
	K    string `json:"k"`
	X    string `json:"x"` // ASCII lexeme or placeholder $n$
	NL   int    `json:"nl"`
	SP   int    `json:"sp"`
	W    int    `json:"w"`
	XL   int    `json:"xl"`
	XT   int    `json:"xt"`
	D    int    `json:"d"`
	Real string `json:"-"` // the actual lexeme
}

// Role says that token I plays role R (see spec/Edits.tla).
type Role struct {
	R  string  `json:"r"`
	I  int     `json:"i"`
	A  int     `json:"a"`
	B  int     `json:"b"`
	C  int     `json:"c"`
	S  string  `json:"s"`
	Wh string  `json:"wh"`
	L  [][]any `json:"l"`
}

// Prog is one generated program.
type Prog struct {
	ID       int    `json:"id"`
	Toks     []Tok  `json:"toks"`
	Roles    []Role `json:"roles"`
	NonASCII bool   `json:"-"`
}

// Text renders the program: nl line feeds, sp blanks, lexeme - for every token.
func (p *Prog) Text() string {
	var sb strings.Builder
	for _, t := range p.Toks {
		sb.WriteString(strings.Repeat("\n", t.NL))
		sb.WriteString(strings.Repeat(" ", t.SP))
		sb.WriteString(t.Real)
	}
	return sb.String()
}

// Subst replaces the placeholders of non-ASCII lexemes in a text rendered by the specification.
func (p *Prog) Subst(s string) string {
	if !strings.Contains(s, "$") {
		return s
	}
	for _, t := range p.Toks {
		if t.X != t.Real {
			s = strings.ReplaceAll(s, t.X, t.Real)
		}
	}
	return s
}

// Pos is a source position (line, column in code points, both from 1).
type Pos struct{ Line, Col int }

// Positions computes where every token starts (the rule of Edits.tla!PosOf).
func (p *Prog) Positions() []Pos {
	out := make([]Pos, len(p.Toks))
	line, col := 1, 1
	for i, t := range p.Toks {
		if t.NL > 0 {
			line += t.NL
			col = 1 + t.SP
		} else {
			col += t.SP
		}
		out[i] = Pos{line, col}
		if t.XL > 0 {
			line += t.XL
			col = t.XT + 1
		} else {
			col += t.W
		}
	}
	return out
}

// ---------------------------------------------------------------- types

type ty struct {
	k    string // i32 u32 f32 bool vec struct arr
	n    int    // vector width / array length
	e    string // element scalar (vec) / element key (arr)
	name string // struct name
}

func (t ty) key() string {
	switch t.k {
	case "vec":
		return fmt.Sprintf("vec%d%c", t.n, t.e[0])
	case "struct":
		return "struct:" + t.name
	case "arr":
		return fmt.Sprintf("arr:%s:%d", t.e, t.n)
	}
	return t.k
}

var (
	tI32  = ty{k: "i32"}
	tU32  = ty{k: "u32"}
	tF32  = ty{k: "f32"}
	tBool = ty{k: "bool"}
)

func tVec(n int, e string) ty { return ty{k: "vec", n: n, e: e} }
func tArr(n int) ty           { return ty{k: "arr", n: n, e: "i32"} }

type variable struct {
	name string
	t    ty
	mut  bool // assignable (var)
	cst  bool // usable in const-expressions
	ptr  bool // pointer parameter ptr<function, i32>
	nz   bool // const known to be a positive integer
}

type member struct {
	name string
	t    ty
}

type function struct {
	name    string
	params  []variable
	ret     *ty
	mustUse bool
}

// Gen is the generator state.
type Gen struct {
	rng   *rand.Rand
	toks  []Tok
	roles []Role

	decl   int
	indent int
	pendNL int
	glue   bool
	top    string
	nest   []string
	argctx []string

	scopes  [][]variable
	funcs   []function
	structs map[string][]member
	sname   string

	fnRet        *ty
	stage        string
	loops        int
	switches     int
	scRHS        int
	ed           int // expression depth
	noMustUse    int
	forceOperand bool // the next mixed-kind condition is a plain comparison with a literal right operand
	modConst     bool // inside a module-scope constant initialiser
	inCont       bool
	nameCtr      int
	nonASCII     bool
	comments     bool
	used         bool              // non-ASCII actually used
	budget       int               // remaining statements for the current function
	constVal     map[string]int    // values of the integer constants whose value the generator knows
	constKind    map[string]string // their kind: u (u32), i (i32), a (AbstractInt)
	localVar     map[string]bool   // function-scope `var`s (their address may be taken)
}

// ---------------------------------------------------------------- emission

func (g *Gen) nl() {
	if g.pendNL < 2 {
		g.pendNL++
	}
}

func (g *Gen) emit(k, x string) int {
	t := Tok{K: k, X: x, Real: x, D: g.decl, W: utf8.RuneCountInString(x)}
	if t.W != len(x) {
		t.X = fmt.Sprintf("$%d$", len(g.toks))
		g.used = true
	}
	if len(g.toks) == 0 {
		g.pendNL = 0
	}
	if g.pendNL > 0 {
		t.NL = g.pendNL
		t.SP = g.indent * 2
		g.pendNL = 0
	} else if !g.glue && len(g.toks) > 0 {
		t.SP = 1
	}
	g.glue = false
	if n := strings.Count(x, "\n"); n > 0 {
		t.XL = n
		t.XT = utf8.RuneCountInString(x[strings.LastIndex(x, "\n")+1:])
	}
	g.toks = append(g.toks, t)
	return len(g.toks) // 1-based index
}

// e emits with the default blank, j emits glued to the previous token.
func (g *Gen) e(k, x string) int { return g.emit(k, x) }
func (g *Gen) j(k, x string) int { g.glue = true; return g.emit(k, x) }
func (g *Gen) p(x string) int    { return g.emit("p", x) }
func (g *Gen) jp(x string) int   { g.glue = true; return g.emit("p", x) }
func (g *Gen) kw(x string) int   { return g.emit("kw", x) }
func (g *Gen) id(x string) int   { return g.emit("id", x) }

func (g *Gen) where() string {
	w := g.top
	if len(g.nest) > 0 {
		w += "/" + g.nest[len(g.nest)-1]
	}
	if len(g.argctx) > 0 {
		w += "/" + g.argctx[len(g.argctx)-1]
	}
	if g.scRHS > 0 {
		w += "/sc-rhs" // inside the right operand of && or ||
	}
	return w
}

func (g *Gen) role(r string, i, a, b, c int, s string, l [][]any) {
	if l == nil {
		l = [][]any{}
	}
	g.roles = append(g.roles, Role{R: r, I: i, A: a, B: b, C: c, S: s, Wh: g.where(), L: l})
}

type opener struct {
	idx  int
	role int
}

func (g *Gen) open(x string, glued bool, ctx string) opener {
	var i int
	if glued {
		i = g.jp(x)
	} else {
		i = g.p(x)
	}
	g.role("open", i, 0, 0, 0, ctx, nil)
	g.glue = x != "{"
	return opener{i, len(g.roles) - 1}
}

func (g *Gen) close(o opener, x string, glued bool) int {
	var i int
	if glued {
		i = g.jp(x)
	} else {
		i = g.p(x)
	}
	g.roles[o.role].A = i
	g.role("close", i, o.idx, 0, 0, g.roles[o.role].S, nil)
	return i
}

func (g *Gen) semi(kind string) {
	i := g.jp(";")
	g.role("semi", i, 0, 0, 0, kind, nil)
}

func (g *Gen) comment() {
	if !g.comments || g.rng.Intn(4) != 0 {
		return
	}
	texts := []string{"/* note */", "/* ünï·cödé ✓ */", "// plain line comment", "// комментарий 🎨 end", "/* two\n   lines ü */"}
	c := texts[g.rng.Intn(len(texts))]
	if !g.nonASCII {
		c = []string{"/* note */", "// plain line comment", "/* two\n   lines */"}[g.rng.Intn(3)]
	}
	g.emit("cmt", c)
	if strings.HasPrefix(c, "//") {
		g.nl()
	}
}

func (g *Gen) fresh(prefix string) string {
	g.nameCtr++
	if g.nonASCII && g.rng.Intn(3) == 0 {
		return fmt.Sprintf("%s%s%d", prefix, []string{"ö", "Δ", "λß", "é"}[g.rng.Intn(4)], g.nameCtr)
	}
	return fmt.Sprintf("%s_%d", prefix, g.nameCtr)
}

// ---------------------------------------------------------------- scopes

func (g *Gen) push()              { g.scopes = append(g.scopes, nil) }
func (g *Gen) pop()               { g.scopes = g.scopes[:len(g.scopes)-1] }
func (g *Gen) declare(v variable) { g.scopes[len(g.scopes)-1] = append(g.scopes[len(g.scopes)-1], v) }

func (g *Gen) visible(f func(variable) bool) []variable {
	var out []variable
	for _, s := range g.scopes {
		for _, v := range s {
			if f(v) {
				out = append(out, v)
			}
		}
	}
	return out
}

func (g *Gen) pick(vs []variable) variable { return vs[g.rng.Intn(len(vs))] }

func (g *Gen) varsOf(t ty, cst bool) []variable {
	return g.visible(func(v variable) bool {
		return !v.ptr && v.t.key() == t.key() && (!cst || v.cst)
	})
}

// useVar emits a use of v.
func (g *Gen) useVar(v variable, ctx string) int {
	i := g.id(v.name)
	g.role("var", i, 0, 0, 0, ctx, nil)
	return i
}

// ---------------------------------------------------------------- types

// typ emits a type at position pos: let | var | param | ret | member | global | alias | const | ptr | ctor | conv
// (the role of a type name is user:<pos> or builtin:<pos>, with /vec-elem or /arr-elem for a template argument).
func (g *Gen) typ(t ty, pos string) {
	tctx := "tmpl-type"
	if pos == "ctor" {
		tctx = "tmpl-ctor"
	}
	switch t.k {
	case "i32", "u32", "f32", "bool":
		i := g.e("tkw", t.k)
		g.role("ty", i, 0, 0, 0, "builtin:"+pos, nil)
	case "vec":
		i := g.e("tkw", fmt.Sprintf("vec%d", t.n))
		g.role("ty", i, 0, 0, 0, "builtin:"+pos, nil)
		o := g.open("<", true, tctx)
		j := g.e("tkw", t.e)
		g.role("ty", j, 0, 0, 0, "builtin:"+pos+"/vec-elem", nil)
		g.close(o, ">", true)
	case "struct":
		i := g.id(t.name)
		g.role("ty", i, 0, 0, 0, "user:"+pos, nil)
	case "arr":
		i := g.e("tkw", "array")
		g.role("ty", i, 0, 0, 0, "builtin:"+pos, nil)
		o := g.open("<", true, tctx)
		j := g.e("tkw", "i32")
		g.role("ty", j, 0, 0, 0, "builtin:"+pos+"/arr-elem", nil)
		g.jp(",")
		g.arraySize(t.n, pos)
		g.close(o, ">", true)
	}
}

// arraySize emits an element count that evaluates to n.
func (g *Gen) arraySize(n int, pos string) {
	// a module constant with that value, a literal, or a small constant expression
	cands := g.visible(func(v variable) bool { return v.cst && v.nz && v.t.k == "i32" && g.constVal[v.name] == n })
	first := 0
	g.argctx = append(g.argctx, "array-size")
	defer func() { g.argctx = g.argctx[:len(g.argctx)-1] }()
	switch {
	case len(cands) > 0 && g.rng.Intn(2) == 0:
		first = g.useVar(g.pick(cands), "const")
	case n >= 2 && g.rng.Intn(4) == 0:
		first = g.e("int", fmt.Sprint(n-1))
		g.p("+")
		g.e("int", "1")
	default:
		first = g.e("int", fmt.Sprint(n))
	}
	g.role("arrsize", first, len(g.toks), 0, 0, pos, nil)
}

// ---------------------------------------------------------------- expressions

func (g *Gen) lit(t ty) {
	switch t.k {
	case "i32":
		s := fmt.Sprint(1 + g.rng.Intn(9))
		if g.rng.Intn(4) == 0 {
			s += "i"
		}
		g.e("int", s)
	case "u32":
		g.e("int", fmt.Sprintf("%du", 1+g.rng.Intn(9)))
	case "f32":
		g.e("float", []string{"1.5", "2.0", "0.25f", "3.0", "0.5"}[g.rng.Intn(5)])
	case "bool":
		g.kw([]string{"true", "false"}[g.rng.Intn(2)])
	}
}

// form of an expression: loose forms need parentheses as operands
type form int

const (
	fAtom form = iota
	fBin
	fNeg
	fCall
	fBuiltin
	fCtor
	fIndex
	fMember
	fSwizzle
	fConv
	fDiv
)

// expr emits an expression of type t; cst: const-expression only.  Returns whether the expression is a const-expression
// by construction (literals, constants and operators on them; calls count as not constant).
func (g *Gen) expr(t ty, d int, cst bool) bool {
	return g.exprForm(t, d, cst, false)
}

// operand emits an expression usable as an operand of a binary/unary operator (loose forms get parentheses).
func (g *Gen) operand(t ty, d int, cst bool) bool {
	return g.exprForm(t, d, cst, true)
}

func (g *Gen) exprForm(t ty, d int, cst, tight bool) bool {
	f := g.chooseForm(t, d, cst)
	if tight && (f == fBin || f == fNeg || f == fDiv) {
		o := g.open("(", false, "paren")
		c := g.build(t, f, d, cst)
		g.close(o, ")", true)
		return c
	}
	if !tight && (f == fBin || f == fDiv) && g.rng.Intn(6) == 0 {
		o := g.open("(", false, "paren")
		c := g.build(t, f, d, cst)
		g.close(o, ")", true)
		return c
	}
	return g.build(t, f, d, cst)
}

func (g *Gen) helpersReturning(t ty) []function {
	var out []function
	for _, f := range g.funcs {
		if f.ret != nil && f.ret.key() == t.key() && g.callable(f) && !(f.mustUse && g.noMustUse > 0) {
			out = append(out, f)
		}
	}
	return out
}

// callable: every pointer parameter needs a local i32 var in scope
func (g *Gen) callable(f function) bool {
	for _, p := range f.params {
		if p.ptr && len(g.visible(func(v variable) bool { return v.mut && v.t.k == "i32" && !v.cst && v.name != "" && g.localVar[v.name] })) == 0 {
			return false
		}
	}
	return true
}

func (g *Gen) chooseForm(t ty, d int, cst bool) form {
	if d <= 0 || (g.modConst && (t.k == "f32" || t.k == "bool")) {
		return fAtom
	}
	var c []form
	add := func(f form, w int) {
		for i := 0; i < w; i++ {
			c = append(c, f)
		}
	}
	add(fAtom, 3)
	switch t.k {
	case "i32":
		add(fBin, 3)
		add(fDiv, 2)
		if !g.modConst {
			add(fNeg, 1)
		}
		if !cst {
			add(fBuiltin, 2)
			add(fConv, 1)
			if len(g.helpersReturning(t)) > 0 {
				add(fCall, 3)
			}
			if len(g.visible(func(v variable) bool { return v.t.k == "arr" })) > 0 {
				add(fIndex, 2)
			}
			if g.hasMember(t) {
				add(fMember, 2)
			}
			if g.hasVec("i") {
				add(fSwizzle, 1)
			}
		}
	case "u32":
		add(fBin, 2)
		add(fDiv, 2)
		if !cst {
			add(fConv, 1)
			if g.hasVec("u") {
				add(fSwizzle, 3)
			}
		}
	case "f32":
		add(fBin, 3)
		add(fNeg, 1)
		if !cst {
			add(fBuiltin, 3)
			add(fConv, 1)
			if len(g.helpersReturning(t)) > 0 {
				add(fCall, 3)
			}
			if g.hasMember(t) {
				add(fMember, 2)
			}
			if g.hasVec("f") {
				add(fSwizzle, 3)
			}
		}
	case "bool":
		add(fBin, 5)
		add(fNeg, 1)
	case "vec":
		add(fCtor, 3)
		if !cst && t.e == "f32" {
			add(fBin, 2)
			add(fBuiltin, 2)
			if g.hasWiderVec(t) {
				add(fSwizzle, 2)
			}
			if len(g.helpersReturning(t)) > 0 {
				add(fCall, 2)
			}
		}
	case "struct", "arr":
		add(fCtor, 2)
	}
	return c[g.rng.Intn(len(c))]
}

func (g *Gen) hasMember(t ty) bool {
	return len(g.memberPaths(t)) > 0
}

type mpath struct {
	v variable
	m member
}

func (g *Gen) memberPaths(t ty) []mpath {
	var out []mpath
	for _, v := range g.visible(func(v variable) bool { return v.t.k == "struct" }) {
		for _, m := range g.structs[v.t.name] {
			if m.t.key() == t.key() {
				out = append(out, mpath{v, m})
			}
		}
	}
	return out
}

func (g *Gen) hasVec(e string) bool {
	return len(g.visible(func(v variable) bool { return v.t.k == "vec" && v.t.e[0:1] == e })) > 0
}

func (g *Gen) hasWiderVec(t ty) bool {
	return len(g.visible(func(v variable) bool { return v.t.k == "vec" && v.t.e == t.e && v.t.n > t.n })) > 0
}

func (g *Gen) atom(t ty, cst bool) bool {
	vs := g.varsOf(t, cst)
	switch t.k {
	case "i32", "u32", "f32", "bool":
		if len(vs) > 0 && g.rng.Intn(3) != 0 {
			v := g.pick(vs)
			ctx := "expr"
			if cst {
				ctx = "const"
			}
			g.useVar(v, ctx)
			return v.cst
		}
		g.lit(t)
		return true
	default:
		if len(vs) > 0 && !cst && g.rng.Intn(4) != 0 {
			g.useVar(g.pick(vs), "expr")
			return false
		}
		return g.build(t, fCtor, 0, cst)
	}
}

var swz = "xyzw"
var swzC = "rgba"

func (g *Gen) build(t ty, f form, d int, cst bool) bool {
	switch f {
	case fAtom:
		return g.atom(t, cst)
	case fNeg:
		if t.k == "bool" {
			g.p("!")
		} else {
			g.p("-")
		}
		g.glue = true
		return g.operand(t, d-1, cst)
	case fBin:
		switch t.k {
		case "bool":
			switch g.rng.Intn(4) {
			case 0:
				a := g.operand(tBool, d-1, cst)
				g.p([]string{"&&", "||"}[g.rng.Intn(2)])
				g.scRHS++
				b := g.operand(tBool, d-1, cst)
				g.scRHS--
				return a && b
			default:
				ot := []ty{tI32, tI32, tF32, tU32}[g.rng.Intn(4)]
				if cst {
					ot = tI32
				}
				a := g.operand(ot, d-1, cst)
				g.p([]string{"<", ">", "<=", ">=", "==", "!="}[g.rng.Intn(6)])
				b := g.operand(ot, d-1, cst)
				return a && b
			}
		case "vec":
			if g.rng.Intn(2) == 0 {
				g.operand(t, d-1, cst)
				g.p("*")
				g.operand(tF32, d-1, cst)
			} else {
				g.operand(t, d-1, cst)
				g.p([]string{"+", "-"}[g.rng.Intn(2)])
				g.operand(t, d-1, cst)
			}
			return false
		default:
			ops := []string{"+", "-", "*"}
			if t.k == "i32" {
				ops = []string{"+", "-", "*", "&", "|", "^"}
			}
			if t.k == "u32" {
				ops = []string{"+", "*", "&", "|"}
			}
			if t.k == "f32" {
				ops = []string{"+", "-", "*", "/"}
			}
			a := g.operand(t, d-1, cst)
			op := ops[g.rng.Intn(len(ops))]
			g.p(op)
			if op == "/" {
				g.lit(tF32)
				return a
			}
			b := g.operand(t, d-1, cst)
			return a && b
		}
	case fDiv:
		// integer division / remainder by a non-zero constant
		var a bool
		if g.rng.Intn(2) == 0 {
			g.lit(t)
			a = true
		} else {
			a = g.operand(t, d-1, cst)
		}
		op := g.p([]string{"/", "%"}[g.rng.Intn(2)])
		first := len(g.toks) + 1
		nz := g.visible(func(v variable) bool { return v.cst && v.nz && v.t.key() == t.key() })
		if len(nz) > 0 && g.rng.Intn(3) == 0 {
			g.useVar(g.pick(nz), "const")
		} else {
			g.lit(t)
		}
		c := 0
		if a {
			c = 1
		}
		g.role("divop", op, first, len(g.toks), c, t.k, nil)
		return a
	case fCtor:
		g.argctx = append(g.argctx, "ctor-arg")
		defer func() { g.argctx = g.argctx[:len(g.argctx)-1] }()
		g.typ(t, "ctor")
		o := g.open("(", true, "ctor")
		switch t.k {
		case "vec":
			et := ty{k: t.e}
			if g.rng.Intn(4) == 0 {
				g.expr(et, d-1, cst)
			} else {
				for i := 0; i < t.n; i++ {
					if i > 0 {
						g.jp(",")
					}
					g.expr(et, d-1, cst)
				}
			}
		case "struct":
			for i, m := range g.structs[t.name] {
				if i > 0 {
					g.jp(",")
				}
				g.expr(m.t, min(d-1, 1), cst)
			}
		case "arr":
			for i := 0; i < t.n; i++ {
				if i > 0 {
					g.jp(",")
				}
				g.expr(tI32, 0, cst)
			}
		}
		g.close(o, ")", true)
		return false
	case fCall:
		fs := g.helpersReturning(t)
		g.call(fs[g.rng.Intn(len(fs))], d)
		return false
	case fBuiltin:
		g.builtin(t, d)
		return false
	case fConv:
		src := map[string][]ty{"i32": {tF32, tU32}, "u32": {tI32}, "f32": {tI32, tU32}}[t.k]
		i := g.e("tkw", t.k)
		g.role("ty", i, 0, 0, 0, "builtin:conv", nil)
		o := g.open("(", true, "ctor")
		g.argctx = append(g.argctx, "ctor-arg")
		g.expr(src[g.rng.Intn(len(src))], d-1, false)
		g.argctx = g.argctx[:len(g.argctx)-1]
		g.close(o, ")", true)
		return false
	case fIndex:
		vs := g.visible(func(v variable) bool { return v.t.k == "arr" })
		v := g.pick(vs)
		g.useVar(v, "expr")
		o := g.open("[", true, "index")
		g.indexExpr(v.t.n, d-1)
		g.close(o, "]", true)
		return false
	case fMember:
		ps := g.memberPaths(t)
		mp := ps[g.rng.Intn(len(ps))]
		g.useVar(mp.v, "expr")
		g.jp(".")
		i := g.j("id", mp.m.name)
		g.role("mem", i, 0, 0, 0, "expr", nil)
		return false
	case fSwizzle:
		e := t.k[0:1]
		want := 1
		if t.k == "vec" {
			e = t.e[0:1]
			want = t.n
		}
		vs := g.visible(func(v variable) bool {
			return v.t.k == "vec" && v.t.e[0:1] == e && (want == 1 || v.t.n > want)
		})
		v := g.pick(vs)
		g.useVar(v, "expr")
		g.jp(".")
		letters := swz
		if g.rng.Intn(3) == 0 {
			letters = swzC
		}
		s := ""
		for i := 0; i < want; i++ {
			s += string(letters[g.rng.Intn(v.t.n)])
		}
		i := g.j("id", s)
		g.role("swz", i, v.t.n, 0, 0, "expr", nil)
		return false
	}
	panic("form")
}

// indexExpr emits an index into an array of n elements: a constant in range or a dynamic (clamped) value.
func (g *Gen) indexExpr(n, d int) {
	if g.rng.Intn(2) == 0 || d <= 0 {
		g.e("int", fmt.Sprint(g.rng.Intn(n)))
		return
	}
	// min(max(e, 0), n-1)
	g.argctx = append(g.argctx, "builtin-arg")
	i := g.id("clamp")
	o := g.open("(", true, "bi")
	g.expr(tI32, d-1, false)
	g.jp(",")
	g.e("int", "0")
	g.jp(",")
	g.e("int", fmt.Sprint(n-1))
	c := g.close(o, ")", true)
	g.argctx = g.argctx[:len(g.argctx)-1]
	g.role("bi", i, o.idx, c, 0, "clamp", nil)
}

func (g *Gen) builtin(t ty, d int) {
	type bi struct {
		name string
		args []ty
	}
	var c []bi
	switch t.k {
	case "i32":
		c = []bi{{"max", []ty{tI32, tI32}}, {"min", []ty{tI32, tI32}}, {"abs", []ty{tI32}}, {"clamp", []ty{tI32, tI32, tI32}}, {"select", []ty{tI32, tI32, tBool}}}
	case "f32":
		v := tVec(2+g.rng.Intn(3), "f32")
		c = []bi{{"max", []ty{tF32, tF32}}, {"min", []ty{tF32, tF32}}, {"abs", []ty{tF32}}, {"sqrt", []ty{tF32}}, {"floor", []ty{tF32}},
			{"mix", []ty{tF32, tF32, tF32}}, {"length", []ty{v}}, {"dot", []ty{v, v}}, {"select", []ty{tF32, tF32, tBool}}}
	case "vec":
		c = []bi{{"normalize", []ty{t}}, {"max", []ty{t, t}}, {"mix", []ty{t, t, tF32}}, {"abs", []ty{t}}}
		if t.n == 3 {
			c = append(c, bi{"cross", []ty{t, t}})
		}
	}
	b := c[g.rng.Intn(len(c))]
	g.argctx = append(g.argctx, "builtin-arg")
	i := g.id(b.name)
	o := g.open("(", true, "bi")
	for k, a := range b.args {
		if k > 0 {
			g.jp(",")
		}
		g.expr(a, d-1, false)
	}
	cl := g.close(o, ")", true)
	g.argctx = g.argctx[:len(g.argctx)-1]
	g.role("bi", i, o.idx, cl, 0, b.name, nil)
}

// call emits a call of user function f.
func (g *Gen) call(f function, d int) {
	g.argctx = append(g.argctx, "user-arg")
	i := g.id(f.name)
	o := g.open("(", true, "call")
	var l [][]any
	for k, p := range f.params {
		if k > 0 {
			g.jp(",")
		}
		first := len(g.toks) + 1
		if p.ptr {
			vs := g.visible(func(v variable) bool { return v.mut && v.t.k == "i32" && g.localVar[v.name] })
			g.p("&")
			g.glue = true
			g.useVar(g.pick(vs), "ptr")
			l = append(l, []any{first, len(g.toks), "ptr"})
			continue
		}
		g.expr(p.t, d-1, false)
		l = append(l, []any{first, len(g.toks), p.t.key()})
	}
	c := g.close(o, ")", true)
	g.argctx = g.argctx[:len(g.argctx)-1]
	mu := 0
	if f.mustUse {
		mu = 1
	}
	g.role("fn", i, o.idx, c, mu, "", l)
}
