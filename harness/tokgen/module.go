package tokgen

import (
	"fmt"
	"math/rand"
)

// Options select generator features.
type Options struct {
	NonASCII bool // non-ASCII identifiers and comments
	Comments bool // comments between tokens
	Stmts    int  // statements per function body (approximate)
	Depth    int  // expression depth (default 2)
	Helpers  int  // number of helper functions (default 2-3)
}

// Generate builds one valid program from the seed.
func Generate(id int, seed int64, o Options) *Prog {
	g := &Gen{rng: rand.New(rand.NewSource(seed)), structs: map[string][]member{}, nonASCII: o.NonASCII, comments: o.Comments,
		constVal: map[string]int{}, constKind: map[string]string{}, localVar: map[string]bool{}}
	if o.Stmts == 0 {
		o.Stmts = 7
	}
	g.ed = o.Depth
	if g.ed == 0 {
		g.ed = 2
	}
	g.push() // module scope
	g.module(o)
	g.pop()
	g.decl = 0
	g.pendNL = 1
	g.emit("eof", "")
	g.toks[len(g.toks)-1].SP = 0
	return &Prog{ID: id, Toks: g.toks, Roles: g.roles, NonASCII: g.used}
}

func (g *Gen) newDecl(top string) {
	g.decl++
	g.top = top
	g.nest = nil
	g.indent = 0
	g.nl()
	if g.rng.Intn(3) == 0 {
		g.nl()
	}
	g.comment()
}

// attr emits @name(args...) with literal / identifier arguments; returns the index of `@` and of the last token.
func (g *Gen) attr(name string, args ...func()) (int, int) {
	at := g.p("@")
	g.j("id", name)
	if len(args) > 0 {
		o := g.open("(", true, "attr")
		g.argctx = append(g.argctx, "attr-arg")
		for i, a := range args {
			if i > 0 {
				g.jp(",")
			}
			a()
		}
		g.argctx = g.argctx[:len(g.argctx)-1]
		g.close(o, ")", true)
	}
	return at, len(g.toks)
}

func (g *Gen) intArg(n int) func()   { return func() { g.e("int", fmt.Sprint(n)) } }
func (g *Gen) idArg(s string) func() { return func() { g.id(s) } }

func (g *Gen) module(o Options) {
	// ---- struct
	g.newDecl("struct")
	g.sname = "S1"
	ms := []member{{"a", tI32}, {"f", tF32}}
	extra := []member{{"v", tVec(3, "f32")}, {"r", tArr(4)}, {"k", tU32}, {"q", tVec(2, "f32")}, {"n", tI32}}
	g.rng.Shuffle(len(extra), func(i, j int) { extra[i], extra[j] = extra[j], extra[i] })
	ms = append(ms, extra[:1+g.rng.Intn(3)]...)
	g.kw("struct")
	g.id(g.sname)
	so := g.open("{", false, "struct")
	g.indent = 1
	for i, m := range ms {
		g.nl()
		g.id(m.name)
		g.jp(":")
		g.typ(m.t, "member")
		if i < len(ms)-1 || g.rng.Intn(2) == 0 {
			g.jp(",")
		}
	}
	g.indent = 0
	g.nl()
	g.close(so, "}", false)
	g.structs[g.sname] = ms
	tS := ty{k: "struct", name: g.sname}

	// ---- constants
	nval := 2 + g.rng.Intn(3)*2 // 2, 4, 6
	g.newDecl("const-init")
	g.kw("const")
	g.id("N")
	nKind := "a" // AbstractInt unless annotated
	if g.rng.Intn(2) == 0 {
		g.jp(":")
		g.typ(tI32, "const")
		nKind = "i"
	}
	g.p("=")
	if g.rng.Intn(3) == 0 {
		g.e("int", fmt.Sprint(nval-1))
		g.p("+")
		g.e("int", "1")
	} else {
		g.e("int", fmt.Sprint(nval))
	}
	g.semi("decl")
	g.constVal["N"] = nval
	g.constKind["N"] = nKind
	g.declare(variable{name: "N", t: tI32, cst: true, nz: true})

	// constants of known value and every integer flavour, for const_assert conditions that mix operand kinds:
	// u-suffixed, `: u32` initialised with an unsuffixed literal, abstract, i-suffixed
	for _, kc := range []struct {
		name, kind, suffix string
		typed              bool
		t                  ty
	}{{"WG", "u", "u", false, tU32}, {"WU", "u", "", true, tU32}, {"LA", "a", "", false, tI32}, {"HI", "i", "i", false, tI32}} {
		v := 2 + g.rng.Intn(7)
		g.newDecl("const-init")
		g.kw("const")
		g.id(kc.name)
		if kc.typed {
			g.jp(":")
			g.typ(kc.t, "const")
		}
		g.p("=")
		g.e("int", fmt.Sprintf("%d%s", v, kc.suffix))
		g.semi("decl")
		g.constVal[kc.name] = v
		g.constKind[kc.name] = kc.kind
		g.declare(variable{name: kc.name, t: kc.t, cst: true, nz: true})
	}

	nconst := 1 + g.rng.Intn(3)
	for i := 0; i < nconst; i++ {
		g.newDecl("const-init")
		g.kw("const")
		t := []ty{tI32, tI32, tF32, tBool, tU32}[g.rng.Intn(5)]
		name := fmt.Sprintf("K%d", i)
		g.id(name)
		if g.rng.Intn(3) == 0 || t.k == "u32" {
			g.jp(":")
			g.typ(t, "const")
		}
		g.p("=")
		// naga's evaluator for module-scope constants handles integer arithmetic only (C08 territory): keep to it
		g.modConst = true
		g.expr(t, g.ed, true)
		g.modConst = false
		g.semi("decl")
		g.declare(variable{name: name, t: t, cst: true})
	}

	// ---- module-scope const_assert
	for i := 1 + g.rng.Intn(3); i > 0; i-- {
		g.newDecl("cassert")
		g.constAssert(nval, "decl")
	}

	// ---- alias
	aliasArr := ""
	if g.rng.Intn(2) == 0 {
		g.newDecl("alias")
		aliasArr = "A1"
		g.kw("alias")
		g.id(aliasArr)
		g.p("=")
		g.typ(tArr(nval), "alias")
		g.semi("decl")
	}

	// ---- resources and globals
	bind := 0
	g.newDecl("global")
	ga, gb := g.attr("group", g.intArg(0))
	g.role("attr_group", ga, gb, 0, 0, "", nil)
	ba, bb := g.attr("binding", g.intArg(bind))
	g.role("attr_binding", ba, bb, 0, 0, "", nil)
	bind++
	if g.rng.Intn(2) == 0 {
		g.nl()
	}
	g.kw("var")
	vo := g.open("<", true, "tmpl-var")
	g.id("storage")
	g.jp(",")
	g.id("read_write")
	g.close(vo, ">", true)
	g.id("out")
	g.jp(":")
	g.typ(tArr(8), "global")
	g.semi("decl")
	outVar := variable{name: "out", t: tArr(8), mut: true}

	g.newDecl("global")
	// @binding first on some programs
	if g.rng.Intn(2) == 0 {
		ba, bb = g.attr("binding", g.intArg(bind))
		g.role("attr_binding", ba, bb, 0, 0, "", nil)
		ga, gb = g.attr("group", g.intArg(0))
		g.role("attr_group", ga, gb, 0, 0, "", nil)
	} else {
		ga, gb = g.attr("group", g.intArg(0))
		g.role("attr_group", ga, gb, 0, 0, "", nil)
		ba, bb = g.attr("binding", g.intArg(bind))
		g.role("attr_binding", ba, bb, 0, 0, "", nil)
	}
	bind++
	g.kw("var")
	vo = g.open("<", true, "tmpl-var")
	g.id("storage")
	if g.rng.Intn(2) == 0 {
		g.jp(",")
		g.id("read")
	}
	g.close(vo, ">", true)
	g.id("sb")
	g.jp(":")
	g.typ(tS, "global")
	g.semi("decl")
	sbVar := variable{name: "sb", t: tS}

	g.newDecl("global")
	g.kw("var")
	vo = g.open("<", true, "tmpl-var")
	g.id("private")
	g.close(vo, ">", true)
	g.id("gp")
	if g.rng.Intn(2) == 0 {
		g.jp(":")
		g.typ(tVec(4, "f32"), "global")
	}
	g.p("=")
	g.top = "global-init"
	g.expr(tVec(4, "f32"), 1, true)
	g.semi("decl")
	g.declare(variable{name: "gp", t: tVec(4, "f32"), mut: true})

	g.newDecl("global")
	g.kw("var")
	vo = g.open("<", true, "tmpl-var")
	g.id("workgroup")
	g.close(vo, ">", true)
	g.id("wk")
	g.jp(":")
	if aliasArr != "" {
		i := g.id(aliasArr)
		g.role("ty", i, 0, 0, 0, "user:global", nil)
	} else {
		g.typ(tArr(nval), "global")
	}
	g.semi("decl")
	wkVar := variable{name: "wk", t: tArr(nval), mut: true}

	// ---- helper functions
	nh := 2 + g.rng.Intn(2)
	if o.Helpers > 0 {
		nh = o.Helpers
	}
	retTypes := []ty{tI32, tF32, tVec(3, "f32"), tI32, tF32}
	for h := 0; h < nh; h++ {
		f := function{name: g.fresh("h")}
		if h == 0 {
			f.mustUse = true
		}
		// one helper is void with a pointer parameter
		void := h == 1
		if !void {
			rt := retTypes[g.rng.Intn(len(retTypes))]
			f.ret = &rt
		}
		np := g.rng.Intn(4)
		if void {
			np = 1 + g.rng.Intn(2)
		}
		if f.mustUse && np == 0 {
			np = 1 // (so that every program has a user call with arguments)
		}
		ptys := []ty{tI32, tF32, tU32, tBool, tVec(3, "f32"), tVec(2, "f32"), tS, tVec(3, "i32"), tI32, tF32}
		for k := 0; k < np; k++ {
			f.params = append(f.params, variable{name: g.fresh("p"), t: ptys[g.rng.Intn(len(ptys))]})
		}
		if void {
			f.params = append([]variable{{name: g.fresh("p"), t: tI32, ptr: true}}, f.params...)
		}
		g.function(f, "", o.Stmts)
		g.funcs = append(g.funcs, f)
	}

	// ---- entry points
	g.stage = "compute"
	g.push()
	g.declare(outVar)
	g.declare(wkVar)
	g.declare(sbVar)
	g.function(function{name: "main", params: []variable{{name: "gid", t: tVec(3, "u32")}}}, "compute", o.Stmts+2)
	g.pop()
	if g.rng.Intn(2) == 0 {
		g.stage = "vertex"
		rt := tVec(4, "f32")
		g.function(function{name: "vs", params: []variable{{name: "pos", t: tVec(3, "f32")}, {name: "vi", t: tU32}}, ret: &rt}, "vertex", o.Stmts-2)
	}
	if g.rng.Intn(2) == 0 {
		g.stage = "fragment"
		rt := tVec(4, "f32")
		g.function(function{name: "fs", params: []variable{{name: "uv", t: tVec(2, "f32")}}, ret: &rt}, "fragment", o.Stmts-2)
	}
}

// prologue emits, at the start of the compute entry point, one site of every kind that random generation may miss, so
// that no rule class is vacuous for any seed: a swizzle on a vec3, a struct member access, a consumed @must_use call
// with arguments, a constant integer division and a mixed-kind const_assert with a literal operand.
func (g *Gen) prologue() {
	gid := variable{name: "gid", t: tVec(3, "u32")}
	g.nl()
	g.kw("let")
	n1 := g.fresh("l")
	g.id(n1)
	g.p("=")
	g.useVar(gid, "expr")
	g.jp(".")
	i := g.j("id", string("xyz"[g.rng.Intn(3)]))
	g.role("swz", i, 3, 0, 0, "expr", nil)
	g.semi("stmt")
	g.declare(variable{name: n1, t: tU32})

	g.nl()
	g.kw("let")
	n2 := g.fresh("l")
	g.id(n2)
	g.p("=")
	g.useVar(variable{name: "sb"}, "expr")
	g.jp(".")
	i = g.j("id", "a")
	g.role("mem", i, 0, 0, 0, "expr", nil)
	g.semi("stmt")
	g.declare(variable{name: n2, t: tI32})

	for _, f := range g.funcs {
		if f.mustUse && g.callable(f) {
			g.nl()
			u := g.id("_")
			g.p("=")
			g.role("mustuse", u, 2, 0, 0, "", nil)
			g.call(f, 1)
			g.semi("stmt")
			break
		}
	}

	g.nl()
	g.kw("let")
	n3 := g.fresh("l")
	g.id(n3)
	g.p("=")
	g.e("int", fmt.Sprint(6+g.rng.Intn(4)))
	op := g.p([]string{"/", "%"}[g.rng.Intn(2)])
	g.e("int", fmt.Sprint(2+g.rng.Intn(3)))
	g.role("divop", op, len(g.toks), len(g.toks), 1, "i32", nil)
	g.semi("stmt")
	g.declare(variable{name: n3, t: tI32})

	g.nl()
	g.forceOperand = true
	g.constAssert(g.constVal["N"], "stmt")
	g.forceOperand = false
}

// constAssert emits a const_assert with a condition that is true.  n is the value of the module constant N.
func (g *Gen) constAssert(n int, kind string) {
	ca := g.kw("const_assert")
	paren := g.rng.Intn(3) == 0
	var o opener
	if paren {
		o = g.open("(", true, "cassert")
	}
	first := len(g.toks) + 1
	class := "int"
	var operand [][]any
	g.argctx = append(g.argctx, "cassert-cond")
	useN := func() { g.useVar(variable{name: "N"}, "const") }
	tmpl := g.rng.Intn(9)
	if g.rng.Intn(2) == 0 || g.forceOperand {
		tmpl = 9
	}
	switch tmpl {
	case 9:
		// operands of different integer kinds (u32 / i32 / AbstractInt), see cassert.go
		class = "mixed"
		operand = g.mixedCond()
	case 0:
		useN()
		g.p(">")
		g.e("int", fmt.Sprint(n-1))
	case 1:
		useN()
		g.p("==")
		g.e("int", fmt.Sprint(n))
	case 2:
		useN()
		g.p("+")
		g.e("int", "1")
		g.p("==")
		g.e("int", fmt.Sprint(n+1))
	case 3:
		// a constant division inside the condition
		g.e("int", fmt.Sprint(n*3))
		op := g.p("/")
		g.e("int", "3")
		g.role("divop", op, len(g.toks), len(g.toks), 1, "i32", nil)
		g.p("==")
		useN()
	case 4:
		// (the condition must not start with a parenthesis: naga takes it for the optional const_assert( ) form)
		g.e("int", fmt.Sprint(n))
		g.p("<=")
		po := g.open("(", false, "paren")
		useN()
		g.p("*")
		g.e("int", "2")
		g.close(po, ")", true)
	case 5:
		class = "float"
		g.e("float", "1.5")
		g.p("<")
		g.e("float", "2.0")
	case 6:
		class = "bool"
		g.kw("true")
	case 7:
		class = "bool"
		g.p("!")
		g.j("kw", "false")
	case 8:
		useN()
		g.p(">")
		g.e("int", "0")
		g.p("&&")
		g.scRHS++
		useN()
		g.p("<")
		g.e("int", "100")
		g.scRHS--
	}
	last := len(g.toks)
	g.argctx = g.argctx[:len(g.argctx)-1]
	if paren {
		g.close(o, ")", true)
	}
	g.role("cassert", ca, first, last, 0, class, operand)
	g.semi(kind)
}

func (g *Gen) paramType(p variable) {
	if p.ptr {
		g.e("tkw", "ptr")
		o := g.open("<", true, "tmpl-type")
		g.id("function")
		g.jp(",")
		g.typ(tI32, "ptr")
		g.close(o, ">", true)
		return
	}
	g.typ(p.t, "param")
}

// function emits a function declaration (stage "" = helper).
func (g *Gen) function(f function, stage string, nstmts int) {
	top := "helper"
	if stage != "" {
		top = "entry"
	}
	g.newDecl(top)
	if f.mustUse {
		g.attr("must_use")
	}
	switch stage {
	case "compute":
		g.attr("compute")
		x := 1 + g.rng.Intn(4)
		var at, last int
		switch g.rng.Intn(3) {
		case 0:
			at, last = g.attr("workgroup_size", g.intArg(x))
		case 1:
			at, last = g.attr("workgroup_size", func() { g.useVar(variable{name: "N"}, "const") }, g.intArg(1))
		default:
			at, last = g.attr("workgroup_size", g.intArg(x), g.intArg(1), g.intArg(1))
		}
		g.role("attr_wgsize", at, last, 0, 0, "", nil)
	case "vertex":
		g.attr("vertex")
	case "fragment":
		g.attr("fragment")
	}
	if g.rng.Intn(2) == 0 && (stage != "" || f.mustUse) {
		g.nl()
	}
	g.kw("fn")
	g.id(f.name)
	po := g.open("(", true, "params")
	for i, p := range f.params {
		if i > 0 {
			g.jp(",")
		}
		switch {
		case stage == "compute":
			g.attr("builtin", g.idArg("global_invocation_id"))
		case stage == "vertex" && i == 0, stage == "fragment":
			g.attr("location", g.intArg(i))
		case stage == "vertex":
			g.attr("builtin", g.idArg("vertex_index"))
		}
		g.id(p.name)
		g.jp(":")
		g.paramType(p)
	}
	g.close(po, ")", true)
	if f.ret != nil {
		g.p("->")
		switch stage {
		case "vertex":
			g.attr("builtin", g.idArg("position"))
		case "fragment":
			g.attr("location", g.intArg(0))
		}
		g.typ(*f.ret, "ret")
	}
	g.fnRet = f.ret
	g.push()
	for _, p := range f.params {
		g.declare(p)
	}
	g.budget = nstmts
	bo := g.open("{", false, "block")
	g.indent++
	g.push()
	if stage == "compute" {
		g.prologue()
	}
	g.stmts(3)
	if f.ret != nil {
		g.nl()
		g.kw("return")
		g.expr(*f.ret, g.ed, false)
		g.semi("stmt")
	}
	g.pop()
	g.indent--
	g.nl()
	g.close(bo, "}", false)
	g.pop()
	g.fnRet = nil
}

// stmts emits statements until the budget of the function is used up (at least one).
func (g *Gen) stmts(d int) {
	n := 1 + g.rng.Intn(3)
	if len(g.nest) == 0 {
		n = g.budget
	}
	for i := 0; i < n && (g.budget > 0 || i == 0); i++ {
		g.budget--
		if g.rng.Intn(8) != 0 || i == 0 {
			g.nl()
		}
		if i > 0 {
			g.comment()
		}
		g.stmt(d)
	}
}

func (g *Gen) body(kind string, d int, extra func()) {
	o := g.open("{", false, "block")
	g.nest = append(g.nest, kind)
	g.indent++
	g.push()
	g.stmts(d - 1)
	if extra != nil {
		extra()
	}
	g.pop()
	g.indent--
	g.nest = g.nest[:len(g.nest)-1]
	g.nl()
	g.close(o, "}", false)
}

func (g *Gen) cond(d int) {
	if g.rng.Intn(4) == 0 {
		o := g.open("(", false, "paren")
		g.expr(tBool, d, false)
		g.close(o, ")", true)
		return
	}
	g.expr(tBool, d, false)
}

func (g *Gen) localScalar() ty { return []ty{tI32, tI32, tF32, tU32, tBool}[g.rng.Intn(5)] }
func (g *Gen) localType() ty {
	return []ty{tI32, tI32, tF32, tF32, tU32, tBool, tVec(3, "f32"), tVec(2, "f32"), tVec(4, "f32"), tVec(3, "i32"),
		{k: "struct", name: g.sname}, tArr(4)}[g.rng.Intn(12)]
}

func (g *Gen) stmt(d int) {
	type choice struct {
		w int
		f func()
	}
	var cs []choice
	add := func(w int, f func()) { cs = append(cs, choice{w, f}) }

	add(4, func() { // let
		t := g.localType()
		g.kw("let")
		name := g.fresh("l")
		g.id(name)
		if g.rng.Intn(3) == 0 {
			g.jp(":")
			g.typ(t, "let")
		}
		g.p("=")
		g.expr(t, g.ed, false)
		g.semi("stmt")
		g.declare(variable{name: name, t: t})
	})
	add(4, func() { // var
		t := g.localType()
		g.kw("var")
		name := g.fresh("v")
		g.id(name)
		typed := g.rng.Intn(3) == 0
		if typed {
			g.jp(":")
			g.typ(t, "var")
		}
		if !typed || g.rng.Intn(3) != 0 {
			g.p("=")
			g.expr(t, g.ed, false)
		}
		g.semi("stmt")
		g.declare(variable{name: name, t: t, mut: true})
		g.localVar[name] = true
	})
	add(2, func() { // const
		t := []ty{tI32, tF32, tBool, tI32}[g.rng.Intn(4)]
		g.kw("const")
		name := g.fresh("c")
		g.id(name)
		g.p("=")
		if g.rng.Intn(3) == 0 {
			// a literal of known value and kind (usable in mixed-kind const_assert conditions)
			kind := []string{"u", "a", "i"}[g.rng.Intn(3)]
			v := 2 + g.rng.Intn(7)
			g.e("int", fmt.Sprintf("%d%s", v, suffixOf(kind)))
			g.semi("stmt")
			g.constVal[name] = v
			g.constKind[name] = kind
			kt := tI32
			if kind == "u" {
				kt = tU32
			}
			g.declare(variable{name: name, t: kt, cst: true, nz: true})
			return
		}
		g.nest = append(g.nest, "const-init")
		g.expr(t, g.ed, true)
		g.nest = g.nest[:len(g.nest)-1]
		g.semi("stmt")
		g.declare(variable{name: name, t: t, cst: true})
	})
	add(2, func() { g.constAssert(g.constVal["N"], "stmt") })

	// assignments
	muts := g.visible(func(v variable) bool { return v.mut || v.ptr })
	if len(muts) > 0 {
		add(6, func() {
			v := g.pick(muts)
			switch {
			case v.ptr:
				g.p("*")
				g.glue = true
				g.useVar(v, "lhs")
				g.p("=")
				g.expr(tI32, g.ed, false)
			case v.t.k == "vec":
				if g.rng.Intn(2) == 0 {
					g.useVar(v, "lhs")
					g.jp(".")
					letters := swz
					if g.rng.Intn(3) == 0 {
						letters = swzC
					}
					i := g.j("id", string(letters[g.rng.Intn(v.t.n)]))
					g.role("swz", i, v.t.n, 0, 0, "lhs", nil)
					g.p("=")
					g.expr(ty{k: v.t.e}, g.ed, false)
				} else {
					g.useVar(v, "lhs")
					g.p("=")
					g.expr(v.t, g.ed, false)
				}
			case v.t.k == "arr":
				g.useVar(v, "lhs")
				o := g.open("[", true, "index")
				g.indexExpr(v.t.n, 1)
				g.close(o, "]", true)
				g.p([]string{"=", "=", "+=", "-="}[g.rng.Intn(4)])
				g.expr(tI32, g.ed, false)
			case v.t.k == "struct":
				ms := g.structs[v.t.name]
				var sc []member
				for _, m := range ms {
					if m.t.k != "arr" {
						sc = append(sc, m)
					}
				}
				m := sc[g.rng.Intn(len(sc))]
				g.useVar(v, "lhs")
				g.jp(".")
				i := g.j("id", m.name)
				g.role("mem", i, 0, 0, 0, "lhs", nil)
				g.p("=")
				g.expr(m.t, g.ed, false)
			case v.t.k == "bool":
				g.useVar(v, "lhs")
				g.p("=")
				g.expr(tBool, g.ed, false)
			default:
				g.useVar(v, "lhs")
				switch g.rng.Intn(4) {
				case 0:
					if v.t.k != "f32" {
						g.jp([]string{"++", "--"}[g.rng.Intn(2)])
						g.semi("stmt")
						return
					}
					fallthrough
				case 1:
					g.p([]string{"+=", "-=", "*="}[g.rng.Intn(3)])
				default:
					g.p("=")
				}
				g.expr(v.t, g.ed, false)
			}
			g.semi("stmt")
		})
	}

	// calls
	var voids, mus []function
	for _, f := range g.funcs {
		if g.callable(f) {
			if f.ret == nil {
				voids = append(voids, f)
			} else if f.mustUse {
				mus = append(mus, f)
			}
		}
	}
	if len(voids) > 0 {
		add(3, func() {
			// naga keeps its "expression statement" flag set while lowering the arguments, so a @must_use call nested in
			// a call statement is (wrongly) rejected (C08 territory): do not nest one there
			g.noMustUse++
			g.call(voids[g.rng.Intn(len(voids))], g.ed)
			g.noMustUse--
			g.semi("stmt")
		})
	}
	if len(mus) > 0 {
		add(3, func() {
			u := g.id("_")
			g.p("=")
			g.role("mustuse", u, 2, 0, 0, "", nil)
			g.call(mus[g.rng.Intn(len(mus))], g.ed)
			g.semi("stmt")
		})
	}

	if d > 0 && !g.inCont {
		add(3, func() { // if
			g.kw("if")
			g.cond(g.ed)
			g.body("if", d, g.jump)
			for g.rng.Intn(3) == 0 {
				g.kw("else")
				g.kw("if")
				g.cond(1)
				g.body("else", d, nil)
			}
			if g.rng.Intn(2) == 0 {
				g.kw("else")
				g.body("else", d, nil)
			}
		})
		add(2, func() { // for
			g.kw("for")
			o := g.open("(", false, "for")
			g.nest = append(g.nest, "for-header")
			g.push()
			name := g.fresh("i")
			g.kw("var")
			g.id(name)
			if g.rng.Intn(3) == 0 {
				g.jp(":")
				g.typ(tI32, "var")
			}
			g.p("=")
			g.e("int", "0")
			g.semi("for1")
			v := variable{name: name, t: tI32, mut: true}
			g.declare(v)
			g.localVar[name] = true
			g.useVar(v, "expr")
			g.p("<")
			if g.rng.Intn(2) == 0 {
				g.useVar(variable{name: "N"}, "expr")
			} else {
				g.e("int", "3")
			}
			g.semi("for2")
			g.useVar(v, "lhs")
			if g.rng.Intn(2) == 0 {
				g.jp("++")
			} else {
				g.p("+=")
				g.e("int", "1")
			}
			g.nest = g.nest[:len(g.nest)-1]
			g.close(o, ")", true)
			g.loops++
			g.body("for", d, g.jump)
			g.loops--
			g.pop()
		})
		add(1, func() { // while
			name := g.fresh("w")
			g.kw("var")
			g.id(name)
			g.p("=")
			g.e("int", "0")
			g.semi("stmt")
			v := variable{name: name, t: tI32, mut: true}
			g.declare(v)
			g.localVar[name] = true
			g.nl()
			g.kw("while")
			g.useVar(v, "expr")
			g.p("<")
			g.e("int", "3")
			g.loops++
			g.bodyWith("while", d, func() {
				g.nl()
				g.useVar(v, "lhs")
				g.jp("++")
				g.semi("stmt")
			}, nil)
			g.loops--
		})
		add(2, func() { // loop with continuing
			name := g.fresh("k")
			g.kw("var")
			g.id(name)
			g.p("=")
			g.e("int", "0")
			g.semi("stmt")
			v := variable{name: name, t: tI32, mut: true}
			g.declare(v)
			g.localVar[name] = true
			g.nl()
			g.kw("loop")
			g.loops++
			g.bodyWith("loop", d, func() {
				g.nl()
				g.kw("if")
				g.useVar(v, "expr")
				g.p(">")
				g.e("int", "2")
				bo := g.open("{", false, "block")
				g.kw("break")
				g.semi("stmt")
				g.close(bo, "}", false)
			}, func() {
				// a `continue` must not bypass a declaration used in the continuing block: hide the body's declarations
				saved := g.scopes[len(g.scopes)-1]
				g.scopes[len(g.scopes)-1] = nil
				defer func() { g.scopes[len(g.scopes)-1] = saved }()
				g.nl()
				g.kw("continuing")
				co := g.open("{", false, "block")
				g.nest = append(g.nest, "continuing")
				g.indent++
				g.push()
				g.inCont = true
				g.nl()
				g.useVar(v, "lhs")
				g.jp("++")
				g.semi("stmt")
				for i := g.rng.Intn(3); i > 0; i-- {
					g.nl()
					g.stmt(0)
				}
				if g.rng.Intn(2) == 0 {
					g.nl()
					g.kw("break")
					g.kw("if")
					g.useVar(v, "expr")
					g.p(">")
					g.e("int", "5")
					g.semi("stmt")
				}
				g.inCont = false
				g.pop()
				g.indent--
				g.nest = g.nest[:len(g.nest)-1]
				g.nl()
				g.close(co, "}", false)
			})
			g.loops--
		})
		add(2, func() { // switch
			g.kw("switch")
			if g.rng.Intn(3) == 0 {
				o := g.open("(", false, "paren")
				g.expr(tI32, 1, false)
				g.close(o, ")", true)
			} else {
				g.expr(tI32, 1, false)
			}
			so := g.open("{", false, "block")
			g.indent++
			g.switches++
			defer func() { g.switches-- }()
			clause := func(hdr func()) {
				g.nl()
				hdr()
				if g.rng.Intn(2) == 0 {
					g.jp(":")
				}
				g.body("switch", d, nil)
			}
			defAt := g.rng.Intn(3)
			val := 1
			for c := 0; c < 3; c++ {
				if c == defAt {
					clause(func() { g.kw("default") })
					continue
				}
				clause(func() {
					g.kw("case")
					g.e("int", fmt.Sprint(val))
					val++
					if g.rng.Intn(2) == 0 {
						g.jp(",")
						g.e("int", fmt.Sprint(val))
						val++
					}
				})
			}
			g.indent--
			g.nl()
			g.close(so, "}", false)
		})
		add(1, func() { g.body("block", d, nil) })
	}

	total := 0
	for _, c := range cs {
		total += c.w
	}
	r := g.rng.Intn(total)
	for _, c := range cs {
		if r < c.w {
			c.f()
			return
		}
		r -= c.w
	}
}

// bodyWith is body with a fixed first statement and something after the statements.
func (g *Gen) bodyWith(kind string, d int, first func(), last func()) {
	o := g.open("{", false, "block")
	g.nest = append(g.nest, kind)
	g.indent++
	g.push()
	first()
	g.stmts(d - 1)
	if last != nil {
		last()
	}
	g.pop()
	g.indent--
	g.nest = g.nest[:len(g.nest)-1]
	g.nl()
	g.close(o, "}", false)
}

// jump possibly ends a block with return / break / continue / discard.
func (g *Gen) jump() {
	if g.inCont {
		return
	}
	switch g.rng.Intn(6) {
	case 0:
		g.nl()
		g.kw("return")
		if g.fnRet != nil {
			g.expr(*g.fnRet, 1, false)
		}
		g.semi("stmt")
	case 1:
		if g.loops > 0 {
			g.nl()
			kwd := []string{"break", "continue"}[g.rng.Intn(2)]
			if g.switches > 0 {
				kwd = "continue" // `break` would leave the switch; naga's validator has a known problem with it (C08)
			}
			g.kw(kwd)
			g.semi("stmt")
		}
	case 2:
		if g.stage == "fragment" {
			g.nl()
			g.kw("discard")
			g.semi("stmt")
		}
	}
}
