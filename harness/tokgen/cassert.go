package tokgen

import "fmt"

// Constant conditions that mix operand kinds: u-suffixed / u32-typed constants and conversions with unsuffixed
// literals and abstract constants, i-suffixed with abstract, products and sums of constants.  All operands have values
// the generator knows, so that every condition is true by construction and a falsifying literal can be named.

// ckind is how the operand is typed: "u" (u32: u-suffixed literal, `const WG = 8u`, `: u32` constant, u32(..),
// arithmetic on those), "i" (i32: i-suffixed literal / constant, typed i32 constant), "a" (AbstractInt: unsuffixed
// literal, untyped constant initialised with one, arithmetic on those).
type coperand struct {
	kind string
	val  int
	emit func()
	lit  bool // a single literal token
}

func (g *Gen) knownConsts(kind string) []variable {
	return g.visible(func(v variable) bool {
		_, ok := g.constVal[v.name]
		return ok && v.cst && g.constKind[v.name] == kind
	})
}

func (g *Gen) useConst(v variable) { g.useVar(v, "const") }

func suffixOf(kind string) string {
	switch kind {
	case "u":
		return "u"
	case "i":
		return "i"
	}
	return ""
}

// constOperand builds an operand of the given kind; simple: a constant or a literal only.
func (g *Gen) constOperand(kind string, simple bool) coperand {
	cs := g.knownConsts(kind)
	litv := 1 + g.rng.Intn(9)
	lit := coperand{kind: kind, val: litv, lit: true, emit: func() { g.e("int", fmt.Sprintf("%d%s", litv, suffixOf(kind))) }}
	if len(cs) == 0 {
		return lit
	}
	c := g.pick(cs)
	cv := g.constVal[c.name]
	one := coperand{kind: kind, val: cv, emit: func() { g.useConst(c) }}
	if simple {
		if g.rng.Intn(3) == 0 {
			return lit
		}
		return one
	}
	switch g.rng.Intn(6) {
	case 0:
		return one
	case 1: // product of two constants
		d := g.pick(cs)
		dv := g.constVal[d.name]
		return coperand{kind: kind, val: cv * dv, emit: func() { g.useConst(c); g.p("*"); g.useConst(d) }}
	case 2: // constant times literal
		k := 2 + g.rng.Intn(3)
		return coperand{kind: kind, val: cv * k, emit: func() { g.useConst(c); g.p("*"); g.e("int", fmt.Sprintf("%d%s", k, suffixOf(kind))) }}
	case 3: // parenthesised sum
		k := 1 + g.rng.Intn(4)
		return coperand{kind: kind, val: cv + k, emit: func() {
			o := g.open("(", false, "paren")
			g.useConst(c)
			g.p("+")
			g.e("int", fmt.Sprintf("%d%s", k, suffixOf(kind)))
			g.close(o, ")", true)
		}}
	case 4: // conversion u32(abstract or i32 constant)
		if kind == "u" {
			src := append(g.knownConsts("a"), g.knownConsts("i")...)
			if len(src) > 0 {
				s := g.pick(src)
				return coperand{kind: "u", val: g.constVal[s.name], emit: func() {
					i := g.e("tkw", "u32")
					g.role("ty", i, 0, 0, 0, "builtin:conv", nil)
					o := g.open("(", true, "ctor")
					g.useConst(s)
					g.close(o, ")", true)
				}}
			}
		}
		return one
	default:
		return lit
	}
}

// trueOp picks a comparison that holds for (l, r).
func (g *Gen) trueOp(l, r int) string {
	switch {
	case l == r:
		return []string{"==", "<=", ">="}[g.rng.Intn(3)]
	case l < r:
		return []string{"<", "<=", "!="}[g.rng.Intn(3)]
	}
	return []string{">", ">=", "!="}[g.rng.Intn(3)]
}

// falseOp picks a comparison that does not hold for (l, r).
func (g *Gen) falseOp(l, r int) string {
	switch {
	case l == r:
		return []string{"!=", "<", ">"}[g.rng.Intn(3)]
	case l < r:
		return []string{">", ">=", "=="}[g.rng.Intn(3)]
	}
	return []string{"<", "<=", "=="}[g.rng.Intn(3)]
}

// falsifier returns a right-hand value that makes `l op r` false.
func falsifier(op string, l int) int {
	switch op {
	case "==":
		return l + 1
	case "!=":
		return l
	case "<":
		return l
	case "<=":
		return l - 1 // (callers make sure l >= 1)
	case ">":
		return l
	}
	return l + 1 // >=
}

// mixedPair picks the kinds of the two sides: one side u or i, the other abstract (either order), or both of one kind.
func (g *Gen) mixedPair() (string, string) {
	switch g.rng.Intn(8) {
	case 0, 1, 2:
		return "u", "a"
	case 3, 4:
		return "a", "u"
	case 5:
		return "i", "a"
	case 6:
		return "a", "i"
	}
	return "u", "u"
}

// comparison emits `L op R` with the given truth value; returns the extent and falsifying lexeme of R if R is a literal
// and the comparison is true (else 0, 0, "").
func (g *Gen) comparison(truth bool) (int, int, string) {
	lk, rk := g.mixedPair()
	if g.forceOperand {
		lk, rk = [][2]string{{"u", "a"}, {"a", "u"}}[g.rng.Intn(2)][0], ""
		rk = map[string]string{"u": "a", "a": "u"}[lk]
	}
	l := g.constOperand(lk, false)
	r := g.constOperand(rk, g.rng.Intn(2) == 0)
	if !r.lit && !l.lit && g.rng.Intn(2) == 0 {
		r = g.constOperand(rk, true)
	}
	if g.forceOperand && !r.lit {
		v := 1 + g.rng.Intn(9)
		r = coperand{kind: rk, val: v, lit: true, emit: func() { g.e("int", fmt.Sprintf("%d%s", v, suffixOf(rk))) }}
	}
	var op string
	if truth {
		op = g.trueOp(l.val, r.val)
		if op == "<=" && l.val < 1 {
			op = "!="
			if l.val == r.val {
				op = "=="
			}
		}
	} else {
		op = g.falseOp(l.val, r.val)
	}
	l.emit()
	g.p(op)
	first := len(g.toks) + 1
	r.emit()
	if truth && r.lit {
		return first, len(g.toks), fmt.Sprintf("%d%s", falsifier(op, l.val), suffixOf(r.kind))
	}
	return 0, 0, ""
}

// mixedCond emits a true condition over mixed-kind constant operands, possibly under ! && ||.  It returns the operand
// that the `operand` variant of the const_assert rule may replace: <<first, last, lexeme>> (nil for compound forms).
func (g *Gen) mixedCond() [][]any {
	form := g.rng.Intn(6)
	if g.forceOperand {
		form = 5
	}
	switch form {
	case 0: // !(false comparison)
		g.p("!")
		o := g.open("(", true, "paren")
		g.comparison(false)
		g.close(o, ")", true)
		return nil
	case 1: // true && true
		g.comparison(true)
		g.p("&&")
		g.scRHS++
		g.comparison(true)
		g.scRHS--
		return nil
	case 2: // false || true, true || false
		first := g.rng.Intn(2) == 0
		g.comparison(first)
		g.p("||")
		g.scRHS++
		g.comparison(!first)
		g.scRHS--
		return nil
	}
	a, b, x := g.comparison(true)
	if x == "" {
		return nil
	}
	return [][]any{{a, b, x}}
}
