package wgslx

import (
	"fmt"
	"math/rand"
	"strings"
)

// Piece is one entry of NeutralEdits!PieceCatalogue (the check compares the two catalogues on every run).
type Piece struct{ Name, Text string }

// Catalogue mirrors NeutralEdits!PieceCatalogue, in order.
var Catalogue = []Piece{
	{"sp", " "}, {"tab", "\t"}, {"lf", "\n"}, {"crlf", "\r\n"}, {"cr", "\r"}, {"vt", "\v"}, {"ff", "\f"},
	{"nel", "\u0085"}, {"ls", " "}, {"ps", " "}, {"lrm", "‎"}, {"rlm", "‏"},
	{"bc", "/* c */"}, {"bc_nested", "/* a /* b */ c */"}, {"bc_quote", "/* \"q' */"}, {"bc_lookalike", "/* * / */"},
	{"bc_stars", "/***/"}, {"bc_nonascii", "/* é名 */"}, {"bc_multiline", "/* a\n b */"}, {"bc_code", "/* x = 1; */"},
	{"lc_lf", "// c\n"}, {"lc_crlf", "// c\r\n"}, {"lc_cr", "// c\r"}, {"lc_vt", "// c\v"}, {"lc_ff", "// c\f"},
	{"lc_nel", "// c\u0085"}, {"lc_ls", "// c "}, {"lc_ps", "// c "},
	{"lc_quote", "// \"q' /* c\n"}, {"lc_nonascii", "// é名\n"}, {"lc_code", "// x = 1;\n"},
}

// PieceText returns the text of a catalogue piece.
func PieceText(name string) string {
	for _, p := range Catalogue {
		if p.Name == name {
			return p.Text
		}
	}
	return ""
}

// Edit is one action of NeutralEdits.tla.
type Edit struct {
	Kind  string `json:"kind"`  // insert removepiece remove paren comma rename
	Slot  int    `json:"slot"`  // insert/remove*: slot; paren: first token (1-based, as in the spec); comma: closer (1-based)
	Piece string `json:"piece"` // insert: piece name
	Pos   int    `json:"pos"`   // insert: position in the slot (0-based); removepiece: piece (1-based); paren: last token (1-based)
	From  string `json:"from,omitempty"`
	To    string `json:"to,omitempty"`
	Shape string `json:"shape,omitempty"` // paren: shape of the sub-expression; comma: kind of list
	Ctx   string `json:"ctx,omitempty"`   // paren: context
	Adj   string `json:"adj,omitempty"`   // insert/remove: the two lexemes around the slot
}

func (e Edit) String() string {
	switch e.Kind {
	case "insert":
		return fmt.Sprintf("insert %s at slot %d pos %d (%s)", e.Piece, e.Slot, e.Pos, e.Adj)
	case "removepiece":
		return fmt.Sprintf("remove piece %d of slot %d (%s)", e.Pos, e.Slot, e.Adj)
	case "remove":
		return fmt.Sprintf("empty slot %d (%s)", e.Slot, e.Adj)
	case "paren":
		return fmt.Sprintf("parenthesize tokens %d..%d (%s, %s)", e.Slot, e.Pos, e.Shape, e.Ctx)
	case "comma":
		return fmt.Sprintf("trailing comma before token %d (%s)", e.Slot, e.Shape)
	case "rename":
		return fmt.Sprintf("rename %s -> %s", e.From, e.To)
	case "parenall":
		return "parenthesize all " + e.Shape
	}
	return e.Kind
}

func insStr(s []string, i int, x string) []string {
	out := make([]string, 0, len(s)+1)
	out = append(out, s[:i]...)
	out = append(out, x)
	return append(out, s[i:]...)
}

func (d *Doc) insTok(i int, t Tok) { // t becomes token index i (0-based); an empty slot is created after it
	d.Toks = append(d.Toks[:i], append([]Tok{t}, d.Toks[i:]...)...)
}

// Apply performs the edit (the same surgery as the action of NeutralEdits.tla) and returns the new document
// together with the slots whose window the guard must re-lex.  It does not test the guard.
func (d *Doc) Apply(e Edit) (*Doc, []int, error) {
	n := d.Clone()
	switch e.Kind {
	case "insert":
		if e.Slot < 0 || e.Slot > len(n.Toks) || e.Pos < 0 || e.Pos > len(n.Triv[e.Slot]) {
			return nil, nil, fmt.Errorf("insert out of range")
		}
		txt := PieceText(e.Piece)
		if txt == "" {
			return nil, nil, fmt.Errorf("unknown piece %q", e.Piece)
		}
		n.Triv[e.Slot] = insStr(n.Triv[e.Slot], e.Pos, txt)
		return n, []int{e.Slot}, nil
	case "removepiece":
		if e.Slot < 0 || e.Slot > len(n.Toks) || e.Pos < 1 || e.Pos > len(n.Triv[e.Slot]) {
			return nil, nil, fmt.Errorf("removepiece out of range")
		}
		s := n.Triv[e.Slot]
		n.Triv[e.Slot] = append(append([]string(nil), s[:e.Pos-1]...), s[e.Pos:]...)
		return n, []int{e.Slot}, nil
	case "remove":
		if e.Slot < 0 || e.Slot > len(n.Toks) || len(n.Triv[e.Slot]) == 0 {
			return nil, nil, fmt.Errorf("remove out of range")
		}
		n.Triv[e.Slot] = nil
		return n, []int{e.Slot}, nil
	case "paren":
		a, b := e.Slot, e.Pos // 1-based inclusive
		if a < 1 || b < a || b > len(n.Toks) {
			return nil, nil, fmt.Errorf("paren out of range")
		}
		// `(` becomes token a (1-based); empty slot after it
		n.insTok(a-1, Tok{Kind: "op", Lex: "(", Tag: "paren"})
		n.Triv = append(n.Triv[:a], append([][]string{nil}, n.Triv[a:]...)...)
		// `)` becomes token b+2; empty slot before it (slot b+1)
		n.insTok(b+1, Tok{Kind: "op", Lex: ")", Tag: "paren"})
		n.Triv = append(n.Triv[:b+1], append([][]string{nil}, n.Triv[b+1:]...)...)
		return n, []int{a - 1, a, b + 1, b + 2}, nil
	case "comma":
		c := e.Slot // closer, 1-based
		if c < 2 || c > len(n.Toks) {
			return nil, nil, fmt.Errorf("comma out of range")
		}
		n.insTok(c-1, Tok{Kind: "op", Lex: ",", Tag: "comma"})
		n.Triv = append(n.Triv[:c-1], append([][]string{nil}, n.Triv[c-1:]...)...)
		return n, []int{c - 1, c}, nil
	case "rename":
		var js []int
		hit := false
		for i := range n.Toks {
			if n.Toks[i].Kind == "ident" && n.Toks[i].Lex == e.From {
				n.Toks[i].Lex = e.To
				js = append(js, i, i+1)
				hit = true
			}
		}
		if !hit {
			return nil, nil, fmt.Errorf("rename: no token %q", e.From)
		}
		return n, js, nil
	}
	return nil, nil, fmt.Errorf("unknown edit kind %q", e.Kind)
}

// FreshOK mirrors NeutralEdits!Fresh and !Renamable.
func (d *Doc) FreshOK(from, to string) bool {
	if Predeclared[from] || Reserved[from] || Keywords[from] {
		return false
	}
	tk := Lex([]rune(to), nil)
	if len(tk) != 1 || tk[0].Kind != "ident" || tk[0].Lex != to {
		return false
	}
	if Reserved[to] || Predeclared[to] || strings.HasPrefix(to, "__") {
		return false
	}
	for _, t := range d.Toks {
		if t.Lex == to {
			return false
		}
	}
	return true
}

// Marker is inserted into a name to make the fresh name of a renaming: stripping every occurrence of it from
// the outputs must give back the outputs of the original program.
const Marker = "Zq"

// FreshName builds the new spelling: style 0 puts the marker after the first code point (the name keeps its
// first and last characters), style 1 in front, style 2 appends a non-ASCII letter as well.
func FreshName(old string, style int) string {
	r := []rune(old)
	switch style {
	case 1:
		return Marker + old
	case 2:
		return string(r[:1]) + Marker + "é" + string(r[1:])
	}
	return string(r[:1]) + Marker + string(r[1:])
}

// Step is one applied edit with the guard windows it depended on.
type Step struct {
	Edit    Edit
	Windows []Window
	Idents  []string // rename: the spellings present before the step
}

// adj describes the two tokens around a slot.
func (d *Doc) adj(j int) string {
	a, b := "^", "$"
	if j > 0 {
		a = d.Toks[j-1].Lex
		if d.Toks[j-1].TE {
			a += "(template-end:" + d.Toks[j-1].Head + ")"
		}
	}
	if j < len(d.Toks) {
		b = d.Toks[j].Lex
	}
	return a + " " + b
}

// Adj describes the two tokens around slot j.
func (d *Doc) Adj(j int) string { return d.adj(j) }

// CommaAdj describes the closing token of a list and the token after it.
func (d *Doc) CommaAdj(closer int) string {
	a, b := d.Toks[closer].Lex, "$"
	if closer+1 < len(d.Toks) {
		b = d.Toks[closer+1].Lex
		if len(d.Triv[closer+1]) == 0 {
			return a + b // nothing between them in the text
		}
	}
	return a + " " + b
}

// TryApply applies e if the guard (the harness's mirror of it) holds; the windows are returned so that TLC can
// judge them.  ok=false: the guard refuses the edit (it is not neutral there).
func (d *Doc) TryApply(e Edit) (*Doc, Step, bool) {
	n, js, err := d.Apply(e)
	if err != nil {
		return nil, Step{}, false
	}
	st := Step{Edit: e}
	seen := map[int]bool{}
	for _, j := range js {
		if j < 0 || j > len(n.Toks) || seen[j] {
			continue
		}
		seen[j] = true
		w := n.WindowAt(j)
		if !w.OK() {
			return nil, Step{}, false
		}
		st.Windows = append(st.Windows, w)
	}
	if e.Kind == "rename" {
		if !d.FreshOK(e.From, e.To) {
			return nil, Step{}, false
		}
		set := map[string]bool{}
		for _, t := range d.Toks {
			if t.Kind == "ident" && !set[t.Lex] {
				set[t.Lex] = true
				st.Idents = append(st.Idents, t.Lex)
			}
		}
	}
	return n, st, true
}

// Candidates lists what the generator may choose from in a document.
type Candidates struct {
	Sites   *Sites
	Renames []string
}

// RandomEdit proposes one edit of the given kind for d (sites may be nil: trivia edits only).
func RandomEdit(rng *rand.Rand, d *Doc, s *Sites, renamable []string, kind string) (Edit, bool) {
	n := len(d.Toks)
	switch kind {
	case "insert":
		j := rng.Intn(n + 1)
		p := Catalogue[rng.Intn(len(Catalogue))]
		return Edit{Kind: "insert", Slot: j, Piece: p.Name, Pos: rng.Intn(len(d.Triv[j]) + 1), Adj: d.adj(j)}, true
	case "remove", "removepiece":
		// slots with trivia
		var js []int
		for j := 0; j <= n; j++ {
			if len(d.Triv[j]) > 0 {
				js = append(js, j)
			}
		}
		if len(js) == 0 {
			return Edit{}, false
		}
		j := js[rng.Intn(len(js))]
		if kind == "remove" {
			return Edit{Kind: "remove", Slot: j, Adj: d.adj(j)}, true
		}
		return Edit{Kind: "removepiece", Slot: j, Pos: 1 + rng.Intn(len(d.Triv[j])), Adj: d.adj(j)}, true
	case "paren":
		if s == nil || len(s.Spans) == 0 {
			return Edit{}, false
		}
		sp := s.Spans[rng.Intn(len(s.Spans))]
		return Edit{Kind: "paren", Slot: sp.A + 1, Pos: sp.B + 1, Shape: sp.Shape, Ctx: sp.Ctx}, true
	case "comma":
		if s == nil || len(s.Commas) == 0 {
			return Edit{}, false
		}
		c := s.Commas[rng.Intn(len(s.Commas))]
		return Edit{Kind: "comma", Slot: c.Closer + 1, Shape: c.Kind, Adj: d.CommaAdj(c.Closer)}, true
	case "rename":
		if len(renamable) == 0 {
			return Edit{}, false
		}
		from := renamable[rng.Intn(len(renamable))]
		if strings.Contains(from, Marker) {
			return Edit{}, false
		}
		return Edit{Kind: "rename", From: from, To: FreshName(from, rng.Intn(3))}, true
	}
	return Edit{}, false
}
