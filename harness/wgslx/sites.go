package wgslx

import (
	"fmt"
	"sort"
)

// Span is a full sub-expression: tokens A..B (inclusive).
type Span struct {
	A, B  int
	Shape string // lit id call postfix paren un:<op> bin:<op> tmpl
	Ctx   string // body global attr:<name> template case lhs
}

// CommaSite is a place where the grammar allows a trailing comma: Closer is the index of the closing token and
// the comma goes right after token Closer-1 (the last token of the last element).
type CommaSite struct {
	Closer int
	Kind   string // args params members template:<generator> attr:<name> case
}

// IdentUse is one identifier token with the role the reader gave it.
type IdentUse struct {
	Tok  int
	Role string // decl:fn decl:param decl:struct decl:member decl:var decl:let decl:const decl:override decl:alias use member attr ctxname
}

// Sites are the structural edit sites of one document.
type Sites struct {
	Spans  []Span
	Commas []CommaSite
	Idents []IdentUse
}

type perr struct{ msg string }

type rd struct {
	t   []Tok
	i   int
	s   *Sites
	ctx string
}

func (r *rd) fail(f string, a ...any) {
	at := "<eof>"
	if r.i < len(r.t) {
		at = fmt.Sprintf("%q (token %d)", r.t[r.i].Lex, r.i)
	}
	panic(perr{fmt.Sprintf(f, a...) + " at " + at})
}

func (r *rd) eof() bool { return r.i >= len(r.t) }
func (r *rd) lex() string {
	if r.eof() {
		return ""
	}
	return r.t[r.i].Lex
}
func (r *rd) kind() string {
	if r.eof() {
		return "eof"
	}
	return r.t[r.i].Kind
}
func (r *rd) isOp(s string) bool {
	return !r.eof() && r.t[r.i].Kind == "op" && r.t[r.i].Lex == s && !r.t[r.i].TS && !r.t[r.i].TE
}
func (r *rd) isKw(s string) bool { return !r.eof() && r.t[r.i].Kind == "keyword" && r.t[r.i].Lex == s }
func (r *rd) isTS() bool         { return !r.eof() && r.t[r.i].TS }
func (r *rd) isTE() bool         { return !r.eof() && r.t[r.i].TE }
func (r *rd) op(s string) {
	if !r.isOp(s) {
		r.fail("expected %q", s)
	}
	r.i++
}
func (r *rd) kw(s string) {
	if !r.isKw(s) {
		r.fail("expected %q", s)
	}
	r.i++
}
func (r *rd) acceptOp(s string) bool {
	if r.isOp(s) {
		r.i++
		return true
	}
	return false
}
func (r *rd) ident(role string) int {
	if r.kind() != "ident" {
		r.fail("expected identifier")
	}
	r.s.Idents = append(r.s.Idents, IdentUse{r.i, role})
	r.i++
	return r.i - 1
}
func (r *rd) span(a, b int, shape string, noParen bool) {
	if noParen {
		return
	}
	r.s.Spans = append(r.s.Spans, Span{a, b, shape, r.ctx})
}

// FindSites reads the token sequence of a document.  It fails (error) on anything it does not understand; the
// caller then does without structural sites for that program.
func FindSites(d *Doc) (s *Sites, err error) {
	s = &Sites{}
	r := &rd{t: d.Toks, s: s}
	defer func() {
		if x := recover(); x != nil {
			if pe, ok := x.(perr); ok {
				s, err = nil, fmt.Errorf("%s", pe.msg)
				return
			}
			panic(x)
		}
	}()
	for !r.eof() {
		r.global()
	}
	sort.SliceStable(s.Spans, func(i, j int) bool {
		if s.Spans[i].A != s.Spans[j].A {
			return s.Spans[i].A < s.Spans[j].A
		}
		return s.Spans[i].B < s.Spans[j].B
	})
	return s, nil
}

// ---- declarations -----------------------------------------------------------

var exprAttrs = map[string]bool{"binding": true, "group": true, "location": true, "id": true, "align": true, "size": true, "workgroup_size": true, "blend_src": true}

func (r *rd) attributes() {
	for r.isOp("@") {
		r.i++
		name := r.lex()
		if r.kind() != "ident" && r.kind() != "keyword" {
			r.fail("expected attribute name")
		}
		if r.kind() == "ident" {
			r.s.Idents = append(r.s.Idents, IdentUse{r.i, "attr"})
		}
		r.i++
		if r.isOp("(") {
			r.i++
			old := r.ctx
			r.ctx = "attr:" + name
			n := 0
			for !r.isOp(")") {
				if exprAttrs[name] {
					r.expr()
				} else {
					// context-dependent names (builtin values, interpolation, diagnostic rule names)
					for !r.isOp(",") && !r.isOp(")") {
						if r.eof() {
							r.fail("unclosed attribute")
						}
						if r.kind() == "ident" {
							r.s.Idents = append(r.s.Idents, IdentUse{r.i, "ctxname"})
						}
						r.i++
					}
				}
				n++
				if !r.acceptOp(",") {
					break
				}
			}
			if !r.isOp(")") {
				r.fail("expected ) after attribute arguments")
			}
			if n > 0 && !(r.t[r.i-1].Kind == "op" && r.t[r.i-1].Lex == ",") {
				r.s.Commas = append(r.s.Commas, CommaSite{r.i, "attr:" + name})
			}
			r.i++
			r.ctx = old
		}
	}
}

func (r *rd) global() {
	if r.acceptOp(";") {
		return
	}
	if r.isKw("enable") || r.isKw("requires") || r.isKw("diagnostic") {
		r.i++
		for !r.isOp(";") {
			if r.eof() {
				r.fail("unterminated directive")
			}
			if r.kind() == "ident" {
				r.s.Idents = append(r.s.Idents, IdentUse{r.i, "ctxname"})
			}
			r.i++
		}
		r.i++
		return
	}
	r.ctx = "global"
	r.attributes()
	switch {
	case r.isKw("struct"):
		r.i++
		r.ident("decl:struct")
		r.op("{")
		n := 0
		for !r.isOp("}") {
			r.attributes()
			r.ident("decl:member")
			r.op(":")
			r.typeExpr()
			n++
			if !r.acceptOp(",") {
				break
			}
		}
		if !r.isOp("}") {
			r.fail("expected } after struct members")
		}
		if n > 0 && !(r.t[r.i-1].Lex == "," && r.t[r.i-1].Kind == "op") {
			r.s.Commas = append(r.s.Commas, CommaSite{r.i, "members"})
		}
		r.i++
	case r.isKw("alias"):
		r.i++
		r.ident("decl:alias")
		r.op("=")
		r.typeExpr()
		r.op(";")
	case r.isKw("const"):
		r.i++
		r.ident("decl:const")
		if r.acceptOp(":") {
			r.typeExpr()
		}
		r.op("=")
		r.expr()
		r.op(";")
	case r.isKw("override"):
		r.i++
		r.ident("decl:override")
		if r.acceptOp(":") {
			r.typeExpr()
		}
		if r.acceptOp("=") {
			r.expr()
		}
		r.op(";")
	case r.isKw("var"):
		r.varDecl()
		r.op(";")
	case r.isKw("const_assert"):
		r.i++
		r.ctx = "const_assert"
		r.expr()
		r.op(";")
	case r.isKw("fn"):
		r.i++
		r.ident("decl:fn")
		r.op("(")
		n := 0
		for !r.isOp(")") {
			r.attributes()
			r.ident("decl:param")
			r.op(":")
			r.typeExpr()
			n++
			if !r.acceptOp(",") {
				break
			}
		}
		if !r.isOp(")") {
			r.fail("expected ) after parameters")
		}
		if n > 0 && !(r.t[r.i-1].Lex == "," && r.t[r.i-1].Kind == "op") {
			r.s.Commas = append(r.s.Commas, CommaSite{r.i, "params"})
		}
		r.i++
		if r.acceptOp("->") {
			r.attributes()
			r.typeExpr()
		}
		r.ctx = "body"
		r.attributes()
		r.block()
	default:
		r.fail("unexpected token at module scope")
	}
}

func (r *rd) varDecl() {
	r.kw("var")
	if r.isTS() {
		r.templateList(true)
	}
	r.ident("decl:var")
	if r.acceptOp(":") {
		r.typeExpr()
	}
	if r.acceptOp("=") {
		r.expr()
	}
}

// typeExpr: ident [template list]; never parenthesised.
func (r *rd) typeExpr() {
	if r.kind() != "ident" {
		r.fail("expected type")
	}
	r.s.Idents = append(r.s.Idents, IdentUse{r.i, "use"})
	r.i++
	if r.isTS() {
		r.templateList(false)
	}
}

// templateList: `<` args `>`; an argument that is a bare (possibly templated) identifier may be a type or an
// enumerant and is never parenthesised; other arguments are expressions.
func (r *rd) templateList(enumerants bool) {
	if !r.isTS() {
		r.fail("expected template list")
	}
	head := ""
	if r.i > 0 {
		head = r.t[r.i-1].Lex
	}
	r.i++
	old := r.ctx
	r.ctx = "template"
	n := 0
	for !r.isTE() {
		if r.eof() {
			r.fail("unclosed template list")
		}
		if enumerants && r.kind() == "ident" {
			r.s.Idents = append(r.s.Idents, IdentUse{r.i, "ctxname"})
			r.i++
		} else {
			r.exprP(true)
		}
		n++
		if !r.acceptOp(",") {
			break
		}
	}
	if !r.isTE() {
		r.fail("expected > after template arguments")
	}
	if n > 0 && !(r.t[r.i-1].Lex == "," && r.t[r.i-1].Kind == "op") {
		kind := "template:" + head
		if head == "ptr" && n == 3 {
			kind = "template:ptr3" // ptr<space, T, access>
		}
		r.s.Commas = append(r.s.Commas, CommaSite{r.i, kind})
	}
	r.i++
	r.ctx = old
}

// ---- statements -----------------------------------------------------------------

func (r *rd) block() {
	r.op("{")
	for !r.isOp("}") {
		if r.eof() {
			r.fail("unclosed block")
		}
		r.stmt()
	}
	r.i++
}

func (r *rd) stmt() {
	r.attributes()
	switch {
	case r.acceptOp(";"):
	case r.isOp("{"):
		r.block()
	case r.isKw("if"):
		r.i++
		r.expr()
		r.attributes()
		r.block()
		for r.isKw("else") {
			r.i++
			if r.isKw("if") {
				r.i++
				r.expr()
				r.attributes()
				r.block()
				continue
			}
			r.attributes()
			r.block()
			break
		}
	case r.isKw("switch"):
		r.i++
		r.expr()
		r.attributes()
		r.op("{")
		for !r.isOp("}") {
			r.attributes()
			if r.isKw("default") {
				r.i++
			} else {
				r.kw("case")
				old := r.ctx
				r.ctx = "case"
				for {
					if r.isKw("default") {
						r.i++
					} else {
						r.expr()
					}
					if !r.acceptOp(",") {
						break
					}
					if r.isOp(":") || r.isOp("{") || r.isOp("@") {
						break
					}
				}
				if !(r.t[r.i-1].Lex == "," && r.t[r.i-1].Kind == "op") {
					r.s.Commas = append(r.s.Commas, CommaSite{r.i, "case"})
				}
				r.ctx = old
			}
			r.acceptOp(":")
			r.attributes()
			r.block()
		}
		r.i++
	case r.isKw("loop"):
		r.i++
		r.attributes()
		r.op("{")
		for !r.isOp("}") {
			if r.isKw("continuing") {
				r.i++
				r.attributes()
				r.op("{")
				for !r.isOp("}") {
					if r.isKw("break") && r.i+1 < len(r.t) && r.t[r.i+1].Lex == "if" {
						r.i += 2
						r.expr()
						r.op(";")
						continue
					}
					r.stmt()
				}
				r.i++
				continue
			}
			r.stmt()
		}
		r.i++
	case r.isKw("for"):
		r.i++
		r.op("(")
		if !r.isOp(";") {
			r.simple()
		}
		r.op(";")
		if !r.isOp(";") {
			r.expr()
		}
		r.op(";")
		if !r.isOp(")") {
			r.simple()
		}
		r.op(")")
		r.attributes()
		r.block()
	case r.isKw("while"):
		r.i++
		r.expr()
		r.attributes()
		r.block()
	case r.isKw("break"):
		r.i++
		if r.isKw("if") {
			r.i++
			r.expr()
		}
		r.op(";")
	case r.isKw("continue"), r.isKw("discard"):
		r.i++
		r.op(";")
	case r.isKw("return"):
		r.i++
		if !r.isOp(";") {
			r.expr()
		}
		r.op(";")
	case r.isKw("const_assert"):
		r.i++
		old := r.ctx
		r.ctx = "const_assert"
		r.expr()
		r.ctx = old
		r.op(";")
	case r.isKw("continuing"):
		r.fail("continuing outside loop")
	default:
		r.simple()
		r.op(";")
	}
}

var assignOps = map[string]bool{"=": true, "+=": true, "-=": true, "*=": true, "/=": true, "%=": true, "&=": true, "|=": true, "^=": true, "<<=": true, ">>=": true}

// simple: variable declaration, assignment, increment/decrement, function call (no trailing `;`)
func (r *rd) simple() {
	switch {
	case r.isKw("var"):
		r.varDecl()
	case r.isKw("let"), r.isKw("const"):
		what := "decl:" + r.lex()
		r.i++
		r.ident(what)
		if r.acceptOp(":") {
			r.typeExpr()
		}
		r.op("=")
		r.expr()
	case r.isOp("_"):
		r.i++
		r.op("=")
		r.expr()
	default:
		old := r.ctx
		r.ctx = "lhs"
		start := r.i
		nsp := len(r.s.Spans)
		shape := r.unary(false)
		r.ctx = old
		if !r.eof() && r.t[r.i].Kind == "op" && assignOps[r.lex()] && !r.t[r.i].TE {
			r.i++
			r.expr()
		} else if r.isOp("++") || r.isOp("--") {
			r.i++
		} else if shape == "call" {
			// a call statement: the call itself must not be parenthesised (its arguments may); drop the
			// span recorded for the whole call and re-label the inner spans as ordinary body expressions
			var keep []Span
			for _, sp := range r.s.Spans[nsp:] {
				if sp.A == start && sp.B == r.i-1 {
					continue
				}
				keep = append(keep, sp)
			}
			r.s.Spans = append(r.s.Spans[:nsp], keep...)
		} else {
			r.fail("expected assignment or call")
		}
	}
}

// ---- expressions ------------------------------------------------------------------

var binPrec = map[string]int{"||": 1, "&&": 2, "|": 3, "^": 4, "&": 5, "==": 6, "!=": 6, "<": 7, ">": 7, "<=": 7, ">=": 7,
	"<<": 8, ">>": 8, "+": 9, "-": 9, "*": 10, "/": 10, "%": 10}

func (r *rd) expr() { r.exprP(false) }

// exprP parses an expression; bareNoParen: a result that is a bare (templated) identifier gets no span.
func (r *rd) exprP(bareNoParen bool) {
	r.binary(1, bareNoParen)
}

func (r *rd) binary(minPrec int, bareNoParen bool) string {
	start := r.i
	shape := r.unary(bareNoParen)
	for {
		if r.eof() || r.t[r.i].Kind != "op" || r.t[r.i].TS || r.t[r.i].TE {
			return shape
		}
		op := r.lex()
		p, ok := binPrec[op]
		if !ok || p < minPrec {
			return shape
		}
		r.i++
		r.binary(p+1, false)
		shape = "bin:" + op
		r.span(start, r.i-1, shape, false)
	}
}

func (r *rd) unary(bareNoParen bool) string {
	if !r.eof() && r.t[r.i].Kind == "op" && !r.t[r.i].TS && !r.t[r.i].TE {
		switch r.lex() {
		case "-", "!", "~", "*", "&":
			start := r.i
			op := r.lex()
			r.i++
			r.unary(false)
			r.span(start, r.i-1, "un:"+op, false)
			return "un:" + op
		}
	}
	return r.postfix(bareNoParen)
}

func (r *rd) postfix(bareNoParen bool) string {
	start := r.i
	shape := r.primary(bareNoParen)
	for {
		switch {
		case r.isOp("["):
			r.i++
			old := r.ctx
			if old == "lhs" {
				r.ctx = "body"
			}
			r.expr()
			r.ctx = old
			r.op("]")
		case r.isOp("."):
			r.i++
			if r.kind() != "ident" {
				r.fail("expected member name")
			}
			r.s.Idents = append(r.s.Idents, IdentUse{r.i, "member"})
			r.i++
		default:
			return shape
		}
		shape = "postfix"
		r.span(start, r.i-1, shape, false)
	}
}

func (r *rd) primary(bareNoParen bool) string {
	start := r.i
	switch r.kind() {
	case "int", "float":
		r.i++
		r.span(start, start, "lit", false)
		return "lit"
	case "keyword":
		if r.lex() == "true" || r.lex() == "false" {
			r.i++
			r.span(start, start, "lit", false)
			return "lit"
		}
		r.fail("unexpected keyword in expression")
	case "ident":
		r.s.Idents = append(r.s.Idents, IdentUse{r.i, "use"})
		r.i++
		tmpl := false
		if r.isTS() {
			r.templateList(false)
			tmpl = true
		}
		if r.isOp("(") {
			r.i++
			old := r.ctx
			if old == "lhs" {
				r.ctx = "body"
			}
			n := 0
			for !r.isOp(")") {
				r.expr()
				n++
				if !r.acceptOp(",") {
					break
				}
			}
			if !r.isOp(")") {
				r.fail("expected ) after arguments")
			}
			if n > 0 && !(r.t[r.i-1].Lex == "," && r.t[r.i-1].Kind == "op") {
				kind := "args"
				if r.t[start].Lex == "bitcast" {
					kind = "args:bitcast"
				}
				r.s.Commas = append(r.s.Commas, CommaSite{r.i, kind})
			}
			r.i++
			r.ctx = old
			r.span(start, r.i-1, "call", false)
			return "call"
		}
		if tmpl {
			return "tmpl" // a type expression: never parenthesised
		}
		r.span(start, start, "id", bareNoParen)
		return "id"
	case "op":
		if r.isOp("(") {
			r.i++
			old := r.ctx
			// inside parentheses of an lhs the expression is still an lhs expression
			r.exprP(false)
			r.ctx = old
			r.op(")")
			r.span(start, r.i-1, "paren", false)
			return "paren"
		}
	}
	r.fail("expected expression")
	return ""
}

// Renamable returns the user-declared names that may be renamed consistently (all tokens of that spelling),
// sorted, with the number of tokens each has.
func (s *Sites) Renamable(d *Doc) []string {
	decl := map[string]bool{}
	bad := map[string]bool{}
	for _, u := range s.Idents {
		n := d.Toks[u.Tok].Lex
		switch {
		case len(u.Role) > 5 && u.Role[:5] == "decl:":
			decl[n] = true
			if u.Role == "decl:member" && SwizzleLike(n) {
				bad[n] = true
			}
		case u.Role == "attr" || u.Role == "ctxname":
			bad[n] = true
		case u.Role == "member":
			if SwizzleLike(n) {
				bad[n] = true
			}
		}
	}
	var out []string
	for n := range decl {
		if bad[n] || Predeclared[n] || Reserved[n] || Keywords[n] || len(n) >= 2 && n[:2] == "__" {
			continue
		}
		out = append(out, n)
	}
	sort.Strings(out)
	return out
}
