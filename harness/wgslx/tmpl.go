package wgslx

// TemplateLists is the WGSL template-list discovery algorithm (WGSL 3.9) over
// code points.  It returns the rune positions of every `<` that starts and
// every `>` that ends a template list.
func TemplateLists(t []rune) (starts, ends map[int]bool) {
	starts, ends = map[int]bool{}, map[int]bool{}
	type cand struct{ pos, depth int }
	var pending []cand
	depth := 0
	pos := 0
	popDeeper := func() {
		for len(pending) > 0 && pending[len(pending)-1].depth >= depth {
			pending = pending[:len(pending)-1]
		}
	}
	for {
		// past blankspace, comments and literals
		for {
			s := skipTrivia(t, pos)
			if s < 0 || s >= len(t) {
				return
			}
			pos = s
			if isDigit(t[pos]) || (t[pos] == '.' && isDigit(at(t, pos+1))) {
				if t[pos] == '0' && (at(t, pos+1) == 'x' || at(t, pos+1) == 'X') {
					_, pos = hexTok(t, pos)
				} else {
					_, pos = decimalTok(t, pos)
				}
				continue
			}
			break
		}
		c := t[pos]
		switch {
		case IsIdStart(c):
			pos = runEnd(t, pos+1, IsIdCont)
			s := skipTrivia(t, pos)
			if s < 0 || s >= len(t) {
				return
			}
			pos = s
			if t[pos] == '<' {
				pending = append(pending, cand{pos, depth})
				pos++
				if at(t, pos) == '<' || at(t, pos) == '=' {
					pending = pending[:len(pending)-1]
					pos++
				}
			}
		case c == '>':
			if n := len(pending); n > 0 && pending[n-1].depth == depth {
				starts[pending[n-1].pos] = true
				ends[pos] = true
				pending = pending[:n-1]
				pos++
			} else {
				pos++
				if at(t, pos) == '=' {
					pos++
				}
			}
		case c == '(' || c == '[':
			depth++
			pos++
		case c == ')' || c == ']':
			popDeeper()
			if depth > 0 {
				depth--
			}
			pos++
		case c == '!':
			pos++
			if at(t, pos) == '=' {
				pos++
			}
		case c == '=':
			pos++
			if at(t, pos) == '=' {
				pos++
			} else {
				depth = 0
				pending = pending[:0]
			}
		case c == ';' || c == '{' || c == ':':
			depth = 0
			pending = pending[:0]
			pos++
		case (c == '&' && at(t, pos+1) == '&') || (c == '|' && at(t, pos+1) == '|'):
			popDeeper()
			pos += 2
		default:
			pos++
		}
	}
}

// LexT lexes with template lists discovered: template `<` / `>` are single tokens with TS / TE set.
func LexT(t []rune) []Tok {
	st, en := TemplateLists(t)
	single := map[int]bool{}
	for p := range st {
		single[p] = true
	}
	for p := range en {
		single[p] = true
	}
	toks := Lex(t, single)
	var stack []string
	for i := range toks {
		if toks[i].E == toks[i].A+1 {
			if st[toks[i].A] {
				toks[i].TS = true
				h := ""
				if i > 0 {
					h = toks[i-1].Lex
				}
				toks[i].Head = h
				stack = append(stack, h)
			}
			if en[toks[i].A] {
				toks[i].TE = true
				if n := len(stack); n > 0 {
					toks[i].Head = stack[n-1]
					stack = stack[:n-1]
				}
			}
		}
	}
	return toks
}
