package wgslx

import "strings"

// Reserved are the WGSL reserved words (3.8): never identifiers.
var Reserved = set(`NULL Self abstract active alignas alignof as asm asm_fragment async attribute auto await become
binding_array cast catch class co_await co_return co_yield coherent column_major common compile compile_fragment concept
const_cast consteval constexpr constinit crate debugger decltype delete demote demote_to_helper do dynamic_cast enum
explicit export extends extern external fallthrough filter final finally friend from fxgroup get goto groupshared highp
impl implements import inline instanceof interface layout lowp macro macro_rules match mediump meta mod module move mut
mutable namespace new nil noexcept noinline nointerpolation non_coherent noncoherent noperspective null nullptr of
operator package packoffset partition pass patch pixelfragment precise precision premerge priv protected pub public
readonly ref regardless register reinterpret_cast require resource restrict self set shared sizeof smooth snorm static
static_assert static_cast std subroutine super target template this thread_local throw trait try type typedef typeid
typename typeof union unless unorm unsafe unsized use using varying virtual volatile wgsl where with writeonly yield`)

// Predeclared are names with a predeclared or context-dependent meaning: types, type generators, built-in
// functions, enumerants, attribute names, built-in values, member names of built-in result structures.  A user
// identifier with one of these spellings is never renamed (a use elsewhere in the program may mean the predeclared
// object) and no fresh name is taken from here.
var Predeclared = set(`bool f16 f32 f64 i32 i64 u32 u64 vec2 vec3 vec4 vec2i vec3i vec4i vec2u vec3u vec4u vec2f vec3f vec4f
vec2h vec3h vec4h mat2x2 mat2x3 mat2x4 mat3x2 mat3x3 mat3x4 mat4x2 mat4x3 mat4x4 mat2x2f mat2x3f mat2x4f mat3x2f
mat3x3f mat3x4f mat4x2f mat4x3f mat4x4f mat2x2h mat2x3h mat2x4h mat3x2h mat3x3h mat3x4h mat4x2h mat4x3h mat4x4h
array atomic ptr sampler sampler_comparison texture_1d texture_2d texture_2d_array texture_3d texture_cube
texture_cube_array texture_multisampled_2d texture_depth_multisampled_2d texture_external texture_storage_1d
texture_storage_2d texture_storage_2d_array texture_storage_3d texture_depth_2d texture_depth_2d_array
texture_depth_cube texture_depth_cube_array binding_array acceleration_structure ray_query ray_desc ray_intersection
RayDesc RayIntersection
function private workgroup uniform storage handle push_constant immediate read write read_write
rgba8unorm rgba8snorm rgba8uint rgba8sint rgba16uint rgba16sint rgba16float r32uint r32sint r32float rg32uint rg32sint
rg32float rgba32uint rgba32sint rgba32float bgra8unorm r8unorm r8snorm r8uint r8sint r16uint r16sint r16float rg8unorm
rg8snorm rg8uint rg8sint rg16uint rg16sint rg16float rgb10a2uint rgb10a2unorm rg11b10ufloat r16unorm r16snorm rg16unorm
rg16snorm rgba16unorm rgba16snorm r64uint
align binding builtin compute const diagnostic fragment group id interpolate invariant location blend_src must_use size
vertex workgroup_size mesh task early_depth_test
vertex_index instance_index position front_facing frag_depth sample_index sample_mask local_invocation_id
local_invocation_index global_invocation_id workgroup_id num_workgroups subgroup_invocation_id subgroup_size
subgroup_id num_subgroups primitive_index view_index clip_distances barycentric
perspective linear flat center centroid sample first either
off info warning error derivative_uniformity subgroup_uniformity
bitcast all any select arrayLength abs acos acosh asin asinh atan atanh atan2 ceil clamp cos cosh countLeadingZeros
countOneBits countTrailingZeros cross degrees determinant distance dot dot4U8Packed dot4I8Packed exp exp2 extractBits
faceForward firstLeadingBit firstTrailingBit floor fma fract frexp insertBits inverseSqrt ldexp length log log2 max min
mix modf normalize pow quantizeToF16 radians reflect refract reverseBits round saturate sign sin sinh smoothstep sqrt
step tan tanh transpose trunc dpdx dpdxCoarse dpdxFine dpdy dpdyCoarse dpdyFine fwidth fwidthCoarse fwidthFine
textureDimensions textureGather textureGatherCompare textureLoad textureNumLayers textureNumLevels textureNumSamples
textureSample textureSampleBias textureSampleCompare textureSampleCompareLevel textureSampleGrad textureSampleLevel
textureSampleBaseClampToEdge textureStore textureAtomicMin textureAtomicMax textureAtomicAdd textureAtomicAnd
textureAtomicOr textureAtomicXor atomicLoad atomicStore atomicAdd atomicSub
atomicMax atomicMin atomicAnd atomicOr atomicXor atomicExchange atomicCompareExchangeWeak pack4x8snorm pack4x8unorm
pack4xI8 pack4xU8 pack4xI8Clamp pack4xU8Clamp pack2x16snorm pack2x16unorm pack2x16float unpack4x8snorm unpack4x8unorm
unpack4xI8 unpack4xU8 unpack2x16snorm unpack2x16unorm unpack2x16float storageBarrier textureBarrier workgroupBarrier
workgroupUniformLoad subgroupAdd subgroupExclusiveAdd subgroupInclusiveAdd subgroupAll subgroupAnd subgroupAny
subgroupBallot subgroupBroadcast subgroupBroadcastFirst subgroupElect subgroupMax subgroupMin subgroupMul
subgroupExclusiveMul subgroupInclusiveMul subgroupOr subgroupShuffle subgroupShuffleDown subgroupShuffleUp
subgroupShuffleXor subgroupXor subgroupBarrier quadBroadcast quadSwapDiagonal quadSwapX quadSwapY outerProduct inverse
rayQueryInitialize rayQueryProceed rayQueryGetCommittedIntersection rayQueryGetCandidateIntersection
rayQueryTerminate rayQueryGenerateIntersection rayQueryConfirmIntersection getCommittedHitVertexPositions
getCandidateHitVertexPositions setMeshOutputs
fract whole exp old_value exchanged
__frexp_result_f32 __modf_result_f32 __atomic_compare_exchange_result
f16 subgroups clip_distances dual_source_blending
readonly_and_readwrite_storage_textures packed_4x8_integer_dot_product unrestricted_pointer_parameters
pointer_composite_access`)

func set(s string) map[string]bool {
	m := map[string]bool{}
	for _, w := range strings.Fields(s) {
		m[w] = true
	}
	return m
}

// SwizzleLike reports whether a member name could be read as a vector swizzle.
func SwizzleLike(s string) bool {
	if len(s) == 0 || len(s) > 4 {
		return false
	}
	xyzw, rgba := true, true
	for _, c := range s {
		if !strings.ContainsRune("xyzw", c) {
			xyzw = false
		}
		if !strings.ContainsRune("rgba", c) {
			rgba = false
		}
	}
	return xyzw || rgba
}
