// Package wgslx is the harness-side reading of WGSL source text for the edit
// machinery of C19: a lexer that mirrors spec/Lexer.tla rule by rule (it only
// PROPOSES token boundaries and edit sites - every proposal is judged by TLC
// against Lexer.tla / NeutralEdits.tla before it is used for a verdict),
// WGSL template-list discovery (WGSL 3.9), the split of a text into tokens and
// trivia pieces, and a small recursive-descent reader that finds the sites of
// structural edits (full sub-expressions, trailing-comma sites, renamable
// identifiers).
package wgslx

// Tok is one token: kind as in Lexer.tla, lexeme, and the rune range [A,E).
type Tok struct {
	Kind string // ident keyword int float op invalid unterminated
	Lex  string
	A, E int
	TS   bool // `<` that starts a template list
	TE   bool // `>` that ends a template list
	Head string // for TS / TE: the spelling of the template generator (the word before `<`)
	Tag  string // "" original token; "paren" / "comma": inserted by an edit
}

var blank = map[rune]bool{32: true, 9: true, 10: true, 11: true, 12: true, 13: true, 0x85: true, 0x200E: true, 0x200F: true, 0x2028: true, 0x2029: true}
var lineBreak = map[rune]bool{10: true, 11: true, 12: true, 13: true, 0x85: true, 0x2028: true, 0x2029: true}

func IsBlank(c rune) bool     { return blank[c] }
func IsLineBreak(c rune) bool { return lineBreak[c] }
func isDigit(c rune) bool     { return c >= '0' && c <= '9' }
func isHex(c rune) bool       { return isDigit(c) || (c >= 'a' && c <= 'f') || (c >= 'A' && c <= 'F') }
func isAsciiLetter(c rune) bool {
	return (c >= 'a' && c <= 'z') || (c >= 'A' && c <= 'Z')
}

var letterRanges = [][2]rune{{170, 170}, {181, 181}, {186, 186}, {192, 214}, {216, 246}, {248, 705},
	{902, 902}, {904, 906}, {908, 908}, {910, 929}, {931, 1013}, {1015, 1023},
	{1024, 1153}, {1162, 1327}, {1488, 1514}, {1568, 1610},
	{12353, 12438}, {12449, 12538}, {19968, 40956}, {44032, 55203}}

func isNonAsciiLetter(c rune) bool {
	if c < 128 {
		return false
	}
	for _, r := range letterRanges {
		if c >= r[0] && c <= r[1] {
			return true
		}
	}
	return false
}
func isContinueOnly(c rune) bool { return c == 183 || (c >= 768 && c <= 879) }
func IsIdStart(c rune) bool      { return isAsciiLetter(c) || c == '_' || isNonAsciiLetter(c) }
func IsIdCont(c rune) bool {
	return isAsciiLetter(c) || c == '_' || isDigit(c) || (c >= 128 && (isNonAsciiLetter(c) || isContinueOnly(c)))
}

// ModelledCp mirrors Lexer!ModelledCp.
func ModelledCp(c rune) bool {
	return c < 128 || IsBlank(c) || isNonAsciiLetter(c) || isContinueOnly(c)
}

// Keywords are the WGSL keywords (3.6).
var Keywords = map[string]bool{}

func init() {
	for _, k := range []string{"alias", "break", "case", "const", "const_assert", "continue", "continuing", "default", "diagnostic", "discard", "else", "enable", "false", "fn", "for", "if", "let", "loop", "override", "requires", "return", "struct", "switch", "true", "var", "while"} {
		Keywords[k] = true
	}
}

var ops3 = map[string]bool{"<<=": true, ">>=": true}
var ops2 = map[string]bool{"&&": true, "->": true, "==": true, "!=": true, ">=": true, ">>": true, "<=": true, "<<": true, "--": true, "++": true, "||": true, "+=": true, "-=": true, "*=": true, "/=": true, "%=": true, "&=": true, "|=": true, "^=": true}
var ops1 = map[rune]bool{}

func init() {
	for _, c := range "&@/![]{}:,=><%-.+|();*~^" {
		ops1[c] = true
	}
}

func at(t []rune, i int) rune {
	if i >= 0 && i < len(t) {
		return t[i]
	}
	return 0
}

func runEnd(t []rune, i int, p func(rune) bool) int {
	for i < len(t) && p(t[i]) {
		i++
	}
	return i
}

func expEnd(t []rune, j int, m1, m2 rune) int {
	if c := at(t, j); c == m1 || c == m2 {
		s := j + 1
		if c := at(t, j+1); c == '+' || c == '-' {
			s = j + 2
		}
		d := runEnd(t, s, isDigit)
		if d > s {
			return d
		}
	}
	return j
}

func floatSuffix(t []rune, j int) int {
	if c := at(t, j); c == 'f' || c == 'h' {
		return j + 1
	}
	return j
}
func intSuffix(t []rune, j int) int {
	if c := at(t, j); c == 'i' || c == 'u' {
		return j + 1
	}
	return j
}

func decimalTok(t []rune, i int) (string, int) {
	d1 := runEnd(t, i, isDigit)
	if at(t, d1) == '.' && (d1 > i || isDigit(at(t, d1+1))) {
		d2 := runEnd(t, d1+1, isDigit)
		x := expEnd(t, d2, 'e', 'E')
		return "float", floatSuffix(t, x)
	}
	x := expEnd(t, d1, 'e', 'E')
	if x > d1 {
		return "float", floatSuffix(t, x)
	}
	if t[i] == '0' && d1 > i+1 {
		return "int", i + 1
	}
	if c := at(t, d1); c == 'f' || c == 'h' {
		return "float", d1 + 1
	}
	return "int", intSuffix(t, d1)
}

func hexTok(t []rune, i int) (string, int) {
	h1 := runEnd(t, i+2, isHex)
	if at(t, h1) == '.' && (h1 > i+2 || isHex(at(t, h1+1))) {
		h2 := runEnd(t, h1+1, isHex)
		x := expEnd(t, h2, 'p', 'P')
		if x > h2 {
			return "float", floatSuffix(t, x)
		}
		return "float", x
	}
	if h1 > i+2 {
		x := expEnd(t, h1, 'p', 'P')
		if x > h1 {
			return "float", floatSuffix(t, x)
		}
		return "int", intSuffix(t, h1)
	}
	return "int", i + 1
}

func wordKind(s string) string {
	if s == "_" {
		return "op"
	}
	if Keywords[s] {
		return "keyword"
	}
	return "ident"
}

// tokAt mirrors Lexer!TokAt (0-based).
func tokAt(t []rune, i int, single map[int]bool) (string, int) {
	c, n := t[i], at(t, i+1)
	switch {
	case isDigit(c):
		if c == '0' && (n == 'x' || n == 'X') {
			return hexTok(t, i)
		}
		return decimalTok(t, i)
	case c == '.' && isDigit(n):
		return decimalTok(t, i)
	case IsIdStart(c):
		e := runEnd(t, i+1, IsIdCont)
		return wordKind(string(t[i:e])), e
	case single[i]:
		return "op", i + 1
	}
	if i+2 < len(t) && ops3[string(t[i:i+3])] && !single[i+1] && !single[i+2] {
		return "op", i + 3
	}
	if i+1 < len(t) && ops2[string(t[i:i+2])] && !single[i+1] {
		return "op", i + 2
	}
	if ops1[c] {
		return "op", i + 1
	}
	return "invalid", i + 1
}

// blockEnd mirrors Lexer!BlockEnd: i = first rune of the body; -1 = unterminated.
func blockEnd(t []rune, i int) int {
	depth := 1
	for i < len(t) {
		if t[i] == '/' && at(t, i+1) == '*' {
			depth++
			i += 2
		} else if t[i] == '*' && at(t, i+1) == '/' {
			depth--
			i += 2
			if depth == 0 {
				return i
			}
		} else {
			i++
		}
	}
	return -1
}

func notLB(c rune) bool { return !IsLineBreak(c) }

// skipTrivia mirrors Lexer!SkipTrivia; -1 = unterminated block comment.
func skipTrivia(t []rune, i int) int {
	for i < len(t) {
		switch {
		case IsBlank(t[i]):
			i++
		case t[i] == '/' && at(t, i+1) == '/':
			i = runEnd(t, i+2, notLB)
		case t[i] == '/' && at(t, i+1) == '*':
			e := blockEnd(t, i+2)
			if e < 0 {
				return -1
			}
			i = e
		default:
			return i
		}
	}
	return i
}

// Lex mirrors Lexer!TokensT.  single: rune positions that are tokens of their own.
func Lex(t []rune, single map[int]bool) []Tok {
	var out []Tok
	pos := 0
	for {
		s := skipTrivia(t, pos)
		if s < 0 {
			return append(out, Tok{Kind: "unterminated", A: len(t), E: len(t)})
		}
		if s >= len(t) {
			return out
		}
		k, e := tokAt(t, s, single)
		out = append(out, Tok{Kind: k, Lex: string(t[s:e]), A: s, E: e})
		pos = e
	}
}

// Pieces splits a trivia text (blankspace and comments only) into pieces: one
// blankspace code point, one block comment, or one line comment together with
// the line break that ends it (a line comment that reaches the end of the text
// stands alone).  ok=false if the text is not pure trivia.
func Pieces(t []rune) (ps []string, ok bool) {
	i := 0
	for i < len(t) {
		switch {
		case IsBlank(t[i]):
			ps = append(ps, string(t[i:i+1]))
			i++
		case t[i] == '/' && at(t, i+1) == '/':
			e := runEnd(t, i+2, notLB)
			if e < len(t) {
				e++
			}
			ps = append(ps, string(t[i:e]))
			i = e
		case t[i] == '/' && at(t, i+1) == '*':
			e := blockEnd(t, i+2)
			if e < 0 {
				return nil, false
			}
			ps = append(ps, string(t[i:e]))
			i = e
		default:
			return nil, false
		}
	}
	return ps, true
}
