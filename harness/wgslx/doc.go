package wgslx

import (
	"fmt"
	"strings"
)

// Doc is a text as the edit machine of NeutralEdits.tla sees it: tokens and, around them, trivia slots 0..n
// (slot j sits after token j, slot 0 before the first token), each a sequence of pieces.
type Doc struct {
	Toks []Tok
	Triv [][]string
}

// Parse splits a text into tokens (template lists discovered) and trivia pieces.
func Parse(text string) (*Doc, error) {
	t := []rune(text)
	toks := LexT(t)
	d := &Doc{Toks: toks, Triv: make([][]string, len(toks)+1)}
	pos := 0
	for i, tk := range toks {
		switch tk.Kind {
		case "invalid":
			return nil, fmt.Errorf("code point U+%04X at %d starts no token", t[tk.A], tk.A)
		case "unterminated":
			return nil, fmt.Errorf("unterminated block comment")
		}
		for _, c := range t[tk.A:tk.E] {
			if !ModelledCp(c) {
				return nil, fmt.Errorf("code point U+%04X outside the modelled classes", c)
			}
		}
		if i > 0 && pos == tk.A && (toks[i-1].Kind == "int" || toks[i-1].Kind == "float") && (tk.Kind == "ident" || tk.Kind == "keyword") {
			return nil, fmt.Errorf("literal directly followed by a word (%s%s): not WGSL (naga's 64-bit literal suffixes li/lu/lf are an extension)", toks[i-1].Lex, tk.Lex)
		}
		ps, ok := Pieces(t[pos:tk.A])
		if !ok {
			return nil, fmt.Errorf("internal: trivia before token %d is not trivia", i)
		}
		d.Triv[i] = ps
		pos = tk.E
	}
	ps, ok := Pieces(t[pos:])
	if !ok {
		return nil, fmt.Errorf("internal: trailing trivia is not trivia")
	}
	d.Triv[len(toks)] = ps
	return d, nil
}

// Render is NeutralEdits!Render.
func (d *Doc) Render() string {
	var sb strings.Builder
	for i := 0; i <= len(d.Toks); i++ {
		for _, p := range d.Triv[i] {
			sb.WriteString(p)
		}
		if i < len(d.Toks) {
			sb.WriteString(d.Toks[i].Lex)
		}
	}
	return sb.String()
}

// Clone copies the document (pieces are immutable strings).
func (d *Doc) Clone() *Doc {
	n := &Doc{Toks: append([]Tok(nil), d.Toks...), Triv: make([][]string, len(d.Triv))}
	for i, s := range d.Triv {
		n.Triv[i] = append([]string(nil), s...)
	}
	return n
}

// Window is one instance of the guard of NeutralEdits.tla: the two tokens around a slot and the trivia between
// them, to be re-lexed; PrevTE / NextTS say that the adjacent code point is a template-list delimiter.
type Window struct {
	Prev, Mid, Next string
	PrevK, NextK    string
	PrevTE, NextTS  bool
	PrevTS, NextTE  bool
}

// WindowAt builds the window of slot j (0..n).
func (d *Doc) WindowAt(j int) Window {
	var w Window
	if j > 0 {
		t := d.Toks[j-1]
		w.Prev, w.PrevK, w.PrevTE, w.PrevTS = t.Lex, t.Kind, t.TE, t.TS
	}
	if j < len(d.Toks) {
		t := d.Toks[j]
		w.Next, w.NextK, w.NextTS, w.NextTE = t.Lex, t.Kind, t.TS, t.TE
	}
	w.Mid = strings.Join(d.Triv[j], "")
	return w
}

// OK is the harness-side mirror of NeutralEdits!WindowOK: re-lexing prev+mid+next gives exactly prev, next.
func (w Window) OK() bool {
	t := []rune(w.Prev + w.Mid + w.Next)
	single := map[int]bool{}
	np, nm := len([]rune(w.Prev)), len([]rune(w.Mid))
	if (w.PrevTE || w.PrevTS) && np == 1 {
		single[0] = true
	}
	if (w.NextTS || w.NextTE) && len([]rune(w.Next)) == 1 {
		single[np+nm] = true
	}
	got := Lex(t, single)
	var want []Tok
	if w.Prev != "" {
		want = append(want, Tok{Kind: w.PrevK, Lex: w.Prev})
	}
	if w.Next != "" {
		want = append(want, Tok{Kind: w.NextK, Lex: w.Next})
	}
	if len(got) != len(want) {
		return false
	}
	for i := range got {
		if got[i].Kind != want[i].Kind || got[i].Lex != want[i].Lex {
			return false
		}
	}
	return true
}
