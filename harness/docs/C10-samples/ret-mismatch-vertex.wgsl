@vertex fn vs(@builtin(vertex_index) i : u32) -> @builtin(position) mat3x3f { if i == 0u { return vec4<f32>(); }
 return vec4<f32>(1.5); }
