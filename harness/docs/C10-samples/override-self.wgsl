override o = o + 1;
@compute @workgroup_size(1) fn m() { var v = o; }
