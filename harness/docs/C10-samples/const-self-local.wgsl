@compute @workgroup_size(1) fn m() { const x = x; }
