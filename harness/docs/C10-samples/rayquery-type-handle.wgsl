var<private> g : vec4<i32>;
@compute @workgroup_size(1) fn m2() { var rq: ray_query; let i = rayQueryGetCandidateIntersection(&rq); }
