const n = 4u; var<private> g : array<i32, ~n>; fn f(i : u32) -> i32 { return g[i]; }
@compute @workgroup_size(1) fn m() { _ = f(1u); }
