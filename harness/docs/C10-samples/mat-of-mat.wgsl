var<private> g : mat2x2<mat2x2<f32>>;
