override o : u32 = o;
var<workgroup> w : array<i32, o>;
@compute @workgroup_size(1) fn m() { var v = o; }
