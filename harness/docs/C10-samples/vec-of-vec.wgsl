var<private> g : vec2<vec2<f32>>;
