fn f() -> mat3x3<f32> { return vec4<f32>(); }
@compute @workgroup_size(1) fn m() { _ = f(); }
