var<private> g : array<i32, 50000000>;
@compute @workgroup_size(1) fn m() { let p = &g; }