struct S0 {
  f0: array<vec2<u32>, 1>,
  f1: u32,
}
struct S1 {
  f0: u32,
  f1: u32,
}
struct VOut { @builtin(position) pos: vec4<f32>, @location(0) uv: vec2<f32>, @location(1) @interpolate(flat) id: u32 }
struct FOut { @location(0) color: vec4<f32>, @builtin(frag_depth) depth: f32 }
struct CIn { @builtin(global_invocation_id) gid: vec3<u32>, @builtin(workgroup_id) wid: vec3<u32> }
struct Buf { counter: atomic<u32>, acc: atomic<i32>, v: vec4<f32>, data: array<u32> }
@group(0) @binding(0) var<storage, read_write> buf: Buf;
@group(1) @binding(0) var tex: texture_2d<f32>;
@group(1) @binding(1) var smp: sampler;
const C1: S0 = S0(array<vec2<u32>, 1>(vec2<u32>(3u, 8u)), (7u + 1u));
const C2 = S1((4u + 5u), (2u + 3u));
fn fn3(p0: f32) -> vec2<f32> {
  var s4: i32 = (1 % ((-4) | 1));
  var s5: bool = all(vec2<bool>(true, true));
  var s6: vec4<f32> = vec4<f32>(p0, 1.0, p0, p0);
  let l7: mat3x3<f32> = (transpose(mat3x3<f32>(2.5f, p0, 3.8, 5, 2.5f, p0, p0, p0, 4.0)) * 2.5f);
  return vec2<f32>();
}
@vertex
fn ep8(@builtin(vertex_index) vi: u32, @location(0) pos: vec3<f32>, @location(1) uv: vec2<f32>, @builtin(instance_index) ii: u32) -> VOut {
  var out: VOut;
  var s9: f32 = clamp(1.8, 5.0, 7.0);
  var s10: bool = (false == false);
  loop {
    out.pos = select(buf.v, (s9 + vec2<f32>()).yxxy, vec4<bool>(s10, s10, s10, s10));
    loop {
      s9 *= buf.v[1];
      if ((false == true) == any(vec4<bool>(true, s10, true, s10))) { break; }
      continuing {
        s9 = fma(s9, s9, buf.v[3]);
        out.id = ii;
      }
    }
    if ((u32(1u) >> (ii & 31u)) < countLeadingZeros(7u)) { break; }
    continuing {
      out.uv.y = -(s9 + s9);
      let l11 = u32(max((2u % (out.id | 1u)), ii));
      break if ((false == false) && (true && true));
    }
  }
  let l12 = u32(bitcast<u32>(min(2i, 4i)));
  if select((false && s10), (s10 || true), all(vec3<bool>(s10))) {
    _ = 7;
    let l13: vec4<bool> = vec4<bool>(true, s10, s10, s10);
    var v14: S1;
  }
  {
    var v15 = (((mat4x2<f32>() + mat4x2<f32>(3.5f, 3, s9, 4.0, 3, 3.0, s9, 1.5f)) - mat4x2<f32>(s9, 1.1, s9, s9, 2.0, s9, 3.5f, s9)) - mat4x2<f32>(vec2<f32>(1.5f, 3), vec2<f32>(), vec2<f32>(), vec2<f32>(1, 5)));
    let l16 = vec3<f32>(out.uv, smoothstep(-2.0, s9, min(0.5f, s9)));
  }
  if !(all(vec4<bool>(vec3<bool>(true), true))) {
    let l17 = 1.8;
    fn3(max(l17, l17));
  }
  out.pos = out.pos;
  return out;
}
