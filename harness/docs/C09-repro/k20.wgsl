fn f(x: f32) -> vec4<f32> { return vec4<f32>(vec3(3.8), x); }
