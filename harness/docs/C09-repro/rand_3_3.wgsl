struct S0 {
  f0: bool,
  f1: array<f32, 3>,
  f2: f32,
  f3: f32,
}
struct S1 {
  f0: i32,
  f1: vec2<f32>,
  f2: i32,
}
struct VOut { @builtin(position) pos: vec4<f32>, @location(0) uv: vec2<f32>, @location(1) @interpolate(flat) id: u32 }
struct FOut { @location(0) color: vec4<f32>, @builtin(frag_depth) depth: f32 }
struct CIn { @builtin(global_invocation_id) gid: vec3<u32>, @builtin(workgroup_id) wid: vec3<u32> }
struct Buf { counter: atomic<u32>, acc: atomic<i32>, v: vec4<f32>, data: array<u32> }
@group(0) @binding(0) var<storage, read_write> buf: Buf;
const C1: mat4x2<f32> = mat4x2<f32>(2.8, 0.5f, 3.5f, 3.5f, 3.5, 4.0, 6.0, 2.5f);
const C2: vec4<bool> = vec4<bool>(false, true, false, true);
var<private> g3: vec2<i32> = vec2<i32>(11, (-4));
fn fn4(p0: vec3<i32>, p1: vec3<i32>) -> u32 {
  var s5: i32 = atomicLoad(&buf.acc);
  var s6: u32 = min(2u, 3u);
  var s7: vec3<f32> = vec4<f32>().yyx;
  var s8: vec4<i32> = vec4<i32>(vec3<i32>(), 11i);
  if C2.z {
    return select(bitcast<u32>(sin(1.0)), (countOneBits(7u) - s6), true);
  }
  loop {
    s7.z = buf.v.z;
    if ((true == false) || select(true, true, false)) { break; }
    continuing {
      var v9: f32;
      _ = s7;
    }
  }
  switch min(abs(s6), s6) {
    case 6u, 0u: {
      {
        if (!false && all(vec4<bool>(false, false, true, false))) {
          return firstLeadingBit(0u);
        }
      }
    }
    case 3u, default: {
      _ = s7[0];
      while any(select(vec3<bool>(true), vec3<bool>(false), true)) {
        g3 = s8.wx;
        s7.x = s7[(s6 % 3u)];
      }
    }
    case 1u: {
    }
  }
  while !(false || true) {
    for (var i10 = 0; i10 < 2; i10++) {
      var v11: i32 = i10;
    }
    switch (abs(s6) * max(1u, 8u)) {
      case 6u, 4u: {
        g3 = g3;
      }
      case 5u: {
        break;
      }
      default: {
        var v12: vec3<f32>;
        break;
      }
    }
    if !C2[3] {
      s7[((s6 + s6) % 3u)] = 3.5f;
      let l13 = select(vec3<f32>(vec3<u32>()), exp((6.0 + vec3<f32>(vec2<f32>(1.5f, 2.0), 3.2))), !false);
      g3 = vec2<i32>((2 >> (s6 & 31u)), select(s5, s5, false));
    } else {
      let l14 = mat3x2<f32>(C1[0], vec2<f32>(3, select(1.6, 3.5f, true)), mix(C1[2], (vec2<f32>(4.6, 3)).yy, select(1.4, 5.0, false)));
      s7.x = C1[min(8u, 3u)][(6u % 2u)];
    }
  }
  return clamp(((s6 / (s6 | 1u)) - (u32(3u) << (0u & 31u))), (s6 + (u32(s6) << (6u & 31u))), 6u);
}
fn fn15() -> bool {
  var s16: u32 = (7u * 8u);
  var s17: bool = !true;
  var s18: vec2<f32> = C1[2];
  var s19: vec3<f32> = vec3<f32>();
  s16 = (min(8u, 1u) - buf.data[4u]);
  return s17;
}
var<workgroup> wg: array<f32, 8>;
var<workgroup> wgc: atomic<u32>;
var<workgroup> wgu: u32;
@compute @workgroup_size(8, 2)
fn ep20(in: CIn) {
  storageBarrier();
  let wul = workgroupUniformLoad(&wgu);
  var s21: f32 = max(0.5f, 4.6);
  var s22: i32 = (3 * 9);
  var s23: u32 = select(1u, wul, false);
  while (s21 > -4.0) {
    s21 = s21;
  }
  var v24: f32 = f32(select((false == true), false, select(false, true, true)));
  loop {
    var v25: vec4<f32> = (transpose(C1) * ((mat2x2<f32>(vec2<f32>(5, s21), vec2<f32>(v24, 4.3)) * vec2<f32>(5.0, 4)) - vec2<f32>(1.0, s21)));
    loop {
      let l26 = vec2<u32>(wul, 4u);
      if ((false || false) == (true == false)) { break; }
      continuing {
        var v27: vec3<f32>;
        v24 = smoothstep((s21 * s21), 7.0, (2.5f + v24));
        break if C2[min(5u, 3u)];
      }
    }
    let l28 = 0.9;
    if select(all(vec4<bool>(vec3<bool>(true, false, false), true)), (true == false), !false) { break; }
    continuing {
      v25.z = max(max(3.0, s21), -2.5f);
    }
  }
  var v29 = vec4<i32>((min(vec2<i32>(s22, s22), g3)).yxx, s22);
}
@vertex
fn ep30(@builtin(vertex_index) vi: u32, @location(0) pos: vec3<f32>, @location(1) uv: vec2<f32>, @builtin(instance_index) ii: u32) -> VOut {
  var out: VOut;
  var s31: f32 = (1.7 % (abs(0.6) + 1.0));
  var s32: bool = (true && true);
  var s33: vec3<f32> = vec3<f32>();
  {
    buf.v = vec4<f32>(sign(s31), buf.v.z, (6.0 + s31), clamp(s31, s31, s31));
  }
  var v34: array<vec4<f32>, 2>;
  switch ((ii + 6u) * firstTrailingBit(out.id)) {
    case 1u: {
      break;
    }
    case 0u: {
    }
    default: {
      var v35: array<S1, 1>;
    }
    case 6u, 5u: {
      var v36 = i32(min(atomicLoad(&buf.acc), (12 % ((-1) | 1))));
    }
  }
  s31 = uv.x;
  let l37 = (select(clamp(out.id, ii, 1u), 3u, (6 < 9i)) < (abs(2u) % (ii | 1u)));
  {
    let l38 = array<mat4x3<f32>, 1>((mat4x3<f32>(1.5f, s31, s31, 6, s31, s31, 1.5f, s31, s31, s31, s31, s31) * s31));
    _ = 1.9;
  }
  out.pos = vec4<f32>(vec4<i32>(3i));
  return out;
}
