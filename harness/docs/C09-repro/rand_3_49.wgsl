struct S0 {
  f0: i32,
  f1: u32,
}
struct VOut { @builtin(position) pos: vec4<f32>, @location(0) uv: vec2<f32>, @location(1) @interpolate(flat) id: u32 }
struct FOut { @location(0) color: vec4<f32>, @builtin(frag_depth) depth: f32 }
struct CIn { @builtin(global_invocation_id) gid: vec3<u32>, @builtin(workgroup_id) wid: vec3<u32> }
struct Buf { counter: atomic<u32>, acc: atomic<i32>, v: vec4<f32>, data: array<u32> }
@group(0) @binding(0) var<storage, read_write> buf: Buf;
struct Uni { m: mat4x4<f32>, arr: array<vec4<f32>, 3>, scale: f32, dim: vec2<u32> }
@group(0) @binding(1) var<uniform> uni: Uni;
@group(1) @binding(0) var tex: texture_2d<f32>;
@group(1) @binding(1) var smp: sampler;
const C1 = S0(2, 8u);
var<private> g2: vec2<bool> = vec2<bool>(false);
override ov_scale: f32 = 1.5;
override ov_count: u32 = 3u;
fn fn3(p0: ptr<function, vec4<i32>>, p1: f32) -> f32 {
  var s4: i32 = i32(true);
  var s5: u32 = ov_count;
  var s6: vec3<f32> = vec3<f32>(3.7).yzx;
  var s7: vec2<u32> = min(vec2<u32>(6u, ov_count), vec2<u32>(ov_count, s5));
  if (max(4.0, p1) >= max(7.0, 3.0)) {
    let l8 = abs(vec4<f32>(vec3<f32>(), 1.7));
    if false {
      return min(uni.scale, tanh(buf.v.z));
    }
  } else {
    loop {
      var v9 = ((*p0) != (*p0)).yzz;
      var v10: i32 = s4;
      var v11 = cross(s6, (mat4x3<f32>(0.5f, 4.8, 2.0, ov_scale, p1, 4, ov_scale, 0.5f, p1, 4.8, 1.0, 2.5f) * vec4<f32>(s6, 1.5)));
      if true { break; }
    }
  }
  g2 = select((select(vec2<bool>(true, false), vec2<bool>(true), vec2<bool>(false, false))).xx, g2, g2[min(1u, 1u)]);
  return 1.4;
}
fn fn12(p0: bool, p1: ptr<function, vec2<f32>>, p2: ptr<function, mat4x4<f32>>) -> array<i32, 1> {
  var s13: f32 = max(4.0, 3.5f);
  var s14: vec3<f32> = cross(vec3<f32>(), vec3(0.5));
  _ = f32(dot(vec2<f32>(3.8, 2.5), (*p1)));
  {
    g2.x = true;
  }
  (*p2)[min(ov_count, 3u)] = select(mix(vec4(0.6), vec4<f32>(vec3(3.8), ov_scale), ov_scale), (vec4<f32>(4.8, 0.5f, ov_scale, 7.0) * (*p2)), p0);
  return array<i32, 1>((-1));
}
@vertex
fn ep15(@builtin(vertex_index) vi: u32, @location(0) pos: vec3<f32>, @location(1) uv: vec2<f32>, @builtin(instance_index) ii: u32) -> VOut {
  var out: VOut;
  var s16: f32 = ov_scale;
  var s17: u32 = (out.id % (out.id | 1u));
  var s18: bool = select(false, true, false);
  var s19: vec4<f32> = vec4<f32>().wwyx;
  var s20: vec2<u32> = vec2<u32>(1u, s17);
  _ = u32(~4u);
  buf.data[out.id] = s20.y;
  buf.data[((u32(ii) >> (vi & 31u)) / (s17 | 1u))] = (select(2u, 0u, true) % (out.id | 1u));
  out.uv += ((mat2x2<f32>() * mat2x2<f32>(vec2<f32>(ov_scale, 4.4), vec2<f32>(1, ov_scale))) * mix(uv, uv, 2.5f));
  s20[1] = firstLeadingBit(select(ii, ii, s18));
  out.pos = (((mat3x4<f32>(s16, s16, 3.5f, 6.0, 3, 1, ov_scale, 0.5f, 1.5f, 5.0, 1.5f, ov_scale) + mat3x4<f32>(ov_scale, 3.0, 7.0, 2.8, 4, 7.0, 4.3, 2.5f, 5, s16, ov_scale, 2)) - mat3x4<f32>(out.pos, out.pos, s19)) * pos);
  return out;
}
