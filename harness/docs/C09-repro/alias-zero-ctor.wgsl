alias V4 = vec4<f32>; fn f(a: vec4<f32>) -> mat2x4<f32> { return mat2x4<f32>(a, V4()); }
