fn f() -> mat2x3<f32> { return transpose(mat3x2<f32>(vec2<f32>(2.4, 3.1), vec2<f32>(0.5, 1.7), vec2<f32>()) * 4.6); }
