alias M3 = mat3x3<f32>; struct S { m: mat3x3<f32>, k: f32 } fn f(a: f32) -> S { return S(M3(), a); }
