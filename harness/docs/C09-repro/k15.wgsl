var<private> g3: i32 = (8 + 4); fn f() -> i32 { return g3; }
