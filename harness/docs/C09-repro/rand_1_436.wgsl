struct S0 {
  f0: u32,
}
struct S1 {
  f0: bool,
  f1: array<u32, 1>,
}
struct VOut { @builtin(position) pos: vec4<f32>, @location(0) uv: vec2<f32>, @location(1) @interpolate(flat) id: u32 }
struct FOut { @location(0) color: vec4<f32>, @builtin(frag_depth) depth: f32 }
struct CIn { @builtin(global_invocation_id) gid: vec3<u32>, @builtin(workgroup_id) wid: vec3<u32> }
struct Buf { counter: atomic<u32>, acc: atomic<i32>, v: vec4<f32>, data: array<u32> }
@group(0) @binding(0) var<storage, read_write> buf: Buf;
struct Uni { m: mat4x4<f32>, arr: array<vec4<f32>, 3>, scale: f32, dim: vec2<u32> }
@group(0) @binding(1) var<uniform> uni: Uni;
const C1: mat2x3<f32> = mat2x3<f32>(4.3, 0.5f, 7.0, 2.7, 4.0, 1.5f);
const C2: S0 = S0((3u + 5u));
const C3: vec3<u32> = vec3<u32>(8u, 4u, 6u);
override ov_scale: f32 = 1.5;
override ov_count: u32 = 3u;
fn fn4() -> i32 {
  var s5: f32 = (ov_scale / (abs(ov_scale) + 1.0));
  var s6: i32 = (0 * 12i);
  var s7: vec2<u32> = vec2<u32>(ov_count);
  _ = S1(false, array<u32, 1>());
  switch ~(1i - 0i) {
    case 4: {
      buf.v = (vec3<f32>(ov_scale) - vec3<f32>(vec2<f32>(3.5f, 4.3), s5)).zzyy;
    }
    case 5: {
      break;
    }
    case 1, default: {
      s5 += f32(!true);
    }
  }
  return clamp(((5 << (4u & 31u)) * 11), bitcast<i32>((4u / (ov_count | 1u))), ((0 * s6) - (-4)));
}
fn fn8(p0: mat4x3<f32>, p1: S1) {
  var s9: f32 = (0.9 * 0.5f);
  var s10: bool = p1.f0;
  var s11: vec3<f32> = vec3<f32>(ov_scale, 1.0, ov_scale);
  {
    _ = 0.7;
    s10 = false;
  }
  s11[2] = (((ov_scale + 2.0) % (abs(bitcast<f32>((-4))) + 1.0)) + select(ov_scale, uni.m[2].y, all(vec4<bool>(s10, s10, s10, false))));
  return;
}
@vertex
fn ep12(@builtin(vertex_index) vi: u32, @location(0) pos: vec3<f32>, @location(1) uv: vec2<f32>, @builtin(instance_index) ii: u32) -> VOut {
  var out: VOut;
  var s13: f32 = -2.5f;
  var s14: i32 = (12i % (6 | 1));
  var s15: u32 = C3.y;
  var s16: bool = (s14 <= s14);
  var s17: vec3<f32> = (5.0 - vec3<f32>(1.1, 1, ov_scale));
  var s18: vec2<f32> = uv;
  var v19: f32 = 4.5;
  if any(vec3<bool>(s16)) {
    let l20 = true;
  }
  s17 = (C1[0] * (fma(v19, 3.5f, s13) / (abs((1.9 % (abs(1.5f) + 1.0))) + 1.0)));
  {
    v19 = smoothstep(uni.m[3].y, -ov_scale, length(out.pos));
    s15 *= (vi + (s15 + out.id));
  }
  s13 *= f32(clamp(6, 3, s14));
  let l21 = vec2<f32>(ov_scale, f32(!true));
  out.pos = out.pos;
  return out;
}
