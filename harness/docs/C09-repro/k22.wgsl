struct S0 { a: f32, f1: vec2<f32> } const C1: S0 = S0(1.5, vec2<f32>(4.0, 1.0)); fn f() -> vec2<f32> { return C1.f1; }
