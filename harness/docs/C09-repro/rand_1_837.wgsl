struct S0 {
  f0: array<vec4<bool>, 1>,
  f1: array<u32, 3>,
}
struct VOut { @builtin(position) pos: vec4<f32>, @location(0) uv: vec2<f32>, @location(1) @interpolate(flat) id: u32 }
struct FOut { @location(0) color: vec4<f32>, @builtin(frag_depth) depth: f32 }
struct CIn { @builtin(global_invocation_id) gid: vec3<u32>, @builtin(workgroup_id) wid: vec3<u32> }
struct Uni { m: mat4x4<f32>, arr: array<vec4<f32>, 3>, scale: f32, dim: vec2<u32> }
@group(0) @binding(1) var<uniform> uni: Uni;
@group(1) @binding(0) var tex: texture_2d<f32>;
@group(1) @binding(1) var smp: sampler;
const C1: array<f32, 4> = array<f32, 4>((4.7 + 0.1), 0.4, (2.5f + 3.0), 4.0);
const C2 = array<mat2x4<f32>, 4>(mat2x4<f32>(7.0, 1.5f, 4.1, 3.0, 3.0, 3.5f, 0.4, 2.0), mat2x4<f32>(3.5f, 3.0, 5.0, 6.0, 7.0, 0.5f, 0.5f, 6.0), mat2x4<f32>(4.0, 2.5f, 1.5f, 4.0, 5.0, 2.5f, 7.0, 0.5f), mat2x4<f32>(1.5f, 4.7, 6.0, 2.5f, 7.0, 2.0, 5.0, 0.5f));
var<private> g3: vec2<u32> = vec2<u32>(4u, 4u);
fn fn4(p0: f32, p1: ptr<function, array<vec3<bool>, 1>>, p2: f32) -> mat4x2<f32> {
  var s5: f32 = sign(p0);
  var s6: i32 = reverseBits(0);
  var s7: bool = select(false, false, true);
  var s8: vec3<f32> = vec3<f32>(vec2<f32>(s5, p2), 5.0);
  var s9: vec3<i32> = vec3<i32>(vec2<i32>(s6, s6), 10);
  s8 = s8;
  s7 = !(false || false);
  return transpose(C2[min(1u, 3u)]);
}
var<workgroup> wg: array<f32, 8>;
var<workgroup> wgc: atomic<u32>;
var<workgroup> wgu: u32;
@compute @workgroup_size(1, 1)
fn ep10(in: CIn) {
  workgroupBarrier();
  let wul = workgroupUniformLoad(&wgu);
  var s11: f32 = f32((-4));
  var s12: u32 = min(wul, 2u);
  var s13: bool = (3.0 == 2.5f);
  var s14: vec3<f32> = (vec4<f32>(1.5f, s11, 3, 3.5f)).zyy;
  var s15: vec4<u32> = vec4<u32>(4u, 5, 2, 2);
  var v16 = u32(((wul + 1u) + (2u + wul)));
  s15 = vec4<u32>(clamp(5u, 3u, wul), (v16 / (s12 | 1u)), min(4u, 7u), clamp(wul, 7u, s12));
  for (var i17 = 0; i17 < 4; i17++) {
    s15 = s15;
    s11 *= (s14[1] - f32(1u));
  }
  g3 = g3;
  let l18: vec4<i32> = vec4<i32>((4i + (1 * (-3))), (min(0, 5i) - (-4)), 8, clamp(clamp(10i, (-2), 7i), 7i, 0));
  var v19 = (normalize(vec4<f32>()) - (s11 * select(vec4<f32>(2, 0.2, 4.6, s11), vec4<f32>(s11, 4, 3.5f, s11), vec4<bool>(true, s13, s13, s13))));
}
