var<private> g1: mat2x3<f32> = mat2x3<f32>(4.0, 3.4, 1.0, 1.0, 5.0, 3.0); fn f() -> f32 { return g1[0].x; }
