fn f(p: ptr<function, vec3<f32>>) -> vec2<f32> { return (*p).xy; }
