alias M4 = mat4x4<f32>;
const C2: M4 = mat4x4<f32>(7.0, 1.8, 0.5, 7.0, 0.5, 3.5, 2.5, 5.0, 5.0, 4.0, 2.1, 3.0, 2.5, 1.5, 2.5, 2.5);
struct O { a: vec4<f32>, b: vec4<f32> }
fn f(v: vec4<f32>, s: f32) -> O { return O(((C2 + C2) * v) * s, v); }
