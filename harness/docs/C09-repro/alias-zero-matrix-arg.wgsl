alias M3 = mat3x3<f32>; fn g(m: mat3x3<f32>) -> f32 { return m[0].x; } fn f() -> f32 { return g(M3()); }
