struct VOut { @builtin(position) pos: vec4<f32>, @location(0) uv: vec2<f32>, @location(1) @interpolate(flat) id: u32 }
struct FOut { @location(0) color: vec4<f32>, @builtin(frag_depth) depth: f32 }
struct CIn { @builtin(global_invocation_id) gid: vec3<u32>, @builtin(workgroup_id) wid: vec3<u32> }
struct Uni { m: mat4x4<f32>, arr: array<vec4<f32>, 3>, scale: f32, dim: vec2<u32> }
@group(0) @binding(1) var<uniform> uni: Uni;
const C1 = 0;
const C2: array<vec3<bool>, 2> = array<vec3<bool>, 2>(vec3<bool>(false, true, false), vec3<bool>(false, true, true));
const C3: vec2<i32> = vec2<i32>((-1), C1);
var<private> g4: i32;
fn fn5(p0: i32, p1: ptr<function, f32>, p2: bool) -> u32 {
  var s6: i32 = 3i;
  var s7: u32 = select(1u, 3u, p2);
  var s8: bool = true;
  var s9: vec2<f32> = vec2<f32>(6.0, (*p1));
  var s10: vec4<u32> = vec4<u32>(3u, 6, s7, 3);
  var v11: vec4<bool> = vec4<bool>(select((vec3<i32>() != vec3<i32>(vec2<i32>(p0, g4), g4)), C2[0], p2), s8);
  if !(false && p2) {
    v11.y = (p2 == s8);
  }
  _ = -(*p1);
  var v12: mat2x2<f32>;
  return ((s10[0] | u32(true)) - s7);
}
fn fn13(p0: i32, p1: mat2x2<f32>, p2: f32) -> u32 {
  var s14: f32 = p1[0][0];
  var s15: i32 = p0;
  var s16: bool = !false;
  var s17: vec2<f32> = select(vec2<f32>(1.0), vec2<f32>(s14), false);
  _ = f32(min(0.5f, 4.0));
  {
    let l18 = array<mat3x4<f32>, 1>(((mat3x4<f32>(s14, 3.0, s14, p2, s14, 2, 3, 1, 3.5f, 3, 5.0, p2) * p2) - mat3x4<f32>(vec4<f32>(s14), vec4<f32>(vec3<f32>(), s14), vec4<f32>(vec3<f32>(p2, 5, p2), p2))));
  }
  let l19 = i32(clamp(-C1, (g4 & C1), bitcast<i32>(4u)));
  s16 = (i32(4.3) == p0);
  return ~(select(5u, 3u, s16) ^ fn5(7, &s14, true));
}
@fragment
fn ep20(@location(0) uv: vec2<f32>, @location(1) @interpolate(flat) id: u32, @builtin(position) fc: vec4<f32>) -> FOut {
  var s21: f32 = uv[1];
  var s22: i32 = select(5i, 4i, true);
  var s23: bool = true;
  var s24: vec2<f32> = vec2<f32>(3, s21);
  var s25: vec3<f32> = (vec3<f32>(2, 3.5f, 3.5f) + vec3<f32>(s21, 3.0, 3.0));
  if s23 {
    s23 = select(!(false && s23), (s23 == (C1 >= 7)), false);
  }
  _ = (select(vec3<f32>(s21), s25, s23) - s25);
  switch ((id ^ id) ^ (4u - 8u)) {
    case 6u, default: {
    }
    case 1u: {
    }
  }
  return FOut((uni.scale * fc), bitcast<f32>((8u + id)));
}
