struct S0 {
  f0: f32,
  f1: u32,
  f2: array<vec4<f32>, 1>,
  f3: i32,
}
struct VOut { @builtin(position) pos: vec4<f32>, @location(0) uv: vec2<f32>, @location(1) @interpolate(flat) id: u32 }
struct FOut { @location(0) color: vec4<f32>, @builtin(frag_depth) depth: f32 }
struct CIn { @builtin(global_invocation_id) gid: vec3<u32>, @builtin(workgroup_id) wid: vec3<u32> }
struct Buf { counter: atomic<u32>, acc: atomic<i32>, v: vec4<f32>, data: array<u32> }
@group(0) @binding(0) var<storage, read_write> buf: Buf;
struct Uni { m: mat4x4<f32>, arr: array<vec4<f32>, 3>, scale: f32, dim: vec2<u32> }
@group(0) @binding(1) var<uniform> uni: Uni;
@group(1) @binding(0) var tex: texture_2d<f32>;
@group(1) @binding(1) var smp: sampler;
var<private> g1: mat2x3<f32> = mat2x3<f32>(1.3, 4.0, 3.0, 1.1, 2.5f, 3.5f);
override ov_scale: f32 = 1.5;
override ov_count: u32 = 3u;
fn fn2(p0: ptr<function, vec3<f32>>, p1: i32) -> u32 {
  var s3: f32 = -ov_scale;
  var s4: u32 = ov_count;
  var s5: bool = (2.7 <= 1.5f);
  var s6: vec4<f32> = vec4<f32>(vec4<u32>(ov_count, s4, ov_count, 6u));
  let x7 = atomicCompareExchangeWeak(&buf.counter, reverseBits(4u), clamp(ov_count, ov_count, 1u));
  if x7.exchanged { buf.data[0] = x7.old_value; }
  let l8 = array<i32, 4>(((2 % (p1 | 1)) + p1), p1, select((4 >> (ov_count & 31u)), ((-1) + 12i), all(vec4<bool>(false, s5, false, s5))), (-2));
  if any((s6 >= vec4<f32>((*p0), s3))) {
    return ~((s4 % (ov_count | 1u)) | clamp(s4, 7u, 6u));
  }
  return 7u;
}
@vertex
fn ep9(@builtin(vertex_index) vi: u32, @location(0) pos: vec3<f32>, @location(1) uv: vec2<f32>, @builtin(instance_index) ii: u32) -> VOut {
  var out: VOut;
  var s10: f32 = saturate(ov_scale);
  var s11: i32 = i32(true);
  var s12: u32 = (vi * vi);
  var s13: bool = select(true, false, false);
  var s14: vec4<f32> = select(out.pos, vec4<f32>(3.5f, 1.5f, 3.0, 3), vec4<bool>());
  var s15: vec2<f32> = uv;
  g1[0] = pos;
  g1[((4u / (s12 | 1u)) % 2u)][1] = floor(min(buf.v.z, pos.y));
  let l16 = (vec2<u32>(vec2<i32>(s11, s11))).xxy;
  s11 = max((s11 & s11), select(s11, s11, true));
  _ = vec3<bool>();
  out.pos = ((uni.m[1].y % (abs(floor(s10)) + 1.0)) * sin((mat4x4<f32>(s14, vec4<f32>(vec3<f32>(s15, ov_scale), 1.3), out.pos, vec4<f32>(ov_scale, ov_scale, 0.5f, ov_scale)) * vec4<f32>(1.0))));
  return out;
}
