override o: u32 = 0; fn f() -> u32 { return o; }
