struct VOut { @builtin(position) pos: vec4<f32>, @location(0) uv: vec2<f32>, @location(1) @interpolate(flat) id: u32 }
struct FOut { @location(0) color: vec4<f32>, @builtin(frag_depth) depth: f32 }
struct CIn { @builtin(global_invocation_id) gid: vec3<u32>, @builtin(workgroup_id) wid: vec3<u32> }
struct Buf { counter: atomic<u32>, acc: atomic<i32>, v: vec4<f32>, data: array<u32> }
@group(0) @binding(0) var<storage, read_write> buf: Buf;
const C1 = mat3x2<f32>(4.0, 1.0, 5.0, 3.6, 7.0, 0.5f);
fn fn2(p0: ptr<function, vec3<u32>>, p1: array<i32, 3>, p2: i32) -> u32 {
  var s3: i32 = -(-4);
  var s4: u32 = 6u;
  var s5: bool = any(vec2<bool>(false, false));
  var s6: vec4<i32> = max(vec4<i32>(p2, s3, 7, s3), vec4<i32>(vec3<i32>(vec2<i32>(), s3), (-4)));
  if s5 {
    {
      s5 = !(6.0 <= 0.3);
    }
    var v7 = ((mat3x2<f32>(vec2<f32>(2.4), vec2<f32>(4.9, 3.0), vec2<f32>(0.5f, 4.0)) * min(3.7, 1.0)) - C1);
    let l8: vec3<f32> = ((exp(vec3<f32>(3.3, 2.6, 1)) - v7[2][1]) + vec3<f32>(vec2(3.4), 7.0));
  } else {
    if ((s5 == s5) && true) {
      return (((0u + 6u) + select(1u, s4, s5)) | s4);
    }
  }
  s4 = s4;
  _ = (*p0);
  return buf.data[(5u / (s4 | 1u))];
}
var<workgroup> wg: array<f32, 8>;
var<workgroup> wgc: atomic<u32>;
var<workgroup> wgu: u32;
@compute @workgroup_size(7, 2)
fn ep9(in: CIn) {
  workgroupBarrier();
  let wul = workgroupUniformLoad(&wgu);
  var s10: f32 = f32(true);
  var s11: i32 = (-2);
  var s12: vec2<f32> = (vec3<f32>(2, 3.0, 0.5f) * mat2x3<f32>(s10, 5, 6, 4.7, 3, 1.8));
  var s13: vec3<i32> = vec3<i32>(s11, 0, s11);
  var v14: f32 = s10;
  _ = f32(f32(wul));
  loop {
    let l15: vec2<u32> = vec2<u32>((max(6u, 2u) + (wul * 7u)));
    switch wul {
      case 0u, default: {
        let a16 = atomicMax(&buf.acc, (-s11 / (s11 | 1)));
        loop {
          s11 -= ((-3) * (7 << (6u & 31u)));
          if (!true == true) { break; }
          continuing {
            buf.data[clamp(u32(true), (u32(4u) << (7u & 31u)), l15.y)] = (reverseBits(in.wid.x) - in.wid.x);
            v14 = exp2(clamp(2.0, v14, 1.1));
            break if false;
          }
        }
      }
      case 5u, 3u: {
        var v17 = u32(~wul);
        let x18 = atomicCompareExchangeWeak(&buf.counter, (1u / (v17 | 1u)), clamp(5u, v17, 0u));
        if x18.exchanged { buf.data[0] = x18.old_value; }
      }
    }
    let l19: i32 = select(atomicLoad(&buf.acc), clamp(-s11, select(s11, (-2), true), s11), (buf.v[0] == clamp(4.9, v14, s10)));
    if true { break; }
  }
  {
    v14 = length((vec2<f32>().xxy * (vec4<f32>(vec3<f32>(v14, 5, s10), v14)).zwz));
  }
  while all(vec2<bool>(false)) {
    if select((true || true), false, !false) {
      _ = vec2<u32>();
      var v20: vec2<bool>;
      s10 = max(length(vec3<f32>(1.5f, s10, 1)), max(select(4.5, 1.5f, true), f32(8i)));
    } else if false {
      buf.data[(select(wul, 4u, true) & select(in.wid.x, 2u, true))] = (max(in.wid.x, wul) - ~wul);
      s12 += (transpose(mat2x4<f32>()) * (vec4<f32>(vec3<f32>(4.8, s10, v14), s10)).zywx);
    } else {
      {
        v14 = f32(!true);
        s11 = (-s11 * (i32(s11) << (0u & 31u)));
      }
      s12 -= (vec3<f32>(0.5, 1.5f, v14)).xz;
    }
  }
  v14 = clamp(s12.y, trunc((1.5f / (abs(6.0) + 1.0))), select(f32(false), (s10 / (abs(s10) + 1.0)), true));
}
