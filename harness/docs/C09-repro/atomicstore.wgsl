struct B { c: atomic<u32> } @group(0) @binding(0) var<storage, read_write> b: B; fn f(a: u32) { atomicStore(&b.c, a + 1u); }
