fn f() {
    var a: vec2<u32>;
    a = vec2(42, 43);
    var b = vec2<f32>(44, 45);
    let c: vec2<u32> = vec2(1, 2);
}
