@group(0) @binding(0) var t: texture_2d<f32>;
@group(0) @binding(1) var s: sampler;
@fragment fn fs() -> @location(0) vec4<f32> { return textureSample(t, s, vec2(0.5)); }
