struct S0 {
  f0: vec2<bool>,
  f1: vec4<u32>,
  f2: i32,
  f3: bool,
}
struct S1 {
  f0: f32,
  f1: vec4<bool>,
}
struct VOut { @builtin(position) pos: vec4<f32>, @location(0) uv: vec2<f32>, @location(1) @interpolate(flat) id: u32 }
struct FOut { @location(0) color: vec4<f32>, @builtin(frag_depth) depth: f32 }
struct CIn { @builtin(global_invocation_id) gid: vec3<u32>, @builtin(workgroup_id) wid: vec3<u32> }
struct Buf { counter: atomic<u32>, acc: atomic<i32>, v: vec4<f32>, data: array<u32> }
@group(0) @binding(0) var<storage, read_write> buf: Buf;
const C1 = 2.9;
const C2 = S0(vec2<bool>(true), vec4<u32>(7u), 10, true);
const C3: u32 = 0u;
var<private> g4: f32 = (1.5f + 2.5f);
override ov_scale: f32 = 1.5;
override ov_count: u32 = 3u;
fn fn5(p0: vec3<f32>) {
  var s6: bool = (false == false);
  var s7: vec3<i32> = vec3<i32>();
  g4 = buf.v[min(reverseBits(1u), 3u)];
  s7 = (s7 * C2.f2);
  return;
}
fn fn8(p0: ptr<function, vec3<f32>>, p1: vec4<f32>) -> S1 {
  var s9: f32 = C1;
  var s10: i32 = ((-2) + 5);
  var s11: bool = all(vec3<bool>(true, false, true));
  var s12: vec3<f32> = (*p0);
  var s13: vec3<u32> = vec3<u32>(C3, 7u, 4u);
  switch max(countOneBits(11i), (s10 % (s10 | 1))) {
    case 2: {
      let l14 = S0(((mat4x2<f32>(vec2<f32>(s9), vec2<f32>(), vec2<f32>(g4, 6), vec2<f32>()) * p1) == (p1 * mat2x4<f32>(p1, vec4<f32>()))), vec4<u32>(C3, C3, 2u, C3), s10, s11);
      {
        let l15 = f32(clamp((ov_scale * s9), (*p0).x, (g4 - 1.0)));
        fn5(cross(vec3<f32>(C1), (*p0)));
      }
    }
    case 1: {
      let a16 = atomicSub(&buf.acc, atomicLoad(&buf.acc));
    }
    case 4, default: {
      let l17: bool = all(vec4<bool>());
      var v18 = array<S0, 3>(S0(vec2<bool>(), vec4<u32>(vec3<u32>(7u), 1u), 4, false), C2, C2);
    }
  }
  var v19 = transpose(((mat2x4<f32>(p1, vec4<f32>(3.3)) * 2.9) - (mat2x4<f32>() + mat2x4<f32>(vec4<f32>(ov_scale, 5, 6.0, 2), p1))));
  if !s11 {
    {
      var v20: vec2<i32>;
    }
    _ = mat2x4<f32>();
    if (s11 || (s11 && false)) {
      v19 = v19;
    }
  } else {
    if any(vec4<bool>(s11)) {
      return S1(C1, vec4<bool>(s11, s11, false, false));
    }
    g4 = fma((mix(0.5f, s9, s9) / (abs(length(vec3<f32>(C1, C1, 3))) + 1.0)), (buf.v.z * f32(s11)), 1.0);
  }
  s13 += vec3<u32>((6u - C3));
  return S1(min(clamp(C1, s9, g4), g4), vec4<bool>(vec3<bool>(false, false, s11), s11));
}
@fragment
fn ep21(in: VOut, @builtin(front_facing) ff: bool) -> @location(0) vec4<f32> {
  var s22: f32 = in.uv.x;
  var s23: i32 = select((-1), 2, true);
  var s24: vec3<i32> = vec4<i32>(s23).zwy;
  for (var i25 = 0; i25 < 2; i25++) {
    s24 += s24;
    if select((C3 >= 3u), C2.f3, (ff || false)) {
      return vec4<f32>(5, ov_scale, C1, fract(f32(7u)));
    }
  }
  buf.v = select(in.pos.yzzy, (in.pos * 3.5f), (in.pos < vec4(3.7)));
  g4 = select(-buf.v.z, s22, ((2 % (s23 | 1)) > clamp(s23, (-2), 7)));
  s24.z = select(select((1i - s23), countOneBits(s23), !ff), countOneBits((2 * s23)), select(ff, false, ff));
  _ = vec3<u32>(5u).yx;
  return vec4<f32>((f32(ff) - -3.0));
}
@vertex
fn ep26(@builtin(vertex_index) vi: u32, @location(0) pos: vec3<f32>, @location(1) uv: vec2<f32>, @builtin(instance_index) ii: u32) -> VOut {
  var out: VOut;
  var s27: f32 = (0.5f - 1.7);
  var s28: i32 = (i32((-2)) << (4u & 31u));
  var s29: u32 = clamp(C3, 2u, C3);
  var s30: bool = !true;
  var s31: vec4<i32> = vec4<i32>(s28, s28, s28, 3);
  var v32: f32;
  if any(vec4<bool>()) {
    if all(vec2<bool>(false)) {
      var v33: f32 = dot(vec4<f32>((vec4<u32>() + C3)), mix((ov_scale + out.pos), (mat3x4<f32>(out.pos, vec4<f32>(), vec4<f32>(1, ov_scale, s27, 0.5f)) * pos), ov_scale));
      s31 = s31;
    }
    out.id = s29;
    let l34 = (all(vec4<bool>(vec3<bool>(vec2<bool>(), s30), false)) == s30);
  } else {
    switch ((0u * 5u) ^ (ii * 7u)) {
      default: {
        _ = (fma(g4, s27, 3.5f) * v32);
        s30 = (select(true, s30, false) == !true);
      }
      case 1u: {
        s31 = s31;
        s29 = (select(clamp(C3, 4u, 6u), (s29 + C3), !true) - (3u * buf.data[ii]));
      }
    }
  }
  let l35 = C2;
  if ((false == s30) == s30) {
    g4 = 1.5f;
  } else {
    g4 += buf.v[(ov_count % 4u)];
  }
  s30 = !(select(s30, false, s30));
  out.pos = select((s27 * (out.pos * vec4<f32>(pos, 0.5f))), buf.v, vec4<bool>());
  return out;
}
