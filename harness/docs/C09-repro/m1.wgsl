const positions = array(vec4(0.,1.,0.,1.), vec4(-1.,-1.,0.,1.), vec4(1.,-1.,0.,1.));
var<private> p: vec4<f32>;
fn f() { p = positions[1]; }
