struct S0 {
  f0: bool,
}
struct VOut { @builtin(position) pos: vec4<f32>, @location(0) uv: vec2<f32>, @location(1) @interpolate(flat) id: u32 }
struct FOut { @location(0) color: vec4<f32>, @builtin(frag_depth) depth: f32 }
struct CIn { @builtin(global_invocation_id) gid: vec3<u32>, @builtin(workgroup_id) wid: vec3<u32> }
struct Uni { m: mat4x4<f32>, arr: array<vec4<f32>, 3>, scale: f32, dim: vec2<u32> }
@group(0) @binding(1) var<uniform> uni: Uni;
@group(1) @binding(0) var tex: texture_2d<f32>;
@group(1) @binding(1) var smp: sampler;
const C1 = mat4x4<f32>(7.0, 1.8, 0.5f, 7.0, 0.5f, 3.5f, 2.5f, 5.0, 5.0, 4.0, 2.1, 3.0, 2.5f, 1.5f, 2.5f, 2.5f);
const C2 = 4u;
var<private> g3: i32 = 10i;
fn fn4(p0: S0, p1: mat3x3<f32>) -> bool {
  var s5: f32 = (0.5f / (abs(4.0) + 1.0));
  var s6: i32 = (6i * g3);
  var s7: u32 = C2;
  var s8: bool = (s5 != 2.2);
  var s9: vec3<f32> = p1[0];
  var s10: vec4<u32> = vec4<u32>(2u);
  if s8 {
    var v11 = f32((uni.scale % (abs(dot(vec2<f32>(), vec2<f32>(s5, 4))) + 1.0)));
  } else {
    s8 = (s10[min(3u, 3u)] <= (C2 ^ (3u - C2)));
    s7 = s7;
  }
  if !(true == false) {
    while (select(s8, true, false) && !false) {
      let l12 = mat4x3<f32>(s5, 6.0, 2, s5, s5, 1.2, s5, s5, s5, 2.5f, 1.5f, s5);
      if (s7 >= 5u) { continue; }
    }
  } else {
    _ = mat4x3<f32>(s5, 5, s5, 4.7, 3, s5, 5, 2.5f, s5, s5, 0.5f, 4.6);
  }
  switch (g3 + g3) {
    case 1, 5: {
      let l13: bool = select(select(any(vec2<bool>(s8, s8)), p0.f0, !true), any(vec4<bool>(false, s8, true, s8)), s8);
      while ((s5 - s5) == uni.m[2].y) {
        s5 = max(f32(5u), (s5 - 0.5f));
        s9[min(7u, 2u)] = (uni.scale % (abs(select(3.0, s5, false)) + 1.0));
        s8 = !(countLeadingZeros(4u) <= select(s7, s7, s8));
      }
      break;
    }
    case 3: {
      switch s6 {
        case 3: {
          _ = (transpose(p1) * mat3x3<f32>(s5, 2.5f, 2, 1.0, 6.0, s5, 6, s5, s5));
        }
        case 0, 4: {
          break;
        }
        case 1, default: {
          s7 = s10.y;
        }
      }
    }
    case 0: {
      let l14: f32 = max(fma((s5 * 4.0), clamp(2.4, 2.5f, 7.0), s9[2]), -(select(s5, s5, true)));
      while ((0 == s6) == (s8 == s8)) {
        s6 = s6;
      }
    }
    default: {
      break;
    }
  }
  if true {
    g3--;
  }
  return ((dot(vec4(2.3), vec4<f32>(4, 7.0, s5, 4.5)) != clamp(s5, s5, s5)) == select((s8 || s8), s8, s8));
}
fn fn15(p0: i32, p1: u32) {
  var s16: i32 = min(p0, (-2));
  var s17: u32 = ~p1;
  var s18: bool = (true || false);
  var s19: vec4<f32> = vec4<f32>(vec3<f32>(), 0.6);
  loop {
    if s18 {
      let l20 = any(vec4<bool>(false));
    } else {
      var v21: mat2x4<f32> = (mat2x4<f32>() + transpose(mat4x2<f32>(vec2<f32>(1.5f, 4.0), vec2<f32>(0.5f, 3.0), vec2<f32>(2.5f, 5.0), vec2<f32>(1.5f, 2.0))));
      s19[3] = (4.7 * (f32(s18) * min(4.0, 3.5f)));
    }
    s19 = vec4<f32>((cross(vec3<f32>(vec2<f32>(1.5f, 4.0), 1.0), vec3<f32>())).xyz, f32(select(false, s18, s18)));
    if s18 { break; }
    continuing {
      s16 = s16;
      var v22 = vec2<u32>();
    }
  }
  return;
}
@fragment
fn ep23(in: VOut, @builtin(front_facing) ff: bool) -> @location(0) vec4<f32> {
  let ts = textureSample(tex, smp, vec2(0.5)) + textureSampleBias(tex, smp, in.uv, 1.0);
  var s24: i32 = g3;
  var s25: u32 = in.id;
  var s26: vec4<f32> = vec4<f32>(2.0, 2, 0.5f, 6.0);
  var v27 = S0((false == any(vec2<bool>(ff, ff))));
  {
    g3 = g3;
    switch g3 {
      case 5, 0: {
        _ = (vec2<u32>(C2, 1) * vec2<u32>(3, in.id));
      }
      default: {
        if ((ff || ff) || (true && true)) {
          return vec4<f32>();
        }
        let l28: S0 = v27;
        break;
      }
      case 1, 4: {
        switch clamp(countLeadingZeros(in.id), u32(true), bitcast<u32>(8)) {
          default: {
            let l29: i32 = max((select((-3), 5i, true) % (s24 | 1)), i32((ff == false)));
            var v30: vec2<bool>;
          }
          case 1u: {
            s25 = clamp((C2 / (in.id | 1u)), s25, ~C2);
            _ = S0(select(true, true, ff));
          }
          case 3u: {
          }
          case 4u: {
          }
        }
        break;
      }
      case 2: {
        let l31: i32 = i32((clamp(10, 9i, 8i) >= max(g3, g3)));
        var v32 = select(vec4<bool>(true, false, ff, false), vec4<bool>(), vec4<bool>(false, false, ff, ff));
      }
    }
  }
  v27.f0 = (!((-3) <= s24) && (max(3.1, 5.0) >= length(vec2<f32>(5, 1.0))));
  loop {
    while (false == (s24 < 3)) {
      let l33: array<S0, 4> = array<S0, 4>(S0(ff), S0(ff), v27, S0(true));
      _ = ((C1 * mat4x4<f32>(3.5, 2.5f, 6.0, 4, 1.0, 2.5f, 5.0, 4, 0.3, 0.1, 1.5f, 6, 3.5f, 3, 2.1, 1.0)) * vec4<f32>(7.0, 6, 0.8, 5.0));
    }
    var v34 = u32(s25);
    if ff {
      return vec4<f32>(min((2.0 % (abs(0.8) + 1.0)), 1.5f), select(7.0, (2.5f * 1.5f), ff), in.uv.y, 4.1);
    }
    if false { break; }
    continuing {
      s26[0] = select((3.5f + 3.0), s26.x, (ff || ff));
      break if ff;
    }
  }
  if !(all(vec4<bool>(true, ff, ff, ff))) { discard; }
  _ = (select(s25, 5u, ff) + vec2<u32>(vec2<i32>((-2))));
  return vec4<f32>();
}
