struct S0 {
  f0: vec3<i32>,
}
struct VOut { @builtin(position) pos: vec4<f32>, @location(0) uv: vec2<f32>, @location(1) @interpolate(flat) id: u32 }
struct FOut { @location(0) color: vec4<f32>, @builtin(frag_depth) depth: f32 }
struct CIn { @builtin(global_invocation_id) gid: vec3<u32>, @builtin(workgroup_id) wid: vec3<u32> }
const C1: mat4x2<f32> = mat4x2<f32>(0.5f, 7.0, 1.5f, 6.0, 2.2, 3.0, 2.8, 4.0);
override ov_scale: f32 = 1.5;
override ov_count: u32 = 3u;
fn fn2(p0: array<vec3<u32>, 2>, p1: ptr<function, array<vec4<i32>, 3>>, p2: ptr<function, i32>) -> u32 {
  var s3: f32 = round(4.0);
  var s4: i32 = (4 << (7u & 31u));
  var s5: bool = any(vec2<bool>(false, false));
  var s6: vec2<f32> = vec2<f32>(vec2<u32>(ov_count, 1u));
  var s7: vec2<i32> = (vec3<i32>((-3), (*p2), s4)).xy;
  let l8 = any(vec3<bool>(false, true, true));
  (*p2) = s7.y;
  {
    _ = 2.8;
    if s5 {
      (*p1) = array<vec4<i32>, 3>(vec4<i32>(vec4<u32>()), vec4<i32>(s4, (-2), s4, s4), select(vec4<i32>(s4), vec4<i32>(s4), false));
      var v9 = transpose((C1 - C1));
      s5 = select(s5, select(!l8, s5, (true || false)), l8);
    }
  }
  let l10: mat2x2<f32> = mat2x2<f32>();
  return u32(-(-ov_scale));
}
@fragment
fn ep11(@location(0) uv: vec2<f32>, @location(1) @interpolate(flat) id: u32, @builtin(position) fc: vec4<f32>) -> FOut {
  var s12: bool = (0u > 0u);
  var s13: vec3<f32> = select(vec3<f32>(), vec3<f32>(6, ov_scale, ov_scale), s12);
  var s14: vec2<f32> = uv;
  var v15: mat4x4<f32>;
  if any(select(vec2<bool>(true, s12), vec2<bool>(s12, false), vec2<bool>(s12, s12))) {
    _ = s12;
    var v16 = u32(bitcast<u32>(select(ov_scale, 2.5, false)));
  }
  if s12 { discard; }
  return FOut(fc, max((5.0 % (abs(0.2) + 1.0)), select(ov_scale, ov_scale, s12)));
}
@vertex
fn ep17(@builtin(vertex_index) vi: u32, @location(0) pos: vec3<f32>, @location(1) uv: vec2<f32>, @builtin(instance_index) ii: u32) -> VOut {
  var out: VOut;
  var s18: i32 = bitcast<i32>(8u);
  var s19: u32 = (u32(4u) >> (out.id & 31u));
  var s20: bool = true;
  var s21: vec3<f32> = select(vec3<f32>(uv, ov_scale), pos, s20);
  var s22: vec3<i32> = vec4<i32>(s18).xzy;
  if s20 {
    s22[1]++;
    out.pos.y = max(ov_scale, ov_scale);
  }
  if !(11 <= s18) {
    return out;
  }
  loop {
    _ = 2.0;
    out.pos.z = ov_scale;
    if all((vec2<u32>() != vec2<u32>(vi))) { break; }
    continuing {
      out.pos = out.pos;
      out.uv = vec2<f32>(vec2<i32>());
    }
  }
  out.id = clamp(select((ov_count % (ii | 1u)), max(4u, 3u), (false || true)), 3u, vi);
  out.pos = ((out.pos + out.pos) * ov_scale);
  return out;
}
