struct S0 {
  f0: i32,
  f1: f32,
  f2: u32,
  f3: array<vec3<f32>, 1>,
}
struct VOut { @builtin(position) pos: vec4<f32>, @location(0) uv: vec2<f32>, @location(1) @interpolate(flat) id: u32 }
struct FOut { @location(0) color: vec4<f32>, @builtin(frag_depth) depth: f32 }
struct CIn { @builtin(global_invocation_id) gid: vec3<u32>, @builtin(workgroup_id) wid: vec3<u32> }
struct Uni { m: mat4x4<f32>, arr: array<vec4<f32>, 3>, scale: f32, dim: vec2<u32> }
@group(0) @binding(1) var<uniform> uni: Uni;
@group(1) @binding(0) var tex: texture_2d<f32>;
@group(1) @binding(1) var smp: sampler;
const C1 = S0((-4), 0.5f, 3u, array<vec3<f32>, 1>(vec3<f32>(3.8, 3.5f, 3.0)));
fn fn2(p0: u32, p1: vec4<f32>, p2: f32) -> f32 {
  var s3: f32 = max(p2, 1.5f);
  var s4: i32 = i32(false);
  var s5: vec4<f32> = uni.m[3];
  var s6: vec2<f32> = select(vec2<f32>(2.0, p2), vec2<f32>(2.0, 1), vec2<bool>(false, true));
  let l7 = C1;
  s4 = (s4 / (s4 | 1));
  let l8 = f32(abs(select(1.5f, 6.0, false)));
  var v9: mat2x4<f32> = (mat2x4<f32>(textureSampleLevel(tex, smp, s6, 0.0), select(p1, p1, vec4<bool>(false, false, false, false))) * sin(l8));
  v9 = transpose(transpose(mat2x4<f32>(p1, s5)));
  return (select((2.0 * p2), p1[0], all(vec4<bool>(vec3<bool>(true), false))) * 1.0);
}
@fragment
fn ep10(in: VOut, @builtin(front_facing) ff: bool) -> @location(0) vec4<f32> {
  let ts = textureSample(tex, smp, in.uv);
  var s11: i32 = ~9;
  var s12: u32 = (5u ^ in.id);
  var s13: bool = !ff;
  var s14: vec2<f32> = in.uv;
  var s15: vec2<f32> = mix(vec2<f32>(2.5, 1.4), s14, 1.0);
  s15 = (length(vec3<f32>(1.1, 0.1, 2.6)) + s15.xy);
  s11--;
  let l16: vec2<i32> = vec2<i32>((uni.scale + select(vec2(0.4), s14, vec2<bool>(false, ff))));
  s13 = (abs(s11) > select((s11 + s11), s11, ff));
  return fract((transpose(mat4x2<f32>(in.uv, s14, vec2<f32>(4.0, 1.4), s15)) * vec2<f32>(2.0, 7.0)));
}
@vertex
fn ep17(@builtin(vertex_index) vi: u32, @location(0) pos: vec3<f32>, @location(1) uv: vec2<f32>, @builtin(instance_index) ii: u32) -> VOut {
  var out: VOut;
  var s18: bool = true;
  var s19: vec4<f32> = (vec4<f32>() - 2.0);
  {
    s19[(1u % 4u)] = (-3.5f + (4.0 + 6.0));
    if !(select(true, true, s18)) {
      let l20: mat3x4<f32> = mat3x4<f32>();
      s19.z = 7.0;
      out.id = (u32(2.9) % (ii | 1u));
    }
  }
  out.pos[(2u % 4u)] = (C1.f1 + bitcast<f32>((-3)));
  out.uv[1] -= ((7.0 % (abs(6.0) + 1.0)) - fn2(5u, vec4<f32>(2.5), 2.0));
  let l21 = vec2<i32>();
  let l22: i32 = countLeadingZeros(6);
  out.pos = ((dot(pos, vec3<f32>(1.2, 3.9, 0.1)) - select(s19, vec4<f32>(pos, 3.4), s18)) * s19);
  return out;
}
