package main

import (
	"fmt"
	"os"
	"time"

	"github.com/gogpu/naga"
	"github.com/gogpu/naga/glsl"
)

func main() {
	src, _ := os.ReadFile(os.Args[1])
	ast, err := naga.Parse(string(src))
	if err != nil {
		fmt.Println("parse", err)
		return
	}
	m, err := naga.Lower(ast)
	if err != nil {
		fmt.Println("lower", err)
		return
	}
	t := time.Now()
	opt := glsl.DefaultOptions()
	out, _, err := glsl.Compile(m, opt)
	fmt.Println(len(out), err, time.Since(t))
}
