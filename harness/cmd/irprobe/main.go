// irprobe: lower a WGSL file, apply passes, print the IR (triage tool for C13).
//
//	irprobe [-case out.ndjson] file.wgsl [pass ...]
//
// passes: CompactUnused InlineAll InlineSome CompactConstants CompactExpressions CompactTypes ReorderTypes DeduplicateEmits prepareModule sroa mem2reg dce
// With -case, every version is also written as an IrRun case (rows: VERIF_ROWS="1,2,3,4;5,6,7,8" gives the words of
// the first buffer per row, other buffers zero).
package main

import (
	"fmt"
	"os"

	"verif/harness/checks"
	"verif/harness/drive"
	"verif/harness/irjson"
	"verif/harness/irx"
)

func main() {
	args := os.Args[1:]
	caseFile := ""
	if len(args) > 1 && args[0] == "-case" {
		caseFile = args[1]
		args = args[2:]
	}
	src, err := os.ReadFile(args[0])
	if err != nil {
		panic(err)
	}
	m, stage, err := drive.Front(string(src))
	if err != nil {
		fmt.Println("front:", stage, err)
		os.Exit(1)
	}
	var out []byte
	add := func(id int) {
		if caseFile != "" {
			out = append(out, checks.ProbeCase(id, m, os.Getenv("VERIF_ROWS"))...)
		}
	}
	fmt.Println("==== lowered")
	fmt.Print(irjson.Text(m))
	add(0)
	for i, p := range args[1:] {
		m2, err := checks.ApplyPass(m, p)
		if err != nil {
			fmt.Println("pass", p, "error:", err)
			os.Exit(1)
		}
		m = m2
		fmt.Println("==== after", p)
		fmt.Print(irjson.Text(m))
		if d := os.Getenv("IRPROBE_DUMP"); d != "" {
			_ = os.WriteFile(fmt.Sprintf("%s.%d", d, i+1), []byte(irx.Dump(m)), 0o644)
		}
		add(i + 1)
	}
	if caseFile != "" {
		if err := os.WriteFile(caseFile, out, 0o644); err != nil {
			panic(err)
		}
	}
}
