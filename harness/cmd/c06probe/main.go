// c06probe: development aid for C06 - prints what naga made of the compile-time expressions of a WGSL file.
package main

import (
	"fmt"
	"os"

	"verif/harness/checks"
)

func main() {
	src, err := os.ReadFile(os.Args[1])
	if err != nil {
		panic(err)
	}
	fmt.Print(checks.C06Probe(string(src)))
}
