// randprobe prints random programs and reports how many the real naga accepts (development aid).
package main

import (
	"fmt"
	"math/rand"
	"os"
	"strconv"

	"verif/harness/drive"
	"verif/harness/gen"
	"verif/harness/wg"
)

func main() {
	seed, _ := strconv.ParseInt(os.Args[1], 10, 64)
	n, _ := strconv.Atoi(os.Args[2])
	show := len(os.Args) > 3
	rng := rand.New(rand.NewSource(seed))
	errs := map[string]int{}
	for i := 0; i < n; i++ {
		c := gen.RandProgram(rng, i, 4)
		src := wg.Print(c.Prog)
		if show {
			fmt.Println(src)
		}
		m, stage, err := drive.Front(src)
		if err != nil {
			errs["front:"+stage]++
			if errs["front:"+stage] <= 3 {
				fmt.Printf("---- program %d rejected at %s: %v\n%s\n", i, stage, err, src)
			}
			continue
		}
		for _, b := range []string{"spv", "hlsl", "msl", "glsl"} {
			if _, err := drive.Compile(b, drive.OptNames(b)[0], m, "main"); err != nil {
				errs[b]++
				if errs[b] <= 2 {
					fmt.Printf("---- program %d: %s error: %v\n%s\n", i, b, err, src)
				}
			}
		}
	}
	fmt.Println("programs", n, "errors", errs)
}
