// verif: entry point of the verification harness.
//
//	verif check <ID> [--tier quick|thorough] [--replay file]
//	verif selftest
package main

import (
	"fmt"
	"os"
	"strconv"
	"strings"

	"verif/harness/checks"
	"verif/harness/core"
)

func main() {
	if len(os.Args) < 2 {
		fmt.Println("usage: verif check <ID> [--tier quick|thorough] | verif selftest")
		os.Exit(2)
	}
	switch os.Args[1] {
	case "selftest":
		c := core.NewCtx("SELFTEST", "quick", "other")
		n, err := checks.SelfTestWord32(c)
		fmt.Println("word32 rows:", n, "err:", err)
		if err != nil {
			os.Exit(2)
		}
		n, err = checks.SelfTestF32(c)
		fmt.Println("f32 rows:", n, "err:", err)
		if err != nil {
			os.Exit(2)
		}
	case "xrun": // verif xrun file.wgsl "w0,w1,..." nOut
		b, err := os.ReadFile(os.Args[2])
		if err != nil {
			fmt.Println(err)
			os.Exit(2)
		}
		var inp []int32
		for _, f := range strings.Split(os.Args[3], ",") {
			v, _ := strconv.ParseInt(strings.TrimSpace(f), 10, 64)
			inp = append(inp, int32(v))
		}
		n, _ := strconv.Atoi(os.Args[4])
		os.Exit(checks.XRun(string(b), inp, n))
	case "randscan": // verif randscan <seed> <n>
		sd, _ := strconv.ParseInt(os.Args[2], 10, 64)
		n, _ := strconv.Atoi(os.Args[3])
		os.Exit(checks.RandScan(sd, n))
	case "reduce": // verif reduce replay.json
		os.Exit(checks.SemReduce(os.Args[2]))
	case "worker-session":
		os.Exit(checks.SessionWorker(os.Args[2], os.Args[3]))
	case "replay-sessions":
		os.Exit(checks.SessionReplay(os.Args[2], os.Args[3], os.Args[4]))
	case "check":
		if len(os.Args) < 3 {
			os.Exit(2)
		}
		id := os.Args[2]
		tier := os.Getenv("VERIF_TIER")
		replay := ""
		for i := 3; i < len(os.Args); i++ {
			switch os.Args[i] {
			case "--tier":
				i++
				tier = os.Args[i]
			case "--replay":
				i++
				replay = os.Args[i]
			case "quick", "thorough":
				tier = os.Args[i]
			}
		}
		if tier == "" {
			tier = "quick"
		}
		f, ok := checks.Registry[id]
		if !ok {
			fmt.Println("no such check:", id)
			os.Exit(2)
		}
		os.Exit(f(tier, replay))
	default:
		os.Exit(2)
	}
}
