// irevdump: print the IR event stream of WGSL files (development aid for C09).
//
//	irevdump file.wgsl...        ndjson on stdout
//	irevdump -stats dir          event statistics over a directory
package main

import (
	"fmt"
	"os"
	"path/filepath"
	"sort"

	"github.com/gogpu/naga/ir"

	"verif/harness/drive"
	"verif/harness/irev"
)

func validate(m *ir.Module) (int, []string) {
	errs, err := ir.Validate(m)
	var msgs []string
	for _, e := range errs {
		msgs = append(msgs, e.Error())
	}
	if err != nil {
		msgs = append(msgs, err.Error())
	}
	return len(msgs), msgs
}

func main() {
	if len(os.Args) > 2 && os.Args[1] == "-stats" {
		files, _ := filepath.Glob(filepath.Join(os.Args[2], "*.wgsl"))
		sort.Strings(files)
		kinds := map[string]int{}
		total, maxEv := 0, 0
		for _, f := range files {
			b, _ := os.ReadFile(f)
			m, st, err := drive.Front(string(b))
			if err != nil {
				fmt.Println("front", filepath.Base(f), st)
				continue
			}
			s := irev.Events(filepath.Base(f), m, validate)
			if s.Skip != "" {
				fmt.Println("skip", s.Name, s.Skip)
			}
			total += len(s.Events)
			if len(s.Events) > maxEv {
				maxEv = len(s.Events)
			}
			for _, e := range s.Events {
				kinds[e.What]++
			}
		}
		fmt.Println("files", len(files), "events", total, "max", maxEv)
		var ks []string
		for k := range kinds {
			ks = append(ks, k)
		}
		sort.Strings(ks)
		for _, k := range ks {
			fmt.Printf("%6d %s\n", kinds[k], k)
		}
		return
	}
	for _, f := range os.Args[1:] {
		b, err := os.ReadFile(f)
		if err != nil {
			panic(err)
		}
		m, st, err := drive.Front(string(b))
		if err != nil {
			fmt.Fprintln(os.Stderr, "front end:", st, err)
			os.Exit(1)
		}
		s := irev.Events(filepath.Base(f), m, validate)
		os.Stdout.Write(irev.Marshal(s.Events))
	}
}
