// probe: compile a WGSL file with every backend and print the outputs (development aid).
package main

import (
	"fmt"
	"os"

	"github.com/gogpu/naga"
	"github.com/gogpu/naga/glsl"
	"github.com/gogpu/naga/hlsl"
	"github.com/gogpu/naga/msl"
	"github.com/gogpu/naga/spirv"
)

func main() {
	src, err := os.ReadFile(os.Args[1])
	if err != nil {
		panic(err)
	}
	which := "all"
	if len(os.Args) > 2 {
		which = os.Args[2]
	}
	ast, err := naga.Parse(string(src))
	if err != nil {
		fmt.Println("PARSE ERROR:", err)
		os.Exit(1)
	}
	m, err := naga.LowerWithSource(ast, string(src))
	if err != nil {
		fmt.Println("LOWER ERROR:", err)
		os.Exit(1)
	}
	if errs, err := naga.Validate(m); err != nil || len(errs) > 0 {
		fmt.Println("VALIDATE:", err, errs)
	}
	if which == "all" || which == "spv" {
		b, err := naga.GenerateSPIRV(m, spirv.DefaultOptions())
		fmt.Println("=== SPIR-V", len(b), err)
		if len(os.Args) > 3 {
			os.WriteFile(os.Args[3], b, 0o644)
		}
	}
	if which == "all" || which == "hlsl" {
		s, _, err := hlsl.Compile(m, hlsl.DefaultOptions())
		fmt.Println("=== HLSL", err)
		fmt.Println(s)
	}
	if which == "all" || which == "msl" {
		s, _, err := msl.Compile(m, msl.DefaultOptions())
		fmt.Println("=== MSL", err)
		fmt.Println(s)
	}
	if which == "all" || which == "glsl" {
		for _, ep := range m.EntryPoints {
			o := glsl.DefaultOptions()
			o.EntryPoint = ep.Name
			if ep.Stage == 4 {
				o.LangVersion = glsl.Version430
			}
			s, _, err := glsl.Compile(m, o)
			fmt.Println("=== GLSL", ep.Name, err)
			fmt.Println(s)
		}
	}
}
