// famprint prints the WGSL text of the cases of a deterministic family whose description contains a substring (development aid).
package main

import (
	"fmt"
	"os"
	"strings"

	"verif/harness/gen"
	"verif/harness/wg"
)

func main() {
	fams := map[string]func() []gen.Case{"ctlnest": gen.CtlNest, "matdyn": gen.MatDyn, "zeroinit": gen.ZeroInit, "letcopy": gen.LetCopy,
		"contop": gen.ContinuingOps, "casgorder": gen.CasgOrder, "rzswprec": gen.RzswPrec}
	f, ok := fams[os.Args[1]]
	if !ok {
		fmt.Println("unknown family")
		os.Exit(2)
	}
	for _, c := range f() {
		if len(os.Args) < 3 || strings.Contains(c.Desc, os.Args[2]) {
			fmt.Printf("// %s\n%s\n// inputs: %v\n", c.Desc, wg.Print(c.Prog), c.Inputs)
		}
	}
}
