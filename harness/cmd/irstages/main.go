// irstages: print what each compaction stage inside lowering changes (triage tool for C13).
package main

import (
	"fmt"
	"os"

	"github.com/gogpu/naga/ir"
	"github.com/gogpu/naga/wgsl"

	"verif/harness/drive"
	"verif/harness/irx"
)

func emits(b ir.Block) int {
	n := 0
	for _, s := range b {
		switch k := s.Kind.(type) {
		case ir.StmtEmit:
			n++
		case ir.StmtBlock:
			n += emits(k.Block)
		case ir.StmtIf:
			n += emits(k.Accept) + emits(k.Reject)
		case ir.StmtLoop:
			n += emits(k.Body) + emits(k.Continuing)
		case ir.StmtSwitch:
			for _, c := range k.Cases {
				n += emits(c.Body)
			}
		}
	}
	return n
}

func main() {
	src, _ := os.ReadFile(os.Args[1])
	prev := ""
	wgsl.VerifSetLowerStageHook(func(stage string, m *ir.Module) {
		fp := irx.Fingerprint(m)
		ne, nem := 0, 0
		for i := range m.Functions {
			ne += len(m.Functions[i].Expressions)
			nem += emits(m.Functions[i].Body)
		}
		for i := range m.EntryPoints {
			ne += len(m.EntryPoints[i].Function.Expressions)
			nem += emits(m.EntryPoints[i].Function.Body)
		}
		var tn []string
		for _, t := range m.Types {
			tn = append(tn, fmt.Sprintf("%T", t.Inner)[3:6]+":"+t.Name)
		}
		fmt.Printf("%-24s changed=%-5v types=%d consts=%d gexprs=%d exprs=%d emits=%d %v\n", stage, fp != prev, len(m.Types), len(m.Constants), len(m.GlobalExpressions), ne, nem, tn)
		prev = fp
	})
	_, stage, err := drive.Front(string(src))
	fmt.Println(stage, err)
}
