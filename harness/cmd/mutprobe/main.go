// mutprobe: show what a backend call changes in the caller's module (development aid).
package main

import (
	"fmt"
	"os"
	"strings"

	"verif/harness/drive"
	"verif/harness/irx"
)

func main() {
	src, _ := os.ReadFile(os.Args[1])
	m, _, err := drive.Front(string(src))
	if err != nil {
		panic(err)
	}
	before := irx.Dump(m)
	_, err = drive.Compile(os.Args[2], "default", m, "")
	fmt.Println("err:", err)
	after := irx.Dump(m)
	if before == after {
		fmt.Println("unchanged")
		return
	}
	i := 0
	for i < len(before) && i < len(after) && before[i] == after[i] {
		i++
	}
	lo := max(0, i-300)
	fmt.Println("first difference at", i)
	fmt.Println("BEFORE:", before[lo:min(len(before), i+300)])
	fmt.Println("AFTER: ", after[lo:min(len(after), i+300)])
	_ = strings.Contains
}
