// spvdump prints the harness's own disassembly of a SPIR-V binary (development aid).
package main

import (
	"fmt"
	"os"

	"verif/harness/spv"
)

func main() {
	b, err := os.ReadFile(os.Args[1])
	if err != nil {
		panic(err)
	}
	m, err := spv.Decode(b)
	if err != nil {
		fmt.Println("decode:", err)
		os.Exit(1)
	}
	fmt.Println(spv.Disasm(m))
}
