// c02probe: survey of what naga's SPIR-V backend emits (development aid for C02).
package main

import (
	"fmt"
	"os"
	"path/filepath"
	"sort"

	"github.com/gogpu/naga/spirv"

	"verif/harness/drive"
	"verif/harness/spv"
)

func main() {
	files, _ := filepath.Glob("/repo/snapshot/testdata/in/*.wgsl")
	sort.Strings(files)
	hist := map[string]int{}
	inc := func(k string) { hist[k]++ }
	total, maxN, nmods := 0, 0, 0
	var sizes []int
	for _, f := range files {
		b, _ := os.ReadFile(f)
		m, _, err := drive.Front(string(b))
		if err != nil {
			fmt.Println("FRONT", filepath.Base(f), err)
			continue
		}
		for _, v := range []spirv.Version{spirv.Version1_0, spirv.Version1_1, spirv.Version1_3, spirv.Version1_4, spirv.Version1_6} {
			for _, dbg := range []bool{false, true} {
				o := spirv.DefaultOptions()
				o.Version = v
				o.Debug = dbg
				o.ForcePointSize = dbg
				o.AdjustCoordinateSpace = dbg
				var out []byte
				func() {
					defer func() {
						if r := recover(); r != nil {
							err = fmt.Errorf("panic %v", r)
						}
					}()
					out, err = spirv.NewBackend(o).Compile(m)
				}()
				if err != nil {
					if v == spirv.Version1_1 && !dbg {
						fmt.Println("SPV", filepath.Base(f), err)
					}
					continue
				}
				mod, err := spv.Decode(out)
				if err != nil {
					fmt.Println("DECODE", filepath.Base(f), v, err)
					continue
				}
				nmods++
				total += len(mod.Insts)
				if len(mod.Insts) > maxN {
					maxN = len(mod.Insts)
				}
				if v == spirv.Version1_1 && !dbg {
					sizes = append(sizes, len(mod.Insts))
				}
				for _, in := range mod.Insts {
					name, _, known := spv.OpFormat(in.Op)
					if !known {
						inc("UNKNOWN " + name)
					}
					inc("op " + name)
					w := in.Words
					switch name {
					case "OpCapability":
						inc("cap " + spv.EnumName("capability", w[1]))
					case "OpExtension":
						s, _ := spv.DecodeString(w[1:])
						inc("ext " + s)
					case "OpDecorate":
						inc("dec " + spv.EnumName("decoration", w[2]))
						if w[2] == 11 {
							inc("builtin " + spv.EnumName("builtin", w[3]))
						}
					case "OpMemberDecorate":
						inc("mdec " + spv.EnumName("decoration", w[3]))
						if w[3] == 11 {
							inc("builtin " + spv.EnumName("builtin", w[4]))
						}
					case "OpVariable":
						inc("storage " + spv.EnumName("storage", w[3]))
					case "OpTypePointer":
						inc("ptrstorage " + spv.EnumName("storage", w[2]))
					case "OpExecutionMode":
						inc("mode " + spv.EnumName("mode", w[2]))
					case "OpEntryPoint":
						inc("model " + spv.EnumName("model", w[1]))
					case "OpExtInst":
						inc("glsl " + spv.EnumName("glsl", w[4]))
					case "OpTypeImage":
						inc(fmt.Sprintf("image dim=%d depth=%d arr=%d ms=%d sampled=%d fmt=%d", w[3], w[4], w[5], w[6], w[7], w[8]))
					case "OpTypeInt":
						inc(fmt.Sprintf("int %d %d", w[2], w[3]))
					case "OpTypeFloat":
						inc(fmt.Sprintf("float %d", w[2]))
					case "OpSpecConstantOp":
						inc("specop " + spv.OpName(uint16(w[3])))
					case "OpMemoryModel":
						inc(fmt.Sprintf("memmodel %d %d", w[1], w[2]))
					case "OpLoad", "OpStore":
						k := 4
						if name == "OpStore" {
							k = 3
						}
						if len(w) > k {
							inc(fmt.Sprintf("memaccess %s %d", name, w[k]))
						}
					case "OpImageSampleImplicitLod", "OpImageSampleExplicitLod", "OpImageFetch", "OpImageRead", "OpImageGather", "OpImageDrefGather", "OpImageSampleDrefImplicitLod", "OpImageSampleDrefExplicitLod", "OpImageWrite":
						k := 5
						switch name {
						case "OpImageGather", "OpImageDrefGather", "OpImageSampleDrefImplicitLod", "OpImageSampleDrefExplicitLod":
							k = 6
						case "OpImageWrite":
							k = 4
						}
						if len(w) > k {
							inc(fmt.Sprintf("imgops %s %#x", name, w[k]))
						}
					}
				}
			}
		}
	}
	var ks []string
	for k := range hist {
		ks = append(ks, k)
	}
	sort.Strings(ks)
	for _, k := range ks {
		fmt.Printf("%8d %s\n", hist[k], k)
	}
	sort.Ints(sizes)
	fmt.Println("modules", nmods, "insts", total, "max", maxN, "default sizes median", sizes[len(sizes)/2], "sum", func() int {
		s := 0
		for _, x := range sizes {
			s += x
		}
		return s
	}(), "n", len(sizes))
}
