// c17probe: development aid - render a C17 module description (JSON) or read a .wgsl, compile, print.
package main

import (
	"encoding/json"
	"fmt"
	"os"
	"strings"

	"github.com/gogpu/naga/glsl"
	"github.com/gogpu/naga/hlsl"
	"github.com/gogpu/naga/msl"

	"verif/harness/c17x"
	"verif/harness/drive"
)

func main() {
	b, _ := os.ReadFile(os.Args[1])
	src := string(b)
	if strings.HasSuffix(os.Args[1], ".json") {
		var m c17x.Module
		if err := json.Unmarshal(b, &m); err != nil {
			panic(err)
		}
		src = c17x.Render(&m)
		fmt.Println(src)
	}
	which := "all"
	if len(os.Args) > 2 {
		which = os.Args[2]
	}
	m, st, err := drive.Front(src)
	if err != nil {
		fmt.Println("ERR", st, err)
		return
	}
	if which == "all" || which == "hlsl" {
		s, info, err := hlsl.Compile(m, hlsl.DefaultOptions())
		fmt.Println("=== HLSL", err)
		fmt.Println(s)
		fmt.Printf("%+v\n", info)
	}
	if which == "all" || which == "msl" {
		s, info, err := msl.Compile(m, msl.DefaultOptions())
		fmt.Println("=== MSL", err)
		fmt.Println(s)
		fmt.Printf("%+v\n", info)
	}
	if which == "all" || which == "glsl" {
		for _, ep := range m.EntryPoints {
			o := glsl.DefaultOptions()
			o.EntryPoint = ep.Name
			o.LangVersion = glsl.Version450
			o.BindingMap = map[glsl.BindingMapKey]uint8{}
			for _, g := range m.GlobalVariables {
				if g.Binding != nil {
					o.BindingMap[glsl.BindingMapKey{Group: g.Binding.Group, Binding: g.Binding.Binding}] = uint8(10 + g.Binding.Group*4 + g.Binding.Binding)
				}
			}
			s, info, err := glsl.Compile(m, o)
			fmt.Println("=== GLSL", ep.Name, err)
			fmt.Println(s)
			fmt.Printf("%+v\n", info)
		}
	}
}
