// c15probe: development aid for C15 - shows one program of the Policy family, what a backend emits for it under a
// protective option set and what the executor does on one row.
//
//	c15probe list [substr]
//	c15probe show "<desc>" <backend> <pol> [row|class]
package main

import (
	"os"

	"verif/harness/checks"
)

func main() { os.Exit(checks.C15Dev(os.Args[1:])) }
