package spv

import (
	"bytes"
	"encoding/binary"
	"os"
	"path/filepath"
	"regexp"
	"sort"
	"strconv"
	"strings"
	"testing"

	"github.com/gogpu/naga/spirv"

	"verif/harness/xrt"
)

const corpusDir = "/repo/snapshot/testdata/in"

func corpusFiles(t testing.TB) []string {
	files, err := filepath.Glob(filepath.Join(corpusDir, "*.wgsl"))
	if err != nil || len(files) == 0 {
		t.Skipf("corpus not available: %v", err)
	}
	sort.Strings(files)
	return files
}

// TestOpNamesAgainstNaga cross-checks the opcode numbers of this package's
// table with the constants naga's code generator declares (parsed from its
// source text; the package is internal and cannot be imported).
func TestOpNamesAgainstNaga(t *testing.T) {
	srcs, _ := filepath.Glob("/repo/spirv/internal/codegen/*.go")
	re := regexp.MustCompile(`(?m)^\s*(?:const\s+)?(Op[A-Z]\w*)\s+OpCode\s*=\s*(\d+)`)
	// naga abbreviates a few names.
	alias := map[string]string{
		"OpAtomicCompareExch":           "OpAtomicCompareExchange",
		"OpImageSampleProjDrefImplicit": "OpImageSampleProjDrefImplicitLod",
		"OpImageSampleProjDrefExplicit": "OpImageSampleProjDrefExplicitLod",
		"OpSDotKHR":                     "OpSDot",
		"OpUDotKHR":                     "OpUDot",
	}
	n := 0
	for _, f := range srcs {
		if strings.HasSuffix(f, "_test.go") {
			continue
		}
		b, err := os.ReadFile(f)
		if err != nil {
			t.Skip(err)
		}
		for _, m := range re.FindAllStringSubmatch(string(b), -1) {
			num, _ := strconv.Atoi(m[2])
			want := m[1]
			if a, ok := alias[want]; ok {
				want = a
			}
			if got := OpName(uint16(num)); got != want {
				t.Errorf("opcode %d: naga calls it %s, OpName says %s", num, m[1], got)
			}
			n++
		}
	}
	if n < 150 {
		t.Errorf("only %d opcode constants found in naga's source", n)
	}
	t.Logf("%d opcode constants cross-checked", n)
}

// TestOpNamesSpec pins a sample of numbers straight from the specification.
func TestOpNamesSpec(t *testing.T) {
	for num, name := range map[uint16]string{
		0: "OpNop", 1: "OpUndef", 8: "OpLine", 12: "OpExtInst", 29: "OpTypeRuntimeArray", 52: "OpSpecConstantOp",
		63: "OpCopyMemory", 66: "OpInBoundsAccessChain", 78: "OpVectorInsertDynamic", 82: "OpCompositeInsert",
		83: "OpCopyObject", 124: "OpBitcast", 147: "OpOuterProduct", 148: "OpDot", 169: "OpSelect",
		201: "OpBitFieldInsert", 231: "OpAtomicCompareExchangeWeak", 245: "OpPhi", 246: "OpLoopMerge",
		247: "OpSelectionMerge", 255: "OpUnreachable", 400: "OpCopyLogical", 4416: "OpTerminateInvocation",
		9999: "Op9999",
	} {
		if got := OpName(num); got != name {
			t.Errorf("OpName(%d) = %s, want %s", num, got, name)
		}
	}
}

func TestDecodeErrors(t *testing.T) {
	good, err := assemble(trapPrelude+trapMain+"OpReturn\nOpFunctionEnd\n", 0x00010300)
	if err != nil {
		t.Fatal(err)
	}
	if _, err := Decode(good); err != nil {
		t.Fatalf("good module: %v", err)
	}
	cases := map[string][]byte{
		"empty":     nil,
		"odd":       good[:len(good)-1],
		"short":     good[:16],
		"truncated": good[:len(good)-4],
		"magic":     append([]byte{1, 2, 3, 4}, good[4:]...),
	}
	zeroWC := append([]byte(nil), good...)
	binary.LittleEndian.PutUint32(zeroWC[20:], 17) // word count 0
	cases["zero word count"] = zeroWC
	smallBound := append([]byte(nil), good...)
	binary.LittleEndian.PutUint32(smallBound[12:], 3)
	cases["bound too small"] = smallBound
	for name, b := range cases {
		if _, err := Decode(b); err == nil {
			t.Errorf("%s: Decode accepted a damaged module", name)
		}
		if out := Run(b, xrt.Input{Entry: "main"}); !strings.HasPrefix(out.Skip, "decode:") {
			t.Errorf("%s: Run gave %+v, want a decode skip", name, out)
		}
	}
	// Random garbage after a valid header must not panic.
	for seed := 0; seed < 200; seed++ {
		g := append([]byte(nil), good[:20]...)
		x := uint32(seed*2654435761 + 12345)
		for i := 0; i < 64; i++ {
			x = x*1664525 + 1013904223
			var w [4]byte
			binary.LittleEndian.PutUint32(w[:], x>>uint(seed%16))
			g = append(g, w[:]...)
		}
		_ = Run(g, xrt.Input{Entry: "main"})
	}
	// Flipping any single word of a good module must not panic either.
	for i := 5; i < len(good)/4; i++ {
		for _, v := range []uint32{0, 1, 0xffffffff, 0x00020000 | 61, 7} {
			g := append([]byte(nil), good...)
			binary.LittleEndian.PutUint32(g[4*i:], v)
			_ = Run(g, xrt.Input{Entry: "main", Buffers: map[string][]byte{"0.0": make([]byte, 16)}, MaxSteps: 1000})
		}
	}
}

// TestDisasmRoundTrip: Disasm output re-assembled by the test assembler must
// give back exactly the instruction stream, for the whole corpus.
func TestDisasmRoundTrip(t *testing.T) {
	files := corpusFiles(t)
	ok, fail := 0, 0
	for i, f := range files {
		src, _ := os.ReadFile(f)
		o := spirv.DefaultOptions()
		o.Version = []spirv.Version{spirv.Version1_0, spirv.Version1_3, spirv.Version1_4, spirv.Version1_6}[i%4]
		o.Debug = i%2 == 0
		bin, err := compileWGSL(string(src), o)
		if err != nil {
			continue
		}
		m, err := Decode(bin)
		if err != nil {
			t.Errorf("%s: Decode: %v", filepath.Base(f), err)
			fail++
			continue
		}
		text := Disasm(m)
		back, err := assemble(text, m.Version)
		if err != nil {
			t.Errorf("%s: re-assemble: %v", filepath.Base(f), err)
			fail++
			continue
		}
		if !bytes.Equal(back[20:], bin[20:]) {
			fail++
			// Find the first differing instruction.
			m2, _ := Decode(back)
			for k := range m.Insts {
				if m2 == nil || k >= len(m2.Insts) || !equalWords(m.Insts[k].Words, m2.Insts[k].Words) {
					t.Errorf("%s: round trip differs at instruction %d: %s", filepath.Base(f), k, m.DisasmInst(&m.Insts[k]))
					break
				}
			}
			continue
		}
		ok++
	}
	t.Logf("round trip: %d modules identical, %d failed", ok, fail)
	if ok == 0 {
		t.Errorf("no module round-tripped")
	}
}

func equalWords(a, b []uint32) bool {
	if len(a) != len(b) {
		return false
	}
	for i := range a {
		if a[i] != b[i] {
			return false
		}
	}
	return true
}

func TestResources(t *testing.T) {
	src := `
struct Inner { a: vec3<f32>, b: f32 }
struct S { m: mat3x2<f32>, arr: array<Inner, 2>, tail: array<vec2<u32>> }
@group(1) @binding(3) var<storage, read_write> s: S;
@group(0) @binding(0) var<uniform> u: mat4x4<f32>;
@group(0) @binding(1) var<storage, read> r: array<u32>;
@compute @workgroup_size(1) fn main() { s.tail[0].x = r[0] + u32(u[0][0]) + u32(s.m[0][0] + s.arr[0].b); }
`
	for _, v := range []spirv.Version{spirv.Version1_0, spirv.Version1_3} {
		o := spirv.DefaultOptions()
		o.Version = v
		o.Debug = true
		bin, err := compileWGSL(src, o)
		if err != nil {
			t.Fatal(err)
		}
		m, err := Decode(bin)
		if err != nil {
			t.Fatal(err)
		}
		rs := m.Resources()
		if len(rs) != 3 {
			t.Fatalf("got %d resources", len(rs))
		}
		bySlot := map[string]Resource{}
		for _, r := range rs {
			bySlot[r.Slot] = r
			t.Logf("v%d.%d %s sc=%d block=%v bufferblock=%v nw=%v %s", v.Major, v.Minor, r.Slot, r.StorageClass, r.Block, r.BufferBlock, r.NonWritable, r.Type)
		}
		s := bySlot["1.3"]
		if s.Type == nil || s.Type.Kind != KindStruct {
			t.Fatalf("1.3: %v", s.Type)
		}
		// naga may or may not wrap the struct; find the struct that has three members.
		st := s.Type
		if len(st.Members) == 1 && st.Members[0].Type.Kind == KindStruct {
			st = st.Members[0].Type
		}
		if len(st.Members) != 3 {
			t.Fatalf("S has %d members", len(st.Members))
		}
		m0, m1, m2 := st.Members[0], st.Members[1], st.Members[2]
		if !m0.HasOffset || m0.Offset != 0 || !m0.HasMatrixStride || m0.MatrixStride != 8 || !m0.ColMajor || m0.RowMajor {
			t.Errorf("member m: %+v", m0)
		}
		if m0.Type.Kind != KindMatrix || m0.Type.Count != 3 || m0.Type.Rows != 2 || m0.Type.Width != 32 {
			t.Errorf("member m type: %+v", m0.Type)
		}
		if !m1.HasOffset || m1.Offset != 32 || m1.Type.Kind != KindArray || m1.Type.Count != 2 || !m1.Type.HasArrayStride || m1.Type.ArrayStride != 16 {
			t.Errorf("member arr: %+v %+v", m1, m1.Type)
		}
		in := m1.Type.Elem
		if in.Kind != KindStruct || len(in.Members) != 2 || in.Members[1].Offset != 12 || in.Members[0].Type.Count != 3 {
			t.Errorf("Inner: %s", in)
		}
		if !m2.HasOffset || m2.Offset != 64 || m2.Type.Kind != KindRuntimeArray || m2.Type.ArrayStride != 8 {
			t.Errorf("member tail: %+v %+v", m2, m2.Type)
		}
		if r := bySlot["0.1"]; !r.NonWritable {
			t.Errorf("read-only storage buffer not NonWritable: %+v", r)
		}
		if u := bySlot["0.0"]; u.StorageClass != StorageUniform || !u.Block {
			t.Errorf("uniform: %+v", u)
		}
		if v == spirv.Version1_0 {
			if s.StorageClass != StorageUniform || !s.BufferBlock {
				t.Logf("note: SPIR-V 1.0 storage buffer emitted as sc=%d block=%v bufferblock=%v", s.StorageClass, s.Block, s.BufferBlock)
			}
		}
	}
}

// TestMutationRobustness mutates real modules at random and runs them: the
// executor must neither panic nor hang, whatever it is given.
func TestMutationRobustness(t *testing.T) {
	files := corpusFiles(t)
	internal := map[string]int{}
	runs := 0
	rng := uint32(12345)
	next := func() uint32 { rng = rng*1664525 + 1013904223; return rng >> 8 }
	for fi, f := range files {
		if fi%2 != 0 {
			continue
		}
		src, _ := os.ReadFile(f)
		o := spirv.DefaultOptions()
		o.Version = spirv.Version1_3
		bin, err := compileWGSL(string(src), o)
		if err != nil {
			continue
		}
		m, err := Decode(bin)
		if err != nil {
			continue
		}
		var entry string
		for _, ep := range m.EntryPoints {
			if ep.Model == 5 {
				entry = ep.Name
			}
		}
		if entry == "" {
			continue
		}
		for k := 0; k < 150; k++ {
			g := append([]byte(nil), bin...)
			nm := 1 + int(next()%3)
			for j := 0; j < nm; j++ {
				pos := 5 + int(next())%(len(g)/4-5)
				var v uint32
				switch next() % 4 {
				case 0:
					v = next() % 64
				case 1:
					v = binary.LittleEndian.Uint32(g[4*pos:]) ^ (1 << (next() % 32))
				case 2:
					v = binary.LittleEndian.Uint32(g[4*(5+int(next())%(len(g)/4-5)):])
				default:
					v = 0xffffffff
				}
				binary.LittleEndian.PutUint32(g[4*pos:], v)
			}
			bufs := map[string][]byte{}
			for _, r := range m.Resources() {
				if r.Slot != "" {
					bufs[r.Slot] = make([]byte, 256)
				}
			}
			out := Run(g, xrt.Input{Entry: entry, Buffers: bufs, MaxSteps: 20000})
			runs++
			if strings.HasPrefix(out.Skip, "internal:") {
				key := out.Skip
				if i := strings.Index(key, " ["); i > 0 {
					key = key[:i]
				}
				internal[key]++
			}
		}
	}
	t.Logf("%d mutated runs, %d distinct internal-error skips", runs, len(internal))
	for k, n := range internal {
		t.Logf("  x%d %s", n, k)
	}
}
