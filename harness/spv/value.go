package spv

import (
	"fmt"
	"math"
	"math/bits"
)

// Value kinds.
const (
	kNone      = 0
	kScalar    = 1 // bool, int or float; Bits holds the value
	kComposite = 2 // vector, matrix, array, struct; Elems holds the parts
	kPointer   = 3
)

// Value is a run-time SPIR-V value.  SSA values are immutable: composite
// operations build new Elems slices instead of writing into existing ones.
type Value struct {
	// Bits of a scalar: bool 0/1, integers zero-extended from their width,
	// floats as their IEEE encoding at their width.
	Bits  uint64
	Elems []Value
	Ptr   *Pointer
	K     uint8
	// Undef marks a scalar whose value SPIR-V leaves undefined (OpUndef,
	// uninitialised memory, shuffle component 0xFFFFFFFF).
	Undef bool
}

func scalar(b uint64) Value { return Value{K: kScalar, Bits: b} }

func boolVal(b bool) Value {
	if b {
		return Value{K: kScalar, Bits: 1}
	}
	return Value{K: kScalar}
}

func composite(e []Value) Value { return Value{K: kComposite, Elems: e} }

func widthMask(w int) uint64 {
	if w >= 64 {
		return ^uint64(0)
	}
	return 1<<uint(w) - 1
}

// sext sign-extends the low w bits of b.
func sext(b uint64, w int) int64 {
	if w >= 64 {
		return int64(b)
	}
	sh := uint(64 - w)
	return int64(b<<sh) >> sh
}

// deepCopy copies a value tree so that the copy shares no Elems slice with v.
func deepCopy(v Value) Value {
	if v.K != kComposite {
		return v
	}
	e := make([]Value, len(v.Elems))
	for i := range v.Elems {
		e[i] = deepCopy(v.Elems[i])
	}
	v.Elems = e
	return v
}

// anyUndef reports whether any scalar inside v is undefined.
func anyUndef(v Value) bool {
	switch v.K {
	case kScalar:
		return v.Undef
	case kComposite:
		for i := range v.Elems {
			if anyUndef(v.Elems[i]) {
				return true
			}
		}
	}
	return false
}

// zeroValue builds the null value of a type (OpConstantNull).
func (m *Module) zeroValue(t *Type) (Value, string) { return m.fillValue(t, false) }

// undefValue builds a value all of whose scalars are undefined.
func (m *Module) undefValue(t *Type) (Value, string) { return m.fillValue(t, true) }

// maxValueScalars bounds the size of a single value tree (a hostile module
// could otherwise ask for terabytes through nested array types).
const maxValueScalars = 1 << 22

func (m *Module) fillValue(t *Type, undef bool) (Value, string) {
	if n := m.scalarCount(t, 0); n < 0 || n > maxValueScalars {
		return Value{}, fmt.Sprintf("type %%%d is too large for a value (more than %d scalars)", t.ID, maxValueScalars)
	}
	return m.fillValue1(t, undef)
}

// scalarCount counts the scalars of a type, -1 when it exceeds the limit or is malformed.
func (m *Module) scalarCount(t *Type, depth int) int {
	if t == nil || depth > 64 {
		return 0
	}
	switch t.Kind {
	case KindVector, KindMatrix, KindArray:
		if t.Count < 0 {
			return 0
		}
		e := m.scalarCount(m.Types[t.Elem], depth+1)
		if e < 0 || (e > 0 && t.Count > maxValueScalars/e) {
			return -1
		}
		return e * t.Count
	case KindStruct:
		n := 0
		for _, mt := range t.Members {
			e := m.scalarCount(m.Types[mt], depth+1)
			if e < 0 || n+e > maxValueScalars {
				return -1
			}
			n += e
		}
		return n
	}
	return 1
}

func (m *Module) fillValue1(t *Type, undef bool) (Value, string) {
	if t == nil {
		return Value{}, "undeclared type"
	}
	switch t.Kind {
	case KindBool, KindInt, KindFloat:
		return Value{K: kScalar, Undef: undef}, ""
	case KindVector, KindMatrix, KindArray:
		if t.Count < 0 {
			return Value{}, fmt.Sprintf("array type %%%d has no usable length", t.ID)
		}
		et := m.Types[t.Elem]
		e := make([]Value, t.Count)
		if t.Count > 0 {
			first, err := m.fillValue1(et, undef)
			if err != "" {
				return Value{}, err
			}
			e[0] = first
			for i := 1; i < t.Count; i++ {
				e[i] = deepCopy(first)
			}
		}
		return composite(e), ""
	case KindStruct:
		e := make([]Value, len(t.Members))
		for i, mt := range t.Members {
			v, err := m.fillValue1(m.Types[mt], undef)
			if err != "" {
				return Value{}, err
			}
			e[i] = v
		}
		return composite(e), ""
	case KindPointer:
		if undef {
			return Value{K: kPointer}, ""
		}
		return Value{}, "null pointer"
	}
	return Value{}, fmt.Sprintf("type %%%d (%s) has no value representation", t.ID, OpName(t.Op))
}

// ---------------------------------------------------------------------------
// Floating point.  All float arithmetic is done by widening the operands to
// float64 (exact for binary16/32/64), performing ONE IEEE operation in
// float64, and rounding the result to the destination width.  For + - * /
// and sqrt this gives the correctly rounded binary32 / binary16 result
// (double rounding is innocuous because 53 >= 2*24+2).  Expressions are
// never written as a*b+c without an intermediate rounding, so the Go
// compiler cannot fuse them.

// toF widens the float encoded in b at width w.
func toF(b uint64, w int) float64 {
	switch w {
	case 32:
		return float64(math.Float32frombits(uint32(b)))
	case 64:
		return math.Float64frombits(b)
	case 16:
		return f16ToF64(uint16(b))
	}
	panic(skipErr(fmt.Sprintf("float width %d not supported", w)))
}

// fromF rounds f (round-to-nearest-even) to width w and returns the encoding.
func fromF(f float64, w int) uint64 {
	switch w {
	case 32:
		return uint64(math.Float32bits(float32(f)))
	case 64:
		return math.Float64bits(f)
	case 16:
		return uint64(f64ToF16(f))
	}
	panic(skipErr(fmt.Sprintf("float width %d not supported", w)))
}

// rnd rounds f to width w and widens it again.
func rnd(f float64, w int) float64 {
	switch w {
	case 32:
		return float64(float32(f))
	case 64:
		return float64(f) // explicit conversion: forbids fusing with a following add
	}
	return toF(fromF(f, w), w)
}

func f16ToF64(h uint16) float64 {
	sign := 1.0
	if h&0x8000 != 0 {
		sign = -1
	}
	e := int(h>>10) & 0x1f
	f := float64(h & 0x3ff)
	switch e {
	case 0:
		return sign * math.Ldexp(f, -24)
	case 31:
		if f == 0 {
			return sign * math.Inf(1)
		}
		return math.NaN()
	}
	return sign * math.Ldexp(1024+f, e-25)
}

// f64ToF16 rounds to binary16, round-to-nearest-even, with denormals and
// overflow to infinity.
func f64ToF16(f float64) uint16 {
	b := math.Float64bits(f)
	sign := uint16(b>>48) & 0x8000
	if f != f {
		return sign | 0x7e00
	}
	a := math.Abs(f)
	if math.IsInf(a, 0) {
		return sign | 0x7c00
	}
	if a == 0 {
		return sign
	}
	// Scale so that one unit is the binary16 ulp at this magnitude, round to
	// an integer with ties-to-even, rebuild.
	_, ex := math.Frexp(a) // a = fr * 2^ex, fr in [0.5,1)
	e := ex - 1            // a = (2fr) * 2^e, 2fr in [1,2)
	if e < -14 {
		e = -14 // denormal range: fixed ulp 2^-24
	}
	q := math.Ldexp(a, 10-e) // exact: power-of-two scaling of a float64 well inside range
	r := math.RoundToEven(q) // integer in [0, 2048]
	if e == -14 && r < 1024 {
		return sign | uint16(r) // denormal (or zero)
	}
	if r >= 2048 {
		r /= 2
		e++
	}
	if e > 15 {
		return sign | 0x7c00
	}
	return sign | uint16(e+15)<<10 | uint16(r)&0x3ff
}

// fmaRound computes a*b+c with a single rounding to width w (32 or 16), or
// float64 fma for w == 64.
func fmaRound(a, b, c float64, w int) float64 {
	if w == 64 {
		return math.FMA(a, b, c)
	}
	// a and b carry at most 24 significant bits: the product is exact in
	// float64.  The sum is rounded to odd in float64 and then to the target
	// width, which equals a single rounding of the exact result.
	p := float64(a * b)
	s := float64(p + c)
	if math.IsInf(s, 0) || s != s || s == 0 {
		return rnd(s, w)
	}
	bb := s - p
	err := (p - (s - bb)) + (c - bb)
	if err != 0 {
		sb := math.Float64bits(s)
		if sb&1 == 0 {
			if (err > 0) == (s > 0) {
				sb |= 1
			} else {
				sb--
			}
			s = math.Float64frombits(sb)
		}
	}
	return rnd(s, w)
}

func reverseBits(b uint64, w int) uint64 {
	return bits.Reverse64(b) >> uint(64-w)
}
