package spv

import (
	"fmt"
	"strings"
)

// Resource describes one OpVariable in the StorageBuffer, Uniform or
// PushConstant storage class exactly as the module decorates it.  Nothing is
// inferred: a decoration that is absent is reported as absent (Has* false),
// so that a layout checker can tell "missing" from "zero".
type Resource struct {
	VarID        uint32
	Name         string // OpName of the variable ("" without debug info)
	StorageClass uint32 // StorageUniform (2), StoragePushConstant (9) or StorageStorageBuffer (12)
	Set, Binding uint32
	HasSet       bool
	HasBinding   bool
	// Slot is the key Run uses into xrt.Input.Buffers: "<set>.<binding>", or
	// "push_constant"; "" when set or binding is missing.
	Slot string
	// NonWritable / NonReadable as decorated on the variable itself (member
	// decorations are in Type.Members).
	NonWritable bool
	NonReadable bool
	// Block / BufferBlock as decorated on the pointee struct type.
	// Uniform + BufferBlock is the pre-1.3 spelling of a storage buffer.
	Block       bool
	BufferBlock bool
	// Type is the pointee type of the variable.
	Type *TypeTree
}

// TypeTree is a type with its layout decorations, expanded recursively.
type TypeTree struct {
	ID   uint32
	Kind TypeKind
	Name string // OpName of the type id, if any

	// Scalars: Width/Signed.  Vectors and matrices: Width/Signed of the component.
	Width  int
	Signed bool
	// Count: vector components, matrix columns, array length; 0 for a runtime array.
	Count int
	// Rows: matrix rows (components of the column vector).
	Rows int

	// ArrayStride decoration of an array / runtime array type.
	ArrayStride    uint32
	HasArrayStride bool

	// Elem: array element, matrix column vector, vector component.
	Elem *TypeTree
	// Members of a struct.
	Members []MemberTree
}

// MemberTree is one struct member with its member decorations.
type MemberTree struct {
	Index           int
	Name            string // OpMemberName
	Offset          uint32
	HasOffset       bool
	MatrixStride    uint32
	HasMatrixStride bool
	ColMajor        bool
	RowMajor        bool
	NonWritable     bool
	NonReadable     bool
	Type            *TypeTree
}

// Resources lists every module-scope variable in the StorageBuffer, Uniform
// and PushConstant storage classes in declaration order.
func (m *Module) Resources() []Resource {
	var out []Resource
	for _, g := range m.Globals {
		if g.Storage != StorageStorageBuffer && g.Storage != StorageUniform && g.Storage != StoragePushConstant {
			continue
		}
		r := Resource{VarID: g.ID, Name: m.Names[g.ID], StorageClass: g.Storage}
		r.Set, r.HasSet = m.decorationWord(g.ID, DecDescriptorSet)
		r.Binding, r.HasBinding = m.decorationWord(g.ID, DecBinding)
		switch {
		case g.Storage == StoragePushConstant:
			r.Slot = "push_constant"
		case r.HasSet && r.HasBinding:
			r.Slot = fmt.Sprintf("%d.%d", r.Set, r.Binding)
		}
		_, r.NonWritable = m.decoration(g.ID, DecNonWritable)
		_, r.NonReadable = m.decoration(g.ID, DecNonReadable)
		if pt := m.Types[g.PtrType]; pt != nil && pt.Kind == KindPointer {
			_, r.Block = m.decoration(pt.Elem, DecBlock)
			_, r.BufferBlock = m.decoration(pt.Elem, DecBufferBlock)
			r.Type = m.typeTree(pt.Elem, 0)
		}
		out = append(out, r)
	}
	return out
}

func (m *Module) typeTree(id uint32, depth int) *TypeTree {
	t := m.Types[id]
	if t == nil || depth > 64 {
		return nil
	}
	tt := &TypeTree{ID: id, Kind: t.Kind, Name: m.Names[id]}
	switch t.Kind {
	case KindBool, KindInt, KindFloat:
		tt.Width, tt.Signed = t.Width, t.Signed
	case KindVector:
		tt.Count = t.Count
		tt.Elem = m.typeTree(t.Elem, depth+1)
		if tt.Elem != nil {
			tt.Width, tt.Signed = tt.Elem.Width, tt.Elem.Signed
		}
	case KindMatrix:
		tt.Count = t.Count
		tt.Elem = m.typeTree(t.Elem, depth+1)
		if tt.Elem != nil {
			tt.Rows, tt.Width, tt.Signed = tt.Elem.Count, tt.Elem.Width, tt.Elem.Signed
		}
	case KindArray, KindRuntimeArray:
		if t.Kind == KindArray {
			tt.Count = t.Count
		}
		tt.ArrayStride, tt.HasArrayStride = m.decorationWord(id, DecArrayStride)
		tt.Elem = m.typeTree(t.Elem, depth+1)
	case KindStruct:
		for i, mt := range t.Members {
			mi := uint32(i)
			mem := MemberTree{Index: i, Name: m.MemberNames[id][mi], Type: m.typeTree(mt, depth+1)}
			mem.Offset, mem.HasOffset = m.memberDecorationWord(id, mi, DecOffset)
			mem.MatrixStride, mem.HasMatrixStride = m.memberDecorationWord(id, mi, DecMatrixStride)
			_, mem.ColMajor = m.memberDecoration(id, mi, DecColMajor)
			_, mem.RowMajor = m.memberDecoration(id, mi, DecRowMajor)
			_, mem.NonWritable = m.memberDecoration(id, mi, DecNonWritable)
			_, mem.NonReadable = m.memberDecoration(id, mi, DecNonReadable)
			tt.Members = append(tt.Members, mem)
		}
	}
	return tt
}

// String renders the tree on one line, e.g.
// "struct{@0 vec3<f32>; @16 array<mat2x2<f32> stride=16 col, 4 stride=32>}".
func (t *TypeTree) String() string {
	if t == nil {
		return "?"
	}
	sc := func(t *TypeTree) string {
		switch t.Kind {
		case KindBool:
			return "bool"
		case KindFloat:
			return fmt.Sprintf("f%d", t.Width)
		case KindInt:
			if t.Signed {
				return fmt.Sprintf("i%d", t.Width)
			}
			return fmt.Sprintf("u%d", t.Width)
		}
		return t.Kind.String()
	}
	switch t.Kind {
	case KindBool, KindInt, KindFloat:
		return sc(t)
	case KindVector:
		return fmt.Sprintf("vec%d<%s>", t.Count, sc(t.Elem))
	case KindMatrix:
		e := "?"
		if t.Elem != nil && t.Elem.Elem != nil {
			e = sc(t.Elem.Elem)
		}
		return fmt.Sprintf("mat%dx%d<%s>", t.Count, t.Rows, e)
	case KindArray, KindRuntimeArray:
		s := "array<" + t.Elem.String()
		if t.Kind == KindArray {
			s += fmt.Sprintf(", %d", t.Count)
		}
		if t.HasArrayStride {
			s += fmt.Sprintf(" stride=%d", t.ArrayStride)
		} else {
			s += " stride=none"
		}
		return s + ">"
	case KindStruct:
		var parts []string
		for _, mb := range t.Members {
			p := "@none "
			if mb.HasOffset {
				p = fmt.Sprintf("@%d ", mb.Offset)
			}
			p += mb.Type.String()
			if mb.HasMatrixStride {
				p += fmt.Sprintf(" matstride=%d", mb.MatrixStride)
			}
			if mb.ColMajor {
				p += " col"
			}
			if mb.RowMajor {
				p += " row"
			}
			parts = append(parts, p)
		}
		return "struct{" + strings.Join(parts, "; ") + "}"
	}
	return t.Kind.String()
}
