package spv

import (
	"bytes"
	"strings"
	"testing"

	"github.com/gogpu/naga/spirv"

	"verif/harness/xrt"
)

// The programs below have a well-defined WGSL result, but the pinned naga
// tree emits SPIR-V that either leaves the result undefined (the executor
// traps), computes something else, or fails to compile.  The tests do not
// pin naga's defect: they pass when naga is fixed (result == want) and when
// the executor reports the defect in the expected way; they fail only if the
// executor itself misbehaves (internal skip, wrong kind of report).

type findingCase struct {
	name      string
	src       string
	bufs      map[string][]byte
	want      map[string][]byte
	opts      *spirv.Options
	trapHas   string // acceptable trap substring while naga is defective
	mayDiffer bool   // a plain wrong value is an acceptable report
}

func runFinding(t *testing.T, c findingCase) {
	t.Helper()
	o := spirv.DefaultOptions()
	o.Version = spirv.Version1_3
	if c.opts != nil {
		o = *c.opts
	}
	bin, err := compileWGSL(c.src, o)
	if err != nil {
		t.Logf("FINDING %s: naga does not compile it: %v", c.name, err)
		return
	}
	bufs := cloneBufs(c.bufs)
	out := Run(bin, xrt.Input{Entry: "main", Buffers: bufs})
	switch {
	case out.Skip != "":
		t.Errorf("%s: executor skipped: %s", c.name, out.Skip)
	case out.Trap != "":
		if c.trapHas == "" || !strings.Contains(out.Trap, c.trapHas) {
			t.Errorf("%s: unexpected trap %q (expected one containing %q)", c.name, out.Trap, c.trapHas)
			return
		}
		t.Logf("FINDING %s: emitted SPIR-V is undefined: %s", c.name, out.Trap)
	default:
		for k, w := range c.want {
			if !bytes.Equal(bufs[k], w) {
				if !c.mayDiffer {
					t.Errorf("%s: buffer %s got %s want %s", c.name, k, words(bufs[k]), words(w))
					return
				}
				t.Logf("FINDING %s: buffer %s got %s, WGSL requires %s", c.name, k, words(bufs[k]), words(w))
				return
			}
		}
		t.Logf("ok %s: result matches WGSL semantics", c.name)
	}
}

func TestNagaFindings(t *testing.T) {
	restrict := spirv.DefaultOptions()
	restrict.Version = spirv.Version1_3
	restrict.BoundsCheckPolicies.Index = spirv.BoundsCheckRestrict
	rzsw := restrict
	rzsw.BoundsCheckPolicies.Index = spirv.BoundsCheckReadZeroSkipWrite
	policySrc := `
struct S { arr: array<u32, 4>, tail: u32 }
@group(0) @binding(0) var<storage, read_write> s: S;
@group(0) @binding(1) var<storage, read_write> r: array<u32>;
@group(0) @binding(2) var<storage, read> b: array<u32>;
@compute @workgroup_size(1) fn main() {
  let i = b[0];
  s.arr[i] = 5u;
  r[i] = 6u;
  s.tail = s.arr[i] + r[i] + 1u;
}`
	for _, c := range []findingCase{
		{
			name: "private-initializer", // var<private> pv: i32 = 3 -> OpVariable without initializer
			src: hdrOA + `
var<private> pv: i32 = 3;
@compute @workgroup_size(1) fn main() { o[0] = bitcast<u32>(pv + a[0]); }`,
			bufs: map[string][]byte{"0.0": zeros(4), "0.1": i32s(4)}, want: map[string][]byte{"0.0": u32s(7)},
			trapHas: "undefined value",
		},
		{
			name: "private-zero-init", // var<private> without initializer must be zero
			src: hdrOA + `
var<private> pz: vec2<u32>;
@compute @workgroup_size(1) fn main() { o[0] = pz.y + b[0]; }`,
			bufs: map[string][]byte{"0.0": zeros(4), "0.2": u32s(4)}, want: map[string][]byte{"0.0": u32s(4)},
			trapHas: "undefined value",
		},
		{
			name: "function-var-zero-init", // var x: u32; must be zero
			src: hdrOA + `
@compute @workgroup_size(1) fn main() { var x: u32; var arr: array<u32, 2>; o[0] = x + arr[1] + b[0]; }`,
			bufs: map[string][]byte{"0.0": zeros(4), "0.2": u32s(4)}, want: map[string][]byte{"0.0": u32s(4)},
			trapHas: "undefined value",
		},
		{
			name: "float-modulo-sign", // -5.5 % 2.0 = -1.5 (truncated); OpFMod gives 0.5
			src: hdrOA + `
@compute @workgroup_size(1) fn main() { o[0] = bitcast<u32>(f[0] % f[1]); }`,
			bufs: map[string][]byte{"0.0": zeros(4), "0.3": f32s(-5.5, 2)}, want: map[string][]byte{"0.0": f32s(-1.5)},
			mayDiffer: true,
		},
		{
			name: "u32-of-negative-float", // u32(-1.5) = 0 ; raw OpConvertFToU is undefined
			src: hdrOA + `
@compute @workgroup_size(1) fn main() { o[0] = u32(f[0]); }`,
			bufs: map[string][]byte{"0.0": u32s(9), "0.3": f32s(-1.5)}, want: map[string][]byte{"0.0": u32s(0)},
			trapHas: "OpConvertFToU",
		},
		{
			name: "i32-of-nan", // i32(NaN) = 0 in WGSL
			src: hdrOA + `
@compute @workgroup_size(1) fn main() { o[0] = bitcast<u32>(i32(f[0] / f[0])); }`,
			bufs: map[string][]byte{"0.0": u32s(9), "0.3": f32s(0)}, want: map[string][]byte{"0.0": u32s(0)},
			trapHas: "OpConvertFToS",
		},
		{
			name: "extractBits-clamp", // offset+count > 32 must clamp: extractBits(~0, 28, 8) = 0xf
			src: hdrOA + `
@compute @workgroup_size(1) fn main() { o[0] = extractBits(b[0], b[1], b[2]); }`,
			bufs: map[string][]byte{"0.0": zeros(4), "0.2": u32s(0xffffffff, 28, 8)}, want: map[string][]byte{"0.0": u32s(0xf)},
			trapHas: "OpBitFieldUExtract",
		},
		{
			name: "insertBits-clamp", // insertBits(0, ~0, 30, 8) = 0xc0000000
			src: hdrOA + `
@compute @workgroup_size(1) fn main() { o[0] = insertBits(b[3], b[0], b[1], b[2]); }`,
			bufs: map[string][]byte{"0.0": zeros(4), "0.2": u32s(0xffffffff, 30, 8, 0)}, want: map[string][]byte{"0.0": u32s(0xc0000000)},
			trapHas: "OpBitFieldInsert",
		},
		{
			name: "countLeadingZeros", // clz(0xf0)=24 clz(0)=32 clz(0x80000000)=0
			src: hdrOA + `
@compute @workgroup_size(1) fn main() { o[0] = countLeadingZeros(b[0]); o[1] = countLeadingZeros(b[1]); o[2] = countLeadingZeros(b[2]); }`,
			bufs: map[string][]byte{"0.0": zeros(12), "0.2": u32s(0xf0, 0, 0x80000000)}, want: map[string][]byte{"0.0": u32s(24, 32, 0)},
			mayDiffer: true,
		},
		{
			name: "countTrailingZeros-of-zero", // ctz(0) = 32
			src: hdrOA + `
@compute @workgroup_size(1) fn main() { o[0] = countTrailingZeros(b[0]); o[1] = countTrailingZeros(b[1]); }`,
			bufs: map[string][]byte{"0.0": zeros(8), "0.2": u32s(0, 8)}, want: map[string][]byte{"0.0": u32s(32, 3)},
			mayDiffer: true,
		},
		{
			name: "switch-then-code", // code after a switch some of whose arms return is dropped (OpUnreachable)
			src: hdrOA + `
fn g(x: u32) -> u32 {
  switch x { case 1u: { return 11u; } case 2u: { } default: { return 33u; } }
  return 22u;
}
@compute @workgroup_size(1) fn main() { o[0] = g(b[0]); }`,
			bufs: map[string][]byte{"0.0": zeros(4), "0.2": u32s(2)}, want: map[string][]byte{"0.0": u32s(22)},
			trapHas: "OpUnreachable",
		},
		{
			name: "switch-in-loop-then-code", // as above inside a loop, with a breaking arm
			src: hdrOA + `
fn g(x: u32) -> u32 {
  var guard = 0u;
  loop {
    switch x { case 1u: { return 11u; } case 2u: { break; } default: { return 33u; } }
    guard++;
    if guard > 0u { return 22u; }
  }
  return 44u;
}
@compute @workgroup_size(1) fn main() { o[0] = g(b[0]); }`,
			bufs: map[string][]byte{"0.0": zeros(4), "0.2": u32s(2)}, want: map[string][]byte{"0.0": u32s(22)},
			trapHas: "OpUnreachable",
		},
		{
			name: "switch-default-break-then-end", // function falls off the end after switch { default: { break; } }
			src: hdrOA + `
fn g(i: i32) { switch i { default: { break; } } }
@compute @workgroup_size(1) fn main() { g(a[0]); o[0] = 5u; }`,
			bufs: map[string][]byte{"0.0": zeros(4), "0.1": i32s(1)}, want: map[string][]byte{"0.0": u32s(5)},
			trapHas: "OpUnreachable",
		},
		{
			name: "shift-count-masked", // 1u << 33u (runtime) = 1u << (33 & 31) = 2
			src: hdrOA + `
@compute @workgroup_size(1) fn main() { o[0] = b[0] << b[1]; o[1] = b[2] >> b[1]; }`,
			bufs: map[string][]byte{"0.0": zeros(8), "0.2": u32s(1, 33, 8)}, want: map[string][]byte{"0.0": u32s(2, 4)},
			trapHas: "shift count 33",
		},
		{
			name: "all-any", // all()/any() on bool vectors
			src: hdrOA + `
@compute @workgroup_size(1) fn main() {
  let v = vec2<u32>(b[0], b[1]) == vec2<u32>(1u, 1u);
  o[0] = u32(all(v)) + 2u * u32(any(v));
}`,
			bufs: map[string][]byte{"0.0": zeros(4), "0.2": u32s(1, 2)}, want: map[string][]byte{"0.0": u32s(2)},
		},
		{
			name: "compound-assign-through-pointer-param",
			src: hdrOA + `
fn inc(p: ptr<function, u32>, by: u32) { *p += by; }
@compute @workgroup_size(1) fn main() { var x = b[0]; inc(&x, 4u); o[0] = x; }`,
			bufs: map[string][]byte{"0.0": zeros(4), "0.2": u32s(3)}, want: map[string][]byte{"0.0": u32s(7)},
		},
		{
			name: "storage-pointer-param",
			src: hdrOA + `
fn put(p: ptr<storage, u32, read_write>, v: u32) { *p = *p + v; }
@compute @workgroup_size(1) fn main() { put(&o[1], b[0]); }`,
			bufs: map[string][]byte{"0.0": u32s(0, 40), "0.2": u32s(2)}, want: map[string][]byte{"0.0": u32s(0, 42)},
		},
		{
			name: "index-policy-restrict", // index 9 clamps to 3 (array) / 2 (runtime array of 3): tail = 5+6+1
			src:  policySrc, opts: &restrict,
			bufs:    map[string][]byte{"0.0": zeros(20), "0.1": zeros(12), "0.2": u32s(9)},
			want:    map[string][]byte{"0.0": u32s(0, 0, 0, 5, 12), "0.1": u32s(0, 0, 6)},
			trapHas: "out-of-bounds access chain index 9 of 4",
		},
		{
			name: "index-policy-read-zero-skip-write", // writes skipped, reads zero: tail = 1
			src:  policySrc, opts: &rzsw,
			bufs:    map[string][]byte{"0.0": zeros(20), "0.1": zeros(12), "0.2": u32s(9)},
			want:    map[string][]byte{"0.0": u32s(0, 0, 0, 0, 1), "0.1": zeros(12)},
			trapHas: "out-of-bounds access chain index 9 of 4",
		},
		{
			name: "workgroup-var-nonzero-local-id-free", // sanity: workgroup zero-init is visible to invocation 0
			src: `
@group(0) @binding(0) var<storage, read_write> o: array<u32>;
var<workgroup> w: array<u32, 2>;
@compute @workgroup_size(1) fn main() { o[0] = w[1] + 3u; }`,
			bufs: map[string][]byte{"0.0": zeros(4)}, want: map[string][]byte{"0.0": u32s(3)},
		},
	} {
		runFinding(t, c)
	}
}
