package spv

import (
	"encoding/binary"
	"fmt"
	"math"
	"strconv"
	"strings"
)

// A small text assembler used only by the tests: it reads the syntax Disasm
// prints ("%id = OpName operands", ids may be symbolic like %main) and walks
// the same operand grammar table as the disassembler.

type assembler struct {
	ids   map[string]uint32
	next  uint32
	insts [][]uint32
	types map[uint32][2]uint32 // result id of OpTypeInt/OpTypeFloat -> (kind 1 int/2 float, width)
	tyOf  map[uint32]uint32    // result id -> result type
	imps  map[uint32]string
}

func reverse(m map[uint32]string) map[string]uint32 {
	r := map[string]uint32{}
	for k, v := range m {
		r[v] = k
	}
	return r
}

var (
	opByName        = map[string]uint16{}
	storageByName   = reverse(storageClassNames)
	decorByName     = reverse(decorationNames)
	builtinByName   = reverse(builtInNames)
	modelByName     = reverse(executionModelNames)
	modeByName      = reverse(executionModeNames)
	capByName       = reverse(capabilityNames)
	glslByName      = reverse(glslNames)
	addrByName      = map[string]uint32{"Logical": 0, "Physical32": 1, "Physical64": 2}
	memModelByName  = map[string]uint32{"Simple": 0, "GLSL450": 1, "OpenCL": 2, "Vulkan": 3}
	maskNamesByKind = map[byte][]string{
		'F': {"Inline", "DontInline", "Pure", "Const"},
		'M': {"Volatile", "Aligned", "Nontemporal", "MakePointerAvailable", "MakePointerVisible", "NonPrivatePointer"},
		'm': {"Bias", "Lod", "Grad", "ConstOffset", "Offset", "ConstOffsets", "Sample", "MinLod"},
		'L': {"Unroll", "DontUnroll", "DependencyInfinite", "DependencyLength", "MinIterations", "MaxIterations", "IterationMultiple", "PeelCount", "PartialCount"},
		'K': {"Flatten", "DontFlatten"},
	}
)

func init() {
	for op, info := range opTable {
		opByName["Op"+info.name] = op
	}
}

func tokenize(line string) ([]string, error) {
	var toks []string
	for i := 0; i < len(line); {
		c := line[i]
		switch {
		case c == ' ' || c == '\t':
			i++
		case c == ';':
			return toks, nil
		case c == '"':
			j := i + 1
			for j < len(line) && line[j] != '"' {
				if line[j] == '\\' {
					j++
				}
				j++
			}
			if j >= len(line) {
				return nil, fmt.Errorf("unterminated string in %q", line)
			}
			toks = append(toks, line[i:j+1])
			i = j + 1
		default:
			j := i
			for j < len(line) && line[j] != ' ' && line[j] != '\t' {
				j++
			}
			toks = append(toks, line[i:j])
			i = j
		}
	}
	return toks, nil
}

func encodeString(s string) []uint32 {
	b := append([]byte(s), 0)
	for len(b)%4 != 0 {
		b = append(b, 0)
	}
	w := make([]uint32, len(b)/4)
	for i := range w {
		w[i] = binary.LittleEndian.Uint32(b[4*i:])
	}
	return w
}

func (a *assembler) id(tok string) (uint32, error) {
	if !strings.HasPrefix(tok, "%") {
		return 0, fmt.Errorf("expected an id, got %q", tok)
	}
	name := tok[1:]
	if n, err := strconv.ParseUint(name, 10, 32); err == nil {
		// Numeric ids keep their number (round-trip of Disasm output).
		if uint32(n) >= a.next {
			a.next = uint32(n) + 1
		}
		return uint32(n), nil
	}
	if v, ok := a.ids[name]; ok {
		return v, nil
	}
	return 0, fmt.Errorf("symbolic id %%%s not pre-assigned", name)
}

func parseMask(tok string, names []string) (uint32, error) {
	if tok == "None" {
		return 0, nil
	}
	var v uint32
	for _, p := range strings.Split(tok, "|") {
		found := false
		for i, n := range names {
			if n == p {
				v |= 1 << uint(i)
				found = true
			}
		}
		if !found {
			x, err := strconv.ParseUint(p, 0, 32)
			if err != nil {
				return 0, fmt.Errorf("bad mask %q", tok)
			}
			v |= uint32(x)
		}
	}
	return v, nil
}

func parseLit(tok string) (uint32, error) {
	if x, err := strconv.ParseUint(tok, 0, 32); err == nil {
		return uint32(x), nil
	}
	if x, err := strconv.ParseInt(tok, 0, 64); err == nil {
		return uint32(x), nil
	}
	return 0, fmt.Errorf("bad literal %q", tok)
}

func enumOrLit(tab map[string]uint32, tok string) (uint32, error) {
	if v, ok := tab[tok]; ok {
		return v, nil
	}
	return parseLit(tok)
}

// constWords encodes the literal of an OpConstant of the given type.
func (a *assembler) constWords(typeID uint32, tok string) ([]uint32, error) {
	kw := a.types[typeID]
	// Disasm prints floats as value(0xbits): the bits are authoritative.
	if i := strings.Index(tok, "(0x"); i >= 0 && strings.HasSuffix(tok, ")") {
		b, err := strconv.ParseUint(tok[i+3:len(tok)-1], 16, 64)
		if err != nil {
			return nil, err
		}
		if kw[1] > 32 {
			return []uint32{uint32(b), uint32(b >> 32)}, nil
		}
		return []uint32{uint32(b)}, nil
	}
	if kw[0] == 2 {
		f, err := strconv.ParseFloat(tok, 64)
		if err != nil {
			return nil, err
		}
		switch kw[1] {
		case 32:
			return []uint32{math.Float32bits(float32(f))}, nil
		case 64:
			b := math.Float64bits(f)
			return []uint32{uint32(b), uint32(b >> 32)}, nil
		case 16:
			return []uint32{uint32(f64ToF16(f))}, nil
		}
	}
	var b uint64
	if x, err := strconv.ParseUint(tok, 0, 64); err == nil {
		b = x
	} else if x, err := strconv.ParseInt(tok, 0, 64); err == nil {
		b = uint64(x)
	} else {
		return nil, fmt.Errorf("bad constant literal %q", tok)
	}
	if kw[1] > 32 {
		return []uint32{uint32(b), uint32(b >> 32)}, nil
	}
	if kw[1] < 32 && kw[1] > 0 {
		// Narrow literals: sign-extend signed negatives as the spec asks; keeping
		// the 32-bit two's complement does that.
		return []uint32{uint32(int32(int64(b)))}, nil
	}
	return []uint32{uint32(b)}, nil
}

// assemble turns text into a binary.  version is e.g. 0x00010300.
func assemble(text string, version uint32) ([]byte, error) {
	a := &assembler{ids: map[string]uint32{}, next: 1, types: map[uint32][2]uint32{}, tyOf: map[uint32]uint32{}, imps: map[uint32]string{}}
	lines := strings.Split(text, "\n")
	// Pre-assign symbolic ids after the largest numeric id.
	var maxNum uint32
	var symbolic []string
	seen := map[string]bool{}
	for _, l := range lines {
		toks, err := tokenize(l)
		if err != nil {
			return nil, err
		}
		for _, t := range toks {
			if strings.HasPrefix(t, "%") {
				if n, err := strconv.ParseUint(t[1:], 10, 32); err == nil {
					maxNum = max(maxNum, uint32(n))
				} else if !seen[t[1:]] {
					seen[t[1:]] = true
					symbolic = append(symbolic, t[1:])
				}
			}
		}
	}
	a.next = maxNum + 1
	for _, s := range symbolic {
		a.ids[s] = a.next
		a.next++
	}
	for ln, l := range lines {
		toks, err := tokenize(l)
		if err != nil {
			return nil, err
		}
		if len(toks) == 0 {
			continue
		}
		var res uint32
		if len(toks) >= 3 && toks[1] == "=" {
			if res, err = a.id(toks[0]); err != nil {
				return nil, fmt.Errorf("line %d: %v", ln+1, err)
			}
			toks = toks[2:]
		}
		op, ok := opByName[toks[0]]
		if !ok {
			return nil, fmt.Errorf("line %d: unknown opcode %s", ln+1, toks[0])
		}
		w, err := a.encode(op, res, toks[1:])
		if err != nil {
			return nil, fmt.Errorf("line %d (%s): %v", ln+1, l, err)
		}
		a.insts = append(a.insts, w)
	}
	out := []uint32{magic, version, 0, a.next, 0}
	for _, w := range a.insts {
		out = append(out, w...)
	}
	b := make([]byte, 4*len(out))
	for i, x := range out {
		binary.LittleEndian.PutUint32(b[4*i:], x)
	}
	return b, nil
}

func (a *assembler) encode(op uint16, res uint32, toks []string) ([]uint32, error) {
	f := opTable[op].fmt
	w := []uint32{0}
	t := 0
	var resType uint32
	more := func() bool { return t < len(toks) }
	nextTok := func() (string, error) {
		if t >= len(toks) {
			return "", fmt.Errorf("missing operand")
		}
		t++
		return toks[t-1], nil
	}
	pushID := func() error {
		s, err := nextTok()
		if err != nil {
			return err
		}
		v, err := a.id(s)
		if err != nil {
			return err
		}
		w = append(w, v)
		return nil
	}
	pushLit := func() error {
		s, err := nextTok()
		if err != nil {
			return err
		}
		v, err := parseLit(s)
		if err != nil {
			return err
		}
		w = append(w, v)
		return nil
	}
	pushEnum := func(tab map[string]uint32) (uint32, error) {
		s, err := nextTok()
		if err != nil {
			return 0, err
		}
		v, err := enumOrLit(tab, s)
		if err != nil {
			return 0, err
		}
		w = append(w, v)
		return v, nil
	}
	for k := 0; k < len(f); k++ {
		c := f[k]
		switch c {
		case 't':
			if err := pushID(); err != nil {
				return nil, err
			}
			resType = w[len(w)-1]
		case 'r':
			if res == 0 {
				return nil, fmt.Errorf("missing result id")
			}
			w = append(w, res)
			a.tyOf[res] = resType
		case 'i':
			if err := pushID(); err != nil {
				return nil, err
			}
		case 'o':
			if more() {
				if err := pushID(); err != nil {
					return nil, err
				}
			}
		case 'I':
			for more() {
				if err := pushID(); err != nil {
					return nil, err
				}
			}
		case 'n':
			if err := pushLit(); err != nil {
				return nil, err
			}
		case 'N':
			for more() {
				if err := pushLit(); err != nil {
					return nil, err
				}
			}
		case 's', 'z':
			if c == 'z' && !more() {
				break
			}
			s, err := nextTok()
			if err != nil {
				return nil, err
			}
			u, err := strconv.Unquote(s)
			if err != nil {
				return nil, fmt.Errorf("bad string %s", s)
			}
			w = append(w, encodeString(u)...)
		case 'c':
			s, err := nextTok()
			if err != nil {
				return nil, err
			}
			cw, err := a.constWords(resType, s)
			if err != nil {
				return nil, err
			}
			w = append(w, cw...)
		case 'S':
			if _, err := pushEnum(storageByName); err != nil {
				return nil, err
			}
		case 'D', 'd':
			dec, err := pushEnum(decorByName)
			if err != nil {
				return nil, err
			}
			for more() {
				switch {
				case c == 'd':
					err = pushID()
				case op == opDecorateString || op == opMemberDecorateString:
					var s string
					s, err = nextTok()
					if err == nil {
						var u string
						u, err = strconv.Unquote(s)
						w = append(w, encodeString(u)...)
					}
				case dec == DecBuiltIn:
					_, err = pushEnum(builtinByName)
				default:
					err = pushLit()
				}
				if err != nil {
					return nil, err
				}
			}
		case 'E':
			if _, err := pushEnum(modelByName); err != nil {
				return nil, err
			}
		case 'X', 'x':
			if _, err := pushEnum(modeByName); err != nil {
				return nil, err
			}
			for more() {
				var err error
				if c == 'x' {
					err = pushID()
				} else {
					err = pushLit()
				}
				if err != nil {
					return nil, err
				}
			}
		case 'C':
			if _, err := pushEnum(capByName); err != nil {
				return nil, err
			}
		case 'A':
			if _, err := pushEnum(addrByName); err != nil {
				return nil, err
			}
		case 'Y':
			if _, err := pushEnum(memModelByName); err != nil {
				return nil, err
			}
		case 'F', 'L', 'K':
			s, err := nextTok()
			if err != nil {
				return nil, err
			}
			v, err := parseMask(s, maskNamesByKind[c])
			if err != nil {
				return nil, err
			}
			w = append(w, v)
		case 'M', 'm':
			if !more() {
				break
			}
			s, _ := nextTok()
			v, err := parseMask(s, maskNamesByKind[c])
			if err != nil {
				return nil, err
			}
			w = append(w, v)
			if c == 'M' && v&2 != 0 {
				if err := pushLit(); err != nil {
					return nil, err
				}
			}
			for more() {
				if err := pushID(); err != nil {
					return nil, err
				}
			}
		case 'p':
			lw := 1
			if kw := a.types[a.tyOf[w[1]]]; kw[1] > 32 {
				lw = 2
			}
			for more() {
				s, _ := nextTok()
				v, err := strconv.ParseUint(s, 0, 64)
				if err != nil {
					sv, err2 := strconv.ParseInt(s, 0, 64)
					if err2 != nil {
						return nil, fmt.Errorf("bad switch literal %q", s)
					}
					v = uint64(sv)
				}
				w = append(w, uint32(v))
				if lw == 2 {
					w = append(w, uint32(v>>32))
				}
				if err := pushID(); err != nil {
					return nil, err
				}
			}
		case 'k':
			s, err := nextTok()
			if err != nil {
				return nil, err
			}
			inner, ok := opByName["Op"+s]
			if !ok {
				return nil, fmt.Errorf("unknown spec-constant opcode %s", s)
			}
			w = append(w, uint32(inner))
			for more() {
				if strings.HasPrefix(toks[t], "%") {
					err = pushID()
				} else {
					err = pushLit()
				}
				if err != nil {
					return nil, err
				}
			}
		case 'e':
			if a.imps[w[len(w)-1]] == "GLSL.std.450" {
				if _, err := pushEnum(glslByName); err != nil {
					return nil, err
				}
			} else if err := pushLit(); err != nil {
				return nil, err
			}
		}
	}
	if more() {
		return nil, fmt.Errorf("extra operands %v", toks[t:])
	}
	switch op {
	case opTypeInt:
		a.types[res] = [2]uint32{1, w[2]}
	case opTypeFloat:
		a.types[res] = [2]uint32{2, w[2]}
	case opExtInstImport:
		s, _ := decodeString(w[2:])
		a.imps[res] = s
	}
	w[0] = uint32(len(w))<<16 | uint32(op)
	return w, nil
}
