package spv

import (
	"bytes"
	"encoding/binary"
	"fmt"
	"math"
	"testing"

	"github.com/gogpu/naga"
	"github.com/gogpu/naga/spirv"

	"verif/harness/xrt"
)

type config struct {
	name string
	opts spirv.Options
}

// configs are the naga option sets every end-to-end test is run under.
func configs() []config {
	var out []config
	for _, v := range []spirv.Version{spirv.Version1_0, spirv.Version1_3, spirv.Version1_4, spirv.Version1_6} {
		for _, dbg := range []bool{false, true} {
			o := spirv.DefaultOptions()
			o.Version = v
			o.Debug = dbg
			out = append(out, config{fmt.Sprintf("v%d.%d/debug=%v", v.Major, v.Minor, dbg), o})
		}
	}
	// The zero Options value (no loop bounding, no ray query tracking) and
	// index bounds-check policies.
	out = append(out, config{"zero-options-1.3", spirv.Options{Version: spirv.Version1_3}})
	r := spirv.DefaultOptions()
	r.Version = spirv.Version1_3
	r.BoundsCheckPolicies.Index = spirv.BoundsCheckRestrict
	out = append(out, config{"restrict", r})
	z := spirv.DefaultOptions()
	z.Version = spirv.Version1_5
	z.BoundsCheckPolicies.Index = spirv.BoundsCheckReadZeroSkipWrite
	out = append(out, config{"rzsw-1.5", z})
	return out
}

func compileWGSL(src string, opts spirv.Options) ([]byte, error) {
	ast, err := naga.Parse(src)
	if err != nil {
		return nil, fmt.Errorf("parse: %w", err)
	}
	m, err := naga.LowerWithSource(ast, src)
	if err != nil {
		return nil, fmt.Errorf("lower: %w", err)
	}
	return naga.GenerateSPIRV(m, opts)
}

func u32s(v ...uint32) []byte {
	b := make([]byte, 4*len(v))
	for i, x := range v {
		binary.LittleEndian.PutUint32(b[4*i:], x)
	}
	return b
}

func i32s(v ...int32) []byte {
	b := make([]byte, 4*len(v))
	for i, x := range v {
		binary.LittleEndian.PutUint32(b[4*i:], uint32(x))
	}
	return b
}

func f32s(v ...float32) []byte {
	b := make([]byte, 4*len(v))
	for i, x := range v {
		binary.LittleEndian.PutUint32(b[4*i:], math.Float32bits(x))
	}
	return b
}

func cat(bs ...[]byte) []byte { return bytes.Join(bs, nil) }

func zeros(n int) []byte { return make([]byte, n) }

func cloneBufs(in map[string][]byte) map[string][]byte {
	out := map[string][]byte{}
	for k, v := range in {
		out[k] = append([]byte(nil), v...)
	}
	return out
}

func words(b []byte) string {
	s := "["
	for i := 0; i+4 <= len(b); i += 4 {
		if i > 0 {
			s += " "
		}
		s += fmt.Sprintf("%#x", binary.LittleEndian.Uint32(b[i:]))
	}
	return s + "]"
}

// e2e compiles src under every config, runs entry over a copy of bufs and
// compares every buffer named in want.
func e2e(t *testing.T, src, entry string, bufs, want map[string][]byte) {
	t.Helper()
	e2eIn(t, src, xrt.Input{Entry: entry, Buffers: bufs}, want)
}

func e2eIn(t *testing.T, src string, in xrt.Input, want map[string][]byte) {
	t.Helper()
	for _, c := range configs() {
		bin, err := compileWGSL(src, c.opts)
		if err != nil {
			t.Fatalf("%s: naga: %v", c.name, err)
		}
		run := in
		run.Buffers = cloneBufs(in.Buffers)
		out := Run(bin, run)
		if !out.OK() {
			m, _ := Decode(bin)
			t.Fatalf("%s: trap=%q skip=%q\n%s", c.name, out.Trap, out.Skip, Disasm(m))
		}
		for k, w := range want {
			if !bytes.Equal(run.Buffers[k], w) {
				m, _ := Decode(bin)
				t.Fatalf("%s: buffer %s\n got  %s\n want %s\n%s", c.name, k, words(run.Buffers[k]), words(w), Disasm(m))
			}
		}
	}
}
