package spv

import (
	"testing"
)

// Hand-assembled checks of opcodes and extended instructions that naga does
// not (or not reliably) emit.  Expected values are computed by hand.
func TestHandAssembledOps(t *testing.T) {
	const (
		fHalf    = 0x3f000000
		fQuarter = 0x3e800000
		fFour    = 0x40800000
		fNegZero = 0x80000000
	)
	for _, c := range []asmCase{
		{name: "roundeven-2.5", body: ext1("RoundEven", "f32"), in: []uint32{0x40200000, 0, 0, 0}, want: map[int]uint32{3: fTwo}},
		{name: "roundeven-3.5", body: ext1("RoundEven", "f32"), in: []uint32{0x40600000, 0, 0, 0}, want: map[int]uint32{3: fFour}},
		{name: "round-minus-half", body: ext1("Round", "f32"), in: []uint32{0xbf000000, 0, 0, 0}, want: map[int]uint32{3: fNegZero}},
		{name: "fmin", body: ext2("FMin", "f32"), in: []uint32{fTwo, fNeg1, 0, 0}, want: map[int]uint32{3: fNeg1}},
		{name: "fmax", body: ext2("FMax", "f32"), in: []uint32{fTwo, fNeg1, 0, 0}, want: map[int]uint32{3: fTwo}},
		{name: "nmin-nan", body: ext2("NMin", "f32"), in: []uint32{fNaN, fOne, 0, 0}, want: map[int]uint32{3: fOne}},
		{name: "nmax-nan", body: ext2("NMax", "f32"), in: []uint32{fTwo, fNaN, 0, 0}, want: map[int]uint32{3: fTwo}},
		{name: "step", body: ext2("Step", "f32"), in: []uint32{fTwo, fOne, 0, 0}, want: map[int]uint32{3: 0}},
		{name: "fsign-negzero", body: ext1("FSign", "f32"), in: []uint32{fNegZero, 0, 0, 7}, want: map[int]uint32{3: 0}},
		{name: "findsmsb-neg", body: ext1("FindSMsb", "i32"), in: []uint32{0xffffff00, 0, 0, 0}, want: map[int]uint32{3: 7}},
		{name: "findsmsb-minus1", body: ext1("FindSMsb", "i32"), in: []uint32{0xffffffff, 0, 0, 0}, want: map[int]uint32{3: 0xffffffff}},
		{name: "findumsb", body: ext1("FindUMsb", "u32"), in: []uint32{0x80000001, 0, 0, 0}, want: map[int]uint32{3: 31}},
		{name: "findilsb", body: ext1("FindILsb", "u32"), in: []uint32{0x80000000, 0, 0, 0}, want: map[int]uint32{3: 31}},
		{name: "sabs-min", body: ext1("SAbs", "i32"), in: []uint32{intMin, 0, 0, 0}, want: map[int]uint32{3: intMin}},
		{name: "ssign", body: ext1("SSign", "i32"), in: []uint32{0xfffffff0, 0, 0, 0}, want: map[int]uint32{3: 0xffffffff}},
		{name: "smin", body: ext2("SMin", "i32"), in: []uint32{0xffffffff, 1, 0, 0}, want: map[int]uint32{3: 0xffffffff}},
		{name: "umin", body: ext2("UMin", "u32"), in: []uint32{0xffffffff, 1, 0, 0}, want: map[int]uint32{3: 1}},
		{name: "fma", body: ext3("Fma", "f32"), in: []uint32{fTwo, fThree, fOne, 0}, want: map[int]uint32{3: 0x40e00000}},
		{name: "fmix", body: ext3("FMix", "f32"), in: []uint32{fTwo, fFour, fHalf, 0}, want: map[int]uint32{3: fThree}},
		{name: "frem", body: binop("OpFRem", "f32"), in: []uint32{0xc0b00000 /* -5.5 */, fTwo, 0}, want: map[int]uint32{2: 0xbfc00000}},
		{name: "fmod", body: binop("OpFMod", "f32"), in: []uint32{0xc0b00000, fTwo, 0}, want: map[int]uint32{2: fHalf}},
		{name: "fmod-neg-divisor", body: binop("OpFMod", "f32"), in: []uint32{0x40b00000, 0xc0000000, 0}, want: map[int]uint32{2: 0xbf000000}},
		{
			name:  "ldexp-frexp-modf",
			decls: "%pf_i32 = OpTypePointer Function %i32\n%pf_f32 = OpTypePointer Function %f32\n%c4i = OpConstant %i32 4\n",
			body: "%ev = OpVariable %pf_i32 Function\n%wv = OpVariable %pf_f32 Function\n" + ldAs("a", "f32", 0) +
				"%l = OpExtInst %f32 %glsl Ldexp %a %c4i\n" + stAs(1, "l") +
				"%fr = OpExtInst %f32 %glsl Frexp %l %ev\n%e = OpLoad %i32 %ev\n" + stAs(2, "fr") + stAs(3, "e") +
				"%mf = OpExtInst %f32 %glsl Modf %a %wv\n%wh = OpLoad %f32 %wv\n" + stAs(4, "mf") + stAs(5, "wh") + "OpReturn\n",
			// a = 1.5: ldexp = 24 ; frexp(24) = 0.75, 5 ; modf(1.5) = 0.5, 1
			in: []uint32{0x3fc00000, 0, 0, 0, 0, 0}, want: map[int]uint32{1: 0x41c00000, 2: 0x3f400000, 3: 5, 4: fHalf, 5: fOne},
		},
		{
			name:  "matrix-inverse-outer-product",
			decls: "%m22 = OpTypeMatrix %v2f 2\n%f0 = OpConstant %f32 0\n%f2 = OpConstant %f32 2\n%f4 = OpConstant %f32 4\n%f3 = OpConstant %f32 3\n",
			body: "%c0v = OpCompositeConstruct %v2f %f2 %f0\n%c1v = OpCompositeConstruct %v2f %f0 %f4\n%m = OpCompositeConstruct %m22 %c0v %c1v\n" +
				"%inv = OpExtInst %m22 %glsl MatrixInverse %m\n%i00 = OpCompositeExtract %f32 %inv 0 0\n%i11 = OpCompositeExtract %f32 %inv 1 1\n%i01 = OpCompositeExtract %f32 %inv 0 1\n" +
				"%i01p = OpFAdd %f32 %i01 %f2\n" + stAs(0, "i00") + stAs(1, "i11") + stAs(2, "i01p") +
				"%va = OpCompositeConstruct %v2f %f2 %f3\n%vb = OpCompositeConstruct %v2f %f4 %f2\n%op = OpOuterProduct %m22 %va %vb\n" +
				"%o01 = OpCompositeExtract %f32 %op 0 1\n%o10 = OpCompositeExtract %f32 %op 1 0\n" + stAs(3, "o01") + stAs(4, "o10") +
				"%ins = OpCompositeInsert %m22 %f3 %m 1 0\n%x = OpCompositeExtract %f32 %ins 1 0\n%y = OpCompositeExtract %f32 %ins 1 1\n" + stAs(5, "x") + stAs(6, "y") +
				"%sel = OpSelect %m22 %false %m %op\n%sl = OpCopyLogical %m22 %sel\n%z = OpCompositeExtract %f32 %sl 0 0\n" + stAs(7, "z") + "OpReturn\n",
			// inverse(diag(2,4)) = diag(.5,.25) ; outer((2,3),(4,2)): column j = a * b[j]: col0 = (8,12), col1 = (4,6)
			in:   []uint32{0, 0, 0, 0, 0, 0, 0, 0},
			want: map[int]uint32{0: fHalf, 1: fQuarter, 2: fTwo, 3: 0x41400000, 4: fFour, 5: fThree, 6: fFour, 7: 0x41000000},
		},
		{
			name:  "extended-arithmetic",
			decls: "%pair = OpTypeStruct %u32 %u32\n%pairi = OpTypeStruct %i32 %i32\n%c8 = OpConstant %u32 8\n%c9 = OpConstant %u32 9\n",
			body: ld("a", 0) + ld("b", 1) +
				"%ac = OpIAddCarry %pair %a %b\n%ac0 = OpCompositeExtract %u32 %ac 0\n%ac1 = OpCompositeExtract %u32 %ac 1\n" + st(2, "ac0") + st(3, "ac1") +
				"%sb = OpISubBorrow %pair %b %a\n%sb0 = OpCompositeExtract %u32 %sb 0\n%sb1 = OpCompositeExtract %u32 %sb 1\n" + st(4, "sb0") + st(5, "sb1") +
				"%um = OpUMulExtended %pair %a %b\n%um0 = OpCompositeExtract %u32 %um 0\n%um1 = OpCompositeExtract %u32 %um 1\n" + st(6, "um0") + st(7, "um1") +
				"%ai = OpBitcast %i32 %a\n%bi = OpBitcast %i32 %b\n%sm = OpSMulExtended %pairi %ai %bi\n%sm0 = OpCompositeExtract %i32 %sm 0\n%sm1 = OpCompositeExtract %i32 %sm 1\n" + stAs(8, "sm0") + stAs(9, "sm1") + "OpReturn\n",
			// a=0xffffffff b=3: add = 2 carry 1 ; 3-0xffffffff = 4 borrow 1 ; umul = 0x2_fffffffd ; smul = -1*3 = -3 (hi = -1)
			in:   []uint32{0xffffffff, 3, 0, 0, 0, 0, 0, 0, 0, 0},
			want: map[int]uint32{2: 2, 3: 1, 4: 4, 5: 1, 6: 0xfffffffd, 7: 2, 8: 0xfffffffd, 9: 0xffffffff},
		},
		{
			name: "float-classification-and-unordered",
			body: ldAs("a", "f32", 0) + ldAs("b", "f32", 1) +
				"%n = OpIsNan %bool %a\n%i = OpIsInf %bool %b\n%ue = OpFUnordEqual %bool %a %b\n%oe = OpFOrdNotEqual %bool %a %b\n%ul = OpFUnordLessThan %bool %b %a\n%ol = OpFOrdGreaterThan %bool %b %b\n" +
				"%s0 = OpSelect %u32 %n %c1 %c0\n%s1 = OpSelect %u32 %i %c2 %c0\n%s2 = OpSelect %u32 %ue %c4 %c0\n%s3 = OpSelect %u32 %oe %c1 %c0\n%s4 = OpSelect %u32 %ul %c2 %c0\n%s5 = OpSelect %u32 %ol %c4 %c0\n" +
				"%t0 = OpIAdd %u32 %s0 %s1\n%t1 = OpIAdd %u32 %t0 %s2\n%t2 = OpIAdd %u32 %s3 %s4\n%t3 = OpIAdd %u32 %t2 %s5\n" + st(2, "t1") + st(3, "t3") + "OpReturn\n",
			// a = NaN, b = +Inf: isnan 1, isinf 2, unordered-equal 4 -> 7 ; ord-not-equal 0, unord-less 2, ord-greater(inf,inf) 0 -> 2
			in: []uint32{fNaN, fInf, 0, 0}, want: map[int]uint32{2: 7, 3: 2},
		},
		{
			name:  "packed-dot",
			decls: "OpCapability DotProduct\nOpCapability DotProductInput4x8BitPacked\n",
			body:  ld("a", 0) + ld("b", 1) + "%sd = OpSDot %i32 %a %b 0\n%ud = OpUDot %u32 %a %b 0\n" + stAs(2, "sd") + st(3, "ud") + "OpReturn\n",
			// a = bytes (1, 2, 0xff, 4), b = bytes (5, 6, 7, 0x80): signed 5+12-7-512 = -502 ; unsigned 5+12+1785+512 = 2314
			in: []uint32{0x04ff0201, 0x80070605, 0, 0}, want: map[int]uint32{2: 0xfffffe0a, 3: 2314},
		},
		{
			name:  "f64-and-f16",
			decls: "OpCapability Float64\nOpCapability Float16\n%f64 = OpTypeFloat 64\n%f16 = OpTypeFloat 16\n%third = OpConstant %f64 3\n%one64 = OpConstant %f64 1\n",
			body: "%q = OpFDiv %f64 %one64 %third\n%qv = OpBitcast %v2u %q\n%lo = OpCompositeExtract %u32 %qv 0\n%hi = OpCompositeExtract %u32 %qv 1\n" + st(0, "lo") + st(1, "hi") +
				"%n = OpFConvert %f32 %q\n" + stAs(2, "n") +
				"%h = OpFConvert %f16 %n\n%hh = OpFAdd %f16 %h %h\n%back = OpFConvert %f32 %hh\n" + stAs(3, "back") + "OpReturn\n",
			// 1/3 = 0x3fd5555555555555 ; f32 0x3eaaaaab ; f16(1/3) = 0x3555 (0.333251953125), doubled 0x3955 = 0.66650390625 = f32 0x3f2aa000
			in: []uint32{0, 0, 0, 0}, want: map[int]uint32{0: 0x55555555, 1: 0x3fd55555, 2: 0x3eaaaaab, 3: 0x3f2aa000},
		},
	} {
		runAsmCase(t, c)
	}
}
